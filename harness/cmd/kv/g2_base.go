package main

// Shared machinery of the real-code search drivers `corrupt` (C02), `trunc` (C09), `fuzzdec` (C03):
// base streams written by the REAL Writer from generated data (cached), located with the INDEPENDENT
// container parser, and a watchdog-protected read loop over the REAL Reader.

import (
	"bytes"
	"fmt"
	"io"
	"math/rand"
	"sort"
	"strconv"
	"strings"
	"sync"
	"time"

	"kverif/internal/container"
	"kverif/internal/gen"

	kio "github.com/flanglet/kanzi-go/v2/io"
)

var g2Entropies = []string{"NONE", "HUFFMAN", "ANS0", "ANS1", "RANGE", "FPAQ", "CM", "TPAQ", "TPAQX"}

var g2Transforms = []string{"NONE", "BWT", "BWTS", "LZ", "LZX", "LZP", "ROLZ", "ROLZX", "RLT", "ZRLT", "MTFT", "RANK", "SRT",
	"TEXT", "EXE", "MM", "UTF", "PACK", "DNA"}

// g2Cfg describes one base stream completely (data generator + writer parameters).
type g2Cfg struct {
	Ent, Tr string
	Bs      int
	Ck      int
	Wj      int
	Shape   string
	Sz      int
	Ds      int64
	Skip    bool // ctx skipBlocks=true
	Hl      bool // headerless
	Hint    bool // give the writer the exact size (stored in the header)
}

func (c g2Cfg) String() string {
	b2i := func(b bool) int {
		if b {
			return 1
		}
		return 0
	}
	return fmt.Sprintf("e=%s t=%s bs=%d ck=%d wj=%d sh=%s sz=%d ds=%d skip=%d hl=%d hint=%d",
		c.Ent, c.Tr, c.Bs, c.Ck, c.Wj, c.Shape, c.Sz, c.Ds, b2i(c.Skip), b2i(c.Hl), b2i(c.Hint))
}

// g2KV splits "word k=v k=v ..." into the leading word and a map.
func g2KV(op string) (string, map[string]string) {
	f := strings.Fields(op)
	m := map[string]string{}
	if len(f) == 0 {
		return "", m
	}
	for _, w := range f[1:] {
		if i := strings.IndexByte(w, '='); i > 0 {
			m[w[:i]] = w[i+1:]
		}
	}
	return f[0], m
}

func g2Int(m map[string]string, k string, def int) int {
	if v, ok := m[k]; ok {
		if x, err := strconv.Atoi(v); err == nil {
			return x
		}
	}
	return def
}

func g2CfgFrom(m map[string]string) (g2Cfg, error) {
	c := g2Cfg{Ent: m["e"], Tr: m["t"], Bs: g2Int(m, "bs", 0), Ck: g2Int(m, "ck", 0), Wj: g2Int(m, "wj", 1),
		Shape: m["sh"], Sz: g2Int(m, "sz", -1), Ds: int64(g2Int(m, "ds", 0)),
		Skip: g2Int(m, "skip", 0) != 0, Hl: g2Int(m, "hl", 0) != 0, Hint: g2Int(m, "hint", 0) != 0}
	if c.Ent == "" || c.Tr == "" || c.Bs < 1024 || c.Bs&15 != 0 || c.Sz < 0 || c.Wj < 1 || c.Wj > 64 ||
		(c.Ck != 0 && c.Ck != 32 && c.Ck != 64) {
		return c, fmt.Errorf("bad base configuration")
	}
	if g2ShapeFn(c.Shape) == nil {
		return c, fmt.Errorf("unknown data shape %q", c.Shape)
	}
	return c, nil
}

func g2ShapeFn(name string) func(r *rand.Rand, n int) []byte {
	if name == "mix" {
		// several shapes glued together (exercises per-block codec decisions)
		return func(r *rand.Rand, n int) []byte {
			var b []byte
			for len(b) < n {
				s := gen.Shapes[r.Intn(len(gen.Shapes))]
				k := 1 + r.Intn(n/3+1)
				b = append(b, s.F(r, k)...)
			}
			return b[:n]
		}
	}
	for _, s := range gen.Shapes {
		if s.Name == name {
			return s.F
		}
	}
	return nil
}

// g2Block is one data frame of a base stream with the payload regions found by the independent parser.
// All offsets are absolute bit positions in the stream.
type g2Block struct {
	Frame            int
	PayOff, LenBits  uint64
	ProEnd           uint64 // end of mode byte [+skip flags] + length field
	CkEnd            uint64 // end of the stored checksum (== ProEnd when no checksum)
	Copy             bool
	PreLen, Checksum uint64
}

type g2Stream struct {
	Cfg     g2Cfg
	Data    []byte
	Comp    []byte
	St      *container.Stream
	Blocks  []g2Block
	HdrBits uint64
	Err     string
}

func (s *g2Stream) ckSize() uint { return uint(s.Cfg.Ck / 32) }

type g2CacheEntry struct {
	once sync.Once
	s    *g2Stream
}

var (
	g2CacheMu    sync.Mutex
	g2Cache      = map[string]*g2CacheEntry{}
	g2CacheOrder []string
	g2CacheBytes int
)

// g2Base returns the (cached) base stream of a configuration.
func g2Base(c g2Cfg) *g2Stream {
	key := c.String()
	g2CacheMu.Lock()
	e, ok := g2Cache[key]
	if !ok {
		e = &g2CacheEntry{}
		g2Cache[key] = e
		g2CacheOrder = append(g2CacheOrder, key)
	}
	g2CacheMu.Unlock()
	e.once.Do(func() {
		e.s = g2Build(c)
		g2CacheMu.Lock()
		g2CacheBytes += len(e.s.Data) + 2*len(e.s.Comp)
		// FIFO eviction (ops of one base are generated together)
		for g2CacheBytes > 768<<20 && len(g2CacheOrder) > 8 {
			k := g2CacheOrder[0]
			g2CacheOrder = g2CacheOrder[1:]
			if old := g2Cache[k]; old != nil && old.s != nil && k != key {
				g2CacheBytes -= len(old.s.Data) + 2*len(old.s.Comp)
				delete(g2Cache, k)
			}
		}
		g2CacheMu.Unlock()
	})
	return e.s
}

func g2Build(c g2Cfg) (s *g2Stream) {
	s = &g2Stream{Cfg: c}
	defer func() {
		if r := recover(); r != nil {
			s.Err = "writer-panic: " + fmt.Sprint(r)
		}
	}()
	s.Data = g2ShapeFn(c.Shape)(rand.New(rand.NewSource(c.Ds)), c.Sz)
	if len(s.Data) > c.Sz {
		s.Data = s.Data[:c.Sz]
	}
	sink := &memSink{}
	ctx := map[string]any{"entropy": c.Ent, "transform": c.Tr, "blockSize": uint(c.Bs), "jobs": uint(c.Wj),
		"checksum": uint(c.Ck), "headerless": c.Hl}
	if c.Skip {
		ctx["skipBlocks"] = true
	}
	if c.Hint {
		ctx["fileSize"] = int64(len(s.Data))
	}
	w, err := kio.NewWriterWithCtx(sink, ctx)
	if err != nil {
		s.Err = "writer-ctor: " + err.Error()
		return s
	}
	if len(s.Data) > 0 {
		if _, err = w.Write(s.Data); err != nil {
			s.Err = "write: " + err.Error()
			return s
		}
	}
	if err = w.Close(); err != nil {
		s.Err = "close: " + err.Error()
		return s
	}
	s.Comp = append([]byte{}, sink.Bytes()...)
	st, err := container.Parse(s.Comp, c.Hl)
	if err != nil || !st.Complete {
		s.Err = fmt.Sprintf("independent parser rejects the stream: %v complete=%v", err, st != nil && st.Complete)
		return s
	}
	s.St = st
	if st.Header != nil {
		s.HdrBits = st.Header.Bits
		if int(st.Header.CkSize)*32 != c.Ck || int(st.Header.BlockSize) != c.Bs || !st.Header.CrcOK {
			s.Err = "independent parser: header fields differ from the configuration"
			return s
		}
	}
	for i, f := range st.Frames {
		if f.LenBits == 0 {
			continue
		}
		p, err := container.ParsePrologue(f.Payload, s.ckSize())
		if err != nil || p.Bits > f.LenBits {
			s.Err = fmt.Sprintf("independent parser: bad prologue in frame %d", i)
			return s
		}
		ckBits := uint64(c.Ck)
		s.Blocks = append(s.Blocks, g2Block{Frame: i, PayOff: f.PayOff, LenBits: f.LenBits,
			ProEnd: f.PayOff + p.Bits - ckBits, CkEnd: f.PayOff + p.Bits, Copy: p.Copy, PreLen: p.PreLen, Checksum: p.Checksum})
	}
	want := (len(s.Data) + c.Bs - 1) / c.Bs
	if len(s.Blocks) != want {
		s.Err = fmt.Sprintf("independent parser: %d data frames, expected %d", len(s.Blocks), want)
	}
	return s
}

// ---- bit helpers over a byte slice (MSB first, as the bitstream) -------------------------------

func g2GetBits(b []byte, pos uint64, n uint) uint64 {
	var v uint64
	for i := uint(0); i < n; i++ {
		p := pos + uint64(i)
		v = (v << 1) | uint64((b[p>>3]>>(7-(p&7)))&1)
	}
	return v
}

func g2SetBits(b []byte, pos uint64, n uint, v uint64) {
	for i := uint(0); i < n; i++ {
		p := pos + uint64(i)
		bit := byte((v >> (n - 1 - i)) & 1)
		m := byte(1) << (7 - (p & 7))
		if bit != 0 {
			b[p>>3] |= m
		} else {
			b[p>>3] &^= m
		}
	}
}

// ---- reading through the real Reader -----------------------------------------------------------

type g2ReaderSpec struct {
	Jobs int
	Hl   bool
	Cfg  g2Cfg // used when Hl
	Hint int64 // original size given to the headerless reader (0 = unknown)
	Rd   int   // size of the buffer handed to Read
}

type g2ReadOutcome struct {
	Out      []byte
	Err      error // terminal error (nil when EOF was reached cleanly)
	CtorErr  error
	AfterN   [3]int // n returned by the three Reads following an error
	AfterErr [3]error
	Panic    string
	Hung     bool
}

func g2NewReader(src []byte, sp g2ReaderSpec) (*kio.Reader, error) {
	is := rdCloser{bytes.NewReader(src)}
	if sp.Hl {
		return kio.NewHeaderlessReader(is, uint(sp.Jobs), sp.Cfg.Tr, sp.Cfg.Ent, uint(sp.Cfg.Bs), uint(sp.Cfg.Ck), sp.Hint, 6)
	}
	return kio.NewReader(is, uint(sp.Jobs))
}

// g2ReadAll reads src to the end with the real Reader (own goroutine + watchdog).  After an error it
// calls Read three more times and records what they return.
func g2ReadAll(src []byte, sp g2ReaderSpec, limit int, timeout time.Duration) *g2ReadOutcome {
	done := make(chan *g2ReadOutcome, 1)
	go func() {
		o := &g2ReadOutcome{}
		defer func() {
			if r := recover(); r != nil {
				o.Panic = fmt.Sprint(r)
			}
			done <- o
		}()
		r, err := g2NewReader(src, sp)
		if err != nil {
			o.CtorErr = err
			return
		}
		defer r.Close()
		rd := sp.Rd
		if rd <= 0 {
			rd = 65536
		}
		buf := make([]byte, rd)
		zeroReads := 0
		for {
			n, err := r.Read(buf)
			if n < 0 || n > len(buf) {
				o.Panic = fmt.Sprintf("Read returned n=%d for a buffer of %d", n, len(buf))
				return
			}
			o.Out = append(o.Out, buf[:n]...)
			if err == io.EOF {
				return
			}
			if err != nil {
				o.Err = err
				for k := 0; k < 3; k++ {
					n, e := r.Read(buf)
					o.AfterN[k], o.AfterErr[k] = n, e
					if n > 0 && n <= len(buf) {
						o.Out = append(o.Out, buf[:n]...)
					}
				}
				return
			}
			if n == 0 && len(buf) > 0 {
				// (0, nil) is legal for io.Reader but must not repeat for ever
				if zeroReads++; zeroReads > 1000 {
					o.Panic = "Read keeps returning (0, nil)"
					return
				}
			}
			if len(o.Out) > limit+(1<<20) {
				o.Panic = "output exceeds every plausible size"
				return
			}
		}
	}()
	select {
	case o := <-done:
		return o
	case <-time.After(timeout):
		return &g2ReadOutcome{Hung: true}
	}
}

func g2ErrClass(err error) string {
	if err == nil {
		return "nil"
	}
	if e, ok := err.(*kio.IOError); ok {
		return "io" + strconv.Itoa(e.ErrorCode())
	}
	if e, ok := err.(kio.IOError); ok {
		return "io" + strconv.Itoa(e.ErrorCode())
	}
	return "other"
}

func g2Prefix(a, b []byte) bool { return len(a) <= len(b) && bytes.Equal(a, b[:len(a)]) }

func g2FirstDiff(a, b []byte) int {
	n := min(len(a), len(b))
	for i := 0; i < n; i++ {
		if a[i] != b[i] {
			return i
		}
	}
	return n
}

func g2SortedKeys(m map[string]int) []string {
	k := make([]string, 0, len(m))
	for s := range m {
		k = append(k, s)
	}
	sort.Strings(k)
	return k
}

const g2ReadTimeout = 120 * time.Second // in-process watchdog: >= 50x the slowest observed scenario

// g2ViolationGate keeps the report diverse: the stats keep at most 20 violations, so only the first few of each
// (stream, site, symptom) class become a Violation; later ones are still counted through their tag.
var (
	g2GateMu sync.Mutex
	g2Gate   = map[string]int{}
)

func g2ViolationGate(stream, site, symptom string) bool {
	g2GateMu.Lock()
	defer g2GateMu.Unlock()
	k := stream + "|" + site + "|" + symptom
	g2Gate[k]++
	return g2Gate[k] <= 4
}
