package main

import (
	"fmt"
	"math/rand"
	"strconv"
	"strings"

	"github.com/flanglet/kanzi-go/v2/entropy"
)

func init() {
	registerStream(&Stream{
		Name: "norm",
		Rule: "histograms over 256 symbols: exhaustive 4-symbol/small-count family at scale 256, directed k-rare+m-dominant at every scale, Fibonacci, total~scale, random (5 shapes, total<2^27); distinct_nontrivial = distinct (histogram, scale) whose proportional rounding does not already sum to scale (the redistribution code runs)",
		Gen: func(r *rand.Rand, tier string, n int, emit func(op string, tags ...string)) {
			normGen(r, tier, n, func(c normCase) { emit(normOp(c), "family:"+c.Fam) })
		},
		Exec: normExec,
	})
}

// runNorm calls the real NormalizeFrequencies on a copy; returns canonical line + outputs
func runNorm(h []int, total, scale int) (line string, size int, alpha []int, out []int, perr string) {
	freqs := make([]int, len(h))
	copy(freqs, h)
	alphabet := make([]int, len(h))
	defer func() {
		if r := recover(); r != nil {
			perr = fmt.Sprint(r)
			line = "panic"
		}
	}()
	as, err := entropy.NormalizeFrequencies(freqs, alphabet, total, scale)
	if err != nil {
		msg := "alphabet"
		if strings.Contains(err.Error(), "range") {
			msg = "range"
		}
		return "err " + msg, 0, nil, nil, ""
	}
	var sb strings.Builder
	sb.WriteString("ok ")
	sb.WriteString(strconv.Itoa(as))
	sb.WriteString(" |")
	for i := 0; i < as; i++ {
		sb.WriteByte(' ')
		sb.WriteString(strconv.Itoa(alphabet[i]))
	}
	sb.WriteString(" |")
	for _, f := range freqs {
		sb.WriteByte(' ')
		sb.WriteString(strconv.Itoa(f))
	}
	return sb.String(), as, alphabet[:as], freqs, ""
}

// property oracle (C16) on the real function
func normOracle(h []int, scale int) string {
	total, n := 0, 0
	for _, f := range h {
		total += f
		if f > 0 {
			n++
		}
	}
	if total == 0 || n > scale {
		return ""
	}
	line, as, alpha, out, perr := runNorm(h, total, scale)
	if perr != "" {
		return "panic: " + perr
	}
	if strings.HasPrefix(line, "err") {
		return "unexpected error " + line
	}
	sum := 0
	for i, f := range out {
		sum += f
		if f < 0 {
			return fmt.Sprintf("negative frequency at %d", i)
		}
		if (h[i] > 0) != (f > 0) {
			return fmt.Sprintf("support changed at symbol %d (in %d out %d)", i, h[i], f)
		}
	}
	if as != n {
		return fmt.Sprintf("alphabet size %d, expected %d", as, n)
	}
	k := 0
	for i, f := range h {
		if f > 0 {
			if alpha[k] != i {
				return fmt.Sprintf("alphabet[%d]=%d expected %d", k, alpha[k], i)
			}
			k++
		}
	}
	if sum != scale {
		return fmt.Sprintf("sum %d != scale %d", sum, scale)
	}
	return ""
}

type normCase struct {
	H     []int  `json:"h"`
	Scale int    `json:"scale"`
	Fam   string `json:"family"`
}

func normGen(r *rand.Rand, tier string, n int, emit func(c normCase)) {
	scales := []int{256, 512, 1024, 2048, 4096, 8192, 16384, 32768, 65536}
	// 1. exhaustive small: alphabets <= 4 symbols at fixed positions, counts <= 6, scale 256
	maxc := 5
	if tier == "thorough" {
		maxc = 8
	}
	pos := []int{0, 7, 100, 255}
	var rec func(i int, h []int)
	rec = func(i int, h []int) {
		if i == len(pos) {
			c := make([]int, 256)
			copy(c, h)
			emit(normCase{c, 256, "small-exhaustive"})
			return
		}
		for v := 0; v <= maxc; v++ {
			h[pos[i]] = v
			rec(i+1, h)
		}
		h[pos[i]] = 0
	}
	rec(0, make([]int, 256))
	// 2. directed k rare + m dominant
	step := 7
	if tier == "thorough" {
		step = 1
	}
	for _, sc := range scales {
		for k := 1; k <= 255; k += step {
			for _, m := range []int{1, 2, 3, 6, 17, 256 - k} {
				if m < 1 || k+m > 256 {
					continue
				}
				for _, big := range []int{2, 3, 16, 232, 5000, 1 << 20} {
					h := make([]int, 256)
					// rare first, dominant last; and the reverse layout
					for i := 0; i < k; i++ {
						h[i] = 1
					}
					for i := 0; i < m; i++ {
						h[255-i] = big + i
					}
					emit(normCase{h, sc, "rare+dominant"})
					h2 := make([]int, 256)
					for i := 0; i < m; i++ {
						h2[i] = big
					}
					for i := 0; i < k; i++ {
						h2[m+i] = 1 + (i & 1)
					}
					emit(normCase{h2, sc, "dominant+rare"})
				}
			}
		}
	}
	// 3. fibonacci / geometric
	for _, sc := range scales {
		for cnt := 2; cnt <= 40; cnt++ {
			h := make([]int, 256)
			a, b := 1, 1
			for i := 0; i < cnt; i++ {
				h[(i*37)%256] = a
				a, b = b, a+b
				if b > 1<<26 {
					break
				}
			}
			emit(normCase{h, sc, "fibonacci"})
		}
	}
	// 4. total == scale shortcut and neighbours
	for _, sc := range scales {
		for _, d := range []int{-1, 0, 1} {
			h := make([]int, 256)
			rest := sc + d
			for i := 0; i < 255 && rest > 1; i++ {
				v := 1 + r.Intn(min(rest-1, 1+sc/64))
				h[r.Intn(256)] += v
				rest -= v
			}
			h[r.Intn(256)] += rest
			emit(normCase{h, sc, "total~scale"})
		}
	}
	// 5. random
	if n == 0 {
		n = 20000
		if tier == "thorough" {
			n = 400000
		}
	}
	for i := 0; i < n; i++ {
		h := make([]int, 256)
		syms := 1 + r.Intn(256)
		shape := r.Intn(5)
		budget := 1 << (4 + r.Intn(23)) // total up to 2^27
		for j := 0; j < syms; j++ {
			idx := r.Intn(256)
			var v int
			switch shape {
			case 0:
				v = 1 + r.Intn(3)
			case 1:
				v = 1 + r.Intn(1+budget/syms)
			case 2:
				v = 1 << r.Intn(20)
			case 3:
				if r.Intn(20) == 0 {
					v = 1 + r.Intn(budget)
				} else {
					v = 1
				}
			default:
				v = 1 + int(r.ExpFloat64()*float64(budget)/float64(4*syms))
			}
			h[idx] = v
		}
		tot := 0
		for _, v := range h {
			tot += v
		}
		if tot >= 1<<27 {
			continue
		}
		emit(normCase{h, scales[r.Intn(len(scales))], "random"})
	}
	// 6. parameter errors and degenerate
	emit(normCase{make([]int, 256), 256, "all-zero"})
	h := make([]int, 256)
	h[3] = 9
	emit(normCase{h, 255, "bad-scale"})
	emit(normCase{h, 65537, "bad-scale"})
	emit(normCase{h, 65536, "single"})
}

func normOp(nc normCase) string {
	total := 0
	for _, f := range nc.H {
		total += f
	}
	var sb strings.Builder
	sb.WriteString("n ")
	sb.WriteString(strconv.Itoa(nc.Scale))
	sb.WriteByte(' ')
	sb.WriteString(strconv.Itoa(total))
	for _, f := range nc.H {
		sb.WriteByte(' ')
		sb.WriteString(strconv.Itoa(f))
	}
	return sb.String()
}

func normParse(op string) (h []int, total, scale int, ok bool) {
	w := strings.Fields(op)
	if len(w) < 3 || w[0] != "n" {
		return nil, 0, 0, false
	}
	v := make([]int, len(w)-1)
	for i := range v {
		x, err := strconv.Atoi(w[i+1])
		if err != nil {
			return nil, 0, 0, false
		}
		v[i] = x
	}
	return v[2:], v[1], v[0], true
}

func normExec(op string, res *Result) string {
	h, total, scale, ok := normParse(op)
	if !ok {
		return "bad-op"
	}
	sum := 0
	for _, f := range h {
		sum += f
	}
	if sum != total {
		return "pre"
	}
	line, _, _, _, perr := runNorm(h, total, scale)
	if perr != "" {
		line = "panic"
	}
	if scale >= 256 && scale <= 65536 && total > 0 && total != scale {
		s := 0
		for _, f := range h {
			if f == 0 {
				continue
			}
			if int64(f)*int64(scale) <= int64(total) {
				s++
			} else {
				s += int((int64(f)*int64(scale) + int64(total)/2) / int64(total))
			}
		}
		if s != scale {
			res.Nontrivial = true
			if s > scale {
				res.Tags = append(res.Tags, "dir:down")
			} else {
				res.Tags = append(res.Tags, "dir:up")
			}
		}
	}
	if scale >= 256 && scale <= 65536 && len(h) == 256 {
		if msg := normOracle(h, scale); msg != "" {
			res.Violation = &Violation{Kind: "input", Site: "entropy.NormalizeFrequencies", Symptom: symptomClass(msg), What: msg}
		}
	}
	nz := nonzero(h)
	if len(nz) > 12 {
		res.Sample = map[string]any{"scale": scale, "total": total, "present": len(nz), "op_prefix": op[:min(len(op), 120)]}
	} else {
		res.Sample = map[string]any{"scale": scale, "total": total, "nonzero": nz}
	}
	return line
}

func nonzero(h []int) map[string]int {
	m := map[string]int{}
	for i, f := range h {
		if f != 0 {
			m[strconv.Itoa(i)] = f
		}
	}
	return m
}

func symptomClass(msg string) string {
	switch {
	case strings.HasPrefix(msg, "sum"):
		return "sum!=scale"
	case strings.HasPrefix(msg, "support"):
		return "support-changed"
	case strings.HasPrefix(msg, "panic"):
		return "panic"
	case strings.HasPrefix(msg, "alphabet"):
		return "alphabet"
	}
	return "other"
}
