/-
inverseBiPSIv2, part 6: the decoding tasks never spin (`.hang`) and keep `dst` at its size, whenever
the shared tables are sane: some bucket end exceeds every reachable row, every row reachable through
`data` is at most `n`, the fast-bits entries are bucket indexes.  Index faults inside a task are
allowed here: the goroutine recovers them and `Inverse` returns the "invalid data" error.
-/
import Kanzi.Proofs.BWTBi5

namespace Kanzi.BWT

/-- a step that either panics (recovered by the task) or succeeds with a value satisfying `P` -/
def CleanP {α : Type} (P : α → Prop) (r : Res α) : Prop := r = .fault ∨ ∃ a, r = .ok a ∧ P a

theorem CleanP.bind {α β : Type} {P : α → Prop} {Q : β → Prop} {r : Res α} {f : α → Res β}
    (h : CleanP P r) (hf : ∀ a, r = .ok a → P a → CleanP Q (f a)) : CleanP Q (r.bind f) := by
  rcases h with h | ⟨a, h, hp⟩
  · subst h; exact Or.inl rfl
  · have := hf a h hp
    subst h; exact this

theorem CleanP.mono {α : Type} {P Q : α → Prop} {r : Res α} (h : CleanP P r) (hpq : ∀ a, P a → Q a) : CleanP Q r := by
  rcases h with h | ⟨a, h, hp⟩
  · exact Or.inl h
  · exact Or.inr ⟨a, h, hpq a hp⟩

/-- pointwise relation of two lists -/
inductive All2 {α β : Type} (R : α → β → Prop) : List α → List β → Prop
  | nil : All2 R [] []
  | cons {a : α} {b : β} {l : List α} {bs : List β} : R a b → All2 R l bs → All2 R (a :: l) (b :: bs)

theorem mapRes_clean {α β : Type} (f : α → Res β) (R : α → β → Prop) (l : List α)
    (h : ∀ a ∈ l, CleanP (R a) (f a)) : CleanP (fun bs => All2 R l bs) (mapRes f l) := by
  induction l with
  | nil => exact Or.inr ⟨[], rfl, All2.nil⟩
  | cons a as ih =>
    simp only [mapRes]
    apply CleanP.bind (h a List.mem_cons_self)
    intro b _ hb
    apply CleanP.bind (ih (fun x hx => h x (List.mem_cons_of_mem _ hx)))
    intro bs _ hbs
    exact Or.inr ⟨b :: bs, rfl, All2.cons hb hbs⟩

theorem forall₂_zip {α β : Type} {R : α → β → Prop} {l : List α} {bs : List β} (h : All2 R l bs) :
    ∀ x ∈ l.zip bs, R x.1 x.2 := by
  induction h with
  | nil => intro x hx; simp at hx
  | cons hab _ ih =>
    intro x hx
    simp only [List.zip_cons_cons, List.mem_cons] at hx
    rcases hx with rfl | hx
    · exact hab
    · exact ih x hx

theorem forall₂_right {α β : Type} {R : α → β → Prop} {l : List α} {bs : List β} (h : All2 R l bs) :
    ∀ b ∈ bs, ∃ a ∈ l, R a b := by
  induction h with
  | nil => intro b hb; simp at hb
  | cons hab _ ih =>
    intro b hb
    rcases List.mem_cons.1 hb with rfl | hb
    · exact ⟨_, List.mem_cons_self, hab⟩
    · obtain ⟨a, ha, hr⟩ := ih b hb
      exact ⟨a, List.mem_cons_of_mem _ ha, hr⟩

theorem forall₂_left {α β : Type} {R : α → β → Prop} {l : List α} {bs : List β} (h : All2 R l bs) :
    ∀ a ∈ l, ∃ b ∈ bs, R a b := by
  induction h with
  | nil => intro a ha; simp at ha
  | cons hab _ ih =>
    intro a ha
    rcases List.mem_cons.1 ha with rfl | ha
    · exact ⟨_, List.mem_cons_self, hab⟩
    · obtain ⟨b, hb, hr⟩ := ih a ha
      exact ⟨b, List.mem_cons_of_mem _ hb, hr⟩

/-! ### the scan loop -/

theorem scan_hit (bk : Array Nat) (hs : bk.size = 65536) (p : Nat) (t : Nat) (ht : t < 65536) (hgt : p < rd bk t)
    (fuel s : Nat) (hst : s ≤ t) (hfuel : t - s < fuel) :
    ∃ r, scan bk p fuel s = .ok r ∧ r ≤ t := by
  induction fuel generalizing s with
  | zero => omega
  | succ f ih =>
    have hs' : s < bk.size := by omega
    simp only [scan, hs', dite_true, rd_eq_getElem hs']
    by_cases hle : rd bk s ≤ p
    · have hne : s ≠ t := by intro e; subst e; omega
      have e : (s + 1) % 65536 = s + 1 := Nat.mod_eq_of_lt (by omega)
      rw [if_pos hle, e]
      exact ih (s + 1) (by omega) (by omega)
    · rw [if_neg hle]; exact ⟨s, rfl, hst⟩

theorem scan_wrap (bk : Array Nat) (hs : bk.size = 65536) (p : Nat) (fuel s : Nat) (hs2 : s ≤ 65536)
    (hno : ∀ u, s ≤ u → u < 65536 → rd bk u ≤ p) (hfuel : 65536 - s ≤ fuel) (hs1 : s < 65536 ∨ fuel = 0 ∨ True) :
    s < 65536 → scan bk p fuel s = scan bk p (fuel - (65536 - s)) 0 := by
  intro hlt
  induction fuel generalizing s with
  | zero => omega
  | succ f ih =>
    have hs' : s < bk.size := by omega
    simp only [scan, hs', dite_true, rd_eq_getElem hs', hno s (Nat.le_refl _) hlt, ite_true]
    by_cases hlast : s = 65535
    · subst hlast
      have : f + 1 - (65536 - 65535) = f := by omega
      rw [this]
    · have e : (s + 1) % 65536 = s + 1 := Nat.mod_eq_of_lt (by omega)
      rw [e, ih (s + 1) (by omega) (fun u h1 h2 => hno u (by omega) h2) (by omega) (Or.inr (Or.inr trivial)) (by omega)]
      congr 1; omega

/-- with some bucket end above `p` the scan ends (no `.hang`), at an index below 65536 -/
theorem scan_total (bk : Array Nat) (hs : bk.size = 65536) (p : Nat) (hex : ∃ t, t < 65536 ∧ p < rd bk t)
    (s : Nat) (hs2 : s < 65536) : ∃ r, scan bk p 65536 s = .ok r ∧ r < 65536 := by
  obtain ⟨t, ht, hgt⟩ := hex
  by_cases hst : s ≤ t
  · obtain ⟨r, h1, h2⟩ := scan_hit bk hs p t ht hgt 65536 s hst (by omega)
    exact ⟨r, h1, by omega⟩
  · by_cases hno : ∀ u, s ≤ u → u < 65536 → rd bk u ≤ p
    · rw [scan_wrap bk hs p 65536 s (by omega) hno (by omega) (Or.inl hs2) hs2]
      obtain ⟨r, h1, h2⟩ := scan_hit bk hs p t ht hgt (65536 - (65536 - s)) 0 (by omega) (by omega)
      exact ⟨r, h1, by omega⟩
    · -- a hit between s and the end of the table
      have : ∃ u, s ≤ u ∧ u < 65536 ∧ p < rd bk u := by
        refine Classical.byContradiction fun hcon => hno ?_
        intro u h1 h2
        refine Classical.byContradiction fun hgt' => hcon ⟨u, h1, h2, by omega⟩
      obtain ⟨u, hu1, hu2, hu3⟩ := this
      obtain ⟨r, h1, h2⟩ := scan_hit bk hs p u hu2 hu3 65536 s hu1 (by omega)
      exact ⟨r, h1, by omega⟩

/-! ### sane shared tables -/

structure ShOK (sh : Shared) (n : Nat) : Prop where
  bksize : sh.buckets.size = 65536
  top : ∃ t, t < 65536 ∧ n < rd sh.buckets t
  fbkeys : ∀ u, u < sh.fastBits.size → rd sh.fastBits u < 65536
  closed : ∀ p, p ≤ n → p < sh.data.size → rd sh.data p ≤ n

/-- a lane position the code can hold: a validated index (at most `n`, or "negative") or a row read from `data` -/
def GoodP (n p : Nat) : Prop := p ≤ n ∨ p ≥ 2 ^ 63

theorem lookup_clean (sh : Shared) (n : Nat) (hok : ShOK sh n) (p : Nat) :
    CleanP (fun s => p < 2 ^ 63 ∧ s < 65536) (lookup sh p) := by
  unfold lookup
  split
  · exact Or.inl rfl
  · next hp =>
    cases h : sh.fastBits[p >>> sh.shift]? with
    | none => exact Or.inl rfl
    | some v =>
      refine Or.inr ⟨v, rfl, by omega, ?_⟩
      have hlt : p >>> sh.shift < sh.fastBits.size := by
        rcases Nat.lt_or_ge (p >>> sh.shift) sh.fastBits.size with h1 | h1
        · exact h1
        · rw [Array.getElem?_eq_none h1] at h; cases h
      have := hok.fbkeys _ hlt
      rw [← rd_eq_getElem hlt] at this
      rw [Array.getElem?_eq_getElem hlt] at h
      injection h with h; rw [← h]; exact this

theorem write1_clean (dst : Array Nat) (pos v : Nat) : CleanP (fun d => d.size = dst.size) (write1 dst pos v) := by
  unfold write1
  split
  · exact Or.inl rfl
  · exact Or.inr ⟨_, rfl, by simp⟩

theorem writeFirst_clean (i : Nat) (ws : List (Nat × Nat)) (dst : Array Nat) :
    CleanP (fun d => d.size = dst.size) (writeFirst i ws dst) := by
  induction ws generalizing dst with
  | nil => exact Or.inr ⟨dst, rfl, rfl⟩
  | cons w ws ih =>
    obtain ⟨base, s⟩ := w
    simp only [writeFirst]
    apply CleanP.bind (write1_clean dst (base + i - 1) (s >>> 8))
    intro d _ hd
    exact (ih d).mono (fun a ha => by rw [ha, hd])

theorem writeSecond_clean (i : Nat) (ws : List (Nat × Nat)) (dst : Array Nat) :
    CleanP (fun d => d.size = dst.size) (writeSecond i ws dst) := by
  induction ws generalizing dst with
  | nil => exact Or.inr ⟨dst, rfl, rfl⟩
  | cons w ws ih =>
    obtain ⟨base, s⟩ := w
    simp only [writeSecond]
    apply CleanP.bind (write1_clean dst (base + i) s)
    intro d _ hd
    exact (ih d).mono (fun a ha => by rw [ha, hd])

theorem next_clean (sh : Shared) (n : Nat) (hok : ShOK sh n) (p : Nat) (hp : p ≤ n) :
    CleanP (fun q => q ≤ n) (next sh p) := by
  unfold next
  cases h : sh.data[p]? with
  | none => exact Or.inl rfl
  | some v =>
    refine Or.inr ⟨v, rfl, ?_⟩
    have hlt : p < sh.data.size := by
      rcases Nat.lt_or_ge p sh.data.size with h1 | h1
      · exact h1
      · rw [Array.getElem?_eq_none h1] at h; cases h
    have := hok.closed p hp hlt
    rw [← rd_eq_getElem hlt] at this
    rw [Array.getElem?_eq_getElem hlt] at h
    injection h with h; rw [← h]; exact this

/-- one iteration of a decoding loop: a recovered panic, or new lanes all at rows `<= n` and `dst` of
the same size; never an endless scan -/
theorem lanesIter_clean (sh : Shared) (n : Nat) (hok : ShOK sh n) (i : Nat) (second : Bool) (lanes : List (Nat × Nat))
    (hl : ∀ l ∈ lanes, GoodP n l.1) (dst : Array Nat) :
    CleanP (fun r => (∀ l ∈ r.1, GoodP n l.1) ∧ r.2.size = dst.size) (lanesIter sh i second lanes dst) := by
  unfold lanesIter
  apply CleanP.bind (mapRes_clean (fun l => lookup sh l.1) (fun l s => l.1 < 2 ^ 63 ∧ s < 65536) lanes
    (fun l _ => lookup_clean sh n hok l.1))
  intro ss0 _ hss0
  have hz := forall₂_zip hss0
  apply CleanP.bind (mapRes_clean (fun (x : (Nat × Nat) × Nat) => scan sh.buckets x.1.1 65536 x.2)
    (fun _ _ => True) (lanes.zip ss0) (by
      intro x hx
      obtain ⟨h1, h2⟩ := hz x hx
      have hmem : x.1 ∈ lanes := (List.of_mem_zip hx).1
      have hp : x.1.1 ≤ n := by
        rcases hl x.1 hmem with h | h
        · exact h
        · omega
      obtain ⟨t, ht, hgt⟩ := hok.top
      obtain ⟨r, hr, _⟩ := scan_total sh.buckets hok.bksize x.1.1 ⟨t, ht, by omega⟩ x.2 h2
      exact Or.inr ⟨r, hr, trivial⟩))
  intro ss _ _
  apply CleanP.bind (writeFirst_clean i ((lanes.map (·.2)).zip ss) dst)
  intro d0 _ hd0
  have hsec : CleanP (fun d : Array Nat => d.size = dst.size)
      (if second = true then writeSecond i ((lanes.map (·.2)).zip ss) d0 else Res.ok d0) := by
    cases second
    · exact Or.inr ⟨d0, rfl, hd0⟩
    · exact (writeSecond_clean i ((lanes.map (·.2)).zip ss) d0).mono (fun a ha => ha.trans hd0)
  apply CleanP.bind hsec
  intro d _ hd
  apply CleanP.bind (mapRes_clean (fun l => (next sh l.1).bind fun p => Res.ok (p, l.2))
    (fun _ (l' : Nat × Nat) => l'.1 ≤ n) lanes (by
      intro l hmem
      have hp : l.1 ≤ n := by
        have := forall₂_left hss0 l hmem
        obtain ⟨_, _, h1, _⟩ := this
        rcases hl l hmem with h | h
        · exact h
        · omega
      apply CleanP.bind (next_clean sh n hok l.1 hp)
      intro q _ hq
      exact Or.inr ⟨(q, l.2), rfl, hq⟩))
  intro lanes' _ hl'
  refine Or.inr ⟨(lanes', d), rfl, ?_, hd⟩
  intro l' hmem
  obtain ⟨a, _, hR⟩ := forall₂_right hl' l' hmem
  exact Or.inl hR

theorem lanesLoop_clean (sh : Shared) (n : Nat) (hok : ShOK sh n) (sec : Nat → Bool) (k i : Nat) (lanes : List (Nat × Nat))
    (hl : ∀ l ∈ lanes, GoodP n l.1) (dst : Array Nat) :
    CleanP (fun d => d.size = dst.size) (lanesLoop sh sec k i lanes dst) := by
  induction k generalizing i lanes dst with
  | zero => exact Or.inr ⟨dst, rfl, rfl⟩
  | succ k ih =>
    simp only [lanesLoop]
    apply CleanP.bind (lanesIter_clean sh n hok i (sec i) lanes hl dst)
    intro r _ hr
    exact (ih (i + 2) r.1 hr.1 r.2).mono (fun a ha => by rw [ha, hr.2])

theorem singleLoop_clean (sh : Shared) (n m : Nat) (hok : ShOK sh n)
    (hidx : ∀ c p, c < m → sh.indexes[c]? = some p → GoodP n p)
    (total ckSize lastChunk : Nat) (hlc : lastChunk ≤ m) (fuel c start : Nat) (dst : Array Nat) :
    CleanP (fun d => d.size = dst.size) (singleLoop sh total ckSize lastChunk fuel c start dst) := by
  induction fuel generalizing c start dst with
  | zero => exact Or.inr ⟨dst, rfl, rfl⟩
  | succ f ih =>
    simp only [singleLoop]
    split
    · next hcl =>
      cases h : sh.indexes[c]? with
      | none => exact Or.inl rfl
      | some p =>
        simp only
        have hp : GoodP n p := hidx c p (by omega) h
        apply CleanP.bind (lanesLoop_clean sh n hok _ _ _ [(p, 0)] (by
          intro l hl; simp at hl; subst hl; exact hp) dst)
        intro d _ hd
        exact (ih (c + 1) _ d).mono (fun a ha => by rw [ha, hd])
    · exact Or.inr ⟨dst, rfl, rfl⟩

theorem task_clean (sh : Shared) (n m : Nat) (hok : ShOK sh n)
    (hidx : ∀ c p, c < m → sh.indexes[c]? = some p → GoodP n p)
    (dst : Array Nat) (total start ckSize fc lc : Nat) (hlc : lc ≤ m) :
    CleanP (fun d => d.size = dst.size) (task sh dst total start ckSize fc lc) := by
  unfold task
  split
  · exact Or.inl rfl
  · simp only []
    split
    · -- the unrolled loop
      next hun =>
      cases h : mapRes (fun k => Res.ofOpt (sh.indexes[fc + k]?)) (List.range 8) with
      | fault => exact Or.inl rfl
      | hang =>
        -- impossible: Res.ofOpt never hangs
        exfalso
        have := mapRes_clean (fun k => Res.ofOpt (sh.indexes[fc + k]?)) (fun _ _ => True) (List.range 8)
          (by intro k _; cases sh.indexes[fc + k]? <;> simp [Res.ofOpt, CleanP])
        rw [h] at this
        rcases this with h1 | ⟨_, h1, _⟩ <;> cases h1
      | err e =>
        exfalso
        have := mapRes_clean (fun k => Res.ofOpt (sh.indexes[fc + k]?)) (fun _ _ => True) (List.range 8)
          (by intro k _; cases sh.indexes[fc + k]? <;> simp [Res.ofOpt, CleanP])
        rw [h] at this
        rcases this with h1 | ⟨_, h1, _⟩ <;> cases h1
      | ok ps =>
        simp only
        have hps : ∀ p ∈ ps, GoodP n p := by
          have := mapRes_clean (fun k => Res.ofOpt (sh.indexes[fc + k]?)) (fun _ p => GoodP n p) (List.range 8)
            (by
              intro k _
              cases hk : sh.indexes[fc + k]? with
              | none => exact Or.inl rfl
              | some p =>
                next hkm =>
                exact Or.inr ⟨p, rfl, hidx (fc + k) p (by have := List.mem_range.1 hkm; omega) hk⟩)
          rw [h] at this
          rcases this with h1 | ⟨bs, h1, h2⟩
          · cases h1
          · injection h1 with h1; subst h1
            intro p hp
            obtain ⟨_, _, hr⟩ := forall₂_right h2 p hp
            exact hr
        apply CleanP.bind (P := fun x : Nat × Nat × Array Nat => x.2.2.size = dst.size)
        · apply CleanP.bind (lanesLoop_clean sh n hok _ _ _ (ps.zip ((List.range 8).map (· * ckSize))) (by
            intro l hl
            exact hps l.1 (List.of_mem_zip hl).1) dst)
          intro d _ hd
          exact Or.inr ⟨(fc + 8, start + 8 * ckSize, d), rfl, hd⟩
        · intro x _ hx
          exact (singleLoop_clean sh n m hok hidx total ckSize lc hlc 8 x.1 x.2.1 x.2.2).mono
            (fun a ha => by rw [ha, hx])
    · simp only [Res.bind]
      exact singleLoop_clean sh n m hok hidx total ckSize lc hlc 8 fc start dst

/-- the goroutines together: never `.hang`, `dst` keeps its size -/
theorem runTasks_clean (sh : Shared) (n m : Nat) (hok : ShOK sh n)
    (hidx : ∀ c p, c < m → sh.indexes[c]? = some p → GoodP n p)
    (total ckSize : Nat) (ranges : List (Nat × Nat)) (hr : ∀ r ∈ ranges, r.2 ≤ m) (dst : Array Nat) (failed : Bool) :
    ∃ d f, runTasks sh total ckSize ranges dst failed = .ok (d, f) ∧ d.size = dst.size := by
  induction ranges generalizing dst failed with
  | nil => exact ⟨dst, failed, rfl, rfl⟩
  | cons r rs ih =>
    obtain ⟨fc, lc⟩ := r
    simp only [runTasks]
    have hrs : ∀ r ∈ rs, r.2 ≤ m := fun r h => hr r (List.mem_cons_of_mem _ h)
    rcases task_clean sh n m hok hidx dst total (fc * ckSize) ckSize fc lc (hr (fc, lc) List.mem_cons_self)
      with h | ⟨d, h, hd⟩
    · rw [h]; exact ih hrs dst true
    · rw [h]
      obtain ⟨d', f', h1, h2⟩ := ih hrs d failed
      exact ⟨d', f', h1, by rw [h2, hd]⟩

end Kanzi.BWT
