import Kanzi.Model.Writer
import Kanzi.Spec.Stream
import Kanzi.Proofs.WriterLemmas
/-!
Proofs of the writer-side properties (`Kanzi/Properties/StreamW.lean`).
Helper lemmas on `chunks`, `splice`, `spawn`, `processBlock`, `Close` phases: `WriterLemmas.lean`.
Structure: small theorems first; then the invariant `Inv = Dead ∨ Open ∨ Final`, its preservation by
`writeLoop` / `write` / `close` / `step` / `run`; then the theorems about healthy and arbitrary programs.
-/
namespace Kanzi.Writer
open Kanzi.Spec

theorem closed_absorbing (c : Cfg) (s : St) (h : s.closed = true) (op : Op) :
    (step c s op).1 = s ∧
    (match op with
     | .write _ _ => (step c s op).2 = Out.wrote 0 (some Err.closed)
     | .close _ => (step c s op).2 = Out.closedR none
     | .getWritten => (step c s op).2 = Out.written (getWritten s)) := by
  cases op <;> simp [step, write, close, h]

theorem close_bits_le (c : Cfg) (s : St) (flt : Fault) : s.bits ≤ (close c s flt).1.bits := by
  rw [close_eq]
  split
  · exact Nat.le_refl _
  · have h1 := (closeP1_frame c s flt).2.2.2.1
    split
    · exact h1
    · rw [closeP2_frame]; exact h1

theorem getWritten_mono (c : Cfg) (s : St) (op : Op) : getWritten s ≤ getWritten (step c s op).1 := by
  have key : s.bits ≤ (step c s op).1.bits := by
    cases op with
    | write d f =>
      simp only [step, write]
      split
      · exact Nat.le_refl _
      · split
        · exact Nat.le_refl _
        · exact writeLoop_bits_le ..
    | close f => exact close_bits_le c s f
    | getWritten => exact Nat.le_refl _
  unfold getWritten
  exact Nat.div_le_div_right (Nat.add_le_add_right key 7)

/-- PARTIAL variant of `failed_sticky`, see the comment there -/
theorem failed_sticky_partial (c : Cfg) (s : St) (h : s.failed = true) (hc : s.closed = false)
    (hfin : s.finalized = false) (op : Op) :
    (step c s op).1.failed = true ∧ (step c s op).1.closed = false ∧ (step c s op).1.finalized = false ∧
    (match op with
     | .write _ _ => ∃ e, (step c s op).2 = Out.wrote 0 (some e)
     | .close _ => ∃ e, (step c s op).2 = Out.closedR (some e)
     | .getWritten => True) := by
  cases op with
  | write d f =>
    simp only [step, write, h, hc]
    by_cases hcl : s.closing = true <;> simp [hcl, h, hc, hfin]
  | close f =>
    have hne : (closeP1 c s f).2 ≠ none := by
      intro hn
      have := ((closeP1_frame c s f).2.2.2.2.2 hn hfin).1
      rw [h] at this; cases this
    obtain ⟨_, _, f3, _, f5, _⟩ := closeP1_frame c s f
    obtain ⟨f5a, f5b⟩ := f5 hne
    simp only [step, close_eq, hc, Bool.false_eq_true, if_false]
    cases hp : (closeP1 c s f).2 with
    | none => exact absurd hp hne
    | some e =>
      simp only
      exact ⟨f5b h, by rw [f3, hc], by rw [f5a, hfin], e, rfl⟩
  | getWritten => simp [step, h, hc, hfin]

theorem close_fault_reported (c : Cfg) (s : St) (f : Fault) (hf : f = .endMarker ∨ f = .finalFlush ∨ f = .closer)
    (hc : s.closed = false) : (close c s f).2 ≠ none ∨ (close c s f).1.closed = false ∨
      (f = .finalFlush ∧ s.obsClosed = true) ∨ (f = .closer ∧ s.closerClosed = true) ∨ (f = .endMarker ∧ s.finalized = true) := by
  obtain ⟨f1, f2, f3, _, _, f6⟩ := closeP1_frame c s f
  rw [close_eq]
  simp only [hc, Bool.false_eq_true, if_false]
  cases hp : (closeP1 c s f).2 with
  | some e => left; simp
  | none =>
    simp only
    obtain ⟨g1, g2, _⟩ := closeP2_result (closeP1 c s f).1 f (by rw [f3, hc])
    by_cases hn : (closeP2 (closeP1 c s f).1 f).2 = none
    · obtain ⟨_, k2, k3⟩ := g1 hn
      rcases hf with hf | hf | hf
      · right; right; right; right
        refine ⟨hf, ?_⟩
        cases hfin : s.finalized with
        | true => rfl
        | false => exact absurd hf (f6 hp hfin).2
      · right; right; left; exact ⟨hf, by rw [← f1]; exact k2 hf⟩
      · right; right; right; left; exact ⟨hf, by rw [← f2]; exact k3 hf⟩
    · left; exact hn


/-
ORIGINAL STATEMENT (FALSE for arbitrary states, kept for reference):

theorem failed_sticky (c : Cfg) (s : St) (h : s.failed = true) (hc : s.closed = false) (op : Op) :
    (step c s op).1.failed = true ∧ (step c s op).1.closed = false ∧
    (match op with
     | .write _ _ => ∃ e, (step c s op).2 = Out.wrote 0 (some e)
     | .close _ => ∃ e, (step c s op).2 = Out.closedR (some e)
     | .getWritten => True)

Counterexample (an UNREACHABLE state): `s := { init c with failed := true, finalized := true }`,
`op := .close .none`.  `close` skips phase 1 because `s.finalized`, phase 2 succeeds, so
`(step c s op) = ({ s with obsClosed, closerClosed, closed := true }, .closedR none)`:
  #eval let r := step c1 sBad (.close .none); (r.1.failed, r.1.closed, r.2)   -- (true, true, closedR none)
The statement quantifies over ALL states, including `failed ∧ finalized`, which no program can
produce (`finalized` is only set after a `processBlock` that returned no error, and after that
every Write is refused and Close skips phase 1, so `failed` can no longer be set).

Proved instead:
* `failed_sticky_partial`: the statement with the extra hypothesis `s.finalized = false`
  (and additionally `finalized` stays false, which makes it inductive);
* `failed_sticky_reachable`: the ORIGINAL statement for every state reachable from `init c` by any
  program with any faults (no assumption on B, J; even `closed = false` is a consequence there),
  via the flag invariant `(finalized → closing ∧ ¬failed) ∧ (closed → finalized)`.
-/

/-! ### the flag invariant behind the reachable form of `failed_sticky` (no assumption on B, J) -/

/-- a finalized writer is closing and not failed; a closed writer is finalized -/
def FlagInv (s : St) : Prop :=
  (s.finalized = true → s.closing = true ∧ s.failed = false) ∧ (s.closed = true → s.finalized = true)

theorem writeLoop_finalized (c : Cfg) (flt : Fault) (fuel : Nat) (rest : List Nat) (done batch : Nat) (s : St) :
    (writeLoop c flt fuel rest done batch s).1.finalized = s.finalized ∧
    (writeLoop c flt fuel rest done batch s).1.closed = s.closed := by
  induction fuel generalizing rest done batch s with
  | zero => simp [writeLoop]
  | succ n ih =>
    rw [writeLoop]
    by_cases h : rest.length = 0
    · simp [h]
    · simp only [h, if_false]
      split
      · split
        · rw [(ih _ _ _ _).1, (ih _ _ _ _).2]; exact ⟨rfl, rfl⟩
        · split
          · exact ⟨(processBlock_frame c _ _).2.1, (processBlock_frame c _ _).2.2.1⟩
          · rw [(ih _ _ _ _).1, (ih _ _ _ _).2]
            exact ⟨(processBlock_frame c _ _).2.1, (processBlock_frame c _ _).2.2.1⟩
      · rw [(ih _ _ _ _).1, (ih _ _ _ _).2]; exact ⟨rfl, rfl⟩

theorem closeP1_flagInv (c : Cfg) (s : St) (flt : Fault) (h : FlagInv s) :
    FlagInv (closeP1 c s flt).1 ∧ ((closeP1 c s flt).2 = none → (closeP1 c s flt).1.finalized = true) := by
  unfold closeP1
  by_cases hfin : s.finalized = true
  · rw [if_pos hfin]; exact ⟨h, fun _ => hfin⟩
  · rw [if_neg hfin]
    have hnc : s.closed = true → False := fun hc => hfin (h.2 hc)
    by_cases hcl : s.closing = true
    · rw [if_pos hcl]; refine ⟨h, ?_⟩; intro hh; cases hh
    · rw [if_neg hcl]
      obtain ⟨f1, f2, f3, f4, f5, f6, f7, f8, f9, f10⟩ :=
        processBlock_frame c { s with closing := true } (flt = .task 0)
      simp only at f1 f2 f3 f4 f5 f6 f7 f8 f9 f10
      generalize processBlock c { s with closing := true } (flt = .task 0) = r at *
      obtain ⟨r1, r2⟩ := r
      simp only at f1 f2 f3 f4 f5 f6 f7 f8 f9 f10
      cases r2 with
      | some e =>
        refine ⟨⟨?_, ?_⟩, ?_⟩
        · intro hh; simp only at hh; rw [f2] at hh; exact absurd hh hfin
        · intro hh; simp only at hh; rw [f3] at hh; exact (hnc hh).elim
        · intro hh; cases hh
      | none =>
        simp only
        split
        · refine ⟨⟨?_, ?_⟩, ?_⟩
          · intro hh; simp only at hh; rw [f2] at hh; exact absurd hh hfin
          · intro hh; simp only at hh; rw [f3] at hh; exact (hnc hh).elim
          · intro hh; cases hh
        · exact ⟨⟨fun _ => ⟨f1, f10 rfl⟩, fun _ => rfl⟩, fun _ => rfl⟩

theorem step_flagInv (c : Cfg) (s : St) (op : Op) (h : FlagInv s) : FlagInv (step c s op).1 := by
  cases op with
  | write d f =>
    simp only [step, write]
    split
    · exact h
    · split
      · exact h
      · rename_i h1 h2
        obtain ⟨w1, w2⟩ := writeLoop_finalized c f (d.length + 1) d 0 0 s
        refine ⟨?_, ?_⟩
        · intro hh
          rw [w1] at hh
          exact absurd (Or.inr (h.1 hh).1) h1
        · intro hh
          rw [w2] at hh
          exact absurd (Or.inl hh) h1
  | close f =>
    simp only [step]
    rw [close_eq]
    split
    · exact h
    · obtain ⟨h1, h2⟩ := closeP1_flagInv c s f h
      cases hp : (closeP1 c s f).2 with
      | some e => exact h1
      | none =>
        simp only
        rw [closeP2_frame]
        exact ⟨h1.1, fun _ => h2 hp⟩
  | getWritten => exact h

theorem run_flagInv (c : Cfg) (ops : List Op) : ∀ s, FlagInv s → FlagInv (run c s ops).1 := by
  induction ops with
  | nil => intro s h; exact h
  | cons op ops ih => intro s h; exact ih _ (step_flagInv c s op h)

/-- `failed_sticky` for every reachable state (`closed = false` is a consequence there) -/
theorem failed_sticky_reachable (c : Cfg) (ops : List Op) (s : St)
    (hr : (run c (init c) ops).1 = s) (h : s.failed = true) (op : Op) :
    s.closed = false ∧ (step c s op).1.failed = true ∧ (step c s op).1.closed = false ∧
    (match op with
     | .write _ _ => ∃ e, (step c s op).2 = Out.wrote 0 (some e)
     | .close _ => ∃ e, (step c s op).2 = Out.closedR (some e)
     | .getWritten => True) := by
  have hI : FlagInv s := by
    rw [← hr]
    refine run_flagInv c ops (init c) ⟨?_, ?_⟩
    · intro hh; cases hh
    · intro hh; cases hh
  have hfin : s.finalized = false := by
    cases hf : s.finalized with
    | false => rfl
    | true => have := (hI.1 hf).2; rw [h] at this; cases this
  have hc : s.closed = false := by
    cases hf : s.closed with
    | false => rfl
    | true => have := hI.2 hf; rw [hfin] at this; cases this
  obtain ⟨g1, g2, _, g4⟩ := failed_sticky_partial c s h hc hfin op
  exact ⟨hc, g1, g2, g4⟩

/-! ### the invariant -/

/-- a healthy writer that is still accepting data; `acc` = the bytes accepted so far -/
structure Open (c : Cfg) (s : St) (acc : List Nat) : Prop where
  memlen : s.mem.length = c.J * c.B
  avail : s.available ≤ c.J * c.B
  notClosing : s.closing = false
  notFinal : s.finalized = false
  notClosed : s.closed = false
  notFailed : s.failed = false
  endOut : s.endOut = false
  hdr : s.headerOut = s.initialized
  hdrless : c.headless = true → s.initialized = false
  data : ∃ F, s.emitted = chunks c.B F ∧ c.B ∣ F.length ∧ F ++ s.mem.take s.available = acc
  bits : s.bits = (if s.headerOut then c.headerBits else 0) + (s.emitted.map c.frameBits).sum

/-- a writer whose data is complete and whose end marker is out -/
structure Final (c : Cfg) (s : St) (acc : List Nat) : Prop where
  closing : s.closing = true
  finalized : s.finalized = true
  notFailed : s.failed = false
  endOut : s.endOut = true
  hdr : s.headerOut = !c.headless
  data : s.emitted = chunks c.B acc
  bits : s.bits = (if c.headless then 0 else c.headerBits) + (s.emitted.map c.frameBits).sum + 8

/-- the sticky error state -/
structure Dead (s : St) : Prop where
  failed : s.failed = true
  notFinal : s.finalized = false
  notClosed : s.closed = false

theorem open_init (c : Cfg) (hB : 0 < c.B) (hJ : 0 < c.J) : Open c (init c) [] ∧ (init c).available < c.J * c.B := by
  refine ⟨⟨?_, ?_, rfl, rfl, rfl, rfl, rfl, rfl, fun _ => rfl, ⟨[], ?_, ?_, ?_⟩, ?_⟩, ?_⟩
  · simp [init]
  · simp [init]
  · simp [init, chunks_nil c.B hB]
  · simp
  · simp [init]
  · simp [init]
  · exact Nat.mul_pos hJ hB

theorem open_splice (c : Cfg) (s : St) (acc src : List Nat) (h : Open c s acc)
    (hle : s.available + src.length ≤ c.J * c.B) :
    Open c { s with mem := splice s.mem s.available src, available := s.available + src.length } (acc ++ src) := by
  obtain ⟨F, hF1, hF2, hF3⟩ := h.data
  have hm := h.memlen
  refine ⟨?_, hle, h.notClosing, h.notFinal, h.notClosed, h.notFailed, h.endOut, h.hdr, h.hdrless,
    ⟨F, hF1, hF2, ?_⟩, h.bits⟩
  · simp only; rw [splice_length _ _ _ (by omega)]; exact hm
  · simp only
    rw [splice_take _ _ _ (by omega), ← hF3, List.append_assoc]

theorem writeHeader_open (c : Cfg) (s : St) (acc : List Nat) (h : Open c s acc) :
    (writeHeader c s).headerOut = (!c.headless) ∧ (writeHeader c s).initialized = (!c.headless) ∧
    (writeHeader c s).bits = (if c.headless then 0 else c.headerBits) + (s.emitted.map c.frameBits).sum := by
  have h1 := h.hdr
  have h2 := h.hdrless
  have h3 := h.bits
  unfold writeHeader
  cases hh : c.headless
  · cases hi : s.initialized
    · rw [hi] at h1; simp [h3, h1]; omega
    · rw [hi] at h1; simp [hi, h3, h1]
  · have hi := h2 hh
    rw [hi] at h1
    simp [hi, h3, h1]

theorem open_pb (c : Cfg) (hB : 0 < c.B) (s : St) (acc : List Nat) (h : Open c s acc) :
    (pbState c s).emitted = chunks c.B acc ∧
    (pbState c s).bits = (if c.headless then 0 else c.headerBits) + ((chunks c.B acc).map c.frameBits).sum ∧
    (pbState c s).headerOut = (!c.headless) ∧ (pbState c s).initialized = (!c.headless) ∧
    (pbState c s).available = 0 ∧ (pbState c s).mem = s.mem ∧
    (pbState c s).closing = s.closing ∧ (pbState c s).finalized = s.finalized ∧
    (pbState c s).closed = s.closed ∧ (pbState c s).failed = s.failed ∧ (pbState c s).endOut = s.endOut := by
  obtain ⟨F, hF1, hF2, hF3⟩ := h.data
  obtain ⟨w1, w2, w3⟩ := writeHeader_open c s acc h
  obtain ⟨v1, v2, v3, v4, v5, v6, v7, v8, v9, v10⟩ := writeHeader_flags c s
  have he : s.emitted ++ chunks c.B (s.mem.take s.available) = chunks c.B acc := by
    rw [hF1, ← chunks_append_of_dvd c.B hB _ _ hF2, hF3]
  unfold pbState
  refine ⟨he, ?_, w1, w2, rfl, v1, v3, v4, v5, v6, v10⟩
  simp only
  rw [w3, ← he, List.map_append, List.sum_append, Nat.add_assoc]

theorem open_flush (c : Cfg) (hB : 0 < c.B) (hJ : 0 < c.J) (s : St) (acc : List Nat) (h : Open c s acc)
    (hd : c.B ∣ s.available) : Open c (pbState c s) acc ∧ (pbState c s).available < c.J * c.B := by
  obtain ⟨F, hF1, hF2, hF3⟩ := h.data
  obtain ⟨p1, p2, p3, p4, p5, p6, p7, p8, p9, p10, p11⟩ := open_pb c hB s acc h
  have hm := h.memlen
  have ha := h.avail
  refine ⟨⟨by rw [p6]; exact hm, by rw [p5]; exact Nat.zero_le _, by rw [p7]; exact h.notClosing,
    by rw [p8]; exact h.notFinal, by rw [p9]; exact h.notClosed, by rw [p10]; exact h.notFailed,
    by rw [p11]; exact h.endOut, by rw [p3, p4], ?_, ⟨acc, p1, ?_, ?_⟩, ?_⟩, ?_⟩
  · intro hh; rw [p4, hh]; rfl
  · rw [← hF3, List.length_append, List.length_take, Nat.min_eq_left (by omega)]
    exact Nat.dvd_add hF2 hd
  · rw [p5]; simp
  · rw [p2, p3, p1]; cases c.headless <;> simp
  · rw [p5]; exact Nat.mul_pos hJ hB

theorem open_close (c : Cfg) (hB : 0 < c.B) (s : St) (acc : List Nat) (h : Open c s acc) :
    Final c { pbState c { s with closing := true } with
                finalized := true, endOut := true,
                bits := (pbState c { s with closing := true }).bits + 8 } acc := by
  obtain ⟨p1, p2, p3, p4, p5, p6, p7, p8, p9, p10, p11⟩ := open_pb c hB s acc h
  rw [pbState_closing]
  refine ⟨rfl, rfl, ?_, rfl, ?_, ?_, ?_⟩
  · simp only; rw [p10]; exact h.notFailed
  · simp only; exact p3
  · simp only; exact p1
  · simp only; rw [p2, p1]

theorem writeLoop_spec (c : Cfg) (hB : 0 < c.B) (hJ : 0 < c.J) (flt : Fault) (fuel : Nat) :
    ∀ (rest : List Nat) (done batch : Nat) (s : St) (acc : List Nat),
      Open c s acc → s.available < c.J * c.B → rest.length < fuel →
      ((writeLoop c flt fuel rest done batch s).2.2 = none ∧
        (writeLoop c flt fuel rest done batch s).2.1 = done + rest.length ∧
        Open c (writeLoop c flt fuel rest done batch s).1 (acc ++ rest) ∧
        (writeLoop c flt fuel rest done batch s).1.available < c.J * c.B) ∨
      ((writeLoop c flt fuel rest done batch s).2.2 ≠ none ∧ flt ≠ .none ∧
        Dead (writeLoop c flt fuel rest done batch s).1) := by
  induction fuel with
  | zero => intro rest done batch s acc _ _ hlt; omega
  | succ n ih =>
    intro rest done batch s acc hO hA hlt
    rw [writeLoop]
    by_cases h0 : rest.length = 0
    · rw [if_pos h0]
      have : rest = [] := List.length_eq_zero_iff.mp h0
      subst this
      left
      exact ⟨rfl, rfl, by simpa using hO, hA⟩
    · rw [if_neg h0]
      simp only []
      -- arithmetic of the buffer position
      have hmod := Nat.mod_lt s.available hB
      have hdm := Nat.div_add_mod s.available c.B
      rw [Nat.mul_comm] at hdm
      have hq : s.available / c.B < c.J := (Nat.div_lt_iff_lt_mul hB).mpr hA
      have hq1 : (s.available / c.B + 1) * c.B ≤ c.J * c.B := Nat.mul_le_mul_right _ hq
      rw [Nat.succ_mul] at hq1
      generalize hlen : min rest.length (c.B - s.available % c.B) = len
      have hl1 : 1 ≤ len := by omega
      have hl2 : len ≤ rest.length := by omega
      have hl3 : s.available % c.B + len ≤ c.B := by omega
      have htl : (rest.take len).length = len := by rw [List.length_take]; omega
      have hsp := open_splice c s acc (rest.take len) hO (by rw [htl]; omega)
      rw [htl] at hsp
      have hacc : acc ++ rest = acc ++ rest.take len ++ rest.drop len := by
        rw [List.append_assoc, List.take_append_drop]
      have hdl : (rest.drop len).length < n := by rw [List.length_drop]; omega
      have hdone : done + len + (rest.drop len).length = done + rest.length := by
        rw [List.length_drop]; omega
      by_cases hfull : s.available % c.B + len ≥ c.B
      · rw [if_pos hfull]
        by_cases hj : s.available / c.B + 1 < c.J
        · rw [if_pos hj]
          have hq2 : (s.available / c.B + 1 + 1) * c.B ≤ c.J * c.B := Nat.mul_le_mul_right _ hj
          rw [Nat.succ_mul, Nat.succ_mul] at hq2
          have := ih (rest.drop len) (done + len) batch _ _ hsp (by simp only; omega) hdl
          rw [hacc, ← hdone]
          exact this
        · rw [if_neg hj]
          have hJeq : c.J = s.available / c.B + 1 := by omega
          have hJB : c.J * c.B = s.available / c.B * c.B + c.B := by rw [hJeq, Nat.succ_mul]
          have hav : s.available + len = c.J * c.B := by omega
          obtain ⟨s1, hs1⟩ : ∃ s1 : St, s1 = { s with mem := splice s.mem s.available (rest.take len),
                                                      available := s.available + len } := ⟨_, rfl⟩
          rw [← hs1] at hsp ⊢
          have hs1a : s1.available = c.J * c.B := by rw [hs1]; exact hav
          have hs1f : s1.failed = false := hsp.notFailed
          have hs1m := hsp.memlen
          obtain ⟨f1, f2, f3, f4, f5, f6, f7, f8, f9, f10⟩ :=
            processBlock_frame c s1 (flt = .task batch)
          cases hr : (processBlock c s1 (flt = .task batch)).2 with
          | some e =>
            right
            simp only
            refine ⟨by simp, ?_, ⟨f9 (by rw [hr]; simp), by rw [f2]; exact hsp.notFinal,
              by rw [f3]; exact hsp.notClosed⟩⟩
            intro hflt
            subst hflt
            have : (processBlock c s1 (Fault.none = .task batch)).2 = none := by
              have : decide (Fault.none = Fault.task batch) = false := by simp
              rw [this, processBlock_ok c hB s1 hs1f hs1m (by omega)]
            rw [this] at hr; cases hr
          | none =>
            simp only
            have hpb := processBlock_none c hB s1 _ hs1f hs1m (by omega) hr
            rw [hpb]
            obtain ⟨hO2, hA2⟩ := open_flush c hB hJ s1 _ hsp (by rw [hs1a]; exact Nat.dvd_mul_left _ _)
            have := ih (rest.drop len) (done + len) (batch + 1) _ _ hO2 hA2 hdl
            rw [hacc, ← hdone]
            exact this
      · rw [if_neg hfull]
        have := ih (rest.drop len) (done + len) batch _ _ hsp (by simp only; omega) hdl
        rw [hacc, ← hdone]
        exact this

theorem write_spec (c : Cfg) (hB : 0 < c.B) (hJ : 0 < c.J) (s : St) (acc d : List Nat) (flt : Fault)
    (hO : Open c s acc) (hA : s.available < c.J * c.B) :
    ((write c s d flt).2.2 = none ∧ (write c s d flt).2.1 = d.length ∧
        Open c (write c s d flt).1 (acc ++ d) ∧ (write c s d flt).1.available < c.J * c.B) ∨
    ((write c s d flt).2.2 ≠ none ∧ flt ≠ .none ∧ Dead (write c s d flt).1) := by
  unfold write
  simp only [hO.notClosed, hO.notClosing, hO.notFailed, Bool.false_eq_true, or_self, if_false]
  have := writeLoop_spec c hB hJ flt (d.length + 1) d 0 0 s acc hO hA (Nat.lt_succ_self _)
  simpa using this

theorem final_p2 (c : Cfg) (s : St) (acc : List Nat) (flt : Fault) (h : Final c s acc) :
    Final c (closeP2 s flt).1 acc := by
  rw [closeP2_frame]
  exact ⟨h.closing, h.finalized, h.notFailed, h.endOut, h.hdr, h.data, h.bits⟩

theorem close_final (c : Cfg) (s : St) (acc : List Nat) (flt : Fault) (h : Final c s acc) :
    Final c (close c s flt).1 acc := by
  rw [close_eq]
  split
  · exact h
  · have : closeP1 c s flt = (s, none) := by unfold closeP1; simp [h.finalized]
    rw [this]
    exact final_p2 c s acc flt h

theorem close_open (c : Cfg) (hB : 0 < c.B) (s : St) (acc : List Nat) (flt : Fault) (hO : Open c s acc) :
    (Dead (close c s flt).1 ∧ flt ≠ .none) ∨
    (Final c (close c s flt).1 acc ∧ (flt = .none → (close c s flt).2 = none ∧ (close c s flt).1.closed = true)) := by
  rw [close_eq, if_neg (by rw [hO.notClosed]; simp)]
  have hP1 : (Dead (closeP1 c s flt).1 ∧ (closeP1 c s flt).2 ≠ none ∧ flt ≠ .none) ∨
      (Final c (closeP1 c s flt).1 acc ∧ (closeP1 c s flt).2 = none ∧ (closeP1 c s flt).1.closed = false) := by
    unfold closeP1
    rw [if_neg (by rw [hO.notFinal]; simp), if_neg (by rw [hO.notClosing]; simp)]
    simp only []
    have hf' : ({ s with closing := true } : St).failed = false := hO.notFailed
    have hm' : ({ s with closing := true } : St).mem.length = c.J * c.B := hO.memlen
    have ha' : ({ s with closing := true } : St).available ≤ c.J * c.B := hO.avail
    obtain ⟨f1, f2, f3, f4, f5, f6, f7, f8, f9, f10⟩ :=
      processBlock_frame c { s with closing := true } (flt = .task 0)
    cases hr : (processBlock c { s with closing := true } (flt = .task 0)).2 with
    | some e =>
      left
      simp only
      refine ⟨⟨f9 (by rw [hr]; simp), by simp only; rw [f2]; exact hO.notFinal,
        by simp only; rw [f3]; exact hO.notClosed⟩, by simp, ?_⟩
      intro hflt
      subst hflt
      have : decide (Fault.none = Fault.task 0) = false := by simp
      rw [this, processBlock_ok c hB _ hf' hm' ha'] at hr
      cases hr
    | none =>
      simp only
      have hpb := processBlock_none c hB _ _ hf' hm' ha' hr
      rw [hpb]
      by_cases hem : flt = .endMarker
      · left
        rw [if_pos hem]
        obtain ⟨p1, p2, p3, p4, p5, p6, p7, p8, p9, p10, p11⟩ := open_pb c hB s acc hO
        rw [pbState_closing]
        refine ⟨⟨rfl, by simp only; rw [p8]; exact hO.notFinal, by simp only; rw [p9]; exact hO.notClosed⟩,
          by simp, by rw [hem]; simp⟩
      · right
        rw [if_neg hem]
        refine ⟨open_close c hB s acc hO, rfl, ?_⟩
        obtain ⟨p1, p2, p3, p4, p5, p6, p7, p8, p9, p10, p11⟩ := open_pb c hB s acc hO
        rw [pbState_closing]
        simp only; rw [p9]; exact hO.notClosed
  rcases hP1 with ⟨hD, hne, hflt⟩ | ⟨hF, hn, hcl⟩
  · left
    cases hp : (closeP1 c s flt).2 with
    | none => exact absurd hp hne
    | some e => exact ⟨hD, hflt⟩
  · right
    rw [hn]
    simp only
    refine ⟨final_p2 c _ acc flt hF, ?_⟩
    intro hflt
    obtain ⟨g1, g2, g3⟩ := closeP2_result (closeP1 c s flt).1 flt hcl
    exact ⟨g3 hflt, (g1 (g3 hflt)).1⟩

/-- the invariant of every reachable state; `acc` = the bytes accepted so far -/
def Inv (c : Cfg) (s : St) (acc : List Nat) : Prop :=
  Dead s ∨ (Open c s acc ∧ s.available < c.J * c.B) ∨ Final c s acc

theorem accepted_cons (op : Op) (out : Out) (ops : List Op) (outs : List Out) :
    accepted (op :: ops) (out :: outs) = accepted [op] [out] ++ accepted ops outs := by
  cases op <;> cases out <;> simp [accepted]

theorem step_inv (c : Cfg) (hB : 0 < c.B) (hJ : 0 < c.J) (s : St) (acc : List Nat) (op : Op)
    (h : Inv c s acc) : Inv c (step c s op).1 (acc ++ accepted [op] [(step c s op).2]) := by
  rcases h with hD | ⟨hO, hA⟩ | hF
  · obtain ⟨g1, g2, g3, _⟩ := failed_sticky_partial c s hD.failed hD.notClosed hD.notFinal op
    exact Or.inl ⟨g1, g3, g2⟩
  · cases op with
    | write d f =>
      simp only [step]
      rcases write_spec c hB hJ s acc d f hO hA with ⟨_, k2, k3, k4⟩ | ⟨_, _, k3⟩
      · right; left
        rw [k2]
        simp only [accepted, List.take_length, List.append_nil]
        exact ⟨k3, k4⟩
      · exact Or.inl k3
    | close f =>
      simp only [step, accepted, List.append_nil]
      rcases close_open c hB s acc f hO with ⟨k1, _⟩ | ⟨k1, _⟩
      · exact Or.inl k1
      · exact Or.inr (Or.inr k1)
    | getWritten =>
      simp only [step, accepted, List.append_nil]
      exact Or.inr (Or.inl ⟨hO, hA⟩)
  · right; right
    cases op with
    | write d f =>
      have : write c s d f = (s, 0, some Err.closed) := by unfold write; simp [hF.closing]
      simp only [step, this, accepted, List.take_zero, List.append_nil]
      exact hF
    | close f =>
      simp only [step, accepted, List.append_nil]
      exact close_final c s acc f hF
    | getWritten =>
      simp only [step, accepted, List.append_nil]
      exact hF

theorem run_inv (c : Cfg) (hB : 0 < c.B) (hJ : 0 < c.J) (ops : List Op) :
    ∀ (s : St) (acc : List Nat), Inv c s acc → Inv c (run c s ops).1 (acc ++ accepted ops (run c s ops).2) := by
  induction ops with
  | nil => intro s acc h; simpa [run, accepted] using h
  | cons op ops ih =>
    intro s acc h
    have h1 := step_inv c hB hJ s acc op h
    have h2 := ih _ _ h1
    simp only [run]
    rw [accepted_cons, ← List.append_assoc]
    exact h2

theorem closed_means_complete (c : Cfg) (hB : 0 < c.B) (hJ : 0 < c.J) (ops : List Op) :
    let r := run c (init c) ops
    r.1.closed = true →
      r.1.emitted = chunks c.B (accepted ops r.2) ∧ r.1.endOut = true ∧ r.1.headerOut = !c.headless ∧
      r.1.failed = false := by
  intro r hc
  have h := run_inv c hB hJ ops (init c) [] (Or.inr (Or.inl (open_init c hB hJ)))
  rw [List.nil_append] at h
  rcases h with hD | ⟨hO, _⟩ | hF
  · have := hD.notClosed; rw [hc] at this; cases this
  · have := hO.notClosed; rw [hc] at this; cases this
  · exact ⟨hF.data, hF.endOut, hF.hdr, hF.notFailed⟩

theorem healthy_aux (c : Cfg) (hB : 0 < c.B) (hJ : 0 < c.J) (parts : List (List Nat)) :
    ∀ (s : St) (acc : List Nat), Open c s acc → s.available < c.J * c.B →
      (run c s (healthyProgram parts)).2 = parts.map (fun d => Out.wrote d.length none) ++ [Out.closedR none] ∧
      Final c (run c s (healthyProgram parts)).1 (acc ++ parts.flatten) ∧
      (run c s (healthyProgram parts)).1.closed = true := by
  induction parts with
  | nil =>
    intro s acc hO hA
    simp only [healthyProgram, List.map_nil, List.nil_append, run, step, List.flatten_nil, List.append_nil]
    rcases close_open c hB s acc .none hO with ⟨_, k2⟩ | ⟨k1, k2⟩
    · exact absurd rfl k2
    · obtain ⟨k3, k4⟩ := k2 rfl
      exact ⟨by rw [k3], k1, k4⟩
  | cons d parts ih =>
    intro s acc hO hA
    have hp : healthyProgram (d :: parts) = Op.write d .none :: healthyProgram parts := rfl
    rw [hp]
    simp only [run, step]
    rcases write_spec c hB hJ s acc d .none hO hA with ⟨k1, k2, k3, k4⟩ | ⟨_, k, _⟩
    · obtain ⟨i1, i2, i3⟩ := ih _ _ k3 k4
      refine ⟨?_, ?_, i3⟩
      · rw [i1, k1, k2]; rfl
      · rw [List.flatten_cons, ← List.append_assoc]; exact i2
    · exact absurd rfl k

theorem healthy_run (c : Cfg) (hB : 0 < c.B) (hJ : 0 < c.J) (parts : List (List Nat)) :
    let r := run c (init c) (healthyProgram parts)
    r.2 = parts.map (fun d => Out.wrote d.length none) ++ [Out.closedR none] ∧
    r.1.emitted = chunks c.B parts.flatten ∧
    r.1.closed = true ∧ r.1.endOut = true ∧ r.1.headerOut = !c.headless ∧ r.1.failed = false := by
  obtain ⟨hO, hA⟩ := open_init c hB hJ
  obtain ⟨h1, hF, h3⟩ := healthy_aux c hB hJ parts (init c) [] hO hA
  rw [List.nil_append] at hF
  exact ⟨h1, hF.data, h3, hF.endOut, hF.hdr, hF.notFailed⟩

theorem getWritten_final (c : Cfg) (hB : 0 < c.B) (hJ : 0 < c.J) (parts : List (List Nat)) :
    getWritten (run c (init c) (healthyProgram parts)).1 =
      ((if c.headless then 0 else c.headerBits) +
        ((chunks c.B parts.flatten).map c.frameBits).sum + 8 + 7) / 8 := by
  obtain ⟨hO, hA⟩ := open_init c hB hJ
  obtain ⟨h1, hF, h3⟩ := healthy_aux c hB hJ parts (init c) [] hO hA
  rw [List.nil_append] at hF
  unfold getWritten
  rw [hF.bits, hF.data]

end Kanzi.Writer
