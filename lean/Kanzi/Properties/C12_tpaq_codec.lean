/-
C12 (TPAQ and TPAQX entropy codecs, whole codec) — the TPAQ / TPAQX codecs of kanzi-go are the
generic binary arithmetic coder (`Kanzi/Properties/C12_binary.lean`) with a fresh `TPAQPredictor`
(`Kanzi/Properties/C12_tpaq.lean`; the `extra` variant for TPAQX) plugged in, exactly as
`entropy.NewEntropyEncoder` / `NewEntropyDecoder` build it for `TPAQ_TYPE` / `TPAQX_TYPE`
(`NewTPAQPredictor(&ctx)` then `NewBinaryEntropyEncoder(bs, predictor)`), one per block.

This file only composes the two slices, like `C12_cm_codec.lean` does for CM: the TPAQ predictor
model is an instance of the coder's predictor interface (`Get()` returns `pr`; state = the state
before `Get()`), it satisfies the coder's contract on the invariant `TPAQ.R` (`1 ≤ Get() ≤ 4095`),
hence for EVERY constructor context the factory can pass (`ArgsOk`: block size and size ≥ 1 when
given) the encoder never fails and the codec round-trips every non-empty block with exact
consumption — under the one condition the repaired decoder itself imposes (f731923): no chunk
flushes twice the chunk length or more (`fits2`, decidable, computed from the two models; NOT
discharged: it needs a bound on the total code length; the adversaries of the `binent` stream reach
an expansion of 1.35 against TPAQ, 1.30 against TPAQX).
-/
import Kanzi.Properties.C12_binary
import Kanzi.Properties.C12_tpaq

namespace Kanzi.C12
open Kanzi.Bits Kanzi.BinEnt Kanzi.TPAQ

/-- the TPAQ predictor as a predictor of the binary coder (state = the state before `Get()`) -/
def tpaqPred : Pred TPAQ := ⟨tpaqPredGet, tpaqPredUpdate, 4⟩


/-- **C12_tpaq_codec_safe.**  The TPAQ / TPAQX predictor satisfies the contract of the binary coder on
the invariant `TPAQ.R`. -/
theorem tpaqPred_shift : tpaqPred.shift = 4 := rfl
theorem tpaqPred_get (s : TPAQ) : tpaqPred.get s = tpaqPredGet s := by simp only [tpaqPred]
theorem tpaqPred_update (s : TPAQ) (b : Bool) : tpaqPred.update s b = tpaqPredUpdate s b := by simp only [tpaqPred]

theorem C12_tpaq_codec_safe : tpaqPred.Safe R := by
  apply Pred.Safe.of12 tpaqPred_shift
  · intro s b h
    rw [tpaqPred_update]
    exact C12_tpaq_pred_safe.1 s b h
  · intro s h
    rw [tpaqPred_get]
    exact C12_tpaq_pred_safe.2.1 s h

/-- **C12_tpaq_encode_total.**  For every constructor context the factory can pass, the encoder of the
TPAQ / TPAQX codec never fails, whatever the block (≤ 2^30 bytes). -/
theorem C12_tpaq_encode_total (c : Option CtxArgs) (s0 : TPAQ) (hc : ArgsOk c) (hs : tpaqNew c = .ok s0)
    (blk : List Nat) (hlen : blk.length ≤ 2 ^ 30) :
    ∃ out, encodeBlock tpaqPred MAX_CHUNK s0 blk = .ok out :=
  C12_binary_encode_total tpaqPred C12_tpaq_codec_safe MAX_CHUNK s0 (C12_tpaq_init c s0 hc hs) blk hlen

/-- **C12_tpaq_block.**  The TPAQ / TPAQX entropy codec (binary coder + fresh predictor built from the
same context on both sides): for every NON-EMPTY block of bytes of length `≤ 2^30` of which no chunk
doubles in size (`fits2`, the decoder's own acceptance test), `Write` + `Dispose` succeed and `Read`
of the same length on the written bits followed by ANY bits `rest` returns the block and leaves
exactly `rest` unread. -/
theorem C12_tpaq_block (c : Option CtxArgs) (s0 : TPAQ) (hc : ArgsOk c) (hs : tpaqNew c = .ok s0)
    (blk : List Nat) (hne : blk ≠ []) (hb : ∀ v ∈ blk, v < 256)
    (hlen : blk.length ≤ 2 ^ 30) (hfit : fits2 tpaqPred MAX_CHUNK s0 blk = true) :
    ∃ out, encodeBlock tpaqPred MAX_CHUNK s0 blk = .ok out ∧
      ∀ rest : Bits, decodeBlock tpaqPred MAX_CHUNK s0 (out ++ rest) blk.length = .ok (blk, rest) :=
  C12_binary_block_real tpaqPred C12_tpaq_codec_safe s0 (C12_tpaq_init c s0 hc hs) blk hne hb hlen hfit

/-- … and otherwise the decoder rejects the encoder's output: `fits2` is exactly what is missing -/
theorem C12_tpaq_reject (c : Option CtxArgs) (s0 : TPAQ) (hc : ArgsOk c) (hs : tpaqNew c = .ok s0)
    (blk : List Nat) (hne : blk ≠ []) (hb : ∀ v ∈ blk, v < 256)
    (hlen : blk.length ≤ 2 ^ 30) (hfit : fits2 tpaqPred MAX_CHUNK s0 blk = false) :
    ∃ out, encodeBlock tpaqPred MAX_CHUNK s0 blk = .ok out ∧
      ∀ rest : Bits, decodeBlock tpaqPred MAX_CHUNK s0 (out ++ rest) blk.length = .error .invalid :=
  C12_binary_reject tpaqPred C12_tpaq_codec_safe MAX_CHUNK (by decide) (by decide) s0 (C12_tpaq_init c s0 hc hs)
    blk hne hb hlen hfit

end Kanzi.C12
