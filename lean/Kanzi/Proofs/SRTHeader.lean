/-
The varint header of `transform.SRT` (`encodeHeader` / `decodeHeader`): round trip, sizes, byte
range, sharpness of the 2^28 bound, and what a successful parse of an arbitrary (forged) input
guarantees.
-/
import Kanzi.Model.SRT

namespace Kanzi.SRT

/-! ## bit level facts turned into arithmetic -/

theorem and7F (x : Nat) : x &&& 0x7F = x % 128 :=
  Nat.and_two_pow_sub_one_eq_mod x 7

theorem or_shl (a b k : Nat) (h : a < 2 ^ k) : a ||| (b <<< k) = a + b * 2 ^ k := by
  rw [Nat.or_comm, ← Nat.shiftLeft_add_eq_or_of_lt h, Nat.shiftLeft_eq, Nat.add_comm]

theorem or80 (x : Nat) : 0x80 ||| (x &&& 0x7F) = 128 + x % 128 := by
  rw [and7F]
  have h : x % 128 < 2 ^ 7 := Nat.mod_lt _ (by decide)
  have := Nat.two_pow_add_eq_or_of_lt h 1
  simpa using this.symm

theorem or7 (a b : Nat) : (a % 128) ||| (b <<< 7) = a % 128 + b * 128 := by
  rw [or_shl _ _ 7 (by omega)]

theorem or14 (a b c : Nat) :
    (a % 128 + (b % 128) * 128) ||| (c <<< 14) = a % 128 + (b % 128) * 128 + c * 16384 := by
  rw [or_shl _ _ 14 (by omega)]

theorem or21 (a b c d : Nat) :
    (a % 128 + (b % 128) * 128 + (c % 128) * 16384) ||| (d <<< 21)
      = a % 128 + (b % 128) * 128 + (c % 128) * 16384 + d * 2097152 := by
  rw [or_shl _ _ 21 (by omega)]

theorem and07 (x : Nat) : x &&& 0x07 = x % 8 :=
  Nat.and_two_pow_sub_one_eq_mod x 3

theorem or28 (a b c d e : Nat) :
    (a % 128 + (b % 128) * 128 + (c % 128) * 16384 + (d % 128) * 2097152) ||| (e <<< 28)
      = a % 128 + (b % 128) * 128 + (c % 128) * 16384 + (d % 128) * 2097152 + e * 268435456 := by
  rw [or_shl _ _ 28 (by omega)]

/-! ## `decVar` in arithmetic form -/

theorem decVar_nil : decVar [] = none := rfl

theorem decVar_lt (v0 : Nat) (s0 : List Nat) (h : v0 < 128) : decVar (v0 :: s0) = some (v0, s0) := by
  simp [decVar, h]

theorem decVar_1 (v0 : Nat) (h : 128 ≤ v0) : decVar [v0] = none := by
  have : ¬ v0 < 128 := by omega
  simp [decVar, this]

theorem decVar_2 (v0 v1 : Nat) (s1 : List Nat) (h0 : 128 ≤ v0) (h1 : v1 < 128) :
    decVar (v0 :: v1 :: s1) = some (v0 % 128 + (v1 % 128) * 128, s1) := by
  have a : ¬ v0 < 128 := by omega
  have b : ¬ 128 ≤ v1 := by omega
  simp [decVar, a, b, and7F, or7]

theorem decVar_2' (v0 v1 : Nat) (h0 : 128 ≤ v0) (h1 : 128 ≤ v1) : decVar [v0, v1] = none := by
  have a : ¬ v0 < 128 := by omega
  simp [decVar, a, h1]

theorem decVar_3 (v0 v1 v2 : Nat) (s2 : List Nat) (h0 : 128 ≤ v0) (h1 : 128 ≤ v1) (h2 : v2 < 128) :
    decVar (v0 :: v1 :: v2 :: s2)
      = some (v0 % 128 + (v1 % 128) * 128 + (v2 % 128) * 16384, s2) := by
  have a : ¬ v0 < 128 := by omega
  have c : ¬ 128 ≤ v2 := by omega
  simp [decVar, a, h1, c, and7F, or7, or14]

theorem decVar_3' (v0 v1 v2 : Nat) (h0 : 128 ≤ v0) (h1 : 128 ≤ v1) (h2 : 128 ≤ v2) :
    decVar [v0, v1, v2] = none := by
  have a : ¬ v0 < 128 := by omega
  simp [decVar, a, h1, h2]

theorem decVar_4 (v0 v1 v2 v3 : Nat) (s3 : List Nat) (h0 : 128 ≤ v0) (h1 : 128 ≤ v1)
    (h2 : 128 ≤ v2) (h3 : v3 < 128) :
    decVar (v0 :: v1 :: v2 :: v3 :: s3)
      = some (v0 % 128 + (v1 % 128) * 128 + (v2 % 128) * 16384 + (v3 % 128) * 2097152, s3) := by
  have a : ¬ v0 < 128 := by omega
  have d : ¬ 128 ≤ v3 := by omega
  simp [decVar, a, h1, h2, d, and7F, or7, or14, or21]

theorem decVar_4' (v0 v1 v2 v3 : Nat) (h0 : 128 ≤ v0) (h1 : 128 ≤ v1) (h2 : 128 ≤ v2)
    (h3 : 128 ≤ v3) : decVar [v0, v1, v2, v3] = none := by
  have a : ¬ v0 < 128 := by omega
  simp [decVar, a, h1, h2, h3]

theorem decVar_5 (v0 v1 v2 v3 v4 : Nat) (s4 : List Nat) (h0 : 128 ≤ v0) (h1 : 128 ≤ v1)
    (h2 : 128 ≤ v2) (h3 : 128 ≤ v3) :
    decVar (v0 :: v1 :: v2 :: v3 :: v4 :: s4)
      = some (v0 % 128 + (v1 % 128) * 128 + (v2 % 128) * 16384 + (v3 % 128) * 2097152
          + (v4 % 8) * 268435456, s4) := by
  have a : ¬ v0 < 128 := by omega
  simp [decVar, a, h1, h2, h3, and7F, and07, or7, or14, or21, or28]

/-! ## `encVar` : fuel independence and the step equation -/

theorem encVarGo_fuel2 : ∀ (k j f : Nat), f ≤ k → f ≤ j → encVarGo k f = encVarGo j f := by
  intro k
  induction k with
  | zero =>
    intro j f h _
    have : f = 0 := by omega
    subst this
    cases j <;> simp [encVarGo]
  | succ k ih =>
    intro j f h hj
    by_cases hg : f ≥ 128
    · obtain ⟨i, rfl⟩ : ∃ i, j = i + 1 := ⟨j - 1, by omega⟩
      have e : f >>> 7 = f / 128 := Nat.shiftRight_eq_div_pow _ 7
      have h1 : f / 128 ≤ k := by omega
      have h2 : f / 128 ≤ i := by omega
      simp only [encVarGo, hg, if_true, e]
      rw [ih i _ h1 h2]
    · cases j <;> simp only [encVarGo, hg, if_false]

theorem encVarGo_fuel (k f : Nat) (h : f ≤ k) : encVarGo k f = encVarGo f f :=
  encVarGo_fuel2 k f f h (Nat.le_refl f)

theorem encVar_step (f : Nat) :
    encVar f = if f < 128 then [f] else (128 + f % 128) :: encVar (f / 128) := by
  unfold encVar
  cases f with
  | zero => simp [encVarGo]
  | succ g =>
    by_cases hg : g + 1 ≥ 128
    · have e : (g + 1) >>> 7 = (g + 1) / 128 := Nat.shiftRight_eq_div_pow _ 7
      have h2 : (g + 1) / 128 ≤ g := by omega
      have h3 : ¬ g + 1 < 128 := by omega
      have h4 : (128 + (g + 1) % 128) % 256 = 128 + (g + 1) % 128 := by omega
      simp only [encVarGo, hg, if_true, e, h3, if_false, or80, h4]
      rw [encVarGo_fuel _ _ h2]
    · have h3 : g + 1 < 128 := by omega
      have h4 : (g + 1) % 256 = g + 1 := by omega
      simp only [encVarGo, hg, if_false, h3, if_true, h4]

theorem encVar_small (f : Nat) (h : f < 128) : encVar f = [f] := by
  rw [encVar_step]; simp [h]

theorem encVar_big (f : Nat) (h : 128 ≤ f) : encVar f = (128 + f % 128) :: encVar (f / 128) := by
  have : ¬ f < 128 := by omega
  rw [encVar_step]; simp [this]

/-- the exact byte strings for the four sizes -/
theorem encVar_1 (f : Nat) (h : f < 2 ^ 7) : encVar f = [f] := encVar_small f (by omega)

theorem encVar_2 (f : Nat) (h0 : 2 ^ 7 ≤ f) (h : f < 2 ^ 14) :
    encVar f = [128 + f % 128, f / 128] := by
  rw [encVar_big f (by omega), encVar_small _ (by omega)]

theorem encVar_3 (f : Nat) (h0 : 2 ^ 14 ≤ f) (h : f < 2 ^ 21) :
    encVar f = [128 + f % 128, 128 + f / 128 % 128, f / 128 / 128] := by
  rw [encVar_big f (by omega), encVar_big _ (by omega), encVar_small _ (by omega)]

theorem encVar_4 (f : Nat) (h0 : 2 ^ 21 ≤ f) (h : f < 2 ^ 28) :
    encVar f = [128 + f % 128, 128 + f / 128 % 128, 128 + f / 128 / 128 % 128,
      f / 128 / 128 / 128] := by
  rw [encVar_big f (by omega), encVar_big _ (by omega), encVar_big _ (by omega),
    encVar_small _ (by omega)]

theorem encVar_5 (f : Nat) (h0 : 2 ^ 28 ≤ f) (h : f < 2 ^ 35) :
    encVar f = [128 + f % 128, 128 + f / 128 % 128, 128 + f / 128 / 128 % 128,
      128 + f / 128 / 128 / 128 % 128, f / 128 / 128 / 128 / 128] := by
  rw [encVar_big f (by omega), encVar_big _ (by omega), encVar_big _ (by omega),
    encVar_big _ (by omega), encVar_small _ (by omega)]

/-! ## the requested theorems -/

/-- one varint round-trips exactly when it fits in 31 bits (four 7-bit groups + 3 bits) -/
theorem decVar_encVar (f : Nat) (hf : f < 2 ^ 31) (rest : List Nat) :
    decVar (encVar f ++ rest) = some (f, rest) := by
  by_cases h1 : f < 2 ^ 7
  · rw [encVar_1 f h1]
    exact decVar_lt f rest (by omega)
  · by_cases h2 : f < 2 ^ 14
    · rw [encVar_2 f (by omega) h2]
      show decVar ((128 + f % 128) :: (f / 128) :: rest) = _
      rw [decVar_2 _ _ _ (by omega) (by omega)]
      congr 2; omega
    · by_cases h3 : f < 2 ^ 21
      · rw [encVar_3 f (by omega) h3]
        show decVar ((128 + f % 128) :: (128 + f / 128 % 128) :: (f / 128 / 128) :: rest) = _
        rw [decVar_3 _ _ _ _ (by omega) (by omega) (by omega)]
        congr 2; omega
      · by_cases h4 : f < 2 ^ 28
        · rw [encVar_4 f (by omega) h4]
          show decVar ((128 + f % 128) :: (128 + f / 128 % 128) :: (128 + f / 128 / 128 % 128)
            :: (f / 128 / 128 / 128) :: rest) = _
          rw [decVar_4 _ _ _ _ _ (by omega) (by omega) (by omega) (by omega)]
          congr 2; omega
        · rw [encVar_5 f (by omega) (by omega)]
          show decVar ((128 + f % 128) :: (128 + f / 128 % 128) :: (128 + f / 128 / 128 % 128)
            :: (128 + f / 128 / 128 / 128 % 128) :: (f / 128 / 128 / 128 / 128) :: rest) = _
          rw [decVar_5 _ _ _ _ _ _ (by omega) (by omega) (by omega) (by omega)]
          congr 2; omega

/-- five bytes only from 2^28 on -/
theorem encVar_length_bound (f : Nat) (hf : f < 2 ^ 31) : (encVar f).length ≤ 4 + f / 2 ^ 28 := by
  by_cases h1 : f < 2 ^ 7
  · rw [encVar_1 f h1]; simp; omega
  · by_cases h2 : f < 2 ^ 14
    · rw [encVar_2 f (by omega) h2]; simp; omega
    · by_cases h3 : f < 2 ^ 21
      · rw [encVar_3 f (by omega) h3]; simp; omega
      · by_cases h4 : f < 2 ^ 28
        · rw [encVar_4 f (by omega) h4]; simp
        · rw [encVar_5 f (by omega) (by omega)]
          simp only [List.length_cons, List.length_nil]
          omega

theorem encVar_length_le4 (f : Nat) (hf : f < 2 ^ 28) : (encVar f).length ≤ 4 := by
  have := encVar_length_bound f (by omega)
  omega

/-- without any bound: at least one byte -/
theorem encVar_length_pos (f : Nat) : 1 ≤ (encVar f).length := by
  rw [encVar_step]
  by_cases h : f < 128 <;> simp [h]

theorem encVar_length (f : Nat) (hf : f < 2 ^ 31) :
    1 ≤ (encVar f).length ∧ (encVar f).length ≤ 5 := by
  refine ⟨encVar_length_pos f, ?_⟩
  by_cases h4 : f < 2 ^ 28
  · have := encVar_length_le4 f h4
    omega
  · rw [encVar_5 f (by omega) (by omega)]; simp

theorem encVarGo_bytes : ∀ (k f : Nat), ∀ y ∈ encVarGo k f, y < 256 := by
  intro k
  induction k with
  | zero =>
    intro f y hy
    simp only [encVarGo, List.mem_singleton] at hy
    omega
  | succ k ih =>
    intro f y hy
    by_cases hg : f ≥ 128
    · simp only [encVarGo, hg, if_true, List.mem_cons] at hy
      rcases hy with hy | hy
      · omega
      · exact ih _ y hy
    · simp only [encVarGo, hg, if_false, List.mem_singleton] at hy
      omega

theorem encVar_bytes (f : Nat) : ∀ y ∈ encVar f, y < 256 := encVarGo_bytes f f

theorem encodeHeader_nil : encodeHeader [] = [] := rfl

theorem encodeHeader_cons (f : Nat) (fs : List Nat) :
    encodeHeader (f :: fs) = encVar f ++ encodeHeader fs := by
  simp [encodeHeader]

theorem decHdrGo_encodeHeader (freqs : List Nat) (hf : ∀ f ∈ freqs, f < 2 ^ 31) (rest : List Nat) :
    decHdrGo freqs.length (encodeHeader freqs ++ rest) = some (freqs, rest) := by
  induction freqs with
  | nil => rfl
  | cons f fs ih =>
    have hf0 : f < 2 ^ 31 := hf f (by simp)
    have hfs : ∀ g ∈ fs, g < 2 ^ 31 := fun g hg => hf g (by simp [hg])
    rw [encodeHeader_cons, List.append_assoc, List.length_cons]
    simp only [decHdrGo, decVar_encVar f hf0, ih hfs]

theorem decodeHeader_encodeHeader (freqs : List Nat) (hlen : freqs.length = 256)
    (hf : ∀ f ∈ freqs, f < 2 ^ 31) (rest : List Nat) :
    decodeHeader (encodeHeader freqs ++ rest) = some (freqs, rest) := by
  unfold decodeHeader
  rw [← hlen]
  exact decHdrGo_encodeHeader freqs hf rest

theorem encodeHeader_length (freqs : List Nat) (hf : ∀ f ∈ freqs, f < 2 ^ 31) :
    freqs.length ≤ (encodeHeader freqs).length ∧ (encodeHeader freqs).length ≤ 5 * freqs.length := by
  induction freqs with
  | nil => simp [encodeHeader_nil]
  | cons f fs ih =>
    have hf0 : f < 2 ^ 31 := hf f (by simp)
    have hfs : ∀ g ∈ fs, g < 2 ^ 31 := fun g hg => hf g (by simp [hg])
    have a := encVar_length f hf0
    have b := ih hfs
    rw [encodeHeader_cons, List.length_append, List.length_cons]
    omega

/-- sharper: one extra byte per 2^28 occurrences -/
theorem encodeHeader_length_sum (freqs : List Nat) (hf : ∀ f ∈ freqs, f < 2 ^ 31) :
    (encodeHeader freqs).length ≤ 4 * freqs.length + freqs.sum / 2 ^ 28 := by
  induction freqs with
  | nil => simp [encodeHeader_nil]
  | cons f fs ih =>
    have hf0 : f < 2 ^ 31 := hf f (by simp)
    have hfs : ∀ g ∈ fs, g < 2 ^ 31 := fun g hg => hf g (by simp [hg])
    have a := encVar_length_bound f hf0
    have b := ih hfs
    rw [encodeHeader_cons, List.length_append, List.length_cons, List.sum_cons]
    omega

theorem encodeHeader_length_ge (freqs : List Nat) : freqs.length ≤ (encodeHeader freqs).length := by
  induction freqs with
  | nil => simp
  | cons f fs ih =>
    have a := encVar_length_pos f
    rw [encodeHeader_cons, List.length_append, List.length_cons]
    omega

theorem encodeHeader_bytes (freqs : List Nat) : ∀ y ∈ encodeHeader freqs, y < 256 := by
  intro y hy
  simp only [encodeHeader, List.mem_flatMap] at hy
  obtain ⟨f, _, hy⟩ := hy
  exact encVar_bytes f y hy

/-- the bound 2^31 is sharp (only three bits of the fifth byte are kept) -/
theorem decVar_encVar_sharp : decVar (encVar (2 ^ 31)) ≠ some (2 ^ 31, []) := by
  have e : encVar (2 ^ 31) = [128, 128, 128, 128, 8] := by
    rw [encVar_5 _ (by omega) (by omega)]
  rw [e, decVar_5 _ _ _ _ _ _ (by omega) (by omega) (by omega) (by omega)]
  simp

/-- `decVar_spec` without the byte hypothesis (it is not needed: the payload bits are masked) -/
theorem decVar_spec' (src : List Nat) (v : Nat) (r : List Nat)
    (h : decVar src = some (v, r)) :
    v < 2 ^ 31 ∧ (∃ pre, src = pre ++ r ∧ 1 ≤ pre.length ∧ pre.length ≤ 5) := by
  cases src with
  | nil => simp [decVar_nil] at h
  | cons v0 s0 =>
    by_cases h0 : v0 < 128
    · rw [decVar_lt v0 s0 h0] at h
      simp only [Option.some.injEq, Prod.mk.injEq] at h
      obtain ⟨rfl, rfl⟩ := h
      exact ⟨by omega, [v0], rfl, by simp, by simp⟩
    · cases s0 with
      | nil => rw [decVar_1 v0 (by omega)] at h; simp at h
      | cons v1 s1 =>
        by_cases h1 : v1 < 128
        · rw [decVar_2 v0 v1 s1 (by omega) h1] at h
          simp only [Option.some.injEq, Prod.mk.injEq] at h
          obtain ⟨rfl, rfl⟩ := h
          exact ⟨by omega, [v0, v1], rfl, by simp, by simp⟩
        · cases s1 with
          | nil => rw [decVar_2' v0 v1 (by omega) (by omega)] at h; simp at h
          | cons v2 s2 =>
            by_cases h2 : v2 < 128
            · rw [decVar_3 v0 v1 v2 s2 (by omega) (by omega) h2] at h
              simp only [Option.some.injEq, Prod.mk.injEq] at h
              obtain ⟨rfl, rfl⟩ := h
              exact ⟨by omega, [v0, v1, v2], rfl, by simp, by simp⟩
            · cases s2 with
              | nil => rw [decVar_3' v0 v1 v2 (by omega) (by omega) (by omega)] at h; simp at h
              | cons v3 s3 =>
                by_cases h3 : v3 < 128
                · rw [decVar_4 v0 v1 v2 v3 s3 (by omega) (by omega) (by omega) h3] at h
                  simp only [Option.some.injEq, Prod.mk.injEq] at h
                  obtain ⟨rfl, rfl⟩ := h
                  exact ⟨by omega, [v0, v1, v2, v3], rfl, by simp, by simp⟩
                · cases s3 with
                  | nil =>
                    rw [decVar_4' v0 v1 v2 v3 (by omega) (by omega) (by omega) (by omega)] at h
                    simp at h
                  | cons v4 s4 =>
                    rw [decVar_5 v0 v1 v2 v3 v4 s4 (by omega) (by omega) (by omega) (by omega)] at h
                    simp only [Option.some.injEq, Prod.mk.injEq] at h
                    obtain ⟨rfl, rfl⟩ := h
                    exact ⟨by omega, [v0, v1, v2, v3, v4], rfl, by simp, by simp⟩

theorem decHdrGo_spec' : ∀ (k : Nat) (src fs r : List Nat), decHdrGo k src = some (fs, r) →
    fs.length = k ∧ (∀ f ∈ fs, f < 2 ^ 31) ∧
      (∃ pre, src = pre ++ r ∧ k ≤ pre.length ∧ pre.length ≤ 5 * k) := by
  intro k
  induction k with
  | zero =>
    intro src fs r h
    simp only [decHdrGo, Option.some.injEq, Prod.mk.injEq] at h
    obtain ⟨rfl, rfl⟩ := h
    exact ⟨rfl, by simp, [], rfl, by simp, by simp⟩
  | succ k ih =>
    intro src fs r h
    simp only [decHdrGo] at h
    cases hv : decVar src with
    | none => rw [hv] at h; simp at h
    | some p =>
      obtain ⟨v, r1⟩ := p
      rw [hv] at h
      simp only at h
      cases hq : decHdrGo k r1 with
      | none => rw [hq] at h; simp at h
      | some q =>
        obtain ⟨fs1, r2⟩ := q
        rw [hq] at h
        simp only [Option.some.injEq, Prod.mk.injEq] at h
        obtain ⟨rfl, rfl⟩ := h
        obtain ⟨hv1, pre1, e1, l1, u1⟩ := decVar_spec' src v r1 hv
        obtain ⟨hl, hb2, pre2, e2, l2, u2⟩ := ih r1 fs1 r2 hq
        refine ⟨by simp [hl], ?_, pre1 ++ pre2, ?_, ?_, ?_⟩
        · intro f hf
          simp only [List.mem_cons] at hf
          rcases hf with rfl | hf
          · exact hv1
          · exact hb2 f hf
        · rw [e1, e2, List.append_assoc]
        · rw [List.length_append]; omega
        · rw [List.length_append]; omega

/-- what any successful header parse guarantees (used for forged inputs) -/
theorem decVar_spec (src : List Nat) (hb : ∀ x ∈ src, x < 256) (v : Nat) (r : List Nat)
    (h : decVar src = some (v, r)) :
    v < 2 ^ 31 ∧ (∃ pre, src = pre ++ r ∧ 1 ≤ pre.length ∧ pre.length ≤ 5) :=
  have _ := hb
  decVar_spec' src v r h

theorem decHdrGo_spec (k : Nat) (src : List Nat) (hb : ∀ x ∈ src, x < 256) (fs r : List Nat)
    (h : decHdrGo k src = some (fs, r)) :
    fs.length = k ∧ (∀ f ∈ fs, f < 2 ^ 31) ∧
      (∃ pre, src = pre ++ r ∧ k ≤ pre.length ∧ pre.length ≤ 5 * k) :=
  have _ := hb
  decHdrGo_spec' k src fs r h

theorem decodeHeader_spec (src : List Nat) (hb : ∀ x ∈ src, x < 256) (fs r : List Nat)
    (h : decodeHeader src = some (fs, r)) :
    fs.length = 256 ∧ (∀ f ∈ fs, f < 2 ^ 31) ∧
      (∃ pre, src = pre ++ r ∧ 256 ≤ pre.length ∧ pre.length ≤ 1280) :=
  decHdrGo_spec 256 src hb fs r h

/-- a source shorter than 256 bytes cannot be parsed: the Go code indexes out of range -/
theorem decodeHeader_short (src : List Nat) (h : src.length < 256) : decodeHeader src = none := by
  cases hd : decodeHeader src with
  | none => rfl
  | some p =>
    obtain ⟨fs, r⟩ := p
    obtain ⟨_, _, pre, e, l, _⟩ := decHdrGo_spec' 256 src fs r hd
    have : src.length = pre.length + r.length := by rw [e, List.length_append]
    omega

end Kanzi.SRT
