/-
C13 for the fixed-step delta codec `transform.FSDCodec` (transform name "MM") — property theorems only;
proofs in `Kanzi/Proofs/FSDInv.lean`, `FSDFwd.lean`, `FSD.lean`.  The model (`Kanzi/Model/FSD.lean`)
mirrors v2/transform/FSDCodec.go (MaxEncodedLen, Forward with its early declines, the sampling of seven
histograms, `internal.GetMagicType`, `internal.ComputeFirstOrderEntropy1024`, the choice of the step and
of delta / xor coding, the emission loops, the final "no improvement" test, the ctx write-back; Inverse)
and is tied to /repo by the `fsd` correspondence stream.

Conventions: a block is a `List Nat` of byte values (hypothesis `∀ x ∈ b, x < 256`); the last argument
of `fsdForward` / `fsdInverse` is `len(dst)` of the Go call; `.ok t` is `dst[0:written]` with a nil
error, `.err c` a non-nil error (Forward declines / Inverse fails), `.fault` a Go run-time panic (index
out of range) or exhausted model fuel.  `dt` is the `dataType` entry Forward reads from the ctx of
`NewFSDCodecWithCtx` (`dt = 0` is `NewFSDCodec()`); the theorems hold for all of them.
"Input left untouched on decline" is not a theorem here (values are immutable); it is an oracle of the
stream on the real code.
-/
import Kanzi.Model.FSD
import Kanzi.Proofs.FSD

namespace Kanzi.C13
open Kanzi.FSD
open Kanzi.RLT (Out)

/-- C13_fsd: for every block of bytes, every data type hint, and every destination at least as large
as advertised by `MaxEncodedLen`: if Forward succeeds, its output is at most `MaxEncodedLen(len)` bytes
long and Inverse into ANY destination of at least the original block length restores the block exactly. -/
theorem C13_fsd (dt : Nat) (b t : List Nat) (dstLen : Nat)
    (hb : ∀ x ∈ b, x < 256) (hdst : fsdMaxEncodedLen b.length ≤ dstLen)
    (h : fsdForward dt b dstLen = .ok t) :
    t.length ≤ fsdMaxEncodedLen b.length ∧ ∀ n, b.length ≤ n → fsdInverse t n = .ok b :=
  ⟨(fsd_roundtrip dt b t dstLen hb hdst h).1, (fsd_roundtrip dt b t dstLen hb hdst h).2.2⟩

/-- C13_fsd_total: neither direction ever indexes out of range (the model marks every slice access
of the Go code that would panic, and exhausted loop fuel, as `.fault`): Forward on any block into any
destination of at least `MaxEncodedLen(len)` bytes, with any hint; Inverse on ANY input (forged,
truncated, not produced by Forward) into a destination of ANY size.  Inverse therefore always returns
a block or a clean error. -/
theorem C13_fsd_total :
    (∀ (dt : Nat) (b : List Nat) (dstLen : Nat) (e : String),
      fsdMaxEncodedLen b.length ≤ dstLen → fsdForward dt b dstLen ≠ .fault e) ∧
    (∀ (src : List Nat) (n : Nat) (e : String), fsdInverse src n ≠ .fault e) :=
  ⟨fun dt b dstLen e hdst => fsdForward_ne_fault dt b dstLen e hdst,
   fun src n e => fsdInverse_ne_fault src n e⟩

/-- C13_fsd_bytes: the encoded block consists of byte values -/
theorem C13_fsd_bytes (dt : Nat) (b t : List Nat) (dstLen : Nat)
    (hb : ∀ x ∈ b, x < 256) (hdst : fsdMaxEncodedLen b.length ≤ dstLen)
    (h : fsdForward dt b dstLen = .ok t) : ∀ y ∈ t, y < 256 :=
  (fsd_roundtrip dt b t dstLen hb hdst h).2.1

/-- C13_fsd_any_choice: the round trip does not depend on what the entropy sampling selects.  For
EVERY coding mode (delta / xor) and EVERY step Inverse accepts (1, 2, 3, 4, 8, 16, not larger than the
block), whenever the emission part of Forward (`dst[0] = mode` ... end of the coding loop) consumed the
whole block, Inverse restores the block from its output into any destination of at least the block
length.  `dstEnd` (the loop bound, `MaxEncodedLen` in Forward) is arbitrary. -/
theorem C13_fsd_any_choice (a : Array Nat) (mode dist dstEnd dstLen : Nat)
    (hm : mode = DELTA_CODING ∨ mode = XOR_CODING)
    (hd : dist = 1 ∨ dist = 2 ∨ dist = 3 ∨ dist = 4 ∨ dist = 8 ∨ dist = 16)
    (hda : dist ≤ a.size) (hlen : dist + 2 ≤ dstLen)
    (hb : ∀ (i : Nat) (h : i < a.size), a[i] < 256)
    (r : Nat × Array Nat) (h : fsdEncode a mode dist dstEnd dstLen = .ok r) (hr : r.1 = a.size) :
    ∀ n, a.size ≤ n → fsdInverse r.2.toList n = .ok a.toList :=
  (fsdEncode_roundtrip a mode dist dstEnd dstLen hm hd hda hlen hb r h hr).2

/-- C13_fsd_zigzag: the tables `_FSD_ZIGZAG1` (indexed by the biased delta `127 + cur - prev`) and
`_FSD_ZIGZAG2` (read back as a byte and re-biased by 127) are mutually inverse bijections on bytes -/
theorem C13_fsd_zigzag (i : Nat) (h : i < 256) :
    zz1 i < 256 ∧ ((zz2 (zz1 i) + 127) % 256).toNat = i ∧
    ((zz2 i + 127) % 256).toNat < 256 ∧ zz1 ((zz2 i + 127) % 256).toNat = i :=
  zigzag_inverse i h

/-- what the coding loops rely on: a biased delta below 255 never maps to the escape token 0xFF and
`_FSD_ZIGZAG2` returns the signed delta -/
theorem C13_fsd_zigzag_delta (d : Nat) (h : d < 255) : zz1 d ≠ ESCAPE_TOKEN ∧ zz2 (zz1 d) = (d : Int) - 127 :=
  ⟨by have := (zz_delta d h).1; unfold ESCAPE_TOKEN; omega, (zz_delta d h).2⟩

/- the hypotheses are satisfiable / the definitions compute: emission and inverse on a short block
(delta coding with escapes, xor coding), the error classes of Inverse, early declines of Forward.  A block
that Forward ACCEPTS has at least 1024 bytes; evaluating the sampling phase on one inside the kernel is
out of reach of `decide`, so satisfiability of `fsdForward .. = .ok t` is witnessed by the `fsd` stream
(about 1000 accepted blocks per quick run, every (mode, dist) pair, model output = real output). -/
set_option maxRecDepth 100000 in
example : fsdEncode #[10, 12, 11, 200, 13] DELTA_CODING 1 100 100
    = .ok (5, #[0, 1, 10, 4, 1, 0xFF, 195, 0xFF, 197]) := by decide +kernel
set_option maxRecDepth 100000 in
example : fsdInverse [0, 1, 10, 4, 1, 0xFF, 195, 0xFF, 197] 5 = .ok [10, 12, 11, 200, 13] := by decide +kernel
example : fsdEncode #[10, 12, 11, 200, 13] XOR_CODING 2 100 100
    = .ok (5, #[1, 2, 10, 12, 1, 196, 6]) := by decide
example : fsdInverse [1, 2, 10, 12, 1, 196, 6] 7 = .ok [10, 12, 11, 200, 13] := by decide
example : fsdInverse [0, 1, 10, 4, 1, 0xFF] 9 = .err "data" := by decide
example : fsdInverse [0, 1, 10, 4, 1, 0xFF, 195] 3 = .err "dst" := by decide
example : fsdInverse [0, 5, 1, 2, 3, 4, 5, 6] 9 = .err "dist" := by decide
example : fsdInverse [2, 1, 10, 4] 9 = .err "mode" := by decide
example : fsdInverse [0, 4, 1, 2, 3] 9 = .err "data" := by decide
example : fsdInverse [7] 9 = .err "small" := by decide
example : fsdForward 0 [1, 2, 3] 67 = .err "small" := by decide
example : fsdForward 0 [1, 2, 3] 66 = .err "dst" := by decide
example : fsdMaxEncodedLen 1024 = 1088 ∧ fsdMaxEncodedLen 2048 = 2176 := by decide
example : getMagicType [0x52, 0x49, 0x46, 0x46, 0] = RIFF_MAGIC ∧ getMagicType [0x50, 0x35, 0x0A, 0x31] = PGM_MAGIC
    ∧ getMagicType [0x89, 0x50, 0x4E, 0x47] = 0x89504E47 ∧ getMagicType [1, 2, 3] = NO_MAGIC := by decide
set_option maxRecDepth 100000 in
example : log2ScaledBy1024 306 = 8456 ∧ log2ScaledBy1024 255 = 8186 ∧ log2ScaledBy1024 4096 = 12288 := by decide +kernel

end Kanzi.C13
