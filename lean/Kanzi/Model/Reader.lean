/-
Model of `io.Reader` (v2/io/CompressedStream.go: Read / Close / processBlock / GetRead, cursors
`available / consumed`, block-range decoding `from/to`, the cancel state), as repaired by the
fixes for findings F2 and F10.  Core Lean only.

The compressed stream is abstracted to the list of *frames* still to be read from the shared
bitstream (`Frame`): a frame decodes to a block, or fails while the task holds the token
(`badCrit`: invalid declared length, source exhausted inside the frame, source I/O error), or
fails in the concurrent part (`badPost`: entropy / inverse transform / checksum error), or is the
end marker; when the list is empty the source is exhausted (truncated stream) and the next task
fails in its critical section.  One batch is executed *sequentially in task order*: that every
interleaving of the real tasks reads the frames in that order, one task at a time, is
`C05_schedule_independent` / `C07_dec_mutex` over `Model.Protocol`.  The one place where the
schedule is visible — whether tasks after a `badPost` frame still read their frames before they
see the cancel — does not influence any observable result (the batch is discarded and the reader
is cancelled), so the model takes the schedule in which they do.
-/
namespace Kanzi.Reader

inductive Frame
  | block (data : List Nat)   -- decodes to `data` (non-empty)
  | badCrit                   -- fails while holding the token
  | badPost                   -- read completely, fails afterwards (e.g. checksum mismatch)
  | oversize (n : Nat)        -- decodes without error to more than B bytes (forged stream)
  | endMarker
deriving DecidableEq, Repr

inductive Err
  | closed      -- "Stream closed"
  | block       -- a block failed / truncated stream / source error
  | header
deriving DecidableEq, Repr

structure Cfg where
  B : Nat
  J : Nat
  nbIn : Nat            -- from the size hint in the header (0 = unknown), already min'ed with 63
  from_ : Option Nat    -- ctx["from"]
  to_ : Option Nat      -- ctx["to"]

structure St where
  frames : List Frame          -- remaining frames of the source, in stream order
  blockID : Option Nat         -- none = _CANCEL_TASKS_ID, some k = id of the last block read
  bufs : List (List Nat)       -- decoded blocks of the current batch, compacted (buffers[0..])
  available : Nat
  consumed : Nat
  closed : Bool
  decodedIds : List Nat        -- ids handed to the codec (entropy + inverse transform), for C11

def init (frames : List Frame) : St :=
  { frames := frames, blockID := some 0, bufs := [], available := 0, consumed := 0, closed := false,
    decodedIds := [] }

structure TaskRes where
  err : Bool
  skipped : Bool
  data : List Nat
  oversize : Bool := false
deriving Repr

def nbTasks (c : Cfg) : Nat := if c.J > 1 ∧ c.nbIn > 0 then min c.J c.nbIn else c.J

def inRange (c : Cfg) (id : Nat) : Bool :=
  (match c.from_ with | some f => decide (f ≤ id) | none => true) &&
  (match c.to_ with | some t => decide (id < t) | none => true)

/-- run the tasks of one batch in order. `cur` = counter (none = cancelled), `id` = id of this task -/
def runTasks (c : Cfg) : Nat → Nat → Option Nat → List Frame → List Nat → List TaskRes →
    (Option Nat × List Frame × List Nat × List TaskRes)
  | 0, _, cur, fs, dec, acc => (cur, fs, dec, acc)
  | n + 1, id, cur, fs, dec, acc =>
    match cur with
    | none => runTasks c n (id + 1) none fs dec (acc ++ [{ err := false, skipped := false, data := [] }])
    | some _ =>
      match fs with
      | [] => runTasks c n (id + 1) none [] dec (acc ++ [{ err := true, skipped := false, data := [] }])
      | .endMarker :: rest =>
        runTasks c n (id + 1) none rest dec (acc ++ [{ err := false, skipped := false, data := [] }])
      | .badCrit :: rest =>
        runTasks c n (id + 1) none rest dec (acc ++ [{ err := true, skipped := false, data := [] }])
      | f :: rest =>
        -- frame read completely: publish, then (concurrently) decode or skip
        if inRange c id then
          match f with
          | .block d => runTasks c n (id + 1) (some id) rest (dec ++ [id]) (acc ++ [{ err := false, skipped := false, data := d }])
          | .oversize k => runTasks c n (id + 1) (some id) rest (dec ++ [id])
              (acc ++ [{ err := false, skipped := false, data := List.replicate k 0, oversize := true }])
          | _ => runTasks c n (id + 1) (some id) rest (dec ++ [id]) (acc ++ [{ err := true, skipped := false, data := [] }])
        else runTasks c n (id + 1) (some id) rest dec (acc ++ [{ err := false, skipped := true, data := [] }])

/-- the in-order result scan of processBlock: returns (blocks kept, total decoded, error?) -/
def scan (B : Nat) : List TaskRes → List (List Nat) → Nat → (List (List Nat) × Nat × Bool)
  | [], bufs, total => (bufs, total, false)
  | r :: rs, bufs, total =>
    if r.skipped then scan B rs bufs total
    else if r.data.length > B then (bufs, total, true)
    else if r.err then (bufs, total + r.data.length, true)
    else scan B rs (bufs ++ [r.data]) (total + r.data.length)

/-- `processBlock`: returns (state, decoded, error?) ; fuel bounds the all-skipped repetition -/
def processBlock (c : Cfg) : Nat → St → St × Nat × Bool
  | 0, s => (s, 0, false)
  | fuel + 1, s =>
    match s.blockID with
    | none => (s, 0, false)
    | some first =>
      let r := runTasks c (nbTasks c) (first + 1) (some first) s.frames s.decodedIds []
      let s1 := { s with blockID := r.1, frames := r.2.1, decodedIds := r.2.2.1 }
      let sc := scan c.B r.2.2.2 [] 0
      if sc.2.2 then (s1, sc.2.1, true)
      else if (r.2.2.2.all (·.skipped)) ∧ r.2.2.2.length = nbTasks c ∧ nbTasks c > 0 then
        processBlock c fuel s1
      else ({ s1 with bufs := sc.1, consumed := 0 }, sc.2.1, false)

inductive ReadRes
  | data (bytes : List Nat) (e : Option Err)   -- n = bytes.length
  | eof
  | stale                                       -- would read beyond a decoded block (not a valid stream)
deriving DecidableEq, Repr

/-- the copy loop of `Read` -/
def readLoop (c : Cfg) : Nat → Nat → List Nat → St → St × ReadRes
  | 0, _, out, s => (s, .data out none)
  | fuel + 1, remaining, out, s =>
    if remaining = 0 then (s, .data out none)
    else
      let bufOff := s.consumed % c.B
      let len := min remaining (min s.available (c.B - bufOff))
      let blk := s.bufs.getD (s.consumed / c.B) []
      if len > 0 ∧ bufOff + len > blk.length then (s, .stale)
      else
        let out1 := out ++ (blk.drop bufOff).take len
        let s1 := { s with available := s.available - len, consumed := s.consumed + len }
        let rem1 := remaining - len
        if len > 0 ∧ s1.available > 0 ∧ bufOff + len ≥ c.B then readLoop c fuel rem1 out1 s1
        else if len > 0 ∧ rem1 = 0 then (s1, .data out1 none)
        else if s1.available = 0 then
          let r := processBlock c (s1.frames.length + 2) s1
          if r.2.2 then
            ({ r.1 with available := 0, consumed := 0, blockID := none }, .data out1 (some .block))
          else
            let s2 : St := { r.1 with available := r.2.1 }
            if s2.available = 0 then
              if out1.length = 0 then (s2, .eof) else (s2, .data out1 none)
            else readLoop c fuel rem1 out1 s2
        else readLoop c fuel rem1 out1 s1

/-- `Read(len)` -/
def read (c : Cfg) (s : St) (n : Nat) : St × ReadRes :=
  if s.closed then (s, .data [] (some .closed))
  else readLoop c (n + s.frames.length + 3) n [] s

/-- `Close()` -/
def close (s : St) : St := if s.closed then s else { s with closed := true, available := 0, bufs := [] }

def readAllAux (c : Cfg) (chunk : Nat) : Nat → St → List Nat → (List Nat × Option Err × Bool)
  | 0, _, acc => (acc, none, false)
  | fuel + 1, s, acc =>
    match read c s chunk with
    | (_, .eof) => (acc, none, true)
    | (_, .stale) => (acc, some .block, false)
    | (_, .data bytes (some e)) => (acc ++ bytes, some e, false)
    | (s1, .data bytes none) => readAllAux c chunk fuel s1 (acc ++ bytes)

/-- read with a fixed request size until EOF or error: (bytes, error, reached EOF) -/
def readAll (c : Cfg) (frames : List Frame) (chunk : Nat) (total : Nat) : List Nat × Option Err × Bool :=
  readAllAux c chunk (total + frames.length + 4) (init frames) []

/-- a program of reads with the given request sizes: list of results in order -/
def readSeq (c : Cfg) : St → List Nat → St × List ReadRes
  | s, [] => (s, [])
  | s, n :: ns => let r := read c s n; let q := readSeq c r.1 ns; (q.1, r.2 :: q.2)

/-- bytes delivered by a result -/
def ReadRes.bytes : ReadRes → List Nat
  | .data b _ => b
  | _ => []

def ReadRes.isErr : ReadRes → Bool
  | .data _ (some _) => true
  | _ => false

/-- a well-formed stream: blocks of exactly B bytes, the last one 1..B bytes, then the end marker -/
def validBlocks (B : Nat) (blocks : List (List Nat)) : Prop :=
  (∀ b ∈ blocks, 0 < b.length ∧ b.length ≤ B) ∧ (∀ b ∈ blocks.dropLast, b.length = B)

def validFrames (blocks : List (List Nat)) : List Frame := blocks.map Frame.block ++ [Frame.endMarker]

end Kanzi.Reader
