/-
Model of the reduced-offset Lempel-Ziv codec with ANS coded side buffers, `transform.rolzCodec1` (transform
name "ROLZ", v2/transform/ROLZCodec.go), slice `rolz`, property C13.  Shares `Kanzi/Model/ROLZX.lean`
(keys, hash tag, tables, `emitCopy`, `Out`) and reuses the ANS models of `Kanzi/Model/EntSmall.lean` (order 0)
and `Kanzi/Model/Ans1.lean` (order 1) for the entropy coding of the four side buffers.

  * `emitLengthBytes`, `readLength`  Go `emitLengthROLZ` (the bytes it stores), `readLengthROLZ`
  * `findMatch1`                     Go `rolzCodec1.findMatch` (8 bytes at a time, no registration)
  * `fwd1Step`                       one iteration of the loop "Next chunk" of Forward: search, registration, lazy
                                     check of the next position, token / length / literal / index emission
  * `chunkBits`, `packFast`          the bitstream of one chunk: four 32-bit lengths, ANS(literals), ANS0(tokens),
                                     ANS0(lengths), ANS0(match indexes); `Close` pads to a byte
  * `rolzForward`                    Go `ROLZCodec.Forward` (wrapper) + `rolzCodec1.Forward`
  * `rolzCtxWrite`                   the value Forward stores into the ctx entry `dataType` (if any)
  * `rolzInverse`                    Go `ROLZCodec.Inverse` (wrapper) + `rolzCodec1.Inverse`

Parameters: `cs` chunk size (`CHUNK_SIZE` in Go), `lpc` the `logPosChecks` of the codec instance (4 when built by
name), `hasCtx` / `dt` / `bsv` as in ROLZX.lean.  The side buffers `litBuf`, `lenBuf`, `mIdxBuf`, `tkBuf` of
Forward are the `Array Nat` of the bytes stored so far; every store is checked against the Go allocation
(`MaxEncodedLen(sizeChunk)`, `sizeChunk/5`, `sizeChunk/4`, `sizeChunk/4` for the FIRST value of `sizeChunk`) and
is a `.fault` beyond it.  The side buffers of Inverse are in-place arrays (allocated once, zeroed, reused for
every chunk: a forged stream can read stale entries).

ANS: `litEnc` is `NewANSRangeEncoder(obs, litOrder)` (order 0: chunks of 16384, log range 12; order 1, used for
blocks of at least 2^17 bytes: chunks of 16384<<8, log range 11), `mEnc` is `NewANSRangeEncoder(obs, 0, 32768)`.
The models return `none` both for a Go error and for a Go panic of the input bitstream (not enough bits): the
outcome is `.err "ans"` here (the stream canonicalises both Go behaviours to that class).  bsVersion 1
(`decodeChunkV1`) is not modelled.
-/
import Kanzi.Model.ROLZX
import Kanzi.Model.EntSmall
import Kanzi.Model.Ans1

namespace Kanzi.ROLZ
open Kanzi.Bits

/-- Go: `rolzCodec1.MaxEncodedLen` -/
def maxEncodedLen1 (srcLen : Nat) : Nat := if srcLen ≤ 512 then srcLen + 64 else srcLen

/-! ## length coding -/

/-- Go: `emitLengthROLZ(block, v)`: the bytes stored (`byte(0x80 | x)` is `128 + x % 128`) -/
def emitLengthBytes (v : Nat) : List Nat :=
  (if v ≥ 2 ^ 7 then
    (if v ≥ 2 ^ 14 then
      (if v ≥ 2 ^ 21 then [128 + (v >>> 21) % 128] else []) ++ [128 + (v >>> 14) % 128]
    else []) ++ [128 + (v >>> 7) % 128]
  else []) ++ [v % 128]

/-- Go: `readLengthROLZ(buf[i:i+4])`: `(value, bytes read)`; `none`: the slice expression panics
    (`i + 4 > cap(buf)`) -/
def readLength (buf : Array Nat) (i : Nat) : Option (Nat × Nat) :=
  if i + 4 ≤ buf.size then
    let b0 := buf.getD i 0
    if b0 < 128 then some (b0 % 128, 1)
    else
      let b1 := buf.getD (i + 1) 0
      if b1 < 128 then some ((b0 % 128) * 128 + b1 % 128, 2)
      else
        let b2 := buf.getD (i + 2) 0
        if b2 < 128 then some (((b0 % 128) * 128 + b1 % 128) * 128 + b2 % 128, 3)
        else some ((((b0 % 128) * 128 + b1 % 128) * 128 + b2 % 128) * 128 + buf.getD (i + 3) 0 % 128, 4)
  else none

/-! ## match search -/

/-- number of equal leading bytes of two 8-byte groups: `bits.TrailingZeros64(x ^ y) >> 3`, 8 when equal -/
def cpl8 (a : Array Nat) (i j : Nat) : Nat :=
  if cpl4 a i j < 4 then cpl4 a i j else 4 + cpl4 a (i + 4) (j + 4)

/-- Go: `n := 0; for n < maxMatch { if diff := Uint64(refBuf[n:]) ^ Uint64(curBuf[n:]); diff != 0 { n +=
    TrailingZeros64(diff) >> 3; break }; n += 8 }` -/
def matchLen1 (a : Array Nat) (lim r p maxMatch : Nat) : Nat → Nat → Out Nat
  | 0, _ => .fault "fuel"
  | f + 1, n =>
    if n < maxMatch then
      if r + n + 8 ≤ lim ∧ p + n + 8 ≤ lim then
        if cpl8 a (r + n) (p + n) < 8 then .ok (n + cpl8 a (r + n) (p + n)) else matchLen1 a lim r p maxMatch f (n + 8)
      else .fault "src-slice"
    else .ok n

/-- Go: the candidate loop of `rolzCodec1.findMatch` -/
def candLoop1 (a : Array Nat) (base lim pos hash32 maxMatch : Nat) (mts : Array Nat) (mb counter pc : Nat) :
    Nat → Nat → Nat → Nat → Out (Nat × Nat)
  | 0, _, bestLen, bestJ => .ok (bestLen, bestJ)
  | k + 1, j, bestLen, bestJ =>
    let ref := mts.getD (mb + (counter + pc - j) % pc) 0
    if ref / 2 ^ 24 * 2 ^ 24 ≠ hash32 then candLoop1 a base lim pos hash32 maxMatch mts mb counter pc k (j + 1) bestLen bestJ
    else
      let r := base + ref % 2 ^ 24
      match rd1 a lim (r + bestLen), rd1 a lim (pos + bestLen) with
      | some x, some y =>
        if x ≠ y then candLoop1 a base lim pos hash32 maxMatch mts mb counter pc k (j + 1) bestLen bestJ
        else
          match matchLen1 a lim r pos maxMatch (maxMatch / 8 + 2) 0 with
          | .ok n =>
            if n > bestLen then candLoop1 a base lim pos hash32 maxMatch mts mb counter pc k (j + 1) n j
            else candLoop1 a base lim pos hash32 maxMatch mts mb counter pc k (j + 1) bestLen bestJ
          | .err e => .err e
          | .fault e => .fault e
      | _, _ => .fault "src-index"

/-- Go: `rolzCodec1.findMatch(buf, pos, hash32, counter, m)`: the match `(index, length - minMatch)` if any -/
def findMatch1 (a : Array Nat) (base lim pos hash32 key mm lpc : Nat) (t : Tab) : Out (Option (Nat × Nat)) :=
  let maxMatch := min MAX_MATCH1 (lim - pos)
  if maxMatch < mm then .ok none
  else
    match candLoop1 a base lim pos hash32 (maxMatch - 8) t.mts (key * 2 ^ lpc) (t.counters.getD key 0) (2 ^ lpc) (2 ^ lpc) 0 0 0 with
    | .ok r => if r.1 < mm then .ok none else .ok (some (r.2, r.1 - mm))
    | .err e => .err e
    | .fault e => .fault e

/-! ## Forward -/

/-- the side buffers of Forward (bytes stored so far) and the tables -/
structure F1 where
  tab : Tab
  lit : Array Nat
  len : Array Nat
  mix : Array Nat
  tk : Array Nat

/-- the Go allocations of the side buffers (`litBuf`, `lenBuf`, `mIdxBuf` / `tkBuf`) for the first chunk size `sz0` -/
structure Caps where
  lit : Nat
  len : Nat
  tk : Nat

def capsOf (sz0 : Nat) : Caps := ⟨maxEncodedLen1 sz0, sz0 / 5, sz0 / 4⟩

/-- append `bs` to a side buffer of `cap` bytes; `none` = index out of range -/
@[inline] def pushAll (buf : Array Nat) (cap : Nat) (bs : List Nat) : Option (Array Nat) :=
  if buf.size + bs.length ≤ cap then some (buf ++ bs) else none

/-- Go: `copy(litBuf[litIdx:], buf[from:to]); litIdx += to - from` (`from`, `to` absolute) -/
def pushLits (lit : Array Nat) (cap : Nat) (a : Array Nat) (frm to : Nat) : Option (Array Nat) :=
  if lit.size + (to - frm) ≤ cap ∧ to ≤ a.size then some (lit ++ a.extract frm to) else none

/-- loop state of "Next chunk": `srcIdx`, `firstLitIdx` (absolute), `srcInc` -/
structure L1 where
  i : Nat
  first : Nat
  inc : Nat
  st : F1

/-- Go: token / lengths / literals / match index of one sequence (`i` = start of the match) -/
def emitSeq (a : Array Nat) (cp : Caps) (first i mi ml : Nat) (s : F1) : Out F1 :=
  let tab := s.tab
  let lit := s.lit
  let len := s.len
  let mix := s.mix
  let tk := s.tk
  let litLen := i - first
  let tok1 := if ml ≥ 7 then 7 else ml
  match (if ml ≥ 7 then pushAll len cp.len (emitLengthBytes (ml - 7)) else some len) with
  | none => .fault "len-index"
  | some len1 =>
    let tok := if litLen = 0 then tok1 else if litLen ≥ 31 then tok1 ||| 0xF8 else tok1 ||| ((litLen <<< 3) % 256)
    match (if litLen ≥ 31 then pushAll len1 cp.len (emitLengthBytes (litLen - 31)) else some len1) with
    | none => .fault "len-index"
    | some len2 =>
      match (if litLen > 0 then pushLits lit cp.lit a first i else some lit) with
      | none => .fault "lit-copy"
      | some lit1 =>
        -- Go: `if tkIdx+1 >= len(tkBuf) || mIdx >= len(mIdxBuf) { return ... "too many matches" }` (one more
        -- token follows the last match)
        if tk.size + 1 ≥ cp.tk ∨ mix.size ≥ cp.tk then .err "toomany"
        else
          match pushAll tk cp.tk [tok], pushAll mix cp.tk [mi % 256] with
          | some tk1, some mix1 => .ok ⟨tab, lit1, len2, mix1, tk1⟩
          | _, _ => .fault "tk-index"

/-- Go: "Check if better match at next position": with the result `r1` of `findMatch` at `i + 1`, the sequence
    that is emitted: `(start, matchIdx, matchLen - minMatch, tables)`; the better match registers `i + 1` -/
@[inline] def lazyPick (i mi ml : Nat) (r1 : Option (Nat × Nat)) (tab1 : Tab) (lpc key1 v1 : Nat) : Nat × Nat × Nat × Tab :=
  match r1 with
  | some (mi1, ml1) => if ml1 > ml then (i + 1, mi1, ml1, tab1.register lpc key1 v1) else (i, mi, ml, tab1)
  | none => (i, mi, ml, tab1)

/-- Go: one iteration of the loop "Next chunk" of `rolzCodec1.Forward` (positions absolute; `lim` the end of `buf`) -/
def fwd1Step (a : Array Nat) (cp : Caps) (base lim mm delta lpc : Nat) (l : L1) : Out L1 :=
  let i := l.i
  let first := l.first
  let inc := l.inc
  let s := l.st
  match getKey mm delta a base lim i, le32 a a.size i with
  | some key, some w =>
    let hash32 := rolzhashW w
    let tab := s.tab
    let lit := s.lit
    let len := s.len
    let mix := s.mix
    let tk := s.tk
    match findMatch1 a base lim i hash32 key mm lpc tab with
    | .ok none =>
      -- register, then skip ahead: `srcIdx++; srcIdx += srcInc >> 6; srcInc++`
      .ok ⟨i + 1 + (inc >>> 6), first, inc + 1, ⟨tab.register lpc key (hash32 + (i - base)), lit, len, mix, tk⟩⟩
    | .ok (some (mi, ml)) =>
      let tab1 := tab.register lpc key (hash32 + (i - base))
      -- check if better match at next position
      match getKey mm delta a base lim (i + 1), le32 a a.size (i + 1) with
      | some key1, some w1 =>
        let hash1 := rolzhashW w1
        match findMatch1 a base lim (i + 1) hash1 key1 mm lpc tab1 with
        | .ok r1 =>
          let p := lazyPick i mi ml r1 tab1 lpc key1 (hash1 + (i + 1 - base))
          let i' := p.1
          let mi' := p.2.1
          let ml' := p.2.2.1
          let tab2 := p.2.2.2
          match emitSeq a cp first i' mi' ml' ⟨tab2, lit, len, mix, tk⟩ with
          | .ok s' => .ok ⟨i' + ml' + mm, i' + ml' + mm, 0, s'⟩
          | .err e => .err e
          | .fault e => .fault e
        | .err e => .err e
        | .fault e => .fault e
      | _, _ => .fault "src-slice"
    | .err e => .err e
    | .fault e => .fault e
  | _, _ => .fault "src-slice"

/-- Go: `for srcIdx < sizeChunk { ... }` -/
def fwd1Loop (a : Array Nat) (cp : Caps) (base lim mm delta lpc : Nat) : Nat → L1 → Out L1
  | 0, _ => .fault "fuel"
  | f + 1, l =>
    if l.i < lim then
      match fwd1Step a cp base lim mm delta lpc l with
      | .ok l' => fwd1Loop a cp base lim mm delta lpc f l'
      | .err e => .err e
      | .fault e => .fault e
    else .ok l

/-- Go: "Emit last chunk literals" (`lim` = end of the chunk = `srcIdx`) -/
def fwd1Tail (a : Array Nat) (cp : Caps) (first lim : Nat) (s : F1) : Out F1 :=
  let tab := s.tab
  let lit := s.lit
  let len := s.len
  let mix := s.mix
  let tk := s.tk
  let litLen := lim - first
  match (if tk.size ≠ 0 then pushAll tk cp.tk [if litLen ≥ 31 then 0xF8 else (litLen <<< 3) % 256] else some tk) with
  | none => .fault "tk-index"
  | some tk1 =>
    match (if litLen ≥ 31 then pushAll len cp.len (emitLengthBytes (litLen - 31)) else some len) with
    | none => .fault "len-index"
    | some len1 =>
      match (if litLen > 0 then pushLits lit cp.lit a first lim else some lit) with
      | none => .fault "lit-copy"
      | some lit1 => .ok ⟨tab, lit1, len1, mix, tk1⟩

/-- pack bits into bytes, zero padding the last byte (`Kanzi.Bits.packBytes`, linear time) -/
def packLoop : Nat → Bits → Array Nat → Array Nat
  | 0, _, acc => acc
  | f + 1, bs, acc =>
    match bs with
    | [] => acc
    | b0 :: b1 :: b2 :: b3 :: b4 :: b5 :: b6 :: b7 :: r =>
      packLoop f r (acc.push (128 * b0.toNat + 64 * b1.toNat + 32 * b2.toNat + 16 * b3.toNat + 8 * b4.toNat
        + 4 * b5.toNat + 2 * b6.toNat + b7.toNat))
    | l => acc.push (bitsNat (l ++ List.replicate (8 - l.length) false))

def packFast (bs : Bits) : Array Nat := packLoop (bs.length / 8 + 1) bs #[]

/-- `litEnc.Write(block)`: order 0 (chunks of 16384, log range 12) or order 1 (chunks of 16384<<8, log range 11) -/
def ansLitEncode (litOrder : Nat) (blk : List Nat) : Option Bits :=
  if litOrder = 0 then Kanzi.EntSmall.ans0Encode blk 16384 12 else Kanzi.Ans1.ans1Encode blk 4194304 11

/-- the bitstream of one chunk: `WriteBits(litIdx, 32) .. WriteBits(mIdx, 32)`, `litEnc.Write(litBuf[0:litIdx])`,
    `mEnc.Write(tkBuf[0:tkIdx])`, `mEnc.Write(lenBuf[0:lenIdx])`, `mEnc.Write(mIdxBuf[0:mIdx])` -/
def chunkBits (litOrder : Nat) (lit tk len mix : List Nat) : Option Bits :=
  match ansLitEncode litOrder lit, Kanzi.EntSmall.ans0Encode tk 32768 12, Kanzi.EntSmall.ans0Encode len 32768 12,
      Kanzi.EntSmall.ans0Encode mix 32768 12 with
  | some b1, some b2, some b3, some b4 =>
    some (natBits lit.length 32 ++ natBits tk.length 32 ++ natBits len.length 32 ++ natBits mix.length 32
      ++ b1 ++ b2 ++ b3 ++ b4)
  | _, _, _, _ => none

/-- Go: the main loop `for startChunk < srcEnd` of `rolzCodec1.Forward`.  Returns `startChunk`, `sizeChunk`,
    the tables and `dst[0:dstIdx]`. -/
def fwd1Chunks (a : Array Nat) (cp : Caps) (dstLen srcEnd mm delta lpc litOrder : Nat) :
    Nat → Nat → Nat → Tab → Array Nat → Out (Nat × Nat × Tab × Array Nat)
  | 0, _, _, _, _ => .fault "fuel"
  | f + 1, startChunk, sizeChunk, tab, out =>
    if startChunk < srcEnd then
      let endChunk := if startChunk + sizeChunk ≥ srcEnd then srcEnd else startChunk + sizeChunk
      let n := min (srcEnd - startChunk) 8
      let counters := tab.counters
      match pushLits #[] cp.lit a startChunk (startChunk + n) with
      | none => .fault "lit-index"
      | some lit0 =>
        match fwd1Loop a cp startChunk endChunk mm delta lpc (endChunk - startChunk + 1)
            ⟨startChunk + n, startChunk + n, 0, ⟨⟨matches0 lpc, counters⟩, lit0, #[], #[], #[]⟩⟩ with
        | .ok l =>
          match fwd1Tail a cp l.first endChunk l.st with
          | .ok s =>
            match chunkBits litOrder s.lit.toList s.tk.toList s.len.toList s.mix.toList with
            | none => .err "ans"
            | some bits =>
              let bytes := packFast bits
              if out.size + bytes.size > dstLen then .err "dstsmall"
              else fwd1Chunks a cp dstLen srcEnd mm delta lpc litOrder f endChunk (endChunk - startChunk) s.tab (out ++ bytes)
          | .err e => .err e
          | .fault e => .fault e
        | .err e => .err e
        | .fault e => .fault e
    else .ok (startChunk, sizeChunk, tab, out)

/-- `(minMatch, delta, flag bits)` chosen by `rolzCodec1.Forward` -/
def fwdParams1 (ty : Nat) : Nat × Nat × Nat :=
  if ty = DT_EXE then (MIN_MATCH3, 3, 8)
  else if ty = DT_DNA then (MIN_MATCH7, 8, 4)
  else if ty = DT_MULTIMEDIA then (MIN_MATCH4, 8, 2)
  else (MIN_MATCH3, 2, 0)

/-- Go: `ROLZCodec.Forward(src, dst)` with a `rolzCodec1` delegate; `dstLen = len(dst)`; `.ok` = `dst[0:dstIdx]` -/
def rolzForward (cs lpc : Nat) (hasCtx : Bool) (dt : Nat) (src : List Nat) (dstLen : Nat) : Out (List Nat) :=
  if src.length = 0 ∨ dstLen = 0 then .ok []
  else if src.length < MIN_BLOCK_SIZE then .err "small"
  else if src.length > MAX_BLOCK_SIZE then .err "big"
  else if dstLen < maxEncodedLen1 src.length then .err "dst"
  else
    let a := src.toArray
    let n := a.size
    let srcEnd := n - 4
    let litOrder := if n < 2 ^ 17 then 0 else 1
    let prm := fwdParams1 (effType hasCtx dt src)
    let flags := (litOrder ||| prm.2.2 ||| (lpc <<< 4)) % 256
    let out0 : Array Nat := #[(n >>> 24) % 256, (n >>> 16) % 256, (n >>> 8) % 256, n % 256, flags]
    match fwd1Chunks a (capsOf (min n cs)) dstLen srcEnd prm.1 prm.2.1 lpc litOrder (n / (min n cs) + 2) 0 (min n cs)
        ⟨matches0 lpc, Array.replicate HASH_SIZE 0⟩ out0 with
    | .ok (startChunk, _, _, out) =>
      if out.size + 4 > dstLen then .err "dstsmall"
      else
        -- Go: `srcIdx += (startChunk - sizeChunk)` with `srcIdx = sizeChunk` after every chunk
        let i := startChunk
        match rd1 a n i, rd1 a n (i + 1), rd1 a n (i + 2), rd1 a n (i + 3) with
        | some b0, some b1, some b2, some b3 =>
          let out' := (((out.push b0).push b1).push b2).push b3
          if i + 4 ≠ n then .err "dstsmall"
          else if out'.size ≥ n then .err "nocomp"
          else .ok out'.toList
        | _, _, _, _ => .fault "src-index"
    | .err e => .err e
    | .fault e => .fault e

/-- Go: the value stored by `(*this.ctx)["dataType"] = dt` during `rolzCodec1.Forward` (ctx present, entry absent
    or DT_UNDEFINED): the detected type when it is not DT_UNDEFINED -/
def rolzCtxWrite (hasCtx : Bool) (dt : Nat) (src : List Nat) (dstLen : Nat) : Option Nat :=
  if src.length = 0 ∨ dstLen = 0 ∨ src.length < MIN_BLOCK_SIZE ∨ src.length > MAX_BLOCK_SIZE
      ∨ dstLen < maxEncodedLen1 src.length ∨ !hasCtx ∨ dt ≠ DT_UNDEFINED then none
  else
    let k := Kanzi.RLT.detectSimpleType src.length (Kanzi.RLT.histogram src)
    if k ≠ DT_UNDEFINED then some k else none

/-! ## Inverse -/

/-- the mutable state of `rolzCodec1.Inverse` inside a chunk -/
structure I1 where
  tab : Tab
  dst : Array Nat

/-- Go: the registration loop of a literal run: `for n := 0; n < litLen; n++ { key := getKey(d[n:]); c :=
    (counters[key] + 1) & maskChecks; matches[(key<<logPosChecks)+uint32(c)] = uint32(dstIdx + n); counters[key] = c;
    n += srcInc >> 6; srcInc++ }` (`i` = absolute start of the run, `n` the loop variable) -/
def regRun (mm delta lpc base lim i litLen : Nat) : Nat → Nat → Nat → I1 → Out I1
  | 0, _, _, _ => .fault "fuel"
  | f + 1, n, inc, s =>
    if n < litLen then
      let tab := s.tab
      let dst := s.dst
      match getKey mm delta dst base lim (i + n) with
      | none => .fault "dst-slice"
      | some key =>
        if key * 2 ^ lpc + (tab.counters.getD key 0 + 1) % 2 ^ lpc < tab.mts.size then
          regRun mm delta lpc base lim i litLen f (n + (inc >>> 6) + 1) (inc + 1) ⟨tab.register lpc key (i + n - base), dst⟩
        else .fault "matches-index"
    else .ok s

/-- write `l` at the front of the buffer `buf` (Go: what a `Read` into `buf[0:k]` leaves when only the first
    `l.length` bytes were decoded) -/
def blit (buf : Array Nat) (l : List Nat) : Array Nat :=
  (l.foldl (fun (p : Array Nat × Nat) v => (p.1.setIfInBounds p.2 v, p.2 + 1)) (buf, 0)).1

/-- Go: `copy(dst[d:lim], src[s:s+n])` of different arrays (bounded by `lim`; the source range is checked by the caller) -/
def copyFrom (dst : Array Nat) (lim d : Nat) (src : Array Nat) (s : Nat) : Nat → Array Nat
  | 0 => dst
  | n + 1 => if d < lim then copyFrom (dst.setIfInBounds d (src.getD s 0)) lim (d + 1) src (s + 1) n else dst

/-- the side buffers of Inverse after the decoding of one chunk header -/
structure Side where
  lit : Array Nat
  len : Array Nat
  mix : Array Nat
  tk : Array Nat

/-- loop state of "Next chunk" of Inverse: `dstIdx` (absolute), `litIdx`, `lenIdx`, `mIdx`, `tkIdx` -/
structure J1 where
  i : Nat
  litIdx : Nat
  lenIdx : Nat
  mIdx : Nat
  tkIdx : Nat
  st : I1

/-- Go: one iteration of the loop "Next chunk" of `rolzCodec1.Inverse`; `.ok (j, true)`: `break` -/
def inv1Step (sd : Side) (dstEnd base lim mm delta lpc : Nat) (j : J1) : Out (J1 × Bool) :=
  let i := j.i
  let litIdx := j.litIdx
  let lenIdx := j.lenIdx
  let mIdx := j.mIdx
  let tkIdx := j.tkIdx
  let s := j.st
  let tab := s.tab
  let dst := s.dst
  match rd1 sd.tk sd.tk.size tkIdx with
  | none => .fault "tk-index"
  | some token =>
    -- match length
    match (if token % 8 = 7 then (readLength sd.len lenIdx).map (fun r => (r.1 + 7, lenIdx + r.2))
           else some (token % 8, lenIdx)) with
    | none => .fault "len-slice"
    | some (matchLen, lenIdx1) =>
      match (if token < 0xF8 then some (token >>> 3, lenIdx1)
             else (readLength sd.len lenIdx1).map (fun r => (r.1 + 31, lenIdx1 + r.2))) with
      | none => .fault "len-slice"
      | some (litLen, lenIdx2) =>
        -- literals
        let afterLits : Out (Nat × I1 × Bool) :=
          if litLen > 0 then
            if (i - base) + litLen > sd.lit.size then .err "invalid"
            else if i < base + delta then .fault "dst-slice"
            else if litIdx + litLen > sd.lit.size then .fault "lit-slice"
            else
              match regRun mm delta lpc base lim i litLen (litLen + 1) 0 0 ⟨tab, copyFrom dst lim i sd.lit litIdx litLen⟩ with
              | .ok s1 =>
                if i + litLen ≥ lim then (if i + litLen = lim then .ok (i + litLen, s1, true) else .err "invalid")
                else .ok (i + litLen, s1, false)
              | .err e => .err e
              | .fault e => .fault e
          else .ok (i, ⟨tab, dst⟩, false)
        match afterLits with
        | .err e => .err e
        | .fault e => .fault e
        | .ok (i1, s1, true) => .ok (⟨i1, litIdx + litLen, lenIdx2, mIdx, tkIdx + 1, s1⟩, true)
        | .ok (i1, s1, false) =>
          if (i1 - base) + matchLen + mm > dstEnd then .err "invalid"
          else
            match rd1 sd.mix sd.mix.size mIdx with
            | none => .fault "mix-index"
            | some matchIdx =>
              let tab1 := s1.tab
              let dst1 := s1.dst
              match getKey mm delta dst1 base lim i1 with
              | none => .fault "dst-slice"
              | some key =>
                if (key + 1) * 2 ^ lpc > tab1.mts.size then .fault "matches-slice"
                else
                  let ref := tab1.mts.getD (key * 2 ^ lpc + (tab1.counters.getD key 0 + 256 * 2 ^ lpc - matchIdx) % 2 ^ lpc) 0
                  match emitCopy dst1 lim i1 (base + ref) (matchLen + mm) with
                  | .ok (dst', i2) =>
                    .ok (⟨i2, litIdx + litLen, lenIdx2, mIdx + 1, tkIdx + 1, ⟨tab1.register lpc key (i1 - base), dst'⟩⟩, false)
                  | .err e => .err e
                  | .fault e => .fault e

/-- Go: `for dstIdx < sizeChunk { ... }` -/
def inv1Loop (sd : Side) (dstEnd base lim mm delta lpc : Nat) : Nat → J1 → Out J1
  | 0, _ => .fault "fuel"
  | f + 1, j =>
    if j.i < lim then
      match inv1Step sd dstEnd base lim mm delta lpc j with
      | .ok (j', true) => .ok j'
      | .ok (j', false) => inv1Loop sd dstEnd base lim mm delta lpc f j'
      | .err e => .err e
      | .fault e => .fault e
    else .ok j

/-! ### the payload buffer of `ANSRangeDecoder`

`decodeChunkV2` reads the payload with `ReadArray(this.buffer, 8*sz)` into a buffer of `max(2*len(block), 256)`
bytes (kept and only ever grown by the decoder object); `sz` comes from the stream and is only checked against
`2^27`, so a forged size beyond the buffer makes the input bitstream panic.  The ANS models of EntSmall / Ans1
have an unbounded buffer; the chunk loops of `Read` are repeated here with that one additional test
(`ansGuard`).  For the output of an encoder the test never fires (payload `≤ 2 * len`). -/

/-- `len(this.buffer)` after `if len(this.buffer) < minBufSize { this.buffer = make([]byte, minBufSize) }` -/
def ansBuf (buf len : Nat) : Nat := if buf < max (2 * len) 256 then max (2 * len) 256 else buf

/-- the payload announced at the head of `r` fits the buffer (or `decodeChunkV2` fails before using it) -/
def ansGuard (buf len : Nat) (r : Bits) : Bool :=
  match Kanzi.EntSmall.readVarInt r with
  | some (sz, _) => decide (sz ≥ 2 ^ 27 ∨ sz ≤ ansBuf buf len)
  | none => true

/-- `Kanzi.EntSmall.ans0DecodeChunks` with the payload buffer (`buf` = its current length; returned updated) -/
def ans0ChunksB : Nat → Nat → Nat → Nat → Bits → Option (List Nat × Bits × Nat)
  | 0, _, _, buf, bs => some ([], bs, buf)
  | fuel + 1, chunkSize, count, buf, bs =>
    if count = 0 then some ([], bs, buf)
    else
      match Kanzi.EntSmall.ansDecodeHeader bs with
      | none => none
      | some ((a, f, lr), r) =>
        if a.length = 0 then some ([], r, buf)
        else
          let len := min chunkSize count
          if a.length = 1 then
            match ans0ChunksB fuel chunkSize (count - len) buf r with
            | none => none
            | some (tl, r2, b2) => some (List.replicate len (a.headD 0) ++ tl, r2, b2)
          else if !ansGuard buf len r then none
          else
            match Kanzi.EntSmall.ans0DecodeChunk (Kanzi.EntSmall.mkDecTable f lr) lr len r with
            | none => none
            | some (c, r1) =>
              match ans0ChunksB fuel chunkSize (count - len) (ansBuf buf len) r1 with
              | none => none
              | some (tl, r2, b2) => some (c ++ tl, r2, b2)

/-- `ANSRangeDecoder.Read(block)` for order 0 on a decoder object whose payload buffer has `buf` bytes -/
def ans0DecodeB (bs : Bits) (count chunkSize buf : Nat) : Option (List Nat × Bits × Nat) :=
  if count ≤ 32 then (Kanzi.EntSmall.readBytes count bs).map (fun p => (p.1, p.2, buf))
  else ans0ChunksB count chunkSize count buf bs

/-- `Kanzi.Ans1.ans1DecodeChunks` with the payload buffer -/
def ans1ChunksB : Nat → Nat → Nat → List (List Nat) → Nat → Bits → Option (List Nat × Bits)
  | 0, _, _, _, _, bs => some ([], bs)
  | fuel + 1, chunkSize, count, prev, buf, bs =>
    if count = 0 then some ([], bs)
    else
      match Kanzi.Ans1.ans1DecodeHeader prev bs with
      | none => none
      | some ((lr, ts), r) =>
        if (ts.map (·.1.length)).sum = 0 then some ([], r)
        else if !ansGuard buf (min chunkSize count) r then none
        else
          match Kanzi.Ans1.ans1DecodeChunk (Kanzi.Ans1.mkDecTabs (ts.map (·.2)) lr) lr (min chunkSize count) r with
          | none => none
          | some (c, r1) =>
            match ans1ChunksB fuel chunkSize (count - min chunkSize count) (ts.map (·.2))
                (ansBuf buf (min chunkSize count)) r1 with
            | none => none
            | some (tl, r2) => some (c ++ tl, r2)

/-- `litDec.Read(litBuf[0:n])` with `litDec = NewANSRangeDecoderWithCtx(ibs, ctx, litOrder)` (a new decoder object):
    the default chunk size is 32768 when the ctx carries a `bsVersion < 4`, else 16384; order 1 shifts it by 8 -/
def ansLitDecode (litOrder : Nat) (old : Bool) (bs : Bits) (n : Nat) : Option (List Nat × Bits) :=
  let chk := if old then 32768 else 16384
  if litOrder = 0 then (ans0DecodeB bs n chk 0).map (fun p => (p.1, p.2.1))
  else if n ≤ 32 then Kanzi.EntSmall.readBytes n bs
  else ans1ChunksB n (chk * 256) n Kanzi.Ans1.freshTables 0 bs

/-- the four 32-bit lengths of a chunk -/
def readHdr (bs : Bits) : Option ((Nat × Nat × Nat × Nat) × Bits) :=
  match Kanzi.EntSmall.readBits 32 bs with
  | none => none
  | some (a, r1) =>
    match Kanzi.EntSmall.readBits 32 r1 with
    | none => none
    | some (b, r2) =>
      match Kanzi.EntSmall.readBits 32 r2 with
      | none => none
      | some (c, r3) =>
        match Kanzi.EntSmall.readBits 32 r3 with
        | none => none
        | some (d, r4) => some ((a, b, c, d), r4)

/-- Go: the main loop `for startChunk < dstEnd` of `rolzCodec1.Inverse` (`fl` = 8, or 2 for `bsVersion < 3`).
    Returns the last chunk-relative `dstIdx`, `startChunk`, `sizeChunk`, `srcIdx` and the destination. -/
def inv1Chunks (src : Array Nat) (dstEnd mm delta lpc litOrder fl : Nat) (old : Bool) :
    Nat → Nat → Nat → Nat → Nat → Side → Tab → Array Nat → Out (Nat × Nat × Nat × Nat × Array Nat)
  | 0, _, _, _, _, _, _, _ => .fault "fuel"
  | f + 1, startChunk, sizeChunk0, dstIdx, srcIdx, sd, tab, dst =>
    if startChunk < dstEnd then
      let endChunk := if startChunk + sizeChunk0 > dstEnd then dstEnd else startChunk + sizeChunk0
      let sizeChunk := endChunk - startChunk
      let bs := ofBytes (src.extract srcIdx src.size).toList
      match readHdr bs with
      | none => .err "ans"
      | some ((litLen, tkLen, mLenLen, mIdxLen), r0) =>
        if litLen > sd.lit.size ∨ tkLen > sd.tk.size ∨ mLenLen > sd.len.size ∨ mIdxLen > sd.mix.size then .err "length"
        else if litLen < min sizeChunk 8 ∨ litLen > sizeChunk then .err "invalid"
        else if (tkLen = 0 ∧ mIdxLen ≠ 0) ∨ (tkLen > 0 ∧ mIdxLen + 1 ≠ tkLen) then .err "invalid"
        else
          match ansLitDecode litOrder old r0 litLen with
          | none => .err "ans"
          | some (lits, r1) =>
            match ans0DecodeB r1 tkLen 32768 0 with
            | none => .err "ans"
            | some (tks, r2, buf2) =>
              match ans0DecodeB r2 mLenLen 32768 buf2 with
              | none => .err "ans"
              | some (lens, r3, buf3) =>
                match ans0DecodeB r3 mIdxLen 32768 buf3 with
                | none => .err "ans"
                | some (mixs, r4, _) =>
                  let sd1 : Side := ⟨blit sd.lit lits, blit sd.len lens, blit sd.mix mixs, blit sd.tk tks⟩
                  let srcIdx1 := srcIdx + (bs.length - r4.length + 7) / 8
                  let tab0 : Tab := ⟨Array.replicate tab.mts.size 0, tab.counters⟩
                  if tkLen = 0 then
                    if litLen ≠ sizeChunk then .err "invalid"
                    else
                      inv1Chunks src dstEnd mm delta lpc litOrder fl old f endChunk sizeChunk sizeChunk srcIdx1 sd1 tab0
                        (copyFrom dst endChunk startChunk sd1.lit 0 sizeChunk)
                  else if sizeChunk < fl ∨ sd1.lit.size < fl then .fault "first-index"
                  else
                    match inv1Loop sd1 dstEnd startChunk endChunk mm delta lpc (sizeChunk + 1)
                        ⟨startChunk + fl, fl, 0, 0, 0, ⟨tab0, copyFrom dst endChunk startChunk sd1.lit 0 fl⟩⟩ with
                    | .ok j =>
                      inv1Chunks src dstEnd mm delta lpc litOrder fl old f endChunk sizeChunk (j.i - startChunk) srcIdx1 sd1
                        j.st.tab j.st.dst
                    | .err e => .err e
                    | .fault e => .fault e
    else .ok (dstIdx, startChunk, sizeChunk0, srcIdx, dst)

/-- `(minMatch, delta, first literals)` chosen by `rolzCodec1.Inverse` from `bsVersion` and the flags byte -/
def invParams1 (bsv flags : Nat) : Nat × Nat × Nat :=
  if bsv ≥ 4 then
    (if flags &&& 0x0E = 2 then (MIN_MATCH4, 8, 8)
     else if flags &&& 0x0E = 4 then (MIN_MATCH7, 8, 8)
     else if flags &&& 0x0E = 8 then (MIN_MATCH3, 3, 8)
     else (MIN_MATCH3, 2, 8))
  else if bsv ≥ 3 then
    (if flags &&& 6 = 2 then (MIN_MATCH4, 2, 8) else if flags &&& 6 = 4 then (MIN_MATCH7, 2, 8) else (MIN_MATCH3, 2, 8))
  else (MIN_MATCH3, 2, 2)

/-- Go: `ROLZCodec.Inverse(src, dst)` with a `rolzCodec1` delegate built with `logPosChecks = lpc0`; `hasBsv`: the
    ctx carries a `bsVersion` entry (`bsv`; 6 otherwise); `dst0` = the destination before the call.
    `.ok (written, dst)`. -/
def rolzInverse (cs lpc0 : Nat) (hasBsv : Bool) (bsv : Nat) (src : List Nat) (dst0 : Array Nat) : Out (Nat × Array Nat) :=
  if src.length = 0 ∨ dst0.size = 0 then .ok (0, dst0)
  else if src.length < 5 then .err "small"
  else if src.length > MAX_BLOCK_SIZE then .err "big"
  else
    let a := src.toArray
    let n := beN a 0 4
    if n ≤ 4 ∨ n - 4 > dst0.size then .err "input"
    else
      let dstEnd := n - 4
      let flags := a.getD 4 0
      let v := if hasBsv then bsv else 6
      let prm := invParams1 v flags
      let lpc := flags >>> 4
      if lpc < 2 ∨ lpc > 8 then .err "lpc"
      else
        let sz0 := min dst0.size cs
        let sd0 : Side := ⟨Array.replicate sz0 0, Array.replicate (sz0 / 5) 0, Array.replicate (sz0 / 4) 0,
          Array.replicate (sz0 / 4) 0⟩
        match inv1Chunks a dstEnd prm.1 prm.2.1 lpc (flags % 2) prm.2.2 (hasBsv ∧ bsv < 4) (dstEnd / sz0 + 2) 0 sz0 0 5 sd0
            ⟨Array.replicate (HASH_SIZE * 2 ^ lpc0) 0, Array.replicate HASH_SIZE 0⟩ dst0 with
        | .ok (dstIdx, startChunk, sizeChunk, srcIdx, dst) =>
          -- Go: `dstIdx += (startChunk - sizeChunk)`
          let i := dstIdx + startChunk - sizeChunk
          if i + 4 > dst.size ∨ srcIdx + 4 ≠ a.size then .err "input"
          else
            .ok (i + 4, (((dst.setIfInBounds i (a.getD srcIdx 0)).setIfInBounds (i + 1) (a.getD (srcIdx + 1) 0)).setIfInBounds
              (i + 2) (a.getD (srcIdx + 2) 0)).setIfInBounds (i + 3) (a.getD (srcIdx + 3) 0))
        | .err e => .err e
        | .fault e => .fault e

end Kanzi.ROLZ
