/-
Structural facts about the XXHash models (`Kanzi/Model/XXHash.lean`): the stripe loops consume
exactly the whole 16 / 32-byte stripes (Go: `for n <= end16 { …; n += 16 }`), and published XXH32 /
XXH64 test vectors evaluated on the models.  Core Lean only.
-/
import Kanzi.Model.XXHash

namespace Kanzi.XXHash

/-! ### the stripe loops leave `len % 16` (`len % 32`) bytes -/

theorem stripes32_short (v : Lanes32) (l : List Byte) (h : l.length < 16) : stripes32 v l = (v, l) := by
  unfold stripes32
  split
  · simp at h; omega
  · rfl

theorem stripes32_tail (v : Lanes32) (l : List Byte) :
    (stripes32 v l).2 = l.drop (16 * (l.length / 16)) := by
  induction v, l using stripes32.induct with
  | case1 v a0 a1 a2 a3 b0 b1 b2 b3 c0 c1 c2 c3 d0 d1 d2 d3 rest ih =>
    rw [stripes32, ih]
    have : 16 * ((a0 :: a1 :: a2 :: a3 :: b0 :: b1 :: b2 :: b3 :: c0 :: c1 :: c2 :: c3 :: d0 :: d1 :: d2 ::
        d3 :: rest).length / 16) = 16 * (rest.length / 16) + 16 := by
      simp only [List.length_cons]; omega
    rw [this]
    simp [List.drop]
  | case2 v l hne =>
    have hl : l.length < 16 := by
      apply Classical.byContradiction
      intro hc
      match l, hne with
      | a0 :: a1 :: a2 :: a3 :: b0 :: b1 :: b2 :: b3 :: c0 :: c1 :: c2 :: c3 :: d0 :: d1 :: d2 :: d3 :: rest, hne =>
        exact hne _ _ _ _ _ _ _ _ _ _ _ _ _ _ _ _ _ rfl
      | [], _ | [_], _ | [_, _], _ | [_, _, _], _ | [_, _, _, _], _ | [_, _, _, _, _], _
      | [_, _, _, _, _, _], _ | [_, _, _, _, _, _, _], _ | [_, _, _, _, _, _, _, _], _
      | [_, _, _, _, _, _, _, _, _], _ | [_, _, _, _, _, _, _, _, _, _], _
      | [_, _, _, _, _, _, _, _, _, _, _], _ | [_, _, _, _, _, _, _, _, _, _, _, _], _
      | [_, _, _, _, _, _, _, _, _, _, _, _, _], _ | [_, _, _, _, _, _, _, _, _, _, _, _, _, _], _
      | [_, _, _, _, _, _, _, _, _, _, _, _, _, _, _], _ => simp at hc
    rw [stripes32_short v l hl]
    have : l.length / 16 = 0 := by omega
    simp [this]

theorem stripes32_tail_length (v : Lanes32) (l : List Byte) : (stripes32 v l).2.length = l.length % 16 := by
  rw [stripes32_tail, List.length_drop]; omega

theorem stripes64_short (v : Lanes64) (l : List Byte) (h : l.length < 32) : stripes64 v l = (v, l) := by
  unfold stripes64
  split
  · simp at h; omega
  · rfl

theorem stripes64_tail (v : Lanes64) (l : List Byte) :
    (stripes64 v l).2 = l.drop (32 * (l.length / 32)) := by
  induction v, l using stripes64.induct with
  | case1 v a0 a1 a2 a3 a4 a5 a6 a7 b0 b1 b2 b3 b4 b5 b6 b7 c0 c1 c2 c3 c4 c5 c6 c7 d0 d1 d2 d3 d4 d5 d6 d7 rest ih =>
    rw [stripes64, ih]
    have : 32 * ((a0 :: a1 :: a2 :: a3 :: a4 :: a5 :: a6 :: a7 :: b0 :: b1 :: b2 :: b3 :: b4 :: b5 :: b6 :: b7 ::
        c0 :: c1 :: c2 :: c3 :: c4 :: c5 :: c6 :: c7 :: d0 :: d1 :: d2 :: d3 :: d4 :: d5 :: d6 :: d7 :: rest).length / 32) =
        32 * (rest.length / 32) + 32 := by
      simp only [List.length_cons]; omega
    rw [this]
    simp [List.drop]
  | case2 v l hne =>
    have hl : l.length < 32 := by
      apply Classical.byContradiction
      intro hc
      match l, hne with
      | a0 :: a1 :: a2 :: a3 :: a4 :: a5 :: a6 :: a7 :: b0 :: b1 :: b2 :: b3 :: b4 :: b5 :: b6 :: b7 ::
        c0 :: c1 :: c2 :: c3 :: c4 :: c5 :: c6 :: c7 :: d0 :: d1 :: d2 :: d3 :: d4 :: d5 :: d6 :: d7 :: rest, hne =>
        exact hne _ _ _ _ _ _ _ _ _ _ _ _ _ _ _ _ _ _ _ _ _ _ _ _ _ _ _ _ _ _ _ _ _ rfl
      | [], _ | [_], _ | [_, _], _ | [_, _, _], _ | [_, _, _, _], _ | [_, _, _, _, _], _
      | [_, _, _, _, _, _], _ | [_, _, _, _, _, _, _], _ | [_, _, _, _, _, _, _, _], _
      | [_, _, _, _, _, _, _, _, _], _ | [_, _, _, _, _, _, _, _, _, _], _
      | [_, _, _, _, _, _, _, _, _, _, _], _ | [_, _, _, _, _, _, _, _, _, _, _, _], _
      | [_, _, _, _, _, _, _, _, _, _, _, _, _], _
      | [_, _, _, _, _, _, _, _, _, _, _, _, _, _], _
      | [_, _, _, _, _, _, _, _, _, _, _, _, _, _, _], _
      | [_, _, _, _, _, _, _, _, _, _, _, _, _, _, _, _], _
      | [_, _, _, _, _, _, _, _, _, _, _, _, _, _, _, _, _], _
      | [_, _, _, _, _, _, _, _, _, _, _, _, _, _, _, _, _, _], _
      | [_, _, _, _, _, _, _, _, _, _, _, _, _, _, _, _, _, _, _], _
      | [_, _, _, _, _, _, _, _, _, _, _, _, _, _, _, _, _, _, _, _], _
      | [_, _, _, _, _, _, _, _, _, _, _, _, _, _, _, _, _, _, _, _, _], _
      | [_, _, _, _, _, _, _, _, _, _, _, _, _, _, _, _, _, _, _, _, _, _], _
      | [_, _, _, _, _, _, _, _, _, _, _, _, _, _, _, _, _, _, _, _, _, _, _], _
      | [_, _, _, _, _, _, _, _, _, _, _, _, _, _, _, _, _, _, _, _, _, _, _, _], _
      | [_, _, _, _, _, _, _, _, _, _, _, _, _, _, _, _, _, _, _, _, _, _, _, _, _], _
      | [_, _, _, _, _, _, _, _, _, _, _, _, _, _, _, _, _, _, _, _, _, _, _, _, _, _], _
      | [_, _, _, _, _, _, _, _, _, _, _, _, _, _, _, _, _, _, _, _, _, _, _, _, _, _, _], _
      | [_, _, _, _, _, _, _, _, _, _, _, _, _, _, _, _, _, _, _, _, _, _, _, _, _, _, _, _], _
      | [_, _, _, _, _, _, _, _, _, _, _, _, _, _, _, _, _, _, _, _, _, _, _, _, _, _, _, _, _], _
      | [_, _, _, _, _, _, _, _, _, _, _, _, _, _, _, _, _, _, _, _, _, _, _, _, _, _, _, _, _, _], _
      | [_, _, _, _, _, _, _, _, _, _, _, _, _, _, _, _, _, _, _, _, _, _, _, _, _, _, _, _, _, _, _], _ => simp at hc
    rw [stripes64_short v l hl]
    have : l.length / 32 = 0 := by omega
    simp [this]

theorem stripes64_tail_length (v : Lanes64) (l : List Byte) : (stripes64 v l).2.length = l.length % 32 := by
  rw [stripes64_tail, List.length_drop]; omega

/-! ### the word loops leave fewer than 4 (8) bytes -/

theorem words32_tail_length (h : BitVec 32) (l : List Byte) : (words32 h l).2.length = l.length % 4 := by
  induction h, l using words32.induct with
  | case1 h b0 b1 b2 b3 rest ih => rw [words32, ih]; simp only [List.length_cons]; omega
  | case2 h l hne =>
    have : words32 h l = (h, l) := by
      unfold words32; split
      · exact absurd rfl (hne _ _ _ _ _)
      · rfl
    rw [this]
    match l, hne with
    | b0 :: b1 :: b2 :: b3 :: rest, hne => exact absurd rfl (hne _ _ _ _ _)
    | [], _ | [_], _ | [_, _], _ | [_, _, _], _ => simp

/-! ### published test vectors (seed 0) -/

def ascii (l : List Nat) : List Byte := l.map (BitVec.ofNat 8)

/-- "Nobody inspects the spammish repetition" (39 bytes: two stripes, one word, three bytes) -/
def spam : List Byte := ascii
  [0x4e, 0x6f, 0x62, 0x6f, 0x64, 0x79, 0x20, 0x69, 0x6e, 0x73, 0x70, 0x65, 0x63, 0x74, 0x73, 0x20,
   0x74, 0x68, 0x65, 0x20, 0x73, 0x70, 0x61, 0x6d, 0x6d, 0x69, 0x73, 0x68, 0x20, 0x72, 0x65, 0x70,
   0x65, 0x74, 0x69, 0x74, 0x69, 0x6f, 0x6e]

theorem xxh32_vector_empty : xxh32 0#32 [] = 0x02CC5D05#32 := by decide
theorem xxh32_vector_a : xxh32 0#32 (ascii [0x61]) = 0x550D7456#32 := by decide
theorem xxh32_vector_abc : xxh32 0#32 (ascii [0x61, 0x62, 0x63]) = 0x32D153FF#32 := by decide
theorem xxh32_vector_spam : xxh32 0#32 spam = 0xE2293B2F#32 := by decide

/-- the Go `XXHash64` agrees with the reference XXH64 on inputs that use neither the lane merge
nor the 1-byte tail … -/
theorem xxh64_vector_empty : xxh64 0#64 [] = 0xEF46DB3751D8E999#64 := by decide
theorem xxh64_vector_abcd : xxh64 0#64 (ascii [0x61, 0x62, 0x63, 0x64]) = 0xDE0327B0D25D92CC#64 := by decide

/-- … and differs from it otherwise (reference XXH64("a", 0) = 0xD24EC4F1A98C6E5B): the model
follows the Go code, see the note at the top of `Model/XXHash.lean` -/
theorem xxh64_not_reference_a : xxh64 0#64 (ascii [0x61]) = 0xFEBF56DFE5A73EBA#64 := by decide
theorem xxh64_not_reference_spam : xxh64 0#64 spam = 0xC486CC65DE06D5D7#64 := by decide

end Kanzi.XXHash
