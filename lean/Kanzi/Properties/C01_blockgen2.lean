/-
C01 for the GENERIC block codec, second instalment: H_codec ("the decoding task run on what the encoding
task wrote returns the block") is a THEOREM for every chain of 1..8 transforms over the twelve modelled
transforms NONE, ZRLT, MTFT, RANK, RLT, SRT, PACK, DNA, LZ, LZX, LZP, MM and every entropy codec among NONE,
ANS0, ANS1, RANGE, HUFFMAN — with NO side condition since fix F43 (/repo dfafae0): a block that its chain
expands beyond the decoder's bound is stored untransformed (`C01_chain_expansion_limit` shows that branch at
work; `ChainFits` says when it cannot be taken).  Property theorems only; proofs in `Kanzi/Proofs/BlockGen2Seq.lean` (sequence),
`BlockGen2Kinds.lean` + `BlockGen2LZ.lean` (the transforms), `BlockGen2.lean` (block, entropy codecs),
`BlockGen2Stream.lean` (headers, whole streams), `BlockGen2Limit.lean` (the limit).

Model: `Kanzi/Model/BlockGen2.lean` — `encodeTaskGen2 c obuf b` is `encodingTask.encode` from "Compute block
checksum" to `obs.Close()` with the REAL destination sizes of `ByteTransformSequence.Forward` (`obuf` = length
of the task's output buffer on entry, which the stream image threads per task) and the `ctx["dataType"]` hint
threaded through the stages (set by `encode` from the magic number, read by RLT / PACK / DNA / LZ / LZX / MM,
written back by RLT / PACK / DNA / MM; `packOnlyDNA` sticks to later PACK tokens; RLT's `fast` flag comes from
the entropy name).  `decodeTaskGen2` is `BlockGen.decodeTaskGen`.  Transform and entropy models are those of
the slices (C13_rlt, C13_srt, C13_alias, C13_lz, C13_lzp, C13_fsd, C13_small, C12_ans0, C12_ans1, C12_range,
C12_huffman); the entropy codecs take the parameters of `entropy.NewEntropyEncoder/Decoder`: ANS0 chunks of
16384 bytes / log range 12, ANS1 chunks of 4 MiB / log range 11, RANGE 32768 / 12, HUFFMAN 16384.
Tied to /repo by the `imagegen2` stream: the bytes produced by the REAL Writer are `streamImageGen2` byte for
byte, and what the REAL Reader returns on them is `parseImageGen2`.

Since fix F44 (RLT bounds its output by `MaxEncodedLen`) no modelled transform looks at `len(dst)` beyond its
`MaxEncodedLen` check except on paths that fault; the model keeps the real sizes anyway (no independence
lemma is needed), and every theorem holds for EVERY `obuf`.
-/
import Kanzi.Model.BlockGen2
import Kanzi.Model.Names
import Kanzi.Generated.Names
import Kanzi.Generated.Levels
import Kanzi.Proofs.BlockGen2
import Kanzi.Proofs.BlockGen2Stream
import Kanzi.Proofs.BlockGen2Limit
import Kanzi.Properties.C01_blockgen

namespace Kanzi.C01gen
open Kanzi.Bits Kanzi.Block Kanzi.BlockGen Kanzi.BlockGen2 Kanzi.TrSmall Kanzi.Header

/-! ## 1. when the chain keeps a block within the decoder's bound -/

/-- bound on the post-transform length of a block of at most `s` bytes after the chain `ks`: a stage adds
at most `Kind.grow` (SRT: `1024 + len / 2^28` bytes — 256 frequencies as varints; MM: `max(len/16, 64)`;
every other transform: nothing, a successful Forward never expands) -/
def chainBound : List Kind → Nat → Nat
  | [], s => s
  | k :: ks, s => chainBound ks (max s (k.grow s))

/-- the chain keeps every block of at most `B` bytes within the bound the decoder puts on the
pre-transform length ("Invalid compressed block size": `maxTransformLength B` = max(1.5·(B + max(512, B/16)),
2048), at most 2^30).  Decidable by evaluation for given `ks`, `B`. -/
def ChainFits (ks : List Kind) (B : Nat) : Prop := chainBound ks B ≤ maxTransformLength B

instance (ks : List Kind) (B : Nat) : Decidable (ChainFits ks B) := by unfold ChainFits; infer_instance

theorem chainBound_eq (ks : List Kind) (s : Nat) : runG (kindLtrs ks) s = chainBound ks s := by
  induction ks generalizing s with
  | nil => rfl
  | cons k ks ih => exact ih _

/-- the per-stage bounds, spelled out -/
theorem C01_grow_spelled_out (a : Nat) :
    Kind.srt.grow a = a + 1024 + a / 2 ^ 28 ∧ Kind.fsd.grow a = a + max (a / 16) 64 ∧
    Kind.none.grow a = a ∧ Kind.zrlt.grow a = a ∧ (∀ m, (Kind.sbrt m).grow a = a) ∧
    (∀ f, (Kind.rlt f).grow a = a) ∧ (∀ o, (Kind.alias o).grow a = a) ∧ (∀ e, (Kind.lz e).grow a = a) ∧
    Kind.lzp.grow a = a := by
  refine ⟨rfl, ?_, rfl, rfl, fun _ => rfl, fun _ => rfl, fun _ => rfl, fun _ => rfl, rfl⟩
  show FSD.fsdMaxEncodedLen a = _
  unfold FSD.fsdMaxEncodedLen
  rw [Nat.shiftRight_eq_div_pow]

/-- a transform that never expands a block -/
def NonExpanding (k : Kind) : Prop := k ≠ .srt ∧ k ≠ .fsd

theorem chainBound_nonexpanding (ks : List Kind) (h : ∀ k ∈ ks, NonExpanding k) (s : Nat) :
    chainBound ks s = s := by
  induction ks generalizing s with
  | nil => rfl
  | cons k ks ih =>
    have hk := h k (List.mem_cons_self ..)
    have : k.grow s = s := by
      cases k <;> first | rfl | exact absurd rfl hk.1 | exact absurd rfl hk.2
    rw [chainBound, this, Nat.max_self]
    exact ih (fun k' hk' => h k' (List.mem_cons_of_mem _ hk')) s

/-- chains without SRT and MM fit for every block size -/
theorem C01_chain_fits_nonexpanding (ks : List Kind) (h : ∀ k ∈ ks, NonExpanding k) (B : Nat)
    (hmax : B ≤ 2 ^ 30) : ChainFits ks B := by
  unfold ChainFits
  rw [chainBound_nonexpanding ks h]
  exact le_maxTransformLength B B (Nat.le_refl _) hmax

/-- chains without MM: it is enough that 1028 bytes per SRT stage fit -/
theorem C01_chain_fits_srt (ks : List Kind) (h : ∀ k ∈ ks, k ≠ .fsd) (B : Nat)
    (hfit : B + 1028 * ks.count .srt ≤ maxTransformLength B) : ChainFits ks B := by
  have hmt : maxTransformLength B ≤ 2 ^ 30 := by unfold maxTransformLength; omega
  have key : ∀ (ks : List Kind), (∀ k ∈ ks, k ≠ .fsd) → ∀ s, s + 1028 * ks.count .srt ≤ 2 ^ 30 →
      chainBound ks s ≤ s + 1028 * ks.count .srt := by
    intro ks
    induction ks with
    | nil => intro _ s _; simp [chainBound]
    | cons k ks ih =>
      intro hk s hs
      have hk' := hk k (List.mem_cons_self ..)
      have hrest : ∀ k ∈ ks, k ≠ .fsd := fun k' h' => hk k' (List.mem_cons_of_mem _ h')
      rw [chainBound]
      by_cases hsrt : k = .srt
      · subst hsrt
        rw [List.count_cons_self] at hs ⊢
        have hg : max s (Kind.srt.grow s) ≤ s + 1028 := by
          show max s (s + 1024 + s / 268435456) ≤ s + 1028
          omega
        have := ih hrest (max s (Kind.srt.grow s)) (by omega)
        omega
      · have hc : (k :: ks).count .srt = ks.count .srt := by
          rw [List.count_cons]; simp [hsrt]
        rw [hc] at hs ⊢
        have hg : k.grow s = s := by
          cases k <;> first | rfl | exact absurd rfl hsrt | exact absurd rfl hk'
        rw [hg, Nat.max_self]
        exact ih hrest s hs
  unfold ChainFits
  exact Nat.le_trans (key ks h B (by omega)) hfit

/-- one SRT stage always fits (block sizes up to 2^30 - 1028) -/
example (B : Nat) (hB : 1024 ≤ B) (hmax : B + 1028 ≤ 2 ^ 30) : B + 1028 * 1 ≤ maxTransformLength B := by
  unfold maxTransformLength taskBlockLength; omega

/-! ## 2. H_codec for every chain and every entropy codec -/

/-- **C01_codec_chain.**  `ks` = any chain of at most 8 modelled transforms (what `transform.New` builds
for a transform word over NONE ZRLT MTFT RANK RLT SRT PACK DNA LZ LZX LZP MM, for any setting of the
constructor parameters `fast` / `onlyDNA` / `extra` / SBRT mode), `ent` = NONE, ANS0, ANS1, RANGE or HUFFMAN
as the factory builds them, any checksum width `ck`, skipBlocks on or off, any length `obuf` of the task's
output buffer, a Writer of block size `B ≤ 2^30` (`ctx["blockSize"] = B`, as `NewWriter` stores it), `b` a
block of 1..B bytes: the encoding task succeeds and the decoding task returns exactly the block with
`decoded = |b|` — through the copy-block branch, every pattern of declined stages, every value of the data
type hint along the chain, the branch of fix F43 (a chain that expands the block beyond the decoder's bound:
block stored untransformed), both layouts of the skip flags, every width of the length field, the checksum
field and its comparison.  NO hypothesis on the chain. -/
theorem C01_codec_chain (ck : Nat) (ks : List Kind) (ent : Ent) (sb : Bool) (B obuf : Nat) (b : List Nat)
    (hn : ks.length ≤ 8) (hent : IsModelledEnt ent)
    (hbytes : ∀ x ∈ b, x < 256) (h0 : 0 < b.length) (hB : b.length ≤ B) (hmax : B ≤ 2 ^ 30) :
    ∃ p, encodeTaskGen2 ⟨ck, kindTrs ks, ent, sb, some B⟩ obuf b = .ok p ∧
      decodeTaskGen2 ⟨ck, kindTrs ks, ent, sb, some B⟩ B p = ⟨b.length, .ok b⟩ := by
  obtain ⟨p, h1, h2, _⟩ := block_roundtrip2 ⟨ck, kindTrs ks, ent, sb, some B⟩ ks rfl hn B obuf b rfl
    (entLawAt_of_law _ _ (entLaw_modelled ent hent _) _) hbytes h0 hB hmax
  exact ⟨p, h1, h2⟩

/-- the same under its former name (chains without SRT and MM; the hypothesis `hk` is no longer needed) -/
theorem C01_codec_chain_nonexpanding (ck : Nat) (ks : List Kind) (ent : Ent) (sb : Bool) (B obuf : Nat)
    (b : List Nat) (hn : ks.length ≤ 8) (_hk : ∀ k ∈ ks, NonExpanding k) (hent : IsModelledEnt ent)
    (hbytes : ∀ x ∈ b, x < 256) (h0 : 0 < b.length) (hB : b.length ≤ B) (hmax : B ≤ 2 ^ 30) :
    ∃ p, encodeTaskGen2 ⟨ck, kindTrs ks, ent, sb, some B⟩ obuf b = .ok p ∧
      decodeTaskGen2 ⟨ck, kindTrs ks, ent, sb, some B⟩ B p = ⟨b.length, .ok b⟩ :=
  C01_codec_chain ck ks ent sb B obuf b hn hent hbytes h0 hB hmax

/-- the generic form: ANY entropy codec that satisfies the exact-consumption law AT THE BLOCK HANDED TO IT
(`postBlock`: the output of the transform sequence, or the block itself when the bound of fix F43 applies;
the law is only needed when the block is not a copy block) -/
theorem C01_codec_chain_ent (ck : Nat) (ks : List Kind) (ent : Ent) (sb : Bool) (B obuf : Nat) (b : List Nat)
    (hn : ks.length ≤ 8) (hent : EntLawAt ent (maxTransformLength B) (postBlock (kindTrs ks) (some B) obuf b))
    (hbytes : ∀ x ∈ b, x < 256) (h0 : 0 < b.length) (hB : b.length ≤ B) (hmax : B ≤ 2 ^ 30) :
    ∃ p, encodeTaskGen2 ⟨ck, kindTrs ks, ent, sb, some B⟩ obuf b = .ok p ∧
      decodeTaskGen2 ⟨ck, kindTrs ks, ent, sb, some B⟩ B p = ⟨b.length, .ok b⟩ := by
  obtain ⟨p, h1, h2, _⟩ := block_roundtrip2 ⟨ck, kindTrs ks, ent, sb, some B⟩ ks rfl hn B obuf b rfl hent
    hbytes h0 hB hmax
  exact ⟨p, h1, h2⟩

/-- **C01_codec_chain_fpaq_partial** / **C01_codec_chain_cm_partial**: FPAQ and CM (as the factory builds
them: FPAQ chunks of 4 MiB; CM = binary coder with chunks of 2^26 bytes and a new CM predictor) are
CONDITIONAL instances: the hypothesis is the decoder's own acceptance test of `C12_fpaq_block` /
`C12_cm_block` ("no chunk codes to twice its size or more": `fFits2` / `fits2`, decidable by evaluation)
on the block handed to the entropy coder.  It is not known to hold for every block (an adversarial block for
a fresh predictor exists for TPAQ: F36), hence `_partial`. -/
theorem C01_codec_chain_fpaq_partial (ck : Nat) (ks : List Kind) (sb : Bool) (B obuf : Nat) (b : List Nat)
    (hn : ks.length ≤ 8)
    (hf2 : Fpaq.fFits2 Fpaq.DEFAULT_CHUNK (postBlock (kindTrs ks) (some B) obuf b) = true)
    (hbytes : ∀ x ∈ b, x < 256) (h0 : 0 < b.length) (hB : b.length ≤ B) (hmax : B ≤ 2 ^ 30) :
    ∃ p, encodeTaskGen2 ⟨ck, kindTrs ks, fpaqEnt, sb, some B⟩ obuf b = .ok p ∧
      decodeTaskGen2 ⟨ck, kindTrs ks, fpaqEnt, sb, some B⟩ B p = ⟨b.length, .ok b⟩ :=
  C01_codec_chain_ent ck ks fpaqEnt sb B obuf b hn
    (entLawAt_fpaq _ (by unfold maxTransformLength; omega) _ hf2) hbytes h0 hB hmax

theorem C01_codec_chain_cm_partial (ck : Nat) (ks : List Kind) (sb : Bool) (B obuf : Nat) (b : List Nat)
    (hn : ks.length ≤ 8)
    (hf2 : BinEnt.fits2 cmPred BinEnt.MAX_CHUNK (CM.cmInit false) (postBlock (kindTrs ks) (some B) obuf b) = true)
    (hbytes : ∀ x ∈ b, x < 256) (h0 : 0 < b.length) (hB : b.length ≤ B) (hmax : B ≤ 2 ^ 30) :
    ∃ p, encodeTaskGen2 ⟨ck, kindTrs ks, cmEnt, sb, some B⟩ obuf b = .ok p ∧
      decodeTaskGen2 ⟨ck, kindTrs ks, cmEnt, sb, some B⟩ B p = ⟨b.length, .ok b⟩ :=
  C01_codec_chain_ent ck ks cmEnt sb B obuf b hn
    (entLawAt_cm _ (by unfold maxTransformLength; omega) _ hf2) hbytes h0 hB hmax

/-- the hypotheses of the instances, spelled out: the entropy codecs, and the law every modelled transform
satisfies (for every data type hint `dt` and every non-empty destination) -/
theorem C01_chain_components :
    (∀ e, IsModelledEnt e ↔ (e = noneEnt ∨ e = ans0Ent ∨ e = ans1Ent ∨ e = rangeEnt ∨ e = hufEnt)) ∧
    (∀ (k : Kind) (dt : Nat) (x y : List Nat) (d : Nat), (∀ v ∈ x, v < 256) → x.length < 2 ^ 31 → 0 < d →
      k.tr.fwd dt x d = .ok y →
      (∀ v ∈ y, v < 256) ∧ y.length ≤ k.grow x.length ∧ ∀ n, x.length ≤ n → k.tr.inv y n = .ok x) :=
  ⟨fun _ => Iff.rfl, fun k dt x y d hb hl hd hf =>
    (kind_law k).rt dt x d y hb (by unfold lawLim; omega) hd hf⟩

/-- C01_chain_no_fault: the adapters of `Kind.tr` turn a Go panic inside a Forward (`.fault` of the
transform models) into a declined stage; that case never arises: on a block of byte values no Forward of
the modelled transforms panics, whatever the data type hint and the destination size -/
theorem C01_chain_no_fault (b : List Nat) (d : Nat) (hb : ∀ x ∈ b, x < 256) (hl : b.length < 2 ^ 31) :
    (∀ dt fast e, RLT.rltForward dt fast b d ≠ .fault e) ∧
    SRT.srtForward b d ≠ .fault ∧
    (∀ o dt e, Alias.aliasForward o dt b d ≠ .fault e) ∧
    (∀ extra dt e, LZ.lzForward extra dt b.toArray d ≠ .fault e) ∧
    (∀ k x l, LZP.lzpForward b d ≠ .fault k x l) ∧
    (∀ dt e, FSD.fsdForward dt b d ≠ .fault e) :=
  kind_no_fault b d hb hl

/-- C01_codec_of_header2: whatever a header of the modelled codecs announces (`cfgOfHeader2 h = some c`: every
slot of the transform word is one of the twelve transforms; `uncondEntropy`: entropy NONE / HUFFMAN / RANGE /
ANS0 / ANS1, codes 0 1 4 5 8), the configuration the Reader derives from it decodes what a Writer with the
same parameters (skipBlocks on or off, any buffer history) encoded. -/
theorem C01_codec_of_header2 (h : Header) (sb : Bool) (c : Cfg2) (hc : cfgOfHeader2 h false = some c)
    (hE : uncondEntropy h.entropyType)
    (obuf : Nat) (b : List Nat) (hbytes : ∀ x ∈ b, x < 256) (h0 : 0 < b.length) (hB : b.length ≤ h.blockSize)
    (hmax : h.blockSize ≤ 2 ^ 30) :
    ∃ p, encodeTaskGen2 { c with skipBlocks := sb } obuf b = .ok p ∧
      decodeTaskGen2 c h.blockSize p = ⟨b.length, .ok b⟩ := by
  obtain ⟨_, _, hbs, he, ks, _, htrs, hn⟩ := cfgOfHeader2_spec h false c hc
  obtain ⟨p, h1, h2, _⟩ := block_roundtrip2 { c with skipBlocks := sb } ks htrs hn h.blockSize obuf b hbs
    (entLawAt_of_law _ _ (entLaw_modelled _ (entOf2_modelled _ _ he hE) _) _) hbytes h0 hB hmax
  exact ⟨p, h1, h2⟩

/-! ## 3. the CLI levels -/

/-- **C01_level0**: `kanzi -l 0` = NONE / NONE -/
theorem C01_level0 (ck : Nat) (sb : Bool) (B obuf : Nat) (b : List Nat)
    (hbytes : ∀ x ∈ b, x < 256) (h0 : 0 < b.length) (hB : b.length ≤ B) (hmax : B ≤ 2 ^ 30) :
    ∃ p, encodeTaskGen2 ⟨ck, kindTrs [.none], noneEnt, sb, some B⟩ obuf b = .ok p ∧
      decodeTaskGen2 ⟨ck, kindTrs [.none], noneEnt, sb, some B⟩ B p = ⟨b.length, .ok b⟩ :=
  C01_codec_chain ck [.none] noneEnt sb B obuf b (by decide) (Or.inl rfl) hbytes h0 hB hmax

/-- **C01_level1**: `kanzi -l 1` = LZX / NONE -/
theorem C01_level1 (ck : Nat) (sb : Bool) (B obuf : Nat) (b : List Nat)
    (hbytes : ∀ x ∈ b, x < 256) (h0 : 0 < b.length) (hB : b.length ≤ B) (hmax : B ≤ 2 ^ 30) :
    ∃ p, encodeTaskGen2 ⟨ck, kindTrs [.lz true], noneEnt, sb, some B⟩ obuf b = .ok p ∧
      decodeTaskGen2 ⟨ck, kindTrs [.lz true], noneEnt, sb, some B⟩ B p = ⟨b.length, .ok b⟩ :=
  C01_codec_chain ck [.lz true] noneEnt sb B obuf b (by decide) (Or.inl rfl) hbytes h0 hB hmax

/-- **C01_level2**: `kanzi -l 2` = DNA+LZ / HUFFMAN -/
theorem C01_level2 (ck : Nat) (sb : Bool) (B obuf : Nat) (b : List Nat)
    (hbytes : ∀ x ∈ b, x < 256) (h0 : 0 < b.length) (hB : b.length ≤ B) (hmax : B ≤ 2 ^ 30) :
    ∃ p, encodeTaskGen2 ⟨ck, kindTrs [.alias true, .lz false], hufEnt, sb, some B⟩ obuf b = .ok p ∧
      decodeTaskGen2 ⟨ck, kindTrs [.alias true, .lz false], hufEnt, sb, some B⟩ B p = ⟨b.length, .ok b⟩ :=
  C01_codec_chain ck [.alias true, .lz false] hufEnt sb B obuf b (by decide)
    (Or.inr (Or.inr (Or.inr (Or.inr rfl)))) hbytes h0 hB hmax

/-- the three configurations ARE what the level table of the tool (`Generated/Levels.lean`, regenerated
from v2/app on every check) selects, through `transform.GetType` / `entropy.GetType` (model functions of
`Names`), `transform.New` and the entropy factory -/
theorem C01_levels_modelled :
    Generated.Levels.levels.take 3 = [(0, "NONE", "NONE"), (1, "LZX", "NONE"), (2, "DNA+LZ", "HUFFMAN")] ∧
    Names.getType Generated.Names.transformTokens "NONE" = .ok 0 ∧
    Names.getType Generated.Names.transformTokens "LZX" = .ok (Names.chainType [16]) ∧
    Names.getType Generated.Names.transformTokens "DNA+LZ" = .ok (Names.chainType [19, 3]) ∧
    Names.entropyType Generated.Names.entropyTokens "NONE" = .ok 0 ∧
    Names.entropyType Generated.Names.entropyTokens "HUFFMAN" = .ok 1 ∧
    newSeq2 0 0 = some [.none] ∧ newSeq2 (Names.chainType [16]) 0 = some [.lz true] ∧
    newSeq2 (Names.chainType [19, 3]) 1 = some [.alias true, .lz false] := by
  decide +kernel

/-- the levels that remain OUT OF REACH: each of 3..9 uses a transform that is not modelled here (TEXT, UTF,
EXE, BWT, ROLZ; levels 6..9 moreover use FPAQ / CM / TPAQ / TPAQX, whose instances are conditional or
absent): the transform word of such a stream has no sequence in this model -/
theorem C01_levels_out_of_reach :
    (Generated.Levels.levels.drop 3).length = 7 ∧
    ∀ r ∈ Generated.Levels.levels.drop 3,
      (match Names.getType Generated.Names.transformTokens r.2.1,
          Names.entropyType Generated.Names.entropyTokens r.2.2 with
        | .ok ty, .ok e => (newSeq2 ty e).isNone
        | _, _ => false) = true := by
  decide +kernel

/-! ## 4. finding F43 and its repair -/

/-- **C01_chain_expansion_limit.**  Six SRT stages, 1 KiB blocks (`-t SRT+SRT+SRT+SRT+SRT+SRT -b 1024`): every
SRT stage prepends a header of at least 256 bytes, so for EVERY block of 1024 bytes the output of the sequence
has at least 2560 bytes, above the decoder's bound `maxTransformLength 1024 = 2304` (`ChainFits` is false).
  * Since fix F43 the branch "store the block untransformed" IS taken (`postOf … = (b, 0xFF)`: the block
    itself goes to the entropy coder, all skip flags set), and the decoding task returns the block — any
    entropy codec of the five, any checksum, any buffer history.
  * Without the comparison (a ctx with no `uint` block size, which no Writer has; the code before the fix)
    the six stages are applied, the encoding task succeeds and the decoding task rejects its output with
    "Invalid compressed block size": the defect. -/
theorem C01_chain_expansion_limit (ck obuf : Nat) (ent : Ent) (hent : IsModelledEnt ent) (sb : Bool)
    (b : List Nat) (hb : ∀ x ∈ b, x < 256) (hlen : b.length = 1024) :
    ¬ ChainFits (List.replicate 6 .srt) 1024 ∧
    postOf (kindTrs (List.replicate 6 .srt)) (some 1024) obuf b = (b, 0xFF) ∧
    (∃ p, encodeTaskGen2 ⟨ck, kindTrs (List.replicate 6 .srt), ent, sb, some 1024⟩ obuf b = .ok p ∧
      decodeTaskGen2 ⟨ck, kindTrs (List.replicate 6 .srt), ent, sb, some 1024⟩ 1024 p = ⟨1024, .ok b⟩) ∧
    (∃ p, encodeTaskGen2 ⟨ck, kindTrs (List.replicate 6 .srt), noneEnt, false, none⟩ obuf b = .ok p ∧
      decodeTaskGen2 ⟨ck, kindTrs (List.replicate 6 .srt), noneEnt, false, none⟩ 1024 p = .fail .size) := by
  refine ⟨by decide, srt6_fallback obuf b hb hlen, ?_, srt6_rejected_without_bs ck obuf b hb hlen⟩
  have := C01_codec_chain ck (List.replicate 6 .srt) ent sb 1024 obuf b (by decide) hent hb (by omega)
    (by omega) (by decide)
  rw [hlen] at this
  exact this

/-- when `ChainFits` holds the bound of fix F43 never applies: what goes to the entropy coder is the output
of the sequence -/
theorem C01_chain_fits_no_fallback (ks : List Kind) (hn : ks.length ≤ 8) (B obuf : Nat) (b : List Nat)
    (hfit : ChainFits ks B) (hbytes : ∀ x ∈ b, x < 256) (hB : b.length ≤ B) (hmax : B ≤ 2 ^ 30) :
    postOf (kindTrs ks) (some B) obuf b = forwardOf (kindTrs ks) obuf b := by
  by_cases hb0 : b.length = 0
  · have : b = [] := List.eq_nil_of_length_eq_zero hb0
    subst this
    unfold postOf fallback forwardOf seqForward2
    simp
  · unfold postOf fallback
    rw [if_neg]
    intro ⟨_, h2⟩
    have hlaws := kindLtrs_law ks
    have hlim : runG (kindLtrs ks) b.length ≤ lawLim := runG_le_lawLim ks b.length hn (by omega)
    have hgm : ∀ l ∈ kindLtrs ks, ∀ a b, a ≤ b → l.g a ≤ l.g b := fun l hl => (hlaws l hl).gmono
    have hreq0 : 0 < seqMaxLen (trsOf (kindTrs ks)) b.length := by
      rw [← ltrs_kindLtrs, seqMaxLen_ltrs]
      have := le_runMax (kindLtrs ks) b.length
      omega
    have := seq2_roundtrip lawLim (seqMaxLen (trsOf (kindTrs ks)) b.length)
      (growTo obuf (seqMaxLen (trsOf (kindTrs ks)) b.length)) (runMax (kindLtrs ks) b.length) (initDt b) b.length
      (kindLtrs ks) b hlaws (by simp only [kindLtrs, List.length_map]; exact hn) hreq0
      (by unfold growTo; split <;> omega) hbytes (Nat.le_refl _) (Nat.le_refl _) hlim
    rw [ltrs_kindLtrs] at this
    have h3 : (forwardOf (kindTrs ks) obuf b).1.length ≤ runG (kindLtrs ks) b.length := this.2.2.1
    have h4 := runG_mono (kindLtrs ks) hgm b.length B hB
    have hml : maxLengthOf (some B) = maxTransformLength B := rfl
    rw [hml] at h2
    unfold ChainFits at hfit
    rw [← chainBound_eq] at hfit
    omega

/-- up to three SRT stages fit 1 KiB blocks, and eight fit 16 KiB blocks -/
example : ChainFits (List.replicate 1 .srt) 1024 ∧ ChainFits [.srt, .rlt true, .lz false, .srt] 4096 ∧
    ChainFits (List.replicate 8 .srt) 16384 ∧ ChainFits [.fsd, .lz true] 65536 := by decide

/-! ## 5. whole streams -/

/-- **C01_stream_image_chain_partial.**  `cd` = the configuration the Reader derives from the header, the
Writer's tasks use the same with skipBlocks on or off, ANY job count (the tasks' buffer lengths are threaded
by `streamImageGen2`).  If every payload respects the reader's `maxFrameLength` bound (`FrameFit`: an
explicit, decidable size condition — no size bound is proved for HUFFMAN / RANGE / ANS1 here; for ANS0 see
`C01_ans0_block_size`), the image exists and reading it back yields the header, exactly the blocks, and
stops at the end marker. -/
theorem C01_stream_image_chain_partial (h : Header) (wf : WF h) (cd : Cfg2) (hcfg : cfgOfHeader2 h false = some cd)
    (hE : uncondEntropy h.entropyType)
    (sb : Bool) (jobs : Nat) (blocks : List (List Nat)) (hv : ValidBlocks h.blockSize blocks)
    (hfit : ∀ b ∈ blocks, ∀ obuf p, encodeTaskGen2 { cd with skipBlocks := sb } obuf b = .ok p →
      p.length ≤ maxFrameBits h.blockSize) :
    ∃ img, streamImageGen2 h { cd with skipBlocks := sb } jobs blocks = .ok img ∧
      parseImageGen2 img = (some h, blocks, .endOfStream) := by
  apply parseImageGen2_streamImageGen2 h wf _ cd jobs hcfg blocks
  intro b hb
  obtain ⟨h0, hB, hx⟩ := hv b hb
  refine ⟨fun obuf => ?_, h0, hB⟩
  obtain ⟨p, hp, hd⟩ := C01_codec_of_header2 h sb cd hcfg hE obuf b hx h0 hB wf.bsHi
  have hf := hfit b hb obuf p hp
  have h8 : 8 ≤ p.length := by
    unfold encodeTaskGen2 at hp
    split at hp
    · obtain ⟨e, _, h8, _⟩ := encodeWith_shape _ _ _ _ _ _ _ _ hp; exact h8
    · obtain ⟨e, _, h8, _⟩ := encodeOf_shape _ _ _ _ _ _ _ hp; exact h8
  exact ⟨p, hp, hd, by omega, Nat.lt_of_le_of_lt hf (maxFrameBits_lt _), hf⟩

/-- **C01_stream_image_chain_none**: NO remaining hypothesis for entropy NONE — in particular for the
streams of `kanzi -l 0` and `kanzi -l 1`: every well-formed header announcing entropy NONE and a transform
word over the twelve transforms, every list of blocks of 1..blockSize bytes, any job count, skipBlocks on or
off: the image parses back to the blocks. -/
theorem C01_stream_image_chain_none (h : Header) (wf : WF h) (hent : h.entropyType = 0) (cd : Cfg2)
    (hcfg : cfgOfHeader2 h false = some cd)
    (sb : Bool) (jobs : Nat) (blocks : List (List Nat)) (hv : ValidBlocks h.blockSize blocks) :
    ∃ img, streamImageGen2 h { cd with skipBlocks := sb } jobs blocks = .ok img ∧
      parseImageGen2 img = (some h, blocks, .endOfStream) := by
  obtain ⟨_, _, hbs, he, ks, _, htrs, hn⟩ := cfgOfHeader2_spec h false cd hcfg
  have hne : cd.ent = noneEnt := by
    have := he
    rw [hent] at this
    injection this with this
    exact this.symm
  apply parseImageGen2_streamImageGen2 h wf _ cd jobs hcfg blocks
  intro b hb
  obtain ⟨h0, hB, hx⟩ := hv b hb
  refine ⟨fun obuf => ?_, h0, hB⟩
  obtain ⟨p, h1, h2, h3⟩ := block_roundtrip2 { cd with skipBlocks := sb } ks htrs hn h.blockSize obuf b hbs
    (entLawAt_of_law _ _ (entLaw_modelled _ (entOf2_modelled _ _ he (Or.inl hent)) _) _) hx h0 hB wf.bsHi
  exact ⟨p, h1, h2, h3 hne⟩

/-! ## 6. the hypotheses are satisfiable -/

/-- a header of the modelled codecs: XXHash64, HUFFMAN, RLT+SRT+PACK+LZ+LZP+MM (six transforms: extra
skip-flag byte), 64 KiB blocks -/
example : WF (mkHeader 2 1 (Names.chainType [5, 13, 18, 3, 14, 15]) 65536 0) ∧
    newSeq2 (Names.chainType [5, 13, 18, 3, 14, 15]) 1 =
      some [.rlt true, .srt, .alias false, .lz false, .lzp, .fsd] ∧
    ChainFits [.rlt true, .srt, .alias false, .lz false, .lzp, .fsd] 65536 := by decide

/-- `packOnlyDNA` sticks: PACK after DNA is built as DNA; RLT is not `fast` with ANS1 -/
example : newSeq2 (Names.chainType [19, 18, 5]) 8 = some [.alias true, .alias true, .rlt false] := by decide

end Kanzi.C01gen
