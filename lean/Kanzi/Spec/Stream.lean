/-
Abstract specification of the stream layer: what a reader of the code would write down in a minute.
  * the writer cuts the accepted bytes into B-sized blocks (`chunks`), the last one possibly shorter;
  * the reader returns the concatenation of the blocks whose id lies in the requested range, in
    order, `min(n, left)` bytes per `Read(n)`, then end-of-stream.
Core Lean only.
-/
namespace Kanzi.Spec

/-- cut `l` into blocks of `B` bytes (the last one shorter, never empty); fuel-free via `range` -/
def chunks (B : Nat) (l : List Nat) : List (List Nat) :=
  (List.range ((l.length + B - 1) / B)).map (fun k => (l.drop (k * B)).take B)

/-- blocks selected by a range `[from, to)` over 1-based block ids -/
def selectRange (from_ to_ : Option Nat) (blocks : List (List Nat)) : List (List Nat) :=
  ((blocks.zipIdx 1).filter (fun p =>
      (match from_ with | some f => decide (f ≤ p.2) | none => true) &&
      (match to_ with | some t => decide (p.2 < t) | none => true))).map (·.1)

/-- the spec reader: a cursor over the expected bytes -/
def specRead (expected : List Nat) (pos n : Nat) : List Nat := (expected.drop pos).take n

end Kanzi.Spec
