/-
Executable model of the TPAQ / TPAQX bit predictor `/repo/v2/entropy/TPAQPredictor.go`
(`NewTPAQPredictor`, `Update`, `Get`, `findMatch`, `getMatchContextPred`, `createContext`, `hashTPAQ`,
`TPAQMixer.init/update/get`) together with the helpers it calls: `internal.Squash`, the `SQUASH` /
`STRETCH` tables computed by the `init()` of `/repo/v2/internal/Global.go`, and
`LogisticAdaptiveProbMap` (`newLogisticAdaptiveProbMap`, `Get`) of `entropy/AdaptiveProbMap.go`.
Core Lean + `Std.Data.HashMap` only (linked into `kmodel`).

Types.  Every Go `int32` field / local is an `Int32` (two's complement, wrap-around `+ - *`,
arithmetic `>>>`, `<<<`, `&&&`, `|||`, `^^^`, signed `<`): the hash arithmetic, `createContext`, the
mixer's dot product and weight update REALLY wrap, and the model wraps in the same way.  Go `uint8` /
`uint16` cells are `UInt8` / `UInt16`.  Go `int` values (`pr`, the APM index, the interpolation) are
mathematical integers `Int`: by their types (`uint16` cells, `int32` contexts, table entries) none of
them can leave the int64 range, and under the invariant none leaves the int32 range.  `bpos` (Go
`uint`) is a `Nat`, decremented modulo 2^64.

Slices.  The real tables are 4 MB .. 1 GB, zero initialised, and a run touches few cells: a slice is
a `Tab` = length + initial contents (a function of the index) + a hash map of the cells written so
far.  `Tab.get` / `Tab.set` are total; an index expression out of range is what makes Go panic, and
the model records it: every slice index of the Go code goes through `inb` and a failed check sets the
sticky flag `fault` (`tpaqUpdateF` returns `none` exactly then).  Pointers (`this.mixer`, `cp0..cp6`)
are the index of the cell they point to; taking the address `&s[i]` is the checked operation.

Structure.  `tpaqUpdate` = `trainMixer` (`this.mixer.update(y)`), `shiftBit` (`c0`, `bpos--`), the byte
boundary block `byteBoundary` = `storeByte`, `rollBytes`, `selectMixer`, `setContexts`, `findMatch`,
`loadMatchVal`, `storeHash`, then `predict` = `bumpStates`, `movePtrs`, `matchContextPred`, (`stepPtr6`),
`mix`, `sseStage` / `sseStageX`: one small function per group of Go statements, in the order of the Go
code (the order matters: pointers may alias, the mixer trained is the one selected a byte earlier, the
SSE stages are called conditionally and keep a stale index).  Table lookups with a symbolic index are
guarded by a literal bound (`stretchAt`, `squash`) so that type checking never evaluates a 4096 entry
table.

Not idealised: `ctx["size"] = uint(0)` gives `hashSize = 0`, `hashMask = -1` and a fault at the end of
the first byte (`this.hashes[this.hash]` on an empty slice); `ctx["blockSize"] = uint(0)` gives an
empty `buffer` and a fault at the same place (`this.buffer[0]`).  Neither value is passed by the
stream layer (block sizes are >= 1024, a block handed to the entropy stage has >= 1 byte).
-/
import Std.Data.HashMap

namespace Kanzi.TPAQ

/-! ### Go slices -/

/-- a Go slice of length `size` whose cell `i` holds `init i` until it is written -/
structure Tab (α : Type) where
  size : Nat
  init : Nat → α
  m : Std.HashMap Nat α

namespace Tab
/-- `make([]T, n)`: all cells `z` -/
@[inline] def zeros {α : Type} (z : α) (n : Nat) : Tab α := { size := n, init := fun _ => z, m := {} }
/-- `t[i]` (total: a cell never written holds `init i`; range checks are separate, see `inb`) -/
@[inline] def get {α : Type} (t : Tab α) (i : Nat) : α :=
  match t.m.get? i with
  | some v => v
  | none => t.init i
/-- `t[i] = v` -/
@[inline] def set {α : Type} (t : Tab α) (i : Nat) (v : α) : Tab α := { t with m := t.m.insert i v }
end Tab

/-- index expression `x` is inside a slice / array of length `n` (otherwise Go panics) -/
@[inline] def inb (x : Int) (n : Nat) : Bool := decide (0 ≤ x) && decide (x.toNat < n)

/-! ### constants and literal tables of the Go file -/

def maxLength : Nat := 88                 -- _TPAQ_MAX_LENGTH
def bufferSizeMax : Nat := 67108864       -- _TPAQ_BUFFER_SIZE = 64 MB
def hashSizeMax : Nat := 16777216         -- _TPAQ_HASH_SIZE = 16 M
def mask80808080 : Int32 := -2139062144   -- _TPAQ_MASK_80808080
def maskF0F0F000 : Int32 := -252645376    -- _TPAQ_MASK_F0F0F000
def mask4F4FFFFF : Int32 := 1330642943    -- _TPAQ_MASK_4F4FFFFF
def maskFFFF0000 : Int32 := -65536        -- _TPAQ_MASK_FFFF0000
def hashK : Int32 := 2146121005           -- _TPAQ_HASH = 0x7FEB352D
def beginLearnRate : Int32 := 7680        -- _TPAQ_BEGIN_LEARN_RATE = 60 << 7
def endLearnRate : Int32 := 1408          -- _TPAQ_END_LEARN_RATE = 11 << 7

/-- `_TPAQ_STATE_TRANSITIONS[0]` -/
def trans0 : Array UInt8 := #[
    1, 3, 143, 4, 5, 6, 7, 8, 9, 10, 11, 12, 13, 14, 15, 16,
    17, 18, 19, 20, 21, 22, 23, 24, 25, 26, 27, 28, 29, 30, 31, 32,
    33, 34, 35, 36, 37, 38, 39, 40, 41, 42, 43, 44, 45, 46, 47, 48,
    49, 50, 51, 52, 47, 54, 55, 56, 57, 58, 59, 60, 61, 62, 63, 64,
    65, 66, 67, 68, 69, 6, 71, 71, 71, 61, 75, 56, 77, 78, 77, 80,
    81, 82, 83, 84, 85, 86, 87, 88, 77, 90, 91, 92, 80, 94, 95, 96,
    97, 98, 99, 90, 101, 94, 103, 101, 102, 104, 107, 104, 105, 108, 111, 112,
    113, 114, 115, 116, 92, 118, 94, 103, 119, 122, 123, 94, 113, 126, 113, 128,
    129, 114, 131, 132, 112, 134, 111, 134, 110, 134, 134, 128, 128, 142, 143, 115,
    113, 142, 128, 148, 149, 79, 148, 142, 148, 150, 155, 149, 157, 149, 159, 149,
    131, 101, 98, 115, 114, 91, 79, 58, 1, 170, 129, 128, 110, 174, 128, 176,
    129, 174, 179, 174, 176, 141, 157, 179, 185, 157, 187, 188, 168, 151, 191, 192,
    188, 187, 172, 175, 170, 152, 185, 170, 176, 170, 203, 148, 185, 203, 185, 192,
    209, 188, 211, 192, 213, 214, 188, 216, 168, 84, 54, 54, 221, 54, 55, 85,
    69, 63, 56, 86, 58, 230, 231, 57, 229, 56, 224, 54, 54, 66, 58, 54,
    61, 57, 222, 78, 85, 82, 0, 0, 0, 0, 0, 0, 0, 0, 0, 0]

/-- `_TPAQ_STATE_TRANSITIONS[1]` -/
def trans1 : Array UInt8 := #[
    2, 163, 169, 163, 165, 89, 245, 217, 245, 245, 233, 244, 227, 74, 221, 221,
    218, 226, 243, 218, 238, 242, 74, 238, 241, 240, 239, 224, 225, 221, 232, 72,
    224, 228, 223, 225, 238, 73, 167, 76, 237, 234, 231, 72, 31, 63, 225, 237,
    236, 235, 53, 234, 53, 234, 229, 219, 229, 233, 232, 228, 226, 72, 74, 222,
    75, 220, 167, 57, 218, 70, 168, 72, 73, 74, 217, 76, 167, 79, 79, 166,
    162, 162, 162, 162, 165, 89, 89, 165, 89, 162, 93, 93, 93, 161, 100, 93,
    93, 93, 93, 93, 161, 102, 120, 104, 105, 106, 108, 106, 109, 110, 160, 134,
    108, 108, 126, 117, 117, 121, 119, 120, 107, 124, 117, 117, 125, 127, 124, 139,
    130, 124, 133, 109, 110, 135, 110, 136, 137, 138, 127, 140, 141, 145, 144, 124,
    125, 146, 147, 151, 125, 150, 127, 152, 153, 154, 156, 139, 158, 139, 156, 139,
    130, 117, 163, 164, 141, 163, 147, 2, 2, 199, 171, 172, 173, 177, 175, 171,
    171, 178, 180, 172, 181, 182, 183, 184, 186, 178, 189, 181, 181, 190, 193, 182,
    182, 194, 195, 196, 197, 198, 169, 200, 201, 202, 204, 180, 205, 206, 207, 208,
    210, 194, 212, 184, 215, 193, 184, 208, 193, 163, 219, 168, 94, 217, 223, 224,
    225, 76, 227, 217, 229, 219, 79, 86, 165, 217, 214, 225, 216, 216, 234, 75,
    214, 237, 74, 74, 163, 217, 0, 0, 0, 0, 0, 0, 0, 0, 0, 0]

/-- `_TPAQ_STATE_MAP` -/
def stateMap : Array Int32 := #[
    -31, -400, 406, -547, -642, -743, -827, -901, -901, -974, -945, -955, -1060, -1031, -1044, -956,
    -994, -1035, -1147, -1069, -1111, -1145, -1096, -1084, -1171, -1199, -1062, -1498, -1199, -1199, -1328, -1405,
    -1275, -1248, -1167, -1448, -1441, -1199, -1357, -1160, -1437, -1428, -1238, -1343, -1526, -1331, -1443, -2047,
    -2047, -2044, -2047, -2047, -2047, -232, -414, -573, -517, -768, -627, -666, -644, -740, -721, -829,
    -770, -963, -863, -1099, -811, -830, -277, -1036, -286, -218, -42, -411, 141, -1014, -1028, -226,
    -469, -540, -573, -581, -594, -610, -628, -711, -670, -144, -408, -485, -464, -173, -221, -310,
    -335, -375, -324, -413, -99, -179, -105, -150, -63, -9, 56, 83, 119, 144, 198, 118,
    -42, -96, -188, -285, -376, 107, -138, 38, -82, 186, -114, -190, 200, 327, 65, 406,
    108, -95, 308, 171, -18, 343, 135, 398, 415, 464, 514, 494, 508, 519, 92, -123,
    343, 575, 585, 516, -7, -156, 209, 574, 613, 621, 670, 107, 989, 210, 961, 246,
    254, -12, -108, 97, 281, -143, 41, 173, -209, 583, -55, 250, 354, 558, 43, 274,
    14, 488, 545, 84, 528, 519, 587, 634, 663, 95, 700, 94, -184, 730, 742, 162,
    -10, 708, 692, 773, 707, 855, 811, 703, 790, 871, 806, 9, 867, 840, 990, 1023,
    1409, 194, 1397, 183, 1462, 178, -23, 1403, 247, 172, 1, -32, -170, 72, -508, -46,
    -365, -26, -146, 101, -18, -163, -422, -461, -146, -69, -78, -319, -334, -232, -99, 0,
    47, -74, 0, -452, 14, -57, 1, 1, 1, 1, 1, 1, 1, 1, 1, 1]

/-- `_TPAQ_MATCH_PRED` -/
def matchPred : Array Int32 := #[
    0, 64, 128, 192, 256, 320, 384, 448, 512, 576, 640, 704, 768, 832, 896, 960,
    1024, 1038, 1053, 1067, 1082, 1096, 1111, 1125, 1139, 1154, 1168, 1183, 1197, 1211, 1226, 1240,
    1255, 1269, 1284, 1298, 1312, 1327, 1341, 1356, 1370, 1385, 1399, 1413, 1428, 1442, 1457, 1471,
    1486, 1500, 1514, 1529, 1543, 1558, 1572, 1586, 1601, 1615, 1630, 1644, 1659, 1673, 1687, 1702,
    1716, 1731, 1745, 1760, 1774, 1788, 1803, 1817, 1832, 1846, 1861, 1875, 1889, 1904, 1918, 1933,
    1947, 1961, 1976, 1990, 2005, 2019, 2034, 2047]

/-- `_INV_EXP` of internal/Global.go -/
def invExp : Array Int := #[
    0, 8, 22, 47, 88, 160, 283, 492, 848, 1451, 2459, 4117, 6766, 10819, 16608, 24127,
    32768, 41409, 48928, 54717, 58770, 61419, 63077, 64085, 64688, 65044, 65253, 65376, 65448, 65489, 65514, 65528,
    65536]

/-- `table[v]` for `table := _TPAQ_STATE_TRANSITIONS[bit]`, `v` a `uint8` (256 entries: always in range) -/
@[inline] def trans (bit : Bool) (v : UInt8) : UInt8 := (if bit then trans1 else trans0).getD v.toNat 0

/-- `_TPAQ_STATE_MAP[v]`, `v` a `uint8` (256 entries: always in range) -/
@[inline] def smap (v : UInt8) : Int32 := stateMap.getD v.toNat 0

/-! ### internal.SQUASH, internal.Squash, internal.STRETCH -/

/-- the loop body of `init()`: `SQUASH[x+2047]` for `x` in `[-2047, 2047]` -/
def squashEntry (x : Int) : Int :=
  let w := x % 128                -- x & 127
  let y := ((x >>> 7) + 16).toNat -- (x >> 7) + 16, in [0, 31]
  (invExp.getD y 0 * (128 - w) + invExp.getD (y + 1) 0 * w) >>> 11

/-- `SQUASH` after `init()`: entries 0..4094 from the loop, `SQUASH[4095] = 4095` -/
def squashTab : Array Int :=
  ((List.range 4096).map (fun (i : Nat) => if i = 4095 then (4095 : Int) else squashEntry ((i : Int) - 2047))).toArray

/-- `internal.Squash(d)` -/
def squash (d : Int) : Int :=
  if d ≥ 2048 then 4095
  else if d ≤ -2048 then 0
  else squashTab.getD (d + 2047).toNat 0

/-- the second loop of `init()`: `pi` runs through 0, 1, 2, .. and every `STRETCH[pi] = x; pi++` appends
one entry.  State = (entries written so far in reverse order, `pi`). -/
def stretchStep (st : List Int × Nat) (k : Nat) : List Int × Nat :=
  let x : Int := (k : Int) - 2047
  let i := (squash x).toNat
  if st.2 ≤ i then (List.replicate (i + 1 - st.2) x ++ st.1, i + 1) else st

def stretchList : List Int := ((List.range 4095).foldl stretchStep ([], 0)).1.reverse

/-- `STRETCH` after `init()` (a `[4096]int`: cells the loop does not reach stay 0), then `STRETCH[4095] = 2047` -/
def stretchTab : Array Int :=
  (((stretchList ++ List.replicate (4096 - stretchList.length) 0).take 4096).set 4095 2047).toArray

/-- `STRETCH[i]` as a total function (0 outside the `[4096]int` array; the range check is `inb i 4096`) -/
def stretchAt (i : Int) : Int := if 0 ≤ i ∧ i < 4096 then stretchTab.getD i.toNat 0 else 0

/-! ### LogisticAdaptiveProbMap -/

structure APM where
  index : Int
  rate : Nat
  data : Tab UInt16
  g0 : Int      -- gradient[0]
  g1 : Int      -- gradient[1]

/-- `uint16(x)` of a Go `int` -/
@[inline] def u16 (x : Int) : UInt16 := UInt16.ofNat (x % 65536).toNat

/-- `data[j] = uint16(internal.Squash((j-16)<<7) << 4)`, `j = 0..32` -/
def apmRow : Array UInt16 :=
  ((List.range 33).map (fun (j : Nat) => u16 (squash ((((j : Int) - 16) <<< 7)) <<< 4))).toArray

/-- `newLogisticAdaptiveProbMap(n, rate)` (it cannot fail): `n` copies of the 33 entry row -/
def apmNew (n rate : Nat) : APM :=
  { index := 0, rate := rate,
    data := { size := if n * 33 = 0 then 33 else n * 33, init := fun i => apmRow.getD (i % 33) 0, m := {} },
    g0 := 0, g1 := 65528 + ((1 : Int) <<< rate) }

/-- a nil `AdaptiveProbMap` (the field `sse1` of a plain TPAQ predictor): any call faults -/
def apmNil : APM := { index := 0, rate := 0, data := Tab.zeros 0 0, g0 := 0, g1 := 0 }

/-- `x += uint16((g - int(x)) >> rate)` -/
@[inline] def apmAdj (g : Int) (rate : Nat) (x : UInt16) : UInt16 := x + u16 ((g - (x.toNat : Int)) >>> rate)

/-- the first two statements of `Get`: the two cells used by the previous call move towards `gradient[bit]`;
second component: "no index fault" -/
def apmTrain (a : APM) (bit : Bool) : APM × Bool :=
  let g := if bit then a.g1 else a.g0
  let ok := inb (a.index + 1) a.data.size && inb a.index a.data.size
  let d := a.data.set (a.index + 1).toNat (apmAdj g a.rate (a.data.get (a.index + 1).toNat))
  let d := d.set a.index.toNat (apmAdj g a.rate (d.get a.index.toNat))
  ({ a with data := d }, ok)

/-- the new index `((STRETCH[pr] + 2048) >> 7) + 33*ctx` -/
def apmIndex (pr ctx : Int) : Int := ((stretchAt pr + 2048) >>> 7) + 33 * ctx

/-- the interpolation `(data[index+1]*w + data[index]*(128-w)) >> 11`, `w = STRETCH[pr] & 127` -/
def apmInterp (d : Tab UInt16) (idx : Int) (pr : Int) : Int :=
  let w := stretchAt pr % 128
  (((d.get (idx + 1).toNat).toNat : Int) * w + ((d.get idx.toNat).toNat : Int) * (128 - w)) >>> 11

/-- `LogisticAdaptiveProbMap.Get(bit, pr, ctx)`: returned value, new state, "no index fault" -/
def apmGet (a : APM) (bit : Bool) (pr ctx : Int) : Int × APM × Bool :=
  let t := apmTrain a bit
  let a := t.1
  let idx := apmIndex pr ctx
  let ok := t.2 && inb pr 4096 && inb (idx + 1) a.data.size && inb idx a.data.size
  (apmInterp a.data idx pr, { a with index := idx }, ok)

/-! ### TPAQMixer -/

structure Mixer where
  pr : Int
  skew : Int32
  w0 : Int32
  w1 : Int32
  w2 : Int32
  w3 : Int32
  w4 : Int32
  w5 : Int32
  w6 : Int32
  w7 : Int32
  p0 : Int32
  p1 : Int32
  p2 : Int32
  p3 : Int32
  p4 : Int32
  p5 : Int32
  p6 : Int32
  p7 : Int32
  learnRate : Int32

/-- `TPAQMixer.init()` on a zeroed struct -/
def mixerInit : Mixer :=
  { pr := 2048, skew := 0, w0 := 32768, w1 := 32768, w2 := 32768, w3 := 32768, w4 := 32768, w5 := 32768,
    w6 := 32768, w7 := 32768, p0 := 0, p1 := 0, p2 := 0, p3 := 0, p4 := 0, p5 := 0, p6 := 0, p7 := 0,
    learnRate := beginLearnRate }

/-- `TPAQMixer.update(bit)`, `y = int(bit)` -/
def mixerUpdate (m : Mixer) (y : Int) : Mixer :=
  let err : Int32 := (Int32.ofInt ((y <<< 12) - m.pr) * m.learnRate) >>> 10
  if err == 0 then m else
  { m with
    learnRate := m.learnRate + ((endLearnRate - m.learnRate) >>> 31),
    skew := m.skew + err,
    w0 := m.w0 + ((m.p0 * err + 0) >>> 12),
    w1 := m.w1 + ((m.p1 * err + 0) >>> 12),
    w2 := m.w2 + ((m.p2 * err + 0) >>> 12),
    w3 := m.w3 + ((m.p3 * err + 0) >>> 12),
    w4 := m.w4 + ((m.p4 * err + 0) >>> 12),
    w5 := m.w5 + ((m.p5 * err + 0) >>> 12),
    w6 := m.w6 + ((m.p6 * err + 0) >>> 12),
    w7 := m.w7 + ((m.p7 * err + 0) >>> 12) }

/-- the int32 dot product of `TPAQMixer.get`, shifted: the argument of `Squash` (a Go `int`) -/
@[inline] def mixerDot (m : Mixer) (p0 p1 p2 p3 p4 p5 p6 p7 : Int32) : Int :=
  ((m.w0 * p0 + m.w1 * p1 + m.w2 * p2 + m.w3 * p3 + m.w4 * p4 + m.w5 * p5 + m.w6 * p6 + m.w7 * p7 +
    m.skew + 65536) >>> 17).toInt

/-- `TPAQMixer.get(p0..p7)`; the only index expression is `SQUASH[d+2047]` inside `Squash` -/
def mixerGet (m : Mixer) (p0 p1 p2 p3 p4 p5 p6 p7 : Int32) : Mixer :=
  { m with p0 := p0, p1 := p1, p2 := p2, p3 := p3, p4 := p4, p5 := p5, p6 := p6, p7 := p7,
           pr := squash (mixerDot m p0 p1 p2 p3 p4 p5 p6 p7) }

/-! ### hashing -/

/-- `hashTPAQ(x, y)` -/
def hashTPAQ (x y : Int32) : Int32 :=
  let h := x * hashK ^^^ y * hashK
  h >>> 1 ^^^ h >>> 9 ^^^ x >>> 2 ^^^ y >>> 3 ^^^ hashK

/-- `createContext(ctxID, cx)` -/
def createContext (ctxID cx : Int32) : Int32 :=
  let c : UInt32 := (cx * 987654323 + ctxID).toUInt32
  let rot : UInt32 := (c <<< 16) ||| (c >>> 16)      -- bits.RotateLeft32(c, 16)
  (rot * 123456791).toInt32 + ctxID

/-- `x >> n` for an `int32` x and an unsigned shift count of any size (Go: counts >= 32 give 0 or -1) -/
@[inline] def sar (x : Int32) (n : Nat) : Int32 :=
  if n ≥ 32 then (if x < 0 then -1 else 0) else x >>> Int32.ofNat n

/-! ### the predictor -/

structure TPAQ where
  pr : Int
  c0 : Int32
  c4 : Int32
  c8 : Int32
  bpos : Nat
  pos : Int32
  binCount : Int32
  matchLen : Int32
  matchPos : Int32
  matchVal : Int32
  hash : Int32
  statesMask : Int32
  mixersMask : Int32
  hashMask : Int32
  bufferMask : Int32
  sse0 : APM
  sse1 : APM
  mixers : Array Mixer
  mixer : Nat            -- `this.mixer = &this.mixers[mixer]`
  buffer : Tab UInt8
  hashes : Tab Int32
  bigStatesMap : Tab UInt8
  smallStatesMap0 : Tab UInt8
  smallStatesMap1 : Tab UInt8
  cp0 : Nat              -- `&this.smallStatesMap0[cp0]`
  cp1 : Nat              -- `&this.smallStatesMap1[cp1]`
  cp2 : Nat              -- `&this.bigStatesMap[cp2]` ...
  cp3 : Nat
  cp4 : Nat
  cp5 : Nat
  cp6 : Nat
  ctx0 : Int32
  ctx1 : Int32
  ctx2 : Int32
  ctx3 : Int32
  ctx4 : Int32
  ctx5 : Int32
  ctx6 : Int32
  extra : Bool
  fault : Bool           -- an index expression was out of range (Go: run-time panic)

/-- record the outcome of one range check -/
@[inline] def chk (s : TPAQ) (ok : Bool) : TPAQ := if ok then s else { s with fault := true }

/-! ### NewTPAQPredictor -/

/-- an entry of the context map that the constructor reads with `val.(uint)` -/
inductive UArg where
  | absent
  | uint (v : Nat)       -- v < 2^64
  | other                -- any other dynamic type

/-- `ctx["entropy"]`, read with `val.(string)` -/
inductive SArg where
  | absent
  | str (s : String)
  | other

/-- the context map as far as `NewTPAQPredictor` looks at it -/
structure CtxArgs where
  entropy : SArg
  blockSize : UArg
  size : UArg
  bsVersion : UArg

/-- the four errors of the constructor ("invalid ... parameter type") -/
inductive NewErr where
  | entropy
  | blockSize
  | size
  | bsVersion

structure Sizes where
  statesSize : Nat
  mixersSize : Nat
  hashSize : Nat
  bufferSize : Nat
  extra : Bool

/-- `val.(uint)` with a default for a missing key -/
def uarg (a : UArg) (dflt : Nat) (e : NewErr) : Except NewErr Nat :=
  match a with
  | .absent => .ok dflt
  | .uint v => .ok v
  | .other => .error e

def statesSizeOf (rbsz : Nat) : Nat :=
  if rbsz ≥ 64 * 1024 * 1024 then 1 <<< 28
  else if rbsz ≥ 16 * 1024 * 1024 then 1 <<< 27
  else if rbsz ≥ 4 * 1024 * 1024 then 1 <<< 26
  else if rbsz ≥ 1024 * 1024 then 1 <<< 24
  else 1 <<< 22

def mixersSizeOf (absz : Nat) : Nat :=
  if absz ≥ 32 * 1024 * 1024 then 1 <<< 16
  else if absz ≥ 16 * 1024 * 1024 then 1 <<< 15
  else if absz ≥ 8 * 1024 * 1024 then 1 <<< 14
  else if absz ≥ 4 * 1024 * 1024 then 1 <<< 13
  else if absz ≥ 1024 * 1024 then 1 <<< 11
  else 1 <<< 8

/-- `strings.ToUpper(codec) == "TPAQX"` (ASCII) -/
def isTPAQX (s : String) : Bool := s.toUpper == "TPAQX"

/-- the sizes computed by the first half of `NewTPAQPredictor` (`none` = nil context) -/
def sizesOf : Option CtxArgs → Except NewErr Sizes
  | none =>
    -- bsVersion = 6 > 5: hashSize = min(hashSize, 1 << 30)
    .ok { statesSize := 1 <<< 28, mixersSize := 1 <<< 12, hashSize := min hashSizeMax (1024 * 1024 * 1024),
          bufferSize := bufferSizeMax, extra := false }
  | some c =>
    match (match c.entropy with
           | .absent => Except.ok false
           | .str s => Except.ok (isTPAQX s)
           | .other => Except.error NewErr.entropy) with
    | .error e => .error e
    | .ok extra =>
    let extraMem : Nat := if extra then 1 else 0
    match uarg c.blockSize 32768 .blockSize with
    | .error e => .error e
    | .ok rbsz =>
    match uarg c.size rbsz .size with
    | .error e => .error e
    | .ok absz =>
    let bufferSize := min bufferSizeMax rbsz
    let mxsz : Nat := if absz < (1 <<< 26) then absz * 16 else 1 <<< 30
    let hashSize := min hashSizeMax mxsz
    match uarg c.bsVersion 6 .bsVersion with
    | .error e => .error e
    | .ok bsVersion =>
    let hashSize := hashSize <<< (2 * extraMem)
    .ok { statesSize := statesSizeOf rbsz <<< (2 * extraMem),
          mixersSize := mixersSizeOf absz <<< (2 * extraMem),
          hashSize := if bsVersion > 5 then min hashSize (1024 * 1024 * 1024) else hashSize,
          bufferSize := bufferSize, extra := extra }

/-- `int32(n - 1)` for a Go `uint` n (n = 0 wraps to 2^64 - 1, i.e. -1) -/
def maskOf (n : Nat) : Int32 := Int32.ofNat ((n + 18446744073709551615) % 18446744073709551616)

/-- the second half of `NewTPAQPredictor` -/
def tpaqOfSizes (z : Sizes) : TPAQ :=
  { pr := 2048, c0 := 1, c4 := 0, c8 := 0, bpos := 8, pos := 0, binCount := 0, matchLen := 0, matchPos := 0,
    matchVal := 0, hash := 0,
    statesMask := maskOf z.statesSize,
    mixersMask := maskOf z.mixersSize &&& (-2),      -- int32(mixersSize-1) & ^1
    hashMask := maskOf z.hashSize,
    bufferMask := maskOf z.bufferSize,
    sse0 := if z.extra then apmNew 256 6 else apmNew 256 7,
    sse1 := if z.extra then apmNew 65536 7 else apmNil,
    mixers := Array.replicate z.mixersSize mixerInit,
    mixer := 0,
    buffer := Tab.zeros 0 z.bufferSize,
    hashes := Tab.zeros 0 z.hashSize,
    bigStatesMap := Tab.zeros 0 z.statesSize,
    smallStatesMap0 := Tab.zeros 0 (1 <<< 16),
    smallStatesMap1 := Tab.zeros 0 (1 <<< 24),
    cp0 := 0, cp1 := 0, cp2 := 0, cp3 := 0, cp4 := 0, cp5 := 0, cp6 := 0,
    ctx0 := 0, ctx1 := 0, ctx2 := 0, ctx3 := 0, ctx4 := 0, ctx5 := 0, ctx6 := 0,
    extra := z.extra, fault := false }

/-- `NewTPAQPredictor(ctx)` -/
def tpaqNew (c : Option CtxArgs) : Except NewErr TPAQ :=
  match sizesOf c with
  | .error e => .error e
  | .ok z => .ok (tpaqOfSizes z)

/-! ### findMatch -/

/-- the loop `for r <= _TPAQ_MAX_LENGTH { ... r += 2; s -= 2; t -= 2 }`; returns the final `r` and "no index fault" -/
def findLoop (buf : Tab UInt8) (mask : Int32) : Nat → Int32 → Int32 → Int32 → Bool → Int32 × Bool
  | 0, r, _, _, ok => (r, ok)
  | fuel + 1, r, s, t, ok =>
    if r ≤ 88 then
      let i1 := ((s - 1) &&& mask).toInt
      let i2 := ((t - 1) &&& mask).toInt
      let ok := ok && inb i1 buf.size && inb i2 buf.size
      if buf.get i1.toNat != buf.get i2.toNat then (r, ok) else
      let i3 := (s &&& mask).toInt
      let i4 := (t &&& mask).toInt
      let ok := ok && inb i3 buf.size && inb i4 buf.size
      if buf.get i3.toNat != buf.get i4.toNat then (r, ok) else
      findLoop buf mask fuel (r + 2) (s - 2) (t - 2) ok
    else (r, ok)

/-- enough fuel for the loop started at `r`: it leaves as soon as `r > 88` and `r` grows by 2 -/
def findFuel (r : Int32) : Nat := ((90 - r.toInt) / 2 + 1).toNat

/-- `findMatch()` -/
def findMatch (s : TPAQ) : TPAQ :=
  if s.matchLen > 0 then
    { s with matchLen := if s.matchLen < 88 then s.matchLen + 1 else s.matchLen, matchPos := s.matchPos + 1 }
  else
    -- this.matchPos = this.hashes[this.hash]
    let s := chk { s with matchPos := s.hashes.get s.hash.toInt.toNat } (inb s.hash.toInt s.hashes.size)
    if s.matchPos != 0 && s.pos - s.matchPos ≤ s.bufferMask then
      let r := s.matchLen + 2
      let res := findLoop s.buffer s.bufferMask (findFuel r) r (s.pos - r) (s.matchPos - r) true
      chk { s with matchLen := res.1 - 2 } res.2
    else s

/-! ### Update -/

/-- `this.mixer.update(y)` -/
def trainMixer (s : TPAQ) (bit : Bool) : TPAQ :=
  { s with mixers := s.mixers.modify s.mixer (fun m => mixerUpdate m (if bit then 1 else 0)) }

/-- `this.c0 += (this.c0 + int32(bit)); this.bpos--` -/
def shiftBit (s : TPAQ) (bit : Bool) : TPAQ :=
  { s with c0 := s.c0 + (s.c0 + (if bit then 1 else 0)),
           bpos := (s.bpos + 18446744073709551615) % 18446744073709551616 }

/-- `this.buffer[this.pos&this.bufferMask] = uint8(this.c0)` -/
def storeByte (s : TPAQ) : TPAQ :=
  chk { s with buffer := s.buffer.set (s.pos &&& s.bufferMask).toInt.toNat s.c0.toUInt32.toUInt8 }
    (inb (s.pos &&& s.bufferMask).toInt s.buffer.size)

/-- `pos++`, the new `c8`, `c4`, `hash`, `c0 = 1`, `bpos = 8`, `binCount += (c4 >> 7) & 1` -/
def rollBytes (s : TPAQ) : TPAQ :=
  let c8 := (s.c8 <<< 8) ||| ((s.c4 >>> 24) &&& 0xFF)
  let c4 := (s.c4 <<< 8) ||| (s.c0 &&& 0xFF)
  { s with pos := s.pos + 1, c8 := c8, c4 := c4,
           hash := (((s.hash * hashK) <<< 4) + c4) &&& s.hashMask,
           c0 := 1, bpos := 8, binCount := s.binCount + ((c4 >>> 7) &&& 1) }

/-- "Select Neural Net": `this.mixer = &this.mixers[(this.c4&this.mixersMask)+1]` or `[this.c4&this.mixersMask]` -/
def selectMixer (s : TPAQ) : TPAQ :=
  let mi := if s.matchLen != 0 then ((s.c4 &&& s.mixersMask) + 1).toInt else (s.c4 &&& s.mixersMask).toInt
  chk { s with mixer := mi.toNat } (inb mi s.mixers.size)

/-- `ctx6` of the extra variant, "mostly text" branch -/
def ctx6Text (c4 c8 : Int32) : Int32 :=
  let h1 := if c4 &&& mask80808080 == 0 then c4 &&& mask4F4FFFFF else c4 &&& mask80808080
  let h2 := if c8 &&& mask80808080 == 0 then c8 &&& mask4F4FFFFF else c8 &&& mask80808080
  hashTPAQ (h1 <<< 2) (h2 >>> 2)

/-- "Add contexts to NN": `ctx0 .. ctx6` -/
def setContexts (s : TPAQ) : TPAQ :=
  let ctx0 := (s.c4 &&& 0xFF) <<< 8
  let ctx1 := (s.c4 &&& 0xFFFF) <<< 8
  let s := { s with ctx0 := ctx0, ctx1 := ctx1, ctx2 := createContext 2 (s.c4 &&& 0x00FFFFFF),
                    ctx3 := createContext 3 s.c4 }
  if s.binCount < (s.pos >>> (2 : Int32)) then
    -- Mostly text or mixed
    { s with ctx4 := createContext ctx1 (s.c4 ^^^ (s.c8 &&& 0xFFFF)),
             ctx5 := (s.c8 &&& maskF0F0F000) ||| ((s.c4 &&& maskF0F0F000) >>> 4),
             ctx6 := if s.extra then ctx6Text s.c4 s.c8 else s.ctx6 }
  else
    -- Mostly binary
    { s with ctx4 := createContext (hashK + s.matchLen) (s.c4 ^^^ (s.c4 &&& 0x000FFFFF)),
             ctx5 := ctx0 ||| (s.c8 <<< 16),
             ctx6 := if s.extra then hashTPAQ (s.c4 &&& maskFFFF0000) (s.c8 >>> 16) else s.ctx6 }

/-- `this.matchVal = int32(this.buffer[this.matchPos&this.bufferMask]) | 0x100` -/
def loadMatchVal (s : TPAQ) : TPAQ :=
  chk { s with matchVal := (s.buffer.get (s.matchPos &&& s.bufferMask).toInt.toNat).toUInt32.toInt32 ||| 0x100 }
    (inb (s.matchPos &&& s.bufferMask).toInt s.buffer.size)

/-- `this.hashes[this.hash] = this.pos` -/
def storeHash (s : TPAQ) : TPAQ :=
  chk { s with hashes := s.hashes.set s.hash.toInt.toNat s.pos } (inb s.hash.toInt s.hashes.size)

/-- the block `if this.bpos == 0 { ... }` of `Update` (a whole byte has been seen) -/
def byteBoundary (s : TPAQ) : TPAQ :=
  storeHash (loadMatchVal (findMatch (setContexts (selectMixer (rollBytes (storeByte s))))))

/-- `getMatchContextPred()`: the prediction and the state (`matchLen` may be reset) -/
def matchContextPred (s : TPAQ) : Int32 × TPAQ :=
  let m := sar s.matchVal ((s.bpos + 18446744073709551615) % 18446744073709551616)   -- >> (this.bpos - 1)
  if s.c0 == m >>> 1 then
    let k := (s.matchLen - 1).toInt
    let p := matchPred.getD k.toNat 0
    (if m &&& 1 == 0 then -p else p, chk s (inb k maxLength))
  else (0, { s with matchLen := 0 })

/-- `*cp = table[*cp]` on one of the three state tables -/
@[inline] def bump (t : Tab UInt8) (bit : Bool) (cp : Nat) : Tab UInt8 := t.set cp (trans bit (t.get cp))

/-- `*this.cp0 = table[*this.cp0]` ... `*this.cp5 = table[*this.cp5]` -/
def bumpStates (s : TPAQ) (bit : Bool) : TPAQ :=
  { s with smallStatesMap0 := bump s.smallStatesMap0 bit s.cp0,
           smallStatesMap1 := bump s.smallStatesMap1 bit s.cp1,
           bigStatesMap := bump (bump (bump (bump s.bigStatesMap bit s.cp2) bit s.cp3) bit s.cp4) bit s.cp5 }

/-- the six address-of expressions `this.cp0 = &this.smallStatesMap0[this.ctx0+c]` ... `this.cp5 = &this.bigStatesMap[(this.ctx5^c)&this.statesMask]` -/
def movePtrs (s : TPAQ) : TPAQ :=
  let c := s.c0
  let i0 := (s.ctx0 + c).toInt
  let i1 := (s.ctx1 + c).toInt
  let i2 := ((s.ctx2 + c) &&& s.statesMask).toInt
  let i3 := ((s.ctx3 + c) &&& s.statesMask).toInt
  let i4 := ((s.ctx4 + c) &&& s.statesMask).toInt
  let i5 := ((s.ctx5 ^^^ c) &&& s.statesMask).toInt
  chk { s with cp0 := i0.toNat, cp1 := i1.toNat, cp2 := i2.toNat, cp3 := i3.toNat, cp4 := i4.toNat, cp5 := i5.toNat }
    (inb i0 s.smallStatesMap0.size && inb i1 s.smallStatesMap1.size && inb i2 s.bigStatesMap.size &&
     inb i3 s.bigStatesMap.size && inb i4 s.bigStatesMap.size && inb i5 s.bigStatesMap.size)

/-- the extra variant: `*this.cp6 = table[*this.cp6]; this.cp6 = &this.bigStatesMap[(this.ctx6+c)&this.statesMask]` -/
def stepPtr6 (s : TPAQ) (bit : Bool) : TPAQ :=
  let i6 := ((s.ctx6 + s.c0) &&& s.statesMask).toInt
  chk { s with bigStatesMap := bump s.bigStatesMap bit s.cp6, cp6 := i6.toNat } (inb i6 s.bigStatesMap.size)

/-- `p = this.mixer.get(p0, .., p7)`: the mixer is updated in place -/
def mix (s : TPAQ) (p0 p1 p2 p3 p4 p5 p6 p7 : Int32) : TPAQ :=
  { s with mixers := s.mixers.modify s.mixer (fun m => mixerGet m p0 p1 p2 p3 p4 p5 p6 p7) }

/-- the value `this.mixer.get` returned (`this.mixer.pr`) -/
def mixed (s : TPAQ) : Int := (s.mixers.getD s.mixer mixerInit).pr

/-- `this.sse0.Get(y, p, int(this.c0))`: value and state -/
def sse0Get (s : TPAQ) (bit : Bool) (p : Int) : Int × TPAQ :=
  let r := apmGet s.sse0 bit p s.c0.toInt
  (r.1, chk { s with sse0 := r.2.1 } r.2.2)

/-- `this.sse1.Get(y, p, int(this.ctx0+c))`: value and state -/
def sse1Get (s : TPAQ) (bit : Bool) (p : Int) : Int × TPAQ :=
  let r := apmGet s.sse1 bit p (s.ctx0 + s.c0).toInt
  (r.1, chk { s with sse1 := r.2.1 } r.2.2)

/-- `p + int(uint32(p-2048)>>31)` -/
@[inline] def finalPr (p : Int) : Int := p + ((p - 2048) % 4294967296) / 2147483648

/-- "SSE (Secondary Symbol Estimation)" and `this.pr = ...`, plain variant -/
def sseStage (s : TPAQ) (bit : Bool) (p : Int) : TPAQ :=
  if s.binCount < (s.pos >>> (3 : Int32)) then
    let r := sse0Get s bit p
    { r.2 with pr := finalPr ((3 * r.1 + p) >>> 2) }
  else { s with pr := finalPr p }

/-- the same for the extra variant -/
def sseStageX (s : TPAQ) (bit : Bool) (p : Int) : TPAQ :=
  if s.binCount < (s.pos >>> (3 : Int32)) then
    let r := sse1Get s bit p
    { r.2 with pr := finalPr r.1 }
  else
    let r0 := if s.binCount ≥ (s.pos >>> (2 : Int32)) then
                let r := sse0Get s bit p
                ((3 * r.1 + p) >>> 2, r.2)
              else (p, s)
    let r := sse1Get r0.2 bit r0.1
    { r.2 with pr := finalPr ((3 * r.1 + r0.1) >>> 2) }

/-- the part of `Update` after the byte boundary block -/
def predict (s : TPAQ) (bit : Bool) : TPAQ :=
  let s := movePtrs (bumpStates s bit)
  let p0 := smap (s.smallStatesMap0.get s.cp0)
  let p1 := smap (s.smallStatesMap1.get s.cp1)
  let p2 := smap (s.bigStatesMap.get s.cp2)
  let p3 := smap (s.bigStatesMap.get s.cp3)
  let p4 := smap (s.bigStatesMap.get s.cp4)
  let p5 := smap (s.bigStatesMap.get s.cp5)
  let r7 := if s.matchLen != 0 then matchContextPred s else (0, s)
  let p7 := r7.1
  let s := r7.2
  if s.extra == false then
    let s := mix s p0 p1 p2 p3 p4 p5 p7 p7
    sseStage s bit (mixed s)
  else
    let s := stepPtr6 s bit
    let p6 := smap (s.bigStatesMap.get s.cp6)
    let s := mix s p0 p1 p2 p3 p4 p5 p6 p7
    sseStageX s bit (mixed s)

/-- `Update(bit)` (`bit = true` for 1; the binary coders pass 0 or 1) -/
def tpaqUpdate (s : TPAQ) (bit : Bool) : TPAQ :=
  let s := shiftBit (trainMixer s bit) bit
  predict (if s.bpos = 0 then byteBoundary s else s) bit

/-- `Get()`: the value (Go `int`) -/
def tpaqGetZ (s : TPAQ) : Int := s.pr

/-- `Get()` as the binary entropy coder sees it: value as a natural number, state unchanged -/
def tpaqGet (s : TPAQ) : Nat × TPAQ := (s.pr.toNat, s)

/-- `Update(bit)` with the Go run-time panic (index out of range) as the outcome `none` -/
def tpaqUpdateF (s : TPAQ) (bit : Bool) : Option TPAQ :=
  let s' := tpaqUpdate s bit
  if s'.fault then none else some s'

/-! ### a whole run: `p_i = Get(); Update(bit_i)`

The three run functions are instances of generic list recursions (`statesBefore`, `runOpt`), so that
their unfolding lemmas do not depend on the (large) step function. -/

/-- the states before each step of `s, f s b_0, f (f s b_0) b_1, ...` -/
def statesBefore {σ β : Type} (f : σ → β → σ) : σ → List β → List σ
  | _, [] => []
  | s, b :: bs => s :: statesBefore f (f s b) bs

/-- a run of a partial step function `f` (`none` = fault), observing `g` before each step -/
def runOpt {σ β γ : Type} (g : σ → γ) (f : σ → β → Option σ) : σ → List β → Option (List γ)
  | _, [] => some []
  | s, b :: bs =>
    match f s b with
    | none => none
    | some s2 => (runOpt g f s2 bs).map (g s :: ·)

/-- one round of the coder: `Get()` then `Update(bit)` -/
def tpaqStep (s : TPAQ) (b : Bool) : TPAQ := tpaqUpdate (tpaqGet s).2 b

/-- the values returned by the successive `Get()` calls -/
def tpaqRun (s : TPAQ) (bits : List Bool) : List Nat := (statesBefore tpaqStep s bits).map (fun s => (tpaqGet s).1)

/-- the state after the run -/
def tpaqRunState (s : TPAQ) (bits : List Bool) : TPAQ := bits.foldl tpaqStep s

/-- the same run with run-time panics: `none` as soon as an index is out of range, values as Go `int` -/
def tpaqRunF (s : TPAQ) (bits : List Bool) : Option (List Int) :=
  runOpt tpaqGetZ (fun s b => tpaqUpdateF (tpaqGet s).2 b) s bits

end Kanzi.TPAQ
