package main

// trunc (C09): streams written by the real Writer, cut at a byte position, read back by the real
// Reader.  Oracle: reading stream[:cut] (cut < len) ends with a non-EOF error; everything delivered
// before the error is a prefix of the original; never io.EOF / a clean end; nothing after the error.
//
// op: trunc <base cfg> rj=<reader jobs> rd=<Read buffer size> cut=<bytes kept>
// (hl=1 in the base cfg: headerless stream read through NewHeaderlessReader; hint=1: the reader is
// given the original size)

import (
	"fmt"
	"math/rand"
	"sort"
	"strings"

	"kverif/internal/container"
)

func init() {
	registerStream(&Stream{
		Name:     "trunc",
		Parallel: 12,
		Rule: "streams from the real Writer (every entropy codec x checksum 0/32/64 x with header / headerless via NewHeaderlessReader; empty stream; 1/15/16/17-byte streams; " +
			"CLI level chains; multi-MiB NONE/NONE streams with 65 and 1024 blocks at unaligned bit offsets) x cut positions (ALL byte positions of the small streams; for large ones each frame start/end +-1, " +
			"every byte position in the last 16 bytes of each block payload, inside the end marker, last byte, random) x reader jobs 1..4; " +
			"distinct_nontrivial = distinct (stream, cut, jobs) with cut inside the framed part (after the header)",
		Gen:  truncGen,
		Exec: truncExec,
	})
}

// truncWhere classifies a cut (in bytes) with the independent parser's view of the full stream.
func truncWhere(s *g2Stream, cut int) string {
	bit := uint64(cut) * 8
	if bit < s.HdrBits {
		return "header"
	}
	for _, f := range s.St.Frames {
		if f.LenBits == 0 {
			return "end-marker"
		}
		end := f.PayOff + f.LenBits
		if bit >= end {
			continue
		}
		if bit < f.PayOff {
			return "frame-length-field"
		}
		if end-bit <= 16*8 {
			return "payload-last16"
		}
		return "payload"
	}
	return "end-marker"
}

func truncExec(op string, res *Result) string {
	word, kv := g2KV(op)
	if word != "trunc" {
		return "bad-op"
	}
	cfg, err := g2CfgFrom(kv)
	if err != nil {
		return "bad-op"
	}
	rj, rd, cut := g2Int(kv, "rj", 1), g2Int(kv, "rd", 65536), g2Int(kv, "cut", -1)
	if rj < 1 || rj > 64 || rd < 1 || cut < 0 {
		return "bad-op"
	}
	base := g2Base(cfg)
	if base.Err != "" {
		res.Tags = append(res.Tags, "base-error")
		return "base-error " + strings.Fields(base.Err)[0]
	}
	if cut >= len(base.Comp) {
		res.Tags = append(res.Tags, "not-a-cut")
		return "not-a-cut"
	}
	where := truncWhere(base, cut)
	res.Tags = append(res.Tags, "cut:"+where, fmt.Sprintf("rj:%d", rj), fmt.Sprintf("ck:%d", cfg.Ck), "entropy:"+cfg.Ent)
	if cfg.Hl {
		res.Tags = append(res.Tags, "api:headerless")
	} else {
		res.Tags = append(res.Tags, "api:header")
	}
	if len(base.Data) == 0 {
		res.Tags = append(res.Tags, "empty-stream")
	}
	res.Nontrivial = where != "header"
	sp := g2ReaderSpec{Jobs: rj, Hl: cfg.Hl, Cfg: cfg, Rd: rd}
	if cfg.Hint {
		sp.Hint = int64(len(base.Data))
	}
	o := g2ReadAll(base.Comp[:cut], sp, len(base.Data)+cfg.Bs, g2ReadTimeout)
	viol := func(sym, what string) {
		res.Tags = append(res.Tags, "violation:"+sym)
		if g2ViolationGate("trunc", "io.Reader", sym) {
			res.Violation = &Violation{Kind: "input", Site: "io.Reader", Symptom: sym, What: what}
		}
	}
	out := ""
	switch {
	case o.Hung:
		viol("hang", "Read did not return within the watchdog limit")
		res.Abort = true
		out = "VIOLATION hang"
	case o.Panic != "":
		viol("panic", "panic on the caller's goroutine / impossible Read result: "+o.Panic)
		out = "VIOLATION panic"
	case o.CtorErr != nil:
		out = "err ctor"
	default:
		after := 0
		for _, n := range o.AfterN {
			after += n
		}
		delivered := o.Out[:len(o.Out)-after]
		switch {
		case o.Err == nil:
			// clean end.  Legitimate only if the independent parser finds the complete end marker in
			// the prefix (the cut removed nothing but padding) - cannot happen: padding is < 8 bits.
			if st, perr := container.Parse(base.Comp[:cut], cfg.Hl); perr == nil && st.Complete {
				res.Tags = append(res.Tags, "cut:only-padding")
				out = "eof-complete"
			} else {
				viol("truncation-undetected", fmt.Sprintf("stream of %d bytes cut to %d (%s): Read ended with io.EOF after delivering %d of %d bytes",
					len(base.Comp), cut, where, len(delivered), len(base.Data)))
				out = "VIOLATION truncation-undetected"
			}
		case !g2Prefix(delivered, base.Data):
			viol("wrong-bytes-accepted", fmt.Sprintf("cut to %d (%s): %d bytes delivered before the error, first difference from the original at %d",
				cut, where, len(delivered), g2FirstDiff(delivered, base.Data)))
			out = "VIOLATION wrong-bytes-accepted"
		case after > 0:
			viol("data-after-error", fmt.Sprintf("cut to %d (%s): after error %q the next three Reads returned n=%v", cut, where, o.Err.Error(), o.AfterN))
			out = "VIOLATION data-after-error"
		default:
			out = fmt.Sprintf("err %s prefix=%d", g2ErrClass(o.Err), len(delivered))
		}
	}
	res.Sample = map[string]any{"op": op, "outcome": out, "where": where, "stream_bytes": len(base.Comp)}
	return out
}

// ---- generator ---------------------------------------------------------------------------------

func truncGen(r *rand.Rand, tier string, n int, emit func(op string, tags ...string)) {
	thorough := tier == "thorough"
	ds := func() int64 { return int64(r.Intn(1 << 30)) }
	rds := []int{65536, 700, 1 << 20, 4096, 1}
	cnt := 0
	one := func(c g2Cfg, cut, rj int, fam string) {
		cnt++
		emit(fmt.Sprintf("trunc %s rj=%d rd=%d cut=%d", c, rj, rds[cnt%len(rds)], cut), "family:"+fam)
	}
	// boundary cut positions of a stream (bytes): each frame start/end +-1, inside the end marker, last byte
	boundaries := func(s *g2Stream, last16 bool, every int) []int {
		set := map[int]bool{0: true, 1: true, len(s.Comp) - 1: true, len(s.Comp) - 2: true}
		hb := int(s.HdrBits / 8)
		for d := -1; d <= 1; d++ {
			set[hb+d] = true
		}
		for i, f := range s.St.Frames {
			if every > 1 && i%every != 0 && i != len(s.St.Frames)-1 && i != len(s.St.Frames)-2 {
				continue
			}
			st, pay, end := int(f.BitOff/8), int(f.PayOff/8), int((f.PayOff+f.LenBits)/8)
			for d := -1; d <= 1; d++ {
				set[st+d], set[pay+d], set[end+d] = true, true, true
			}
			if last16 && f.LenBits > 0 {
				for d := 0; d <= 17; d++ {
					set[end-d] = true
				}
			}
		}
		var out []int
		for c := range set {
			if c >= 0 && c < len(s.Comp) {
				out = append(out, c)
			}
		}
		sort.Ints(out)
		return out
	}
	allCuts := func(c g2Cfg, stride int, fam string) {
		s := g2Base(c)
		if s.Err != "" {
			one(c, 0, 1, "unbuildable")
			return
		}
		heavy := c.Ent == "TPAQ" || c.Ent == "TPAQX"
		bset := map[int]bool{}
		for _, b := range boundaries(s, true, 1) {
			bset[b] = true
		}
		for cut := 0; cut < len(s.Comp); cut++ {
			if bset[cut] {
				for rj := 1; rj <= 4; rj++ {
					if heavy && !thorough && rj != 1+cut%4 {
						continue
					}
					one(c, cut, rj, fam+"-boundary")
				}
			} else if stride <= 1 || cut%stride == 0 {
				one(c, cut, 1+(cut+cnt)%4, fam)
			}
		}
	}
	cks := []int{0, 32, 64}
	// A. every entropy codec x checksum x header/headerless: ALL cut positions (full + partial + tiny copy block)
	for i, e := range g2Entropies {
		for _, ck := range cks {
			for hl := 0; hl <= 1; hl++ {
				sz, stride := 1024+200+1+r.Intn(15), 1
				if e == "TPAQ" || e == "TPAQX" {
					sz, stride = 1024+1+r.Intn(15), 16 // >100 MB of allocation per decoded block
					if thorough {
						stride = 1
					}
				}
				c := g2Cfg{Ent: e, Tr: "NONE", Bs: 1024, Ck: ck, Wj: 1 + (i+hl)%3, Shape: []string{"text", "numeric", "skew-100-2"}[(i+ck/32)%3],
					Sz: sz, Ds: ds(), Hl: hl == 1, Hint: (i+ck/32+hl)%2 == 0}
				allCuts(c, stride, "small-all-cuts")
			}
		}
	}
	// B. the empty stream and streams of 1 / 15 / 16 / 17 bytes
	for _, sz := range []int{0, 1, 15, 16, 17} {
		for _, ck := range cks {
			for hl := 0; hl <= 1; hl++ {
				for _, e := range []string{"NONE", "HUFFMAN", "ANS0", "FPAQ"} {
					c := g2Cfg{Ent: e, Tr: []string{"NONE", "LZ"}[hl], Bs: 1024, Ck: ck, Wj: 1, Shape: "text", Sz: sz, Ds: ds(), Hl: hl == 1, Hint: sz%2 == 1}
					allCuts(c, 1, fmt.Sprintf("tiny-%d", sz))
				}
			}
		}
	}
	chainStride := 2
	if thorough {
		chainStride = 1
	}
	// C. transform chains, no checksum mostly (nothing but the container can notice the truncation)
	for i, lc := range g2LevelChains {
		if (lc.E == "TPAQ" || lc.E == "TPAQX") && !thorough {
			continue
		}
		bs := []int{1024, 2048}[i%2]
		c := g2Cfg{Ent: lc.E, Tr: lc.T, Bs: bs, Ck: []int{0, 0, 32}[i%3], Wj: 1 + i%4, Shape: []string{"text", "mix", "utf8-50"}[i%3],
			Sz: 2*bs + 300 + r.Intn(15), Ds: ds(), Hl: i%4 == 3}
		allCuts(c, chainStride, "chain-all-cuts")
	}
	for i, t := range []string{"BWT", "LZ", "ROLZ", "RLT", "TEXT", "LZP", "BWTS", "SRT"} {
		c := g2Cfg{Ent: []string{"HUFFMAN", "ANS0", "NONE", "RANGE"}[i%4], Tr: t, Bs: 1024, Ck: 0, Wj: 1 + i%4, Shape: "text", Sz: 2*1024 + 500, Ds: ds(), Hl: i%2 == 1}
		allCuts(c, chainStride, "chain-all-cuts")
	}
	// D. incompressible data: payload lengths are maximal and copy-mode blocks with skipBlocks
	for _, ck := range []int{0, 64} {
		allCuts(g2Cfg{Ent: "HUFFMAN", Tr: "LZ", Bs: 1024, Ck: ck, Wj: 2, Shape: "random", Sz: 2*1024 + 40, Ds: ds(), Skip: ck == 0}, 1, "incompressible-all-cuts")
	}
	// E. large NONE/NONE streams without checksum: many blocks at unaligned bit offsets
	big := []g2Cfg{
		{Ent: "NONE", Tr: "NONE", Bs: 65536, Ck: 0, Wj: 4, Shape: "random", Sz: 4<<20 + 3, Ds: ds()},
		{Ent: "NONE", Tr: "NONE", Bs: 1024, Ck: 0, Wj: 4, Shape: "text", Sz: 1<<20 - 333, Ds: ds(), Hint: true},
		{Ent: "NONE", Tr: "NONE", Bs: 16384, Ck: 32, Wj: 3, Shape: "mix", Sz: 2<<20 + 5000, Ds: ds(), Hl: true},
	}
	if thorough {
		big = append(big, g2Cfg{Ent: "HUFFMAN", Tr: "NONE", Bs: 1 << 20, Ck: 0, Wj: 2, Shape: "text", Sz: 9<<20 + 77, Ds: ds()},
			g2Cfg{Ent: "NONE", Tr: "NONE", Bs: 4 << 20, Ck: 0, Wj: 2, Shape: "random", Sz: 17<<20 + 1, Ds: ds()})
	}
	for bi, c := range big {
		s := g2Base(c)
		if s.Err != "" {
			one(c, 0, 1, "unbuildable")
			continue
		}
		every := 1
		if len(s.St.Frames) > 100 && !thorough {
			every = 64
		}
		for i, cut := range boundaries(s, true, every) {
			one(c, cut, 1+(i+bi)%4, "large-boundary")
		}
		nr := 80
		if thorough {
			nr = 1500
		}
		for i := 0; i < nr; i++ {
			one(c, r.Intn(len(s.Comp)), 1+i%4, "large-random")
		}
	}
	_ = n
}
