/-
C12 (CM entropy codec, predictor side) — the context-mixing bit predictor
`/repo/v2/entropy/CMPredictor.go` (`NewCMPredictor`, `Get`, `Update`), which the CM codec plugs into
the binary arithmetic coder (`entropy.NewBinaryEntropyEncoder(bs, cmPredictor)` / decoder).
Property theorems only; proofs live in `Kanzi/Proofs/CM.lean`, the model in `Kanzi/Model/CM.lean`
(`cmInit`, `cmGet`, `cmUpdate`, …), tied to /repo by the `cmpred` correspondence stream (the real
`entropy.CMPredictor` is driven with generated and adversarial bit sequences; the sequence of
`Get()` values must be identical to the model's).

What the binary coder needs from a predictor: a deterministic state machine whose `Get()` lies in
`[0, 4095]` on every reachable state.  `CM.R` is an inductive invariant (`C12_cm_init`,
`C12_cm_step`) under which
  * `Get()` is in `[0, 4095]` for BOTH bitstream-version branches (`C12_cm_get_range`),
  * no slice index of `Get`/`Update` is out of range (`C12_cm_no_fault`),
  * no `int32` / `int` operation wraps around, so the Go arithmetic is arithmetic in Z (`C12_cm_int32`).

The invariant (`Kanzi.CM.R`): `c1, c2 < 256`, `1 ≤ ctx ≤ 255`, `runMask ∈ {0, 256}`, `0 ≤ idx ≤ 15`,
`counter1` = 256 rows of 257 entries in `[0, 65520]`, `counter2` = 512 rows of 17 entries in
`[0, 65520]` — except column 16 of the current bitstream version (`isBsVersion3 = false`), which
starts at 65535 and stays in `[0, 65535]`.  The bound 65520 = `_CM_PSCALE - 16` is what the `+ 16` of
the update rule `x -= (x - _CM_PSCALE + 16) >> rate` enforces; it is exactly what keeps `Get()` below
4096 (see the two `example`s at the end: with an entry 65535 in a column below 16, or in column 16
of a version-3 table, the formulas return 4096).

Plugging into the binary coder's predictor interface is one line (`cmPredGet`, `cmPredUpdate`,
`C12_cm_pred_safe`): state = the state BEFORE `Get()`, `get s = (cmGet s).1`,
`update s b = cmUpdate (cmGet s).2 b`.
-/
import Kanzi.Model.CM
import Kanzi.Proofs.CM
import Kanzi.Generated.Consts

namespace Kanzi.C12
open Kanzi.CM

/-- **C12_cm_init.**  The state built by `NewCMPredictor` (either bitstream version) satisfies the invariant. -/
theorem C12_cm_init (v3 : Bool) : R (cmInit v3) := R_init v3

/-- **C12_cm_new.**  `NewCMPredictor(ctx)` fails exactly when `ctx["bsVersion"]` is present with a
dynamic type other than `uint`; otherwise it returns the initial state with
`isBsVersion3 = (bsVersion < 4)` (default 4), which satisfies the invariant. -/
theorem C12_cm_new (a : BsArg) :
    (cmNew a = none ↔ a = .otherType) ∧
    (∀ s, cmNew a = some s → R s ∧
      s = cmInit (match a with | .uint v => decide (v < 4) | _ => false)) := by
  cases a <;> simp [cmNew, R_init]

/-- **C12_cm_step.**  One round of the coder's call pattern, `Get()` then `Update(bit)`, preserves the
invariant.  (`Get()` alone and `Update` alone preserve it too.) -/
theorem C12_cm_step (s : CM) (b : Bool) (h : R s) : R (cmUpdate (cmGet s).2 b) := R_step h b

theorem C12_cm_step_get (s : CM) (h : R s) : R (cmGet s).2 := R_get h
theorem C12_cm_step_update (s : CM) (b : Bool) (h : R s) : R (cmUpdate s b) := R_update h b

/-- **C12_cm_get_range.**  On every state satisfying the invariant `Get()` returns a value in
`[0, 4095]`, for the current formula `(p + p + 3*(x1+x2) + 64) >> 7` and for the bitstream-version-3
formula `(p + 3*ssep + 32) >> 6` alike.  (`cmGetZ` is the Go `int` result, `cmGet` its `toNat`.) -/
theorem C12_cm_get_range (s : CM) (h : R s) : (cmGet s).1 ≤ 4095 := get_range h

theorem C12_cm_get_rangeZ (s : CM) (h : R s) :
    0 ≤ (cmGetZ s).1 ∧ (cmGetZ s).1 ≤ 4095 ∧ ((cmGet s).1 : Int) = (cmGetZ s).1 :=
  ⟨(getZ_range h).1, (getZ_range h).2, get_cast h⟩

/-- **C12_cm_no_fault.**  On every state satisfying the invariant no index expression of `Get()` is
out of range, and none of the following `Update(bit)`: the functions with an explicit panic outcome
(`cmGetF`, `cmUpdateF`: `none` = Go run-time panic "index out of range") return `some` of what the
total functions compute. -/
theorem C12_cm_no_fault (s : CM) (b : Bool) (h : R s) :
    cmGetF s = some (cmGetZ s) ∧ cmUpdateF (cmGet s).2 b = some (cmUpdate (cmGet s).2 b) :=
  ⟨getF_some h, updateF_some (R_get h) b⟩

theorem C12_cm_no_fault_update (s : CM) (b : Bool) (h : R s) : cmUpdateF s b = some (cmUpdate s b) :=
  updateF_some h b

/-- **C12_cm_int32.**  Every Go operation of `Get`/`Update` whose result has type `int32` goes, in the
model, through a wrap function `w32`, every operation on `int` through `wi`.  Whatever these
functions do outside `[-2^31, 2^31)` (`I32 w` : `w x = x` on that range — true of `wrap32`,
`wrap64`, and of a 32 bit `int`), on a state satisfying the invariant the results are those of
exact integer arithmetic: no intermediate value leaves the int32 range. -/
theorem C12_cm_int32 (w32 wi : Int → Int) (hw32 : I32 w32) (hwi : I32 wi) (s : CM) (b : Bool) (h : R s) :
    cmGetW w32 wi s = cmGetW id id s ∧ cmUpdateW w32 s b = cmUpdateW id s b :=
  ⟨getW_eq hw32 hwi h, updateW_eq hw32 h b⟩

/-- the instance that stands for the Go code on a 64 bit platform -/
theorem C12_cm_int32_go (s : CM) (b : Bool) (h : R s) :
    cmGetZ s = cmGetI s ∧ cmUpdate s b = cmUpdateI s b := ⟨getZ_eq h, update_eq h b⟩

theorem C12_cm_wraps : I32 wrap32 ∧ I32 wrap64 ∧
    (∀ x, wrap32 x = (x + 2147483648) % 4294967296 - 2147483648) ∧
    (∀ x, wrap64 x = (x + 9223372036854775808) % 18446744073709551616 - 9223372036854775808) :=
  ⟨I32_wrap32, I32_wrap64, wrap32_spec, wrap64_spec⟩

/-- **C12_cm_run.**  Whole runs from a fresh predictor, any bit sequence of any length: every `Get()`
is in `[0, 4095]`, nothing faults (`cmRunF` = the run with panics as `none`), and the final state
satisfies the invariant. -/
theorem C12_cm_run (v3 : Bool) (bits : List Bool) :
    (∀ p ∈ cmRun (cmInit v3) bits, p ≤ 4095) ∧
    cmRunF (cmInit v3) bits = some ((cmRun (cmInit v3) bits).map Int.ofNat) ∧
    R (cmRunState (cmInit v3) bits) :=
  ⟨run_range _ (R_init v3) bits, runF_some _ (R_init v3) bits, R_runState _ (R_init v3) bits⟩

/-- **C12_cm_consts.**  The four constants the model was transcribed with are the values the Go type
checker computes for the named constants of /repo/v2/entropy (`Generated/Consts.lean`, regenerated
from /repo on every run): a changed rate or scale breaks this obligation. -/
theorem C12_cm_consts :
    Kanzi.Generated.Consts.entropy._CM_FAST_RATE = fastRate ∧
    Kanzi.Generated.Consts.entropy._CM_MEDIUM_RATE = mediumRate ∧
    Kanzi.Generated.Consts.entropy._CM_SLOW_RATE = slowRate ∧
    (Kanzi.Generated.Consts.entropy._CM_PSCALE : Int) = pscale := by decide

/-! ### the predictor as a state machine (interface of the binary entropy coder) -/

/-- `get` : state before `Get()` ↦ the value returned -/
def cmPredGet (s : CM) : Nat := (cmGet s).1
/-- `update` : state before `Get()`, bit ↦ state after `Get(); Update(bit)` -/
def cmPredUpdate (s : CM) (b : Bool) : CM := cmUpdate (cmGet s).2 b

/-- the two fields of `Pred.Safe (Pred.ofImpure cmGet cmUpdate) CM.R` -/
theorem C12_cm_pred_safe :
    (∀ s b, R s → R (cmPredUpdate s b)) ∧ (∀ s, R s → cmPredGet s ≤ 4095) :=
  ⟨fun _ b h => R_step h b, fun _ h => get_range h⟩

/-! ### the hypotheses are satisfiable; the invariant cannot be weakened to `≤ 65535` -/

example : R (cmInit false) ∧ R (cmInit true) := ⟨R_init _, R_init _⟩

/-- current formula, `p = 65520`, `x2 = 65535` (reachable) but `x1 = 65535` (excluded by `R`): 4096 -/
example : cmOut id false 65520 65535 65535 = 4096 := by decide
/-- version-3 formula, `p = x1 = 65520` (reachable) but `x2 = 65535` (excluded by `R` for version 3): 4096 -/
example : cmOut id true 65520 65520 65535 = 4096 := by decide
/-- the largest values allowed by `R` give 4095 in both formulas -/
example : cmOut id false 65520 65520 65535 = 4095 ∧ cmOut id true 65520 65520 65520 = 4095 := by decide

end Kanzi.C12
