/-
TOTAL model of the Huffman DECODER of kanzi-go on ARBITRARY (forged) input, from ANY state of the
decoder object — property C03, slice `huftotal`.  Go: `HuffmanDecoder` of
v2/entropy/HuffmanCodec.go (`NewHuffmanDecoder`, `NewHuffmanDecoderWithCtx`, `Read`, `decodeV6`,
`decodeChunkV6`, `readState`, `readLengths`, `buildDecodingTable`, `generateCanonicalCodes`, and the
legacy `decodeV5` / `decodeChunkV5` selected by `ctx["bsVersion"] < 6`, a value the Reader takes from
the stream header), `DecodeAlphabet` / `ReadVarInt` of EntropyUtils.go, `ExpGolombDecoder.DecodeByte`.
Core Lean only (linked into `kmodel`).

`Model/Huffman.lean` is the INVERSE of the encoder: one `none` for everything that cannot happen on
encoder output, one private zero-padded region per sub-stream.  This file is the decoder as the Go
code runs it on any bit string:

  * outcome classes as in `Model/AnsDec.lean`: `.err` = clean `return n, err`; `.eos` = the input
    bitstream ran out (panic of the bitstream); `.fault` = index / slice bounds in the decoder's own
    code (runtime panic); `.overrun` = `ReadArray(dst, count)` with `count > 8*len(dst)` (always a
    panic inside `DefaultInputBitStream.ReadArray`); `.fuel` = a loop of the MODEL ran out of fuel
    (never: Properties/C03_huffman.lean);
  * `this.buffer` is ONE array with its real length: version 6 reads the four sub-streams at
    `j*stride` with `ReadArray(this.buffer[j*stride:], szBits_j)` — a forged size makes sub-stream
    `j` run over the regions behind it, which the later `ReadArray`s then overwrite —, clears up to 8
    bytes behind each payload (with the `uint32` wrap of `szBits+7`), and `readState` reads 8 bytes
    at the absolute index, whatever is there: payload, cleared bytes, another region, or bytes of an
    EARLIER chunk or `Read` (the buffer persists; `St.buf` is the decoder object between calls);
  * `this.table`, `this.sizes`, `this.codes`, `this.alphabet` persist in Go but are not state:
    `buildDecodingTable` rewrites all 4096 entries before any is read, `readLengths` writes
    `sizes[s]` / `codes[s]` of every symbol it later reads, `alphabet[0:count]` is written by
    `DecodeAlphabet` in the same iteration.  `len(this.table)` = 4096 for ever (the constructors
    allocate it, nothing replaces it);
  * version 5 (`decodeChunkV5`): ONE sub-stream; the buffer is (re)allocated from the stream's VarInt:
    `sz + sz>>3` bytes with `sz = uint32(szBits+7)>>3`, rejected above `max(2*count, 1024)` (the repair,
    /repo 97146d4, of the forged-size allocation finding, see Properties/C03_huffman.lean);
    its main loop writes `block[n..n+3]` while `idx < sz-8` WITHOUT comparing `n` to `count`: it spills
    into the following chunks' bytes (kept: the output is an array here) and faults at the end of
    the caller's block; its data-driven loops run on fuel.

The registers (`state` uint64, `bits` / `bs` / `shift` uint8) are `Nat` with explicit `% 2^k`.
Reused unchanged: `readBits`, `readBytes`, `readVarInt`, `decodeAlphabet` (EntSmall: their only failure
is the end of the input), `egDecodeByte` (only failure: end of input), `generateCanonicalCodes`,
`fillTable`, `word64`, `rsShift`, `readState`, `look`, `subBs`, `decGroup`, `decSingles`, `decFragLoop`,
`decFragReads`, `toBytes` of `Model/Huffman.lean`.  (`Huffman.readState` computes `64 - shift` in `Nat`;
Go in `uint8`: they differ only for `shift > 64`, i.e. `bits > 56`, which no table with entries
1..12 produces; the V5 loop here uses the `uint8` form.)
-/
import Kanzi.Model.Huffman

namespace Kanzi.HufDec
open Kanzi.Bits Kanzi.EntSmall Kanzi.Huffman

/-! ### outcomes -/

inductive R (α : Type) where
  | ok (a : α)
  | err | eos | fault | overrun | fuel
deriving Repr

inductive Stop where
  | err | eos | fault | overrun | fuel
deriving Repr, DecidableEq

def R.bind {α β : Type} : R α → (α → R β) → R β
  | .ok a, f => f a
  | .err, _ => .err
  | .eos, _ => .eos
  | .fault, _ => .fault
  | .overrun, _ => .overrun
  | .fuel, _ => .fuel

def R.toOpt {α : Type} : R α → Option α
  | .ok a => some a
  | _ => none

def stopOf {α : Type} : R α → Stop
  | .err => .err
  | .eos => .eos
  | .overrun => .overrun
  | .fuel => .fuel
  | _ => .fault

/-! ### `readLengths`, `buildDecodingTable` -/

/-- the loop of `readLengths` (as `Huffman.readSizes`): end of input and "incorrect size" apart -/
def readSizesR : List Nat → Nat → Bits → List Nat → R (List Nat × Bits)
  | [], _, bs, sizes => .ok (sizes, bs)
  | s :: ss, cur, bs, sizes =>
    match egDecodeByte bs with
    | none => .eos
    | some (d, r) =>
      if (cur + d) % 256 = 0 ∨ (cur + d) % 256 > 12 then .err
      else readSizesR ss ((cur + d) % 256) r (sizes.set s ((cur + d) % 256))

/-- `readLengths()`.  `generateCanonicalCodes` answering `none` (size 0 or above 12, symbol above 255,
    repeated symbol: nothing `DecodeAlphabet` / the loop above let through) is kept as `.fault`. -/
def readLengthsR (bs : Bits) : R (RL × Bits) :=
  match decodeAlphabet bs with
  | none => .eos
  | some (a, r) =>
    if a.length = 0 then .ok (⟨[], List.replicate 256 8, List.replicate 256 0⟩, r)
    else
      (readSizesR a 2 r (List.replicate 256 8)).bind fun p =>
        match generateCanonicalCodes p.1 (List.replicate 256 0) a with
        | none => .fault
        | some (codes, ord) => .ok (⟨ord, p.1, codes⟩, p.2)

/-- the loop of `buildDecodingTable` (as `Huffman.buildTableLoop`): `return false` (`.err`) apart from
    the panics (negative shift count; `table[idx:end]` with `idx > end` after `uint16` wrap-around) -/
def buildTableLoopR (sizes codes : List Nat) : List Nat → Nat → List Nat → R (List Nat)
  | [], _, tbl => .ok tbl
  | s :: ss, length, tbl =>
    if max length (sizes.getD s 0) > 12 then .fault
    else if ((codes.getD s 0 <<< (12 - max length (sizes.getD s 0))) % 65536
              + 2 ^ (12 - max length (sizes.getD s 0))) % 65536 > 4096 then .err
    else if (codes.getD s 0 <<< (12 - max length (sizes.getD s 0))) % 65536
              > ((codes.getD s 0 <<< (12 - max length (sizes.getD s 0))) % 65536
                  + 2 ^ (12 - max length (sizes.getD s 0))) % 65536 then .fault
    else
      buildTableLoopR sizes codes ss (max length (sizes.getD s 0))
        (fillTable tbl ((codes.getD s 0 <<< (12 - max length (sizes.getD s 0))) % 65536)
          (((codes.getD s 0 <<< (12 - max length (sizes.getD s 0))) % 65536
              + 2 ^ (12 - max length (sizes.getD s 0))) % 65536)
          ((s <<< 8) ||| sizes.getD s 0))

def buildTableR (rl : RL) : R (List Nat) :=
  buildTableLoopR rl.sizes rl.codes rl.alphabet 0 (List.replicate 4096 7)

/-! ### arrays -/

/-- `dst[i ..] = l` -/
def writeAt : List Nat → Nat → Array Nat → Array Nat
  | [], _, arr => arr
  | b :: bs, i, arr => writeAt bs (i + 1) (arr.setIfInBounds i b)

/-- `for i := range dst[start:start+cnt] { = v }` -/
def setRange (start v : Nat) : Nat → Array Nat → Array Nat
  | 0, arr => arr
  | c + 1, arr => setRange start v c (arr.setIfInBounds (start + c) v)

/-! ### `decodeChunkV6` -/

/-- `this.bitstream.ReadArray(this.buffer[off:], sz)` -/
def loadAt (off sz : Nat) (buf : Array Nat) (bs : Bits) : R (Array Nat × Bits) :=
  if sz > 8 * (buf.size - off) then .overrun
  else if sz > bs.length then .eos
  else .ok (writeAt (toBytes ((sz + 7) / 8) (bs.take sz)) off buf, bs.drop sz)

/-- `if sz_j := idx_j + int((szBits+7)>>3); sz_j < idx_j+stride { clear(buffer[sz_j:min(sz_j+8, idx_j+stride)]) }`
    (`szBits+7` in `uint32`) -/
def clearAfter (off stride sz : Nat) (buf : Array Nat) : Array Nat :=
  if off + ((sz + 7) % 4294967296) / 8 < off + stride then
    setRange (off + ((sz + 7) % 4294967296) / 8) 0
      (min (off + ((sz + 7) % 4294967296) / 8 + 8) (off + stride) - (off + ((sz + 7) % 4294967296) / 8)) buf
  else buf

/-- every 8-byte read of `readState` for the sub-stream starting at `off` stays inside the buffer -/
def readsOkAt (tbl buf : Array Nat) (szFrag off : Nat) : Bool :=
  (decFragReads tbl buf szFrag szFrag ⟨0, off, 0⟩).all (fun i => decide (i + 8 ≤ buf.size))

/-- the four `ReadVarInt` -/
def read4 (bs : Bits) : R ((Nat × Nat × Nat × Nat) × Bits) :=
  match readVarInt bs with
  | none => .eos
  | some (z0, r0) =>
  match readVarInt r0 with
  | none => .eos
  | some (z1, r1) =>
  match readVarInt r1 with
  | none => .eos
  | some (z2, r2) =>
  match readVarInt r2 with
  | none => .eos
  | some (z3, r3) => .ok ((z0, z1, z2, z3), r3)

/-- the four `ReadArray` then the four `clear` -/
def load4 (z : Nat × Nat × Nat × Nat) (buf : Array Nat) (bs : Bits) : R (Array Nat × Bits) :=
  (loadAt 0 z.1 buf bs).bind fun a =>
  (loadAt (buf.size / 4) z.2.1 a.1 a.2).bind fun b =>
  (loadAt (2 * (buf.size / 4)) z.2.2.1 b.1 b.2).bind fun c =>
  (loadAt (3 * (buf.size / 4)) z.2.2.2 c.1 c.2).bind fun d =>
    .ok (clearAfter (3 * (buf.size / 4)) (buf.size / 4) z.2.2.2
          (clearAfter (2 * (buf.size / 4)) (buf.size / 4) z.2.2.1
            (clearAfter (buf.size / 4) (buf.size / 4) z.2.1
              (clearAfter 0 (buf.size / 4) z.1 d.1))), d.2)

/-- `decodeChunkV6(block, count)`: the `count` bytes, the buffer as the chunk leaves it, the input left.
    (The four sub-streams are decoded one after the other as in `Huffman.decodeChunk`: they share only
    the table and the buffer, both read-only at that point.) -/
def chunkV6 (tbl : Array Nat) (count : Nat) (buf : Array Nat) (bs : Bits) :
    R (List Nat × Array Nat × Bits) :=
  (read4 bs).bind fun z =>
  (load4 z.1 buf z.2).bind fun b =>
    if ¬ (readsOkAt tbl b.1 (count / 4) 0 ∧ readsOkAt tbl b.1 (count / 4) (buf.size / 4)
          ∧ readsOkAt tbl b.1 (count / 4) (2 * (buf.size / 4))
          ∧ readsOkAt tbl b.1 (count / 4) (3 * (buf.size / 4))) then .fault
    else
      match readBytes (count % 4) b.2 with
      | none => .eos
      | some (tail, q) =>
        .ok (decFragLoop tbl b.1 (count / 4) (count / 4) ⟨0, 0, 0⟩
              ++ decFragLoop tbl b.1 (count / 4) (count / 4) ⟨0, buf.size / 4, 0⟩
              ++ decFragLoop tbl b.1 (count / 4) (count / 4) ⟨0, 2 * (buf.size / 4), 0⟩
              ++ decFragLoop tbl b.1 (count / 4) (count / 4) ⟨0, 3 * (buf.size / 4), 0⟩ ++ tail, b.1, q)

/-! ### `decodeChunkV5` -/

/-- registers of `decodeChunkV5` and the caller's block (`out`, whole) -/
structure V5 where
  state : Nat
  idx : Nat
  bits : Nat
  n : Nat
  out : Array Nat

/-- `for idx < sz-8 { ... }` (Go `int`s: `idx + 8 < sz`).  `base` = `startChunk`, `rem` =
    `len(block[startChunk:])`.  Fuel: `n` grows by 4 per round and `block[n+3]` must exist. -/
def v5Main (tbl buf : Array Nat) (sz base rem : Nat) : Nat → V5 → R V5
  | 0, _ => .fuel
  | f + 1, s =>
    if ¬ (s.idx + 8 < sz) then .ok s
    else if s.idx + 8 > buf.size then .fault          -- `this.buffer[idx:idx+8]`
    else if s.n + 4 > rem then .fault                 -- `block[n+0]` .. `block[n+3]`
    else
      let sh := rsShift s.bits
      let st := ((s.state <<< sh) % 2 ^ 64) ||| (word64 buf s.idx >>> ((64 + 256 - sh) % 256))
      let b0 := (s.bits + sh + 256 - 12) % 256
      let v0 := look tbl st b0
      let b1 := subBs b0 v0
      let v1 := look tbl st b1
      let b2 := subBs b1 v1
      let v2 := look tbl st b2
      let b3 := subBs b2 v2
      let v3 := look tbl st b3
      let b4 := subBs b3 v3
      v5Main tbl buf sz base rem f
        ⟨st, s.idx + (sh >>> 3), (b4 + 12) % 256, s.n + 4,
         writeAt [(v0 >>> 8) % 256, (v1 >>> 8) % 256, (v2 >>> 8) % 256, (v3 >>> 8) % 256] (base + s.n) s.out⟩

/-- `for (bits < 12) && (idx < sz) { state = (state << 8) | buffer[idx]; idx++; bits += 8 }`: at most
    two rounds -/
def v5Refill (buf : Array Nat) (sz : Nat) : Nat → V5 → R V5
  | 0, s => if s.bits < 12 ∧ s.idx < sz then .fuel else .ok s
  | f + 1, s =>
    if s.bits < 12 ∧ s.idx < sz then
      if s.idx ≥ buf.size then .fault
      else v5Refill buf sz f
        ⟨((s.state <<< 8) % 2 ^ 64) ||| buf.getD s.idx 0, s.idx + 1, (s.bits + 8) % 256, s.n, s.out⟩
    else .ok s

/-- `for n < count { refill; if bits > 64 { return n, err }; val := table[...]; bits -= uint8(val);
    block[n] = byte(val >> 8); n++ }`; `k` = `count - n` -/
def v5Tail (tbl buf : Array Nat) (sz base : Nat) : Nat → V5 → R V5
  | 0, s => .ok s
  | k + 1, s =>
    (v5Refill buf sz 2 s).bind fun t =>
      if t.bits > 64 then .err
      else
        let v := if t.bits ≥ 12 then look tbl t.state (t.bits - 12)
                 else tbl.getD (((t.state <<< (12 - t.bits)) % 2 ^ 64) &&& 0xFFF) 0
        v5Tail tbl buf sz base k
          ⟨t.state, t.idx, subBs t.bits v, t.n + 1, t.out.setIfInBounds (base + t.n) ((v >>> 8) % 256)⟩

/-- `sz := int(szBits+7) >> 3` (`uint32` addition) -/
def v5Sz (szBits : Nat) : Nat := ((szBits + 7) % 4294967296) / 8

/-- `minLenBuf := max(sz+(sz>>3), 1024); if len(this.buffer) < minLenBuf { this.buffer = make(...) }` -/
def v5Alloc (szBits : Nat) (buf : Array Nat) : Array Nat :=
  if buf.size < max (v5Sz szBits + v5Sz szBits / 8) 1024 then
    Array.replicate (max (v5Sz szBits + v5Sz szBits / 8) 1024) 0
  else buf

def v5SizeAfter (szBits bz : Nat) : Nat :=
  if bz < max (v5Sz szBits + v5Sz szBits / 8) 1024 then max (v5Sz szBits + v5Sz szBits / 8) 1024 else bz

/-- the fuel of `v5Main` -/
def v5Fuel (rem : Nat) : Nat := rem / 4 + 2

/-- `decodeChunkV5(block[startChunk:], count)` after the two header bits and the VarInt
    (`szBits ≠ 0`): the block, the buffer, the input left -/
def chunkV5Body (tbl : Array Nat) (szBits count base rem : Nat) (out buf : Array Nat) (bs : Bits) :
    R (Array Nat × Array Nat × Bits) :=
  -- the two failures of `ReadArray(this.buffer, szBits)` first, so that the model does not build an
  -- array the call never fills (Go has allocated it by then: `v5SizeAfter` in the `Result`)
  if szBits > 8 * v5SizeAfter szBits buf.size then .overrun
  else if szBits > bs.length then .eos
  else
  (loadAt 0 szBits (v5Alloc szBits buf) bs).bind fun l =>
  (v5Main tbl l.1 (v5Sz szBits) base rem (v5Fuel rem) ⟨0, 0, 0, 0, out⟩).bind fun m =>
  (v5Tail tbl l.1 (v5Sz szBits) base (count - m.n) m).bind fun t =>
    .ok (t.out, l.1, l.2)

/-! ### the decoder object and `Read` -/

structure Params where
  chunkSize : Nat
  bsVersion : Nat
deriving Repr, DecidableEq

/-- the constructors: `chunkArg` = the optional argument of `NewHuffmanDecoder` (`ctxBsv` must be
    `none`); `ctxBsv = some v` = `NewHuffmanDecoderWithCtx` with `ctx["bsVersion"] = v` -/
def mkParams (chunkArg ctxBsv : Option Nat) : Option Params :=
  match ctxBsv with
  | some v => if chunkArg.isSome then none else some ⟨16384, v⟩
  | none =>
    match chunkArg with
    | none => some ⟨16384, 6⟩
    | some c => if c < 1024 ∨ c > 16384 then none else some ⟨c, 6⟩

/-- the mutable part of the decoder object that is ever read before being written -/
structure St where
  buf : Array Nat

def fresh : St := ⟨#[]⟩

inductive Cls where
  | ret (n : Nat) (err : Bool)
  | stop (s : Stop)
deriving Repr, DecidableEq

/-- one `Read`: `out` = `block[0:n]`; `st`, `rest` = the object and the input after the call (after
    `ret`); `bufSz` = `len(this.buffer)` when the call ended, HOWEVER it ended (the slice is only ever
    replaced by a longer one: this is the largest allocation made). -/
structure Result where
  cls : Cls
  out : List Nat
  st : St
  rest : Bits
  bufSz : Nat

inductive Step where
  | done (r : Result)
  | next (start : Nat) (out buf : Array Nat) (bs : Bits)

def noSt : St := ⟨#[]⟩

def outOf (out : Array Nat) (n : Nat) : List Nat := out.toList.take n

/-- body of the loop of `decodeV6`; `start` = `startChunk`, `total` = `len(block)` -/
def stepV6 (p : Params) (start total : Nat) (out buf : Array Nat) (bs : Bits) : Step :=
  let len := min p.chunkSize (total - start)
  let bz := buf.size
  if len < 32 then
    match readBytes len bs with
    | none => .done ⟨.stop .eos, outOf out start, noSt, bs, bz⟩
    | some (c, r) => .next (start + len) (writeAt c start out) buf r
  else
    match readLengthsR bs with
    | .ok (rl, r) =>
      if rl.alphabet.length = 0 then .done ⟨.ret start false, outOf out start, ⟨buf⟩, r, bz⟩
      else if rl.alphabet.length = 1 then
        .next (start + len) (setRange start (rl.alphabet.headD 0 % 256) len out) buf r
      else
        match buildTableR rl with
        | .ok tbl =>
          match chunkV6 tbl.toArray len buf r with
          | .ok c => .next (start + len) (writeAt c.1 start out) c.2.1 c.2.2
          | .err => .done ⟨.ret start true, outOf out start, noSt, bs, bz⟩
          | e => .done ⟨.stop (stopOf e), outOf out start, noSt, bs, bz⟩
        | .err => .done ⟨.ret start true, outOf out start, noSt, bs, bz⟩
        | e => .done ⟨.stop (stopOf e), outOf out start, noSt, bs, bz⟩
    | .err => .done ⟨.ret start true, outOf out start, noSt, bs, bz⟩
    | e => .done ⟨.stop (stopOf e), outOf out start, noSt, bs, bz⟩

/-- body of the loop of `decodeV5` -/
def stepV5 (p : Params) (start total : Nat) (out buf : Array Nat) (bs : Bits) : Step :=
  let len := min p.chunkSize (total - start)
  let bz := buf.size
  match readLengthsR bs with
  | .ok (rl, r) =>
    if rl.alphabet.length = 0 then .done ⟨.ret start false, outOf out start, ⟨buf⟩, r, bz⟩
    else if rl.alphabet.length = 1 then
      .next (start + len) (setRange start (rl.alphabet.headD 0 % 256) len out) buf r
    else
      match buildTableR rl with
      | .ok tbl =>
        match readBits 2 r with
        | none => .done ⟨.stop .eos, outOf out start, noSt, bs, bz⟩
        | some (ns, r1) =>
          if ns ≠ 0 then .done ⟨.ret start true, outOf out start, noSt, bs, bz⟩
          else
            match readVarInt r1 with
            | none => .done ⟨.stop .eos, outOf out start, noSt, bs, bz⟩
            | some (szBits, r2) =>
              if szBits = 0 then .next (start + len) out buf r2
              else if v5Sz szBits > max (2 * len) 1024 then
                -- `if sz > max(2*count, 1024) { return 0, "incorrect chunk size" }` (repair of the
                -- forged-size allocation finding): before any allocation
                .done ⟨.ret start true, outOf out start, noSt, bs, bz⟩
              else
                match chunkV5Body tbl.toArray szBits len start (total - start) out buf r2 with
                | .ok c => .next (start + len) c.1 c.2.1 c.2.2
                | .err => .done ⟨.ret start true, outOf out start, noSt, bs, v5SizeAfter szBits bz⟩
                | e => .done ⟨.stop (stopOf e), outOf out start, noSt, bs, v5SizeAfter szBits bz⟩
      | .err => .done ⟨.ret 0 true, [], noSt, bs, bz⟩        -- `return 0, errors.New(...)`
      | e => .done ⟨.stop (stopOf e), outOf out start, noSt, bs, bz⟩
  | .err => .done ⟨.ret start true, outOf out start, noSt, bs, bz⟩
  | e => .done ⟨.stop (stopOf e), outOf out start, noSt, bs, bz⟩

/-- `for startChunk < end` -/
def readLoop (p : Params) (total : Nat) : Nat → Nat → Array Nat → Array Nat → Bits → Result
  | 0, start, out, buf, bs => ⟨.stop .fuel, outOf out start, ⟨buf⟩, bs, buf.size⟩
  | fuel + 1, start, out, buf, bs =>
    if start ≥ total then ⟨.ret total false, outOf out total, ⟨buf⟩, bs, buf.size⟩
    else
      match (if p.bsVersion < 6 then stepV5 p start total out buf bs else stepV6 p start total out buf bs) with
      | .done r => r
      | .next s o b r => readLoop p total fuel s o b r

/-- the fuel of `readLoop`: one round per chunk, one more test -/
def chunksOf (chunkSize count : Nat) : Nat := count / chunkSize + 2

/-- `if len(this.buffer) < 2*this.chunkSize { this.buffer = make([]byte, 2*this.chunkSize) }` -/
def v6Alloc (chunkSize : Nat) (buf : Array Nat) : Array Nat :=
  if buf.size < 2 * chunkSize then Array.replicate (2 * chunkSize) 0 else buf

/-- `HuffmanDecoder.Read(block)` with `len(block) = count` (non nil, zero filled) on the object `s` -/
def read (p : Params) (s : St) (bs : Bits) (count : Nat) : Result :=
  if count = 0 then ⟨.ret 0 false, [], s, bs, s.buf.size⟩
  else
    readLoop p count (chunksOf p.chunkSize count) 0 (Array.replicate count 0)
      (if p.bsVersion < 6 then s.buf else v6Alloc p.chunkSize s.buf) bs

end Kanzi.HufDec
