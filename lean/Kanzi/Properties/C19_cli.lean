/-
C19 (partial) — command-line tool: file safety of one file task.
Property theorems only; the model is `Kanzi/Model/Cli.lean` (effects of `app.openOutputFile`,
`app.fileCompressTask.call`, `app.fileDecompressTask.call`), proofs in `Kanzi/Proofs/Cli.lean`.
Tie to /repo: the `cli` stream projects `strace` of the real binary onto `Effect`s; the projection
must be accepted by `cliAccepts` (compared with the harness's own check of the same order), and
the tree / refusal / SIGKILL oracles of that stream observe the real file system.
Not modelled: kernel durability (no fsync: power loss is out of scope, SIGKILL is not), the
directory walker, argument parsing, stdin/stdout targets.
-/
import Kanzi.Model.Cli
import Kanzi.Proofs.Cli

namespace Kanzi.C19
open Kanzi.Cli

/-- Without `force`, an existing destination makes the exclusive open fail and nothing else
happens (no effect at all: no file is created, truncated, written or removed).  With `force`, a
destination that is the source itself is refused before the truncating open. -/
theorem C19_no_clobber (t : Task) (fs : FS) :
    (t.force = false → (fs t.out).isSome → t.trace fs = []) ∧
    (t.force = true → t.out = t.inp → t.trace fs = []) := by
  constructor <;> intro h1 h2 <;> simp [Task.trace, h1, h2]

/-- No effect of a task changes the source, except the `unlink` of a `--rm` run, which is the last
effect: after every strict prefix of the trace (every prefix when `remove = false`) the source
path holds its original content. -/
theorem C19_input_untouched (t : Task) (fs : FS) (hio : t.inp ≠ t.out) (k : Nat)
    (hk : k < (t.trace fs).length ∨ t.remove = false) :
    (exec t.inp t.out ⟨fs, false⟩ ((t.trace fs).take k)).fs t.inp = fs t.inp := by
  refine acc_src_untouched hio (fs t.inp) _ .start _ ((cliAccepts_eq _).symm.trans (trace_accepted t fs)) rfl rfl k ?_
  rcases hk with hk | hk
  · exact Or.inl hk
  · refine Or.inr ?_
    unfold Task.trace
    split <;> simp [hk]

/-- `--rm` is crash safe: for EVERY crash point `k` (the effects after the first `k` are lost),
either the source still has its original content, or the destination holds the complete stream
(all chunks, in order) and its descriptor has been closed. -/
theorem C19_remove_safe (t : Task) (fs : FS) (hio : t.inp ≠ t.out) (k : Nat) :
    let s := exec t.inp t.out ⟨fs, false⟩ ((t.trace fs).take k)
    s.fs t.inp = fs t.inp ∨ (s.fs t.out = some t.chunks ∧ s.outOpen = false) := by
  intro s
  by_cases hne : t.trace fs = []
  · left; simp [s, hne, exec]
  · have h := acc_prefix_safe hio (fs t.inp) (t.trace fs) .start ⟨fs, false⟩
      ((cliAccepts_eq _).symm.trans (trace_accepted t fs)) (fun _ => rfl) (by simp [Ph.outDone]) k
    rwa [trace_output t fs hio hne] at h

/-- The acceptor used on the strace projection of real runs is sound: if it accepts a trace then
after every prefix (crash point) the source is intact or the destination already holds exactly what
it holds at the end of the trace and is closed; and the source is untouched before the final unlink. -/
theorem C19_acceptor_sound (i o : Path) (hio : i ≠ o) (fs : FS) (tr : List Effect)
    (h : cliAccepts tr = true) (k : Nat) :
    let s := exec i o ⟨fs, false⟩ (tr.take k)
    (s.fs i = fs i ∨ (s.fs o = (exec i o ⟨fs, false⟩ tr).fs o ∧ s.outOpen = false)) ∧
    (k < tr.length → s.fs i = fs i) := by
  have ha := (cliAccepts_eq tr).symm.trans h
  exact ⟨acc_prefix_safe hio (fs i) tr .start ⟨fs, false⟩ ha (fun _ => rfl) (by simp [Ph.outDone]) k,
    fun hk => acc_src_untouched hio (fs i) tr .start ⟨fs, false⟩ ha rfl rfl k (Or.inl hk)⟩

/-- the model's own traces are accepted (so the acceptor is not vacuous) -/
theorem C19_trace_accepted (t : Task) (fs : FS) : cliAccepts (t.trace fs) = true := trace_accepted t fs

/-- hypotheses are satisfiable, and the order removed by the fix of finding F14 (decompression
unlinked the source before closing the destination) is rejected at the unlink -/
example : (Task.mk "a" "a.knz" false true [3, 4]).trace (fun _ => none) =
    [.openWr .out true, .openRd .inp, .write .out 3, .write .out 4, .close .out, .close .inp, .unlink .inp] := by
  decide
example : accRun .start 0 [.openWr .out true, .openRd .inp, .write .out 3, .close .inp, .unlink .inp, .close .out] = some 4 := by
  decide

end Kanzi.C19
