/-
C13 for the Lempel-Ziv-Predict codec `transform.LZPCodec` - property theorems only; proofs in
`Kanzi/Proofs/LZP.lean`, `LZPRound.lean`, `LZPTotal.lean`.  The model (`Kanzi/Model/LZP.lean`) mirrors
v2/transform/LZCodec.go, type LZPCodec (Forward, findMatch, Inverse, MaxEncodedLen, the uint32 hash of
the last four bytes, the 65536-entry table of last positions) and is tied to /repo by the `lzp`
correspondence stream (byte-exact outputs, error classes and panic indices).

Conventions: a block is a `List Nat` of byte values; the last argument of `lzpForward` / `lzpInverse`
is `len(dst)` of the Go call; `.ok t` is `dst[0:written]` with a nil error, `.err c` a non-nil error
(Forward declines / Inverse fails), `.fault kind idx len` a Go run-time panic `index out of range
[idx] with length len` (or exhausted model fuel / a read of a byte Inverse has not written yet, both
proved unreachable).  The first argument of `lzpInverse` is `isBsVersion3` (ctx `bsVersion` < 4, minimum
match 96); the compressor writes bitstream version 6, for which it is `false`, and Forward always codes
with the minimum match 64.  "Input left untouched on decline" is not a theorem here (values are
immutable); it is an oracle of the stream on the real code.
-/
import Kanzi.Model.LZP
import Kanzi.Proofs.LZPTotal

namespace Kanzi.C13
open Kanzi.LZP

/-- C13_lzp: for every block and every destination at least as large as advertised by
`MaxEncodedLen`: if Forward succeeds, its output is at most `MaxEncodedLen(len)` bytes long and Inverse
(current bitstream version) into ANY destination of at least the original block length restores the
block exactly.  (No assumption on the byte values is needed.) -/
theorem C13_lzp (b t : List Nat) (dstLen : Nat) (hdst : lzpMaxEncodedLen b.length ≤ dstLen)
    (h : lzpForward b dstLen = .ok t) :
    t.length ≤ lzpMaxEncodedLen b.length ∧ ∀ n, b.length ≤ n → lzpInverse false t n = .ok b :=
  ⟨(lzp_roundtrip b t dstLen hdst h).1, fun n hn => ((lzp_roundtrip b t dstLen hdst h).2.2.2 n hn).1⟩

/-- C13_lzp_sync: encoder and decoder run in lock step.  For every accepted block, the sequence of
(position in the plain block, 32-bit context, whole hash table) at the head of every loop iteration of
Inverse (working on Forward's output) equals the sequence at the head of every iteration of the two
loops of Forward: both sides make the same predictions from the same table at the same positions. -/
theorem C13_lzp_sync (b t : List Nat) (dstLen : Nat) (hdst : lzpMaxEncodedLen b.length ≤ dstLen)
    (h : lzpForward b dstLen = .ok t) :
    ∀ n, b.length ≤ n → lzpInvTrace false t n = lzpFwdTrace b dstLen :=
  fun n hn => ((lzp_roundtrip b t dstLen hdst h).2.2.2 n hn).2

/-- the two ways `LZPCodec.Inverse` can panic: a store at `dst[len(dst)]`, a read at `src[len(src)]` -/
def InverseFault (srcLen dstLen : Nat) (r : Res) : Prop :=
  r = .fault "dst-index" dstLen dstLen ∨ r = .fault "src-index" srcLen srcLen

/-- C13_lzp_total: Forward never indexes out of range (and the model never runs out of fuel) on ANY
block into a destination of ANY length (it checks `len(dst) ≥ MaxEncodedLen` itself).  Inverse, for
either bitstream version, on ANY input (forged, truncated) into a destination of ANY size returns at
most `len(dst)` bytes, or a clean error, or panics in one of exactly two ways (`InverseFault`; both are
reachable, see the examples below); on every output of Forward and every destination at least as large
as the original block it does not panic (`C13_lzp`). -/
theorem C13_lzp_total :
    (∀ (b : List Nat) (dstLen : Nat) (k : String) (x l : Nat), lzpForward b dstLen ≠ .fault k x l) ∧
    (∀ (v3 : Bool) (src : List Nat) (n : Nat),
      (∃ o, lzpInverse v3 src n = .ok o ∧ o.length ≤ n) ∨ (∃ e, lzpInverse v3 src n = .err e) ∨
        InverseFault src.length n (lzpInverse v3 src n)) :=
  ⟨fun b dstLen k x l => lzpForward_ne_fault b dstLen k x l, fun v3 src n => lzpInverse_cases v3 src n⟩

/-- C13_lzp_bytes: the encoded block consists of byte values -/
theorem C13_lzp_bytes (b t : List Nat) (dstLen : Nat) (hb : ∀ x ∈ b, x < 256)
    (hdst : lzpMaxEncodedLen b.length ≤ dstLen) (h : lzpForward b dstLen = .ok t) : ∀ y ∈ t, y < 256 :=
  (lzp_roundtrip b t dstLen hdst h).2.2.1 hb

/-- a successful Forward really compresses: the output is strictly shorter than the (non-empty) block -/
theorem C13_lzp_shorter (b t : List Nat) (dstLen : Nat) (hdst : lzpMaxEncodedLen b.length ≤ dstLen)
    (hne : b ≠ []) (h : lzpForward b dstLen = .ok t) : t.length < b.length :=
  (lzp_roundtrip b t dstLen hdst h).2.1 hne

/-! Observations (kernel-checked): the panics of Inverse on forged input are real.  `0,0,0,0` gives
context 0; the literal `0` at position 4 keeps the context 0 and stores position 4 in the table, so the
next token has a prediction. -/

/-- a destination shorter than four bytes: `dst[2]` with `len(dst) = 2` -/
example : lzpInverse false [1, 2, 3, 4] 2 = .fault "dst-index" 2 2 := by decide +kernel
/-- more literals than the destination can hold -/
example : lzpInverse false [1, 2, 3, 4, 5] 4 = .fault "dst-index" 4 4 := by decide +kernel
/-- the input ends with a match flag for which a prediction exists: `src[6]` with `len(src) = 6` -/
example : lzpInverse false [0, 0, 0, 0, 0, 0xFC] 100 = .fault "src-index" 6 6 := lzpInverse_fault_src 100 (by omega)
/-- an escaped flag when the destination is full -/
example : lzpInverse false [0, 0, 0, 0, 0, 0xFC, 0xFF] 5 = .fault "dst-index" 5 5 := lzpInverse_fault_esc
example : lzpInverse false [1, 2, 3] 10 = .err "small" := by decide +kernel

/-! Satisfiability of the premise of `C13_lzp` (evaluated by the compiler, not by the kernel: the kernel
needs minutes for the 65536-entry table; the `lzp` stream exercises thousands of accepted blocks). -/
#guard lzpForward (List.replicate 200 7) 216 = .ok [7, 7, 7, 7, 7, 252, 128, 7, 7, 7]
#guard lzpInverse false [7, 7, 7, 7, 7, 252, 128, 7, 7, 7] 200 = .ok (List.replicate 200 7)
#guard lzpForward (List.replicate 200 7) 215 = .err "dst"
#guard lzpForward (List.replicate 127 7) 500 = .err "small"
#guard lzpForward ((List.range 200).map (fun i => (i * i + 3 * i) % 251)) 216 = .err "skip"
-- bitstream version below 4 (minimum match 96) does not invert what Forward (minimum match 64) wrote;
-- clean failures of Inverse: match longer than the destination, truncated length
#guard lzpInverse false [0, 0, 0, 0, 0, 0xFC, 7] 70 = .err "fail"
#guard lzpInverse false [0, 0, 0, 0, 0, 0xFC, 0xFE] 1000 = .err "fail"
#guard lzpInverse true [7, 7, 7, 7, 7, 252, 128, 7, 7, 7] 200 = .err "fail"

end Kanzi.C13
