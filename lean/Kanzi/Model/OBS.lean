/-
Model of `bitstream.DefaultOutputBitStream` (v2/bitstream/DefaultOutputBitStream.go), as repaired by
the "fix:" commits for findings F-obs-1 (`Close` restores `written` when its flush fails) and
F-obs-2 (`push` refuses a closed stream before touching the buffer).  Core Lean only (linked into
`kmodel`).

The state mirrors the Go struct field by field (`closed`, `written`, `position`, `availBits`,
`current`, `buffer`) plus the sink behind `os io.WriteCloser`: the bytes accepted so far, the number
of `Write` calls issued and a failure plan (`failAt k = true`: the k-th `Write` call, 1-based,
returns an error and accepts nothing).  `buffer` is a list of fixed length (`len(this.buffer)`);
writing into it is `copyInto` (= Go `copy(buf[pos:], src)`), bytes at index ≥ `position` are stale.

Every operation returns the new state AND an outcome; the state returned together with a
`panic`/`err` outcome is the state the Go object is left in when the panic unwinds (e.g. `push`
has already stored the word and advanced `position` when its `flush` fails; `WriteBit` does not
reset `current`/`availBits` in that case).  Go run-time panics (slice bounds) are the class `oob`.
Loops are structural recursion on the input list or on explicit fuel; `fuel` exhaustion is the
outcome `panic fuel`, which the proofs show unreachable.
-/
namespace Kanzi.OBS

abbrev Byte := BitVec 8

inductive PanicClass where
  | closed | invalidCount | io | oob | fuel
  deriving DecidableEq, Repr

inductive Outcome where
  | ok
  | err
  | panic (c : PanicClass)
  deriving DecidableEq, Repr

structure St where
  closed : Bool
  written : Int
  position : Nat
  availBits : Nat
  current : BitVec 64
  buffer : List Byte
  sink : List Byte
  sinkCalls : Nat
  failAt : Nat → Bool

/-- `NewDefaultOutputBitStream(stream, bs)` (the constructor's parameter checks are not part of the
    model: Go refuses `bs < 1024`, `bs > 2^29`, `bs % 8 ≠ 0`) -/
def init (bs : Nat) (failAt : Nat → Bool) : St :=
  { closed := false, written := 0, position := 0, availBits := 64, current := 0,
    buffer := List.replicate bs 0, sink := [], sinkCalls := 0, failAt := failAt }

/-- `binary.BigEndian.PutUint64` -/
def wordBytes (w : BitVec 64) : List Byte :=
  [(w >>> 56).setWidth 8, (w >>> 48).setWidth 8, (w >>> 40).setWidth 8, (w >>> 32).setWidth 8,
   (w >>> 24).setWidth 8, (w >>> 16).setWidth 8, (w >>> 8).setWidth 8, w.setWidth 8]

/-- `binary.BigEndian.Uint64(l)` on a slice with at least 8 bytes (callers check): the
    concatenation of the first eight bytes, most significant first -/
def be64 (l : List Byte) : BitVec 64 :=
  (l.getD 0 0 ++ l.getD 1 0 ++ l.getD 2 0 ++ l.getD 3 0 ++ l.getD 4 0 ++ l.getD 5 0 ++
    l.getD 6 0 ++ l.getD 7 0 : BitVec 64)

/-- Go `copy(buf[pos:], src)` for `pos ≤ len(buf)`: overwrites `min(len(buf)-pos, len(src))` bytes
    starting at index `pos`; the length of `buf` never changes
    (= `buf.take pos ++ src.take (buf.length - pos) ++ buf.drop (pos + src.length)`, see
    `Kanzi.OBS.copyInto_eq` in the proofs) -/
def copyInto : List Byte → Nat → List Byte → List Byte
  | [], _, _ => []
  | b :: bs, 0, [] => b :: bs
  | _ :: bs, 0, x :: xs => x :: copyInto bs 0 xs
  | b :: bs, p + 1, src => b :: copyInto bs p src

/-- `l.length < n` for `n ≥ 1`, in time O(n) (the slice-bounds checks of the word loops) -/
def lenLt (l : List Byte) (n : Nat) : Bool := (l.drop (n - 1)).isEmpty

/-- `flush()`; outcome `ok`, `panic closed` ("Stream closed" error) or `panic io` (sink error) -/
def flush (s : St) : St × Outcome :=
  if s.closed then (s, .panic .closed)
  else if s.position > 0 then
    if s.failAt (s.sinkCalls + 1) then ({ s with sinkCalls := s.sinkCalls + 1 }, .panic .io)
    else ({ s with sinkCalls := s.sinkCalls + 1, sink := s.sink ++ s.buffer.take s.position,
                   written := s.written + 8 * (s.position : Int), position := 0 }, .ok)
  else (s, .ok)

/-- `push(val)` -/
def push (s : St) (w : BitVec 64) : St × Outcome :=
  if s.closed then (s, .panic .closed)
  else if s.buffer.length < s.position + 8 then (s, .panic .oob)
  else if s.buffer.length ≤ s.position + 8 + 8 then
    flush { s with buffer := copyInto s.buffer s.position (wordBytes w), position := s.position + 8 }
  else ({ s with buffer := copyInto s.buffer s.position (wordBytes w), position := s.position + 8 }, .ok)

def bitWord (b : Bool) : BitVec 64 := if b then 1#64 else 0#64

/-- `WriteBit(bit)` (the model takes `bit&1`) -/
def writeBit (s : St) (b : Bool) : St × Outcome :=
  if s.availBits ≤ 1 then
    let p := push s (s.current ||| bitWord b)
    match p.2 with
    | .ok => ({ p.1 with current := 0, availBits := 64 }, .ok)
    | o => (p.1, o)
  else
    ({ s with availBits := s.availBits - 1,
              current := s.current ||| (bitWord b <<< (s.availBits - 1)) }, .ok)

/-- the merged accumulator of `WriteBits` -/
def merge (cur v : BitVec 64) (avail n : Nat) : BitVec 64 :=
  cur ||| ((v <<< (64 - n)) >>> (64 - avail))

/-- `WriteBits(value, count)`; `count = 0` is accepted by the Go code (no panic) -/
def writeBits (s : St) (v : BitVec 64) (n : Nat) : St × Outcome :=
  if n > 64 then (s, .panic .invalidCount)
  else if n ≥ s.availBits then
    let p := push { s with current := merge s.current v s.availBits n } (merge s.current v s.availBits n)
    match p.2 with
    | .ok => ({ p.1 with current := v <<< (64 - (n - s.availBits)),
                         availBits := 64 - (n - s.availBits) }, .ok)
    | o => (p.1, o)
  else ({ s with current := merge s.current v s.availBits n, availBits := s.availBits - n }, .ok)

/-- loop state of `WriteArray`: stream, `bits[start:]`, `remaining`, outcome so far -/
structure LS where
  st : St
  rest : List Byte
  rem : Nat
  out : Outcome

/-- `for (this.availBits != 64) && (remaining >= 8) { WriteBits(bits[start], 8) … }` (`untilWord`)
    and `for remaining >= 8 { WriteBits(bits[start], 8) … }` -/
def byteLoop (untilWord : Bool) : St → List Byte → Nat → LS
  | s, [], rem =>
    if (untilWord && s.availBits == 64) || rem < 8 then ⟨s, [], rem, .ok⟩
    else ⟨s, [], rem, .panic .oob⟩
  | s, b :: tl, rem =>
    if (untilWord && s.availBits == 64) || rem < 8 then ⟨s, b :: tl, rem, .ok⟩
    else
      match (writeBits s (b.setWidth 64) 8).2 with
      | .ok => byteLoop untilWord (writeBits s (b.setWidth 64) 8).1 tl (rem - 8)
      | o => ⟨(writeBits s (b.setWidth 64) 8).1, b :: tl, rem, o⟩

/-- one round of the bulk copy: `copy(buffer[position:], bits[start:start+n]); position = maxPos; flush()`
    with `n = maxPos - position` -/
def bulkStep (s : St) (rest : List Byte) : St × Outcome :=
  flush { s with buffer := copyInto s.buffer s.position (rest.take (s.buffer.length - 8 - s.position)),
                 position := s.buffer.length - 8 }

/-- `for remaining>>3 >= maxPos-this.position { copy …; this.position = maxPos; flush() }` -/
def bulkLoop : Nat → St → List Byte → Nat → LS
  | 0, s, rest, rem => ⟨s, rest, rem, .panic .fuel⟩
  | f + 1, s, rest, rem =>
    if s.buffer.length - 8 < s.position then ⟨s, rest, rem, .panic .oob⟩
    else if rem / 8 < s.buffer.length - 8 - s.position then ⟨s, rest, rem, .ok⟩
    else if rest.length < s.buffer.length - 8 - s.position then ⟨s, rest, rem, .panic .oob⟩
    else
      match (bulkStep s rest).2 with
      | .ok => bulkLoop f (bulkStep s rest).1 (rest.drop (s.buffer.length - 8 - s.position))
                 (rem - 8 * (s.buffer.length - 8 - s.position))
      | o => ⟨(bulkStep s rest).1, rest.drop (s.buffer.length - 8 - s.position),
              rem - 8 * (s.buffer.length - 8 - s.position), o⟩

/-- consecutive `PutUint64(buffer[pos+8i:], w_i)`; `false` = slice bounds panic at some word -/
def putWords : List Byte → Nat → List (BitVec 64) → List Byte × Bool
  | buf, _, [] => (buf, true)
  | buf, pos, w :: ws =>
    if buf.length < pos + 8 then (buf, false)
    else putWords (copyInto buf pos (wordBytes w)) (pos + 8) ws

/-- flush of the 256-bit loop: `if this.position >= len(this.buffer)-32 { flush() }` -/
def flush32 (s : St) : St × Outcome :=
  if s.buffer.length ≤ s.position + 32 then flush s else (s, .ok)

/-- the four words stored by one round of the 256-bit loop -/
def words4 (cur : BitVec 64) (a : Nat) (rest : List Byte) : List (BitVec 64) :=
  [cur,
   (be64 rest <<< a) ||| (be64 (rest.drop 8) >>> (64 - a)),
   (be64 (rest.drop 8) <<< a) ||| (be64 (rest.drop 16) >>> (64 - a)),
   (be64 (rest.drop 16) <<< a) ||| (be64 (rest.drop 24) >>> (64 - a))]

/-- one round of the 256-bit loop (a = availBits at loop entry, r = 64 − a); `rest` has ≥ 32 bytes -/
def word4Step (a : Nat) (s : St) (rest : List Byte) : St × Outcome :=
  let cur := s.current ||| (be64 rest >>> (64 - a))
  let fr := flush32 { s with current := cur }
  match fr.2 with
  | .ok =>
    let pw := putWords fr.1.buffer fr.1.position (words4 cur a rest)
    if pw.2 then
      ({ fr.1 with buffer := pw.1, current := be64 (rest.drop 24) <<< a, availBits := 64,
                   position := fr.1.position + 32 }, .ok)
    else ({ fr.1 with buffer := pw.1 }, .panic .oob)
  | o => (fr.1, o)

/-- `for remaining >= 256 { … }` -/
def word4Loop (a : Nat) : Nat → St → List Byte → Nat → LS
  | 0, s, rest, rem => ⟨s, rest, rem, .panic .fuel⟩
  | f + 1, s, rest, rem =>
    if rem < 256 then ⟨s, rest, rem, .ok⟩
    else if lenLt rest 32 then ⟨s, rest, rem, .panic .oob⟩
    else
      match (word4Step a s rest).2 with
      | .ok => word4Loop a f (word4Step a s rest).1 (rest.drop 32) (rem - 256)
      | o => ⟨(word4Step a s rest).1, rest, rem, o⟩

/-- one round of the 64-bit loop: `push(current | val>>r); availBits = 64; current = val << a` -/
def wordStep (a : Nat) (s : St) (rest : List Byte) : St × Outcome :=
  let p := push s (s.current ||| (be64 rest >>> (64 - a)))
  match p.2 with
  | .ok => ({ p.1 with availBits := 64, current := be64 rest <<< a }, .ok)
  | o => (p.1, o)

/-- `for remaining >= 64 { … }` -/
def wordLoop (a : Nat) : Nat → St → List Byte → Nat → LS
  | 0, s, rest, rem => ⟨s, rest, rem, .panic .fuel⟩
  | f + 1, s, rest, rem =>
    if rem < 64 then ⟨s, rest, rem, .ok⟩
    else if lenLt rest 8 then ⟨s, rest, rem, .panic .oob⟩
    else
      match (wordStep a s rest).2 with
      | .ok => wordLoop a f (wordStep a s rest).1 (rest.drop 8) (rem - 64)
      | o => ⟨(wordStep a s rest).1, rest, rem, o⟩

/-- `r := (remaining >> 6) << 3; if r > 0 { copy(buffer[position:], bits[start:start+r]); … }` -/
def tailCopy (b : LS) : LS :=
  if b.rem / 64 * 8 > 0 then
    ⟨{ b.st with buffer := copyInto b.st.buffer b.st.position (b.rest.take (b.rem / 64 * 8)),
                 position := b.st.position + b.rem / 64 * 8 },
     b.rest.drop (b.rem / 64 * 8), b.rem - 8 * (b.rem / 64 * 8), .ok⟩
  else b

/-- the byte-aligned branch of `WriteArray` -/
def alignedPart (s : St) (bytes : List Byte) (count : Nat) : LS :=
  let a := byteLoop true s bytes count
  match a.out with
  | .ok =>
    let b := bulkLoop (a.rest.length + 2) a.st a.rest a.rem
    match b.out with
    | .ok => tailCopy b
    | _ => b
  | _ => a

/-- the unaligned branch of `WriteArray` (`remaining >= 64` case) -/
def unalignedPart (s : St) (bytes : List Byte) (count : Nat) : LS :=
  let c := word4Loop s.availBits (count / 256 + 1) s bytes count
  match c.out with
  | .ok =>
    let d := wordLoop s.availBits (c.rem / 64 + 1) c.st c.rest c.rem
    match d.out with
    | .ok => ⟨{ d.st with availBits := s.availBits }, d.rest, d.rem, .ok⟩
    | _ => d
  | _ => c

/-- the part of `WriteArray` before "Last bytes" -/
def arrayMain (s : St) (bytes : List Byte) (count : Nat) : LS :=
  if s.availBits % 8 = 0 then alignedPart s bytes count
  else if count ≥ 64 then unalignedPart s bytes count
  else ⟨s, bytes, count, .ok⟩

/-- "Last bytes": `for remaining >= 8 {…}` then `if remaining > 0 { WriteBits(bits[start]>>(8-remaining), remaining) }` -/
def arrayTail (l : LS) : St × Outcome :=
  let e := byteLoop false l.st l.rest l.rem
  match e.out with
  | .ok =>
    if e.rem > 0 then
      match e.rest with
      | [] => (e.st, .panic .oob)
      | b :: _ => writeBits e.st (b.setWidth 64 >>> (8 - e.rem)) e.rem
    else (e.st, .ok)
  | o => (e.st, o)

/-- `WriteArray(bits, count)` -/
def writeArray (s : St) (bytes : List Byte) (count : Nat) : St × Outcome :=
  if s.closed then (s, .panic .closed)
  else if count > 8 * bytes.length then (s, .panic .invalidCount)
  else
    match (arrayMain s bytes count).out with
    | .ok => arrayTail (arrayMain s bytes count)
    | o => ((arrayMain s bytes count).st, o)

/-- the padding loop of `Close`: `for shift := 56; availBits < 64; shift -= 8 { buffer[position] = byte(current>>shift); … }` -/
def padLoop : Nat → Nat → St → St × Outcome
  | 0, _, s => (s, .ok)
  | f + 1, shift, s =>
    if s.availBits < 64 then
      if s.buffer.length ≤ s.position then (s, .panic .oob)
      else padLoop f (shift - 8)
        { s with buffer := copyInto s.buffer s.position [(s.current >>> shift).setWidth 8],
                 position := s.position + 1, availBits := s.availBits + 8 }
    else (s, .ok)

/-- `Close()`: `ok` (nil), `err` (flush error returned, the four saved fields restored), or a
    run-time panic of the padding loop (possible only after an earlier failure left `position = len`) -/
def close (s : St) : St × Outcome :=
  if s.closed then (s, .ok)
  else
    let p := padLoop 8 56 s
    match p.2 with
    | .ok =>
      let fr := flush { p.1 with written := p.1.written - ((p.1.availBits : Int) - 64), availBits := 64 }
      match fr.2 with
      | .ok =>
        ({ fr.1 with closed := true, position := 0, availBits := 0, written := fr.1.written - 64,
                     buffer := List.replicate 8 0 }, .ok)
      | _ =>
        ({ fr.1 with availBits := s.availBits, position := s.position, current := s.current,
                     written := s.written }, .err)
    | o => (p.1, o)

/-- `Written()` before the conversion to `uint64` -/
def writtenOf (s : St) : Int :=
  s.written + 8 * (s.position : Int) + (64 - (s.availBits : Int))

/-- `Written()` as returned (two's complement wrap of a negative count) -/
def writtenU64 (s : St) : Nat := (writtenOf s % (2 ^ 64 : Int)).toNat

/-- operations of a program -/
inductive Op where
  | bit (b : Bool)
  | bits (v : BitVec 64) (n : Nat)
  | array (bytes : List Byte) (k : Nat)
  | close
  | written
  deriving Repr

def step (s : St) : Op → St × Outcome
  | .bit b => writeBit s b
  | .bits v n => writeBits s v n
  | .array bytes k => writeArray s bytes k
  | .close => close s
  | .written => (s, .ok)

/-- run a program; returns the final state and the outcome of every op -/
def run : St → List Op → St × List Outcome
  | s, [] => (s, [])
  | s, op :: ops => ((run (step s op).1 ops).1, (step s op).2 :: (run (step s op).1 ops).2)

end Kanzi.OBS
