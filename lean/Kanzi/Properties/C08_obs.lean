/-
C08 (output bitstream part) — sink failures are never swallowed by `DefaultOutputBitStream`.
Property theorems only; proofs in `Kanzi/Proofs/OBS*.lean`.  The sink follows an ARBITRARY failure
plan `failAt : Nat → Bool` (call k fails and accepts nothing); see `Kanzi/Properties/C14_obs.lean`
for the vocabulary (`Inv`, `Counted`, `abs`, `writtenOf`).
-/
import Kanzi.Model.OBS
import Kanzi.Proofs.OBS

namespace Kanzi.C08
open Kanzi.OBS Kanzi.Bits

/-- (1) No silent loss, for every failure plan: if every operation of a program returned normally
    and `Close` returned nil, the sink holds exactly the packed image of all the bits written —
    success is never reported with bytes missing — and no sink call issued so far had failed. -/
theorem C08_obs_no_silent_loss (bs : Nat) (plan : Nat → Bool) (h40 : 40 ≤ bs) (h8 : bs % 8 = 0)
    (ops : List Op) (hv : ∀ op ∈ ops, op.valid)
    (hok : ∀ o ∈ (run (init bs plan) ops).2, o = .ok)
    (hclose : (close (run (init bs plan) ops).1).2 = .ok) :
    (close (run (init bs plan) ops).1).1.sink.map BitVec.toNat = packBytes (ops.flatMap opBits) ∧
    writtenOf (close (run (init bs plan) ops).1).1 = ((ops.flatMap opBits).length : Int) ∧
    ∀ k, 0 < k → k ≤ (close (run (init bs plan) ops).1).1.sinkCalls → plan k = false := by
  have hi := init_inv bs plan (by omega) h8
  have st := run_ok ops _ hi (by rw [init_len]; exact h40) hv hok
  rcases close_spec _ st.inv with ⟨_, c⟩ | ⟨e, _⟩
  · refine ⟨?_, ?_, ?_⟩
    · rw [c.image, st.sabs, init_abs, List.nil_append]
    · rw [c.wr, written_eq _ st.inv (st.counted (init_counted _ _)), st.sabs, init_abs, List.nil_append]
    · intro k h0 hk
      by_cases h : k ≤ (run (init bs plan) ops).1.sinkCalls
      · exact st.nofail k h0 h
      · have := c.nofail k (by omega) hk
        rw [st.plan] at this
        exact this
  · rw [hclose] at e; cases e

/-- (2) `Close` retry.  If `Close` returns an error (its flush failed) the stream is left in a
    state that satisfies the invariant again, with the same abstract content, the same sink bytes
    and the same `Written()`; the failed call is the one `Close` issued.  Consequently a later
    `Close` that succeeds (under any continuation `plan'` of the failure plan) delivers exactly the
    packed image of the bits written, the same sink bytes as if the failure had not happened, and
    `Written()` is the number of bits — this is what `TestWriterCloseRetriesAfterFailure` relies on. -/
theorem C08_obs_close_retry (s : St) (h : Inv s) (herr : (close s).2 = .err) :
    Inv (close s).1 ∧ abs (close s).1 = abs s ∧ (close s).1.sink = s.sink ∧
    writtenOf (close s).1 = writtenOf s ∧ (Counted s → Counted (close s).1) ∧
    (close s).1.sinkCalls = s.sinkCalls + 1 ∧ s.failAt (s.sinkCalls + 1) = true ∧
    ∀ plan' : Nat → Bool, (close { (close s).1 with failAt := plan' }).2 = .ok →
      (close { (close s).1 with failAt := plan' }).1.sink.map BitVec.toNat = packBytes (abs s) ∧
      (close { (close s).1 with failAt := plan' }).1.sink =
        (close { s with failAt := fun _ => false }).1.sink ∧
      writtenOf (close { (close s).1 with failAt := plan' }).1 = writtenOf s := by
  rcases close_spec s h with ⟨e, _⟩ | ⟨_, f⟩
  · rw [herr] at e; cases e
  · have hfail : s.failAt (s.sinkCalls + 1) = true := by
      have := f.io.failed; rw [f.calls] at this; exact this
    refine ⟨f.inv, f.sabs, f.sink, f.wo, ?_, f.calls, hfail, ?_⟩
    · intro c; unfold Counted at *; rw [f.wr, f.sink]; exact c
    · intro plan' hok
      have hi2 := inv_plan (close s).1 plan' f.inv
      rcases close_spec _ hi2 with ⟨_, c2⟩ | ⟨e, _⟩
      · have himg : (close { (close s).1 with failAt := plan' }).1.sink.map BitVec.toNat = packBytes (abs s) := by
          rw [c2.image]
          show packBytes (abs (close s).1) = _
          rw [f.sabs]
        obtain ⟨_, c3⟩ := close_healthy { s with failAt := fun _ => false } (inv_plan s _ h) rfl
        refine ⟨himg, ?_, ?_⟩
        · have e3 : (close { s with failAt := fun _ => false }).1.sink.map BitVec.toNat = packBytes (abs s) := c3.image
          have := himg.trans e3.symm
          exact (List.map_inj_right (fun x y hxy => BitVec.eq_of_toNat_eq hxy)).mp this
        · rw [c2.wr]; exact f.wo
      · rw [hok] at e; cases e

/-- (3) A sink failure during `WriteBit` / `WriteBits` / `WriteArray` surfaces as the `io` panic
    of that very operation, never later and never swallowed: a valid operation on a stream
    satisfying the invariant either returns normally or panics with the sink error, and it panics
    exactly when one of the sink calls it issued failed (that call is then the last one issued). -/
theorem C08_obs_io_surfaces (s : St) (op : Op) (h : Inv s) (h40 : 40 ≤ s.buffer.length) (hv : op.valid) :
    ((step s op).2 = .ok ∨ (step s op).2 = .panic .io) ∧
    ((∃ k, s.sinkCalls < k ∧ k ≤ (step s op).1.sinkCalls ∧ s.failAt k = true) ↔
      (step s op).2 = .panic .io) ∧
    ((step s op).2 = .panic .io → s.failAt (step s op).1.sinkCalls = true) := by
  rcases step_spec s op h h40 hv with ⟨e, st⟩ | ⟨e, f⟩
  · refine ⟨Or.inl e, ⟨?_, ?_⟩, ?_⟩
    · rintro ⟨k, h1, h2, h3⟩
      have := st.nofail k h1 h2
      rw [h3] at this; cases this
    · intro e2; rw [e] at e2; cases e2
    · intro e2; rw [e] at e2; cases e2
  · refine ⟨Or.inr e, ⟨fun _ => e, fun _ => ⟨_, f.lt, Nat.le_refl _, f.failed⟩⟩, fun _ => f.failed⟩

/-- the same for `Close`: it returns nil or the sink error (never panics on a stream satisfying the
    invariant), and it returns the error exactly when the one sink call it issued failed. -/
theorem C08_obs_close_io (s : St) (h : Inv s) :
    ((close s).2 = .ok ∨ (close s).2 = .err) ∧
    ((close s).2 = .err ↔ ((close s).1.sinkCalls = s.sinkCalls + 1 ∧ s.failAt (s.sinkCalls + 1) = true)) := by
  rcases close_spec s h with ⟨e, c⟩ | ⟨e, f⟩
  · refine ⟨Or.inl e, ⟨?_, ?_⟩⟩
    · intro e2; rw [e] at e2; cases e2
    · rintro ⟨h1, h2⟩
      have := c.nofail (s.sinkCalls + 1) (by omega) (by omega)
      rw [h2] at this; cases this
  · refine ⟨Or.inr e, ⟨fun _ => ⟨f.calls, ?_⟩, fun _ => e⟩⟩
    have := f.io.failed; rw [f.calls] at this; exact this

/-- a whole program: if all operations returned normally, none of the sink calls issued had failed -/
theorem C08_obs_run_no_swallow (bs : Nat) (plan : Nat → Bool) (h40 : 40 ≤ bs) (h8 : bs % 8 = 0)
    (ops : List Op) (hv : ∀ op ∈ ops, op.valid)
    (hok : ∀ o ∈ (run (init bs plan) ops).2, o = .ok) :
    ∀ k, 0 < k → k ≤ (run (init bs plan) ops).1.sinkCalls → plan k = false :=
  (run_ok ops _ (init_inv bs plan (by omega) h8) (by rw [init_len]; exact h40) hv hok).nofail

/-- the hypotheses of `C08_obs_close_retry` are satisfiable: one bit written, first sink call fails -/
example : Inv (writeBit (init 16 (fun k => k == 1)) true).1 ∧
    (close (writeBit (init 16 (fun k => k == 1)) true).1).2 = .err := by
  constructor
  · rcases writeBit_spec _ true (init_inv 16 (fun k => k == 1) (by omega) (by omega)) with ⟨_, st⟩ | ⟨e, _⟩
    · exact st.inv
    · exact absurd e (by decide)
  · decide

end Kanzi.C08
