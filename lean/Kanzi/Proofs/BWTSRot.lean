/-
Slice `bwts` (C13): Lyndon words and the infinite periodic order.

  * `lyndon_lt_rot`      a Lyndon word is `<ω` each of its non-trivial rotations
  * `lyndon_seqLt`       `u < v` lexicographically, `v` Lyndon ⇒ `u^ω < v^ω`
  * `rotL_antisymm`      rotations of Lyndon words with the same `^ω` are equal
-/
import Kanzi.Proofs.BWTSOmega

namespace Kanzi.BWTS

theorem pw_prefix_snoc (p : List Nat) (a : Nat) (r : List Nat) :
    (∀ i, i < p.length → pw (p ++ a :: r) i = p.getD i 0) ∧ pw (p ++ a :: r) p.length = a := by
  have e : p ++ a :: r = (p ++ [a]) ++ r := by simp
  constructor
  · intro i hi
    rw [e, pw_append_left _ _ _ (by simp; omega), getD_append_left' _ _ _ hi]
  · rw [e, pw_append_left _ _ _ (by simp), getD_append_right' _ _ _ (Nat.le_refl _)]
    simp

theorem Mis.seqLt {u v : List Nat} (h : Mis u v) (x y : List Nat) :
    SeqLt (pw (u ++ x)) (pw (v ++ y)) := by
  obtain ⟨p, a, b, u', v', rfl, rfl, hab⟩ := h
  have h1 := pw_prefix_snoc p a (u' ++ x)
  have h2 := pw_prefix_snoc p b (v' ++ y)
  simp only [List.append_assoc, List.cons_append]
  exact ⟨p.length, fun i hi => (h1.1 i hi).trans (h2.1 i hi).symm, by rw [h1.2, h2.2]; exact hab⟩

theorem rot_length (w : List Nat) (k : Nat) : (rot w k).length = w.length := by
  simp [rot]; omega

/-- a Lyndon word is strictly `<ω` each of its non-trivial rotations -/
theorem lyndon_lt_rot {w : List Nat} (hw : Lyndon w) (k : Nat) (hk : 0 < k) (hkl : k < w.length) :
    SeqLt (pw w) (pw (rot w k)) := by
  have h1 := hw.2 k hk hkl
  have h2 := lexLt_mis_of_length h1 (by simp)
  have := h2.seqLt [] (w.take k)
  rwa [List.append_nil] at this

theorem lyndon_le_rot {w : List Nat} (hw : Lyndon w) (k : Nat) (hkl : k < w.length) :
    SeqLe (pw w) (pw (rot w k)) := by
  by_cases hk : k = 0
  · subst hk
    have : rot w 0 = w := by simp [rot]
    rw [this]; exact SeqLt.irrefl _
  · exact (lyndon_lt_rot hw k (by omega) hkl).asymm

theorem take_append_drop_getD (x : List Nat) (k i : Nat) : (x.drop k).getD i 0 = x.getD (i + k) 0 := by
  simp [List.getD_eq_getElem?_getD, Nat.add_comm]

/-- the inductive heart of `lyndon_seqLt`: `u^ω` is below every sequence that starts with a proper
    suffix of a Lyndon word having `u` as a prefix -/
theorem lyndon_suffix_seqLt {u v : List Nat} (hv : Lyndon v) (hu : u ≠ []) (x0 : List Nat)
    (hvu : v = u ++ x0) (N : Nat) :
    ∀ (x : List Nat), x.length ≤ N → x ≠ [] → (∃ y, y ≠ [] ∧ v = y ++ x) →
      ∀ g : Nat → Nat, (∀ i, i < x.length → g i = x.getD i 0) → SeqLt (pw u) g := by
  induction N with
  | zero =>
    intro x hx hx0
    exact absurd (List.eq_nil_of_length_eq_zero (by omega)) hx0
  | succ N ih =>
    intro x hxN hx0 ⟨y, hy, hvy⟩ g hg
    have hlt : lexLt v x = true := ((lyndon_iff v).1 hv).2 y x hvy hy hx0
    obtain ⟨p, a, b, v', x'', hvp, hxp, hab⟩ := lexLt_mis_of_length hlt (by rw [hvy]; simp)
    have hv1 := pw_prefix_snoc p a v'
    by_cases hpu : p.length < u.length
    · -- the mismatch falls inside `u`
      refine ⟨p.length, fun i hi => ?_, ?_⟩
      · rw [hg i (by rw [hxp]; simp; omega), pw_of_lt u i (by omega)]
        have e1 : v.getD i 0 = u.getD i 0 := by rw [hvu]; exact getD_append_left' _ _ _ (by omega)
        have e2 : v.getD i 0 = p.getD i 0 := by rw [hvp]; exact getD_append_left' _ _ _ hi
        have e3 : x.getD i 0 = p.getD i 0 := by rw [hxp]; exact getD_append_left' _ _ _ hi
        rw [← e1, e2, e3]
      · rw [hg _ (by rw [hxp]; simp), pw_of_lt u _ hpu]
        have e1 : v.getD p.length 0 = u.getD p.length 0 := by
          rw [hvu]; exact getD_append_left' _ _ _ hpu
        have e2 : v.getD p.length 0 = a := by
          rw [hvp, getD_append_right' _ _ _ (Nat.le_refl _)]; simp
        have e3 : x.getD p.length 0 = b := by
          rw [hxp, getD_append_right' _ _ _ (Nat.le_refl _)]; simp
        rw [← e1, e2, e3]; exact hab
    · -- `x` starts with `u`
      have hup : u = p.take u.length := by
        have h1 : (u ++ x0).take u.length = u := by simp
        rw [← hvu, hvp, List.take_append_of_le_length (by omega)] at h1
        exact h1.symm
      have hp : p = u ++ p.drop u.length := by
        conv => lhs; rw [← List.take_append_drop u.length p, ← hup]
      have hx1 : x = u ++ (p.drop u.length ++ b :: x'') := by
        rw [hxp]; conv => lhs; rw [hp]
        simp
      have hx1ne : p.drop u.length ++ b :: x'' ≠ [] := by simp
      generalize p.drop u.length ++ b :: x'' = x1 at hx1 hx1ne
      have hul : 0 < u.length := List.length_pos_iff.2 hu
      have hx1len : x1.length < x.length := by rw [hx1]; simp; omega
      have := ih x1 (by omega) hx1ne ⟨y ++ u, by simp [hu], by rw [hvy, hx1]; simp⟩
        (sh u.length g) (fun i hi => by
          simp only [sh]
          rw [hg _ (by rw [hx1]; simp; omega), hx1, getD_append_right' _ _ _ (by omega)]
          congr 1; omega)
      refine seqLt_of_sh u.length (fun i hi => ?_) (by rw [sh_pw_length]; exact this)
      rw [pw_of_lt u i hi, hg i (by rw [hx1]; simp; omega), hx1, getD_append_left' _ _ _ hi]

/-- for a Lyndon word `v`: `u < v` lexicographically implies `u^ω < v^ω` -/
theorem lyndon_seqLt {u v : List Nat} (hv : Lyndon v) (hu : u ≠ []) (h : lexLt u v = true) :
    SeqLt (pw u) (pw v) := by
  rcases lexLt_cases h with hm | ⟨x0, hx0, hvu⟩
  · have := hm.seqLt [] []
    simpa using this
  · have := lyndon_suffix_seqLt hv hu x0 hvu x0.length x0 (Nat.le_refl _) hx0 ⟨u, hu, hvu⟩
      (sh u.length (pw v)) (fun i hi => by
        simp only [sh]; rw [hvu]; exact pw_append_right u x0 i hi)
    refine seqLt_of_sh u.length (fun i hi => ?_) (by rw [sh_pw_length]; exact this)
    rw [pw_of_lt u i hi, hvu, pw_append_left _ _ _ hi]

/-- Lyndon words: `u ≥ v` lexicographically implies `u^ω ≥ v^ω` -/
theorem lyndon_seqLe {u v : List Nat} (hu : Lyndon u) (hv : Lyndon v) (h : lexLt u v = false) :
    SeqLe (pw v) (pw u) := by
  rcases lexLe_iff.1 (show lexLe v u from h) with h1 | h1
  · subst h1; exact SeqLt.irrefl _
  · exact (lyndon_seqLt hu hv.1 h1).asymm

theorem lyndon_eq_of_seqEq {u v : List Nat} (hu : Lyndon u) (hv : Lyndon v)
    (h : SeqEq (pw u) (pw v)) : u = v := by
  apply lexLt_total
  · cases h1 : lexLt u v with
    | false => rfl
    | true => exact absurd h (lyndon_seqLt hv hu.1 h1).not_eq
  · cases h1 : lexLt v u with
    | false => rfl
    | true => exact absurd (fun i => (h i).symm) (lyndon_seqLt hu hv.1 h1).not_eq

/-- a rotation of a Lyndon word -/
def RotL (x : List Nat) : Prop := ∃ w k, Lyndon w ∧ k < w.length ∧ x = rot w k

theorem RotL.ne_nil {x : List Nat} (h : RotL x) : x ≠ [] := by
  obtain ⟨w, k, hw, hk, rfl⟩ := h
  intro hc
  have := congrArg List.length hc
  rw [rot_length, List.length_nil] at this
  omega

theorem eq_of_length_of_seqEq {x y : List Nat} (hl : x.length = y.length)
    (h : SeqEq (pw x) (pw y)) : x = y := by
  apply List.ext_getElem hl
  intro i h1 h2
  have := h i
  rw [pw_of_lt x i h1, pw_of_lt y i h2] at this
  simpa [List.getD_eq_getElem?_getD, List.getElem?_eq_getElem h1, List.getElem?_eq_getElem h2]
    using this

/-- `w^ω` read from position `c` on is `(rot w (c mod |w|))^ω` -/
theorem pw_shift_rot (w : List Nat) (hw : w ≠ []) (c i : Nat) :
    pw w (i + c) = pw (rot w (c % w.length)) i := by
  have hm : 0 < w.length := List.length_pos_iff.2 hw
  rw [pw_rot w _ (Nat.le_of_lt (Nat.mod_lt _ hm))]
  unfold pw
  congr 1
  rw [← Nat.add_mod_mod]

theorem rotL_le_aux {w v : List Nat} (_hw : Lyndon w) (hv : Lyndon v) (a b : Nat)
    (ha : a < w.length)
    (h : ∀ i, pw w (i + a) = pw v (i + b)) : SeqLe (pw v) (pw w) := by
  -- `w^ω` is `(rot v c)^ω`
  have hm : 0 < v.length := List.length_pos_iff.2 hv.1
  have e : SeqEq (pw w) (pw (rot v ((w.length - a + b) % v.length))) := by
    intro i
    rw [← pw_shift_rot v hv.1, ← pw_add_length w i]
    have := h (i + (w.length - a))
    rw [show i + (w.length - a) + a = i + w.length by omega] at this
    rw [this]; congr 1; omega
  have := lyndon_le_rot hv _ (Nat.mod_lt (w.length - a + b) hm)
  intro hlt
  exact this (hlt.congr_left e)

/-- rotations of Lyndon words are determined by their `^ω` -/
theorem rotL_antisymm {x y : List Nat} (hx : RotL x) (hy : RotL y) (h : SeqEq (pw x) (pw y)) :
    x = y := by
  obtain ⟨w, a, hw, ha, rfl⟩ := hx
  obtain ⟨v, b, hv, hb, rfl⟩ := hy
  have h' : ∀ i, pw w (i + a) = pw v (i + b) := fun i => by
    rw [← pw_rot w a (by omega), ← pw_rot v b (by omega)]; exact h i
  have h1 := rotL_le_aux hw hv a b ha h'
  have h2 := rotL_le_aux hv hw b a hb (fun i => (h' i).symm)
  have hwv : w = v := lyndon_eq_of_seqEq hw hv (seqEq_of_le_of_le h2 h1)
  subst hwv
  exact eq_of_length_of_seqEq (by rw [rot_length, rot_length]) h

end Kanzi.BWTS
