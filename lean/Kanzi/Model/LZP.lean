/-
Model of the Lempel-Ziv-Predict codec `transform.LZPCodec` (v2/transform/LZCodec.go, the type LZPCodec
only: Forward, Inverse, findMatch, MaxEncodedLen), slice `lzp`, property C13.

  * `lzpMaxEncodedLen`        Go `LZPCodec.MaxEncodedLen`
  * `hash`, `shiftCtx`        Go `(_LZP_HASH_SEED * ctx) >> _LZP_HASH_SHIFT` and `ctx = (ctx << 8) | val`, both in
                              uint32 arithmetic (explicit `% 2^32`)
  * `findMatch`               Go `LZPCodec.findMatch` (8 bytes at a time, `TrailingZeros64(diff) >> 3`)
  * `encStep` / `encLit`      one iteration of the main loop / of the trailing literal loop of Forward
  * `lzpForward src n`        Go `LZPCodec.Forward(src, dst)` with `len(dst) = n`
  * `decStep`                 one iteration of the loop of Inverse
  * `lzpInverse v3 src n`     Go `LZPCodec.Inverse(src, dst)` with `len(dst) = n`; `v3` is the field
                              `isBsVersion3` (= ctx entry `bsVersion` < 4): minimum match 96 instead of 64.
                              Forward always uses 64 (the compressor only writes the current bitstream version).
  * `lzpFwdTrace`, `lzpInvTrace`  the (position, ctx, hash table) at the head of every loop iteration of
                              Forward / Inverse (specification only, used by the lock-step theorem)

Core Lean only (linked into `kmodel`).  Bytes are `Nat` (< 256).  The source is an `Array Nat` read
through `src[i]?`; the destination is the `Array Nat` of the bytes written so far (`out.size` is the Go
`dstIdx`; every Go write is `dst[dstIdx] = v; dstIdx++`, i.e. an append, checked against `len(dst)`).
The hash table `hashes []int32` (65536 entries, cleared at the start of each call) is an `Array Nat`;
positions are stored as `int32` in Go, which is exact for blocks below 2^31 bytes (kanzi blocks are at
most 2^30 bytes).

Outcomes (`Out`): `.ok` = nil error, `.err c` = non-nil Go error of class `c` (Forward "declines",
Inverse "fails"), `.fault kind idx len` = a Go run-time panic `index out of range [idx] with length
len`: EVERY slice read / write of the Go code is modelled with its bounds check.  Kinds: `dst-index`
(store past `len(dst)`), `src-index` (read past `len(src)`), `fuel` (model loop fuel exhausted) and
`stale-read` (Inverse copies a match from a position it has not written yet; not a Go panic, but a
read of stale buffer content) - the last two are proved unreachable.

Not modelled: the wrapper `LZCodec` (empty check and aliasing test `&src[0] == &dst[0]`; callers own
two distinct buffers), the LZX codec of the same file (another slice).
-/
namespace Kanzi.LZP

/-- result of a Go call or of a piece of it -/
inductive Out (α : Type) where
  | ok (a : α)
  | err (e : String)
  | fault (kind : String) (idx len : Nat)
deriving Repr, DecidableEq

@[inline] def Out.bind {α β : Type} (x : Out α) (f : α → Out β) : Out β :=
  match x with
  | .ok a => f a
  | .err e => .err e
  | .fault k i l => .fault k i l

abbrev Res := Out (List Nat)

/-! ## constants -/

def HASH_SEED : Nat := 0x7FEB352D
def HASH_LOG : Nat := 16
def HASH_SHIFT : Nat := 32 - HASH_LOG
def MIN_MATCH96 : Nat := 96
def MIN_MATCH64 : Nat := 64
def MATCH_FLAG : Nat := 0xFC
def MIN_BLOCK_LENGTH : Nat := 128

/-- Go: `LZPCodec.MaxEncodedLen` -/
def lzpMaxEncodedLen (srcLen : Nat) : Nat := if srcLen ≤ 1024 then srcLen + 16 else srcLen + srcLen / 64

/-- Go: `h := (_LZP_HASH_SEED * ctx) >> _LZP_HASH_SHIFT` (uint32 multiply, wraps) -/
def hash (ctx : Nat) : Nat := ((HASH_SEED * ctx) % 2 ^ 32) >>> HASH_SHIFT

/-- Go: `ctx = (ctx << 8) | val` (uint32) -/
def shiftCtx (ctx v : Nat) : Nat := (((ctx <<< 8) ||| v) % 2 ^ 32)

/-- the state of a codec loop: source index, context, hash table, bytes written -/
structure St where
  i : Nat
  ctx : Nat
  tbl : Array Nat
  out : Array Nat

/-- Go: `hashes` after `make` / `clear` -/
def tbl0 : Array Nat := Array.replicate (1 <<< HASH_LOG) 0

/-! ## reads and writes -/

/-- Go: a sequence of stores `dst[dstIdx] = v; dstIdx++` for the bytes `bs`.  Panics iff the last index is
    `≥ len(dst) = dstLen` (the first index out of range is then `dstLen`). -/
def wr (dstLen : Nat) (out : Array Nat) (bs : List Nat) : Out (Array Nat) :=
  if out.size + bs.length ≤ dstLen then .ok (out ++ bs) else .fault "dst-index" dstLen dstLen

/-- Go: `binary.LittleEndian.Uint32(a[i:])` -/
def le32 (a : Array Nat) (i : Nat) : Option Nat :=
  match a[i]?, a[i + 1]?, a[i + 2]?, a[i + 3]? with
  | some b0, some b1, some b2, some b3 => some (b0 + 256 * b1 + 65536 * b2 + 16777216 * b3)
  | _, _, _, _ => none

/-- the 8 bytes `a[i:i+8]` -/
def chunk8 (a : Array Nat) (i : Nat) : Option (List Nat) :=
  if i + 8 ≤ a.size then some (a.extract i (i + 8)).toList else none

/-- Go: `binary.LittleEndian.Uint64(a[i:])` -/
def le64 (a : Array Nat) (i : Nat) : Option Nat :=
  (chunk8 a i).map (fun l => l.foldr (fun b acc => b + 256 * acc) 0)

/-- length of the common prefix; for two 8-byte chunks `x`, `y` read as little-endian words this is
    `bits.TrailingZeros64(x ^ y) >> 3` -/
def cpl : List Nat → List Nat → Nat
  | x :: xs, y :: ys => if x = y then cpl xs ys + 1 else 0
  | _, _ => 0

/-! ## Forward -/

/-- Go: `findMatch(src, srcIdx, ref, maxMatch)`, loop state `bestLen = bl` -/
def findMatch (src : Array Nat) (i ref maxMatch : Nat) : Nat → Nat → Out Nat
  | 0, _ => .fault "fuel" 0 0
  | f + 1, bl =>
    if bl + 8 ≤ maxMatch then
      match chunk8 src (i + bl), chunk8 src (ref + bl) with
      | some x, some y => if x = y then findMatch src i ref maxMatch f (bl + 8) else .ok (bl + cpl x y)
      | _, _ => .fault "src-index" (i + bl + 8) src.size
    else .ok bl

/-- Go: the literal branch of the main loop = the body of the trailing loop of Forward (after the hash
    table update): copy one byte, escape it with 0xFF when it is the match flag and a prediction exists -/
def encLit (src : Array Nat) (dstLen i ctx ref : Nat) (tbl out : Array Nat) : Out St :=
  match src[i]? with
  | none => .fault "src-index" i src.size
  | some v =>
    (wr dstLen out [v]).bind fun o =>
      (if ref ≠ 0 ∧ v = MATCH_FLAG then wr dstLen o [0xFF] else .ok o).bind fun o2 =>
        .ok ⟨i + 1, shiftCtx ctx v, tbl, o2⟩

/-- Go: "Emit match length": `for bestLen >= 254 { bestLen -= 254; dst[dstIdx] = 0xFE; dstIdx++;
    if dstIdx >= dstEnd { break } }; dst[dstIdx] = byte(bestLen); dstIdx++` -/
def emitLen (dstLen dstEnd : Nat) : Nat → Nat → Array Nat → Out (Array Nat)
  | 0, _, _ => .fault "fuel" 0 0
  | f + 1, bl, out =>
    if bl ≥ 254 then
      (wr dstLen out [0xFE]).bind fun o =>
        if o.size ≥ dstEnd then wr dstLen o [(bl - 254) % 256] else emitLen dstLen dstEnd f (bl - 254) o
    else wr dstLen out [bl % 256]

/-- Go: "Find a match": the best length (0 without prediction or when the quick test on the bytes
    `[56, 64)` fails) -/
def bestLen (src : Array Nat) (i ref : Nat) : Out Nat :=
  if ref ≠ 0 then
    match le64 src (i + MIN_MATCH64 - 8), le64 src (ref + MIN_MATCH64 - 8) with
    | some x, some y =>
      if x = y then findMatch src i ref (src.size - i) ((src.size - i) / 8 + 1) 0 else .ok 0
    | _, _ => .fault "src-index" (i + MIN_MATCH64) src.size
  else .ok 0

/-- Go: one iteration of the main loop of Forward -/
def encStep (src : Array Nat) (dstLen dstEnd i ctx : Nat) (tbl out : Array Nat) : Out St :=
  let h := hash ctx
  let ref := tbl.getD h 0
  let tbl' := tbl.setIfInBounds h i
  match bestLen src i ref with
  | .err e => .err e
  | .fault k x l => .fault k x l
  | .ok best =>
    if best < MIN_MATCH64 then encLit src dstLen i ctx ref tbl' out
    else
      match le32 src (i + best - 4) with
      | none => .fault "src-index" (i + best) src.size
      | some c =>
        (wr dstLen out [MATCH_FLAG]).bind fun o =>
          (emitLen dstLen dstEnd ((best - MIN_MATCH64) / 254 + 1) (best - MIN_MATCH64) o).bind fun o2 =>
            .ok ⟨i + best, c, tbl', o2⟩

/-- Go: the second loop of Forward (literals only); returns the final `(srcIdx, dst[0:dstIdx])` -/
def fwdTail (src : Array Nat) (dstLen dstEnd : Nat) : Nat → Nat → Nat → Array Nat → Array Nat → Out (Nat × Array Nat)
  | 0, _, _, _, _ => .fault "fuel" 0 0
  | f + 1, i, ctx, tbl, out =>
    if i < src.size ∧ out.size < dstEnd then
      match encLit src dstLen i ctx (tbl.getD (hash ctx) 0) (tbl.setIfInBounds (hash ctx) i) out with
      | .ok s => fwdTail src dstLen dstEnd f s.i s.ctx s.tbl s.out
      | .err e => .err e
      | .fault k x l => .fault k x l
    else .ok (i, out)

/-- Go: the main loop of Forward followed by the second loop -/
def fwdMain (src : Array Nat) (dstLen dstEnd : Nat) : Nat → Nat → Nat → Array Nat → Array Nat → Out (Nat × Array Nat)
  | 0, _, _, _, _ => .fault "fuel" 0 0
  | f + 1, i, ctx, tbl, out =>
    if i + MIN_MATCH64 < src.size ∧ out.size < dstEnd then
      match encStep src dstLen dstEnd i ctx tbl out with
      | .ok s => fwdMain src dstLen dstEnd f s.i s.ctx s.tbl s.out
      | .err e => .err e
      | .fault k x l => .fault k x l
    else fwdTail src dstLen dstEnd src.size i ctx tbl out

/-- Go: the end of Forward -/
def fwdFinish (count dstEnd : Nat) (r : Out (Nat × Array Nat)) : Res :=
  r.bind fun p => if p.1 ≠ count ∨ p.2.size ≥ dstEnd then .err "skip" else .ok p.2.toList

/-- Go: `LZPCodec.Forward(src, dst)` with `len(dst) = dstLen` -/
def lzpForward (src : List Nat) (dstLen : Nat) : Res :=
  if src.length = 0 ∨ dstLen = 0 then .ok []
  else if dstLen < lzpMaxEncodedLen src.length then .err "dst"
  else if src.length < MIN_BLOCK_LENGTH then .err "small"
  else
    let a := src.toArray
    let dstEnd := a.size - (a.size >>> 6)
    match a[0]?, a[1]?, a[2]?, a[3]? with
    | some b0, some b1, some b2, some b3 =>
      (wr dstLen #[] [b0, b1, b2, b3]).bind fun o =>
        fwdFinish a.size dstEnd
          (fwdMain a dstLen dstEnd a.size 4 (b0 + 256 * b1 + 65536 * b2 + 16777216 * b3) tbl0 o)
    | _, _, _, _ => .fault "src-index" src.length src.length

/-! ## Inverse -/

/-- Go: `for srcIdx < srcEnd && src[srcIdx] == 0xFE { srcIdx++; mLen += 254 }`; returns `(srcIdx, mLen)` -/
def skipFE (a : Array Nat) : Nat → Nat → Nat → Nat × Nat
  | 0, i, m => (i, m)
  | f + 1, i, m => if a[i]? = some 0xFE then skipFE a f (i + 1) (m + 254) else (i, m)

/-- Go: `for i := 0; i < mLen; i++ { dst[dstIdx+i] = dst[ref+i] }` (`r` = current read position) -/
def copySeq : Nat → Nat → Array Nat → Out (Array Nat)
  | 0, _, out => .ok out
  | m + 1, r, out =>
    match out[r]? with
    | some v => copySeq m (r + 1) (out.push v)
    | none => .fault "stale-read" r out.size

/-- Go: one iteration of the loop of Inverse (`.err`: `res = false; break`) -/
def decStep (a : Array Nat) (dstLen mm i ctx : Nat) (tbl out : Array Nat) : Out St :=
  let h := hash ctx
  let ref := tbl.getD h 0
  let tbl' := tbl.setIfInBounds h out.size
  match a[i]? with
  | none => .fault "src-index" i a.size
  | some x =>
    if x ≠ MATCH_FLAG ∨ ref = 0 then
      (wr dstLen out [x]).bind fun o => .ok ⟨i + 1, shiftCtx ctx x, tbl', o⟩
    else
      match a[i + 1]? with
      | none => .fault "src-index" (i + 1) a.size
      | some y =>
        if y = 0xFF then
          (wr dstLen out [MATCH_FLAG]).bind fun o => .ok ⟨i + 2, shiftCtx ctx MATCH_FLAG, tbl', o⟩
        else
          let p := if y = 0xFE then skipFE a (a.size - (i + 1)) (i + 1) mm else (i + 1, mm)
          if y = 0xFE ∧ p.1 ≥ a.size then .err "fail"
          else
            match a[p.1]? with
            | none => .fault "src-index" p.1 a.size
            | some z =>
              let mLen := p.2 + z
              if out.size + mLen > dstLen then .err "fail"
              else
                (if ref + mLen < out.size then .ok (out ++ out.extract ref (ref + mLen))
                  else copySeq mLen ref out).bind fun o =>
                  match le32 o (o.size - 4) with
                  | none => .fault "dst-index" o.size o.size
                  | some c => .ok ⟨p.1 + 1, c, tbl', o⟩

/-- Go: the loop of Inverse; returns the final `(srcIdx, dst[0:dstIdx])` -/
def invLoop (a : Array Nat) (dstLen mm : Nat) : Nat → Nat → Nat → Array Nat → Array Nat → Out (Nat × Array Nat)
  | 0, _, _, _, _ => .fault "fuel" 0 0
  | f + 1, i, ctx, tbl, out =>
    if i < a.size then
      match decStep a dstLen mm i ctx tbl out with
      | .ok s => invLoop a dstLen mm f s.i s.ctx s.tbl s.out
      | .err e => .err e
      | .fault k x l => .fault k x l
    else .ok (i, out)

/-- Go: the end of Inverse -/
def invFinish (srcEnd : Nat) (r : Out (Nat × Array Nat)) : Res :=
  r.bind fun p => if p.1 ≠ srcEnd then .err "fail" else .ok p.2.toList

/-- the minimum match length of Inverse -/
def minMatch (v3 : Bool) : Nat := if v3 then MIN_MATCH96 else MIN_MATCH64

/-- Go: `LZPCodec.Inverse(src, dst)` with `len(dst) = dstLen`, `v3 = this.isBsVersion3` -/
def lzpInverse (v3 : Bool) (src : List Nat) (dstLen : Nat) : Res :=
  if src.length = 0 ∨ dstLen = 0 then .ok []
  else if src.length < 4 then .err "small"
  else
    let a := src.toArray
    match a[0]?, a[1]?, a[2]?, a[3]? with
    | some b0, some b1, some b2, some b3 =>
      (wr dstLen #[] [b0, b1, b2, b3]).bind fun o =>
        invFinish a.size
          (invLoop a dstLen (minMatch v3) a.size 4 (b0 + 256 * b1 + 65536 * b2 + 16777216 * b3) tbl0 o)
    | _, _, _, _ => .fault "src-index" src.length src.length

/-! ## traces (specification only): the state at the head of every loop iteration -/

/-- (position in the plain block, ctx, hash table) -/
abbrev Snap := Nat × Nat × Array Nat

def fwdTailTr (src : Array Nat) (dstLen dstEnd : Nat) : Nat → Nat → Nat → Array Nat → Array Nat → List Snap
  | 0, _, _, _, _ => []
  | f + 1, i, ctx, tbl, out =>
    if i < src.size ∧ out.size < dstEnd then
      (i, ctx, tbl) ::
        match encLit src dstLen i ctx (tbl.getD (hash ctx) 0) (tbl.setIfInBounds (hash ctx) i) out with
        | .ok s => fwdTailTr src dstLen dstEnd f s.i s.ctx s.tbl s.out
        | _ => []
    else []

def fwdMainTr (src : Array Nat) (dstLen dstEnd : Nat) : Nat → Nat → Nat → Array Nat → Array Nat → List Snap
  | 0, _, _, _, _ => []
  | f + 1, i, ctx, tbl, out =>
    if i + MIN_MATCH64 < src.size ∧ out.size < dstEnd then
      (i, ctx, tbl) ::
        match encStep src dstLen dstEnd i ctx tbl out with
        | .ok s => fwdMainTr src dstLen dstEnd f s.i s.ctx s.tbl s.out
        | _ => []
    else fwdTailTr src dstLen dstEnd src.size i ctx tbl out

/-- the loop-head states of `lzpForward src dstLen` (both loops), for a block Forward works on -/
def lzpFwdTrace (src : List Nat) (dstLen : Nat) : List Snap :=
  let a := src.toArray
  match a[0]?, a[1]?, a[2]?, a[3]? with
  | some b0, some b1, some b2, some b3 =>
    fwdMainTr a dstLen (a.size - (a.size >>> 6)) a.size 4 (b0 + 256 * b1 + 65536 * b2 + 16777216 * b3) tbl0
      #[b0, b1, b2, b3]
  | _, _, _, _ => []

def invLoopTr (a : Array Nat) (dstLen mm : Nat) : Nat → Nat → Nat → Array Nat → Array Nat → List Snap
  | 0, _, _, _, _ => []
  | f + 1, i, ctx, tbl, out =>
    if i < a.size then
      (out.size, ctx, tbl) ::
        match decStep a dstLen mm i ctx tbl out with
        | .ok s => invLoopTr a dstLen mm f s.i s.ctx s.tbl s.out
        | _ => []
    else []

/-- the loop-head states of `lzpInverse v3 src dstLen` -/
def lzpInvTrace (v3 : Bool) (src : List Nat) (dstLen : Nat) : List Snap :=
  let a := src.toArray
  match a[0]?, a[1]?, a[2]?, a[3]? with
  | some b0, some b1, some b2, some b3 =>
    invLoopTr a dstLen (minMatch v3) a.size 4 (b0 + 256 * b1 + 65536 * b2 + 16777216 * b3) tbl0 #[b0, b1, b2, b3]
  | _, _, _, _ => []

end Kanzi.LZP
