/-
Proofs for the `utf` slice, part 3: the counting loop of Forward.  It never faults (the packed values
index `aliasMap`, the symbol table is never written beyond entry 32767, one unit of fuel per token
suffices) and, when it does not decline, it has walked a token list `ts` (`Toks`) and returns the fold
`cstep` over the packed values: `aliasMap[v]` = multiplicity of `v`, `symb` = the distinct values, each
once.
-/
import Kanzi.Proofs.UTFTok

namespace Kanzi.UTF
open Kanzi.RLT

/-- one iteration of the counting loop on the packed value `v` -/
def cstep (st : Array Nat × Array Nat) (v : Nat) : Array Nat × Array Nat :=
  (st.1.modify v (· + 1), if st.1.getD v 0 = 0 then st.2.push v else st.2)

theorem cfold_size (vals : List Nat) : ∀ (st : Array Nat × Array Nat), (vals.foldl cstep st).1.size = st.1.size := by
  induction vals with
  | nil => intro st; rfl
  | cons v tl ih => intro st; rw [List.foldl_cons, ih]; simp [cstep]

/-- the counting loop: a decline, or the fold over a token walk; never a fault -/
theorem countLoop_spec (src : Array Nat) (endI : Nat) (hb : ∀ x ∈ src.toList, x < 256) (hsz : endI + 4 ≤ src.size) :
    ∀ (f i : Nat) (am symb : Array Nat), endI ≤ i + f → am.size = 4194304 → symb.size < MAX_SYMBOLS →
      (∃ e, countLoop src endI f i am symb = .err e) ∨
      (∃ ts iEnd, Toks src endI i ts iEnd ∧
        countLoop src endI f i am symb = .ok ((ts.map (·.2)).foldl cstep (am, symb)) ∧
        ((ts.map (·.2)).foldl cstep (am, symb)).2.size < MAX_SYMBOLS) := by
  intro f
  induction f with
  | zero =>
    intro i am symb hf _ hs
    right
    refine ⟨[], i, Toks.nil i (by omega), ?_, hs⟩
    unfold countLoop; rw [if_neg (by omega)]; rfl
  | succ f ih =>
    intro i am symb hf ham hs
    unfold countLoop
    by_cases hi : i < endI
    · rw [if_pos hi, pack_eq src i (by omega)]
      simp only [Out.bind_ok]
      have hv := tokAt_snd_lt src hb i
      rw [if_neg (by omega)]
      by_cases hnew : am.getD (tokAt src i).2 0 = 0
      · -- a new symbol
        simp only [hnew, true_and, if_true]
        rw [if_neg (by omega)]
        simp only [Array.size_push, forall_const]
        by_cases hok : seqOk src i (tokAt src i).1 = true ∧ symb.size + 1 < MAX_SYMBOLS
        · rw [if_pos hok]
          have hpos := seqOk_pos _ _ _ hok.1
          rcases ih (i + (tokAt src i).1) (am.modify (tokAt src i).2 (· + 1)) (symb.push (tokAt src i).2)
            (by omega) (by simp [ham]) (by simp; exact hok.2) with ⟨e, he⟩ | ⟨ts, iEnd, ht, hc, hs'⟩
          · left; exact ⟨e, he⟩
          · right
            refine ⟨tokAt src i :: ts, iEnd, Toks.cons i ts iEnd hi hok.1 ht, ?_, ?_⟩
            · rw [hc, List.map_cons, List.foldl_cons]; simp only [cstep, hnew, ↓reduceIte]
            · rw [List.map_cons, List.foldl_cons]; simp only [cstep, hnew, ↓reduceIte]; exact hs'
        · rw [if_neg hok]; left; exact ⟨_, rfl⟩
      · -- a symbol seen before
        simp only [hnew, false_and, if_false, false_implies, and_true]
        by_cases hok : seqOk src i (tokAt src i).1 = true
        · rw [if_pos hok]
          have hpos := seqOk_pos _ _ _ hok
          rcases ih (i + (tokAt src i).1) (am.modify (tokAt src i).2 (· + 1)) symb
            (by omega) (by simp [ham]) hs with ⟨e, he⟩ | ⟨ts, iEnd, ht, hc, hs'⟩
          · left; exact ⟨e, he⟩
          · right
            refine ⟨tokAt src i :: ts, iEnd, Toks.cons i ts iEnd hi hok ht, ?_, ?_⟩
            · rw [hc, List.map_cons, List.foldl_cons]; simp only [cstep, hnew, ↓reduceIte]
            · rw [List.map_cons, List.foldl_cons]; simp only [cstep, hnew, ↓reduceIte]; exact hs'
        · rw [if_neg hok]; left; exact ⟨_, rfl⟩
    · rw [if_neg hi]
      right
      exact ⟨[], i, Toks.nil i hi, rfl, hs⟩

/-! ## the fold: multiplicities and distinct values -/

/-- invariant of the counting fold after the values `seen` -/
structure CInv (seen : List Nat) (st : Array Nat × Array Nat) : Prop where
  size : st.1.size = 4194304
  cnt : ∀ v, v < 4194304 → st.1.getD v 0 = seen.count v
  nodup : st.2.toList.Nodup
  mem : ∀ v, v ∈ st.2.toList ↔ v ∈ seen

theorem CInv.step {seen : List Nat} {st : Array Nat × Array Nat} (h : CInv seen st) (v : Nat) (hv : v < 4194304) :
    CInv (seen ++ [v]) (cstep st v) := by
  constructor
  · simp [cstep, h.size]
  · intro w hw
    simp only [cstep, getD_modify, List.count_append, List.count_cons, List.count_nil]
    by_cases hvw : v = w
    · subst hvw; simp [h.size, hv, h.cnt v hv]
    · simp [hvw, h.cnt w hw]
  · simp only [cstep]
    by_cases h0 : st.1.getD v 0 = 0
    · rw [if_pos h0, Array.toList_push]
      rw [h.cnt v hv] at h0
      have hnm : v ∉ st.2.toList := by rw [h.mem]; exact List.count_eq_zero.mp h0
      rw [List.nodup_append]
      refine ⟨h.nodup, by simp, ?_⟩
      intro a ha b hb'
      simp at hb'; subst hb'
      intro hab; subst hab; exact hnm ha
    · rw [if_neg h0]; exact h.nodup
  · intro w
    simp only [cstep]
    by_cases h0 : st.1.getD v 0 = 0
    · rw [if_pos h0, Array.toList_push]; simp [h.mem]
    · rw [if_neg h0, h.mem]
      rw [h.cnt v hv] at h0
      have : v ∈ seen := List.count_pos_iff.mp (by omega)
      simp only [List.mem_append, List.mem_singleton]
      constructor
      · exact Or.inl
      · rintro (hw | hw)
        · exact hw
        · rw [hw]; exact this

theorem CInv.fold (vals : List Nat) : ∀ (seen : List Nat) (st : Array Nat × Array Nat), CInv seen st →
    (∀ v ∈ vals, v < 4194304) → CInv (seen ++ vals) (vals.foldl cstep st) := by
  induction vals with
  | nil => intro seen st h _; simpa using h
  | cons v tl ih =>
    intro seen st h hv
    rw [List.foldl_cons]
    have := ih (seen ++ [v]) (cstep st v) (h.step v (hv v (by simp))) (fun w hw => hv w (by simp [hw]))
    simpa using this

theorem CInv.init : CInv [] (Array.replicate ALIAS_MAP_SIZE 0, #[]) := by
  constructor
  · simp [ALIAS_MAP_SIZE]
  · intro v _; rw [getD_replicate_zero]; rfl
  · simp
  · simp

end Kanzi.UTF
