/-
Model of the UTF-8 aliasing codec `transform.UTFCodec` (v2/transform/UTFCodec.go), slice `utf`, property C13.

  * `utfMaxEncodedLen`              Go `UTFCodec.MaxEncodedLen`
  * `sizesTable`, `utfSize`         Go `_UTF_SIZES`
  * `packVal`, `pack`               Go `packUTF`
  * `unpack0`, `unpack1`            Go `unpackUTF0` (bitstream version < 4) and `unpackUTF1`
  * `validate`                      Go `validateUTF`
  * `utfForward dt src n`           Go `UTFCodec.Forward(src, dst)` with `len(dst) = n`
  * `utfInverse v3 src n`           Go `UTFCodec.Inverse(src, dst)` with `len(dst) = n`
  * `utfCtxWrite`                   the `dataType` entry Forward stores in its ctx

Core Lean only (linked into `kmodel`).  Bytes are `Nat` (< 256).  Conventions as in Model/RLT.lean, whose
`Out` (`.ok` / `.err class` / `.fault`), `Res` and `wr` are reused: the source is an `Array Nat` read
through `src[i]?`, the destination is the `Array Nat` of the bytes written so far (`out.size` is the Go
`dstIdx`).  EVERY slice access of the Go code is modelled with its bounds check and yields `.fault` when
the Go code would panic; loops carry fuel (one unit per Go iteration) and running out of fuel is a
`.fault "fuel"` too, so "never `.fault`" also says the fuel suffices.

Two places of the Go code write bytes beyond `dstIdx` that are overwritten (or left beyond the returned
length) afterwards; the model keeps only `dst[0:dstIdx]` but checks the bounds of the real stores:
  * Forward, "Emit aliases": `dst[dstIdx] = byte(alias); dstIdx++; dst[dstIdx] = byte(alias>>8);
    dstIdx += int(alias>>16)`: two stores (both bounds-checked here), advance by 1 or 2;
  * Inverse, "Emit data": `copy(dst[dstIdx:], s.value[:4]); dstIdx += int(s.length)` under the loop guard
    `dstIdx < len(dst)-4` (so the copy is never truncated): the model appends `value[:length]`.
`dst[0]` / `dst[1]` of Forward are stored after the body; the model reserves two placeholder bytes and
sets them at the end.

The context of `NewUTFCodecWithCtx` enters through two values, explicit parameters here:
  `dt`  Forward: the `dataType` entry (0 = DT_UNDEFINED = no ctx, no entry, or an explicit DT_UNDEFINED);
  `v3`  Inverse: the `bsVersion` entry is present and `< 4` (`unpackUTF0` instead of `unpackUTF1`).
Not modelled: the aliasing test `&src[0] == &dst[0]` (callers own two distinct buffers) and the values
`(read, written)` returned next to a non-nil error.
-/
import Kanzi.Model.RLT

namespace Kanzi.UTF
open Kanzi.RLT (Out Res wr fq DT_UNDEFINED DT_UTF8)

/-! ## constants -/

def MIN_BLOCKSIZE : Nat := 1024
/-- length of `symb` (Forward) and `m` (Inverse) -/
def MAX_SYMBOLS : Nat := 32768
/-- length of `aliasMap` -/
def ALIAS_MAP_SIZE : Nat := 1 <<< 22

/-- Go: `UTFCodec.MaxEncodedLen` -/
def utfMaxEncodedLen (srcLen : Nat) : Nat := srcLen + 8192

/-- Go: `_UTF_SIZES` -/
def sizesTable : List Nat := [
  1, 1, 1, 1, 1, 1, 1, 1, 1, 1, 1, 1, 1, 1, 1, 1,
  1, 1, 1, 1, 1, 1, 1, 1, 1, 1, 1, 1, 1, 1, 1, 1,
  1, 1, 1, 1, 1, 1, 1, 1, 1, 1, 1, 1, 1, 1, 1, 1,
  1, 1, 1, 1, 1, 1, 1, 1, 1, 1, 1, 1, 1, 1, 1, 1,
  1, 1, 1, 1, 1, 1, 1, 1, 1, 1, 1, 1, 1, 1, 1, 1,
  1, 1, 1, 1, 1, 1, 1, 1, 1, 1, 1, 1, 1, 1, 1, 1,
  1, 1, 1, 1, 1, 1, 1, 1, 1, 1, 1, 1, 1, 1, 1, 1,
  1, 1, 1, 1, 1, 1, 1, 1, 1, 1, 1, 1, 1, 1, 1, 1,
  0, 0, 0, 0, 0, 0, 0, 0, 0, 0, 0, 0, 0, 0, 0, 0,
  0, 0, 0, 0, 0, 0, 0, 0, 0, 0, 0, 0, 0, 0, 0, 0,
  0, 0, 0, 0, 0, 0, 0, 0, 0, 0, 0, 0, 0, 0, 0, 0,
  0, 0, 0, 0, 0, 0, 0, 0, 0, 0, 0, 0, 0, 0, 0, 0,
  0, 0, 2, 2, 2, 2, 2, 2, 2, 2, 2, 2, 2, 2, 2, 2,
  2, 2, 2, 2, 2, 2, 2, 2, 2, 2, 2, 2, 2, 2, 2, 2,
  3, 3, 3, 3, 3, 3, 3, 3, 3, 3, 3, 3, 3, 3, 3, 3,
  4, 4, 4, 4, 4, 0, 0, 0, 0, 0, 0, 0, 0, 0, 0, 0]

def sizesArr : Array Nat := sizesTable.toArray

/-- Go: `_UTF_SIZES[b]` (`b` is a byte) -/
def utfSize (b : Nat) : Nat := sizesArr.getD b 0

/-! ## pack / unpack -/

/-- Go: `packUTF` on the bytes `in[0..3]` (only `in[0 .. s-1]` are read): `(s, *out)` -/
def packVal (b0 b1 b2 b3 : Nat) : Nat × Nat :=
  if utfSize b0 = 1 then (1, b0)
  else if utfSize b0 = 2 then (2, (1 <<< 19) ||| (b0 <<< 8) ||| b1)
  else if utfSize b0 = 3 then
    (3, (2 <<< 19) ||| ((b0 &&& 0x0F) <<< 12) ||| ((b1 &&& 0x3F) <<< 6) ||| (b2 &&& 0x3F))
  else if utfSize b0 = 4 then
    (4, (4 <<< 19) ||| ((b0 &&& 0x07) <<< 18) ||| ((b1 &&& 0x3F) <<< 12) ||| ((b2 &&& 0x3F) <<< 6) ||| (b3 &&& 0x3F))
  else (0, 0)

/-- Go: `packUTF(src[i:], &val)`: panics when `in[0 .. s-1]` is not inside `src` -/
def pack (src : Array Nat) (i : Nat) : Out (Nat × Nat) :=
  match src[i]? with
  | none => .fault "src-index"
  | some b0 =>
    if i + utfSize b0 ≤ src.size then
      .ok (packVal b0 (src.getD (i + 1) 0) (src.getD (i + 2) 0) (src.getD (i + 3) 0))
    else .fault "src-index"

/-- Go: `unpackUTF0(in, out)`: the bytes `out[0:s]` (`[]` = the invalid value `s = 0`) -/
def unpack0 (v : Nat) : List Nat :=
  let s := (v >>> 21) + 1
  if s = 1 then [v % 256]
  else if s = 2 then [(v >>> 8) % 256, v % 256]
  else if s = 3 then [((v >>> 12) &&& 0x0F) ||| 0xE0, ((v >>> 6) &&& 0x3F) ||| 0x80, (v &&& 0x3F) ||| 0x80]
  else if s = 4 then
    [((v >>> 18) &&& 0x07) ||| 0xF0, ((v >>> 12) &&& 0x3F) ||| 0x80, ((v >>> 6) &&& 0x3F) ||| 0x80, (v &&& 0x3F) ||| 0x80]
  else []

/-- Go: `unpackUTF1(in, out)` (since bitstream version 4) -/
def unpack1 (v : Nat) : List Nat :=
  let sz := v >>> 19
  if sz = 0 then [v % 256]
  else if sz = 1 then [(v >>> 8) % 256, v % 256]
  else if sz = 2 then [((v >>> 12) &&& 0x0F) ||| 0xE0, ((v >>> 6) &&& 0x3F) ||| 0x80, (v &&& 0x3F) ||| 0x80]
  else if sz ≥ 4 ∧ sz ≤ 7 then
    [((v >>> 18) &&& 0x07) ||| 0xF0, ((v >>> 12) &&& 0x3F) ||| 0x80, ((v >>> 6) &&& 0x3F) ||| 0x80, (v &&& 0x3F) ||| 0x80]
  else []

/-! ## validateUTF -/

/-- Go: "check rules for 1 byte": `freqs0[0xC0] + freqs0[0xC1] + sum(freqs0[0xF5:]) != 0` -/
def bad1 (f0 : Array Nat) : Bool :=
  fq f0 0xC0 + fq f0 0xC1 + ((List.range 11).foldl (fun s k => s + fq f0 (0xF5 + k)) 0) ≠ 0

/-- Go: the unrolled loop of `validateUTF` from index `i` (`k` iterations left); `none` = the early
    `return false`; `f1` is `freqs1` flattened (`freqs1[a][b]` at `256 * a + b`) -/
def valLoop4 (b : Array Nat) : Nat → Nat → Array Nat → Array Nat → Nat → Option (Array Nat × Array Nat × Nat)
  | 0, _, f0, f1, prv => some (f0, f1, prv)
  | k + 1, i, f0, f1, prv =>
    let c0 := b.getD i 0
    let c1 := b.getD (i + 1) 0
    let c2 := b.getD (i + 2) 0
    let c3 := b.getD (i + 3) 0
    let f0' := (((f0.modify c0 (· + 1)).modify c1 (· + 1)).modify c2 (· + 1)).modify c3 (· + 1)
    let f1' := (((f1.modify (256 * prv + c0) (· + 1)).modify (256 * c0 + c1) (· + 1)).modify (256 * c1 + c2) (· + 1)).modify
      (256 * c2 + c3) (· + 1)
    if i % 4096 = 0 ∧ bad1 f0' then none else valLoop4 b k (i + 4) f0' f1' c3

/-- Go: the loop over the last `count - end4` bytes -/
def valLoop1 : List Nat → Array Nat → Array Nat → Nat → Array Nat × Array Nat
  | [], f0, f1, _ => (f0, f1)
  | c :: tl, f0, f1, prv => valLoop1 tl (f0.modify c (· + 1)) (f1.modify (256 * prv + c) (· + 1)) c

def sumRows (f1 : Array Nat) (lo n i : Nat) : Nat :=
  (List.range n).foldl (fun s k => s + fq f1 (256 * (lo + k) + i)) 0

/-- Go: what one iteration `i` of "check rules for first 2 bytes" adds to `sum` -/
def pairSum (f1 : Array Nat) (i : Nat) : Nat :=
  (if i < 0xA0 ∨ i > 0xBF then fq f1 (256 * 0xE0 + i) else 0) +
  (if i < 0x80 ∨ i > 0x9F then fq f1 (256 * 0xED + i) else 0) +
  (if i < 0x90 ∨ i > 0xBF then fq f1 (256 * 0xF0 + i) else 0) +
  (if i < 0x80 ∨ i > 0x8F then fq f1 (256 * 0xF4 + i) else 0) +
  (if i < 0x80 ∨ i > 0xBF then
     sumRows f1 0xC2 30 i + sumRows f1 0xE1 12 i + fq f1 (256 * 0xF1 + i) + fq f1 (256 * 0xF2 + i) +
     fq f1 (256 * 0xF3 + i) + fq f1 (256 * 0xEE + i) + fq f1 (256 * 0xEF + i)
   else 0)

/-- Go: `validateUTF(block)`.  `sum` only grows, so "`sum != 0` after some iteration" is "some iteration
    adds a non-zero amount". -/
def validate (block : List Nat) : Bool :=
  let b := block.toArray
  let count := b.size
  let end4 := count / 4 * 4
  match valLoop4 b (end4 / 4) 0 (Array.replicate 256 0) (Array.replicate 65536 0) 0 with
  | none => false
  | some r =>
    let r2 := if end4 ≠ count then valLoop1 (block.drop end4) r.1 r.2.1 r.2.2 else (r.1, r.2.1)
    if end4 ≠ count ∧ bad1 r2.1 then false
    else if (List.range 256).any (fun i => pairSum r2.2 i ≠ 0) then false
    else
      let sum2 := (List.range 64).foldl (fun s k => s + fq r2.1 (0x80 + k)) 0
      decide (sum2 ≥ count / 8)

/-! ## Forward -/

/-- Go: `for (start < 3) && (_UTF_SIZES[src[start]] == 0) { start++ }` (`k` = `3 - start`) -/
def headSkip (src : Array Nat) : Nat → Nat → Out Nat
  | 0, st => .ok st
  | k + 1, st =>
    match src[st]? with
    | none => .fault "src-index"
    | some b => if utfSize b = 0 then headSkip src k (st + 1) else .ok st

/-- Go: the computation of `start` (byte order mark test, else `headSkip`) -/
def headStart (src : Array Nat) : Out Nat :=
  match src[0]?, src[1]?, src[2]?, src[3]? with
  | some b0, some b1, some b2, some b3 =>
    -- binary.BigEndian.Uint32(src[0:]) & 0x00FFFFFF == 0x00EFBBBF
    if ((b0 <<< 24) ||| (b1 <<< 16) ||| (b2 <<< 8) ||| b3) &&& 0x00FFFFFF = 0x00EFBBBF then .ok 3
    else headSkip src 3 0
  | _, _, _, _ => .fault "src-index"

/-- Go: `s != 0` and the three "validation of longer sequences" conjuncts (`src[i+1]`, `src[i+2]`,
    `src[i+3]` were already read by `packUTF` when `s` is at least 3 / 3 / 4) -/
def seqOk (src : Array Nat) (i s : Nat) : Bool :=
  s ≠ 0 &&
  (s < 3 || (src.getD (i + 1) 0) &&& 0xC0 == 0x80) &&
  (s ≠ 3 || (src.getD (i + 2) 0) &&& 0xC0 == 0x80) &&
  (s ≠ 4 || (((src.getD (i + 2) 0) <<< 8) ||| (src.getD (i + 3) 0)) &&& 0xC0C0 == 0x8080)

/-- Go: the counting loop of Forward from `i` (`endI = count - 4`): returns `(aliasMap, symb[0:n])`.
    `aliasMap` holds the frequencies; `symb` the distinct packed values in order of first occurrence. -/
def countLoop (src : Array Nat) (endI : Nat) : Nat → Nat → Array Nat → Array Nat → Out (Array Nat × Array Nat)
  | 0, i, am, symb => if i < endI then .fault "fuel" else .ok (am, symb)
  | f + 1, i, am, symb =>
    if i < endI then
      (pack src i).bind fun p =>
        if p.2 ≥ am.size then .fault "alias-index"
        else
          let isNew := am.getD p.2 0 = 0
          if isNew ∧ symb.size ≥ MAX_SYMBOLS then .fault "symb-index"
          else
            let symb' := if isNew then symb.push p.2 else symb
            if seqOk src i p.1 ∧ (isNew → symb'.size < MAX_SYMBOLS) then
              countLoop src endI f (i + p.1) (am.modify p.2 (· + 1)) symb'
            else .err "invalid"
    else .ok (am, symb)

/-- Go comparison function of `slices.SortStableFunc` on `(freq, sym)`: `cmp(a, b) <= 0` -/
def rankLe (a b : Nat × Nat) : Bool := a.1 < b.1 || (a.1 == b.1 && a.2 ≤ b.2)

/-- Go: fill `symb[i].freq`, sort by increasing `(freq, sym)`, then enumerate from the last rank down:
    the `(freq, sym)` pairs in the order of the emitted symbol map -/
def ranked (am : Array Nat) (symb : List Nat) : List (Nat × Nat) :=
  ((symb.map fun s => (am.getD s 0, s)).mergeSort rankLe).reverse

/-- Go: the alias of the symbol of rank `i`: one byte below 128, else `0x10080 | (i<<1)&0xFF00 | i&0x7F`
    (bits 0..15 = the two bytes to emit, bit 16 = "two bytes") -/
def aliasCode (i : Nat) : Nat :=
  if i < 128 then i else 0x10080 ||| ((i <<< 1) &&& 0xFF00) ||| (i &&& 0x7F)

structure MapRes where
  am : Array Nat
  est : Nat
  out : Array Nat

/-- Go: "Emit map data": three bytes per symbol, the estimate, and the aliases stored into `aliasMap` -/
def mapLoop (dstLen : Nat) : List (Nat × Nat) → Nat → Array Nat → Nat → Array Nat → Out MapRes
  | [], _, am, est, out => .ok ⟨am, est, out⟩
  | p :: tl, i, am, est, out =>
    (wr dstLen out [(p.2 >>> 16) % 256, (p.2 >>> 8) % 256, p.2 % 256]).bind fun o =>
      if p.2 ≥ am.size then .fault "alias-index"
      else mapLoop dstLen tl (i + 1) (am.setIfInBounds p.2 (aliasCode i)) (est + (if i < 128 then p.1 else 2 * p.1)) o

/-- Go: "Emit aliases"; returns the final `(srcIdx, dst[0:dstIdx])` -/
def emitLoop (src : Array Nat) (endI dstLen : Nat) (am : Array Nat) : Nat → Nat → Array Nat → Out (Nat × Array Nat)
  | 0, i, out => if i < endI then .fault "fuel" else .ok (i, out)
  | f + 1, i, out =>
    if i < endI then
      (pack src i).bind fun p =>
        if p.2 ≥ am.size then .fault "alias-index"
        else
          let alias := am.getD p.2 0
          if out.size + 2 > dstLen then .fault "dst-index"
          else if alias >>> 16 = 0 then emitLoop src endI dstLen am f (i + p.1) (out ++ [alias % 256])
          else if alias >>> 16 = 1 then
            emitLoop src endI dstLen am f (i + p.1) (out ++ [alias % 256, (alias >>> 8) % 256])
          else .fault "alias-gap"   -- `dstIdx` would skip bytes: never happens (aliases are `aliasCode`s)
    else .ok (i, out)

/-- Go: `UTFCodec.Forward(src, dst)` with `len(dst) = dstLen` -/
def utfForward (dt : Nat) (src : List Nat) (dstLen : Nat) : Res :=
  if src.length = 0 ∨ dstLen = 0 then .ok []
  else if src.length < MIN_BLOCKSIZE then .err "small"
  else if dstLen < utfMaxEncodedLen src.length then .err "dst"
  else if dt ≠ DT_UNDEFINED ∧ dt ≠ DT_UTF8 then .err "type"
  else
    let a := src.toArray
    let count := a.size
    (headStart a).bind fun start =>
      if dt ≠ DT_UTF8 ∧ validate ((a.extract start (count - 4)).toList) = false then .err "notutf"
      else
        (countLoop a (count - 4) count start (Array.replicate ALIAS_MAP_SIZE 0) #[]).bind fun c =>
          let n := c.2.size
          if n = 0 then .err "notutf"
          else
            let maxTarget := count - count / 10
            if 3 * n + 6 ≥ maxTarget then .err "noimp"
            else
              (wr dstLen #[0, 0] [(n >>> 8) % 256, n % 256]).bind fun o =>
              (mapLoop dstLen (ranked c.1 c.2.toList) 0 c.1 (4 + 6 + 3 * n) o).bind fun m =>
                if m.est ≥ maxTarget then .err "noimp"
                else
                  (wr dstLen m.out (a.extract 0 start).toList).bind fun o2 =>
                  (emitLoop a (count - 4) dstLen m.am count start o2).bind fun e =>
                  (wr dstLen e.2 (a.extract e.1 count).toList).bind fun o3 =>
                    if o3.size ≥ maxTarget then .err "noimp"
                    else .ok (start % 256 :: (e.1 - (count - 4)) % 256 :: o3.toList.drop 2)

/-- Go: `(*this.ctx)["dataType"] = internal.DT_UTF8` is executed (a ctx being present) -/
def utfCtxWrite (dt : Nat) (src : List Nat) (dstLen : Nat) : Bool :=
  if src.length = 0 ∨ dstLen = 0 ∨ src.length < MIN_BLOCKSIZE ∨ dstLen < utfMaxEncodedLen src.length
      ∨ (dt ≠ DT_UNDEFINED ∧ dt ≠ DT_UTF8) then false
  else
    let a := src.toArray
    match headStart a with
    | .ok start => dt = DT_UTF8 ∨ validate ((a.extract start (a.size - 4)).toList) = true
    | _ => false

/-! ## Inverse -/

/-- Go: "Build inverse mapping": `m[0:n]` as the lists `value[:length]`; entries `m[n:]` stay zero
    (`length = 0`) -/
def buildMap (v3 : Bool) (src : Array Nat) : Nat → Nat → Array (List Nat) → Out (Array (List Nat))
  | 0, _, m => .ok m
  | k + 1, i, m =>
    match src[i]?, src[i + 1]?, src[i + 2]? with
    | some a, some b, some c =>
      let s := (a <<< 16) ||| (b <<< 8) ||| c
      let u := if v3 then unpack0 s else unpack1 s
      if u.isEmpty then .err "alias" else buildMap v3 src k (i + 3) (m.push u)
    | _, _, _ => .fault "src-index"

/-- Go: "Emit data"; returns the final `(srcIdx, dst[0:dstIdx])`; `dstEnd = len(dst) - 4` -/
def invLoop (src : Array Nat) (m : Array (List Nat)) (srcEnd dstEnd : Nat) :
    Nat → Nat → Array Nat → Out (Nat × Array Nat)
  | 0, i, out => if i < srcEnd ∧ out.size < dstEnd then .fault "fuel" else .ok (i, out)
  | f + 1, i, out =>
    if i < srcEnd ∧ out.size < dstEnd then
      match src[i]? with
      | none => .fault "src-index"
      | some al =>
        if al ≥ 128 then
          if i + 1 ≥ srcEnd then .err "data"
          else
            match src[i + 1]? with
            | none => .fault "src-index"
            | some hi =>
              let alias := (hi <<< 7) + (al &&& 0x7F)
              if alias ≥ MAX_SYMBOLS then .fault "map-index"
              else invLoop src m srcEnd dstEnd f (i + 2) (out ++ m.getD alias [])
        else invLoop src m srcEnd dstEnd f (i + 1) (out ++ m.getD al [])
    else .ok (i, out)

/-- Go: `for k := 0; k < n; k++ { dst[dstIdx] = src[srcIdx]; srcIdx++; dstIdx++ }` -/
def copyN (src : Array Nat) (dstLen : Nat) : Nat → Nat → Array Nat → Out (Array Nat)
  | 0, _, out => .ok out
  | k + 1, i, out =>
    match src[i]? with
    | none => .fault "src-index"
    | some x => (wr dstLen out [x]).bind fun o => copyN src dstLen k (i + 1) o

/-- Go: `UTFCodec.Inverse(src, dst)` with `len(dst) = dstLen` -/
def utfInverse (v3 : Bool) (src : List Nat) (dstLen : Nat) : Res :=
  if src.length = 0 ∨ dstLen = 0 then .ok []
  else if src.length < 4 then .err "small"
  else
    let a := src.toArray
    let count := a.size
    let start := (a.getD 0 0) &&& 0x03
    let adjust := (a.getD 1 0) &&& 0x03
    let n := ((a.getD 2 0) <<< 8) + a.getD 3 0
    if n = 0 ∨ n ≥ 32768 ∨ 4 + 3 * n > count then .err "mapsize"
    else
      (buildMap v3 a n 4 #[]).bind fun m =>
        let srcIdx := 4 + 3 * n
        let srcEnd := count - 4 + adjust
        if dstLen < 4 then .err "dstsize"
        else if srcEnd < srcIdx ∨ srcEnd > count ∨ srcIdx + start > count then .err "data"
        else
          (copyN a dstLen start srcIdx #[]).bind fun o =>
          (invLoop a m srcEnd (dstLen - 4) count (srcIdx + start) o).bind fun r =>
            if r.1 < srcEnd ∨ r.2.size + (count - srcEnd) > dstLen then .err "data"
            else (copyN a dstLen (count - srcEnd) r.1 r.2).bind fun o2 => .ok o2.toList

end Kanzi.UTF
