package main

// ans1: correspondence stream for the ORDER-1 mode of the ANS range codec (property C12).
// Every op runs the REAL entropy.NewANSRangeEncoder(obs, 1, chunkArg, logRange) / NewANSRangeDecoder(ibs, 1, chunkArg)
// (op a1f: entropy.NewEntropyEncoder / NewEntropyDecoder with ANS1_TYPE, the path the compressor takes)
// over real memory bitstreams; the canonical answer carries the exact encoded bytes (hex, or FNV-1a
// hash when long), which the Lean model (lean/Kanzi/Model/Ans1.lean via lean/Kanzi/Drv/Ans1.lean)
// must reproduce bit for bit.  Oracles on the real code: round trip, exact consumption (a 64-bit
// sentinel written right after the block is read back right after decoding, bit counters agree), no panic.

import (
	"bytes"
	"fmt"
	"math/rand"
	"strconv"
	"strings"

	kanzi "github.com/flanglet/kanzi-go/v2"
	"github.com/flanglet/kanzi-go/v2/entropy"
)

func init() {
	registerStream(&Stream{
		Name: "ans1",
		Rule: "a1: explicit blocks, every length 0..80 (raw path <= 32, quarters of 8..20 bytes, every len%4), lengths around 128 (ComputeHistogram switches to 4 cursors at quarter >= 32), random / skewed / two-symbol / all-equal / text-like / single-successor contexts / 256-symbol data, logRange 8..16 (effective 8..15), chunk argument 1024..; a1f: the same through EntropyCodecFactory (defaults: 4 MiB chunks, logRange 12); a1g: generated blocks (formula shared with the model) up to and across the smallest order-1 chunk size 1024<<8 = 262144 (last chunks of 1,2,3,4,5 bytes: F16). distinct_nontrivial = distinct ops whose answer is not an error.",
		Gen:  a1Gen,
		Exec: a1Exec,
	})
}

func a1GenBlock(ln, kind, par int, seed uint64) []byte {
	x := seed*2654435761 + 12345
	prev := 0
	b := make([]byte, ln)
	if par < 1 {
		par = 1
	}
	for i := range b {
		x = x*6364136223846793005 + 1442695040888963407
		v := int(x >> 33)
		var c int
		switch {
		case kind == 0:
			c = (7 + v%par) % 256
		case kind == 1:
			c = 48 + (prev+v%par)%64
		default:
			if (v/256)%par == 0 {
				c = v % 256
			} else {
				c = prev
			}
		}
		b[i] = byte(c)
		prev = c
	}
	return b
}

func a1Fnv(b []byte) uint64 {
	h := uint64(14695981039346656037)
	for _, c := range b {
		h = (h ^ uint64(c)) * 1099511628211
	}
	return h
}

func a1Exec(op string, res *Result) (out string) {
	defer func() {
		if r := recover(); r != nil {
			out = "panic"
			esViol(res, "entropy.ANSRangeEncoder.Write", "panic", fmt.Sprint(r))
		}
	}()
	w := strings.Fields(op)
	if len(w) == 0 {
		return "bad-op"
	}
	res.Tags = append(res.Tags, "op:"+w[0])
	var blk []byte
	var lr, chk int
	switch {
	case w[0] == "a1" && len(w) == 4:
		var e1, e2 error
		var ok bool
		lr, e1 = strconv.Atoi(w[1])
		chk, e2 = strconv.Atoi(w[2])
		blk, ok = esUnhex(w[3])
		if e1 != nil || e2 != nil || !ok {
			return "bad-op"
		}
	case w[0] == "a1g" && len(w) == 7:
		v := make([]int, 6)
		for i := range v {
			x, err := strconv.Atoi(w[i+1])
			if err != nil || x < 0 {
				return "bad-op"
			}
			v[i] = x
		}
		lr, chk = v[0], v[1]
		blk = a1GenBlock(v[2], v[3], v[4], uint64(v[5]))
	case w[0] == "a1f" && len(w) == 2: // through EntropyCodecFactory (default parameters)
		var ok bool
		blk, ok = esUnhex(w[1])
		if !ok {
			return "bad-op"
		}
		return a1Run(blk, 16384, 12, true, res)
	default:
		return "bad-op"
	}
	return a1Run(blk, uint(chk), uint(lr), false, res)
}

func a1Run(blk []byte, chunk, lr uint, factory bool, res *Result) string {
	obs, sink := esNewOBS()
	l := &esLogOBS{inner: obs}
	var e kanzi.EntropyEncoder
	var err error
	ctx := map[string]any{"entropy": "ANS1", "bsVersion": uint(6), "blockSize": uint(len(blk)), "size": uint(len(blk))}
	if factory {
		e, err = entropy.NewEntropyEncoder(l, ctx, entropy.ANS1_TYPE)
	} else {
		e, err = entropy.NewANSRangeEncoder(l, 1, chunk, lr)
	}
	if err != nil {
		return "err:ctor"
	}
	orig := append([]byte{}, blk...)
	if _, err = e.Write(blk); err != nil {
		esViol(res, "entropy.ANSRangeEncoder.Write", "error", fmt.Sprintf("ANS1 lr=%d chunk=%d len=%d: %v", lr, chunk, len(blk), err))
		return "err:encode"
	}
	e.Dispose()
	if !bytes.Equal(orig, blk) {
		esViol(res, "entropy.ANSRangeEncoder.Write", "input-modified", fmt.Sprintf("ANS1 len=%d", len(blk)))
	}
	bits := obs.Written()
	calls := l.calls
	obs.WriteBits(esSentinel, 64)
	obs.Close()
	full := sink.Bytes()
	nb := int((bits + 7) / 8)
	item := append([]byte{}, full[:nb]...)
	if bits%8 != 0 {
		item[nb-1] &= byte(0xFF << (8 - bits%8))
	}
	// header of the first chunk: everything before the VarInt that precedes the first 32-bit write
	hdr := uint64(0)
	if len(blk) > 32 {
		pos := uint64(0)
		for k, c := range calls {
			if c.kind == 'B' && c.count == 32 {
				payload := uint64(0)
				if k+4 < len(calls) && calls[k+4].kind == 'A' {
					payload = uint64(calls[k+4].count) / 8
				}
				vi := uint64(8)
				for p := payload; p >= 128; p >>= 7 {
					vi += 8
				}
				hdr = pos - vi
				break
			}
			pos += uint64(c.count)
		}
	}
	ibs := esNewIBS(full)
	var d kanzi.EntropyDecoder
	if factory {
		d, err = entropy.NewEntropyDecoder(ibs, ctx, entropy.ANS1_TYPE)
	} else {
		d, err = entropy.NewANSRangeDecoder(ibs, 1, chunk)
	}
	if err != nil {
		return "err:ctor"
	}
	got := make([]byte, len(blk))
	n, rerr := d.Read(got)
	dec := "ok"
	var sent uint64
	if rerr == nil {
		sent = ibs.ReadBits(64)
	}
	if rerr != nil || n != len(blk) || !bytes.Equal(got, blk) || sent != esSentinel || ibs.Read() != bits+64 {
		dec = "BAD"
		esViol(res, "entropy.ANSRangeDecoder.Read", "roundtrip", fmt.Sprintf("ANS1 lr=%d chunk=%d len=%d: read %d err %v sentinel %x consumed %d of %d", lr, chunk, len(blk), n, rerr, sent, int64(ibs.Read())-64, bits))
	}
	res.Nontrivial = true
	res.Tags = append(res.Tags, fmt.Sprintf("lr:%d", lr), fmt.Sprintf("mod4:%d", len(blk)%4))
	switch {
	case len(blk) <= 32:
		res.Tags = append(res.Tags, "path:raw")
	case len(blk) > int(min(chunk<<8, 1<<27)):
		res.Tags = append(res.Tags, "path:multi-chunk")
	default:
		res.Tags = append(res.Tags, "path:one-chunk")
	}
	res.Sample = map[string]any{"lr": lr, "chunk": chunk, "len": len(blk), "bits": bits, "hdr": hdr}
	img := esHex(item)
	if len(item) > 1024 {
		img = fmt.Sprintf("f:%016x", a1Fnv(item))
	}
	return fmt.Sprintf("ok bits=%d hdr=%d %s dec=%s", bits, hdr, img, dec)
}

// ---------- generator ----------

func a1Fill(r *rand.Rand, b []byte, shape int) string {
	switch shape {
	case 0:
		r.Read(b)
		return "random"
	case 1:
		for j := range b {
			b[j] = byte(int(r.ExpFloat64() * 6))
		}
		return "skewed"
	case 2:
		for j := range b {
			if r.Intn(10) == 0 {
				b[j] = 200
			} else {
				b[j] = 17
			}
		}
		return "two-symbol"
	case 3:
		c := byte(r.Intn(256))
		for j := range b {
			b[j] = c
		}
		return "all-equal"
	case 4:
		for j := range b {
			b[j] = "etaoin shrdlu,.\nETAOIN"[r.Intn(22)]
		}
		return "text"
	case 5: // every context has a single successor (a cycle)
		p := 2 + r.Intn(7)
		o := r.Intn(200)
		for j := range b {
			b[j] = byte(o + j%p)
		}
		return "single-successor"
	case 6: // all 256 symbols
		o := r.Intn(256)
		for j := range b {
			b[j] = byte(o + j*(1+2*r.Intn(2)))
		}
		return "all-symbols"
	default: // zeros and a few others: context 0 is also the start context
		for j := range b {
			if r.Intn(3) == 0 {
				b[j] = byte(r.Intn(4))
			}
		}
		return "zeros"
	}
}

func a1Gen(r *rand.Rand, tier string, n int, emit func(op string, tags ...string)) {
	thorough := tier == "thorough"
	reps := 1
	if thorough {
		reps = 12
	}
	// every small length, every shape
	for ln := 0; ln <= 80; ln++ {
		for shape := 0; shape < 8; shape++ {
			for k := 0; k < reps; k++ {
				if ln <= 32 && k >= 2 { // raw copy: nothing but the length matters
					break
				}
				b := make([]byte, ln)
				name := a1Fill(r, b, shape)
				lr := 8 + r.Intn(9)
				if k == 1 {
					lr = 12
				}
				emit(fmt.Sprintf("a1 %d 1024 %s", lr, esHex(b)), "family:small-"+name)
			}
		}
	}
	// around the 4-cursor switch of ComputeHistogram (quarter = 32) and larger
	for li, ln := range []int{120, 124, 127, 128, 129, 130, 131, 132, 135, 200, 255, 256, 257, 511, 1000, 1023, 1024, 1025, 2047, 4099} {
		for shape := 0; shape < 8; shape++ {
			if !thorough && (li+shape)%2 == 1 {
				continue
			}
			b := make([]byte, ln)
			name := a1Fill(r, b, shape)
			emit(fmt.Sprintf("a1 %d 1024 %s", 8+r.Intn(9), esHex(b)), "family:medium-"+name)
		}
	}
	nr := 150
	if thorough {
		nr = 6000
	}
	for i := 0; i < nr; i++ {
		ln := 33 + r.Intn(700)
		if r.Intn(5) == 0 {
			ln = 33 + r.Intn(5000)
		}
		b := make([]byte, ln)
		name := a1Fill(r, b, r.Intn(8))
		chk := 1024
		if r.Intn(4) == 0 {
			chk = 1024 << uint(r.Intn(18))
		}
		emit(fmt.Sprintf("a1 %d %d %s", 8+r.Intn(9), chk, esHex(b)), "family:random-"+name)
	}
	// through the factory (what the compressor uses): default chunk (4 MiB) and log range
	nf := 40
	if thorough {
		nf = 400
	}
	for i := 0; i < nf; i++ {
		b := make([]byte, 20+r.Intn(300))
		name := a1Fill(r, b, r.Intn(8))
		emit("a1f "+esHex(b), "family:factory-"+name)
	}
	// constructor errors
	for _, a := range [][2]int{{7, 1024}, {17, 1024}, {12, 1023}, {12, 1<<27 + 1}, {12, 1 << 27}} {
		emit(fmt.Sprintf("a1 %d %d %s", a[0], a[1], esHex(make([]byte, 40))), "family:ctor")
	}
	// generated blocks: up to and across the chunk boundary (262144 for chunk argument 1024)
	cs := 262144
	emit(fmt.Sprintf("a1g 12 1024 %d 1 3 %d", cs, r.Intn(1000)), "family:chunk-exact")
	for _, d := range []int{1, 2, 3, 4, 5, 37} {
		if !thorough && d > 3 {
			continue
		}
		emit(fmt.Sprintf("a1g 12 1024 %d 1 %d %d", cs+d, 2+r.Intn(3), r.Intn(1000)), "family:chunk-plus")
	}
	emit(fmt.Sprintf("a1g 12 1024 %d 2 40 %d", cs-1, r.Intn(1000)), "family:chunk-minus")
	emit(fmt.Sprintf("a1g 9 1024 %d 0 5 %d", cs+4, r.Intn(1000)), "family:chunk-plus")
	for i := 0; i < 4; i++ {
		emit(fmt.Sprintf("a1g %d 1024 %d %d %d %d", 8+r.Intn(9), 5000+r.Intn(60000), r.Intn(3), 1+r.Intn(12), r.Intn(1000)), "family:gen-medium")
	}
	if thorough {
		emit(fmt.Sprintf("a1g 12 1024 %d 1 4 %d", 2*cs+2, r.Intn(1000)), "family:three-chunks")
		emit(fmt.Sprintf("a1g 16 1024 %d 0 24 %d", cs+2, r.Intn(1000)), "family:chunk-plus")
		emit(fmt.Sprintf("a1g 12 2048 %d 1 3 %d", 2*cs+1, r.Intn(1000)), "family:chunk-plus")
		for i := 0; i < 40; i++ {
			emit(fmt.Sprintf("a1g %d 1024 %d %d %d %d", 8+r.Intn(9), 5000+r.Intn(100000), r.Intn(3), 1+r.Intn(40), r.Intn(1000)), "family:gen-medium")
		}
	}
	_ = n
}
