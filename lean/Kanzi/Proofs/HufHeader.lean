/-
Proofs for the Huffman codec, part 1: the signed Exp-Golomb byte codec and the transmitted
header (alphabet + code length deltas).  Restated in `Kanzi/Properties/C12_huffman.lean`.
-/
import Kanzi.Model.Huffman
import Kanzi.Proofs.EntSmall

namespace Kanzi.Huffman
open Kanzi.Bits Kanzi.EntSmall

/-! ### decoders only look at a prefix -/

theorem readBits_append (n : Nat) (b rest : Bits) (v : Nat) (r : Bits)
    (h : readBits n b = some (v, r)) : readBits n (b ++ rest) = some (v, r ++ rest) := by
  unfold readBits at h ⊢
  split at h
  · rename_i hle
    simp only [Option.some.injEq, Prod.mk.injEq] at h
    rw [if_pos (by rw [List.length_append]; omega)]
    rw [List.take_append_of_le_length hle, List.drop_append_of_le_length hle, h.1, h.2]
  · cases h

theorem egSkip_append : ∀ (b : Bits) (l v : Nat) (r rest : Bits),
    egSkip b l = some (v, r) → egSkip (b ++ rest) l = some (v, r ++ rest) := by
  intro b
  induction b with
  | nil => intro l v r rest h; simp [egSkip] at h
  | cons x xs ih =>
    intro l v r rest h
    cases x with
    | true =>
      simp only [egSkip, Option.some.injEq, Prod.mk.injEq] at h
      simp only [List.cons_append, egSkip, h.1, h.2]
    | false =>
      simp only [egSkip] at h
      simp only [List.cons_append, egSkip]
      exact ih _ _ _ _ h

theorem egDecodeByte_append (b rest : Bits) (v : Nat) (r : Bits)
    (h : egDecodeByte b = some (v, r)) : egDecodeByte (b ++ rest) = some (v, r ++ rest) := by
  cases b with
  | nil => simp [egDecodeByte] at h
  | cons x xs =>
    cases x with
    | true =>
      simp only [egDecodeByte, Option.some.injEq, Prod.mk.injEq] at h
      simp only [List.cons_append, egDecodeByte, h.1, h.2]
    | false =>
      simp only [egDecodeByte] at h
      simp only [List.cons_append, egDecodeByte]
      cases hs : egSkip xs 1 with
      | none => rw [hs] at h; cases h
      | some p =>
        obtain ⟨l, r1⟩ := p
        rw [hs] at h
        rw [egSkip_append xs 1 l r1 rest hs]
        simp only at h ⊢
        cases hr : readBits ((l &&& 7) + 1) r1 with
        | none => rw [hr] at h; cases h
        | some p2 =>
          obtain ⟨val, r2⟩ := p2
          rw [hr] at h
          rw [readBits_append _ r1 rest val r2 hr]
          simp only [Option.some.injEq, Prod.mk.injEq] at h ⊢
          exact ⟨h.1, by rw [h.2]⟩

/-! ### Exp-Golomb: every byte value round trips -/

set_option maxRecDepth 100000 in
theorem eg_closed0 : ∀ d, d < 64 → egDecodeByte (egEncodeByte d) = some (d, []) := by decide

set_option maxRecDepth 100000 in
theorem eg_closed1 : ∀ d, d < 64 → egDecodeByte (egEncodeByte (d + 64)) = some (d + 64, []) := by decide

set_option maxRecDepth 100000 in
theorem eg_closed2 : ∀ d, d < 64 → egDecodeByte (egEncodeByte (d + 128)) = some (d + 128, []) := by decide

set_option maxRecDepth 100000 in
theorem eg_closed3 : ∀ d, d < 64 → egDecodeByte (egEncodeByte (d + 192)) = some (d + 192, []) := by decide

theorem eg_closed (d : Nat) (h : d < 256) : egDecodeByte (egEncodeByte d) = some (d, []) := by
  by_cases h0 : d < 64
  · exact eg_closed0 d h0
  · by_cases h1 : d < 128
    · have := eg_closed1 (d - 64) (by omega)
      rwa [show d - 64 + 64 = d by omega] at this
    · by_cases h2 : d < 192
      · have := eg_closed2 (d - 128) (by omega)
        rwa [show d - 128 + 128 = d by omega] at this
      · have := eg_closed3 (d - 192) (by omega)
        rwa [show d - 192 + 192 = d by omega] at this

/-- `DecodeByte` after `EncodeByte(d)` returns `d` and consumes exactly the written bits -/
theorem eg_roundtrip (d : Nat) (h : d < 256) (rest : Bits) :
    egDecodeByte (egEncodeByte d ++ rest) = some (d, rest) := by
  have := egDecodeByte_append _ rest _ _ (eg_closed d h)
  simpa using this

set_option maxRecDepth 100000 in
/-- at most 16 bits per value (and at least one) -/
theorem eg_length0 : ∀ d, d < 256 → 1 ≤ (egEncodeByte d).length ∧ (egEncodeByte d).length ≤ 16 := by
  decide

/-! ### the code lengths -/

/-- the table `readLengths` ends with: `sizes[s]` stored for every symbol of the alphabet, on
    top of `tbl` -/
def storeSizes (sizes : List Nat) (a tbl : List Nat) : List Nat :=
  a.foldl (fun t s => t.set s (sizes.getD s 0)) tbl

theorem readSizes_enc (sizes : List Nat) (rest : Bits) : ∀ (a : List Nat) (prev : Nat) (tbl : List Nat),
    (∀ s ∈ a, 1 ≤ sizes.getD s 0 ∧ sizes.getD s 0 ≤ 12) → prev < 256 →
    readSizes a prev (encodeSizes sizes a prev ++ rest) tbl = some (storeSizes sizes a tbl, rest) := by
  intro a
  induction a with
  | nil => intro prev tbl _ _; simp [readSizes, encodeSizes, storeSizes]
  | cons s ss ih =>
    intro prev tbl hs hp
    have h1 := hs s List.mem_cons_self
    simp only [encodeSizes, readSizes, List.append_assoc]
    rw [eg_roundtrip _ (Nat.mod_lt _ (by decide))]
    have he : (prev + (sizes.getD s 0 + 256 - prev) % 256) % 256 = sizes.getD s 0 := by omega
    simp only [he]
    rw [if_neg (by omega)]
    rw [ih (sizes.getD s 0) _ (fun x hx => hs x (List.mem_cons_of_mem _ hx)) (by omega)]
    simp [storeSizes]

theorem storeSizes_length (sizes : List Nat) : ∀ (a tbl : List Nat),
    (storeSizes sizes a tbl).length = tbl.length := by
  intro a
  induction a with
  | nil => intro tbl; rfl
  | cons s ss ih => intro tbl; simp only [storeSizes, List.foldl_cons] at ih ⊢; rw [ih]; simp

theorem storeSizes_getD (sizes : List Nat) : ∀ (a tbl : List Nat) (x : Nat), x < tbl.length →
    (storeSizes sizes a tbl).getD x 0 = if x ∈ a then sizes.getD x 0 else tbl.getD x 0 := by
  intro a
  induction a with
  | nil => intro tbl x _; simp [storeSizes]
  | cons s ss ih =>
    intro tbl x hx
    simp only [storeSizes, List.foldl_cons] at ih ⊢
    rw [ih _ x (by simpa using hx)]
    by_cases hxs : x ∈ ss
    · simp [hxs]
    · simp only [hxs, if_false, List.mem_cons, or_false]
      by_cases he : x = s
      · subst he; rw [if_pos rfl]; exact getD_set_self _ _ _ hx
      · rw [if_neg he, getD_set_ne _ _ _ _ (Ne.symm he)]

/-- bits written for the lengths: between 1 and 16 per symbol -/
theorem encodeSizes_length (sizes : List Nat) : ∀ (a : List Nat) (prev : Nat),
    a.length ≤ (encodeSizes sizes a prev).length ∧ (encodeSizes sizes a prev).length ≤ 16 * a.length := by
  intro a
  induction a with
  | nil => intro _; simp [encodeSizes]
  | cons s ss ih =>
    intro prev
    have h := eg_length0 ((sizes.getD s 0 + 256 - prev) % 256) (Nat.mod_lt _ (by decide))
    have h2 := ih (sizes.getD s 0)
    simp only [encodeSizes, List.length_append, List.length_cons]
    omega

end Kanzi.Huffman
