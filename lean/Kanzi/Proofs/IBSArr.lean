/-
Layer 1, continued: `ReadArray`.  The abstract machine reads an array as
  aligned:   pull if empty; single bytes while the current word is not empty; `bulk` (whole bytes
             taken directly from the remaining bytes, 64 bits at a time); bytes; last bits
  unaligned: `rem / 64` word steps; bytes; last bits
and the concrete loops (buffer copies with refills, the 256-bit fast path) are simulated by it.
-/
import Kanzi.Proofs.IBSOps

namespace Kanzi.IBS

structure ALp where
  st : A
  out : List Byte
  rem : Nat

inductive ALR where
  | ok (l : ALp)
  | panic (e : ErrKind) (a : A)

def ALR.bind (r : ALR) (f : ALp → ALR) : ALR :=
  match r with
  | .ok l => f l
  | .panic e a => .panic e a

def absL (l : Lp) : ALp := ⟨abs l.st, l.out, l.rem⟩

def SimL (r : LR) (r' : ALR) : Prop :=
  match r, r' with
  | .ok l, .ok l' => absL l = l' ∧ Inv l.st ∧ Fresh l.st
  | .panic e s, .panic e' a => e = e' ∧ abs s = a ∧ Inv s
  | _, _ => False

theorem SimL.bind {r : LR} {r' : ALR} {f : Lp → LR} {f' : ALp → ALR} (h : SimL r r')
    (hf : ∀ l, Inv l.st → Fresh l.st → SimL (f l) (f' (absL l))) :
    SimL (r.bind f) (r'.bind f') := by
  cases r with
  | ok l =>
    cases r' with
    | ok l' =>
      obtain ⟨h1, h2, h3⟩ := h
      subst h1
      exact hf l h2 h3
    | panic e a => exact h.elim
  | panic e s =>
    cases r' with
    | ok l' => exact h.elim
    | panic e' a => exact h

def A.byteStep (l : ALp) : ALR :=
  match (A.readBits l.st 8).1 with
  | .val v => .ok ⟨(A.readBits l.st 8).2, l.out ++ [v.setWidth 8], l.rem - 8⟩
  | .panic e => .panic e (A.readBits l.st 8).2

def A.emptyCur : Nat → ALp → ALR
  | 0, l => .panic .fuel l.st
  | fuel + 1, l =>
    if l.st.avail ≠ 0 ∧ l.rem ≥ 8 then (A.byteStep l).bind (A.emptyCur fuel) else .ok l

def A.tailBytes : Nat → ALp → ALR
  | 0, l => .panic .fuel l.st
  | fuel + 1, l => if l.rem ≥ 8 then (A.byteStep l).bind (A.tailBytes fuel) else .ok l

def A.tailBits (l : ALp) : ALR :=
  if l.rem > 0 then
    match (A.readBits l.st l.rem).1 with
    | .val v => .ok ⟨(A.readBits l.st l.rem).2, l.out ++ [(v <<< (8 - l.rem)).setWidth 8], 0⟩
    | .panic e => .panic e (A.readBits l.st l.rem).2
  else .ok l

/-- take `b` whole bytes directly from the remaining bytes -/
def A.skip (a : A) (b : Nat) : A :=
  { a with rest := a.rest.drop b, cnt := a.cnt + 8 * (b : Int) }

/-- whole bytes taken directly from the remaining bytes: as many 64-bit groups as `rem` holds;
    if the bytes do not suffice everything is consumed before the end is noticed -/
def A.bulk (l : ALp) : ALR :=
  if l.rem / 8 > l.st.rest.length then .panic l.st.ending (l.st.skip l.st.rest.length)
  else
    .ok ⟨l.st.skip (l.rem / 64 * 8), l.out ++ l.st.rest.take (l.rem / 64 * 8),
      l.rem - 8 * (l.rem / 64 * 8)⟩

def A.alignedStart (l : ALp) : ALR :=
  if l.st.avail = 0 then
    match l.st.pull.1 with
    | some e => .panic e l.st.pull.2
    | none => .ok { l with st := l.st.pull.2 }
  else .ok l

def A.aligned (l : ALp) : ALR :=
  ((A.alignedStart l).bind (fun l1 => A.emptyCur (l1.st.avail / 8 + 2) l1)).bind A.bulk

/-- one word step of the unaligned loops (`r = 64 - a`) -/
def A.slowStep (r : Nat) (l : ALp) : ALR :=
  match l.st.pull.1 with
  | some e => .panic e l.st.pull.2
  | none =>
    if l.st.pull.2.avail < r then .panic l.st.ending l.st.pull.2
    else
      .ok ⟨l.st.pull.2.take r,
        l.out ++ wordBytes ((l.st.cur <<< r) ||| (l.st.pull.2.cur >>> (l.st.pull.2.avail - r))),
        l.rem - 64⟩

/-- `n` word steps -/
def A.words (r : Nat) : Nat → ALp → ALR
  | 0, l => .ok l
  | n + 1, l => (A.slowStep r l).bind (A.words r n)

theorem byteStep_sim (l : Lp) (hi : Inv l.st) (hf : Fresh l.st) :
    SimL (byteStep l) (A.byteStep (absL l)) := by
  obtain ⟨q1, q2, q3, q4⟩ := readBits_sim l.st 8 hi
  unfold byteStep A.byteStep
  have : (absL l).st = abs l.st := rfl
  rw [this, ← q1]
  cases hr : (readBits l.st 8).1 with
  | val v =>
    refine ⟨?_, q3, q4 hf ?_⟩
    · simp only [absL, q2]
    · intro e he; rw [hr] at he; cases he
  | panic e => exact ⟨rfl, q2, q3⟩

theorem emptyCur_sim : ∀ (fuel : Nat) (l : Lp), Inv l.st → Fresh l.st →
    SimL (emptyCur fuel l) (A.emptyCur fuel (absL l)) := by
  intro fuel
  induction fuel with
  | zero => intro l hi _; exact ⟨rfl, rfl, hi⟩
  | succ fuel ih =>
    intro l hi hf
    unfold emptyCur A.emptyCur
    have h1 : (absL l).st.avail = l.st.availBits := rfl
    have h2 : (absL l).rem = l.rem := rfl
    rw [h1, h2]
    split
    · exact SimL.bind (byteStep_sim l hi hf) ih
    · exact ⟨rfl, hi, hf⟩

theorem tailBytes_sim : ∀ (fuel : Nat) (l : Lp), Inv l.st → Fresh l.st →
    SimL (tailBytes fuel l) (A.tailBytes fuel (absL l)) := by
  intro fuel
  induction fuel with
  | zero => intro l hi _; exact ⟨rfl, rfl, hi⟩
  | succ fuel ih =>
    intro l hi hf
    unfold tailBytes A.tailBytes
    have h2 : (absL l).rem = l.rem := rfl
    rw [h2]
    split
    · exact SimL.bind (byteStep_sim l hi hf) ih
    · exact ⟨rfl, hi, hf⟩

theorem tailBits_sim (l : Lp) (hi : Inv l.st) (hf : Fresh l.st) :
    SimL (tailBits l) (A.tailBits (absL l)) := by
  obtain ⟨q1, q2, q3, q4⟩ := readBits_sim l.st l.rem hi
  unfold tailBits A.tailBits
  have h1 : (absL l).st = abs l.st := rfl
  have h2 : (absL l).rem = l.rem := rfl
  rw [h1, h2, ← q1]
  split
  · cases hr : (readBits l.st l.rem).1 with
    | val v =>
      refine ⟨?_, q3, q4 hf ?_⟩
      · simp only [absL, q2]
      · intro e he; rw [hr] at he; cases he
    | panic e => exact ⟨rfl, q2, q3⟩
  · exact ⟨rfl, hi, hf⟩

/-! ### the buffer copy loop -/

theorem setPos_lim (s : St) (hi : Inv s) (hf : Fresh s) :
    Inv { s with position := s.lim } ∧ ({ s with position := s.lim } : St).bufRest = [] ∧
    ({ s with position := s.lim } : St).count = s.count + 8 * (s.bufRest.length : Int) := by
  have hlen := bufRest_len s hi.lim_le
  have hb : ({ s with position := s.lim } : St).bufRest = [] := by
    simp only [St.bufRest, St.lim, List.drop_eq_nil_iff, List.length_take]; omega
  refine ⟨⟨hi.blen, hi.bpos, hi.mp, hi.lim_le, hi.avail_le, hi.ne, hi.pend, ?_, hi.cl⟩, hb, ?_⟩
  · intro _; rw [hb]; rfl
  · simp only [St.count, hlen]
    have := hf.2
    push_cast; omega

/-- shifting `b` bytes from the remaining bytes to the output does not change `bulk` -/
theorem A.bulk_shift (a : A) (out : List Byte) (rem b : Nat) (hb : b ≤ a.rest.length)
    (hq : rem / 8 > b) (h8 : b % 8 = 0 ∨ rem / 8 > a.rest.length) :
    A.bulk ⟨a.skip b, out ++ a.rest.take b, rem - 8 * b⟩ = A.bulk ⟨a, out, rem⟩ := by
  unfold A.bulk
  simp only [A.skip, List.length_drop]
  have hq' : (rem - 8 * b) / 8 = rem / 8 - b := by omega
  by_cases hgt : rem / 8 > a.rest.length
  · have h1 : (rem - 8 * b) / 8 > a.rest.length - b := by omega
    rw [if_pos h1, if_pos hgt]
    congr 1
    apply A.ext' <;> try rfl
    · simp only; push_cast; omega
    · simp only [List.drop_drop]
      rw [List.drop_of_length_le (by omega), List.drop_of_length_le (by omega)]
  · have h1 : ¬ (rem - 8 * b) / 8 > a.rest.length - b := by omega
    rw [if_neg h1, if_neg hgt]
    have hb8 : b % 8 = 0 := by rcases h8 with h | h; exact h; exact absurd h hgt
    have hr : (rem - 8 * b) / 64 * 8 = rem / 64 * 8 - b := by omega
    have hle : b ≤ rem / 64 * 8 := by omega
    congr 1
    refine ALp.mk.injEq .. |>.mpr ⟨?_, ?_, ?_⟩
    · apply A.ext' <;> try rfl
      · simp only; rw [hr]; push_cast; omega
      · simp only [List.drop_drop, hr]; congr 1; omega
    · rw [hr, List.append_assoc]
      congr 1
      have : rem / 64 * 8 = b + (rem / 64 * 8 - b) := by omega
      rw [this, List.take_add]
      simp
    · rw [hr]; omega

theorem abs_fields (s : St) : (abs s).closed = s.closed ∧ (abs s).cnt = s.count ∧
    (abs s).avail = s.availBits ∧ (abs s).cur = s.current ∧ (abs s).ending = s.src.term.err :=
  ⟨rfl, rfl, rfl, rfl, rfl⟩

/-- one pass of the copy loop whose refill fails -/
theorem copy_step_err (s : St) (hi : Inv s) (hf : Fresh s) (e : ErrKind)
    (hr : (refill { s with position := s.lim }).1 = some e) :
    e = (abs s).ending ∧ (abs s).rest = s.bufRest ∧
    abs (refill { s with position := s.lim }).2 = (abs s).skip s.bufRest.length ∧
    Inv (refill { s with position := s.lim }).2 := by
  have hc : s.closed = false := hf.1
  obtain ⟨s1, s2, s3⟩ := setPos_lim s hi hf
  have e1 : ({ s with position := s.lim } : St).closed = s.closed := rfl
  have e2 : ({ s with position := s.lim } : St).availBits = s.availBits := rfl
  have e3 : ({ s with position := s.lim } : St).current = s.current := rfl
  have e4 : ({ s with position := s.lim } : St).pendingErr = s.pendingErr := rfl
  have e5 : ({ s with position := s.lim } : St).src = s.src := rfl
  generalize ({ s with position := s.lim } : St) = u at *
  obtain ⟨r1, r2, r3, r4, r5, r6, r7, r8, r9, r10⟩ := refill_err u s1 (by rw [e1, hc]) e hr
  generalize (refill u).2 = t at *
  have hrest : (abs s).rest = s.bufRest := by
    rw [abs_rest_open s hc, ← e4, ← e5, r2, List.append_nil]
  refine ⟨by rw [r1, e5]; rfl, hrest, ?_, r3⟩
  apply A.ext'
  · show t.closed = s.closed; rw [r4, hc]
  · show t.count = s.count + 8 * (s.bufRest.length : Int); rw [r5, s3]
  · show t.availBits = s.availBits; rw [r6, e2]
  · show t.current = s.current; rw [r7, e3]
  · rw [abs_rest_open t r4, r8, r9]
    show [] = (abs s).rest.drop s.bufRest.length
    rw [hrest, List.drop_length]
  · show t.src.term.err = s.src.term.err; rw [r10, e5]

/-- one pass of the copy loop whose refill succeeds -/
theorem copy_step_ok (s : St) (hi : Inv s) (hf : Fresh s)
    (hr : (refill { s with position := s.lim }).1 = none) :
    s.pendingErr = none ∧ (abs s).rest.take s.bufRest.length = s.bufRest ∧
    s.bufRest.length ≤ (abs s).rest.length ∧
    abs (refill { s with position := s.lim }).2 = (abs s).skip s.bufRest.length ∧
    Inv (refill { s with position := s.lim }).2 ∧ Fresh (refill { s with position := s.lim }).2 ∧
    (refill { s with position := s.lim }).2.bufRest ≠ [] := by
  have hc : s.closed = false := hf.1
  obtain ⟨s1, s2, s3⟩ := setPos_lim s hi hf
  have e1 : ({ s with position := s.lim } : St).closed = s.closed := rfl
  have e2 : ({ s with position := s.lim } : St).availBits = s.availBits := rfl
  have e3 : ({ s with position := s.lim } : St).current = s.current := rfl
  have e4 : ({ s with position := s.lim } : St).pendingErr = s.pendingErr := rfl
  have e5 : ({ s with position := s.lim } : St).src = s.src := rfl
  generalize ({ s with position := s.lim } : St) = u at *
  obtain ⟨r1, r2, r3, r4, r5, r6, r7, r8, r9, r10⟩ := refill_ok u s1 (by rw [e1, hc]) hr
  generalize (refill u).2 = t at *
  have hpe : s.pendingErr = none := by rw [← e4]; exact r1
  have hrest : (abs s).rest = s.bufRest ++ srcBytes s.src.chunks := by
    rw [abs_rest_open s hc, hpe]; rfl
  refine ⟨hpe, by rw [hrest, List.take_left' rfl], by rw [hrest]; simp, ?_, r2, ⟨r4, by rw [r3]; omega⟩, r8⟩
  apply A.ext'
  · show t.closed = s.closed; rw [r4, hc]
  · show t.count = s.count + 8 * (s.bufRest.length : Int); rw [r5, s3]
  · show t.availBits = s.availBits; rw [r6, e2]
  · show t.current = s.current; rw [r7, e3]
  · rw [abs_rest_open t r4, r9]
    show srcBytes u.src.chunks = (abs s).rest.drop s.bufRest.length
    rw [hrest, List.drop_left' rfl, e5]
  · show t.src.term.err = s.src.term.err; rw [r10, e5]

/-- the copy loop does not run (any more): the 64-bit groups are in the buffer -/
theorem bulkWords_sim (l : Lp) (hi : Inv l.st) (hf : Fresh l.st)
    (hqb : l.rem / 8 ≤ l.st.bufRest.length) :
    SimL (.ok (bulkWords l)) (A.bulk (absL l)) := by
  have hc : l.st.closed = false := hf.1
  have hlen := bufRest_len l.st hi.lim_le
  have hpos := hf.2
  have hrest : (absL l).st.rest = l.st.bufRest ++ future l.st.pendingErr l.st.src :=
    abs_rest_open l.st hc
  have habsrem : (absL l).rem = l.rem := rfl
  have habsout : (absL l).out = l.out := rfl
  have hA : ¬ (absL l).rem / 8 > (absL l).st.rest.length := by
    rw [hrest, habsrem]; simp only [List.length_append]; omega
  unfold A.bulk
  rw [if_neg hA, habsrem, habsout]
  have hr8 : l.rem / 64 * 8 ≤ l.st.bufRest.length := by omega
  have htk : (l.st.buffer.drop l.st.position).take (l.rem / 64 * 8) =
      l.st.bufRest.take (l.rem / 64 * 8) := by
    simp only [St.bufRest, List.drop_take, List.take_take]
    congr 1; omega
  unfold bulkWords
  by_cases hr0 : l.rem / 64 * 8 > 0
  · rw [if_pos hr0]
    have hbr' : ({ l.st with position := l.st.position + l.rem / 64 * 8 } : St).bufRest =
        l.st.bufRest.drop (l.rem / 64 * 8) := by
      simp only [St.bufRest, St.lim, List.drop_drop]
    have f1 : ({ l.st with position := l.st.position + l.rem / 64 * 8 } : St).closed
        = l.st.closed := rfl
    have f2 : ({ l.st with position := l.st.position + l.rem / 64 * 8 } : St).count
        = l.st.count + 8 * ((l.rem / 64 * 8 : Nat) : Int) := by
      simp only [St.count]; push_cast; omega
    have f3 : ({ l.st with position := l.st.position + l.rem / 64 * 8 } : St).pendingErr
        = l.st.pendingErr := rfl
    have f4 : ({ l.st with position := l.st.position + l.rem / 64 * 8 } : St).src
        = l.st.src := rfl
    have f5 : Fresh ({ l.st with position := l.st.position + l.rem / 64 * 8 } : St) :=
      ⟨hc, by show l.st.position + l.rem / 64 * 8 ≤ l.st.lim; omega⟩
    have f6 : Inv ({ l.st with position := l.st.position + l.rem / 64 * 8 } : St) := by
      refine ⟨hi.blen, hi.bpos, hi.mp, hi.lim_le, hi.avail_le, hi.ne, hi.pend, ?_, hi.cl⟩
      intro h; rw [hbr']
      have := hi.al h
      simp only [List.length_drop]; omega
    have f7 : ({ l.st with position := l.st.position + l.rem / 64 * 8 } : St).availBits
        = l.st.availBits := rfl
    have f8 : ({ l.st with position := l.st.position + l.rem / 64 * 8 } : St).current
        = l.st.current := rfl
    generalize ({ l.st with position := l.st.position + l.rem / 64 * 8 } : St) = u at *
    refine ⟨?_, f6, f5⟩
    refine ALp.mk.injEq .. |>.mpr ⟨?_, ?_, rfl⟩
    · apply A.ext'
      · show u.closed = l.st.closed; exact f1
      · show u.count = l.st.count + 8 * ((l.rem / 64 * 8 : Nat) : Int); exact f2
      · show u.availBits = l.st.availBits; exact f7
      · show u.current = l.st.current; exact f8
      · rw [abs_rest_open u (by rw [f1, hc]), hbr', f3, f4]
        show _ = (absL l).st.rest.drop (l.rem / 64 * 8)
        rw [hrest, List.drop_append_of_le_length hr8]
      · show u.src.term.err = l.st.src.term.err; rw [f4]
    · show l.out ++ _ = l.out ++ _
      rw [hrest, List.take_append_of_le_length hr8, htk]
  · rw [if_neg hr0]
    have h0 : l.rem / 64 * 8 = 0 := by omega
    refine ⟨?_, hi, hf⟩
    rw [h0]
    refine ALp.mk.injEq .. |>.mpr ⟨?_, by simp [absL], by simp [absL]⟩
    apply A.ext' <;> simp [absL, A.skip]

theorem copyLoop_sim : ∀ (fuel : Nat) (l : Lp), Inv l.st → Fresh l.st →
    2 * (l.rem / 8) + (if l.st.bufRest = [] then 1 else 0) + 1 ≤ fuel →
    SimL ((copyLoop fuel l).bind (fun l3 => .ok (bulkWords l3))) (A.bulk (absL l)) := by
  intro fuel
  induction fuel with
  | zero => intro l _ _ h; omega
  | succ fuel ih =>
    intro l hi hf hfuel
    have hlen := bufRest_len l.st hi.lim_le
    have hpos := hf.2
    have hlimdef : l.st.lim = (l.st.maxPosition + 1).toNat := rfl
    have hmp := hi.mp
    unfold copyLoop
    by_cases hq : ((l.rem / 8 : Nat) : Int) > l.st.maxPosition + 1 - (l.st.position : Int)
    · have hqb : l.rem / 8 > l.st.bufRest.length := by omega
      have hneg : ¬ (l.st.maxPosition + 1 - (l.st.position : Int) < 0) := by omega
      rw [if_pos hq, if_neg hneg]
      cases hr : (refill { l.st with position := l.st.lim }).1 with
      | some e =>
        obtain ⟨c1, c2, c3, c4⟩ := copy_step_err l.st hi hf e hr
        have hA : A.bulk (absL l) = .panic (absL l).st.ending
            ((absL l).st.skip (absL l).st.rest.length) := by
          unfold A.bulk
          have : (absL l).rem / 8 > (absL l).st.rest.length := by
            show l.rem / 8 > (abs l.st).rest.length
            rw [c2]; exact hqb
          rw [if_pos this]
        rw [hA]
        refine ⟨c1, ?_, c4⟩
        rw [c3]
        show (abs l.st).skip _ = (abs l.st).skip (abs l.st).rest.length
        rw [c2]
      | none =>
        obtain ⟨c1, c2, c3, c4, c5, c6, c7⟩ := copy_step_ok l.st hi hf hr
        have hm : 2 * ((l.rem - 8 * l.st.bufRest.length) / 8) +
            (if (refill { l.st with position := l.st.lim }).2.bufRest = [] then 1 else 0) + 1
            ≤ fuel := by
          rw [if_neg c7]
          by_cases hb0 : l.st.bufRest = []
          · rw [if_pos hb0] at hfuel; simp only [hb0, List.length_nil] at hqb ⊢; omega
          · rw [if_neg hb0] at hfuel
            have := List.length_pos_iff.mpr hb0
            omega
        have := ih ⟨(refill { l.st with position := l.st.lim }).2, l.out ++ l.st.bufRest,
          l.rem - 8 * l.st.bufRest.length⟩ c5 c6 hm
        have hshift := A.bulk_shift (abs l.st) l.out l.rem l.st.bufRest.length c3 hqb
          (by left; exact hi.al c1)
        have habsL : absL ⟨(refill { l.st with position := l.st.lim }).2, l.out ++ l.st.bufRest,
            l.rem - 8 * l.st.bufRest.length⟩ =
            ⟨(abs l.st).skip l.st.bufRest.length,
              l.out ++ (abs l.st).rest.take l.st.bufRest.length,
              l.rem - 8 * l.st.bufRest.length⟩ := by
          refine ALp.mk.injEq .. |>.mpr ⟨c4, ?_, rfl⟩
          rw [c2]
        rw [habsL, hshift] at this
        exact this
    · rw [if_neg hq]
      exact bulkWords_sim l hi hf (by omega)


theorem SimL.bind' {r : LR} {r' : ALR} {f : Lp → LR} {f' : ALp → ALR} (P : Lp → Prop)
    (h : SimL r r') (hp : ∀ l, r = .ok l → P l)
    (hf : ∀ l, Inv l.st → Fresh l.st → P l → SimL (f l) (f' (absL l))) :
    SimL (r.bind f) (r'.bind f') := by
  cases r with
  | ok l =>
    cases r' with
    | ok l' =>
      obtain ⟨h1, h2, h3⟩ := h
      subst h1
      exact hf l h2 h3 (hp l rfl)
    | panic e a => exact h.elim
  | panic e s =>
    cases r' with
    | ok l' => exact h.elim
    | panic e' a => exact h

theorem LR.bind_assoc (r : LR) (f g : Lp → LR) :
    (r.bind f).bind g = r.bind (fun l => (f l).bind g) := by
  cases r <;> rfl

theorem alignedStart_sim (l : Lp) (hi : Inv l.st) (hf : Fresh l.st) :
    SimL (alignedStart l) (A.alignedStart (absL l)) := by
  obtain ⟨p1, p2, p3, p4⟩ := pull_sim l.st hi
  unfold alignedStart A.alignedStart
  have h1 : (absL l).st.avail = l.st.availBits := rfl
  have h2 : (absL l).st = abs l.st := rfl
  rw [h1, h2, ← p1]
  split
  · cases hp : (pull l.st).1 with
    | some e => exact ⟨rfl, p2, p3⟩
    | none =>
      refine ⟨?_, p3, (p4 hp).1⟩
      simp only [absL, p2]
  · exact ⟨rfl, hi, hf⟩

theorem aligned_sim (l : Lp) (hi : Inv l.st) (hf : Fresh l.st) :
    SimL (aligned l) (A.aligned (absL l)) := by
  unfold aligned A.aligned
  refine SimL.bind (SimL.bind (alignedStart_sim l hi hf) ?_) ?_
  · intro l1 h1 h2; exact emptyCur_sim _ l1 h1 h2
  · intro l2 h1 h2
    refine copyLoop_sim _ l2 h1 h2 ?_
    split <;> omega

theorem slowStep_sim (r : Nat) (hr : r ≤ 64) (l : Lp) (hi : Inv l.st) (hf : Fresh l.st) :
    SimL (slowStep r l) (A.slowStep r (absL l)) := by
  obtain ⟨p1, p2, p3, p4⟩ := pull_sim l.st hi
  unfold slowStep A.slowStep
  have h2 : (absL l).st = abs l.st := rfl
  rw [h2, ← p1]
  cases hp : (pull l.st).1 with
  | some e => exact ⟨rfl, p2, p3⟩
  | none =>
    obtain ⟨q1, q2, q3⟩ := p4 hp
    simp only
    rw [← p2]
    have hav : (abs (pull l.st).2).avail = (pull l.st).2.availBits := rfl
    have hcur : (abs (pull l.st).2).cur = (pull l.st).2.current := rfl
    rw [hav, hcur]
    split
    · rename_i hlt
      refine ⟨?_, rfl, p3⟩
      rcases q3 with q3 | ⟨q3, _⟩
      · omega
      · cases hpe : (pull l.st).2.pendingErr with
        | none => exact absurd hpe q3
        | some e =>
          simp only [Option.getD_some]
          rw [p3.pend e hpe]
          have : (abs l.st).ending = (A.pull (abs l.st)).2.ending := by
            unfold A.pull; split; rfl; split <;> rfl
          rw [this, ← p2]; rfl
    · rename_i hge
      obtain ⟨t1, t2, t3⟩ := abs_take (pull l.st).2 r (by omega) p3
      refine ⟨?_, t2, t3 q1⟩
      simp only [absL, t1]
      rfl

theorem slowStep_post (r : Nat) (hr : r ≤ 64) (l l2 : Lp) (hi : Inv l.st)
    (h : slowStep r l = .ok l2) :
    (l2.st.availBits = 64 - r ∨ l2.st.bufRest = []) ∧ l2.rem = l.rem - 64 := by
  obtain ⟨p1, p2, p3, p4⟩ := pull_sim l.st hi
  unfold slowStep at h
  cases hp : (pull l.st).1 with
  | some e => rw [hp] at h; cases h
  | none =>
    obtain ⟨q1, q2, q3⟩ := p4 hp
    rw [hp] at h
    simp only at h
    split at h
    · cases h
    · simp only [LR.ok.injEq] at h
      subst h
      refine ⟨?_, rfl⟩
      rcases q3 with q3 | ⟨_, q3⟩
      · left; simp only [q3]
      · right
        have : ({ (pull l.st).2 with availBits := (pull l.st).2.availBits - r } : St).bufRest
            = (pull l.st).2.bufRest := rfl
        rw [this]; exact q3

theorem loop64_sim (r : Nat) (hr : r ≤ 64) : ∀ (n fuel : Nat) (l : Lp), Inv l.st → Fresh l.st →
    l.rem / 64 = n → n < fuel → SimL (loop64 r fuel l) (A.words r n (absL l)) := by
  intro n
  induction n with
  | zero =>
    intro fuel l hi hf hn hfu
    cases fuel with
    | zero => omega
    | succ fuel =>
      unfold loop64 A.words
      rw [if_neg (by omega)]
      exact ⟨rfl, hi, hf⟩
  | succ n ih =>
    intro fuel l hi hf hn hfu
    cases fuel with
    | zero => omega
    | succ fuel =>
      unfold loop64 A.words
      rw [if_pos (by omega)]
      refine SimL.bind' (fun l2 => l2.rem = l.rem - 64) (slowStep_sim r hr l hi hf) ?_ ?_
      · intro l2 h2; exact (slowStep_post r hr l l2 hi h2).2
      · intro l2 h1 h2 h3
        exact ih fuel l2 h1 h2 (by omega) (by omega)


/-! ### the 256-bit fast path is four word steps -/

theorem ALR.bind_assoc (r : ALR) (f g : ALp → ALR) :
    (r.bind f).bind g = r.bind (fun l => (f l).bind g) := by
  cases r <;> rfl

theorem A.words_add (r : Nat) : ∀ (m n : Nat) (l : ALp),
    A.words r (m + n) l = (A.words r m l).bind (A.words r n) := by
  intro m
  induction m with
  | zero => intro n l; simp [A.words, ALR.bind]
  | succ m ih =>
    intro n l
    have : m + 1 + n = (m + n) + 1 := by omega
    rw [this]
    simp only [A.words]
    rw [ALR.bind_assoc]
    congr 1
    funext l'
    exact ih n l'

theorem A.slowStep_full (r : Nat) (hr : r ≤ 64) (a : A) (out : List Byte) (rem : Nat)
    (hc : a.closed = false) (h8 : 8 ≤ a.rest.length) :
    A.slowStep r ⟨a, out, rem⟩ =
      .ok ⟨⟨false, a.cnt + a.avail + r, 64 - r, beWord (a.rest.take 8), a.rest.drop 8, a.ending⟩,
        out ++ wordBytes ((a.cur <<< r) ||| (beWord (a.rest.take 8) >>> (64 - r))), rem - 64⟩ := by
  have hne : a.rest ≠ [] := by intro h; rw [h] at h8; simp at h8
  have hl : (a.rest.take 8).length = 8 := by simp only [List.length_take]; omega
  unfold A.slowStep
  simp only [A.pull_ok a hc hne, hl]
  rw [if_neg (by omega)]
  simp only [A.take, hc]

theorem bufWord_eq (s : St) (hi : Inv s) (hc : s.closed = false) (i : Nat)
    (h : 8 * i + 8 ≤ s.bufRest.length) :
    bufWord s i = beWord (((abs s).rest.drop (8 * i)).take 8) := by
  have hlen := bufRest_len s hi.lim_le
  unfold bufWord
  congr 1
  rw [abs_rest_open s hc, List.drop_append_of_le_length (by omega),
    List.take_append_of_le_length (by simp only [List.length_drop]; omega)]
  simp only [St.bufRest, List.drop_take, List.drop_drop, List.take_take]
  congr 1; omega

def fastSt (l : Lp) : St :=
  { l.st with position := l.st.position + 32, current := bufWord l.st 3 }

theorem fast_sim (r a : Nat) (l : Lp) (hi : Inv l.st) (hf : Fresh l.st)
    (ha : l.st.availBits = a) (hra : r = 64 - a) (ha64 : a ≤ 64)
    (hfast : ¬ ((l.st.position : Int) + 32 > l.st.maxPosition)) :
    A.words r 4 (absL l) = .ok (absL (fastStep r a l)) ∧ Inv (fastStep r a l).st ∧
    Fresh (fastStep r a l).st ∧ (fastStep r a l).st.availBits = a ∧
    (fastStep r a l).rem = l.rem - 256 := by
  have hc : l.st.closed = false := hf.1
  have hlen := bufRest_len l.st hi.lim_le
  have hlimdef : l.st.lim = (l.st.maxPosition + 1).toNat := rfl
  have h33 : 33 ≤ l.st.bufRest.length := by omega
  have hrest : (abs l.st).rest = l.st.bufRest ++ future l.st.pendingErr l.st.src :=
    abs_rest_open l.st hc
  have hrl : 33 ≤ (abs l.st).rest.length := by rw [hrest]; simp only [List.length_append]; omega
  have hr64 : r ≤ 64 := by omega
  have w0 := bufWord_eq l.st hi hc 0 (by omega)
  have w1 := bufWord_eq l.st hi hc 1 (by omega)
  have w2 := bufWord_eq l.st hi hc 2 (by omega)
  have w3 := bufWord_eq l.st hi hc 3 (by omega)
  simp only [Nat.mul_zero, List.drop_zero, Nat.mul_one] at w0 w1
  have hbr' : (fastSt l).bufRest = l.st.bufRest.drop 32 := by
    simp only [fastSt, St.bufRest, St.lim, List.drop_drop]
  refine ⟨?_, ?_, ⟨hc, ?_⟩, ha, rfl⟩
  · have e0 : absL l = ⟨abs l.st, l.out, l.rem⟩ := rfl
    rw [e0]
    simp only [A.words, ALR.bind]
    rw [A.slowStep_full r hr64 _ _ _ hc (by omega)]
    simp only [ALR.bind]
    rw [A.slowStep_full r hr64 _ _ _ rfl (by simp only [List.length_drop]; omega)]
    simp only [ALR.bind]
    rw [A.slowStep_full r hr64 _ _ _ rfl (by simp only [List.length_drop]; omega)]
    simp only [ALR.bind]
    rw [A.slowStep_full r hr64 _ _ _ rfl (by simp only [List.length_drop]; omega)]
    simp only [ALR.bind, List.drop_drop, Nat.reduceAdd]
    congr 1
    unfold fastStep absL
    refine ALp.mk.injEq .. |>.mpr ⟨?_, ?_, by simp only; omega⟩
    · apply A.ext'
      · show false = l.st.closed; rw [hc]
      · simp only [abs, St.count, ha]; push_cast; omega
      · show 64 - r = l.st.availBits; omega
      · show _ = bufWord l.st 3; rw [w3]
      · have hthis : (abs (fastSt l)).rest
            = List.drop 32 l.st.bufRest ++ future l.st.pendingErr l.st.src := by
          rw [abs_rest_open (fastSt l) hc, hbr']; rfl
        refine Eq.trans ?_ hthis.symm
        show List.drop 32 (abs l.st).rest = _
        rw [hrest, List.drop_append_of_le_length (by omega)]
      · rfl
    · simp only [w0, w1, w2, w3, List.append_assoc]
      have : 64 - r = a := by omega
      rw [this]
      rfl
  · refine ⟨hi.blen, hi.bpos, hi.mp, hi.lim_le, hi.avail_le, hi.ne, hi.pend, ?_, hi.cl⟩
    intro h
    show (fastSt l).bufRest.length % 8 = 0
    rw [hbr']
    have := hi.al h
    simp only [List.length_drop]; omega
  · show l.st.position + 32 ≤ l.st.lim
    omega


theorem loop256_sim (a : Nat) (ha : a ≤ 64) : ∀ (fuel : Nat) (l : Lp), Inv l.st → Fresh l.st →
    (l.st.availBits = a ∨ l.st.bufRest = []) → l.rem / 64 < fuel →
    SimL ((loop256 (64 - a) a fuel l).bind (fun l1 => loop64 (64 - a) (l1.rem / 64 + 1) l1))
      (A.words (64 - a) (l.rem / 64) (absL l)) := by
  intro fuel
  induction fuel with
  | zero => intro l _ _ _ h; omega
  | succ fuel ih =>
    intro l hi hf hav hfu
    have hr : 64 - a ≤ 64 := by omega
    unfold loop256
    by_cases hrem : l.rem ≥ 256
    · rw [if_pos hrem]
      by_cases hs : (l.st.position : Int) + 32 > l.st.maxPosition
      · rw [if_pos hs, LR.bind_assoc]
        obtain ⟨m, hm⟩ : ∃ m, l.rem / 64 = m + 1 := ⟨l.rem / 64 - 1, by omega⟩
        rw [hm]
        simp only [A.words]
        refine SimL.bind' (fun l2 => (l2.st.availBits = a ∨ l2.st.bufRest = []) ∧
          l2.rem = l.rem - 64) (slowStep_sim _ hr l hi hf) ?_ ?_
        · intro l2 h2
          obtain ⟨g1, g2⟩ := slowStep_post _ hr l l2 hi h2
          refine ⟨?_, g2⟩
          rcases g1 with g1 | g1
          · left; omega
          · right; exact g1
        · intro l2 h1 h2 h3
          have := ih l2 h1 h2 h3.1 (by omega)
          rwa [show l2.rem / 64 = m by omega] at this
      · rw [if_neg hs]
        have hlen := bufRest_len l.st hi.lim_le
        have hlimdef : l.st.lim = (l.st.maxPosition + 1).toNat := rfl
        have hav' : l.st.availBits = a := by
          rcases hav with h | h
          · exact h
          · rw [h] at hlen; simp only [List.length_nil] at hlen; omega
        obtain ⟨f1, f2, f3, f4, f5⟩ := fast_sim (64 - a) a l hi hf hav' rfl ha hs
        obtain ⟨m, hm⟩ : ∃ m, l.rem / 64 = 4 + m := ⟨l.rem / 64 - 4, by omega⟩
        rw [hm, A.words_add, f1]
        simp only [ALR.bind]
        have := ih (fastStep (64 - a) a l) f2 f3 (Or.inl f4) (by omega)
        rwa [show (fastStep (64 - a) a l).rem / 64 = m by omega] at this
    · rw [if_neg hrem]
      simp only [LR.bind]
      exact loop64_sim _ hr (l.rem / 64) (l.rem / 64 + 1) l hi hf rfl (by omega)

theorem unaligned_sim (l : Lp) (hi : Inv l.st) (hf : Fresh l.st) :
    SimL (unaligned l) (A.words (64 - l.st.availBits) (l.rem / 64) (absL l)) := by
  unfold unaligned
  exact loop256_sim l.st.availBits hi.avail_le (l.rem / 64 + 1) l hi hf (Or.inl rfl) (by omega)

def A.readArrayBody (l : ALp) : ALR :=
  ((if l.st.avail % 8 = 0 then A.aligned l else A.words (64 - l.st.avail) (l.rem / 64) l).bind
    (fun l1 => A.tailBytes (l1.rem / 8 + 1) l1)).bind A.tailBits

def A.readArray (a : A) (k : Nat) : Res (List Byte) × A :=
  if a.closed then (.panic .closed, a)
  else if k = 0 then (.val [], a)
  else
    match A.readArrayBody ⟨a, [], k⟩ with
    | .ok l => (.val l.out, l.st)
    | .panic e a' => (.panic e, a')

theorem readArrayBody_sim (l : Lp) (hi : Inv l.st) (hf : Fresh l.st) :
    SimL (readArrayBody l) (A.readArrayBody (absL l)) := by
  unfold readArrayBody A.readArrayBody
  have h1 : (absL l).st.avail = l.st.availBits := rfl
  have h2 : (absL l).rem = l.rem := rfl
  rw [h1, h2]
  refine SimL.bind (SimL.bind ?_ ?_) ?_
  · split
    · exact aligned_sim l hi hf
    · exact unaligned_sim l hi hf
  · intro l1 g1 g2; exact tailBytes_sim _ l1 g1 g2
  · intro l2 g1 g2; exact tailBits_sim l2 g1 g2

theorem readArray_sim (s : St) (k : Nat) (hi : Inv s) (hf : s.closed = true ∨ Fresh s) :
    SimR s (readArray s k) (A.readArray (abs s) k) := by
  unfold readArray A.readArray
  have hcl : (abs s).closed = s.closed := rfl
  rw [hcl]
  cases hc : s.closed with
  | true => exact ⟨rfl, rfl, hi, fun _ h => absurd rfl (h _)⟩
  | false =>
    simp only [Bool.false_eq_true, ↓reduceIte]
    by_cases hk : k = 0
    · rw [if_pos hk, if_pos hk]; exact ⟨rfl, rfl, hi, fun h _ => h⟩
    · rw [if_neg hk, if_neg hk]
      have hfr : Fresh s := by
        rcases hf with h | h
        · rw [hc] at h; cases h
        · exact h
      have := readArrayBody_sim ⟨s, [], k⟩ hi hfr
      have e0 : absL ⟨s, [], k⟩ = ⟨abs s, [], k⟩ := rfl
      rw [e0] at this
      cases h1 : readArrayBody ⟨s, [], k⟩ with
      | ok l =>
        cases h2 : A.readArrayBody ⟨abs s, [], k⟩ with
        | ok l' =>
          rw [h1, h2] at this
          obtain ⟨g1, g2, g3⟩ := this
          subst g1
          exact ⟨rfl, rfl, g2, fun _ _ => g3⟩
        | panic e a => rw [h1, h2] at this; exact this.elim
      | panic e s' =>
        cases h2 : A.readArrayBody ⟨abs s, [], k⟩ with
        | ok l' => rw [h1, h2] at this; exact this.elim
        | panic e' a =>
          rw [h1, h2] at this
          obtain ⟨g1, g2, g3⟩ := this
          subst g1
          exact ⟨rfl, g2, g3, fun _ h => absurd rfl (h _)⟩

end Kanzi.IBS
