/-
Proofs for the `utf` slice, part 0: facts about single bytes, checked by `decide` over `Fin 256`.
-/
import Kanzi.Model.UTF

namespace Kanzi.UTF

set_option maxRecDepth 100000 in
theorem utfSize_fin : ∀ b : Fin 256, utfSize b.val =
    (if b.val < 0x80 then 1 else if b.val < 0xC2 then 0 else if b.val < 0xE0 then 2
     else if b.val < 0xF0 then 3 else if b.val < 0xF5 then 4 else 0) := by decide


set_option maxRecDepth 100000 in
theorem sizesArr_size : sizesArr.size = 256 := by decide


set_option maxRecDepth 100000 in
theorem andC0_fin : ∀ b : Fin 256, (b.val &&& 0xC0 = 0x80) ↔ (128 ≤ b.val ∧ b.val < 192) := by decide
set_option maxRecDepth 100000 in
theorem shl8_andC0C0_fin : ∀ b : Fin 256, (b.val <<< 8) &&& 0xC0C0 = (b.val &&& 0xC0) <<< 8 := by decide
set_option maxRecDepth 100000 in
theorem andC0C0_fin : ∀ b : Fin 256, b.val &&& 0xC0C0 = b.val &&& 0xC0 := by decide
set_option maxRecDepth 100000 in
theorem andC0_le_fin : ∀ b : Fin 256, (b.val &&& 0xC0) % 64 = 0 ∧ b.val &&& 0xC0 ≤ 192 := by decide


end Kanzi.UTF
