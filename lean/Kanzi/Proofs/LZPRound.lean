/-
Proofs for the `lzp` slice, part 2: one iteration of Forward (`encLit_ok`, `encStep_ok`), the matching
iteration of Inverse (`decStep_lit`, `decStep_esc`, `decStep_match`), and the lock-step simulation of
the two loops of Forward by the loop of Inverse (`sim_tail`, `sim_main`): same position, same context,
same hash table at every loop head, and the decoder has rebuilt exactly the prefix of the block the
encoder has consumed.
-/
import Kanzi.Proofs.LZP

namespace Kanzi.LZP

/-! ## what one encoder iteration appends (unconditional) -/

theorem wr_out (dstLen : Nat) (out o : Array Nat) (bs : List Nat) (h : wr dstLen out bs = .ok o) :
    o = out ++ bs := by
  unfold wr at h
  split at h
  · injection h with h; exact h.symm
  · simp at h

theorem emitLen_out (dstLen dstEnd : Nat) : ∀ (f bl : Nat) (out o : Array Nat),
    emitLen dstLen dstEnd f bl out = .ok o → ∃ l : List Nat, o = out ++ l ∧ ∀ y ∈ l, y < 256 := by
  intro f
  induction f with
  | zero => intro bl out o h; simp [emitLen] at h
  | succ f ih =>
    intro bl out o h
    unfold emitLen at h
    split at h
    · cases hw : wr dstLen out [0xFE] with
      | ok o1 =>
        rw [hw, Out.bind_ok] at h
        have e1 := wr_out _ _ _ _ hw
        split at h
        · have e2 := wr_out _ _ _ _ h
          refine ⟨[0xFE, (bl - 254) % 256], by rw [e2, e1, appendList_assoc]; rfl, ?_⟩
          intro y hy; simp at hy; omega
        · obtain ⟨l, e2, hb⟩ := ih _ _ _ h
          refine ⟨0xFE :: l, by rw [e2, e1, appendList_assoc]; rfl, ?_⟩
          intro y hy
          simp at hy
          rcases hy with hy | hy
          · omega
          · exact hb y hy
      | err e => rw [hw] at h; simp at h
      | fault k x l => rw [hw] at h; simp at h
    · have e2 := wr_out _ _ _ _ h
      exact ⟨[bl % 256], e2, by intro y hy; simp at hy; omega⟩

theorem encLit_out (src : Array Nat) (dstLen i ctx ref : Nat) (tbl out : Array Nat) (s : St)
    (h : encLit src dstLen i ctx ref tbl out = .ok s) :
    ∃ l : List Nat, s.out = out ++ l ∧ ((∀ y ∈ src.toList, y < 256) → ∀ y ∈ l, y < 256) := by
  unfold encLit at h
  split at h
  · simp at h
  · rename_i v hv
    have hmem : v ∈ src.toList := by
      rw [← Array.getElem?_toList] at hv
      exact List.mem_of_getElem? hv
    cases hw : wr dstLen out [v] with
    | ok o1 =>
      rw [hw, Out.bind_ok] at h
      have e1 := wr_out _ _ _ _ hw
      split at h
      · cases hw2 : wr dstLen o1 [0xFF] with
        | ok o2 =>
          rw [hw2, Out.bind_ok] at h
          have e2 := wr_out _ _ _ _ hw2
          injection h with h
          subst h
          refine ⟨[v, 0xFF], by simp only []; rw [e2, e1, appendList_assoc]; rfl, ?_⟩
          intro hb y hy
          simp at hy
          rcases hy with hy | hy
          · subst hy; exact hb _ hmem
          · omega
        | err e => rw [hw2] at h; simp at h
        | fault k x l => rw [hw2] at h; simp at h
      · rw [Out.bind_ok] at h
        injection h with h
        subst h
        refine ⟨[v], e1, ?_⟩
        intro hb y hy
        simp at hy
        subst hy; exact hb _ hmem
    | err e => rw [hw] at h; simp at h
    | fault k x l => rw [hw] at h; simp at h

theorem encStep_out (src : Array Nat) (dstLen dstEnd i ctx : Nat) (tbl out : Array Nat) (s : St)
    (h : encStep src dstLen dstEnd i ctx tbl out = .ok s) :
    ∃ l : List Nat, s.out = out ++ l ∧ ((∀ y ∈ src.toList, y < 256) → ∀ y ∈ l, y < 256) := by
  unfold encStep at h
  simp only [] at h
  split at h
  · simp at h
  · simp at h
  · split at h
    · exact encLit_out _ _ _ _ _ _ _ _ h
    · split at h
      · simp at h
      · obtain ⟨o1, hw, h⟩ := Out.bind_eq_ok _ _ _ h
        obtain ⟨o2, he, h⟩ := Out.bind_eq_ok _ _ _ h
        have e1 := wr_out _ _ _ _ hw
        obtain ⟨l, e2, hb⟩ := emitLen_out _ _ _ _ _ _ he
        injection h with h
        subst h
        refine ⟨MATCH_FLAG :: l, by simp only []; rw [e2, e1, appendList_assoc]; rfl, ?_⟩
        intro _ y hy
        simp at hy
        rcases hy with hy | hy
        · subst hy; decide
        · exact hb y hy

/-- the output of the trailing loop extends what was written before -/
theorem fwdTail_prefix (src : Array Nat) (dstLen dstEnd : Nat) : ∀ (f i ctx : Nat) (tbl out : Array Nat)
    (r : Nat × Array Nat), fwdTail src dstLen dstEnd f i ctx tbl out = .ok r →
    ∃ rest : List Nat, r.2.toList = out.toList ++ rest ∧ ((∀ y ∈ src.toList, y < 256) → ∀ y ∈ rest, y < 256) := by
  intro f
  induction f with
  | zero => intro i ctx tbl out r h; simp [fwdTail] at h
  | succ f ih =>
    intro i ctx tbl out r h
    unfold fwdTail at h
    split at h
    · split at h
      · rename_i s hs
        obtain ⟨l, e1, hb1⟩ := encLit_out _ _ _ _ _ _ _ _ hs
        obtain ⟨rest, e2, hb2⟩ := ih _ _ _ _ _ h
        refine ⟨l ++ rest, by rw [e2, e1]; simp, ?_⟩
        intro hb y hy
        rcases List.mem_append.1 hy with hy | hy
        · exact hb1 hb y hy
        · exact hb2 hb y hy
      · simp at h
      · simp at h
    · injection h with h
      subst h
      exact ⟨[], by simp, by simp⟩

/-- the output of Forward's loops extends what was written before -/
theorem fwdMain_prefix (src : Array Nat) (dstLen dstEnd : Nat) : ∀ (f i ctx : Nat) (tbl out : Array Nat)
    (r : Nat × Array Nat), fwdMain src dstLen dstEnd f i ctx tbl out = .ok r →
    ∃ rest : List Nat, r.2.toList = out.toList ++ rest ∧ ((∀ y ∈ src.toList, y < 256) → ∀ y ∈ rest, y < 256) := by
  intro f
  induction f with
  | zero => intro i ctx tbl out r h; simp [fwdMain] at h
  | succ f ih =>
    intro i ctx tbl out r h
    unfold fwdMain at h
    split at h
    · split at h
      · rename_i s hs
        obtain ⟨l, e1, hb1⟩ := encStep_out _ _ _ _ _ _ _ _ hs
        obtain ⟨rest, e2, hb2⟩ := ih _ _ _ _ _ h
        refine ⟨l ++ rest, by rw [e2, e1]; simp, ?_⟩
        intro hb y hy
        rcases List.mem_append.1 hy with hy | hy
        · exact hb1 hb y hy
        · exact hb2 hb y hy
      · simp at h
      · simp at h
    · exact fwdTail_prefix _ _ _ _ _ _ _ _ _ h

/-! ## one encoder iteration under the loop invariants -/

/-- the literal branch: never faults when two more bytes fit -/
theorem encLit_ok (src : Array Nat) (dstLen i ctx ref : Nat) (tbl out : Array Nat) (hi : i < src.size)
    (hd : out.size + 2 ≤ dstLen) :
    ∃ v, src[i]? = some v ∧ encLit src dstLen i ctx ref tbl out =
      .ok ⟨i + 1, shiftCtx ctx v, tbl, out ++ (if ref ≠ 0 ∧ v = MATCH_FLAG then [v, 0xFF] else [v])⟩ := by
  refine ⟨src[i], Array.getElem?_eq_getElem hi, ?_⟩
  unfold encLit
  rw [Array.getElem?_eq_getElem hi]
  simp only []
  rw [wr_ok _ _ _ (by simp; omega), Out.bind_ok]
  split
  · rw [wr_ok _ _ _ (by simp; omega), Out.bind_ok, appendList_assoc]; rfl
  · rw [Out.bind_ok]

/-- "Find a match" never faults in the main loop, and what it returns is a genuine repeat -/
theorem bestLen_ok (src : Array Nat) (i ref : Nat) (hi : i + 64 ≤ src.size) (hr : ref ≤ i) :
    ∃ b, bestLen src i ref = .ok b ∧ i + b ≤ src.size ∧ (b ≠ 0 → ref ≠ 0) ∧
      ∀ k, k < b → src[i + k]? = src[ref + k]? := by
  unfold bestLen
  split
  · rename_i hne
    obtain ⟨x, hx⟩ := le64_some src (i + MIN_MATCH64 - 8) (by rw [MIN_MATCH64_eq]; omega)
    obtain ⟨y, hy⟩ := le64_some src (ref + MIN_MATCH64 - 8) (by rw [MIN_MATCH64_eq]; omega)
    rw [hx, hy]
    simp only []
    split
    · obtain ⟨r, hr'⟩ := findMatch_ok src i ref (src.size - i) (by omega) hr ((src.size - i) / 8 + 1) 0
        (by omega) (by omega)
      obtain ⟨_, h2, h3⟩ := findMatch_spec src i ref (src.size - i) _ 0 r hr' (by omega) (by intro k hk; omega)
      exact ⟨r, hr', by omega, fun _ => hne, h3⟩
    · exact ⟨0, rfl, by omega, by simp, by intro k hk; omega⟩
  · exact ⟨0, rfl, by omega, by simp, by intro k hk; omega⟩

/-- shape of the state after a literal iteration -/
def LitShape (src : Array Nat) (i ctx ref : Nat) (out : Array Nat) (s : St) : Prop :=
  ∃ v, src[i]? = some v ∧ s.i = i + 1 ∧ s.ctx = shiftCtx ctx v ∧
    s.out = out ++ (if ref ≠ 0 ∧ v = MATCH_FLAG then [v, 0xFF] else [v])

/-- shape of the state after a match iteration -/
def MatchShape (src : Array Nat) (dstEnd i ref : Nat) (out : Array Nat) (s : St) : Prop :=
  ∃ (best : Nat) (l : List Nat), 64 ≤ best ∧ ref ≠ 0 ∧ i + best ≤ src.size ∧
    (∀ k, k < best → src[i + k]? = src[ref + k]?) ∧ le32 src (i + best - 4) = some s.ctx ∧ s.i = i + best ∧
    s.out = out ++ (MATCH_FLAG :: l) ∧
    ((∃ k r, best - 64 = 254 * k + r ∧ r < 254 ∧ l = List.replicate k 0xFE ++ [r]) ∨ dstEnd ≤ s.out.size)

/-- one iteration of the main loop under its invariants: no fault, no error, and its effect -/
theorem encStep_ok (src : Array Nat) (dstLen dstEnd i ctx : Nat) (tbl out : Array Nat)
    (hi : i + 64 < src.size) (ho : out.size < dstEnd) (hd : dstEnd + 2 ≤ dstLen)
    (hinv : ∀ k, tbl.getD k 0 < i) :
    ∃ s, encStep src dstLen dstEnd i ctx tbl out = .ok s ∧ s.tbl = tbl.setIfInBounds (hash ctx) i ∧
      (LitShape src i ctx (tbl.getD (hash ctx) 0) out s ∨ MatchShape src dstEnd i (tbl.getD (hash ctx) 0) out s) := by
  have hr := hinv (hash ctx)
  obtain ⟨b, hb, hb1, hb2, hb3⟩ := bestLen_ok src i (tbl.getD (hash ctx) 0) (by omega) (by omega)
  unfold encStep
  simp only []
  rw [hb]
  simp only []
  split
  · obtain ⟨v, hv, e⟩ := encLit_ok src dstLen i ctx (tbl.getD (hash ctx) 0) (tbl.setIfInBounds (hash ctx) i) out
      (by omega) (by omega)
    exact ⟨_, e, rfl, Or.inl ⟨v, hv, rfl, rfl, rfl⟩⟩
  · rename_i h64
    rw [MIN_MATCH64_eq] at h64 ⊢
    obtain ⟨c, hc⟩ := le32_some src (i + b - 4) (by omega)
    rw [hc]
    simp only []
    rw [wr_ok _ _ _ (by simp; omega), Out.bind_ok]
    obtain ⟨l, e, hne, hlb, hsh⟩ := emitLen_spec dstLen dstEnd hd ((b - 64) / 254 + 1) (b - 64)
      (out ++ [MATCH_FLAG]) (by omega) (by simp; omega)
    rw [e, Out.bind_ok, appendList_assoc]
    refine ⟨_, rfl, rfl, Or.inr ⟨b, l, by omega, hb2 (by omega), hb1, hb3, hc, rfl, rfl, ?_⟩⟩
    rcases hsh with hsh | hsh
    · exact Or.inl hsh
    · right
      simp at hsh ⊢
      omega

/-! ## the matching decoder iteration -/

theorem decStep_lit (a : Array Nat) (n mm j ctx : Nat) (tbl dout : Array Nat) (v : Nat)
    (hv : a[j]? = some v) (hc : v ≠ MATCH_FLAG ∨ tbl.getD (hash ctx) 0 = 0) (hn : dout.size + 1 ≤ n) :
    decStep a n mm j ctx tbl dout =
      .ok ⟨j + 1, shiftCtx ctx v, tbl.setIfInBounds (hash ctx) dout.size, dout ++ [v]⟩ := by
  unfold decStep
  simp only []
  rw [hv]
  simp only []
  rw [if_pos hc, wr_ok _ _ _ (by simp; omega), Out.bind_ok]

theorem decStep_esc (a : Array Nat) (n mm j ctx : Nat) (tbl dout : Array Nat)
    (hv : a[j]? = some MATCH_FLAG) (hr : tbl.getD (hash ctx) 0 ≠ 0) (hy : a[j + 1]? = some 0xFF)
    (hn : dout.size + 1 ≤ n) :
    decStep a n mm j ctx tbl dout =
      .ok ⟨j + 2, shiftCtx ctx MATCH_FLAG, tbl.setIfInBounds (hash ctx) dout.size, dout ++ [MATCH_FLAG]⟩ := by
  unfold decStep
  simp only []
  rw [hv]
  simp only []
  rw [if_neg (by intro h; rcases h with h | h; exact h rfl; exact hr h), hy]
  simp only []
  rw [if_pos True.intro, wr_ok _ _ _ (by simp; omega), Out.bind_ok]

theorem decStep_match (a : Array Nat) (n mm j ctx : Nat) (tbl dout : Array Nat) (k r : Nat) (L : List Nat)
    (p : Nat) (hv : a[j]? = some MATCH_FLAG) (hr : tbl.getD (hash ctx) 0 ≠ 0)
    (hfe : ∀ q, q < k → a[j + 1 + q]? = some 0xFE) (hlast : a[j + 1 + k]? = some r) (hr254 : r < 254)
    (ho : dout.toList = L.take p) (href : tbl.getD (hash ctx) 0 < p)
    (hp : p + (mm + 254 * k + r) ≤ L.length) (hn : p + (mm + 254 * k + r) ≤ n)
    (hm : ∀ q, q < mm + 254 * k + r → L[p + q]? = L[tbl.getD (hash ctx) 0 + q]?)
    (h4 : 4 ≤ p + (mm + 254 * k + r)) :
    ∃ o c, decStep a n mm j ctx tbl dout = .ok ⟨j + k + 2, c, tbl.setIfInBounds (hash ctx) dout.size, o⟩ ∧
      o.toList = L.take (p + (mm + 254 * k + r)) ∧ le32 o (o.size - 4) = some c := by
  have hsz : dout.size = p := by
    rw [← Array.length_toList, ho]; simp; omega
  have hjk : j + 1 + k < a.size := by
    by_cases hlt : j + 1 + k < a.size
    · exact hlt
    · rw [Array.getElem?_eq_none (by omega)] at hlast; simp at hlast
  have hrfe : r ≠ 0xFE := by omega
  have hy : a[j + 1]? = some (if k = 0 then r else 0xFE) := by
    by_cases hk : k = 0
    · subst hk; simpa using hlast
    · rw [if_neg hk]; have := hfe 0 (by omega); simpa using this
  have hP : (if (if k = 0 then r else 0xFE) = 0xFE then skipFE a (a.size - (j + 1)) (j + 1) mm else (j + 1, mm))
      = (j + 1 + k, mm + 254 * k) := by
    by_cases hk : k = 0
    · subst hk; rw [if_pos rfl, if_neg hrfe]; simp
    · rw [if_neg hk, if_pos rfl]
      exact skipFE_spec a r hrfe k _ _ _ hfe hlast (by omega)
  unfold decStep
  simp only []
  rw [hv]
  simp only []
  rw [if_neg (by intro h; rcases h with h | h; exact h rfl; exact hr h), hy]
  simp only []
  rw [if_neg (by by_cases hk : k = 0 <;> simp [hk] <;> omega)]
  rw [hP]
  simp only []
  rw [if_neg (by omega), hlast]
  simp only []
  rw [if_neg (by omega)]
  have hcopy : ∃ o, (if tbl.getD (hash ctx) 0 + (mm + 254 * k + r) < dout.size
        then Out.ok (dout ++ dout.extract (tbl.getD (hash ctx) 0) (tbl.getD (hash ctx) 0 + (mm + 254 * k + r)))
        else copySeq (mm + 254 * k + r) (tbl.getD (hash ctx) 0) dout) = .ok o ∧
        o.toList = L.take (p + (mm + 254 * k + r)) := by
    split
    · rename_i hlt
      exact ⟨_, rfl, copyExt_spec L _ _ p dout ho (by omega) hp hm⟩
    · exact copySeq_spec L _ _ p dout ho href hp hm
  obtain ⟨o, e1, e2⟩ := hcopy
  rw [e1, Out.bind_ok]
  have hosz : o.size = p + (mm + 254 * k + r) := by
    rw [← Array.length_toList, e2]; simp; omega
  obtain ⟨c, hc⟩ := le32_some o (o.size - 4) (by omega)
  rw [hc]
  exact ⟨o, c, by simp only []; rw [show j + 1 + k + 1 = j + k + 2 by omega], e2, hc⟩

/-! ## the lock-step invariant -/

/-- the decoder has rebuilt exactly the `i` bytes the encoder has consumed; every position stored in
    the (common) hash table lies below `i` -/
structure Sync (src : Array Nat) (i : Nat) (tbl dout : Array Nat) : Prop where
  hi : i ≤ src.size
  hinv : ∀ k, tbl.getD k 0 < i
  hout : dout.toList = src.toList.take i

theorem Sync.size {src : Array Nat} {i : Nat} {tbl dout : Array Nat} (h : Sync src i tbl dout) : dout.size = i := by
  rw [← Array.length_toList, h.hout]
  have := h.hi
  simp; omega

/-- the decoder iteration that answers a literal iteration of the encoder -/
theorem dec_of_lit (src a : Array Nat) (n mm i ctx : Nat) (tbl out dout : Array Nat) (v : Nat) (rest : List Nat)
    (hs : Sync src i tbl dout) (hv : src[i]? = some v) (hn : src.size ≤ n)
    (hrest : a.toList = out.toList ++
      ((if tbl.getD (hash ctx) 0 ≠ 0 ∧ v = MATCH_FLAG then [v, 0xFF] else [v]) ++ rest)) :
    ∃ sd, decStep a n mm out.size ctx tbl dout = .ok sd ∧
      sd.i = (out ++ (if tbl.getD (hash ctx) 0 ≠ 0 ∧ v = MATCH_FLAG then [v, 0xFF] else [v])).size ∧
      sd.ctx = shiftCtx ctx v ∧ sd.tbl = tbl.setIfInBounds (hash ctx) i ∧ Sync src (i + 1) sd.tbl sd.out := by
  have hsz := hs.size
  have hi : i < src.size := by
    by_cases hlt : i < src.size
    · exact hlt
    · rw [Array.getElem?_eq_none (by omega)] at hv; simp at hv
  have hsync : Sync src (i + 1) (tbl.setIfInBounds (hash ctx) i) (dout ++ [v]) := by
    refine ⟨by omega, tbl_inv_step tbl _ i (i + 1) hs.hinv (by omega), ?_⟩
    rw [Array.toList_appendList, hs.hout]
    have hi' : i < src.toList.length := by simpa using hi
    rw [← List.take_append_getElem hi']
    congr 2
    rw [← Array.getElem?_toList, List.getElem?_eq_getElem hi'] at hv
    injection hv with hv
    exact hv.symm
  by_cases hesc : tbl.getD (hash ctx) 0 ≠ 0 ∧ v = MATCH_FLAG
  · rw [if_pos hesc] at hrest ⊢
    obtain ⟨hr0, rfl⟩ := hesc
    have h0 := get_split' a out _ rest hrest 0 (by simp)
    have h1 := get_split' a out _ rest hrest 1 (by simp)
    simp only [Nat.add_zero, List.getElem?_cons_zero, List.getElem?_cons_succ] at h0 h1
    refine ⟨_, decStep_esc a n mm out.size ctx tbl dout h0 hr0 h1 (by omega), by simp, rfl, by rw [hsz], ?_⟩
    simp only []
    rw [hsz]; exact hsync
  · rw [if_neg hesc] at hrest ⊢
    have h0 := get_split' a out _ rest hrest 0 (by simp)
    simp only [Nat.add_zero, List.getElem?_cons_zero] at h0
    have hc : v ≠ MATCH_FLAG ∨ tbl.getD (hash ctx) 0 = 0 := by
      by_cases h1 : v = MATCH_FLAG
      · right
        by_cases h2 : tbl.getD (hash ctx) 0 = 0
        · exact h2
        · exact absurd ⟨h2, h1⟩ hesc
      · left; exact h1
    refine ⟨_, decStep_lit a n mm out.size ctx tbl dout v h0 hc (by omega), by simp, rfl, by rw [hsz], ?_⟩
    simp only []
    rw [hsz]; exact hsync

/-- the decoder iteration that answers a match iteration of the encoder -/
theorem dec_of_match (src a : Array Nat) (n dstEnd i ctx : Nat) (tbl out dout : Array Nat) (s : St)
    (rest : List Nat) (hs : Sync src i tbl dout) (hn : src.size ≤ n)
    (hm : MatchShape src dstEnd i (tbl.getD (hash ctx) 0) out s) (hlt : s.out.size < dstEnd)
    (hrest : a.toList = s.out.toList ++ rest) :
    ∃ sd, decStep a n 64 out.size ctx tbl dout = .ok sd ∧ sd.i = s.out.size ∧ sd.ctx = s.ctx ∧
      sd.tbl = tbl.setIfInBounds (hash ctx) i ∧ Sync src s.i sd.tbl sd.out := by
  have hsz := hs.size
  obtain ⟨best, l, h64, hr0, hb, hmatch, hc, hsi, hso, hsh⟩ := hm
  rcases hsh with ⟨k, r, e1, e2, e3⟩ | hbad
  · have hbest : best = 64 + 254 * k + r := by omega
    subst hbest
    subst e3
    rw [hso, Array.toList_appendList, List.append_assoc] at hrest
    have hlen : (MATCH_FLAG :: (List.replicate k 0xFE ++ [r])).length = k + 2 := by simp
    have h0 := get_split' a out _ rest hrest 0 (by rw [hlen]; omega)
    simp only [Nat.add_zero, List.getElem?_cons_zero] at h0
    have hfe : ∀ q, q < k → a[out.size + 1 + q]? = some 0xFE := by
      intro q hq
      have := get_split' a out _ rest hrest (q + 1) (by rw [hlen]; omega)
      rw [show out.size + (q + 1) = out.size + 1 + q by omega] at this
      rw [this, List.getElem?_cons_succ, List.getElem?_append_left (by simpa using hq),
        List.getElem?_replicate, if_pos hq]
    have hlast : a[out.size + 1 + k]? = some r := by
      have := get_split' a out _ rest hrest (k + 1) (by rw [hlen]; omega)
      rw [show out.size + (k + 1) = out.size + 1 + k by omega] at this
      rw [this, List.getElem?_cons_succ, List.getElem?_append_right (by simp)]
      simp
    have hL : ∀ q, q < 64 + 254 * k + r →
        src.toList[i + q]? = src.toList[tbl.getD (hash ctx) 0 + q]? := by
      intro q hq
      rw [Array.getElem?_toList, Array.getElem?_toList]
      exact hmatch q hq
    obtain ⟨o, c, hd, ho, hcc⟩ := decStep_match a n 64 out.size ctx tbl dout k r src.toList i h0 hr0 hfe hlast e2
      hs.hout (hs.hinv _) (by simpa using hb) (by omega) hL (by omega)
    have hosz : o.size = i + (64 + 254 * k + r) := by
      rw [← Array.length_toList, ho]; simp; omega
    have hctx : c = s.ctx := by
      have : le32 o (o.size - 4) = le32 src (i + (64 + 254 * k + r) - 4) := by
        apply le32_congr
        intro q hq
        rw [← Array.getElem?_toList, ho, List.getElem?_take, if_pos (by omega), Array.getElem?_toList, hosz]
      rw [this, hc] at hcc
      injection hcc with hcc
      exact hcc.symm
    refine ⟨_, hd, ?_, hctx, by simp only []; rw [hsz], ?_⟩
    · simp only []; rw [hso]; simp; omega
    · simp only []
      rw [hsz, hsi]
      exact ⟨hb, tbl_inv_step tbl _ i _ hs.hinv (by omega), ho⟩
  · omega

/-! ## the simulation -/

/-- the trailing literal loop of Forward, run in lock step with the loop of Inverse on the final output `a` -/
theorem sim_tail (src a : Array Nat) (dstLen dstEnd n mm : Nat) (hd : dstEnd + 2 ≤ dstLen) (hn : src.size ≤ n) :
    ∀ (f i ctx : Nat) (tbl out dout : Array Nat),
      fwdTail src dstLen dstEnd f i ctx tbl out = .ok (src.size, a) → Sync src i tbl dout →
      ∀ F, a.size + 1 ≤ F + out.size →
        invLoop a n mm F out.size ctx tbl dout = .ok (a.size, src) ∧
        invLoopTr a n mm F out.size ctx tbl dout = fwdTailTr src dstLen dstEnd f i ctx tbl out := by
  intro f
  induction f with
  | zero => intro i ctx tbl out dout h; simp [fwdTail] at h
  | succ f ih =>
    intro i ctx tbl out dout h hs F hF
    have hsz := hs.size
    unfold fwdTail at h
    unfold fwdTailTr
    by_cases hc : i < src.size ∧ out.size < dstEnd
    · rw [if_pos hc] at h ⊢
      obtain ⟨v, hv, e⟩ := encLit_ok src dstLen i ctx (tbl.getD (hash ctx) 0) (tbl.setIfInBounds (hash ctx) i) out
        hc.1 (by omega)
      rw [e] at h ⊢
      simp only [] at h ⊢
      obtain ⟨rest, hrest, _⟩ := fwdTail_prefix _ _ _ _ _ _ _ _ _ h
      simp only [Array.toList_appendList, List.append_assoc] at hrest
      have hsize := size_split' a out _ rest hrest
      have hl1 : 1 ≤ (if tbl.getD (hash ctx) 0 ≠ 0 ∧ v = MATCH_FLAG then [v, 0xFF] else [v]).length := by
        split <;> simp
      obtain ⟨sd, hdec, e1, e2, e3, hs'⟩ := dec_of_lit src a n mm i ctx tbl out dout v rest hs hv hn hrest
      cases F with
      | zero => omega
      | succ F =>
        unfold invLoop invLoopTr
        rw [if_pos (by omega), if_pos (by omega), hdec]
        simp only []
        rw [e1, e2] at *
        rw [e3] at hs' ⊢
        have := ih (i + 1) (shiftCtx ctx v) _ _ sd.out h hs' F (by rw [size_appendList]; omega)
        rw [this.1, this.2, hsz]
        exact ⟨rfl, rfl⟩
    · rw [if_neg hc] at h ⊢
      injection h with h
      injection h with h1 h2
      subst h2
      cases F with
      | zero => omega
      | succ F =>
        unfold invLoop invLoopTr
        rw [if_neg (by omega), if_neg (by omega)]
        refine ⟨?_, rfl⟩
        have : dout = src := by
          apply Array.toList_inj.1
          rw [hs.hout, h1]
          exact List.take_of_length_le (by simp)
        rw [this]

/-- both loops of Forward, run in lock step with the loop of Inverse on the final output `a` -/
theorem sim_main (src a : Array Nat) (dstLen dstEnd n : Nat) (hd : dstEnd + 2 ≤ dstLen) (hn : src.size ≤ n)
    (ha : a.size < dstEnd) :
    ∀ (f i ctx : Nat) (tbl out dout : Array Nat),
      fwdMain src dstLen dstEnd f i ctx tbl out = .ok (src.size, a) → Sync src i tbl dout →
      ∀ F, a.size + 1 ≤ F + out.size →
        invLoop a n 64 F out.size ctx tbl dout = .ok (a.size, src) ∧
        invLoopTr a n 64 F out.size ctx tbl dout = fwdMainTr src dstLen dstEnd f i ctx tbl out := by
  intro f
  induction f with
  | zero => intro i ctx tbl out dout h; simp [fwdMain] at h
  | succ f ih =>
    intro i ctx tbl out dout h hs F hF
    have hsz := hs.size
    unfold fwdMain at h
    unfold fwdMainTr
    rw [MIN_MATCH64_eq] at h ⊢
    by_cases hc : i + 64 < src.size ∧ out.size < dstEnd
    · rw [if_pos hc] at h ⊢
      obtain ⟨s, e, etbl, hshape⟩ := encStep_ok src dstLen dstEnd i ctx tbl out hc.1 hc.2 hd hs.hinv
      rw [e] at h ⊢
      simp only [] at h ⊢
      obtain ⟨rest, hrest, _⟩ := fwdMain_prefix _ _ _ _ _ _ _ _ _ h
      have hlt : s.out.size < dstEnd := by
        have : s.out.size ≤ a.size := by
          rw [← Array.length_toList, ← Array.length_toList, hrest]; simp
        omega
      have key : ∃ sd, decStep a n 64 out.size ctx tbl dout = .ok sd ∧ sd.i = s.out.size ∧ sd.ctx = s.ctx ∧
          sd.tbl = tbl.setIfInBounds (hash ctx) i ∧ Sync src s.i sd.tbl sd.out ∧ out.size < s.out.size := by
        rcases hshape with ⟨v, hv, e1, e2, e3⟩ | hm
        · rw [e3, Array.toList_appendList, List.append_assoc] at hrest
          obtain ⟨sd, hdec, d1, d2, d3, hs'⟩ := dec_of_lit src a n 64 i ctx tbl out dout v rest hs hv hn hrest
          refine ⟨sd, hdec, by rw [d1, e3], by rw [d2, e2], d3, by rw [e1]; exact hs', ?_⟩
          rw [e3, size_appendList]
          split <;> simp
        · obtain ⟨sd, hdec, d1, d2, d3, hs'⟩ := dec_of_match src a n dstEnd i ctx tbl out dout s rest hs hn hm hlt hrest
          refine ⟨sd, hdec, d1, d2, d3, hs', ?_⟩
          obtain ⟨best, l, _, _, _, _, _, _, hso, _⟩ := hm
          rw [hso, size_appendList]; simp
      obtain ⟨sd, hdec, d1, d2, d3, hs', hgrow⟩ := key
      have hsize : s.out.size ≤ a.size := by
        rw [← Array.length_toList, ← Array.length_toList, hrest]; simp
      cases F with
      | zero => omega
      | succ F =>
        unfold invLoop invLoopTr
        rw [if_pos (by omega), if_pos (by omega), hdec]
        simp only []
        rw [d1, d2]
        rw [d3] at hs' ⊢
        rw [← etbl] at hs' ⊢
        have := ih s.i s.ctx s.tbl s.out sd.out h hs' F (by omega)
        rw [this.1, this.2, hsz]
        exact ⟨rfl, rfl⟩
    · rw [if_neg hc] at h ⊢
      exact sim_tail src a dstLen dstEnd n 64 hd hn _ i ctx tbl out dout h hs F hF

/-! ## the whole calls -/

/-- what a successful Forward on a non-empty block looks like -/
theorem lzpForward_ok (b t : List Nat) (dstLen : Nat) (hne : b ≠ []) (hdst : lzpMaxEncodedLen b.length ≤ dstLen)
    (h : lzpForward b dstLen = .ok t) :
    128 ≤ b.length ∧ t.length < b.length - (b.length >>> 6) ∧ ∃ b0 b1 b2 b3 rest, b = b0 :: b1 :: b2 :: b3 :: rest ∧
      fwdMain b.toArray dstLen (b.length - (b.length >>> 6)) b.length 4
        (b0 + 256 * b1 + 65536 * b2 + 16777216 * b3) tbl0 #[b0, b1, b2, b3] = .ok (b.length, t.toArray) := by
  unfold lzpForward at h
  have hlen : b.length ≠ 0 := by simpa using hne
  have hm := lzpMaxEncodedLen_ge b.length
  rw [if_neg (by omega), if_neg (by omega)] at h
  split at h
  · simp at h
  · rename_i h128
    have h128' : 128 ≤ b.length := by
      have : MIN_BLOCK_LENGTH = 128 := rfl
      omega
    refine ⟨h128', ?_⟩
    have h4 : 4 ≤ dstLen := by omega
    match b, h128' with
    | b0 :: b1 :: b2 :: b3 :: rest, _ =>
      simp only [List.getElem?_toArray, List.getElem?_cons_zero, List.getElem?_cons_succ, List.size_toArray] at h
      rw [wr_ok _ _ _ (by simpa using h4), Out.bind_ok] at h
      unfold fwdFinish at h
      obtain ⟨r, hmain, hfin⟩ := Out.bind_eq_ok _ _ _ h
      split at hfin
      · simp at hfin
      · rename_i hcond
        injection hfin with hfin
        subst hfin
        have hr : r = ((b0 :: b1 :: b2 :: b3 :: rest).length, r.2.toList.toArray) := by
          have : r.1 = (b0 :: b1 :: b2 :: b3 :: rest).length := by
            by_cases h1 : r.1 = (b0 :: b1 :: b2 :: b3 :: rest).length
            · exact h1
            · exact absurd (Or.inl h1) hcond
          rw [← this]
        refine ⟨?_, b0, b1, b2, b3, rest, rfl, ?_⟩
        · rw [Array.length_toList]
          by_cases h2 : r.2.size < (b0 :: b1 :: b2 :: b3 :: rest).length - ((b0 :: b1 :: b2 :: b3 :: rest).length >>> 6)
          · exact h2
          · exact absurd (Or.inr (by omega)) hcond
        · rw [← hr]
          exact hmain

/-- the destination bound `dstEnd + 2 ≤ len(dst)` of Forward's loops -/
theorem dstEnd_le (c dstLen : Nat) (h128 : 128 ≤ c) (hdst : lzpMaxEncodedLen c ≤ dstLen) :
    c - (c >>> 6) + 2 ≤ dstLen := by
  have hm := lzpMaxEncodedLen_ge c
  rw [Nat.shiftRight_eq_div_pow]
  have : 2 ≤ c / 2 ^ 6 := by
    rw [Nat.le_div_iff_mul_le (by decide)]; omega
  omega

/-- C13_lzp, C13_lzp_sync, C13_lzp_bytes in one statement -/
theorem lzp_roundtrip (b t : List Nat) (dstLen : Nat) (hdst : lzpMaxEncodedLen b.length ≤ dstLen)
    (h : lzpForward b dstLen = .ok t) :
    t.length ≤ lzpMaxEncodedLen b.length ∧ (b ≠ [] → t.length < b.length) ∧
      ((∀ x ∈ b, x < 256) → ∀ y ∈ t, y < 256) ∧
      ∀ n, b.length ≤ n → lzpInverse false t n = .ok b ∧ lzpInvTrace false t n = lzpFwdTrace b dstLen := by
  by_cases hne : b = []
  · subst hne
    have : t = [] := by
      unfold lzpForward at h
      simp at h
      exact h
    subst this
    refine ⟨by simp, by simp, by simp, ?_⟩
    intro n _
    exact ⟨by simp [lzpInverse], by simp [lzpInvTrace, lzpFwdTrace]⟩
  · obtain ⟨h128, hlt, b0, b1, b2, b3, rest, hb, hmain⟩ := lzpForward_ok b t dstLen hne hdst h
    have hm := lzpMaxEncodedLen_ge b.length
    obtain ⟨trest, htr, hbytes⟩ := fwdMain_prefix _ _ _ _ _ _ _ _ _ hmain
    simp only [List.cons_append, List.nil_append] at htr
    refine ⟨by omega, fun _ => by omega, ?_, ?_⟩
    · intro hx y hy
      rw [htr] at hy
      simp only [List.mem_cons] at hy
      rcases hy with hy | hy | hy | hy | hy
      · subst hy; exact hx _ (by rw [hb]; simp)
      · subst hy; exact hx _ (by rw [hb]; simp)
      · subst hy; exact hx _ (by rw [hb]; simp)
      · subst hy; exact hx _ (by rw [hb]; simp)
      · exact hbytes (by simpa using hx) y hy
    · intro n hn
      have hsync : Sync b.toArray 4 tbl0 #[b0, b1, b2, b3] := by
        refine ⟨by simp; omega, fun k => by rw [tbl0_get]; omega, ?_⟩
        rw [hb]; simp
      have hsim := sim_main b.toArray t.toArray dstLen (b.length - (b.length >>> 6)) n
        (dstEnd_le b.length dstLen h128 hdst) (by simpa using hn) (by simpa using hlt) b.length 4 _ tbl0
        #[b0, b1, b2, b3] #[b0, b1, b2, b3] (by simpa using hmain) hsync t.length (by simp)
      have hsz : (#[b0, b1, b2, b3] : Array Nat).size = 4 := rfl
      rw [hsz] at hsim
      have hmm : minMatch false = 64 := rfl
      have ht0 : t.toArray[0]? = some b0 := by rw [htr]; rfl
      have ht1 : t.toArray[1]? = some b1 := by rw [htr]; rfl
      have ht2 : t.toArray[2]? = some b2 := by rw [htr]; rfl
      have ht3 : t.toArray[3]? = some b3 := by rw [htr]; rfl
      have hb0 : b.toArray[0]? = some b0 := by rw [hb]; rfl
      have hb1 : b.toArray[1]? = some b1 := by rw [hb]; rfl
      have hb2 : b.toArray[2]? = some b2 := by rw [hb]; rfl
      have hb3 : b.toArray[3]? = some b3 := by rw [hb]; rfl
      constructor
      · unfold lzpInverse
        have htl : t.length = trest.length + 4 := by rw [htr]; simp
        rw [if_neg (by omega), if_neg (by omega)]
        simp only [hmm, List.size_toArray, ht0, ht1, ht2, ht3]
        rw [wr_ok _ _ _ (by simp; omega), Out.bind_ok]
        have e : (#[] : Array Nat) ++ [b0, b1, b2, b3] = #[b0, b1, b2, b3] := rfl
        rw [e, hsim.1]
        simp [invFinish]
      · unfold lzpInvTrace lzpFwdTrace
        simp only [hmm, List.size_toArray, ht0, ht1, ht2, ht3, hb0, hb1, hb2, hb3]
        exact hsim.2

end Kanzi.LZP
