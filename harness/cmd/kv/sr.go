package main

// sr: stream-r correspondence.  Streams are built by the INDEPENDENT container builder
// (harness/internal/container) from a frame specification — valid NONE/NONE blocks carrying
// position-coded data, a block with a wrong checksum (fails after the hand-off), an oversize block,
// a source that ends inside a frame or at a frame boundary without end marker — and fed to the REAL
// Reader with a random program of Read / Close calls, reader jobs 1..64, size hint in the header,
// block range from/to, and a source that delivers short reads.  Compared with Model.Reader: (n, hash
// of bytes, error class) of every call and the ids of the blocks handed to the codec (observed
// through the public listener API).  Direct oracles (C05, C11, C09, C02 reader side) in srOracle.

import (
	"errors"
	"bytes"
	"fmt"
	"io"
	"math/rand"
	"sort"
	"strconv"
	"strings"
	"sync"
	"time"

	"kverif/internal/container"

	kanzi "github.com/flanglet/kanzi-go/v2"
	"github.com/flanglet/kanzi-go/v2/hash"
	kio "github.com/flanglet/kanzi-go/v2/io"
)

type chunkReader struct {
	b          []byte
	sizes      []int
	i          int
	closeFails int // number of Close calls that fail first
	closes     int
}

func (c *chunkReader) Read(p []byte) (int, error) {
	if len(c.b) == 0 {
		return 0, io.EOF
	}
	n := len(p)
	if len(c.sizes) > 0 {
		s := c.sizes[c.i%len(c.sizes)]
		c.i++
		if s > 0 && s < n {
			n = s
		}
	}
	if n > len(c.b) {
		n = len(c.b)
	}
	copy(p, c.b[:n])
	c.b = c.b[n:]
	return n, nil
}
func (c *chunkReader) Close() error {
	c.closes++
	if c.closes <= c.closeFails {
		return errors.New("injected source close failure")
	}
	return nil
}

type decListener struct {
	mu  sync.Mutex
	ids []int
}

func (l *decListener) ProcessEvent(evt *kanzi.Event) {
	if evt.Type() == kanzi.EVT_BEFORE_ENTROPY {
		l.mu.Lock()
		l.ids = append(l.ids, evt.ID())
		l.mu.Unlock()
	}
}

type srFrame struct {
	kind byte // b, P, O, E, T
	n    int
	pad  int // extra bytes carried by the frame after the block (the frame is longer than the task's input buffer)
}

func parseSrFrames(spec string) []srFrame {
	var out []srFrame
	for _, it := range strings.Split(spec, ",") {
		if it == "" {
			continue
		}
		switch it[0] {
		case 'E', 'T', 'P':
			out = append(out, srFrame{kind: it[0]})
		case 'b', 'O':
			n, _ := strconv.Atoi(it[1:])
			out = append(out, srFrame{kind: it[0], n: n})
		case 'p':
			// a valid block in a frame padded beyond blockSize + margin: the decoding task has to grow
			// its input buffer (as for a block the entropy coder expanded); to the model it is a block
			n, _ := strconv.Atoi(it[1:])
			out = append(out, srFrame{kind: 'b', n: n, pad: 1500 + (n*7)%3000})
		}
		if it[0] == 'E' || it[0] == 'T' {
			break
		}
	}
	return out
}

// buildSrStream returns the stream bytes and the plain blocks (nil for non-block frames)
func buildSrStream(frames []srFrame, bs, ck int, hint uint64) ([]byte, [][]byte) {
	w := &container.BitWriter{}
	cks := uint(0)
	if ck == 32 {
		cks = 1
	} else if ck == 64 {
		cks = 2
	}
	h := &container.Header{Version: 6, CkSize: cks, EntropyType: 0, Transform: 0, BlockSize: uint(bs)}
	switch {
	case hint == 0 || hint >= 1<<48:
		h.SzMask = 0
	case hint >= 1<<32:
		h.SzMask = 3
	case hint >= 1<<16:
		h.SzMask = 2
	default:
		h.SzMask = 1
	}
	h.OrigSize = hint
	h.Write(w)
	h32, _ := hash.NewXXHash32(0x4B414E5A)
	h64, _ := hash.NewXXHash64(0x4B414E5A)
	sum := func(b []byte) uint64 {
		if cks == 1 {
			return uint64(h32.Hash(b))
		} else if cks == 2 {
			return h64.Hash(b)
		}
		return 0
	}
	off := 0
	var blocks [][]byte
	truncated := false
	for _, f := range frames {
		switch f.kind {
		case 'b', 'O':
			data := patRange(off, f.n)
			if f.kind == 'O' {
				data = make([]byte, f.n)
			}
			off += f.n
			p, nb := container.BuildNoneBlock(data, cks, sum(data))
			if f.pad > 0 {
				p = append(p[:nb/8:nb/8], bytes.Repeat([]byte{0xA5, 0x3C, 0x7E}, f.pad/3+1)[:f.pad]...)
				nb += uint64(8 * f.pad)
			}
			container.WriteFrame(w, p, nb)
			if f.kind == 'b' {
				blocks = append(blocks, data)
			} else {
				blocks = append(blocks, nil)
			}
		case 'P':
			data := []byte("this block has a wrong checksum / bad prologue")
			if cks == 0 {
				// no checksum: make the prologue invalid instead (pre-transform length 0)
				// declared pre-entropy length 100 but only 10 bytes follow: the NONE entropy decoder
				// runs out of bits (after the hand-off, after the BEFORE_ENTROPY notification)
				bw := &container.BitWriter{}
				bw.Bits(0x07, 8)
				bw.Bits(100, 8)
				for i := 0; i < 10; i++ {
					bw.Bits(uint64(i*3), 8)
				}
				container.WriteFrame(w, bw.Bytes(), bw.Len())
			} else {
				// wrong checksum: for the 64-bit width every other failing frame differs from the right value
				// in the HIGH half only (a compare truncated to 32 bits would accept it)
				bad := sum(data) ^ 0x5A5A
				if cks == 2 && len(blocks)%2 == 0 {
					bad = sum(data) ^ (0x5A5A << 40)
				}
				p, nb := container.BuildNoneBlock(data, cks, bad)
				container.WriteFrame(w, p, nb)
			}
			blocks = append(blocks, nil)
		case 'E':
			container.WriteEndMarker(w)
		case 'T':
			truncated = true
		}
	}
	out := w.Bytes()
	if truncated {
		// cut inside a partial frame: append the first bytes of a frame that is never completed
		bw := &container.BitWriter{}
		data := patRange(off, 600)
		p, nb := container.BuildNoneBlock(data, cks, sum(data))
		container.WriteFrame(bw, p, nb)
		// re-align: the partial frame must start at the current bit position
		full := &container.BitWriter{}
		full.Array(out, w.Len())
		full.Array(bw.Bytes(), bw.Len())
		cut := int(w.Len()/8) + 40
		out = full.Bytes()[:cut]
	}
	return out, blocks
}

func classifyRErr(err error) string {
	if err == nil {
		return "ok"
	}
	if err == io.EOF {
		return "eof"
	}
	if strings.Contains(err.Error(), "Stream closed") {
		return "closed"
	}
	return "block"
}

// "sr bs=.. j=.. hint=.. from=.. to=.. ck=.. chunks=<c1,c2|-> frames=<spec> ; r 100 ; c ; r 1"
func srExec(op string, res *Result) string {
	parts := strings.Split(op, ";")
	kv := map[string]string{}
	for _, w := range strings.Fields(parts[0])[1:] {
		if i := strings.IndexByte(w, '='); i > 0 {
			kv[w[:i]] = w[i+1:]
		}
	}
	atoi := func(k string, d int) int {
		if v, ok := kv[k]; ok {
			if x, err := strconv.Atoi(v); err == nil {
				return x
			}
		}
		return d
	}
	bs, j, ck := atoi("bs", 1024), atoi("j", 1), atoi("ck", 0)
	hint := uint64(atoi("hint", 0))
	frames := parseSrFrames(kv["frames"])
	stream, blocks := buildSrStream(frames, bs, ck, hint)
	var sizes []int
	if c := kv["chunks"]; c != "" && c != "-" {
		for _, x := range strings.Split(c, ",") {
			v, _ := strconv.Atoi(x)
			sizes = append(sizes, v)
		}
	}
	ctx := map[string]any{"jobs": uint(j)}
	from, hasFrom := kv["from"]
	to, hasTo := kv["to"]
	fromV, toV := 1, 1<<30
	if hasFrom && from != "-" {
		fromV, _ = strconv.Atoi(from)
		ctx["from"] = fromV
	}
	if hasTo && to != "-" {
		toV, _ = strconv.Atoi(to)
		ctx["to"] = toV
	}
	src := &chunkReader{b: stream, sizes: sizes, closeFails: atoi("cfail", 0)}
	r, err := kio.NewReaderWithCtx(src, ctx)
	if err != nil {
		return "ctor-error"
	}
	lst := &decListener{}
	r.AddListener(lst)
	var outs, mops []string
	var got []byte
	sawErr, sawEOF, dataAfterErr := false, false, false
	readerClosed := false
	for _, o := range parts[1:] {
		f := strings.Fields(o)
		if len(f) == 0 {
			continue
		}
		switch f[0] {
		case "r":
			mops = append(mops, strings.TrimSpace(o))
			n, _ := strconv.Atoi(f[1])
			buf := make([]byte, n)
			var k int
			var err error
			var pan any
			func() {
				defer func() { pan = recover() }()
				k, err = r.Read(buf)
			}()
			if pan != nil {
				outs = append(outs, "r:panic")
				res.Violation = &Violation{Kind: "history", Site: "io.Reader.Read", Symptom: "panic", What: fmt.Sprint(pan)}
				continue
			}
			cls := classifyRErr(err)
			if readerClosed && err == nil && res.Violation == nil {
				// C17: every Read after Close (any length, incl. 0) fails with an error
				res.Violation = &Violation{Kind: "history", Site: "io.Reader.Read", Symptom: "read-after-close-accepted",
					What: fmt.Sprintf("Read(%d) after Close returned (%d, nil)", n, k)}
			}
			if sawErr && k > 0 {
				dataAfterErr = true
			}
			if cls == "block" {
				sawErr = true
			}
			if cls == "eof" {
				sawEOF = true
				outs = append(outs, "r:0:0:eof")
			} else {
				outs = append(outs, fmt.Sprintf("r:%d:%d:%s", k, hash32(buf[:k]), cls))
			}
			if cls != "closed" {
				got = append(got, buf[:k]...)
			}
		case "c":
			// a failing wrapped closer is reported by the Close that met it; the Reader is closed
			// all the same (C17: Read after Close fails, whatever Close returned)
			if cerr := r.Close(); cerr != nil {
				outs = append(outs, "c:err")
				mops = append(mops, "c !s")
			} else {
				outs = append(outs, "c:ok")
				mops = append(mops, "c")
			}
			readerClosed = true
		}
	}
	sort.Ints(lst.ids)
	// ids decoded beyond a failing block are schedule dependent (later tasks may or may not have
	// started before they saw the cancel): report only ids up to the first failing block in range
	limit := 1 << 30
	for i, f := range frames {
		id := i + 1
		if (f.kind == 'P' || f.kind == 'O') && id >= fromV && id < toV {
			limit = id
			break
		}
	}
	var ids []string
	for _, id := range lst.ids {
		if id <= limit {
			ids = append(ids, strconv.Itoa(id))
		}
	}
	// ---- direct oracles (independent of the Lean model)
	// expected plain output: concatenation of the blocks whose id is in [from, to), up to the first
	// frame that is not a valid block inside the range
	var want []byte
	complete := false
	clean := true
	for i, f := range frames {
		id := i + 1
		if f.kind == 'E' {
			complete = true
			break
		}
		if f.kind == 'T' {
			break
		}
		in := id >= fromV && id < toV
		if f.kind == 'b' {
			if in {
				want = append(want, blocks[i]...)
			}
		} else if in {
			clean = false
			break
		}
	}
	if !bytes.HasPrefix(want, got) {
		res.Violation = &Violation{Kind: "history", Site: "io.Reader.Read", Symptom: "wrong-bytes", What: fmt.Sprintf("returned %d bytes that are not a prefix of the expected %d bytes of blocks [%d,%d)", len(got), len(want), fromV, toV)}
	}
	if dataAfterErr {
		res.Violation = &Violation{Kind: "history", Site: "io.Reader.Read", Symptom: "data-after-error", What: "a Read returned n>0 after an earlier Read reported a block error"}
	}
	if sawEOF && !sawErr && (!complete || !clean) {
		res.Violation = &Violation{Kind: "history", Site: "io.Reader.Read", Symptom: "truncation-undetected", What: "io.EOF reported for a stream without end marker / with a failing block in range, and no error before it"}
	}
	if sawEOF && !sawErr && complete && clean && !bytes.Equal(got, want) {
		res.Violation = &Violation{Kind: "history", Site: "io.Reader.Read", Symptom: "short-output", What: fmt.Sprintf("io.EOF after %d of %d expected bytes", len(got), len(want))}
	}
	for _, id := range lst.ids {
		if id < fromV || id >= toV {
			res.Violation = &Violation{Kind: "history", Site: "io.decodingTask.decode", Symptom: "decoded-outside-range", What: fmt.Sprintf("block %d was entropy-decoded although the range is [%d,%d)", id, fromV, toV)}
		}
	}
	res.Nontrivial = len(got) > 0
	res.Tags = append(res.Tags, "j:"+kv["j"], fmt.Sprintf("range:%v", hasFrom || hasTo), fmt.Sprintf("err:%v", sawErr), fmt.Sprintf("eof:%v", sawEOF))
	res.Sample = map[string]any{"scenario": op[:min(len(op), 300)]}
	// the model does not see the source chunking nor the checksum width
	mo := []string{"sr"}
	for _, k := range []string{"bs", "j", "hint", "from", "to", "frames"} {
		if v, ok := kv[k]; ok && v != "-" {
			if k == "frames" {
				v = strings.ReplaceAll(v, "p", "b")
			}
			mo = append(mo, k+"="+v)
		}
	}
	res.ModelOp = strings.Join(mo, " ") + " ; " + strings.Join(mops, " ; ")
	return strings.Join(outs, " ; ") + " | dec=" + strings.Join(ids, ",")
}

func srGen(r *rand.Rand, tier string, n int, emit func(op string, tags ...string)) {
	if n == 0 {
		n = 4000
		if tier == "thorough" {
			n = 80000
		}
	}
	// exhaustive ranges on small streams first (C11)
	for _, nb := range []int{1, 3, 5, 8, 12} {
		for from := 1; from <= nb+2; from++ {
			for to := from; to <= nb+3; to++ {
				if tier != "thorough" && (from+to+nb)%3 != 0 {
					continue
				}
				var fr []string
				for i := 0; i < nb-1; i++ {
					fr = append(fr, "b1024")
				}
				fr = append(fr, []string{"b1024", "b1", "b700"}[(from+to)%3], "E")
				j := 1 + (from*7+to*3+nb)%8
				emit(fmt.Sprintf("sr bs=1024 j=%d hint=%d from=%d to=%d ck=%d chunks=- frames=%s ; r 100000 ; r 10 ; r 10", j, []int{0, nb * 1024, 1024}[(from+to)%3], from, to, []int{0, 32, 64}[to%3], strings.Join(fr, ",")), "family:range-exhaustive")
			}
		}
	}
	for i := 0; i < n; i++ {
		bs := []int{1024, 1024, 2048, 4096}[r.Intn(4)]
		j := []int{1, 2, 3, 4, 5, 7, 8, 16, 63, 64}[r.Intn(10)]
		nb := r.Intn(14)
		var fr []string
		total := 0
		padded := r.Intn(5) == 0
		for k := 0; k < nb; k++ {
			if padded && r.Intn(3) == 0 {
				fr = append(fr, fmt.Sprintf("p%d", bs))
			} else {
				fr = append(fr, fmt.Sprintf("b%d", bs))
			}
			total += bs
		}
		fam := "valid"
		if padded {
			fam = "padded-frames"
		}
		// last block short?
		if r.Intn(2) == 0 {
			l := 1 + r.Intn(bs)
			fr = append(fr, fmt.Sprintf("b%d", l))
			total += l
		}
		switch x := r.Intn(10); {
		case x < 6:
			fr = append(fr, "E")
		case x == 6:
			fam = "trunc-boundary"
		case x == 7:
			fr = append(fr, "T")
			fam = "trunc-inside"
		case x == 8:
			// a failing block somewhere
			pos := r.Intn(len(fr) + 1)
			fr = append(fr[:pos], append([]string{"P"}, fr[pos:]...)...)
			fr = append(fr, "E")
			fam = "bad-block"
		default:
			pos := r.Intn(len(fr) + 1)
			fr = append(fr[:pos], append([]string{fmt.Sprintf("O%d", bs+1+r.Intn(bs/4))}, fr[pos:]...)...)
			fr = append(fr, "E")
			fam = "oversize"
		}
		hint := 0
		switch r.Intn(5) {
		case 0:
			hint = total
		case 1:
			hint = 1 + r.Intn(3*bs)
		case 2:
			hint = total * 3
		}
		rng := ""
		if r.Intn(4) == 0 {
			from := 1 + r.Intn(nb+2)
			to := from + r.Intn(nb+3)
			rng = fmt.Sprintf(" from=%d to=%d", from, to)
			if r.Intn(4) == 0 {
				rng = fmt.Sprintf(" from=%d", from)
			} else if r.Intn(4) == 0 {
				rng = fmt.Sprintf(" to=%d", to)
			}
		}
		chunks := "-"
		switch r.Intn(6) {
		case 0:
			chunks = "1"
		case 1:
			chunks = "7"
		case 2:
			chunks = "5,8"
		case 3:
			chunks = fmt.Sprintf("%d,%d,%d", 1+r.Intn(2000), 1+r.Intn(20), 1+r.Intn(9000))
		}
		var ops []string
		nops := 1 + r.Intn(10)
		for k := 0; k < nops; k++ {
			switch x := r.Intn(14); {
			case x == 0:
				ops = append(ops, "r 0")
			case x == 1:
				ops = append(ops, "c")
			case x < 5:
				ops = append(ops, fmt.Sprintf("r %d", 1+r.Intn(bs*2)))
			case x < 8:
				ops = append(ops, fmt.Sprintf("r %d", bs*(1+r.Intn(4))+r.Intn(3)-1))
			default:
				ops = append(ops, fmt.Sprintf("r %d", 1+r.Intn(total+bs+1)))
			}
		}
		ops = append(ops, fmt.Sprintf("r %d", total+10), "r 10", "r 10", "r 10")
		cf := ""
		if r.Intn(6) == 0 {
			// wrapped source whose Close fails once or twice; Close after a partial Read so that
			// decoded-but-unread bytes are pending, then Reads and a second Close
			cf = fmt.Sprintf(" cfail=%d", 1+r.Intn(2))
			fam += "+closerfail"
			ops = []string{fmt.Sprintf("r %d", 1+r.Intn(bs)), "c", "r 10", fmt.Sprintf("r %d", bs), "c", "r 10", "c", "r 0"}
			if r.Intn(3) == 0 {
				ops = ops[1:]
			}
		}
		emit(fmt.Sprintf("sr bs=%d j=%d hint=%d%s ck=%d%s chunks=%s frames=%s ; %s", bs, j, hint, rng, []int{0, 32, 64}[r.Intn(3)], cf, chunks, strings.Join(fr, ","), strings.Join(ops, " ; ")), "family:"+fam)
	}
}

func init() {
	registerStream(&Stream{
		Name:     "sr",
		Watchdog: 60 * time.Second,
		Rule:     "streams built by the independent container builder (valid NONE/NONE blocks with position-coded data, last block short or full, one fifth with frames padded beyond the task input buffer; variants: no end marker, source ending inside a frame, a block failing after the hand-off (bad checksum / bad prologue), an oversize block) read by the real Reader with jobs 1..64, size hint absent/exact/wrong, block range from/to (exhaustive over ranges for 1..12 blocks + random), source delivering short reads, random programs of Read (incl. 0-length) and Close, one sixth with a wrapped source whose Close fails (Close after a partial Read, Reads after it, repeated Close), and four more Reads after the end; distinct_nontrivial = distinct scenarios returning at least one byte",
		Gen:      srGen,
		Exec:     srExec,
	})
}
