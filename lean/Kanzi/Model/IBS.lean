/-
Model of `bitstream.DefaultInputBitStream` (v2/bitstream/DefaultInputBitStream.go), as repaired
for finding F3 (`readFromInputStream` completes a short read up to a multiple of 8 bytes) and by
the fix that makes the unaligned `ReadArray` loops panic with `pendingErr` (when set) instead of
"No more data to read in the bitstream" at a too-short last word.
Core Lean only (linked into `kmodel`).

The state mirrors the Go struct field by field (`closed`, `read`, `position`, `availBits`,
`current`, `buffer`, `maxPosition`, `pendingErr`) plus the source behind `is io.ReadCloser`:
a list of chunks still to deliver and a terminal behaviour.  `Read(p)` returns the next chunk
truncated to `len(p)` (the rest stays), with a nil error, or — for a chunk tagged `err` once it is
delivered completely — together with the terminal error (n>0, err≠nil); once the chunks are
exhausted it returns `(0, io.EOF)` (`Term.eof`) or `(0, err)` (`Term.fail`).  An empty chunk is a
`(0, nil)` read.  `buffer` is a list of fixed length (`len(this.buffer)`); bytes at index
> `maxPosition` are stale.

Every operation returns an outcome AND the new state; the state returned together with a `panic`
outcome is the state the Go object is left in when the panic unwinds (e.g. `ReadBits` does not
assign `current/availBits` when `pull` panics).  Error classes: `eos` = `io.EOF` or one of the two
"No more data to read in the bitstream" values, `io` = any other error of the source (and
`io.ErrNoProgress`), `closed` = "Stream closed", `invalidCount`, `runtime` = Go run-time panic
(slice bounds: only reachable after an earlier panic), `fuel` = model artefact, unreachable.
Loops are recursion on explicit fuel.
-/
namespace Kanzi.IBS

abbrev Byte := BitVec 8

inductive ErrKind where
  | eos | io | closed | invalidCount | runtime | fuel
  deriving DecidableEq, Repr, Inhabited

inductive Res (α : Type) where
  | val (v : α)
  | panic (e : ErrKind)
  deriving Repr

/-! ### the source -/

structure Chunk where
  bytes : List Byte
  err : Bool

inductive Term where
  | eof | fail
  deriving DecidableEq, Repr

def Term.err : Term → ErrKind
  | .eof => .eos
  | .fail => .io

structure Src where
  chunks : List Chunk
  term : Term

structure RdRes where
  data : List Byte
  err : Option ErrKind
  src : Src

/-- one `is.Read(p)` with `len(p) = n` -/
def Src.read (s : Src) (n : Nat) : RdRes :=
  match s.chunks with
  | [] => ⟨[], some s.term.err, s⟩
  | c :: cs =>
    if c.bytes.length ≤ n then
      ⟨c.bytes, if c.err then some s.term.err else none, { s with chunks := cs }⟩
    else
      ⟨c.bytes.take n, none, { s with chunks := { c with bytes := c.bytes.drop n } :: cs }⟩

/-! ### the stream -/

structure St where
  closed : Bool
  read : Int
  position : Nat
  availBits : Nat
  current : BitVec 64
  buffer : List Byte
  maxPosition : Int
  pendingErr : Option ErrKind
  src : Src

/-- `NewDefaultInputBitStream(stream, bs)` (the constructor's parameter checks are in the driver:
    Go refuses `bs < 1024`, `bs > 2^29`, `bs % 8 ≠ 0`) -/
def init (bs : Nat) (src : Src) : St :=
  { closed := false, read := 0, position := 0, availBits := 0, current := 0,
    buffer := List.replicate bs 0, maxPosition := -1, pendingErr := none, src := src }

/-- `maxPosition + 1` as a natural number: number of valid bytes in `buffer` -/
def St.lim (s : St) : Nat := (s.maxPosition + 1).toNat

/-- the bytes `buffer[position : maxPosition+1]` -/
def St.bufRest (s : St) : List Byte := (s.buffer.take s.lim).drop s.position

/-- `Read()` -/
def St.count (s : St) : Int := s.read + 8 * (s.position : Int) - (s.availBits : Int)

/-- big-endian value of a byte string -/
def beNat : List Byte → Nat
  | [] => 0
  | b :: l => b.toNat * 2 ^ (8 * l.length) + beNat l

/-- `binary.BigEndian.Uint64` on 8 bytes; for fewer bytes the value accumulated by the loop
    `val |= uint64(buffer[position]) << shift` of `pull` (the bytes end up in the low bits) -/
def beWord (l : List Byte) : BitVec 64 := BitVec.ofNat 64 (beNat l)

/-- `binary.BigEndian.PutUint64` -/
def wordBytes (w : BitVec 64) : List Byte :=
  [(w >>> 56).setWidth 8, (w >>> 48).setWidth 8, (w >>> 40).setWidth 8, (w >>> 32).setWidth 8,
   (w >>> 24).setWidth 8, (w >>> 16).setWidth 8, (w >>> 8).setWidth 8, w.setWidth 8]

/-- the short-read completion loop of `readFromInputStream` (`count = len(buffer)`) -/
def complete (count : Nat) : Nat → RdRes → RdRes
  | 0, r => r
  | fuel + 1, r =>
    if 0 < r.data.length ∧ r.data.length % 8 ≠ 0 ∧ r.data.length < count ∧ r.err = none then
      if ((r.src.read (count - r.data.length)).data.length = 0) then
        ⟨r.data, some (((r.src.read (count - r.data.length)).err).getD .io),
          (r.src.read (count - r.data.length)).src⟩
      else
        complete count fuel ⟨r.data ++ (r.src.read (count - r.data.length)).data,
          (r.src.read (count - r.data.length)).err, (r.src.read (count - r.data.length)).src⟩
    else r

/-- the bytes obtained by one `readFromInputStream(len(buffer))` once it reaches the source -/
def fetch (s : St) : RdRes :=
  complete s.buffer.length s.buffer.length (s.src.read s.buffer.length)

/-- `readFromInputStream(len(this.buffer))`; `none` = nil error -/
def refill (s : St) : Option ErrKind × St :=
  if s.closed then (some .closed, s)
  else if s.buffer.length = 0 then (none, s)
  else match s.pendingErr with
    | some e => (some e, { s with maxPosition := -1 })
    | none =>
      if (fetch s).data.length = 0 then
        (some (((fetch s).err).getD .eos),
          { s with read := s.read + 8 * (s.position : Int), position := 0, maxPosition := -1,
                   src := (fetch s).src })
      else
        (none,
          { s with read := s.read + 8 * (s.position : Int), position := 0,
                   maxPosition := ((fetch s).data.length : Int) - 1,
                   pendingErr := (fetch s).err, src := (fetch s).src,
                   buffer := (fetch s).data ++ s.buffer.drop (fetch s).data.length })

/-- the part of `pull` after the optional refill, including the assignment
    `this.current, this.availBits = this.pull()` made by every caller -/
def pullWord (t : St) : St :=
  if (t.position : Int) + 7 > t.maxPosition then
    { t with current := beWord t.bufRest, availBits := 8 * t.bufRest.length,
             position := t.position + t.bufRest.length }
  else
    { t with current := beWord ((t.buffer.drop t.position).take 8), availBits := 64,
             position := t.position + 8 }

/-- `this.current, this.availBits = this.pull()`; on a panic nothing is assigned -/
def pull (s : St) : Option ErrKind × St :=
  if (s.position : Int) > s.maxPosition then
    match (refill s).1 with
    | some e => (some e, (refill s).2)
    | none => (none, pullWord (refill s).2)
  else (none, pullWord s)

def mask (n : Nat) : BitVec 64 := BitVec.allOnes 64 >>> (64 - n)

/-- `ReadBit` -/
def readBit (s : St) : Res (BitVec 64) × St :=
  if s.availBits = 0 then
    match (pull s).1 with
    | some e => (.panic e, (pull s).2)
    | none =>
      (.val ((((pull s).2).current >>> (((pull s).2).availBits - 1)) &&& 1),
        { (pull s).2 with availBits := ((pull s).2).availBits - 1 })
  else
    (.val ((s.current >>> (s.availBits - 1)) &&& 1), { s with availBits := s.availBits - 1 })

/-- `ReadBits(count)`; the fuel bounds the depth of the recursive tail call -/
def readBitsAux : Nat → St → Nat → Res (BitVec 64) × St
  | 0, s, _ => (.panic .fuel, s)
  | fuel + 1, s, n =>
    if n = 0 ∨ n > 64 then (.panic .invalidCount, s)
    else if n ≤ s.availBits then
      (.val ((s.current >>> (s.availBits - n)) &&& mask n), { s with availBits := s.availBits - n })
    else
      match (pull s).1 with
      | some e => (.panic e, (pull s).2)
      | none =>
        match (readBitsAux fuel (pull s).2 (n - s.availBits)).1 with
        | .val v =>
          (.val (((s.current &&& mask s.availBits) <<< (n - s.availBits)) ||| v),
            (readBitsAux fuel (pull s).2 (n - s.availBits)).2)
        | .panic e => (.panic e, (readBitsAux fuel (pull s).2 (n - s.availBits)).2)

def readBits (s : St) (n : Nat) : Res (BitVec 64) × St := readBitsAux (n + 2) s n

/-! ### ReadArray -/

/-- loop state of `ReadArray`: the stream, the bytes stored so far (`bits[0:start]`), `remaining` -/
structure Lp where
  st : St
  out : List Byte
  rem : Nat

inductive LR where
  | ok (l : Lp)
  | panic (e : ErrKind) (s : St)

def LR.bind (r : LR) (f : Lp → LR) : LR :=
  match r with
  | .ok l => f l
  | .panic e s => .panic e s

/-- `bits[start] = byte(this.ReadBits(8)); start++; remaining -= 8` -/
def byteStep (l : Lp) : LR :=
  match (readBits l.st 8).1 with
  | .val v => .ok ⟨(readBits l.st 8).2, l.out ++ [v.setWidth 8], l.rem - 8⟩
  | .panic e => .panic e (readBits l.st 8).2

/-- `for this.availBits != 0 && remaining >= 8 { … ReadBits(8) … }` -/
def emptyCur : Nat → Lp → LR
  | 0, l => .panic .fuel l.st
  | fuel + 1, l =>
    if l.st.availBits ≠ 0 ∧ l.rem ≥ 8 then (byteStep l).bind (emptyCur fuel) else .ok l

/-- `for (remaining >> 3) > availBytes { copy; position = maxPosition+1; …; readFromInputStream }` -/
def copyLoop : Nat → Lp → LR
  | 0, l => .panic .fuel l.st
  | fuel + 1, l =>
    if ((l.rem / 8 : Nat) : Int) > l.st.maxPosition + 1 - (l.st.position : Int) then
      if l.st.maxPosition + 1 - (l.st.position : Int) < 0 then .panic .runtime l.st
      else
        match (refill { l.st with position := l.st.lim }).1 with
        | some e => .panic e (refill { l.st with position := l.st.lim }).2
        | none =>
          copyLoop fuel ⟨(refill { l.st with position := l.st.lim }).2, l.out ++ l.st.bufRest,
            l.rem - 8 * l.st.bufRest.length⟩
    else .ok l

/-- `r := (remaining >> 6) << 3; if r > 0 { copy(bits[start:start+r], buffer[position:position+r]) … }` -/
def bulkWords (l : Lp) : Lp :=
  if l.rem / 64 * 8 > 0 then
    ⟨{ l.st with position := l.st.position + l.rem / 64 * 8 },
      l.out ++ (l.st.buffer.drop l.st.position).take (l.rem / 64 * 8), l.rem - 8 * (l.rem / 64 * 8)⟩
  else l

/-- `if this.availBits == 0 { this.current, this.availBits = this.pull() }` -/
def alignedStart (l : Lp) : LR :=
  if l.st.availBits = 0 then
    match (pull l.st).1 with
    | some e => .panic e (pull l.st).2
    | none => .ok { l with st := (pull l.st).2 }
  else .ok l

/-- the byte aligned branch -/
def aligned (l : Lp) : LR :=
  ((alignedStart l).bind (fun l1 => emptyCur (l1.st.availBits / 8 + 2) l1)).bind
    (fun l2 => (copyLoop (l2.rem + 2) l2).bind (fun l3 => .ok (bulkWords l3)))

/-- one pass of the 64-bit word loop (also the slow path of the 256-bit loop), `r = 64 - a` -/
def slowStep (r : Nat) (l : Lp) : LR :=
  match (pull l.st).1 with
  | some e => .panic e (pull l.st).2
  | none =>
    if (pull l.st).2.availBits < r then
      -- `if this.pendingErr != nil { panic(this.pendingErr) }; panic("No more data …")`
      .panic (((pull l.st).2.pendingErr).getD .eos) (pull l.st).2
    else
      .ok ⟨{ (pull l.st).2 with availBits := (pull l.st).2.availBits - r },
        l.out ++ wordBytes ((l.st.current <<< r) |||
          ((pull l.st).2.current >>> ((pull l.st).2.availBits - r))),
        l.rem - 64⟩

/-- the four buffered words `v1..v4` of the fast path of the 256-bit loop -/
def bufWord (s : St) (i : Nat) : BitVec 64 := beWord ((s.buffer.drop (s.position + 8 * i)).take 8)

/-- fast path of the 256-bit loop (`a = availBits` at entry of `ReadArray`, `r = 64 - a`) -/
def fastStep (r a : Nat) (l : Lp) : Lp :=
  ⟨{ l.st with position := l.st.position + 32, current := bufWord l.st 3 },
    l.out ++ wordBytes ((l.st.current <<< r) ||| (bufWord l.st 0 >>> a))
          ++ wordBytes ((bufWord l.st 0 <<< r) ||| (bufWord l.st 1 >>> a))
          ++ wordBytes ((bufWord l.st 1 <<< r) ||| (bufWord l.st 2 >>> a))
          ++ wordBytes ((bufWord l.st 2 <<< r) ||| (bufWord l.st 3 >>> a)),
    l.rem - 256⟩

/-- `for remaining >= 256 { … }` -/
def loop256 (r a : Nat) : Nat → Lp → LR
  | 0, l => .panic .fuel l.st
  | fuel + 1, l =>
    if l.rem ≥ 256 then
      if (l.st.position : Int) + 32 > l.st.maxPosition then (slowStep r l).bind (loop256 r a fuel)
      else loop256 r a fuel (fastStep r a l)
    else .ok l

/-- `for remaining >= 64 { … }` -/
def loop64 (r : Nat) : Nat → Lp → LR
  | 0, l => .panic .fuel l.st
  | fuel + 1, l =>
    if l.rem ≥ 64 then (slowStep r l).bind (loop64 r fuel) else .ok l

/-- the branch for a cursor that is not byte aligned -/
def unaligned (l : Lp) : LR :=
  (loop256 (64 - l.st.availBits) l.st.availBits (l.rem / 64 + 1) l).bind
    (fun l1 => loop64 (64 - l.st.availBits) (l1.rem / 64 + 1) l1)

/-- `for remaining >= 8 { bits[start] = byte(this.ReadBits(8)) … }` -/
def tailBytes : Nat → Lp → LR
  | 0, l => .panic .fuel l.st
  | fuel + 1, l => if l.rem ≥ 8 then (byteStep l).bind (tailBytes fuel) else .ok l

/-- `if remaining > 0 { bits[start] = byte(this.ReadBits(uint(remaining)) << uint(8-remaining)) }` -/
def tailBits (l : Lp) : LR :=
  if l.rem > 0 then
    match (readBits l.st l.rem).1 with
    | .val v => .ok ⟨(readBits l.st l.rem).2, l.out ++ [(v <<< (8 - l.rem)).setWidth 8], 0⟩
    | .panic e => .panic e (readBits l.st l.rem).2
  else .ok l

def readArrayBody (l : Lp) : LR :=
  ((if l.st.availBits % 8 = 0 then aligned l else unaligned l).bind
    (fun l1 => tailBytes (l1.rem / 8 + 1) l1)).bind tailBits

/-- `ReadArray(bits, count)` into a fresh array of `⌈count/8⌉` bytes; value = the bytes stored -/
def readArray (s : St) (k : Nat) : Res (List Byte) × St :=
  if s.closed then (.panic .closed, s)
  else if k = 0 then (.val [], s)
  else
    match readArrayBody ⟨s, [], k⟩ with
    | .ok l => (.val l.out, l.st)
    | .panic e s' => (.panic e, s')

/-- `HasMoreToRead`: `.val ()` = `(true, nil)`, `.panic e` = `(false, err)` (an error VALUE here) -/
def hasMore (s : St) : Res Unit × St :=
  if s.closed then (.panic .closed, s)
  else if (s.position : Int) ≤ s.maxPosition ∨ s.availBits ≠ 0 then (.val (), s)
  else match s.pendingErr with
    | some e => (.panic e, s)
    | none =>
      match (refill s).1 with
      | some e => (.panic e, (refill s).2)
      | none => (.val (), (refill s).2)

/-- `Close` -/
def close (s : St) : St :=
  if s.closed then s
  else { s with closed := true, read := s.read - (s.availBits : Int), availBits := 0,
                maxPosition := -1, pendingErr := none }

/-! ### programs -/

inductive Op where
  | readBit | readBits (n : Nat) | readArray (k : Nat) | hasMore | close | read
  deriving Repr, DecidableEq

inductive Outcome where
  | val (v : Nat)
  | arr (bs : List Byte)
  | more
  | moreErr (e : ErrKind)
  | ok
  | cnt
  | panic (e : ErrKind)
  deriving Repr, DecidableEq

def resOut (r : Res (BitVec 64)) : Outcome :=
  match r with
  | .val v => .val v.toNat
  | .panic e => .panic e

def step (s : St) (op : Op) : Outcome × St :=
  match op with
  | .readBit => (resOut (readBit s).1, (readBit s).2)
  | .readBits n => (resOut (readBits s n).1, (readBits s n).2)
  | .readArray k =>
    (match (readArray s k).1 with
      | .val bs => .arr bs
      | .panic e => .panic e, (readArray s k).2)
  | .hasMore =>
    (match (hasMore s).1 with
      | .val _ => .more
      | .panic e => .moreErr e, (hasMore s).2)
  | .close => (.ok, close s)
  | .read => (.cnt, s)

/-- outcome of every op together with `Read()` after it -/
def run (s : St) : List Op → List (Outcome × Int)
  | [] => []
  | op :: ops => ((step s op).1, (step s op).2.count) :: run (step s op).2 ops

end Kanzi.IBS
