/-
Line-protocol driver of the `clipath` stream (see harness/cmd/kv/clipath.go).  Core Lean only.

    plan m=<c|d> i=<s> o=<s|-> f=<0|1> rm=<0|1> nl=<0|1> nd=<0|1> j=<n> base=<s> cwd=<s> fs=<k:s,k:s,..|-> obs=<rc> [|| plan ...]
    clean <s>                  -> <s>     (filepath.Clean)
    join <s> <s>               -> <s>     (filepath.Join iterated over the components of the 2nd argument)
    rel <s> <s>                -> <s>|err (filepath.Rel(base, target))
    base <s>                   -> <s>     (filepath.Base)

Strings `<s>`: bytes `[A-Za-z0-9._/]` literally, every other byte as `%XX`; the empty string is `-`.
`fs=`: the entries below the directory `base` before the run (`cwd`, the working directory of the
tool, is `base` or a directory below it), `k` in f (regular file),
d (directory), lf / ld / lb (symbolic link to a file / to a directory / dangling).
Answer per `plan` step (steps joined by ` || `):

    <tasks:N|tasks:*|err:CODE|unsupported> rc=<status> tasks=<i>o,i>o,..|-|*> new=<s,s,..|-|*>

`tasks:*` when the output is standard output (the tool prints nothing); `rc=` echoes the observed
exit status `obs` when the model allows it, otherwise `rc=!a|b` (the allowed ones); `tasks=` the
task list sorted by input name when the tool printed it (one job or one file, exit status 0);
`new=` the files that exist after the run and did not exist before (exit status 0).
-/
import Kanzi.Model.CliPaths

namespace Kanzi.Drv
open Kanzi.CliPaths

def cpHexVal (c : Char) : Option Nat :=
  if '0' ≤ c ∧ c ≤ '9' then some (c.toNat - 48)
  else if 'A' ≤ c ∧ c ≤ 'F' then some (c.toNat - 55)
  else if 'a' ≤ c ∧ c ≤ 'f' then some (c.toNat - 87)
  else none

def cpUnescGo : List Char → Option Str
  | [] => some []
  | '%' :: a :: b :: rest =>
    match cpHexVal a, cpHexVal b, cpUnescGo rest with
    | some x, some y, some r => some (UInt8.ofNat (16 * x + y) :: r)
    | _, _, _ => none
  | '%' :: _ => none
  | c :: rest => (cpUnescGo rest).map (UInt8.ofNat c.toNat :: ·)

def cpUnesc (s : String) : Option Str := if s = "-" then some [] else cpUnescGo s.toList

def cpHexDigit (n : Nat) : Char := if n < 10 then Char.ofNat (48 + n) else Char.ofNat (55 + n)

def cpLiteral (b : UInt8) : Bool :=
  (48 ≤ b ∧ b ≤ 57) ∨ (65 ≤ b ∧ b ≤ 90) ∨ (97 ≤ b ∧ b ≤ 122) ∨ b = 46 ∨ b = 95 ∨ b = 47

def cpEsc (s : Str) : String :=
  if s = [] then "-" else
  String.ofList (s.flatMap fun b =>
    if cpLiteral b then [Char.ofNat b.toNat] else ['%', cpHexDigit (b.toNat / 16), cpHexDigit (b.toNat % 16)])

def cpLt : Str → Str → Bool
  | [], [] => false
  | [], _ :: _ => true
  | _ :: _, [] => false
  | a :: as, b :: bs => a < b || (a == b && cpLt as bs)

def cpInsert {α : Type} (key : α → Str) (x : α) : List α → List α
  | [] => [x]
  | y :: ys => if cpLt (key y) (key x) then y :: cpInsert key x ys else x :: y :: ys

def cpSort {α : Type} (key : α → Str) (l : List α) : List α := l.foldl (fun acc x => cpInsert key x acc) []

def cpDedup : List Str → List Str
  | [] => []
  | x :: xs => if xs.contains x then cpDedup xs else x :: cpDedup xs

def cpKind : String → Option Kind
  | "f" => some .file
  | "d" => some .dir
  | "lf" => some .linkFile
  | "ld" => some .linkDir
  | "lb" => some .linkBad
  | _ => none

def cpComps (s : Str) : List Str := (splitSep s).filter (· ≠ [])

def cpEnt (tok : String) : Option Ent :=
  match tok.splitOn ":" with
  | [k, p] => match cpKind k, cpUnesc p with
    | some k, some p => some { comps := cpComps p, kind := k }
    | _, _ => none
  | _ => none

def cpGet (ws : List String) (k : String) : Option String :=
  (ws.filterMap fun w => if w.startsWith (k ++ "=") then some (String.ofList (w.toList.drop (k.length + 1))) else none).head?

def cpList (l : List String) : String := if l = [] then "-" else ",".intercalate l

def cpStep (grp : String) : String :=
  let ws := (grp.splitOn " ").filter (· ≠ "")
  let flag (k : String) : Bool := cpGet ws k = some "1"
  match ws.head?, cpGet ws "m", (cpGet ws "i").bind cpUnesc, (cpGet ws "o").bind cpUnesc,
        (cpGet ws "base").bind cpUnesc, (cpGet ws "cwd").bind cpUnesc, cpGet ws "fs", (cpGet ws "obs").bind String.toNat?, (cpGet ws "j").bind String.toNat? with
  | some "plan", some m, some i, some o, some base, some cwd, some fsStr, some obs, some j =>
    let ents? := if fsStr = "-" then some [] else (fsStr.splitOn ",").mapM cpEnt
    match ents? with
    | none => "bad-op"
    | some ents =>
      let w : World := { base := cpComps base, cwd := cpComps cwd, ents := ents }
      let a : Args := { decomp := m = "d", inp := i, out := o, force := flag "f", rm := flag "rm",
                        noLinks := flag "nl", noDot := flag "nd" }
      match plan w.fs a with
      | .err c => s!"err:{c} rc={c} tasks=* new=*"
      | .unsupported => "unsupported"
      | .tasks ts =>
        let toStdout := eqFold a.out STDOUT
        let hd := if toStdout then "tasks:*" else s!"tasks:{ts.length}"
        let rc := match verdict w.fs a ts with
          | .exact => "0"
          | .any => toString obs
          | .oneOf cs => if cs.contains obs then toString obs else "!" ++ "|".intercalate (cs.map toString)
        let shown := obs = 0 ∧ (j = 1 ∨ ts.length = 1) ∧ ¬ toStdout
        let tl := if shown then cpList ((cpSort (fun t : Str × Str => t.1) ts).map fun t => cpEsc t.1 ++ ">" ++ cpEsc t.2) else "*"
        let news := if obs = 0 then
            cpList ((cpSort id (cpDedup ((ts.filter fun t => !isSpecial t.2 && (w.fs.lstat t.2).isNone).filterMap fun t =>
              (w.relOf t.2).map joinSep))).map cpEsc)
          else "*"
        s!"{hd} rc={rc} tasks={tl} new={news}"
  | _, _, _, _, _, _, _, _, _ => "bad-op"

def clipath (line : String) : String :=
  let ws := (line.splitOn " ").filter (· ≠ "")
  match ws with
  | ["clean", p] => match cpUnesc p with
    | some p => cpEsc (clean p)
    | none => "bad-op"
  | ["rel", b, t] => match cpUnesc b, cpUnesc t with
    | some b, some t => match filepathRel b t with
      | some r => cpEsc r
      | none => "err"
    | _, _ => "bad-op"
  | ["base", p] => match cpUnesc p with
    | some p => cpEsc (baseName p)
    | none => "bad-op"
  | ["join", r, p] => match cpUnesc r, cpUnesc p with
    | some r, some p => cpEsc (walkPath r (cpComps p))
    | _, _ => "bad-op"
  | "plan" :: _ => " || ".intercalate ((line.splitOn "||").map cpStep)
  | _ => "bad-op"

end Kanzi.Drv
