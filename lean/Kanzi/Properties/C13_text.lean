/-
C13 for the dictionary text transform `transform.TextCodec` (both delegates `textCodec1` / `textCodec2`) -
property theorems only; proofs in `Kanzi/Proofs/Text*.lean` (Text, TextDict, TextTotal, TextSpec, TextRefine,
TextSim, TextSim2, TextSim3, TextStats, TextLog, TextRound).  The model
(`Kanzi/Model/Text.lean`) mirrors v2/transform/TextCodec.go (block analysis `computeTextStats`, static dictionary
built by `createDictionary` from the 1024-word string, dynamic dictionary with hash map / ring replacement /
expansion, word tokens, escapes, CR+LF folding, `Forward`, `Inverse`, the `TextCodec` wrapper) and is tied to
/repo by the `text` correspondence stream (byte-exact outputs, error classes, panics, ctx write-back).

Conventions: a block is a `List Nat` of byte values; the last argument of `textForward` / `textInverse` is
`len(dst)` of the Go call; `.ok t` is `dst[0:written]` with a nil error, `.err c` a non-nil error (Forward
declines / Inverse fails), `.fault k` a Go run-time panic (or exhausted model fuel).  `tc2` selects codec 2
(ctx `textcodec` = 2), `hsz` is `1 << logHashSize` (from the ctx entries `blockSize` and `entropy`, see
`logHash1` / `logHash2`), `dt` the `dataType` hint.  "Input left untouched on decline" is not a theorem here
(values are immutable); it is an oracle of the stream on the real code.
-/
import Kanzi.Model.Text
import Kanzi.Proofs.TextRound

namespace Kanzi.C13
open Kanzi.Text Kanzi.RLT

/-- C13_text_tokens (codec 1): the 1-3 byte index coding is an inverse pair.  For every dictionary index below
the maximal dictionary size `2^19` and below the decoder's current `dictSize`, the decoder positioned on the
bytes `emitWordIndex1` stored (anything before, anything after) reads the index back and stops right behind
them; the bytes are byte values and there are 1 (index < 128), 2 (< 16384) or 3 of them. -/
theorem C13_text_tokens1 (pre rest : List Nat) (idx dsize : Nat) (h19 : idx < 2 ^ 19) (hd : idx < dsize) :
    readIdx1 (pre ++ (wordIndex1 idx ++ rest)).toArray pre.length dsize =
        .ok (idx, pre.length + (wordIndex1 idx).length) ∧
      (wordIndex1 idx).length = (if idx < 128 then 1 else if idx < 16384 then 2 else 3) ∧
      ∀ b ∈ wordIndex1 idx, b < 256 :=
  ⟨readIdx1_wordIndex1 pre rest idx dsize h19 hd, wordIndex1_length idx, wordIndex1_bytes idx⟩

/-- C13_text_tokens (codec 2, current bitstream version): the index bytes `c :: tl` stored by `emitWordIndex2`
are read back by the decoder, both when `c` is the token byte itself (no case flip: `readIdx2 .. c ..`, flip mask
0) and when the marker 0x80 precedes it (`readIdx2 .. 0x80 ..`, flip mask 0x20); the first index byte is
above 0x80, so it is neither a literal (< 0x80) nor the marker; 1 to 3 bytes, all byte values. -/
theorem C13_text_tokens2 (pre rest tl : List Nat) (c idx dsize : Nat) (h19 : idx < 2 ^ 19) (hd : idx < dsize)
    (hw : wordIndex2 idx = c :: tl) :
    readIdx2 (pre ++ (tl ++ rest)).toArray pre.length c dsize = .ok (idx, pre.length + tl.length, 0) ∧
      readIdx2 (pre ++ (c :: (tl ++ rest))).toArray pre.length MASK_FLIP_CASE dsize =
        .ok (idx, pre.length + 1 + tl.length, 0x20) ∧
      128 < c ∧ (wordIndex2 idx).length = (if idx + 1 < 64 then 1 else if idx + 1 < 8192 then 2 else 3) ∧
      ∀ b ∈ wordIndex2 idx, b < 256 := by
  refine ⟨readIdx2_plain pre rest tl c idx dsize h19 hd hw, readIdx2_flip pre rest tl c idx dsize h19 hd hw, ?_,
    wordIndex2_length idx, wordIndex2_bytes idx h19⟩
  obtain ⟨c', tl', e, h1, _⟩ := wordIndex2_head idx h19
  rw [e] at hw
  cases hw
  exact h1

/-- C13_text_hash: the collision check of both codecs is exact.  `sameWords` compares the bytes of the word from
the second one on; together with the equality of the 32-bit hashes this decides the first byte too (the hash
step is a bijection of the accumulator and injective in the byte), so a dictionary hit is the same word, and a
hit through `h2` is the word with the case bit of its first letter flipped.  Moreover the two hashes `h1`, `h2`
of a word never select the same slot of a hash table of `2^k >= 64` entries (`pe == pe1` is a sound test). -/
theorem C13_text_hash (a b : Nat) (t : List Nat) (ha : a < 256) (hb : b < 256) :
    (hashWord (a :: t) = hashWord (b :: t) → a = b) ∧
    ∀ k, 6 ≤ k → k ≤ 32 → hashWord (a :: t) % 2 ^ k ≠ hashWord ((a ^^^ 0x20) :: t) % 2 ^ k :=
  ⟨hashWord_first a b t ha hb, fun k h6 h32 => hashWord_flip_slot a t k h6 h32⟩

/-- C13_text_static: the static dictionary the Go code builds at init time (`createDictionary` over the
1024-word string) is well formed: at most 1024 entries, every entry carries its own position, its text, the
length of its text and the hash of its text, and consists of letters.  (Proved for `createDictionary` on ANY
string; nothing evaluates the 1024 words.) -/
theorem C13_text_static : StaticOK staticInit.1 staticInit.2 := staticOK

/-- C13_text_total: `TextCodec.Forward` (either codec, any hash table size, any `dataType` hint) on ANY block into
a destination of ANY size never panics (no index or slice out of range, no nil slice; the model fuel
suffices): it declines with an error or succeeds with at most `MaxEncodedLen(len) = len` bytes. -/
theorem C13_text_total (tc2 : Bool) (hsz dt : Nat) (hpos : 0 < hsz) (src : List Nat) (dstLen : Nat) :
    (∃ e, textForward tc2 hsz dt src dstLen = .err e) ∨
    (∃ o, textForward tc2 hsz dt src dstLen = .ok o ∧ o.length ≤ textMaxEncodedLen src.length) :=
  textForwardS_total staticInit.1 staticInit.2 staticOK tc2 hsz dt hpos src dstLen

/-- the last byte of the block is one of the two escape bytes of codec 1 -/
def lastIsEscape (b : List Nat) : Bool :=
  b.getLast? = some ESCAPE_TOKEN1 || b.getLast? = some ESCAPE_TOKEN2

/-- C13_text1 (codec 1 = `textCodec1`, the default): for every block of byte values, every hash table size
`2^lh` (6 <= lh <= 32; the Go code uses 13..27), every `dataType` hint and every destination at least as large
as `MaxEncodedLen`: if Forward succeeds, its output has at most `MaxEncodedLen(len) = len` bytes, and Inverse
(built with the SAME hash table size) restores the block exactly into ANY destination of `n >= len` bytes
(`n < 2^39`: `uint32(len(dst)/128)` must not wrap) - EXCEPT when the last byte of the block is 0x0E / 0x0F
and `n = len`: then one spare byte is needed (`n > len`).  That exception is a defect of the Go code
(`textCodec1.Inverse` tests `dstIdx+length >= dstEnd` also for the one-byte escape entries), reproduced on the
real code by the `text` stream (symptom `exact-dst-last-byte-escape`) and by the `#guard`s below; the
stream layer always passes a larger destination.  The full statement (without the exception) is therefore
FALSE for the code as it is; with the fix `>` instead of `>=` the hypothesis `hesc` disappears. -/
theorem C13_text1 (hsz lh dt : Nat) (hh : hsz = 2 ^ lh) (h6 : 6 ≤ lh) (h32 : lh ≤ 32) (b t : List Nat)
    (dstLen : Nat) (hb : ∀ x ∈ b, x < 256) (hdst : textMaxEncodedLen b.length ≤ dstLen)
    (h : textForward false hsz dt b dstLen = .ok t) :
    t.length ≤ textMaxEncodedLen b.length ∧
      ∀ n, b.length ≤ n → n < 2 ^ 39 → (lastIsEscape b = true → b.length < n) →
        textInverse false false hsz t n = .ok b :=
  ⟨text_bound staticInit.1 staticInit.2 staticOK false hsz dt (by rw [hh]; exact Nat.two_pow_pos lh) b t dstLen h,
    fun n hn hn39 hesc =>
      (text_roundtrip staticInit.1 staticInit.2 staticOK false hsz lh dt hh h6 h32 b t dstLen n hb hdst h hn hn39
        (fun _ c hl hc => hesc (by
          unfold lastIsEscape
          rw [hl]
          rcases hc with hc | hc <;> simp [hc]))).2.1⟩

/-- C13_text2 (codec 2 = `textCodec2`, chosen by the factory for the entropy codecs NONE / ANS0 / HUFFMAN /
RANGE; current bitstream version): as `C13_text1`, without any exception: if Forward succeeds, its output has at
most `MaxEncodedLen(len) = len` bytes and Inverse restores the block exactly into ANY destination of `n >= len`
bytes (`n < 2^39`). -/
theorem C13_text2 (hsz lh dt : Nat) (hh : hsz = 2 ^ lh) (h6 : 6 ≤ lh) (h32 : lh ≤ 32) (b t : List Nat)
    (dstLen : Nat) (hb : ∀ x ∈ b, x < 256) (hdst : textMaxEncodedLen b.length ≤ dstLen)
    (h : textForward true hsz dt b dstLen = .ok t) :
    t.length ≤ textMaxEncodedLen b.length ∧
      ∀ n, b.length ≤ n → n < 2 ^ 39 → textInverse true false hsz t n = .ok b :=
  ⟨text_bound staticInit.1 staticInit.2 staticOK true hsz dt (by rw [hh]; exact Nat.two_pow_pos lh) b t dstLen h,
    fun n hn hn39 =>
      (text_roundtrip staticInit.1 staticInit.2 staticOK true hsz lh dt hh h6 h32 b t dstLen n hb hdst h hn hn39
        (fun htc => absurd htc (by decide))).2.1⟩

/-- C13_text_bytes: the encoded block consists of byte values (either codec) -/
theorem C13_text_bytes (tc2 : Bool) (hsz lh dt : Nat) (hh : hsz = 2 ^ lh) (h6 : 6 ≤ lh) (h32 : lh ≤ 32) (b t : List Nat)
    (dstLen : Nat) (hb : ∀ x ∈ b, x < 256) (hdst : textMaxEncodedLen b.length ≤ dstLen)
    (h : textForward tc2 hsz dt b dstLen = .ok t) : ∀ y ∈ t, y < 256 :=
  text_bytes staticInit.1 staticInit.2 staticOK tc2 hsz lh dt hh h6 h32 b t dstLen hb hdst h

/-- facts used when TEXT is a stage of a transform sequence: `MaxEncodedLen` is the identity, Inverse of the
empty block is the empty block, Forward refuses a destination below `MaxEncodedLen`, Forward never faults -/
theorem C13_text_maxlen (n : Nat) : textMaxEncodedLen n = n := rfl

theorem C13_text_inverse_nil (tc2 old : Bool) (hsz n : Nat) : textInverse tc2 old hsz [] n = .ok [] := by
  unfold textInverse textInverseS
  simp

theorem C13_text_small_dst (tc2 : Bool) (hsz dt : Nat) (b y : List Nat) (dstLen : Nat) (hne : b ≠ [])
    (h0 : 0 < dstLen) (hlt : dstLen < textMaxEncodedLen b.length) : textForward tc2 hsz dt b dstLen ≠ .ok y := by
  have hl : b.length ≠ 0 := fun e => hne (List.eq_nil_of_length_eq_zero e)
  unfold textMaxEncodedLen at hlt
  unfold textForward textForwardS
  rw [if_neg (by omega)]
  split
  · exact fun h => by cases h
  · split
    · exact fun h => by cases h
    · unfold codecForwardS
      rw [if_pos hlt]
      exact fun h => by cases h

theorem C13_text_no_fault (tc2 : Bool) (hsz dt : Nat) (hpos : 0 < hsz) (b : List Nat) (dstLen : Nat) (e : String) :
    textForward tc2 hsz dt b dstLen ≠ .fault e := by
  rcases C13_text_total tc2 hsz dt hpos b dstLen with ⟨x, hx⟩ | ⟨o, ho, _⟩
  · rw [hx]; exact fun h => by cases h
  · rw [ho]; exact fun h => by cases h

/-- C13_text_sync: encoder and decoder run in lock step.  For every block that Forward transformed (either codec)
and every destination Inverse can restore it into, the loop of Inverse (working on Forward's output) ends
with the SAME dynamic dictionary and the same ring index `words` as the loop of Forward: the same hash map
`dictMap`, the same `staticDictSize` and `hashMask`, and entry by entry the same `dictList` (`DictSim`; the
decoder's `dictSize`, chosen from `len(dst)`, may be larger - its extra entries are still empty).  The proof
carries this relation as an invariant through every token (`Kanzi.Text.Sim`), together with "Inverse has
reproduced the source up to the current word". -/
theorem C13_text_sync (tc2 : Bool) (hsz lh dt : Nat) (hh : hsz = 2 ^ lh) (h6 : 6 ≤ lh) (h32 : lh ≤ 32)
    (b t : List Nat) (dstLen n : Nat) (hb : ∀ x ∈ b, x < 256) (hne : b ≠ [])
    (hdst : textMaxEncodedLen b.length ≤ dstLen) (h : textForward tc2 hsz dt b dstLen = .ok t)
    (hn : b.length ≤ n) (hn39 : n < 2 ^ 39) (hesc : tc2 = false → lastIsEscape b = true → b.length < n) :
    ∃ sF tI, codecForwardLoop tc2 hsz b dstLen = .ok sF ∧ codecInverseLoop tc2 false hsz t n = .ok tI ∧
      DictSim sF.d tI.d ∧ tI.words = sF.words :=
  text_sync staticInit.1 staticInit.2 staticOK tc2 hsz lh dt hh h6 h32 b t dstLen n hb hdst hne h hn hn39
    (fun htc c hl hc => hesc htc (by
      unfold lastIsEscape
      rw [hl]
      rcases hc with hc | hc <;> simp [hc]))

/-- C13_text_sync_step: the lock-step step.  At a delimiter after a word `w` of letters that Forward did not find
in its dictionary, when both sides hold related dictionaries and the same ring index: Forward and Inverse
store `w` into the same slot `words` (`learn`), both succeed, and they end with related dictionaries and the
same new ring index (expansion / wrap-around at 2^19 included). -/
theorem C13_text_sync_step (dE dD : Dict) (words : Nat) (w : List Nat) (hE : DictOK dE words) (hD : DictOK dD words)
    (hs : DictSim dE dD) (ht : ∀ x ∈ w, isText x = true) :
    ∃ dE' dD' words', learn dE words w (hashWord w) = .ok (dE', words') ∧
      learn dD words w (hashWord w) = .ok (dD', words') ∧ DictOK dE' words' ∧ DictOK dD' words' ∧ DictSim dE' dD' :=
  learn_sim dE dD words w hE hD hs ht

/-- ... and Inverse takes the decision to learn exactly when Forward does: at a delimiter `c` after a word `w`
(2..31 letters) for which Forward's look-up failed, Inverse learns iff the word has more than 3 letters (or 3
and fewer than 2^14 words are in use) and the slot of its hash is free - the condition of Forward. -/
theorem C13_text_sync_decide (w : List Nat) (words : Nat) (d : Dict) (c : Nat) (hd : DictOK d words)
    (hg : w.length ≥ 2 ∧ isDelimiter c = true ∧ w.length ≤ MAX_WORD_LENGTH) :
    learnL (some w) words d c =
      if (w.length > 3 ∨ (w.length = 3 ∧ words < THRESHOLD2)) ∧ findEntry d (hashWord w) = none then
        learn d words w (hashWord w)
      else .ok (d, words) :=
  learnL_notfound w words d c hd hg

/-! Satisfiability of the premises, and the exception of `C13_text1` (evaluated by the compiler, not by the
kernel: the kernel needs minutes to build the static dictionary; the `text` stream exercises thousands of
accepted blocks of both codecs against the real code). -/

/-- 255 times "the " then "the" and one last byte: 1024 bytes -/
def exBlock (last : Nat) : List Nat :=
  (List.replicate 255 [0x74, 0x68, 0x65, 0x20]).flatten ++ [0x74, 0x68, 0x65, last]

-- accepted, 514 bytes, restored into a destination of exactly 1024 bytes (hash table size 2^13)
#guard (match textForward false 8192 0 (exBlock 0x2E) 1024 with
  | .ok t => t.length == 514 && textInverse false false 8192 t 1024 == .ok (exBlock 0x2E)
  | _ => false)
-- the exception: last byte 0x0F, codec 1: Inverse fails into 1024 bytes, succeeds into 1025
#guard (match textForward false 8192 0 (exBlock 0x0F) 1024 with
  | .ok t => textInverse false false 8192 t 1024 == .err "data" && textInverse false false 8192 t 1025 == .ok (exBlock 0x0F)
  | _ => false)
#guard (match textForward false 8192 0 (exBlock 0x0E) 1024 with
  | .ok t => textInverse false false 8192 t 1024 == .err "data" && textInverse false false 8192 t 1025 == .ok (exBlock 0x0E)
  | _ => false)
-- codec 2 has no such exception
#guard (match textForward true 8192 0 (exBlock 0x0F) 1024 with
  | .ok t => t.length == 262 && textInverse true false 8192 t 1024 == .ok (exBlock 0x0F)
  | _ => false)
#guard lastIsEscape (exBlock 0x0F) = true ∧ lastIsEscape (exBlock 0x2E) = false
-- declines: binary data, a block below the minimum size, a destination below MaxEncodedLen, a dataType hint
#guard textForward false 8192 0 (List.replicate 2000 0) 2000 = .err "nottext"
#guard textForward false 8192 0 (exBlock 0x2E |>.take 1023) 1023 = .err "small"
#guard textForward false 8192 0 (exBlock 0x2E) 1023 = .err "dst"
#guard textForward true 8192 3 (exBlock 0x2E) 1024 = .err "nottext"
-- a forged codec-2 index 0 in the two-byte form is not rejected: `dictList[-1]`
#guard textInverse true false 8192 [0, 0xC0, 0x00] 64 = .fault "dict-index"

end Kanzi.C13
