/-
Line-protocol driver of the `lzp` stream (see harness/cmd/kv/lzp.go).  Core Lean only.

    pf <ver> <dstlen> <data>    LZPCodec.Forward (codec built with ctx bsVersion = <ver>), then (on success)
                                Inverse of the output, same bsVersion, into a destination of len(data) bytes
         -> ok <out> | inv <res>          res = ok <out> | err:<class> | panic <idx> <len>
          | declined:<class>              class = dst | small | skip
          | panic <idx> <len>
    pi <ver> <dstlen> <data>    LZPCodec.Inverse on arbitrary input
         -> ok <out> | err:<class> | panic <idx> <len>     class = small | fail

`<ver>`: the bitstream version (below 4: minimum match 96 in Inverse).  `panic <idx> <len>` is the Go
run-time error `index out of range [idx] with length len`.
`<data>`, `<out>`: as in the `rlt` stream (Kanzi.Drv.RLT).
-/
import Kanzi.Model.LZP
import Kanzi.Drv.RLT

namespace Kanzi.Drv
open Kanzi.LZP

def lzpShowInv (r : Kanzi.LZP.Res) : String :=
  match r with
  | .ok o => "ok " ++ rltOut o
  | .err e => "err:" ++ e
  | .fault _ i l => s!"panic {i} {l}"

def lzp (line : String) : String :=
  match (line.splitOn " ").filter (· ≠ "") with
  | ["pf", v, d, h] =>
    match v.toNat?, d.toNat?, rltData h with
    | some v, some d, some b =>
      match lzpForward b d with
      | .ok t => s!"ok {rltOut t} | inv {lzpShowInv (lzpInverse (decide (v < 4)) t b.length)}"
      | .err e => "declined:" ++ e
      | .fault _ i l => s!"panic {i} {l}"
    | _, _, _ => "bad-op"
  | ["pi", v, d, h] =>
    match v.toNat?, d.toNat?, rltData h with
    | some v, some d, some b => lzpShowInv (lzpInverse (decide (v < 4)) b d)
    | _, _, _ => "bad-op"
  | _ => "bad-op"

end Kanzi.Drv
