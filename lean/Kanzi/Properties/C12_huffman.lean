/-
C12 (Huffman) — the static Huffman codec of kanzi-go, bitstream version 6
(v2/entropy/HuffmanCodec.go: `HuffmanEncoder.Write` / `HuffmanDecoder.Read`, with the signed
Exp-Golomb byte codec of v2/entropy/ExpGolombCodec.go for the code lengths).
Property theorems only; proofs live in `Kanzi/Proofs/Huf*.lean`.  The model
(`Kanzi/Model/Huffman.lean`) mirrors the Go code (in-place length computation of Moffat and
Katajainen, the fast length limiting with its bit debt, the renormalising fallback, the
last-resort 8-bit codes, canonical codes, the 4 interleaved sub-streams with the 64-bit register
of the encoder and the `readState` / `uint8` register machine of the decoder) and is tied to /repo
by the `huffman` correspondence stream (byte-identical encoder output for every branch of
`updateFrequencies`, decoding of valid and of payload-corrupted streams).

Every round trip is stated in the "exact consumption" form
    dec (enc x ++ rest) = some (x, rest)      for EVERY continuation `rest`
over the abstract bit strings `Kanzi.Bits` (C14 lifts this to the real bitstreams): the decoder
returns the data and stops exactly where the encoder stopped, so whatever follows the block in
the same bitstream is read correctly.

NOTHING here is `_partial`: every statement holds for all inputs the Go constructors accept.
Hypotheses: bytes are `< 256`; the chunk size passes `NewHuffmanEncoder` / `NewHuffmanDecoder`
(`ctorOk`: 1024..16384, the same on both sides); `junk` (what earlier chunks left in the decoder's
reusable buffer behind the 8 cleared bytes) is arbitrary bytes.
-/
import Kanzi.Model.Huffman
import Kanzi.Proofs.HufHeader
import Kanzi.Proofs.HufCanon
import Kanzi.Proofs.HufPhase2
import Kanzi.Proofs.HufLimit
import Kanzi.Proofs.HufUpdate
import Kanzi.Proofs.HufEnc
import Kanzi.Proofs.HufDecM
import Kanzi.Proofs.HufChunk
import Kanzi.Proofs.HufBlock
import Kanzi.Proofs.HufProps

namespace Kanzi.C12
open Kanzi.Bits Kanzi.EntSmall Kanzi.Huffman

/-! ## 1. Code lengths -/

/-- **C12_huf_inplace_kraft** (`computeInPlaceSizesPhase1` + `Phase2`).  For EVERY list of
weights of length `n ≥ 2` (sorted or not, whatever the values) the two in-place phases terminate
without fault and the lengths they leave satisfy Kraft's EQUALITY `Σ 2^(M - len) = 2^M` (any
`M ≥ n`), lie in `[1, max]` with `max < n`, and are non increasing along the array (the rarest
symbol first). -/
theorem C12_huf_inplace_kraft (w : List Nat) (M : Nat) (hn : 2 ≤ w.length) (hM : w.length ≤ M) :
    ∃ lens mx, phase2 (phase1 w) = some (lens, mx) ∧ lens.length = w.length ∧
      (lens.map (fun x => 2 ^ (M - x))).sum = 2 ^ M ∧
      (∀ x ∈ lens, 1 ≤ x ∧ x ≤ mx) ∧ mx + 1 ≤ w.length ∧ lens.Pairwise (· ≥ ·) := by
  obtain ⟨res, m, h, hok⟩ := lengths_spec w M hn hM
  exact ⟨res, m, h, hok.len, hok.kraft, hok.range, hok.mle, hok.mono⟩

/-- **C12_huf_fast_limit** (the fast path of `limitCodeLengths`).  From lengths that satisfy
Kraft's equality, are positive and non increasing along `ranks` (at most 256 distinct symbols):
no fault (the unguarded loop `for sizes[ranks[n]] >= 12` stops inside the array), every length
ends in `[1, 12]`, nothing outside `ranks` is touched, and the Kraft sum exceeds 1 by at most the
remaining debt `d2`, in units of 2^-12 (here: `unit12 = 2^244` units of 2^-256). -/
theorem C12_huf_fast_limit (sizes ranks : List Nat) (hnd : ranks.Nodup) (hlt : ∀ s ∈ ranks, s < sizes.length)
    (hcnt : ranks.length ≤ 256) (hk : kraftM 256 sizes ranks = 2 ^ 256)
    (hmono : (lensOf sizes ranks).Pairwise (· ≥ ·)) (hpos : ∀ s ∈ ranks, 1 ≤ sizes.getD s 0) :
    ∃ d1 d2 sz, fastLimit sizes ranks = some (d1, d2, sz) ∧ sz.length = sizes.length ∧
      (∀ x, x ∉ ranks → sz.getD x 0 = sizes.getD x 0) ∧
      (∀ s ∈ ranks, 1 ≤ sz.getD s 0 ∧ sz.getD s 0 ≤ 12) ∧
      kraftM 256 sz ranks ≤ 2 ^ 256 + d2 * unit12 :=
  fastLimit_spec sizes ranks ⟨hnd, hlt⟩ hcnt hk hmono hpos

/-- **C12_huf_lengths_kraft.**  For EVERY histogram (256 counts, any values) `updateFrequencies`
succeeds, whatever branch it takes (empty, single symbol, plain lengths, fast limiting by the first
or the second loop, renormalisation to 2048, last-resort 8-bit codes): `count` is the number of
symbols present, and the length of every present symbol lies in `[1, 12]` with Kraft's inequality
`Σ 2^(12 - len) ≤ 2^12`. -/
theorem C12_huf_lengths_kraft (freqs : List Nat) (hl : freqs.length = 256) :
    ∃ u, updateFrequencies freqs = some u ∧
      u.count = (Kanzi.Normalize.support freqs).length ∧
      (∀ s ∈ Kanzi.Normalize.support freqs, 1 ≤ u.sizes.getD s 0 ∧ u.sizes.getD s 0 ≤ 12) ∧
      ((Kanzi.Normalize.support freqs).map (fun s => 2 ^ (12 - u.sizes.getD s 0))).sum ≤ 2 ^ 12 := by
  obtain ⟨u, hu, hok⟩ := updateFrequencies_spec freqs hl
  exact ⟨u, hu, hok.count, hok.lens.range, hok.lens.kraft⟩

/-! ## 2. Canonical codes -/

/-- **C12_huf_canonical_prefix_free.**  `a` = at least two distinct symbols `< 256`, `sizes` =
lengths in `[1, 12]` on `a` with Kraft's inequality (`LensOk`).  Then `generateCanonicalCodes`
succeeds, every code fits its length, and no code is a prefix of another one.  Moreover the result
depends on `sizes` through the entries of `a` only and on `a` as a set only: the decoder, which
calls it on its own table (default 8 elsewhere) with the alphabet in transmission order, gets the
codes the encoder computed from `ranks` (the symbols sorted by frequency). -/
theorem C12_huf_canonical_prefix_free (sizes a : List Nat) (hlo : LensOk sizes a) (h2 : 2 ≤ a.length) :
    ∃ codes, generateCanonicalCodes sizes (List.replicate 256 0) a = some (codes, canonOrder sizes a) ∧
      (∀ s ∈ a, codes.getD s 0 < 2 ^ sizes.getD s 0) ∧
      (∀ s ∈ a, ∀ t ∈ a, codeBits sizes codes s <+: codeBits sizes codes t → s = t) ∧
      (∀ sizes' a', (∀ x, x ∈ a ↔ x ∈ a') → a.length = a'.length → (∀ x ∈ a, sizes.getD x 0 = sizes'.getD x 0) →
        generateCanonicalCodes sizes' (List.replicate 256 0) a' = some (codes, canonOrder sizes a)) := by
  obtain ⟨codes, hg, _, _, _⟩ := genCodes_ok sizes a hlo h2
  exact ⟨codes, hg, canon_code_lt sizes a hlo h2 codes _ hg,
    fun s hs t ht hp => canonical_prefix_free sizes a hlo h2 codes _ hg s t hs ht hp,
    fun sizes' a' hm hl hs => by rw [← genCodes_congr sizes sizes' a a' hm hl h2 hs]; exact hg⟩

/-- **C12_huf_encoder_codes.**  For every histogram with at least two symbols the table
`this.codes` of the encoder holds, for each present symbol, `(length << 12) | code` where `code`
is the canonical code of the transmitted lengths — in EVERY branch, the last-resort one included
(`codes[alphabet[i]] = i` with 8-bit lengths is the canonical assignment). -/
theorem C12_huf_encoder_codes (freqs : List Nat) (hl : freqs.length = 256)
    (h2 : 2 ≤ (Kanzi.Normalize.support freqs).length) :
    ∃ u codes ord, updateFrequencies freqs = some u ∧
      generateCanonicalCodes u.sizes (List.replicate 256 0) (Kanzi.Normalize.support freqs) = some (codes, ord) ∧
      ∀ s ∈ Kanzi.Normalize.support freqs,
        u.codes.getD s 0 >>> 12 = u.sizes.getD s 0 ∧ u.codes.getD s 0 &&& 0x0FFF = codes.getD s 0 :=
  encoder_codes freqs hl h2

/-! ## 3. Header -/

/-- **C12_huf_expgolomb.**  The signed Exp-Golomb byte codec round trips every byte value, with
exact consumption; a value takes between 1 and 16 bits. -/
theorem C12_huf_expgolomb (d : Nat) (hd : d < 256) :
    (∀ rest : Bits, egDecodeByte (egEncodeByte d ++ rest) = some (d, rest)) ∧
    1 ≤ (egEncodeByte d).length ∧ (egEncodeByte d).length ≤ 16 :=
  ⟨fun rest => eg_roundtrip d hd rest, eg_length0 d hd⟩

/-- **C12_huf_header.**  `a` = the alphabet in increasing order (any size 0..256), `sizes` with
`LensOk`.  `readLengths` on the header written by `updateFrequencies` (alphabet, then the length
deltas starting from 2) consumes exactly the header, returns the same symbols (reordered by
`generateCanonicalCodes` when there are at least two), the same length for every symbol, and
the canonical codes of these lengths. -/
theorem C12_huf_header (sizes a : List Nat) (hs : a.Pairwise (· < ·)) (hlo : LensOk sizes a) (rest : Bits) :
    ∃ rl, readLengths (encodeAlphabetBits a ++ encodeSizes sizes a 2 ++ rest) = some (rl, rest) ∧
      rl.alphabet.Perm a ∧ (∀ s ∈ a, rl.sizes.getD s 0 = sizes.getD s 0) ∧
      (2 ≤ a.length → generateCanonicalCodes sizes (List.replicate 256 0) a = some (rl.codes, rl.alphabet)) :=
  readLengths_header sizes a hs hlo rest

/-- the header of EVERY histogram is read back: `C12_huf_header` applies to what
`updateFrequencies` writes -/
theorem C12_huf_header_of_histogram (freqs : List Nat) (hl : freqs.length = 256) (rest : Bits) :
    ∃ u rl, updateFrequencies freqs = some u ∧ readLengths (u.bits ++ rest) = some (rl, rest) ∧
      rl.alphabet.Perm (Kanzi.Normalize.support freqs) ∧
      ∀ s ∈ Kanzi.Normalize.support freqs, rl.sizes.getD s 0 = u.sizes.getD s 0 := by
  obtain ⟨u, hu, hok⟩ := updateFrequencies_spec freqs hl
  obtain ⟨rl, h1, h2, h3, _⟩ := readLengths_header u.sizes _ (support_alpha freqs hl).sorted hok.lens rest
  exact ⟨u, rl, hu, by rw [hok.bits]; exact h1, h2, h3⟩

/-! ## 4. Symbols -/

/-- **C12_huf_symbols.**  With the decoding table built from a header (`buildDecodingTable` on
what `readLengths` returns) the plain table walk `specDec` — look up the next 12 bits (zero padded),
emit the symbol, consume `length` bits — returns every list of symbols of the alphabet from the
concatenation of their codes, whatever follows (`rest`: padding, stale buffer bytes). -/
theorem C12_huf_symbols (sizes a : List Nat) (hs : a.Pairwise (· < ·)) (hlo : LensOk sizes a) (h2 : 2 ≤ a.length) :
    ∃ rl codes tbl, readLengths (encodeAlphabetBits a ++ encodeSizes sizes a 2) = some (rl, []) ∧
      generateCanonicalCodes sizes (List.replicate 256 0) a = some (codes, rl.alphabet) ∧
      buildTable rl = some tbl ∧ tbl.length = 4096 ∧
      ∀ (syms : List Nat) (rest : Bits), (∀ b ∈ syms, b ∈ a) →
        specDec tbl syms.length (syms.flatMap (codeBits sizes codes) ++ rest) = syms := by
  obtain ⟨codes, tbl, hg, hrl, hbt, _, htf, hlt, _, htl⟩ := decoder_tables sizes a hs hlo h2 []
  rw [List.append_nil] at hrl
  exact ⟨_, codes, tbl, hrl, hg, hbt, htl, fun syms rest hb =>
    specDec_codes sizes codes a tbl htf hlo.lt256 (fun s hs' => (hlo.range s hs').2) hlt syms rest hb⟩

/-- **C12_huf_encoder_machine.**  The encoder's 64-bit register (`state << len | code`, the
`PutUint64` flush every four symbols, the final flush) writes exactly the concatenation of the
codes, for every packed table consistent with (`sizes`, `codes`): lengths at most 12, codes
shorter than their lengths. -/
theorem C12_huf_encoder_machine (arr : Array Nat) (sizes codes a : List Nat)
    (hlen : ∀ b ∈ a, arr.getD b 0 >>> 12 = sizes.getD b 0)
    (hcode : ∀ b ∈ a, arr.getD b 0 &&& 0x0FFF = codes.getD b 0)
    (h12 : ∀ b ∈ a, sizes.getD b 0 ≤ 12) (hlt : ∀ b ∈ a, codes.getD b 0 < 2 ^ sizes.getD b 0)
    (frag : List Nat) (hb : ∀ b ∈ frag, b ∈ a) :
    encFrag arr frag = frag.flatMap (codeBits sizes codes) :=
  encFrag_eq arr sizes codes a ⟨hlen, hcode, h12, hlt⟩ frag hb

/-- **C12_huf_decoder_machine** (table look-up = bitwise walk).  For EVERY table whose entries
carry a length in 1..12 (in particular the default entries 7) and EVERY buffer of bytes, the
register machine of `decodeChunkV6` for one sub-stream (`readState`, the `uint8` counters `bits`
and `bs` with their wrap-around, 4 look-ups per refill, the last 1..4 symbols after a final
refill) decodes exactly what the plain walk `specDec` decodes from the bits of the buffer (zero
extended).  No hypothesis on the stream: corrupted payloads included. -/
theorem C12_huf_decoder_machine (tbl : List Nat)
    (ht : ∀ w, w < 4096 → 1 ≤ tbl.getD w 0 % 256 ∧ tbl.getD w 0 % 256 ≤ 12)
    (buf : Array Nat) (hb : ∀ b ∈ buf.toList, b < 256) (n : Nat) :
    decFrag tbl.toArray buf n = specDec tbl n (ofBytes buf.toList) :=
  decFrag_spec tbl ht buf hb n

/-! ## 5. Chunk and block -/

/-- **C12_huf_chunk.**  One round of the chunk loops, for every chunk `c` of 1..`chunkSize`
bytes (raw below 32 bytes; otherwise header, and — unless a single symbol is present — the four
VarInt sizes, the four sub-streams and the `len % 4` tail bytes): the encoder succeeds and the
decoder, asked for `c.length` bytes, returns `c` and stops exactly behind the chunk.  In
particular (these are `none` in the model) every sub-stream fits its region of the decoder's
buffer (`stride = chunkSize/2` bytes of the `2*chunkSize` bytes) and every 8-byte read of
`readState` stays inside the buffer: at most 15 bytes behind the end of its sub-stream. -/
theorem C12_huf_chunk (c : List Nat) (hb : ∀ b ∈ c, b < 256) (chunkSize : Nat)
    (hcs : ctorOk chunkSize = true) (hlen : 1 ≤ c.length ∧ c.length ≤ chunkSize)
    (junk : List Nat) (hj : ∀ b ∈ junk, b < 256) :
    ∃ e br, encodeOneChunk c = some (e, br) ∧
      ∀ rest, decodeOneChunk chunkSize c.length junk (e ++ rest) = some ((c, true), rest) := by
  have hcs' : 1024 ≤ chunkSize ∧ chunkSize ≤ 16384 := by
    simp only [ctorOk, Bool.and_eq_true, decide_eq_true_eq] at hcs
    exact hcs
  exact oneChunk_roundtrip c hb chunkSize hcs' hlen junk hj

/-- **C12_huf_block** (property C12 for the Huffman codec).  For EVERY block of bytes (empty,
shorter than 32 bytes, not a multiple of 4, across chunk boundaries, any symbol distribution)
and every chunk size accepted by the constructors: `Write` succeeds, and `Read` of
`blk.length` bytes on the written bits followed by ANY continuation returns the block and
leaves exactly the continuation — the decoder reads exactly the bits the encoder wrote. -/
theorem C12_huf_block (blk : List Nat) (hb : ∀ b ∈ blk, b < 256) (chunkSize : Nat)
    (hcs : ctorOk chunkSize = true) (junk : List Nat) (hj : ∀ b ∈ junk, b < 256) :
    ∃ e, encode blk chunkSize = some e ∧
      ∀ rest : Bits, decode (e ++ rest) blk.length chunkSize junk = some (blk, rest) := by
  obtain ⟨e, _, _, he, hd⟩ := block_roundtrip blk hb chunkSize hcs junk hj
  exact ⟨e, he, hd⟩

/-- the hypotheses of `C12_huf_block` are satisfiable: the default chunk size of the factory -/
example : ctorOk 16384 = true := by decide

/-- `LensOk` is satisfiable: two symbols with 1-bit codes -/
example : LensOk [1, 1] [0, 1] :=
  ⟨by decide, by decide, by decide, by decide⟩

end Kanzi.C12
