/-
Proofs for the `exe` slice, part 3: ARM64.  One iteration of `forwardARM` is undone by one iteration of
`inverseARM` (`arm_step_sim`, on a 4-byte aligned index below 2^28); hence the loops and
`Inverse (Forward b) = b` for the ARM64 mode with the size bounds.
-/
import Kanzi.Proofs.EXEX86

namespace Kanzi.EXE
open Kanzi.RLT (Out wr wr_ok wr_cases size_appendList)

theorem armInv_plain (ce dl b0 b1 b2 b3 : Nat) (tail : List Nat) (j d : Nat)
    (hbl : isBL (leVal [b0, b1, b2, b3]) = false) (hce : j + 4 ≤ ce) (hd : d + 4 ≤ dl) :
    armInvStep ce dl (b0 :: b1 :: b2 :: b3 :: tail) j d = .emit [b0, b1, b2, b3] 4 := by
  have h1 : ¬ (j + 4 > ce) := by omega
  have h2 : ¬ (d + 4 > dl) := by omega
  simp only [armInvStep, if_neg h1, if_neg h2, hbl, if_true]

theorem armInv_esc (ce dl v c0 c1 c2 c3 : Nat) (tail : List Nat) (j d : Nat) (hv : v < 2 ^ 32)
    (hbl : isBL v = true) (hesc : (armDec d v).2 = true) (hce : j + 8 ≤ ce) (hd : d + 4 ≤ dl) :
    armInvStep ce dl (le32Bytes v ++ c0 :: c1 :: c2 :: c3 :: tail) j d = .emit [c0, c1, c2, c3] 8 := by
  have h1 : ¬ (j + 4 > ce) := by omega
  have h2 : ¬ (d + 4 > dl) := by omega
  have h3 : ¬ (j + 8 > ce) := by omega
  have hl := leVal_le32Bytes v hv
  simp only [le32Bytes] at hl
  simp only [armInvStep, le32Bytes, List.cons_append, List.nil_append, if_neg h1, if_neg h2, hl, hbl, hesc,
    if_true, if_neg h3, Bool.true_eq_false, if_false]

theorem armInv_branch (ce dl v : Nat) (tail : List Nat) (j d : Nat) (hv : v < 2 ^ 32)
    (hbl : isBL v = true) (hesc : (armDec d v).2 = false) (hce : j + 4 ≤ ce) (hd : d + 4 ≤ dl) :
    armInvStep ce dl (le32Bytes v ++ tail) j d = .emit (le32Bytes (armDec d v).1) 4 := by
  have h1 : ¬ (j + 4 > ce) := by omega
  have h2 : ¬ (d + 4 > dl) := by omega
  have hl := leVal_le32Bytes v hv
  simp only [le32Bytes] at hl
  simp only [armInvStep, le32Bytes, List.cons_append, List.nil_append, if_neg h1, if_neg h2, hl, hbl, hesc,
    Bool.true_eq_false, if_false, Bool.false_eq_true]

theorem arm_step_sim (rest : List Nat) (i : Nat) (e : List Nat) (c dm : Nat)
    (hb : ∀ x ∈ rest, x < 256) (hi : i < 2 ^ 28) (hi4 : i % 4 = 0)
    (h : armFwdStep rest i = .emit e c dm) :
    ∃ C, C.length = c ∧ rest = C ++ rest.drop c ∧ c = 4 ∧ 4 ≤ e.length ∧ e.length ≤ 8 ∧ dm ≤ 1 ∧
      (∀ y ∈ e, y < 256) ∧
      ∀ (ce' dl : Nat) (tail : List Nat) (j : Nat), j + e.length ≤ ce' → i + c ≤ dl →
        armInvStep ce' dl (e ++ tail) j i = .emit C e.length := by
  match rest, hb, h with
  | b0 :: b1 :: b2 :: b3 :: r, hb, h =>
    have h0 : b0 < 256 := hb b0 (by simp)
    have h1 : b1 < 256 := hb b1 (by simp)
    have h2 : b2 < 256 := hb b2 (by simp)
    have h3 : b3 < 256 := hb b3 (by simp)
    have hin := leVal4_lt b0 b1 b2 b3 h0 h1 h2 h3
    have hbytes : ∀ y ∈ [b0, b1, b2, b3], y < 256 := by
      intro y hy; simp at hy; rcases hy with rfl | rfl | rfl | rfl <;> assumption
    simp only [armFwdStep] at h
    by_cases hbl : isBL (leVal [b0, b1, b2, b3]) = false
    · rw [if_pos hbl] at h
      simp only [Step.emit.injEq] at h
      obtain ⟨rfl, rfl, rfl⟩ := h
      refine ⟨[b0, b1, b2, b3], rfl, by simp, rfl, by simp, by simp, by omega, hbytes, ?_⟩
      intro ce' dl tail j hce hd
      simp only [List.length_cons, List.length_nil] at hce
      exact armInv_plain ce' dl b0 b1 b2 b3 tail j i hbl (by omega) (by omega)
    · rw [if_neg hbl] at h
      have hbl' : isBL (leVal [b0, b1, b2, b3]) = true := by simpa using hbl
      obtain ⟨hv, hvbl, hesc1, hesc0⟩ := arm_roundtrip i _ hin hbl' hi4 hi
      by_cases hesc : (armEnc i (leVal [b0, b1, b2, b3])).2 = true
      · rw [if_pos hesc] at h
        simp only [Step.emit.injEq] at h
        obtain ⟨rfl, rfl, rfl⟩ := h
        refine ⟨[b0, b1, b2, b3], rfl, by simp, rfl, by simp, by simp, by omega, ?_, ?_⟩
        · intro y hy; rcases List.mem_append.1 hy with hy | hy
          · exact le32Bytes_lt _ y hy
          · exact hbytes y hy
        · intro ce' dl tail j hce hd
          simp only [List.length_append, le32Bytes_length, List.length_cons, List.length_nil] at hce
          have := armInv_esc ce' dl _ b0 b1 b2 b3 tail j i hv hvbl (hesc1 hesc) (by omega) (by omega)
          simpa using this
      · rw [if_neg hesc] at h
        simp only [Step.emit.injEq] at h
        obtain ⟨rfl, rfl, rfl⟩ := h
        have hesc' : (armEnc i (leVal [b0, b1, b2, b3])).2 = false := by simpa using hesc
        have hdec := hesc0 hesc'
        refine ⟨[b0, b1, b2, b3], rfl, by simp, rfl, by simp, by simp, by omega, le32Bytes_lt _, ?_⟩
        intro ce' dl tail j hce hd
        simp only [le32Bytes_length] at hce
        have := armInv_branch ce' dl _ tail j i hv hvbl (by rw [hdec]) (by omega) (by omega)
        rw [hdec] at this
        simp only [le32Bytes_length]
        rw [this, le32Bytes_leVal _ _ _ _ h0 h1 h2 h3]
  | [], _, h => simp [armFwdStep] at h
  | [_], _, h => simp [armFwdStep] at h
  | [_, _], _, h => simp [armFwdStep] at h
  | [_, _, _], _, h => simp [armFwdStep] at h

theorem armFwdStep_cases (rest : List Nat) (i : Nat) :
    (∃ e dm, armFwdStep rest i = .emit e 4 dm) ∨ ∃ s, armFwdStep rest i = .fault s := by
  match rest with
  | b0 :: b1 :: b2 :: b3 :: r =>
    left
    simp only [armFwdStep]
    split
    · exact ⟨_, _, rfl⟩
    · split
      · exact ⟨_, _, rfl⟩
      · exact ⟨_, _, rfl⟩
  | [] => right; exact ⟨_, rfl⟩
  | [_] => right; exact ⟨_, rfl⟩
  | [_, _] => right; exact ⟨_, rfl⟩
  | [_, _, _] => right; exact ⟨_, rfl⟩

theorem armInvLoop_done (ce dl f : Nat) (rest : List Nat) (i : Nat) (out : Array Nat) (h : ¬ i < ce) :
    armInvLoop ce dl f rest i out = .ok (i, out) := by
  cases f <;> simp [armInvLoop, h]

theorem arm_loop_sim (ce dstLen : Nat) (hce : ce ≤ 2 ^ 28) :
    ∀ (f : Nat) (rest : List Nat) (i : Nat) (out : Array Nat) (m : Nat) (st : FwdSt),
      (∀ x ∈ rest, x < 256) → i % 4 = 0 → armFwdLoop ce dstLen f rest i out m = .ok st →
      ∃ (E C : List Nat), st.out = out ++ E ∧ st.i = i + C.length ∧ rest = C ++ rest.drop C.length ∧
        (∀ y ∈ E, y < 256) ∧
        ∀ (ce' dl f' : Nat) (tail : List Nat) (j : Nat) (o : Array Nat),
          o.size = i → j + E.length = ce' → E.length < f' → i + C.length ≤ dl →
          armInvLoop ce' dl f' (E ++ tail) j o = .ok (ce', o ++ C) := by
  intro f
  induction f with
  | zero =>
    intro rest i out m st hb hi4 h
    simp only [armFwdLoop] at h
    split at h
    · cases h
    · cases h
      refine ⟨[], [], by simp, by simp, by simp, by simp, ?_⟩
      intro ce' dl f' tail j o ho hj hf hd
      simp only [List.length_nil, Nat.add_zero] at hj
      subst hj
      simpa using armInvLoop_done j dl f' tail j o (by omega)
  | succ f ih =>
    intro rest i out m st hb hi4 h
    simp only [armFwdLoop] at h
    split at h
    next hcond =>
      split at h
      next hstep =>
        cases h
        refine ⟨[], [], by simp, by simp, by simp, by simp, ?_⟩
        intro ce' dl f' tail j o ho hj hf hd
        simp only [List.length_nil, Nat.add_zero] at hj
        subst hj
        simpa using armInvLoop_done j dl f' tail j o (by omega)
      next e c dm hstep =>
        obtain ⟨C0, hC0, hrest, hc4, he4, he8, hdm, hey, hsim⟩ :=
          arm_step_sim rest i e c dm hb (by omega) hi4 hstep
        subst hc4
        rcases wr_cases dstLen out e with hw | ⟨s, hw⟩
        · rw [hw] at h
          have hb' : ∀ x ∈ rest.drop 4, x < 256 := fun x hx => hb x (List.mem_of_mem_drop hx)
          obtain ⟨E', C', hout, hi', hrest', hEy, hinv⟩ :=
            ih (rest.drop 4) (i + 4) (out ++ e) (m + dm) st hb' (by omega) h
          refine ⟨e ++ E', C0 ++ C', ?_, ?_, ?_, ?_, ?_⟩
          · rw [hout, appendList_assoc]
          · rw [hi', List.length_append, hC0]; omega
          · rw [List.length_append, hC0, ← List.drop_drop, List.append_assoc, ← hrest']; exact hrest
          · intro y hy; rcases List.mem_append.1 hy with hy | hy
            · exact hey y hy
            · exact hEy y hy
          · intro ce' dl f' tail j o ho hj hf hd
            rw [List.length_append] at hj hf hd
            obtain ⟨f'', rfl⟩ : ∃ f'', f' = f'' + 1 := ⟨f' - 1, by omega⟩
            have hjlt : j < ce' := by omega
            have hs := hsim ce' dl (E' ++ tail) j (by omega) (by rw [hC0] at hd; omega)
            simp only [armInvLoop, if_pos hjlt, List.append_assoc, ho, hs]
            have hw2 : wr dl o C0 = .ok (o ++ C0) := wr_ok dl o C0 (by rw [ho, hC0]; rw [hC0] at hd; omega)
            rw [hw2]
            simp only [Out.bind]
            have hdrop : List.drop e.length (e ++ (E' ++ tail)) = E' ++ tail := by simp
            rw [hdrop]
            have := hinv ce' dl f'' tail (j + e.length) (o ++ C0) (by rw [size_appendList, ho, hC0])
              (by omega) (by omega) (by rw [hC0] at hd; omega)
            rw [this, appendList_assoc]
        · rw [hw] at h; cases h
      next e c hstep =>
        rcases armFwdStep_cases rest i with ⟨e', dm', h'⟩ | ⟨s, h'⟩ <;> rw [h'] at hstep <;> cases hstep
      next s hstep => cases h
    next hcond =>
      cases h
      refine ⟨[], [], by simp, by simp, by simp, by simp, ?_⟩
      intro ce' dl f' tail j o ho hj hf hd
      simp only [List.length_nil, Nat.add_zero] at hj
      subst hj
      simpa using armInvLoop_done j dl f' tail j o (by omega)

/-- the shape of an accepted ARM64 block -/
theorem fwdARM_ok (src : List Nat) (dstLen : Nat) (cs ce : Int) (t : List Nat)
    (h : fwdARM src dstLen cs ce = .ok t) :
    ∃ (csn cen : Nat) (st : FwdSt), cs = csn ∧ ce = cen ∧ csn ≤ cen ∧ cen ≤ src.length ∧ 9 + csn ≤ dstLen ∧
      csn % 4 = 0 ∧
      armFwdLoop cen dstLen (src.length + 1) (src.drop csn) csn
        (ARM64 :: List.replicate 8 0 ++ src.take csn).toArray 0 = .ok st ∧
      st.out.size + (src.length - st.i) + 8 ≤ dstLen ∧
      t = header ARM64 csn st.out.size ++ (st.out.toList.drop 9 ++ src.drop st.i) ∧
      t.length ≤ src.length + src.length / 50 := by
  simp only [fwdARM] at h
  split at h
  · cases h
  next hchk =>
    split at h
    · cases h
    · split at h
      · cases h
      next hd9 hdcs =>
        cases hl : armFwdLoop ce.toNat dstLen (src.length + 1) (List.drop cs.toNat src) cs.toNat
            (ARM64 :: List.replicate 8 0 ++ List.take cs.toNat src).toArray 0 with
        | ok st =>
          rw [hl] at h
          simp only [Kanzi.RLT.Out.bind_ok] at h
          split at h
          · cases h
          · split at h
            · cases h
            · obtain ⟨h1, h2, h3⟩ := fwdFinish_ok _ _ _ _ _ _ _ _ h
              have h4 : cs.toNat % 4 = 0 := by
                have := Nat.and_two_pow_sub_one_eq_mod cs.toNat 2
                have h5 : cs.toNat &&& 3 = 0 := by
                  by_cases h6 : cs.toNat &&& 3 = 0
                  · exact h6
                  · exact absurd (Or.inr (Or.inr (Or.inr h6))) hchk
                rw [show (2 : Nat) ^ 2 - 1 = 3 from rfl, h5] at this
                exact this.symm
              refine ⟨cs.toNat, ce.toNat, st, by omega, by omega, by omega, by omega, by omega, h4, hl, h1, h2, h3⟩
        | err e => rw [hl] at h; cases h
        | fault e => rw [hl] at h; cases h

theorem fwdARM_roundtrip (src : List Nat) (dstLen : Nat) (cs ce : Int) (t : List Nat)
    (hb : ∀ x ∈ src, x < 256) (hlen : src.length ≤ MAX_BLOCK_SIZE)
    (h : fwdARM src dstLen cs ce = .ok t) :
    t.length ≤ src.length + src.length / 50 ∧ t.length + 8 ≤ dstLen ∧ (∀ y ∈ t, y < 256) ∧
      ∀ n, src.length ≤ n → exeInverse false t n = .ok src := by
  obtain ⟨csn, cen, st, rfl, rfl, hcs, hce, hd, hcs4, hl, hroom, ht, htl⟩ := fwdARM_ok src dstLen _ _ t h
  simp only [MAX_BLOCK_SIZE_eq] at hlen
  have hb' : ∀ x ∈ src.drop csn, x < 256 := fun x hx => hb x (List.mem_of_mem_drop hx)
  obtain ⟨E, C, hout, hi, hrest, hEy, hinv⟩ :=
    arm_loop_sim cen dstLen (by omega) (src.length + 1) (src.drop csn) csn _ 0 st hb' hcs4 hl
  have htake : (src.take csn).length = csn := by simp; omega
  have hout9 : st.out.toList.drop 9 = src.take csn ++ E := by
    rw [hout]; simp
  have hsize : st.out.size = 9 + csn + E.length := by
    rw [hout, size_appendList]; simp [htake]; omega
  have hClen : csn + C.length ≤ src.length := by
    have := congrArg List.length hrest
    simp at this; omega
  have hsrc : src = src.take csn ++ (C ++ src.drop st.i) := by
    have h1 : src.drop csn = C ++ src.drop st.i := by
      rw [hi, ← List.drop_drop]; exact hrest
    rw [← h1, List.take_append_drop]
  rw [hout9, hsize] at ht
  have htlen : t.length = 9 + csn + E.length + (src.length - st.i) := by
    rw [ht]; simp [header_length, htake]; omega
  refine ⟨htl, by omega, ?_, ?_⟩
  · intro y hy
    rw [ht] at hy
    rcases List.mem_append.1 hy with hy | hy
    · exact header_lt _ _ _ (by decide) y hy
    · rcases List.mem_append.1 hy with hy | hy
      · rcases List.mem_append.1 hy with hy | hy
        · exact hb y (List.mem_of_mem_take hy)
        · exact hEy y hy
      · exact hb y (List.mem_of_mem_drop hy)
  · intro n hn
    have hne : t.length ≠ 0 := by omega
    have hn0 : n ≠ 0 := by omega
    have hhead : t.head? = some ARM64 := by rw [ht]; simp [header]
    have hfr := invHeader_frame ARM64 csn (src.take csn) E (src.drop st.i) n htake (by omega) (by omega)
    rw [← ht] at hfr
    simp only [exeInverse, hne, hn0, false_or, if_false, Bool.false_eq_true, hhead]
    rw [if_neg (by omega), if_neg (by decide), if_pos trivial]
    simp only [invARM, hfr]
    have hd9 : (t.drop 9).take csn = src.take csn := by
      rw [ht]; simp [header, le32Bytes, htake]
    have hd9' : t.drop (9 + csn) = E ++ src.drop st.i := by
      rw [ht, ← List.drop_drop]; simp [header, le32Bytes, htake]
    rw [hd9, hd9', wr_ok n #[] _ (by simp; omega)]
    simp only [Kanzi.RLT.Out.bind_ok]
    rw [hinv (9 + csn + E.length) n (t.length + 1) (src.drop st.i) (9 + csn) (#[] ++ src.take csn)
      (by simp [htake]) (by omega) (by omega) (by omega)]
    simp only [Kanzi.RLT.Out.bind_ok, invFinish]
    rw [if_neg]
    · congr 1
      have hdt : t.drop (9 + csn + E.length) = src.drop st.i := by
        rw [← List.drop_drop, hd9']; simp
      rw [hdt]
      have : ((#[] : Array Nat) ++ List.take csn src ++ C).toList = src.take csn ++ C := by simp
      rw [this, List.append_assoc]; exact hsrc.symm
    · simp [htake]; omega

end Kanzi.EXE
