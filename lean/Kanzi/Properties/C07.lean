/-
C07 — block hand-off protocol: exclusive, ordered, always terminating; failures reported.
Also the protocol parts of C04 (schedule independence of the written stream) and C05.
Property theorems only; proofs in `Kanzi/Proofs/Protocol.lean`.  Every theorem holds for every
number of tasks N and every reachable state, i.e. every interleaving of the atomic actions and
every placement of failures allowed by `encStep` / `decStep`.
-/
import Kanzi.Model.Protocol
import Kanzi.Proofs.Protocol

namespace Kanzi.C07
open Kanzi.Protocol

abbrev EncReach := Reach encStep encInit
abbrev DecReach := Reach decStep decInit

def holds (p : Pc) : Prop := p = .crit ∨ p = .io

/-- mutual exclusion on the shared output stream -/
theorem C07_enc_mutex (N : Nat) (s : St) (h : EncReach N s) (i j : Nat)
    (hi : holds (s.pc i)) (hj : holds (s.pc j)) : i = j :=
  Kanzi.Protocol.enc_mutex N s h i j hi hj

/-- mutual exclusion on the shared input stream (token held from acquire to publish) -/
theorem C07_dec_mutex (N : Nat) (s : St) (h : DecReach N s) (i j : Nat)
    (hi : holds (s.pc i) ∨ s.pc i = .pub) (hj : holds (s.pc j) ∨ s.pc j = .pub) : i = j :=
  Kanzi.Protocol.dec_mutex N s h i j hi hj

/-- blocks reach the shared stream in increasing id order, each exactly once: the log is 1,2,..,k -/
theorem C07_enc_ordered (N : Nat) (s : St) (h : EncReach N s) :
    s.log = List.range' 1 s.log.length ∧ s.log.length ≤ N :=
  Kanzi.Protocol.enc_ordered N s h

theorem C07_dec_ordered (N : Nat) (s : St) (h : DecReach N s) :
    s.log = List.range' 1 s.log.length ∧ s.log.length ≤ N :=
  Kanzi.Protocol.dec_ordered N s h

/-- no deadlock, no waiting forever: while some task is not done there is an enabled step that
strictly decreases the measure (a non-spin step); no step increases it; so every run has at
most `measure N init = 9·N` (enc) / `8·N` (dec) non-spin steps and, under weak fairness, ends. -/
theorem C07_enc_progress (N : Nat) (s : St) (h : EncReach N s) (hnd : ¬ allDone N s) :
    ∃ t, Step encStep N s t ∧ measure N t < measure N s :=
  Kanzi.Protocol.enc_progress N s h hnd

theorem C07_dec_progress (N : Nat) (s : St) (h : DecReach N s) (hnd : ¬ allDone N s) :
    ∃ t, Step decStep N s t ∧ measure N t < measure N s :=
  Kanzi.Protocol.dec_progress N s h hnd

theorem C07_enc_measure_mono (N : Nat) (s t : St) (h : Step encStep N s t) :
    measure N t ≤ measure N s :=
  Kanzi.Protocol.enc_measure_mono N s t h

theorem C07_dec_measure_mono (N : Nat) (s t : St) (h : Step decStep N s t) :
    measure N t ≤ measure N s :=
  Kanzi.Protocol.dec_measure_mono N s t h

theorem C07_enc_measure_init (N : Nat) : measure N encInit = 9 * N :=
  Kanzi.Protocol.enc_measure_init N

theorem C07_dec_measure_init (N : Nat) : measure N decInit = 8 * N :=
  Kanzi.Protocol.dec_measure_init N

/-- the cancel value is stable and nobody acquires the token after it is visible -/
theorem C07_enc_cancel_stable (N : Nat) (s t : St) (h : Step encStep N s t) (hc : s.ctr = none) :
    t.ctr = none ∧ (∀ i, holds (t.pc i) → holds (s.pc i)) ∧ t.log.length ≤ s.log.length + 1 :=
  Kanzi.Protocol.enc_cancel_stable N s t h hc

theorem C07_dec_cancel_stable (N : Nat) (s t : St) (h : Step decStep N s t) (hc : s.ctr = none) :
    t.ctr = none ∧ (∀ i, holds (t.pc i) → holds (s.pc i)) :=
  Kanzi.Protocol.dec_cancel_stable N s t h hc

/-- a failure while holding the token: no later block ever touches the shared stream -/
theorem C07_enc_crit_failure_blocks (N : Nat) (s : St) (h : EncReach N s) (i : Nat)
    (hf : s.critFail i = true) : s.log.length ≤ i ∧ ∀ j, i < j → ¬ holds (s.pc j) :=
  Kanzi.Protocol.enc_crit_failure_blocks N s h i hf

theorem C07_dec_crit_failure_blocks (N : Nat) (s : St) (h : DecReach N s) (i : Nat)
    (hf : s.critFail i = true ∨ s.eos i = true) : s.log.length ≤ i ∧ ∀ j, i < j → ¬ holds (s.pc j) :=
  Kanzi.Protocol.dec_crit_failure_blocks N s h i hf

/-- failure reporting: in a terminal state the batch result is an error iff some task failed,
and it is the first failed task in id order -/
theorem C07_failure_reported (N : Nat) (f : Nat → Bool) :
    (firstFailed N f).isSome ↔ ∃ i, i < N ∧ f i = true :=
  Kanzi.Protocol.firstFailed_isSome N f

theorem C07_first_failure (N : Nat) (f : Nat → Bool) (i : Nat) (h : firstFailed N f = some i) :
    i < N ∧ f i = true ∧ ∀ j, j < i → f j = false :=
  Kanzi.Protocol.firstFailed_spec N f i h

/-- C04 (schedule independence): whatever the interleaving, a terminal state of the encode batch
without failure has written exactly blocks 1..N in order and leaves the counter at N -/
theorem C04_schedule_independent (N : Nat) (s : St) (h : EncReach N s) (hd : allDone N s)
    (hok : ∀ i, i < N → s.failed i = false) : s.log = List.range' 1 N ∧ s.ctr = some N :=
  Kanzi.Protocol.enc_terminal_ok N s h hd hok

/-- C05 (schedule independence): task i reads frame i+1 and nothing else: in a terminal state of
a decode batch with neither failure nor end-of-stream all N frames were read in order -/
theorem C05_schedule_independent (N : Nat) (s : St) (h : DecReach N s) (hd : allDone N s)
    (hok : ∀ i, i < N → s.failed i = false ∧ s.eos i = false) :
    s.log = List.range' 1 N ∧ s.ctr = some N :=
  Kanzi.Protocol.dec_terminal_ok N s h hd hok

/-- the trace runner used by the correspondence driver only follows `Step` -/
theorem C07_runTrace_sound (step : St → Ev → Option St) (init : St) (N : Nat) (s t : St) (es : List Ev)
    (hs : Reach step init N s) (h : runTrace step N s es = some t) : Reach step init N t :=
  Kanzi.Protocol.runTrace_sound step init N s t es hs h

end Kanzi.C07
