/-
Proofs about the path model `Kanzi.CliPaths` (lean/Kanzi/Model/CliPaths.lean).
-/
import Kanzi.Model.CliPaths

namespace Kanzi.CliPaths

/-! ### split / join -/

theorem splitSep_ne_nil (s : Str) : splitSep s ≠ [] := by
  cases s with
  | nil => simp [splitSep]
  | cons c cs =>
    unfold splitSep
    split
    · simp
    · cases splitSep cs <;> simp [consHead]

theorem splitSep_append_sep (a b : Str) : splitSep (a ++ SEP :: b) = splitSep a ++ splitSep b := by
  induction a with
  | nil => simp [splitSep]
  | cons c cs ih =>
    by_cases hc : c = SEP
    · simp [splitSep, hc, ih]
    · simp only [List.cons_append, splitSep, hc, if_false, ih]
      cases hs : splitSep cs with
      | nil => exact absurd hs (splitSep_ne_nil cs)
      | cons w ws => simp [consHead]

theorem splitSep_noSep (n : Str) (h : SEP ∉ n) : splitSep n = [n] := by
  induction n with
  | nil => simp [splitSep]
  | cons c cs ih =>
    have hc : c ≠ SEP := fun e => h (by simp [e])
    have hcs : SEP ∉ cs := fun e => h (by simp [e])
    simp [splitSep, hc, ih hcs, consHead]

theorem joinSep_cons_cons (w v : Str) (ws : List Str) :
    joinSep (w :: v :: ws) = w ++ SEP :: joinSep (v :: ws) := rfl

theorem joinSep_append_single (l : List Str) (hl : l ≠ []) (n : Str) :
    joinSep (l ++ [n]) = joinSep l ++ SEP :: n := by
  induction l with
  | nil => exact absurd rfl hl
  | cons w ws ih =>
    cases ws with
    | nil => simp [joinSep]
    | cons v vs =>
      have := ih (by simp)
      simp only [List.cons_append] at this ⊢
      rw [joinSep_cons_cons, this, joinSep_cons_cons]
      simp

theorem splitSep_joinSep (l : List Str) (hl : l ≠ []) (h : ∀ c ∈ l, SEP ∉ c) :
    splitSep (joinSep l) = l := by
  induction l with
  | nil => exact absurd rfl hl
  | cons w ws ih =>
    cases ws with
    | nil => simpa [joinSep] using splitSep_noSep w (h w (by simp))
    | cons v vs =>
      rw [joinSep_cons_cons, splitSep_append_sep, splitSep_noSep w (h w (by simp)),
        ih (by simp) (fun c hc => h c (by simp [hc]))]
      simp

theorem joinSep_inj (l m : List Str) (hl : l ≠ []) (hm : m ≠ []) (h1 : ∀ c ∈ l, SEP ∉ c)
    (h2 : ∀ c ∈ m, SEP ∉ c) (h : joinSep l = joinSep m) : l = m := by
  rw [← splitSep_joinSep l hl h1, ← splitSep_joinSep m hm h2, h]

/-! ### `filepath.Clean` on a path extended by one directory entry name -/

/-- a directory entry name: not empty, not `.`, not `..`, no separator -/
def ValidName (n : Str) : Prop := n ≠ [] ∧ n ≠ [DOT] ∧ n ≠ DOTDOT ∧ SEP ∉ n

instance (n : Str) : Decidable (ValidName n) := by unfold ValidName; infer_instance

theorem cleanStep_valid (r : Bool) (st : List Str) (n : Str) (h : ValidName n) :
    cleanStep r st n = n :: st := by
  simp [cleanStep, h.1, h.2.1, h.2.2.1]

theorem cleanStep_empty (r : Bool) (st : List Str) : cleanStep r st [] = st := by
  simp [cleanStep]

theorem isRooted_append (p q : Str) (hp : p ≠ []) : isRooted (p ++ q) = isRooted p := by
  cases p with
  | nil => exact absurd rfl hp
  | cons c cs => simp [isRooted]

theorem stackOf_nil : stackOf [] = [] := by
  simp [stackOf, splitSep, cleanStep]

theorem stackOf_append_name (p n : Str) (hp : p ≠ []) (hn : ValidName n) :
    stackOf (p ++ SEP :: n) = n :: stackOf p := by
  unfold stackOf
  rw [isRooted_append p _ hp, splitSep_append_sep, splitSep_noSep n hn.2.2.2, List.foldl_append]
  simp [cleanStep_valid _ _ _ hn]

theorem stackOf_append_sep_name (p n : Str) (hp : p ≠ []) (hn : ValidName n) :
    stackOf (p ++ SEP :: SEP :: n) = n :: stackOf p := by
  unfold stackOf
  rw [isRooted_append p _ hp, splitSep_append_sep]
  have : splitSep (SEP :: n) = [[], n] := by
    simp [splitSep, splitSep_noSep n hn.2.2.2]
  rw [this, List.foldl_append]
  simp [cleanStep_valid _ _ _ hn, cleanStep_empty]

theorem render_cons (r : Bool) (st : List Str) (n : Str) :
    render r (n :: st) =
      if st = [] then (if r then SEP :: n else n) else render r st ++ SEP :: n := by
  by_cases hst : st = []
  · subst hst
    cases r <;> simp [render, joinSep]
  · have hrev : st.reverse ≠ [] := by simpa using hst
    cases r <;> simp [render, hst, joinSep_append_single _ hrev]

/-- `p` is its own `Clean` and is neither `/` nor `.` -/
def Good (p : Str) : Prop := clean p = p ∧ stackOf p ≠ []

theorem Good.ne_nil {p : Str} (h : Good p) : p ≠ [] := by
  intro e
  exact h.2 (by rw [e, stackOf_nil])

theorem good_step (p n : Str) (hg : Good p) (hn : ValidName n) :
    join2 p n = p ++ SEP :: n ∧ Good (p ++ SEP :: n) := by
  have hp := hg.ne_nil
  have hc : clean (p ++ SEP :: n) = p ++ SEP :: n := by
    unfold clean
    rw [isRooted_append p _ hp, stackOf_append_name p n hp hn, render_cons, if_neg hg.2]
    have := hg.1
    unfold clean at this
    rw [this]
  exact ⟨hc, hc, by rw [stackOf_append_name p n hp hn]; simp⟩

theorem good_root_step (b n : Str) (hg : Good b) (hn : ValidName n) :
    join2 (b ++ [SEP]) n = b ++ SEP :: n := by
  have hp := hg.ne_nil
  unfold join2 clean
  have e : b ++ [SEP] ++ SEP :: n = b ++ SEP :: SEP :: n := by simp
  rw [e, isRooted_append b _ hp, stackOf_append_sep_name b n hp hn, render_cons, if_neg hg.2]
  have := hg.1
  unfold clean at this
  rw [this]

theorem slash_step (n : Str) (hn : ValidName n) : join2 [SEP] n = SEP :: n ∧ Good (SEP :: n) := by
  have h1 : splitSep (SEP :: SEP :: n) = [[], [], n] := by
    simp [splitSep, splitSep_noSep n hn.2.2.2]
  have h2 : splitSep (SEP :: n) = [[], n] := by
    simp [splitSep, splitSep_noSep n hn.2.2.2]
  have hs : stackOf (SEP :: n) = [n] := by
    simp [stackOf, h2, cleanStep_valid _ _ _ hn, cleanStep_empty]
  refine ⟨?_, ?_, by rw [hs]; simp⟩
  · simp [join2, clean, stackOf, h1, isRooted, cleanStep_valid _ _ _ hn, cleanStep_empty, render, joinSep]
  · simp [clean, hs, isRooted, render, joinSep]

theorem walkPath_good (p : Str) (rel : List Str) (hg : Good p) (hrel : rel ≠ [])
    (hv : ∀ n ∈ rel, ValidName n) : walkPath p rel = p ++ SEP :: joinSep rel := by
  induction rel generalizing p with
  | nil => exact absurd rfl hrel
  | cons n rest ih =>
    have hn := hv n (by simp)
    obtain ⟨hj, hg'⟩ := good_step p n hg hn
    cases rest with
    | nil => simp [walkPath, hj, joinSep]
    | cons m ms =>
      have := ih (p ++ SEP :: n) hg' (by simp) (fun x hx => hv x (by simp [hx]))
      simp only [walkPath, List.foldl_cons] at this ⊢
      rw [hj, this, joinSep_cons_cons]
      simp

/-! ### canonical spellings of the input directory -/

def specBase (inp : Str) : Str := if inp.getLast? = some SEP then inp.dropLast else inp

/-- the spellings of `-i <directory>` for which the path strings reported by the directory walk
start with `formattedInName`: `/`, or `B` or `B/` where `B` is its own `filepath.Clean`, is not
`.`, and does not end with a dot -/
def SpecOK (inp : Str) : Prop :=
  inp = [SEP] ∨
  (clean (specBase inp) = specBase inp ∧ stackOf (specBase inp) ≠ [] ∧
    (specBase inp).getLast? ≠ some DOT ∧ (specBase inp).getLast? ≠ some SEP)

instance (inp : Str) : Decidable (SpecOK inp) := by unfold SpecOK; infer_instance

theorem SEP_ne_DOT : SEP ≠ DOT := by decide

theorem dropLast_snoc_of_getLast? {α : Type} (l : List α) (a : α) (h : l.getLast? = some a) :
    l.dropLast ++ [a] = l := by
  induction l with
  | nil => simp at h
  | cons x xs ih =>
    cases xs with
    | nil => simp at h; simp [h]
    | cons y ys =>
      have h' : (y :: ys).getLast? = some a := by simpa [List.getLast?_cons_cons] using h
      simpa using ih h'

theorem specBase_cases (inp : Str) :
    (inp = specBase inp ∧ inp.getLast? ≠ some SEP) ∨ inp = specBase inp ++ [SEP] := by
  unfold specBase
  by_cases h : inp.getLast? = some SEP
  · right
    rw [if_pos h]
    exact (dropLast_snoc_of_getLast? inp SEP h).symm
  · left
    rw [if_neg h]
    exact ⟨rfl, h⟩

theorem addSep_snoc (b : Str) : addSep (b ++ [SEP]) = b ++ [SEP] := by
  simp [addSep]

theorem addSep_of_ne (b : Str) (h0 : b ≠ []) (h : b.getLast? ≠ some SEP) : addSep b = b ++ [SEP] := by
  simp [addSep, h0, h]

theorem finOf_snoc (b : Str) : finOf (b ++ [SEP]) = b ++ [SEP] := by
  have : SEP ≠ DOT := SEP_ne_DOT
  simp [finOf, this]

theorem finOf_of_ne (b : Str) (h1 : b.getLast? ≠ some DOT) (h2 : b.getLast? ≠ some SEP) :
    finOf b = b ++ [SEP] := by
  simp [finOf, h1, h2]

theorem isNonRec_of_last_ne (inp : Str) (h : inp.getLast? ≠ some DOT) : isNonRec inp = false := by
  unfold isNonRec
  by_cases hl : inp.length > 2
  · have : inp.drop (inp.length - 2) ≠ [SEP, DOT] := by
      intro e
      apply h
      have h2 : inp = inp.take (inp.length - 2) ++ [SEP, DOT] := by
        rw [← e, List.take_append_drop]
      rw [h2]
      simp
    simp [this]
  · simp [hl]

/-- the root handed to `filepath.Walk` and `formattedInName` for a recursive run -/
theorem spec_root_fin (inp : Str) (h : SpecOK inp) :
    isNonRec inp = false ∧ addSep inp = finOf inp ∧
    (inp = [SEP] ∨ (Good (specBase inp) ∧ finOf inp = specBase inp ++ [SEP])) := by
  rcases h with h | ⟨hc, hs, hd, hsl⟩
  · subst h
    refine ⟨by decide, by decide, Or.inl rfl⟩
  · have hg : Good (specBase inp) := ⟨hc, hs⟩
    rcases specBase_cases inp with ⟨e, hl⟩ | e
    · have hd' : inp.getLast? ≠ some DOT := by rw [e]; exact hd
      refine ⟨isNonRec_of_last_ne inp hd', ?_, Or.inr ⟨hg, ?_⟩⟩
      · rw [finOf_of_ne inp hd' hl, addSep_of_ne inp (by rw [e]; exact hg.ne_nil) hl]
      · rw [finOf_of_ne inp hd' hl, ← e]
    · have hd' : inp.getLast? ≠ some DOT := by
        rw [e]; simp [SEP_ne_DOT]
      refine ⟨isNonRec_of_last_ne inp hd', ?_, Or.inr ⟨hg, ?_⟩⟩
      · rw [e, addSep_snoc, finOf_snoc]
      · rw [e, finOf_snoc]
        simp [specBase]

/-- under a canonical spelling the walk reports `formattedInName ++ relative path` -/
theorem walk_spec (inp : Str) (rel : List Str) (h : SpecOK inp) (hrel : rel ≠ [])
    (hv : ∀ n ∈ rel, ValidName n) : walkPath (addSep inp) rel = finOf inp ++ joinSep rel := by
  obtain ⟨_, hroot, hcase⟩ := spec_root_fin inp h
  cases rel with
  | nil => exact absurd rfl hrel
  | cons n rest =>
    have hn := hv n (by simp)
    rcases hcase with e | ⟨hg, hfin⟩
    · subst e
      obtain ⟨hj, hg'⟩ := slash_step n hn
      have hroot' : addSep [SEP] = [SEP] := by decide
      have hfin' : finOf [SEP] = [SEP] := by decide
      rw [hroot', hfin']
      cases rest with
      | nil => simp [walkPath, hj, joinSep]
      | cons m ms =>
        have := walkPath_good (SEP :: n) (m :: ms) hg' (by simp) (fun x hx => hv x (by simp [hx]))
        simp only [walkPath, List.foldl_cons] at this ⊢
        rw [hj, this, joinSep_cons_cons]
        simp
    · rw [hroot, hfin]
      have hj := good_root_step (specBase inp) n hg hn
      obtain ⟨_, hg'⟩ := good_step (specBase inp) n hg hn
      cases rest with
      | nil => simp [walkPath, hj, joinSep]
      | cons m ms =>
        have := walkPath_good (specBase inp ++ SEP :: n) (m :: ms) hg' (by simp) (fun x hx => hv x (by simp [hx]))
        simp only [walkPath, List.foldl_cons] at this ⊢
        rw [hj, this, joinSep_cons_cons]
        simp

/-! ### the task list of a run on a directory -/

theorem oNameSingle_eq : @oNameSingle = @oName := rfl

/-- both branches (`nbFiles == 1` and the loop) compute the same names -/
theorem mkTasks_eq (decomp isDir special : Bool) (fin fout : Str) (files : List Str) :
    mkTasks decomp isDir special fin fout files =
      planOf (mapTasks (oName decomp isDir special fin fout) files) := by
  unfold mkTasks
  rw [oNameSingle_eq, ite_self]

theorem nonRec_shape (inp : Str) (h : isNonRec inp = true) :
    targetOf inp = inp.dropLast ∧ finOf inp = inp.dropLast ∧ ∃ x, inp = x ++ [SEP, DOT] := by
  unfold isNonRec at h
  have h' : inp.length > 2 ∧ inp.drop (inp.length - 2) = [SEP, DOT] := by simpa using h
  have hx : inp = inp.take (inp.length - 2) ++ [SEP, DOT] := by
    rw [← h'.2, List.take_append_drop]
  refine ⟨by simp [targetOf, isNonRec, h'.1, h'.2], ?_, _, hx⟩
  rw [hx]
  have e : (inp.take (inp.length - 2) ++ [SEP, DOT]).dropLast = inp.take (inp.length - 2) ++ [SEP] := by
    rw [show [SEP, DOT] = [SEP] ++ [DOT] from rfl, ← List.append_assoc, List.dropLast_concat]
  rw [e]
  unfold finOf
  have h1 : (inp.take (inp.length - 2) ++ [SEP, DOT]).getLast? = some DOT := by simp
  have h2 : (inp.take (inp.length - 2) ++ [SEP, DOT]).length > 1 := by simp
  simp only [h1, h2, e, and_self, if_true]
  simp

/-- the directory the entries of which are listed -/
def rootOf (inp : Str) : Str := if isNonRec inp then targetOf inp else addSep inp

/-- the input name of the entry `rel` below the root -/
def pathOf (inp : Str) (rel : List Str) : Str :=
  if isNonRec inp then targetOf inp ++ joinSep rel else walkPath (addSep inp) rel

/-- `formattedOutName` -/
def foutEff (a : Args) : Str := if a.out ≠ [] ∧ ¬ isSpecial a.out then foutOf a.out else a.out

/-- the input is a directory, for both `Stat` calls the tool makes on it -/
def DirInput (fs : FS) (a : Args) : Prop :=
  (∃ n, fs.stat a.inp = some (.dir, n)) ∧
  (∃ m, (if a.noLinks then fs.lstat (targetOf a.inp) else fs.stat (targetOf a.inp)) = some (.dir, m))

theorem targetOf_rec (inp : Str) (h : isNonRec inp = false) : targetOf inp = inp := by
  simp [targetOf, h]

theorem plan_dir_inv (fs : FS) (a : Args) (ts : List (Str × Str)) (hd : DirInput fs a)
    (h : plan fs a = .tasks ts) :
    ∃ kept : List (List Str × Kind), kept.Sublist (fs.tree (rootOf a.inp)) ∧
      (isNonRec a.inp = true → ∀ e ∈ kept, e.1.length = 1) ∧
      mapTasks (oName a.decomp true (isSpecial a.out) (finOf a.inp) (foutEff a))
        (kept.map fun e => pathOf a.inp e.1) = some ts := by
  obtain ⟨⟨n, hn⟩, ⟨m, hm⟩⟩ := hd
  unfold plan at h
  split at h
  · simp at h
  · -- the file list
    have hcf : ∀ files, createFileList fs (targetOf a.inp) (!isNonRec a.inp) a.noLinks a.noDot = .ok files →
        files = [] ∨ ∃ kept : List (List Str × Kind), kept.Sublist (fs.tree (rootOf a.inp)) ∧
          (isNonRec a.inp = true → ∀ e ∈ kept, e.1.length = 1) ∧
          files = kept.map fun e => pathOf a.inp e.1 := by
      intro files hf
      unfold createFileList at hf
      rw [hm] at hf
      simp only [Kind.isLink] at hf
      split at hf
      · left; injection hf with hf; exact hf.symm
      · by_cases hnr : isNonRec a.inp = true
        · right
          simp only [hnr, Bool.not_true] at hf
          simp at hf
          refine ⟨_, List.filter_sublist (l := fs.tree (rootOf a.inp)) (p := fun e =>
              e.1.length == 1 && !(a.noDot && isDotName (joinSep e.1)) && keepKind a.noLinks e.2), ?_, ?_⟩
          · intro _ e he
            have := (List.mem_filter.mp he).2
            simp at this
            exact this.1.1
          · rw [← hf]
            simp [rootOf, pathOf, hnr]
        · have hnr' : isNonRec a.inp = false := by simpa using hnr
          right
          simp only [hnr', Bool.not_false] at hf
          simp at hf
          rw [targetOf_rec _ hnr'] at hf
          refine ⟨_, List.filter_sublist (l := fs.tree (rootOf a.inp)) (p := fun e =>
              !(a.noDot && isDotName (walkPath (addSep a.inp) e.1)) && keepKind a.noLinks e.2), ?_, ?_⟩
          · intro hc; rw [hnr'] at hc; exact absurd hc (by simp)
          · rw [← hf]
            simp [rootOf, pathOf, hnr']
    split at h
    · simp at h
    · simp at h
    · rename_i files hfiles
      rcases hcf files hfiles with he | ⟨kept, hsub, hlen, hfl⟩
      · simp [he] at h
      · refine ⟨kept, hsub, hlen, ?_⟩
        split at h
        · simp at h
        · rw [hn] at h
          simp only [if_true] at h
          rw [← hfl]
          by_cases ho : a.out ≠ [] ∧ ¬ isSpecial a.out = true
          · rw [if_pos ho] at h
            split at h
            · simp at h
            · split at h
              · simp at h
              · rw [mkTasks_eq] at h; unfold planOf at h
                split at h
                · simp at h
                · rename_i ts' hts
                  injection h with h
                  rw [← h]
                  simpa [foutEff, ho] using hts
          · rw [if_neg ho] at h
            rw [mkTasks_eq] at h; unfold planOf at h
            split at h
            · simp at h
            · rename_i ts' hts
              injection h with h
              rw [← h]
              have hf : foutEff a = a.out := by unfold foutEff; rw [if_neg ho]
              rw [hf]; exact hts

/-! ### name mapping -/

theorem KNZ_length : KNZ.length = 4 := rfl

theorem dName_knz (p : Str) : dName (p ++ KNZ) = p := by
  unfold dName
  have h1 : (p ++ KNZ).length - 4 = p.length := by simp [KNZ_length]
  have h2 : eqFold KNZ KNZU = true := by decide
  rw [h1]
  simp [KNZ_length, h2]

theorem dName_cName (p : Str) : dName (cName p) = p := dName_knz p

theorem sliceFrom_append (x s : Str) : sliceFrom (x ++ s) x.length = some s := by
  simp [sliceFrom]

def unKnz (s : Str) : Str := s.take (s.length - 4)

theorem unKnz_knz (q : Str) : unKnz (q ++ KNZ) = q := by
  simp [unKnz, KNZ_length]

theorem joinSep_snoc_append (init : List Str) (x y : Str) :
    joinSep (init ++ [x ++ y]) = joinSep (init ++ [x]) ++ y := by
  by_cases h : init = []
  · subst h; simp [joinSep]
  · rw [joinSep_append_single _ h, joinSep_append_single _ h]; simp

theorem valid_append_knz (n : Str) (h : ValidName n) : ValidName (n ++ KNZ) := by
  have hl : (n ++ KNZ).length ≥ 5 := by
    have : n.length ≥ 1 := by
      cases n with
      | nil => exact absurd rfl h.1
      | cons _ _ => simp
    simp [KNZ_length]; omega
  refine ⟨?_, ?_, ?_, ?_⟩
  · intro e; rw [e] at hl; simp at hl
  · intro e; rw [e] at hl; simp at hl
  · intro e; rw [e] at hl; simp [DOTDOT] at hl
  · intro hm
    rcases List.mem_append.mp hm with hm | hm
    · exact h.2.2.2 hm
    · revert hm; decide

theorem oName_c (sp : Bool) (fin fout s : Str) :
    oName false true sp fin fout (fin ++ s) =
      if fout = [] then some (fin ++ s ++ KNZ)
      else if sp = false then some (fout ++ s ++ KNZ) else some fout := by
  unfold oName
  by_cases h : fout = []
  · simp [h]
  · cases sp <;> simp [h, sliceFrom_append]

theorem oName_d (sp : Bool) (fin fout q : Str) :
    oName true true sp fin fout (fin ++ q ++ KNZ) =
      if fout = [] then some (fin ++ q)
      else if sp = false then some (fout ++ q) else some fout := by
  unfold oName
  simp only [if_true, dName_knz, List.append_nil]
  by_cases h : fout = []
  · simp [h]
  · cases sp <;> simp [h, sliceFrom_append]

theorem mapTasks_total (f : Str → Option Str) (g : Str → Str) (l : List Str)
    (h : ∀ i ∈ l, f i = some (g i)) : mapTasks f l = some (l.map fun i => (i, g i)) := by
  induction l with
  | nil => rfl
  | cons i is ih =>
    unfold mapTasks
    rw [h i (by simp), ih (fun j hj => h j (by simp [hj]))]
    simp

/-! ### shape of the task list -/

/-- what the directory walk is assumed to report below the root: every entry once, under names
that are directory entry names -/
def TreeOK (l : List (List Str × Kind)) : Prop :=
  (l.map (·.1)).Nodup ∧ ∀ e ∈ l, e.1 ≠ [] ∧ ∀ n ∈ e.1, ValidName n

/-- every entry name ends with `.knz` after a directory entry name (what a compression run produces) -/
def KnzTree (l : List (List Str × Kind)) : Prop :=
  ∀ e ∈ l, ∃ init stem, e.1 = init ++ [stem ++ KNZ] ∧ ValidName stem ∧ ∀ n ∈ init, ValidName n

theorem pathOf_shape (inp : Str) (rel : List Str) (hs : SpecOK inp ∨ isNonRec inp = true)
    (hrel : rel ≠ []) (hv : ∀ n ∈ rel, ValidName n) : pathOf inp rel = finOf inp ++ joinSep rel := by
  unfold pathOf
  by_cases hnr : isNonRec inp = true
  · rw [if_pos hnr]
    obtain ⟨h1, h2, _⟩ := nonRec_shape inp hnr
    rw [h1, h2]
  · rcases hs with hs | hs
    · rw [if_neg hnr]; exact walk_spec inp rel hs hrel hv
    · exact absurd hs hnr

/-- where the outputs go -/
def pre (a : Args) : Str := if a.out = [] then finOf a.inp else foutOf a.out

theorem foutOf_ne_nil (o : Str) (h : o ≠ []) : foutOf o ≠ [] := by
  unfold foutOf
  split <;> simp [h]

theorem tasks_char_c (fs : FS) (a : Args) (ts : List (Str × Str)) (hc : a.decomp = false)
    (hsp : isSpecial a.out = false) (hd : DirInput fs a) (hs : SpecOK a.inp ∨ isNonRec a.inp = true)
    (ht : TreeOK (fs.tree (rootOf a.inp))) (h : plan fs a = .tasks ts) :
    ∃ kept : List (List Str × Kind), kept.Sublist (fs.tree (rootOf a.inp)) ∧
      ts = kept.map fun e => (finOf a.inp ++ joinSep e.1, pre a ++ joinSep e.1 ++ KNZ) := by
  obtain ⟨kept, hsub, _, hm⟩ := plan_dir_inv fs a ts hd h
  refine ⟨kept, hsub, ?_⟩
  have hshape : ∀ e ∈ kept, pathOf a.inp e.1 = finOf a.inp ++ joinSep e.1 := fun e he =>
    pathOf_shape a.inp e.1 hs (ht.2 e (hsub.subset he)).1 (ht.2 e (hsub.subset he)).2
  have hmap : (kept.map fun e => pathOf a.inp e.1) = kept.map fun e => finOf a.inp ++ joinSep e.1 :=
    List.map_congr_left hshape
  rw [hmap, hc, hsp] at hm
  have htot := mapTasks_total (oName false true false (finOf a.inp) (foutEff a))
    (fun i => pre a ++ i.drop (finOf a.inp).length ++ KNZ)
    (kept.map fun e => finOf a.inp ++ joinSep e.1) (by
      intro i hi
      obtain ⟨e, _, rfl⟩ := List.mem_map.mp hi
      rw [oName_c]
      by_cases ho : a.out = []
      · simp [foutEff, pre, ho]
      · have : foutOf a.out ≠ [] := foutOf_ne_nil _ ho
        simp [foutEff, pre, ho, hsp, this])
  rw [htot] at hm
  injection hm with hm
  rw [← hm, List.map_map]
  apply List.map_congr_left
  intro e _
  simp

theorem knz_rel (e : List Str × Kind) (init : List Str) (stem : Str) (he : e.1 = init ++ [stem ++ KNZ])
    (hs : ValidName stem) (hi : ∀ n ∈ init, ValidName n) :
    e.1 ≠ [] ∧ (∀ n ∈ e.1, ValidName n) ∧ joinSep e.1 = joinSep (init ++ [stem]) ++ KNZ ∧
      unKnz (joinSep e.1) = joinSep (init ++ [stem]) := by
  have hj : joinSep e.1 = joinSep (init ++ [stem]) ++ KNZ := by rw [he, joinSep_snoc_append]
  refine ⟨by rw [he]; simp, ?_, hj, by rw [hj, unKnz_knz]⟩
  intro n hn
  rw [he] at hn
  rcases List.mem_append.mp hn with hn | hn
  · exact hi n hn
  · have : n = stem ++ KNZ := by simpa using hn
    rw [this]; exact valid_append_knz stem hs

theorem tasks_char_d (fs : FS) (a : Args) (ts : List (Str × Str)) (hc : a.decomp = true)
    (hsp : isSpecial a.out = false) (hd : DirInput fs a) (hs : SpecOK a.inp ∨ isNonRec a.inp = true)
    (hk : KnzTree (fs.tree (rootOf a.inp))) (h : plan fs a = .tasks ts) :
    ∃ kept : List (List Str × Kind), kept.Sublist (fs.tree (rootOf a.inp)) ∧
      ts = kept.map fun e => (finOf a.inp ++ joinSep e.1, pre a ++ unKnz (joinSep e.1)) := by
  obtain ⟨kept, hsub, _, hm⟩ := plan_dir_inv fs a ts hd h
  refine ⟨kept, hsub, ?_⟩
  have hshape : ∀ e ∈ kept, pathOf a.inp e.1 = finOf a.inp ++ joinSep e.1 := by
    intro e he
    obtain ⟨init, stem, h1, h2, h3⟩ := hk e (hsub.subset he)
    obtain ⟨k1, k2, _, _⟩ := knz_rel e init stem h1 h2 h3
    exact pathOf_shape a.inp e.1 hs k1 k2
  have hmap : (kept.map fun e => pathOf a.inp e.1) = kept.map fun e => finOf a.inp ++ joinSep e.1 :=
    List.map_congr_left hshape
  rw [hmap, hc, hsp] at hm
  have htot := mapTasks_total (oName true true false (finOf a.inp) (foutEff a))
    (fun i => pre a ++ unKnz (i.drop (finOf a.inp).length))
    (kept.map fun e => finOf a.inp ++ joinSep e.1) (by
      intro i hi
      obtain ⟨e, he, rfl⟩ := List.mem_map.mp hi
      obtain ⟨init, stem, h1, h2, h3⟩ := hk e (hsub.subset he)
      obtain ⟨_, _, k3, k4⟩ := knz_rel e init stem h1 h2 h3
      have e1 : finOf a.inp ++ joinSep e.1 = finOf a.inp ++ joinSep (init ++ [stem]) ++ KNZ := by
        rw [k3]; simp
      rw [e1, oName_d]
      have e2 : (finOf a.inp ++ joinSep (init ++ [stem]) ++ KNZ).drop (finOf a.inp).length
          = joinSep (init ++ [stem]) ++ KNZ := by simp
      rw [e2, unKnz_knz]
      by_cases ho : a.out = []
      · simp [foutEff, pre, ho]
      · have : foutOf a.out ≠ [] := foutOf_ne_nil _ ho
        simp [foutEff, pre, ho, hsp, this])
  rw [htot] at hm
  injection hm with hm
  rw [← hm, List.map_map]
  apply List.map_congr_left
  intro e _
  simp

/-! ### the properties -/

theorem nodup_map_on {α β : Type} (f : α → β) (l : List α) (hl : l.Nodup)
    (hf : ∀ x ∈ l, ∀ y ∈ l, f x = f y → x = y) : (l.map f).Nodup := by
  induction l with
  | nil => simp
  | cons a l ih =>
    rw [List.nodup_cons] at hl
    rw [List.map_cons, List.nodup_cons]
    refine ⟨?_, ih hl.2 (fun x hx y hy => hf x (by simp [hx]) y (by simp [hy]))⟩
    intro hm
    obtain ⟨y, hy, hfy⟩ := List.mem_map.mp hm
    have := hf a (by simp) y (by simp [hy]) hfy.symm
    exact hl.1 (this ▸ hy)

theorem kept_rels (tree kept : List (List Str × Kind)) (hsub : kept.Sublist tree) (ht : TreeOK tree) :
    (kept.map (·.1)).Nodup ∧ ∀ r ∈ kept.map (·.1), r ≠ [] ∧ ∀ n ∈ r, ValidName n := by
  refine ⟨(hsub.map _).nodup ht.1, ?_⟩
  intro r hr
  obtain ⟨e, he, rfl⟩ := List.mem_map.mp hr
  exact ht.2 e (hsub.subset he)

theorem knz_tree_ok (tree : List (List Str × Kind)) (hk : KnzTree tree) :
    ∀ e ∈ tree, e.1 ≠ [] ∧ ∀ n ∈ e.1, ValidName n := by
  intro e he
  obtain ⟨init, stem, h1, h2, h3⟩ := hk e he
  obtain ⟨k1, k2, _, _⟩ := knz_rel e init stem h1 h2 h3
  exact ⟨k1, k2⟩

theorem noSep_of_valid {r : List Str} (h : ∀ n ∈ r, ValidName n) : ∀ c ∈ r, SEP ∉ c :=
  fun c hc => (h c hc).2.2.2

/-- compression: distinct inputs, distinct outputs -/
theorem paths_injective_c (fs : FS) (a : Args) (ts : List (Str × Str)) (hc : a.decomp = false)
    (hsp : isSpecial a.out = false) (hd : DirInput fs a) (hs : SpecOK a.inp ∨ isNonRec a.inp = true)
    (ht : TreeOK (fs.tree (rootOf a.inp))) (h : plan fs a = .tasks ts) :
    (ts.map (·.1)).Nodup ∧ (ts.map (·.2)).Nodup := by
  obtain ⟨kept, hsub, rfl⟩ := tasks_char_c fs a ts hc hsp hd hs ht h
  obtain ⟨hnd, hv⟩ := kept_rels _ kept hsub ht
  have e1 : (kept.map fun e => (finOf a.inp ++ joinSep e.1, pre a ++ joinSep e.1 ++ KNZ)).map (·.1)
      = (kept.map (·.1)).map fun r => finOf a.inp ++ joinSep r := by simp [List.map_map]
  have e2 : (kept.map fun e => (finOf a.inp ++ joinSep e.1, pre a ++ joinSep e.1 ++ KNZ)).map (·.2)
      = (kept.map (·.1)).map fun r => pre a ++ joinSep r ++ KNZ := by simp [List.map_map]
  rw [e1, e2]
  constructor
  · apply nodup_map_on _ _ hnd
    intro x hx y hy hxy
    exact joinSep_inj x y (hv x hx).1 (hv y hy).1 (noSep_of_valid (hv x hx).2) (noSep_of_valid (hv y hy).2)
      (List.append_cancel_left hxy)
  · apply nodup_map_on _ _ hnd
    intro x hx y hy hxy
    have := List.append_cancel_right hxy
    exact joinSep_inj x y (hv x hx).1 (hv y hy).1 (noSep_of_valid (hv x hx).2) (noSep_of_valid (hv y hy).2)
      (List.append_cancel_left this)

/-- decompression of a tree in which every name ends with `.knz`: distinct inputs, distinct outputs -/
theorem paths_injective_d (fs : FS) (a : Args) (ts : List (Str × Str)) (hc : a.decomp = true)
    (hsp : isSpecial a.out = false) (hd : DirInput fs a) (hs : SpecOK a.inp ∨ isNonRec a.inp = true)
    (hnd : ((fs.tree (rootOf a.inp)).map (·.1)).Nodup) (hk : KnzTree (fs.tree (rootOf a.inp)))
    (h : plan fs a = .tasks ts) :
    (ts.map (·.1)).Nodup ∧ (ts.map (·.2)).Nodup := by
  obtain ⟨kept, hsub, rfl⟩ := tasks_char_d fs a ts hc hsp hd hs hk h
  have ht : TreeOK (fs.tree (rootOf a.inp)) := ⟨hnd, knz_tree_ok _ hk⟩
  obtain ⟨hnd', hv⟩ := kept_rels _ kept hsub ht
  have e1 : (kept.map fun e => (finOf a.inp ++ joinSep e.1, pre a ++ unKnz (joinSep e.1))).map (·.1)
      = (kept.map (·.1)).map fun r => finOf a.inp ++ joinSep r := by simp [List.map_map]
  have e2 : (kept.map fun e => (finOf a.inp ++ joinSep e.1, pre a ++ unKnz (joinSep e.1))).map (·.2)
      = (kept.map (·.1)).map fun r => pre a ++ unKnz (joinSep r) := by simp [List.map_map]
  rw [e1, e2]
  have hknz : ∀ r ∈ kept.map (·.1), joinSep r = unKnz (joinSep r) ++ KNZ := by
    intro r hr
    obtain ⟨e, he, rfl⟩ := List.mem_map.mp hr
    obtain ⟨init, stem, h1, h2, h3⟩ := hk e (hsub.subset he)
    obtain ⟨_, _, k3, k4⟩ := knz_rel e init stem h1 h2 h3
    rw [k4]; exact k3
  constructor
  · apply nodup_map_on _ _ hnd'
    intro x hx y hy hxy
    exact joinSep_inj x y (hv x hx).1 (hv y hy).1 (noSep_of_valid (hv x hx).2) (noSep_of_valid (hv y hy).2)
      (List.append_cancel_left hxy)
  · apply nodup_map_on _ _ hnd'
    intro x hx y hy hxy
    have := List.append_cancel_left hxy
    have hj : joinSep x = joinSep y := by rw [hknz x hx, hknz y hy, this]
    exact joinSep_inj x y (hv x hx).1 (hv y hy).1 (noSep_of_valid (hv x hx).2) (noSep_of_valid (hv y hy).2) hj

/-- no entry of the tree is named like the compressed form of another one -/
def NoShadow (l : List (List Str × Kind)) : Prop :=
  ∀ e ∈ l, ∀ e' ∈ l, joinSep e'.1 ≠ joinSep e.1 ++ KNZ

/-- no entry of the input tree lies below the output directory -/
def OutApart (a : Args) (l : List (List Str × Kind)) : Prop :=
  ∀ e ∈ l, ¬ (foutOf a.out <+: finOf a.inp ++ joinSep e.1)

theorem paths_output_not_input_c (fs : FS) (a : Args) (ts : List (Str × Str)) (hc : a.decomp = false)
    (hsp : isSpecial a.out = false) (hd : DirInput fs a) (hs : SpecOK a.inp ∨ isNonRec a.inp = true)
    (ht : TreeOK (fs.tree (rootOf a.inp)))
    (hin : a.out = [] → NoShadow (fs.tree (rootOf a.inp)))
    (hout : a.out ≠ [] → OutApart a (fs.tree (rootOf a.inp)))
    (h : plan fs a = .tasks ts) : ∀ t ∈ ts, ∀ u ∈ ts, t.2 ≠ u.1 := by
  obtain ⟨kept, hsub, rfl⟩ := tasks_char_c fs a ts hc hsp hd hs ht h
  intro t htm u hum heq
  obtain ⟨e, he, rfl⟩ := List.mem_map.mp htm
  obtain ⟨e', he', rfl⟩ := List.mem_map.mp hum
  simp only at heq
  by_cases ho : a.out = []
  · simp only [pre, ho, if_true, List.append_assoc] at heq
    exact hin ho e (hsub.subset he) e' (hsub.subset he') (List.append_cancel_left heq).symm
  · simp only [pre, ho, if_false] at heq
    apply hout ho e' (hsub.subset he')
    rw [← heq, List.append_assoc]
    exact List.prefix_append _ _

theorem paths_output_not_input_d (fs : FS) (a : Args) (ts : List (Str × Str)) (hc : a.decomp = true)
    (hsp : isSpecial a.out = false) (hd : DirInput fs a) (hs : SpecOK a.inp ∨ isNonRec a.inp = true)
    (hk : KnzTree (fs.tree (rootOf a.inp)))
    (hin : a.out = [] → NoShadow (fs.tree (rootOf a.inp)))
    (hout : a.out ≠ [] → OutApart a (fs.tree (rootOf a.inp)))
    (h : plan fs a = .tasks ts) : ∀ t ∈ ts, ∀ u ∈ ts, t.2 ≠ u.1 := by
  obtain ⟨kept, hsub, rfl⟩ := tasks_char_d fs a ts hc hsp hd hs hk h
  intro t htm u hum heq
  obtain ⟨e, he, rfl⟩ := List.mem_map.mp htm
  obtain ⟨e', he', rfl⟩ := List.mem_map.mp hum
  simp only at heq
  by_cases ho : a.out = []
  · simp only [pre, ho, if_true] at heq
    have h1 := List.append_cancel_left heq
    obtain ⟨init, stem, k1, k2, k3⟩ := hk e (hsub.subset he)
    obtain ⟨_, _, j3, j4⟩ := knz_rel e init stem k1 k2 k3
    apply hin ho e' (hsub.subset he') e (hsub.subset he)
    rw [← h1, j4]; exact j3
  · simp only [pre, ho, if_false] at heq
    apply hout ho e' (hsub.subset he')
    rw [← heq]
    exact List.prefix_append _ _

/-- `o` is `dir` followed by a relative path made of directory entry names -/
def Under (dir o : Str) : Prop :=
  ∃ comps : List Str, comps ≠ [] ∧ (∀ c ∈ comps, ValidName c) ∧ o = dir ++ joinSep comps

theorem rel_split (r : List Str) (h : r ≠ []) : ∃ init last, r = init ++ [last] := by
  refine ⟨r.dropLast, r.getLast h, ?_⟩
  exact (List.dropLast_concat_getLast h).symm

theorem paths_within_outdir_c (fs : FS) (a : Args) (ts : List (Str × Str)) (hc : a.decomp = false)
    (hsp : isSpecial a.out = false) (ho : a.out ≠ []) (hd : DirInput fs a)
    (hs : SpecOK a.inp ∨ isNonRec a.inp = true) (ht : TreeOK (fs.tree (rootOf a.inp)))
    (h : plan fs a = .tasks ts) : ∀ t ∈ ts, Under (foutOf a.out) t.2 := by
  obtain ⟨kept, hsub, rfl⟩ := tasks_char_c fs a ts hc hsp hd hs ht h
  intro t htm
  obtain ⟨e, he, rfl⟩ := List.mem_map.mp htm
  obtain ⟨hne, hv⟩ := ht.2 e (hsub.subset he)
  obtain ⟨init, last, hr⟩ := rel_split e.1 hne
  refine ⟨init ++ [last ++ KNZ], by simp, ?_, ?_⟩
  · intro c hcm
    rcases List.mem_append.mp hcm with hcm | hcm
    · exact hv c (by rw [hr]; simp [hcm])
    · have : c = last ++ KNZ := by simpa using hcm
      rw [this]; exact valid_append_knz last (hv last (by rw [hr]; simp))
  · simp only [pre, ho, if_false]
    rw [joinSep_snoc_append, ← hr, List.append_assoc]

theorem paths_within_outdir_d (fs : FS) (a : Args) (ts : List (Str × Str)) (hc : a.decomp = true)
    (hsp : isSpecial a.out = false) (ho : a.out ≠ []) (hd : DirInput fs a)
    (hs : SpecOK a.inp ∨ isNonRec a.inp = true) (hk : KnzTree (fs.tree (rootOf a.inp)))
    (h : plan fs a = .tasks ts) : ∀ t ∈ ts, Under (foutOf a.out) t.2 := by
  obtain ⟨kept, hsub, rfl⟩ := tasks_char_d fs a ts hc hsp hd hs hk h
  intro t htm
  obtain ⟨e, he, rfl⟩ := List.mem_map.mp htm
  obtain ⟨init, stem, k1, k2, k3⟩ := hk e (hsub.subset he)
  obtain ⟨_, _, _, j4⟩ := knz_rel e init stem k1 k2 k3
  refine ⟨init ++ [stem], by simp, ?_, ?_⟩
  · intro c hcm
    rcases List.mem_append.mp hcm with hcm | hcm
    · exact k3 c hcm
    · have : c = stem := by simpa using hcm
      rw [this]; exact k2
  · simp only [pre, ho, if_false]
    rw [j4]

/-- compressing the entry `rel` of a tree into a directory and decompressing the result into
another directory gives back the same relative path, and the decompressor looks for exactly the
name the compressor wrote -/
theorem paths_roundtrip (inT outC inC outD : Str) (rel : List Str) (hrel : rel ≠ [])
    (hv : ∀ n ∈ rel, ValidName n) (hT : SpecOK inT) (hC : SpecOK inC)
    (hsame : foutOf outC = finOf inC) (hoC : outC ≠ []) (hoD : outD ≠ []) :
    ∃ init last, rel = init ++ [last] ∧
      oName false true false (finOf inT) (foutOf outC) (walkPath (addSep inT) rel)
        = some (walkPath (addSep inC) (init ++ [last ++ KNZ])) ∧
      oName true true false (finOf inC) (foutOf outD) (walkPath (addSep inC) (init ++ [last ++ KNZ]))
        = some (foutOf outD ++ joinSep rel) := by
  obtain ⟨init, last, hr⟩ := rel_split rel hrel
  refine ⟨init, last, hr, ?_, ?_⟩
  · have hv' : ∀ n ∈ init ++ [last ++ KNZ], ValidName n := by
      intro c hcm
      rcases List.mem_append.mp hcm with hcm | hcm
      · exact hv c (by rw [hr]; simp [hcm])
      · have : c = last ++ KNZ := by simpa using hcm
        rw [this]; exact valid_append_knz last (hv last (by rw [hr]; simp))
    rw [walk_spec inT rel hT hrel hv, walk_spec inC _ hC (by simp) hv', oName_c,
      if_neg (foutOf_ne_nil _ hoC), joinSep_snoc_append, ← hr, hsame]
    simp
  · have hv' : ∀ n ∈ init ++ [last ++ KNZ], ValidName n := by
      intro c hcm
      rcases List.mem_append.mp hcm with hcm | hcm
      · exact hv c (by rw [hr]; simp [hcm])
      · have : c = last ++ KNZ := by simpa using hcm
        rw [this]; exact valid_append_knz last (hv last (by rw [hr]; simp))
    rw [walk_spec inC _ hC (by simp) hv', joinSep_snoc_append, ← hr, ← List.append_assoc, oName_d,
      if_neg (foutOf_ne_nil _ hoD)]
    simp

/-- in place: the decompressor maps the name the compressor wrote back to the input name -/
theorem paths_roundtrip_inplace (isDir sp : Bool) (fin i : Str) :
    oName false isDir sp fin [] i = some (i ++ KNZ) ∧ oName true isDir sp fin [] (i ++ KNZ) = some i := by
  simp [oName, dName_knz]

/-! ### a single file as input -/

/-- the input is a regular file, for both `Stat` calls the tool makes on it -/
def FileInput (fs : FS) (a : Args) : Prop :=
  (∃ n, fs.stat a.inp = some (.file, n)) ∧
  (∃ m, (if a.noLinks then fs.lstat (targetOf a.inp) else fs.stat (targetOf a.inp)) = some (.file, m))

theorem plan_file (fs : FS) (a : Args) (ts : List (Str × Str)) (hf : FileInput fs a)
    (h : plan fs a = .tasks ts) :
    ∃ o, ts = [(targetOf a.inp, o)] ∧
      oName a.decomp false (isSpecial a.out) [] a.out (targetOf a.inp) = some o := by
  obtain ⟨⟨n, hn⟩, ⟨m, hm⟩⟩ := hf
  unfold plan at h
  split at h
  · simp at h
  · have hcf : ∀ files, createFileList fs (targetOf a.inp) (!isNonRec a.inp) a.noLinks a.noDot = .ok files →
        files = [] ∨ files = [targetOf a.inp] := by
      intro files hfl
      unfold createFileList at hfl
      rw [hm] at hfl
      simp only [Kind.isLink] at hfl
      split at hfl
      · left; injection hfl with hfl; exact hfl.symm
      · right; simp at hfl; exact hfl.symm
    split at h
    · simp at h
    · simp at h
    · rename_i files hfiles
      rcases hcf files hfiles with he | he
      · simp [he] at h
      · split at h
        · simp at h
        · rw [hn] at h
          simp only [show (Kind.file = Kind.dir) = False from by simp, if_false] at h
          split at h
          · simp at h
          · rw [mkTasks_eq] at h; unfold planOf at h
            split at h
            · simp at h
            · rename_i ts' hts
              injection h with h
              rw [he] at hts
              unfold mapTasks at hts
              split at hts
              · rename_i o r ho hr
                simp [mapTasks] at hr
                injection hts with hts
                exact ⟨o, by rw [← h, ← hts, hr], ho⟩
              · simp at hts

end Kanzi.CliPaths
