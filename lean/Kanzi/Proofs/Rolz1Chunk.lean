/-
ROLZ (`rolzCodec1`): one chunk through the bitstream.  `packFast` of the model is `Close` of the output
bitstream (`Kanzi.Block.packFast`: the bits, zero padded to a byte); the four section lengths and the four ANS
coded sections are read back exactly, whatever bytes follow, and the decoder advances by exactly the bytes of
the chunk (`chunk_transport`).
-/
import Kanzi.Proofs.Rolz1Ans
import Kanzi.Proofs.Rolz1Round
import Kanzi.Proofs.BlockLemmas

namespace Kanzi.ROLZ
open Kanzi.Bits Kanzi.EntSmall

theorem bitsNat8 (b0 b1 b2 b3 b4 b5 b6 b7 : Bool) :
    bitsNat [b0, b1, b2, b3, b4, b5, b6, b7] = 128 * b0.toNat + 64 * b1.toNat + 32 * b2.toNat + 16 * b3.toNat
      + 8 * b4.toNat + 4 * b5.toNat + 2 * b6.toNat + b7.toNat := by
  cases b0 <;> cases b1 <;> cases b2 <;> cases b3 <;> cases b4 <;> cases b5 <;> cases b6 <;> cases b7 <;> rfl

theorem packLoop_eq : ∀ (n : Nat) (bs : Bits), bs.length = n → ∀ (f : Nat) (acc : Array Nat), bs.length / 8 + 1 ≤ f →
    (packLoop f bs acc).toList = acc.toList ++ Kanzi.Block.packFast bs := by
  intro n
  induction n using Nat.strongRecOn with
  | _ n ih =>
    intro bs hn f acc hf
    match f, hf with
    | f + 1, hf =>
    by_cases h8 : 8 ≤ bs.length
    · obtain ⟨b0, b1, b2, b3, b4, b5, b6, b7, rest, rfl⟩ := Kanzi.Block.cons8_of_length bs h8
      simp only [packLoop]
      rw [ih rest.length (by rw [← hn]; simp only [List.length_cons]; omega) rest rfl f _
        (by simp only [List.length_cons] at hf; omega), Kanzi.Block.packFast_cons8, bitsNat8]
      simp
    · by_cases h0 : bs = []
      · subst h0
        simp [packLoop, Kanzi.Block.packFast_nil]
      · rw [Kanzi.Block.packFast_short bs h0 (by omega)]
        rcases bs with _ | ⟨b0, _ | ⟨b1, _ | ⟨b2, _ | ⟨b3, _ | ⟨b4, _ | ⟨b5, _ | ⟨b6, _ | ⟨b7, rest⟩⟩⟩⟩⟩⟩⟩⟩
        · exact absurd rfl h0
        all_goals first
          | (simp only [List.length_cons] at h8; omega)
          | simp [packLoop]

theorem packFast_toList (bs : Bits) : (packFast bs).toList = Kanzi.Block.packFast bs := by
  unfold packFast
  rw [packLoop_eq bs.length bs rfl _ _ (Nat.le_refl _)]
  simp

theorem packFast_size (bs : Bits) : (packFast bs).size = (bs.length + 7) / 8 := by
  rw [← Array.length_toList, packFast_toList, Kanzi.Block.packFast_length]

theorem ofBytes_packFast' (bs : Bits) (T : List Nat) :
    ofBytes ((packFast bs).toList ++ T) = bs ++ (List.replicate (Kanzi.Block.padLen bs.length) false ++ ofBytes T) := by
  rw [ofBytes_append, packFast_toList, Kanzi.Block.ofBytes_packFast, List.append_assoc]

/-- **one chunk through the bitstream**: the decoder, given the bytes of the chunk followed by ANY bytes `T`, reads
    back the four section lengths and the four sections, and has consumed exactly the bytes of the chunk -/
theorem chunk_transport {litOrder : Nat} {lit tk len mix : List Nat} {bits : Bits}
    (hcb : chunkBits litOrder lit tk len mix = some bits)
    (hb1 : ∀ b ∈ lit, b < 256) (hb2 : ∀ b ∈ tk, b < 256) (hb3 : ∀ b ∈ len, b < 256) (hb4 : ∀ b ∈ mix, b < 256)
    (hl1 : lit.length < 2 ^ 32) (hl2 : tk.length < 2 ^ 32) (hl3 : len.length < 2 ^ 32) (hl4 : mix.length < 2 ^ 32)
    (T : List Nat) :
    ∃ r0 r1 r2 r3 r4 b2 b3 b4,
      readHdr (ofBytes ((packFast bits).toList ++ T)) = some ((lit.length, tk.length, len.length, mix.length), r0) ∧
      ansLitDecode litOrder false r0 lit.length = some (lit, r1) ∧
      ans0DecodeB r1 tk.length 32768 0 = some (tk, r2, b2) ∧ ans0DecodeB r2 len.length 32768 b2 = some (len, r3, b3) ∧
      ans0DecodeB r3 mix.length 32768 b3 = some (mix, r4, b4) ∧
      ((ofBytes ((packFast bits).toList ++ T)).length - r4.length + 7) / 8 = (packFast bits).size := by
  obtain ⟨e1, he1, hd1⟩ := ansLit_rt litOrder lit hb1
  obtain ⟨e2, he2, hd2⟩ := ans0B_rt tk 32768 12 (by omega) (by omega) (by omega) hb2
  obtain ⟨e3, he3, hd3⟩ := ans0B_rt len 32768 12 (by omega) (by omega) (by omega) hb3
  obtain ⟨e4, he4, hd4⟩ := ans0B_rt mix 32768 12 (by omega) (by omega) (by omega) hb4
  unfold chunkBits at hcb
  rw [he1, he2, he3, he4] at hcb
  simp only at hcb
  injection hcb with hcb
  subst hcb
  have hpk := ofBytes_packFast' (natBits lit.length 32 ++ natBits tk.length 32 ++ natBits len.length 32
    ++ natBits mix.length 32 ++ e1 ++ e2 ++ e3 ++ e4) T
  have hsz := packFast_size (natBits lit.length 32 ++ natBits tk.length 32 ++ natBits len.length 32
    ++ natBits mix.length 32 ++ e1 ++ e2 ++ e3 ++ e4)
  generalize List.replicate (Kanzi.Block.padLen (natBits lit.length 32 ++ natBits tk.length 32 ++ natBits len.length 32
    ++ natBits mix.length 32 ++ e1 ++ e2 ++ e3 ++ e4).length) false ++ ofBytes T = P at hpk
  obtain ⟨b2, hb2'⟩ := hd2 0 (e3 ++ (e4 ++ P))
  obtain ⟨b3, hb3'⟩ := hd3 b2 (e4 ++ P)
  obtain ⟨b4, hb4'⟩ := hd4 b3 P
  refine ⟨e1 ++ (e2 ++ (e3 ++ (e4 ++ P))), e2 ++ (e3 ++ (e4 ++ P)), e3 ++ (e4 ++ P), e4 ++ P, P, b2, b3, b4,
    ?_, hd1 _, hb2', hb3', hb4', ?_⟩
  · rw [hpk]
    unfold readHdr
    simp only [List.append_assoc]
    rw [readBits_natBits_lt _ _ _ hl1]
    simp only
    rw [readBits_natBits_lt _ _ _ hl2]
    simp only
    rw [readBits_natBits_lt _ _ _ hl3]
    simp only
    rw [readBits_natBits_lt _ _ _ hl4]
  · rw [hpk, hsz]
    simp only [List.length_append]
    omega

/-! ## the side buffers of the decoder -/

theorem blit_fold (l : List Nat) : ∀ (buf : Array Nat) (i : Nat), i + l.length ≤ buf.size →
    ((l.foldl (fun (p : Array Nat × Nat) v => (p.1.setIfInBounds p.2 v, p.2 + 1)) (buf, i)).1.size = buf.size) ∧
    ∀ k, (l.foldl (fun (p : Array Nat × Nat) v => (p.1.setIfInBounds p.2 v, p.2 + 1)) (buf, i)).1.getD k 0
      = if i ≤ k ∧ k < i + l.length then l.getD (k - i) 0 else buf.getD k 0 := by
  induction l with
  | nil =>
    intro buf i _
    refine ⟨rfl, fun k => ?_⟩
    simp only [List.foldl_nil, List.length_nil]
    rw [if_neg (by omega)]
  | cons v l ih =>
    intro buf i hi
    simp only [List.foldl_cons, List.length_cons] at hi ⊢
    obtain ⟨h1, h2⟩ := ih (buf.setIfInBounds i v) (i + 1) (by rw [Array.size_setIfInBounds]; omega)
    refine ⟨by rw [h1, Array.size_setIfInBounds], fun k => ?_⟩
    rw [h2 k, getD_setIfInBounds]
    by_cases hk : i + 1 ≤ k ∧ k < i + 1 + l.length
    · rw [if_pos hk, if_pos (by omega)]
      have : k - i = (k - (i + 1)) + 1 := by omega
      rw [this, List.getD_cons_succ]
    · rw [if_neg hk]
      by_cases hki : k = i
      · rw [if_pos ⟨hki, by omega⟩, if_pos (by omega), hki]
        simp
      · rw [if_neg (fun hc => hki hc.1), if_neg (by omega)]

theorem blit_spec (buf : Array Nat) (l : List Nat) (h : l.length ≤ buf.size) :
    (blit buf l).size = buf.size ∧ ∀ k, (blit buf l).getD k 0 = if k < l.length then l.getD k 0 else buf.getD k 0 := by
  unfold blit
  obtain ⟨h1, h2⟩ := blit_fold l buf 0 (by omega)
  refine ⟨h1, fun k => ?_⟩
  rw [h2 k]
  simp

theorem pre_blit (x buf : Array Nat) (h : x.size ≤ buf.size) : Pre x (blit buf x.toList) := by
  obtain ⟨h1, h2⟩ := blit_spec buf x.toList (by rw [Array.length_toList]; exact h)
  refine ⟨by rw [h1]; exact h, fun k hk => ?_⟩
  rw [h2 k, if_pos (by rw [Array.length_toList]; exact hk), toList_getD]

/-! ## facts about the buffers at the end of a chunk -/

/-- tokens and match indexes go together; without a token nothing was emitted -/
theorem fwd1Loop_tk {a : Array Nat} {cp : Caps} {base lim mm delta lpc : Nat} :
    ∀ (f : Nat) (l lfin : L1), fwd1Loop a cp base lim mm delta lpc f l = .ok lfin → l.first ≤ l.i →
    l.st.tk.size = l.st.mix.size →
    lfin.st.tk.size = lfin.st.mix.size ∧
    (lfin.st.tk.size = 0 → lfin.first = l.first ∧ lfin.st.lit = l.st.lit ∧ lfin.st.len = l.st.len) := by
  intro f
  induction f with
  | zero => intro l lfin h; simp [fwd1Loop] at h
  | succ f ih =>
    intro l lfin h hfi htm
    simp only [fwd1Loop] at h
    split at h
    · split at h
      · rename_i l' hl'
        obtain ⟨key, w, _, _, hc⟩ := fwd1Step_cases hl'
        rcases hc with ⟨_, hl'eq⟩ | ⟨mi, ml, key1, w1, r1, s', hfm, _, _, hr1, hs', hl'eq⟩
        · have := ih l' lfin h (by rw [hl'eq]; simp only; omega) (by rw [hl'eq]; exact htm)
          rw [hl'eq] at this
          exact this
        · obtain ⟨p, mi', ml', tabS, keyP, wP, hp, _, hcase⟩ := match_pick hfm hr1
          rw [hp] at hs' hl'eq
          simp only at hs' hl'eq
          have hfp : l.first ≤ p := by rcases hcase with ⟨h1, _⟩ | ⟨h1, _⟩ <;> omega
          obtain ⟨_, e1, e2, _, _⟩ := emitSeq_spec hs' hfp
          have ht : s'.tk.size = s'.mix.size := by
            rw [e1, e2, size_appendL, size_appendL, htm]; rfl
          have hpos : 0 < s'.tk.size := by rw [e1, size_appendL]; simp
          obtain ⟨q1, _⟩ := ih l' lfin h (by rw [hl'eq]) (by rw [hl'eq]; exact ht)
          refine ⟨q1, fun h0 => ?_⟩
          -- the buffers only grow: a token was pushed
          exfalso
          have hg : ∀ (f : Nat) (l l2 : L1), fwd1Loop a cp base lim mm delta lpc f l = .ok l2 → l.first ≤ l.i →
              l.st.tk.size ≤ l2.st.tk.size := by
            intro f
            induction f with
            | zero => intro l l2 h; simp [fwd1Loop] at h
            | succ f ih2 =>
              intro l l2 h hfi2
              simp only [fwd1Loop] at h
              split at h
              · split at h
                · rename_i l3 hl3
                  have g := (fwd1Step_grow hl3 hfi2).tk.1
                  have hfi3 : l3.first ≤ l3.i := by
                    obtain ⟨_, _, _, _, hc3⟩ := fwd1Step_cases hl3
                    rcases hc3 with ⟨_, e⟩ | ⟨_, _, _, _, _, _, _, _, _, _, _, e⟩
                    · rw [e]; simp only; omega
                    · rw [e]
                  have := ih2 l3 l2 h hfi3
                  omega
                · cases h
                · cases h
              · injection h with h
                subst h
                exact Nat.le_refl _
          have := hg f l' lfin h (by rw [hl'eq])
          rw [hl'eq] at this
          simp only at this
          omega
      · cases h
      · cases h
    · injection h with h
      subst h
      exact ⟨htm, fun _ => ⟨rfl, rfl, rfl⟩⟩

/-! ## the side buffers hold bytes -/

def AllB (x : Array Nat) : Prop := ∀ k, x.getD k 0 < 256

theorem allB_empty : AllB #[] := fun k => by simp

theorem allB_appendL {x : Array Nat} (hx : AllB x) {l : List Nat} (hl : ∀ b ∈ l, b < 256) : AllB (x ++ l) := by
  intro k
  rw [getD_appendL]
  by_cases hk : k < x.size
  · rw [if_pos hk]; exact hx k
  · rw [if_neg hk, List.getD_eq_getElem?_getD]
    cases h : l[k - x.size]? with
    | none => simp
    | some v => simp only [Option.getD_some]; exact hl v (List.mem_of_getElem? h)

theorem allB_appendA {x y : Array Nat} (hx : AllB x) (hy : AllB y) : AllB (x ++ y) := by
  intro k
  rw [getD_appendA]
  by_cases hk : k < x.size
  · rw [if_pos hk]; exact hx k
  · rw [if_neg hk]; exact hy _

theorem allB_extract {a : Array Nat} (ha : ∀ k, a.getD k 0 < 256) (i j : Nat) : AllB (a.extract i j) := by
  intro k
  simp only [Array.getD_eq_getD_getElem?, Array.getElem?_extract]
  split
  · have := ha (i + k)
    rw [Array.getD_eq_getD_getElem?] at this
    exact this
  · simp

theorem allB_mem {x : Array Nat} (hx : AllB x) : ∀ b ∈ x.toList, b < 256 := by
  intro b hb
  obtain ⟨k, hk, rfl⟩ := List.getElem_of_mem hb
  have := hx k
  rw [Array.length_toList] at hk
  simpa [Array.getD_eq_getD_getElem?, Array.getElem?_eq_getElem hk] using this

theorem emitLengthBytes_lt (v : Nat) : ∀ b ∈ emitLengthBytes v, b < 256 := by
  intro b hb
  unfold emitLengthBytes at hb
  simp only [List.mem_append, List.mem_cons, List.not_mem_nil, or_false] at hb
  rcases hb with hb | hb
  · split at hb
    · simp only [List.mem_append, List.mem_cons, List.not_mem_nil, or_false] at hb
      rcases hb with hb | hb
      · split at hb
        · simp only [List.mem_append, List.mem_cons, List.not_mem_nil, or_false] at hb
          rcases hb with hb | hb
          · split at hb
            · simp only [List.mem_cons, List.not_mem_nil, or_false] at hb; omega
            · cases hb
          · omega
        · cases hb
      · omega
    · cases hb
  · omega

theorem lenBytesOf_lt (litLen ml : Nat) : ∀ b ∈ lenBytesOf litLen ml, b < 256 := by
  intro b hb
  unfold lenBytesOf at hb
  rw [List.mem_append] at hb
  rcases hb with hb | hb
  · split at hb
    · exact emitLengthBytes_lt _ b hb
    · cases hb
  · split at hb
    · exact emitLengthBytes_lt _ b hb
    · cases hb

theorem tokOf_lt (litLen ml : Nat) : tokOf litLen ml < 256 := by unfold tokOf; omega

/-- all four side buffers hold bytes -/
structure BufB (s : F1) : Prop where
  lit : AllB s.lit
  len : AllB s.len
  mix : AllB s.mix
  tk : AllB s.tk

theorem emitSeq_bufB {a : Array Nat} (ha : ∀ k, a.getD k 0 < 256) {cp : Caps} {first i mi ml : Nat} {s s' : F1}
    (h : emitSeq a cp first i mi ml s = .ok s') (hfi : first ≤ i) (hb : BufB s) : BufB s' := by
  obtain ⟨_, e1, e2, e3, e4⟩ := emitSeq_spec h hfi
  refine ⟨by rw [e4]; exact allB_appendA hb.lit (allB_extract ha _ _),
    by rw [e3]; exact allB_appendL hb.len (lenBytesOf_lt _ _),
    by rw [e2]; exact allB_appendL hb.mix (fun b hb' => by simp only [List.mem_cons, List.not_mem_nil, or_false] at hb'; omega),
    by rw [e1]; exact allB_appendL hb.tk (fun b hb' => by
      simp only [List.mem_cons, List.not_mem_nil, or_false] at hb'; rw [hb']; exact tokOf_lt _ _)⟩

theorem fwd1Loop_bufB {a : Array Nat} (ha : ∀ k, a.getD k 0 < 256) {cp : Caps} {base lim mm delta lpc : Nat} :
    ∀ (f : Nat) (l lfin : L1), fwd1Loop a cp base lim mm delta lpc f l = .ok lfin → l.first ≤ l.i → BufB l.st →
    BufB lfin.st := by
  intro f
  induction f with
  | zero => intro l lfin h; simp [fwd1Loop] at h
  | succ f ih =>
    intro l lfin h hfi hb
    simp only [fwd1Loop] at h
    split at h
    · split at h
      · rename_i l' hl'
        obtain ⟨key, w, _, _, hc⟩ := fwd1Step_cases hl'
        rcases hc with ⟨_, hl'eq⟩ | ⟨mi, ml, key1, w1, r1, s', hfm, _, _, hr1, hs', hl'eq⟩
        · exact ih l' lfin h (by rw [hl'eq]; simp only; omega) (by rw [hl'eq]; exact ⟨hb.lit, hb.len, hb.mix, hb.tk⟩)
        · obtain ⟨p, mi', ml', tabS, keyP, wP, hp, _, hcase⟩ := match_pick hfm hr1
          rw [hp] at hs' hl'eq
          simp only at hs' hl'eq
          have hfp : l.first ≤ p := by rcases hcase with ⟨h1, _⟩ | ⟨h1, _⟩ <;> omega
          exact ih l' lfin h (by rw [hl'eq]) (by rw [hl'eq]; exact emitSeq_bufB ha hs' hfp ⟨hb.lit, hb.len, hb.mix, hb.tk⟩)
      · cases h
      · cases h
    · injection h with h
      subst h
      exact hb

theorem fwd1Tail_bufB {a : Array Nat} (ha : ∀ k, a.getD k 0 < 256) {cp : Caps} {first lim : Nat} {s s' : F1}
    (h : fwd1Tail a cp first lim s = .ok s') (hfl : first ≤ lim) (hb : BufB s) : BufB s' := by
  obtain ⟨_, e1, e2, e3, e4⟩ := fwd1Tail_spec h hfl
  refine ⟨by rw [e4]; exact allB_appendA hb.lit (allB_extract ha _ _),
    by rw [e3]; exact allB_appendL hb.len (lenBytesOf_lt _ _), by rw [e1]; exact hb.mix, ?_⟩
  rw [e2]
  split
  · exact allB_appendL hb.tk (fun b hb' => by
      simp only [List.mem_cons, List.not_mem_nil, or_false] at hb'; rw [hb']; exact tokOf_lt _ _)
  · exact hb.tk

/-! ## one chunk -/

theorem fwd1Loop_exit {a : Array Nat} {cp : Caps} {base lim mm delta lpc f : Nat} {l lfin : L1}
    (h : fwd1Loop a cp base lim mm delta lpc (f + 1) l = .ok lfin) (hil : ¬ l.i < lim) : lfin = l := by
  simp only [fwd1Loop] at h
  rw [if_neg hil] at h
  injection h with h
  exact h.symm

/-- the decoder's allocations: `litBuf`, `mLenBuf`, `mIdxBuf` / `tkBuf` for the first chunk size `zD` -/
structure SdSize (sd : Side) (zD : Nat) : Prop where
  lit : sd.lit.size = zD
  len : sd.len.size = zD / 5
  mix : sd.mix.size = zD / 4
  tk : sd.tk.size = zD / 4

/-- **one chunk of Inverse**: the bytes the encoder produced for the chunk `[st, e)` (followed by anything) make one
    iteration of the chunk loop of Inverse restore `a[st, e)` and advance by exactly these bytes -/
theorem chunk1_step {a Sarr : Array Nat} {sz0E zD srcEnd mm delta lpc litOrder st e szD dI srcIdx fD : Nat}
    (hpar : ParamsOk mm delta) (hmm : 3 ≤ mm ∧ mm ≤ 7) (hlpc : lpc ≤ 8) (ha : ∀ k, a.getD k 0 < 256)
    (hst : st < e) (hes : e ≤ srcEnd) (hchunk : e - st ≤ 2 ^ 24) (hea : srcEnd + 4 ≤ a.size) (he8 : 8 ≤ e - st ∨ e = srcEnd)
    (hszD : (if st + szD > srcEnd then srcEnd else st + szD) = e)
    (hcapE : e - st ≤ sz0E) (hz : sz0E ≤ zD) (hz64 : 64 ≤ zD) (hzmax : zD ≤ 2 ^ 24)
    {cnt : Array Nat} (hcnt : cnt.size = HASH_SIZE) {lit0 : Array Nat}
    (hlit0 : pushLits #[] (capsOf sz0E).lit a st (st + min (srcEnd - st) 8) = some lit0)
    {lfin : L1} {sfin : F1} {bits : Bits}
    (hloop : fwd1Loop a (capsOf sz0E) st e mm delta lpc (e - st + 1)
      ⟨st + min (srcEnd - st) 8, st + min (srcEnd - st) 8, 0, ⟨⟨matches0 lpc, cnt⟩, lit0, #[], #[], #[]⟩⟩ = .ok lfin)
    (htail : fwd1Tail a (capsOf sz0E) lfin.first e lfin.st = .ok sfin)
    (hbits : chunkBits litOrder sfin.lit.toList sfin.tk.toList sfin.len.toList sfin.mix.toList = some bits)
    {T : List Nat} (hsrc : (Sarr.extract srcIdx Sarr.size).toList = (packFast bits).toList ++ T)
    {sd : Side} {tabD : Tab} {dst : Array Nat} (hsd : SdSize sd zD) (htab : TabOk tabD lpc)
    (hag : ∀ k, k < st → dst.getD k 0 = a.getD k 0) (hdst : srcEnd ≤ dst.size) :
    ∃ sd1 tab1 dst1, inv1Chunks Sarr srcEnd mm delta lpc litOrder 8 false (fD + 1) st szD dI srcIdx sd tabD dst
        = inv1Chunks Sarr srcEnd mm delta lpc litOrder 8 false fD e (e - st) (e - st) (srcIdx + (packFast bits).size)
            sd1 tab1 dst1 ∧
      SdSize sd1 zD ∧ TabOk tab1 lpc ∧ dst1.size = dst.size ∧ ∀ k, k < e → dst1.getD k 0 = a.getD k 0 := by
  have hcap : CapOk (capsOf sz0E) st e := capsOf_ok hcapE
  have hlimA : e + 4 ≤ a.size := by omega
  have hdend : e - st ≤ srcEnd := by omega
  have hdst8 : e ≤ dst.size := by omega
  have hn8 : min (srcEnd - st) 8 = min (e - st) 8 := by rcases he8 with h | h <;> omega
  rw [hn8] at hlit0 hloop
  obtain ⟨elit0, _⟩ := pushLits_eq hlit0
  have hlit0sz : lit0.size = min (e - st) 8 := by
    rw [elit0, Array.size_append, Array.size_extract]; simp only [Array.size_empty]; omega
  -- facts about the cleared tables, then hide their size
  have hT1 : TabOk ⟨matches0 lpc, cnt⟩ lpc := tabOk_clear _ _ hcnt
  have hT2 : TabOk ⟨matches0 lpc, tabD.counters⟩ lpc := tabOk_clear _ _ htab.cnt
  have hR0 : RingEq ⟨matches0 lpc, cnt⟩ ⟨matches0 lpc, tabD.counters⟩ lpc := ringEq_clear _ _ _
  have hE0 : EntLt ⟨matches0 lpc, cnt⟩ 8 := entLt_clear _ _ _ (by omega)
  have hZ0 : ∀ k, (matches0 lpc).getD k 0 = 0 := by
    intro k
    simp only [matches0, Array.getD_eq_getD_getElem?, Array.getElem?_replicate]
    split <;> simp
  have htab0 : (⟨Array.replicate tabD.mts.size 0, tabD.counters⟩ : Tab) = ⟨matches0 lpc, tabD.counters⟩ := by
    rw [htab.mts]; rfl
  generalize matches0 lpc = M0 at hT1 hT2 hR0 hE0 hZ0 htab0 hloop
  -- the encoder side: invariants at the end of the chunk
  have hl0 : LInv ⟨st + min (e - st) 8, st + min (e - st) 8, 0, ⟨⟨M0, cnt⟩, lit0, #[], #[], #[]⟩⟩
      (capsOf sz0E) lpc st e := by
    refine ⟨⟨⟨hT1, fun k => ?_⟩, by simp only; omega, by simp, Or.inl (by simp)⟩, by simp only; omega,
      Nat.le_refl _, by simp only; omega⟩
    simp only
    rw [hZ0 k]; omega
  have hbi0 : st + 8 ≤ st + min (e - st) 8 ∨ e ≤ st + min (e - st) 8 := by omega
  obtain ⟨g0, hlfin, _⟩ := fwd1Loop_grow hpar hmm hcap (by omega) _ _ _ hloop hbi0 hl0
  obtain ⟨htm, hnotok⟩ := fwd1Loop_tk _ _ _ hloop (Nat.le_refl _) rfl
  have hb0 : BufB (⟨⟨M0, cnt⟩, lit0, #[], #[], #[]⟩ : F1) :=
    ⟨by rw [elit0]; exact allB_appendA allB_empty (allB_extract ha _ _), allB_empty, allB_empty, allB_empty⟩
  have hbfin := fwd1Tail_bufB ha htail hlfin.fl (fwd1Loop_bufB ha _ _ _ hloop (Nat.le_refl _) hb0)
  obtain ⟨t0, t1, t2, t3, t4⟩ := fwd1Tail_spec htail hlfin.fl
  have gtail := fwd1Tail_grow htail hlfin.fl
  have hfb := hlfin.b
  have hfl := hlfin.fl
  have hfbf := hlfin.bf
  have hl2 := emitLengthBytes_len (e - lfin.first - 31)
  have hlb : 10 * (lenBytesOf (e - lfin.first) 0).length ≤ e - lfin.first := by
    unfold lenBytesOf
    rw [if_neg (by omega : ¬ (0 : Nat) ≥ 7), List.nil_append]
    split
    · omega
    · simp
  -- sizes of the final buffers
  have hsl : sfin.lit.size ≤ e - st ∧ min (e - st) 8 ≤ sfin.lit.size := by
    have h1 := hfb.lit
    have h2 := (grow_trans g0 gtail).lit.1
    simp only at h2
    constructor
    · rw [t4, Array.size_append, Array.size_extract]; omega
    · omega
  have hsn : 10 * sfin.len.size ≤ e - st := by
    have h1 := hfb.len
    rw [t3, size_appendL]; omega
  have hst1 : sfin.tk.size ≤ (capsOf sz0E).tk ∧ sfin.mix.size ≤ (capsOf sz0E).tk ∧
      ((sfin.tk.size = 0 ∧ sfin.mix.size = 0 ∧ lfin.st.tk.size = 0) ∨
       (sfin.tk.size = sfin.mix.size + 1 ∧ lfin.st.tk.size ≠ 0)) := by
    have h1 := hfb.tk
    rw [t1, t2]
    by_cases h0 : lfin.st.tk.size ≠ 0
    · rw [if_pos h0, size_appendL]
      simp only [List.length_cons, List.length_nil]
      exact ⟨by omega, by omega, Or.inr ⟨by omega, h0⟩⟩
    · rw [if_neg h0]
      exact ⟨by omega, by omega, Or.inl ⟨by omega, by omega, by omega⟩⟩
  have hct : (capsOf sz0E).tk ≤ zD / 4 ∧ (capsOf sz0E).len ≤ zD / 5 := by
    show sz0E / 4 ≤ zD / 4 ∧ sz0E / 5 ≤ zD / 5
    omega
  have hcl := hcap.len
  -- the bitstream
  obtain ⟨r0, r1, r2, r3, r4, b2, b3, b4, hh, hd1, hd2, hd3, hd4, hadv⟩ := chunk_transport hbits (allB_mem hbfin.lit)
    (allB_mem hbfin.tk) (allB_mem hbfin.len) (allB_mem hbfin.mix) (by rw [Array.length_toList]; omega)
    (by rw [Array.length_toList]; omega) (by rw [Array.length_toList]; omega) (by rw [Array.length_toList]; omega) T
  simp only [Array.length_toList] at hh hd1 hd2 hd3 hd4
  simp only [inv1Chunks]
  rw [if_pos (by omega : st < srcEnd), hszD, hsrc, hh]
  simp only
  rw [if_neg (by rw [hsd.lit, hsd.tk, hsd.len, hsd.mix]; omega), if_neg (by omega),
    if_neg (by rcases hst1.2.2 with h | h <;> omega)]
  rw [hd1]
  simp only
  rw [hd2]
  simp only
  rw [hd3]
  simp only
  rw [hd4]
  simp only
  rw [hadv]
  -- the side buffers the decoder holds now
  have hsd1 : SdSize ⟨blit sd.lit sfin.lit.toList, blit sd.len sfin.len.toList, blit sd.mix sfin.mix.toList,
      blit sd.tk sfin.tk.toList⟩ zD :=
    ⟨by rw [(blit_spec _ _ (by rw [Array.length_toList, hsd.lit]; omega)).1]; exact hsd.lit,
     by rw [(blit_spec _ _ (by rw [Array.length_toList, hsd.len]; omega)).1]; exact hsd.len,
     by rw [(blit_spec _ _ (by rw [Array.length_toList, hsd.mix]; omega)).1]; exact hsd.mix,
     by rw [(blit_spec _ _ (by rw [Array.length_toList, hsd.tk]; omega)).1]; exact hsd.tk⟩
  have hside : SideOk sfin ⟨blit sd.lit sfin.lit.toList, blit sd.len sfin.len.toList, blit sd.mix sfin.mix.toList,
      blit sd.tk sfin.tk.toList⟩ st e :=
    ⟨pre_blit _ _ (by rw [hsd.lit]; omega), pre_blit _ _ (by rw [hsd.len]; omega), pre_blit _ _ (by rw [hsd.mix]; omega),
     pre_blit _ _ (by rw [hsd.tk]; omega), by rw [hsd1.lit]; omega, fun x hx => by rw [hsd1.len]; omega⟩
  rw [htab0]
  have hsdlit : ∀ k, k < sfin.lit.size → (blit sd.lit sfin.lit.toList).getD k 0 = sfin.lit.getD k 0 := hside.lit.2
  have hlit0v : ∀ k, k < min (e - st) 8 → sfin.lit.getD k 0 = a.getD (st + k) 0 := by
    intro k hk
    rw [(grow_trans g0 gtail).lit.2 k (by simp only; omega)]
    simp only
    rw [elit0, getD_appendA, if_neg (by simp), ← toList_getD]
    simp only [Array.size_empty, Nat.sub_zero]
    exact extract_getD a st (st + min (e - st) 8) k (by omega) (by omega)
  rcases hst1.2.2 with ⟨hk0, _, hlk0⟩ | ⟨hk1, hlk1⟩
  · -- no token: the chunk is all literals
    obtain ⟨hf0, hl0', _⟩ := hnotok hlk0
    simp only at hf0 hl0'
    have hlitall : sfin.lit.size = e - st := by
      rw [t4, Array.size_append, Array.size_extract, hl0', hlit0sz, hf0]; omega
    rw [if_pos hk0, if_neg (by omega)]
    obtain ⟨c1, c2⟩ := copyFrom_spec (blit sd.lit sfin.lit.toList) e (e - st) dst st 0 (by omega) (by omega)
    refine ⟨_, _, _, rfl, hsd1, hT2, c1, fun k hk => ?_⟩
    rw [c2 k]
    by_cases hks : st ≤ k ∧ k < st + (e - st)
    · rw [if_pos hks, Nat.zero_add, hsdlit _ (by omega)]
      by_cases hk8 : k - st < min (e - st) 8
      · rw [hlit0v _ hk8]; congr 1; omega
      · rw [t4, hl0', getD_appendA, if_neg (by omega), hlit0sz, hf0, ← toList_getD,
          extract_getD a _ e _ (by omega) (by omega)]
        congr 1; omega
    · rw [if_neg hks]; exact hag k (by omega)
  · -- tokens: first literals, then the loop
    have hsz8 : 8 ≤ e - st := by
      by_cases h : 8 ≤ e - st
      · exact h
      · exfalso
        have hm : min (e - st) 8 = e - st := by omega
        rw [hm] at hloop
        have := fwd1Loop_exit hloop (by simp only; omega)
        rw [this] at hlk1
        exact hlk1 rfl
    have hm8 : min (e - st) 8 = 8 := by omega
    rw [hm8] at hloop hl0 hlit0v hlit0sz
    rw [if_neg (by omega), if_neg (by rw [hsd1.lit]; omega)]
    obtain ⟨c1, c2⟩ := copyFrom_spec (blit sd.lit sfin.lit.toList) e 8 dst st 0 (by omega) (by omega)
    have hag8 : ∀ k, k < st + 8 → (copyFrom dst e st (blit sd.lit sfin.lit.toList) 0 8).getD k 0 = a.getD k 0 := by
      intro k hk
      rw [c2 k]
      by_cases hks : st ≤ k ∧ k < st + 8
      · rw [if_pos hks, Nat.zero_add, hsdlit _ (by omega), hlit0v _ (by omega)]; congr 1; omega
      · rw [if_neg hks]; exact hag k (by omega)
    have hmid : Mid a lpc st e mm delta ⟨st + 8, st + 8, 0, ⟨⟨M0, cnt⟩, lit0, #[], #[], #[]⟩⟩
        ⟨st + 8, 8, 0, 0, 0, ⟨⟨M0, tabD.counters⟩, copyFrom dst e st (blit sd.lit sfin.lit.toList) 0 8⟩⟩
        ⟨M0, tabD.counters⟩ :=
      ⟨rfl, by simp only; rw [hlit0sz], rfl, rfl, rfl, hag8, hT1, hT2, hT2, hR0,
        by simp only; rw [show st + 8 - st = 8 by omega]; exact hE0, cont_start rfl rfl _,
        fun _ => rfl, by simp only; omega⟩
    obtain ⟨jfin, hjl, q1, q2, q3, q4⟩ := loop1_sim (sd := ⟨blit sd.lit sfin.lit.toList, blit sd.len sfin.len.toList,
        blit sd.mix sfin.mix.toList, blit sd.tk sfin.tk.toList⟩) (dstEnd := srcEnd) hpar hmm hlpc ha hchunk hlimA
      hdend hcap (e - st + 1) ⟨st + 8, st + 8, 0, ⟨⟨M0, cnt⟩, lit0, #[], #[], #[]⟩⟩ lfin hloop
      (Or.inl (Nat.le_refl _)) hl0 (Nat.le_refl _) sfin htail (by omega) hside
      ⟨st + 8, 8, 0, 0, 0, ⟨⟨M0, tabD.counters⟩, copyFrom dst e st (blit sd.lit sfin.lit.toList) 0 8⟩⟩
      ⟨M0, tabD.counters⟩ (e - st + 1) hmid (by rw [c1]; exact hdst8) (by show e - (st + 8) + 1 ≤ e - st + 1; omega)
    rw [hjl]
    simp only
    refine ⟨_, _, _, by rw [q1], hsd1, q4, by rw [q2, c1], q3⟩

/-! ## the chunk loop -/

theorem extract_tail_toList (S : Array Nat) (i : Nat) : (S.extract i S.size).toList = S.toList.drop i := by
  simp only [Array.toList_extract, List.extract]
  rw [List.take_of_length_le]
  rw [List.length_drop, Array.length_toList]

theorem pre_toList {x S : Array Nat} (h : Pre x S) : S.toList = x.toList ++ S.toList.drop x.size := by
  apply List.ext_getElem?
  intro k
  by_cases hk : k < x.size
  · rw [List.getElem?_append_left (by rw [Array.length_toList]; exact hk), Array.getElem?_toList, Array.getElem?_toList]
    have h2 := h.2 k hk
    have h1 := h.1
    rw [Array.getD_eq_getD_getElem?, Array.getD_eq_getD_getElem?, Array.getElem?_eq_getElem hk,
      Array.getElem?_eq_getElem (by omega)] at h2
    simp only [Option.getD_some] at h2
    rw [Array.getElem?_eq_getElem hk, Array.getElem?_eq_getElem (by omega), h2]
  · rw [List.getElem?_append_right (by rw [Array.length_toList]; omega), List.getElem?_drop, Array.length_toList]
    congr 1; omega

/-- the bytes the decoder sees at `x.size` when the encoder's output `x ++ y` is a prefix of the final one -/
theorem extract_of_pre {x y S : Array Nat} (h : Pre (x ++ y) S) :
    (S.extract x.size S.size).toList = y.toList ++ (S.extract (x.size + y.size) S.size).toList := by
  rw [extract_tail_toList, extract_tail_toList]
  have h1 := pre_toList h
  rw [Array.size_append] at h1
  conv => lhs; rw [h1]
  rw [Array.toList_append, List.append_assoc, List.drop_left' (by rw [Array.length_toList])]

theorem fwd1Chunks_pre {a : Array Nat} {cp : Caps} {dstLen srcEnd mm delta lpc litOrder : Nat} :
    ∀ (f st sz : Nat) (tab : Tab) (out : Array Nat) (r : Nat × Nat × Tab × Array Nat),
    fwd1Chunks a cp dstLen srcEnd mm delta lpc litOrder f st sz tab out = .ok r → Pre out r.2.2.2 := by
  intro f
  induction f with
  | zero => intro st sz tab out r h; simp [fwd1Chunks] at h
  | succ f ih =>
    intro st sz tab out r h
    simp only [fwd1Chunks] at h
    split at h
    · split at h
      · cases h
      · split at h
        · split at h
          · split at h
            · cases h
            · split at h
              · cases h
              · exact pre_trans (pre_appendA _ _) (ih _ _ _ _ _ h)
          · cases h
          · cases h
        · cases h
        · cases h
    · injection h with h
      subst h
      exact pre_refl _

end Kanzi.ROLZ
