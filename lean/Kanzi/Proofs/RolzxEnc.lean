/-
ROLZX (`rolzCodec2`), encoder only: every piece of Forward preserves the coder invariants (`EncOk`) and lets the
consistency with the complete output (`Good S`) flow BACKWARDS from the final state to every intermediate one.
-/
import Kanzi.Proofs.RolzxStep

namespace Kanzi.ROLZ

/-- every byte written so far is a byte -/
def OutBytes (e : Enc) : Prop := ∀ k, e.out.getD k 0 < 256

theorem push32_bytes {out : Array Nat} (h : ∀ k, out.getD k 0 < 256) (w : Nat) : ∀ k, (push32 out w).getD k 0 < 256 := by
  intro k
  by_cases h0 : k < out.size
  · rw [push32_getD_lt _ _ _ h0]; exact h k
  · by_cases h1 : k = out.size
    · subst h1; rw [push32_getD_0]; exact Nat.mod_lt _ (by decide)
    · by_cases h2 : k = out.size + 1
      · subst h2; rw [push32_getD_1]; exact Nat.mod_lt _ (by decide)
      · by_cases h3 : k = out.size + 2
        · subst h3; rw [push32_getD_2]; exact Nat.mod_lt _ (by decide)
        · by_cases h4 : k = out.size + 3
          · subst h4; rw [push32_getD_3]; exact Nat.mod_lt _ (by decide)
          · have : (push32 out w).size ≤ k := by rw [push32_size]; omega
            rw [Array.getD_eq_getD_getElem?, Array.getElem?_eq_none this]
            decide

theorem encodeBit_bytes {dstLen : Nat} {e e' : Enc} (hi : EInv e) {p : Nat} (hp : p < 65536) {bit : Bool}
    (h : e.encodeBit dstLen p bit = .ok e') (hb : OutBytes e) : OutBytes e' := by
  rw [encodeBit_eq dstLen hi hp bit] at h
  split at h
  · split at h
    · injection h with h
      subst h
      exact push32_bytes hb _
    · cases h
  · injection h with h
    subst h
    exact hb

theorem encBits_bytes {dstLen ctx val : Nat} : ∀ (n c1 : Nat) (e : Enc) (t : Array Nat) (e' : Enc) (t' : Array Nat),
    EInv e → ProbOk t → encBits dstLen ctx val n c1 e t = .ok (e', t') → OutBytes e → OutBytes e' := by
  intro n
  induction n with
  | zero =>
    intro c1 e t e' t' _ _ h hb
    simp only [encBits] at h
    injection h with h
    injection h with h1 h2
    subst h1
    exact hb
  | succ n ih =>
    intro c1 e t e' t' hi ht h hb
    simp only [encBits] at h
    split at h
    · rename_i e1 he1
      have hp := ht (ctx + c1)
      exact ih _ e1 _ e' t' (encodeBit_einv hi hp he1) (probOk_set ht _ _ (probUp_lt _ hp)) h
        (encodeBit_bytes hi hp he1 hb)
    · cases h
    · cases h

/-- the invariants of the encoder state -/
structure EncOk (s : FSt) : Prop where
  einv : EInv s.enc
  plok : ProbOk s.pl
  pmok : ProbOk s.pm
  bytes : OutBytes s.enc

theorem encLit9_enc {dstLen c val : Nat} {S : List Nat} (hS : Bytes S) {s s' : FSt} (h : encLit9 dstLen c val s = .ok s')
    (ho : EncOk s) : EncOk s' ∧ (Good S s'.enc → Good S s.enc) ∧ s'.tab = s.tab ∧
      s.enc.out.size ≤ s'.enc.out.size ∧ s'.enc.out.size ≤ s.enc.out.size + 36 := by
  obtain ⟨he, ht, hpm⟩ := encLit9_ok h
  obtain ⟨i1, p1, z1, z2, _⟩ := encBits_inv 9 1 _ _ _ _ ho.einv ho.plok he
  exact ⟨⟨i1, p1, by rw [hpm]; exact ho.pmok, encBits_bytes 9 1 _ _ _ _ ho.einv ho.plok he ho.bytes⟩,
    encBits_back hS 9 1 _ _ _ _ ho.einv ho.plok he, ht, z1, by omega⟩

theorem fwdStep_enc {S : List Nat} (hS : Bytes S) {a : Array Nat} {dstLen base lim mm delta lpc i i' : Nat} {s s' : FSt}
    (h : fwdStep a dstLen base lim mm delta lpc i s = .ok (i', s')) (ho : EncOk s) :
    EncOk s' ∧ (Good S s'.enc → Good S s.enc) := by
  unfold fwdStep at h
  dsimp only at h
  split at h
  · cases h
  · split at h
    · split at h
      · rename_i t hfm
        split at h
        · split at h
          · rename_i s1 hs1
            injection h with h
            injection h with h1 h2
            subst h1; subst h2
            obtain ⟨o1, b1, _⟩ := encLit9_enc hS hs1 ⟨ho.einv, ho.plok, ho.pmok, ho.bytes⟩
            exact ⟨o1, b1⟩
          · cases h
          · cases h
        · cases h
      · rename_i mi ml t hfm
        split at h
        · rename_i s1 hs1
          split at h
          · rename_i r hr
            injection h with h
            injection h with h1 h2
            subst h1; subst h2
            obtain ⟨o1, b1, _⟩ := encLit9_enc hS hs1 ⟨ho.einv, ho.plok, ho.pmok, ho.bytes⟩
            have hr' : encBits dstLen (_ <<< lpc) mi lpc 1 s1.enc s1.pm = .ok (r.1, r.2) := hr
            obtain ⟨i2, p2, _, _, _⟩ := encBits_inv lpc 1 _ _ _ _ o1.einv o1.pmok hr'
            refine ⟨⟨i2, o1.plok, p2, encBits_bytes lpc 1 _ _ _ _ o1.einv o1.pmok hr' o1.bytes⟩, fun hg => ?_⟩
            exact b1 (encBits_back hS lpc 1 _ _ _ _ o1.einv o1.pmok hr' hg)
          · cases h
          · cases h
        · cases h
        · cases h
      · cases h
      · cases h
    · cases h

theorem fwdLoop_enc {S : List Nat} (hS : Bytes S) {a : Array Nat} {dstLen base lim mm delta lpc : Nat} :
    ∀ (f i : Nat) (s : FSt) (r : Nat × FSt), fwdLoop a dstLen base lim mm delta lpc f i s = .ok r → EncOk s →
    EncOk r.2 ∧ (Good S r.2.enc → Good S s.enc) := by
  intro f
  induction f with
  | zero => intro i s r h; simp [fwdLoop] at h
  | succ f ih =>
    intro i s r h ho
    simp only [fwdLoop] at h
    split at h
    · split at h
      · rename_i r1 hr1
        obtain ⟨o1, b1⟩ := fwdStep_enc hS (i' := r1.1) (s' := r1.2) hr1 ho
        obtain ⟨o2, b2⟩ := ih _ _ _ h o1
        exact ⟨o2, fun hg => b1 (b2 hg)⟩
      · cases h
      · cases h
    · injection h with h
      subst h
      exact ⟨ho, id⟩

theorem fwdFirst_enc {S : List Nat} (hS : Bytes S) {a : Array Nat} {dstLen lim : Nat} :
    ∀ (k i : Nat) (s s' : FSt), fwdFirst a dstLen lim k i s = .ok s' → EncOk s →
    EncOk s' ∧ (Good S s'.enc → Good S s.enc) ∧ s'.tab = s.tab := by
  intro k
  induction k with
  | zero =>
    intro i s s' h ho
    simp only [fwdFirst] at h
    injection h with h
    subst h
    exact ⟨ho, id, rfl⟩
  | succ k ih =>
    intro i s s' h ho
    simp only [fwdFirst] at h
    split at h
    · cases h
    · split at h
      · rename_i s1 hs1
        obtain ⟨o1, b1, t1, _⟩ := encLit9_enc hS hs1 ho
        obtain ⟨o2, b2, t2⟩ := ih _ _ _ h o1
        exact ⟨o2, fun hg => b1 (b2 hg), by rw [t2, t1]⟩
      · cases h
      · cases h

theorem fwdLast_enc {S : List Nat} (hS : Bytes S) {a : Array Nat} {dstLen : Nat} :
    ∀ (k i : Nat) (s s' : FSt), fwdLast a dstLen k i s = .ok s' → EncOk s →
    EncOk s' ∧ (Good S s'.enc → Good S s.enc) := by
  intro k
  induction k with
  | zero =>
    intro i s s' h ho
    simp only [fwdLast] at h
    injection h with h
    subst h
    exact ⟨ho, id⟩
  | succ k ih =>
    intro i s s' h ho
    simp only [fwdLast] at h
    split at h
    · cases h
    · split at h
      · split at h
        · rename_i s1 hs1
          obtain ⟨o1, b1, _⟩ := encLit9_enc hS hs1 ho
          obtain ⟨o2, b2⟩ := ih _ _ _ h o1
          exact ⟨o2, fun hg => b1 (b2 hg)⟩
        · cases h
        · cases h
      · cases h

theorem fwdChunks_enc {S : List Nat} (hS : Bytes S) {a : Array Nat} {dstLen srcEnd mm delta lpc : Nat} :
    ∀ (f startChunk sizeChunk srcIdx : Nat) (s : FSt) (r : Nat × Nat × Nat × FSt),
    fwdChunks a dstLen srcEnd mm delta lpc f startChunk sizeChunk srcIdx s = .ok r → EncOk s →
    EncOk r.2.2.2 ∧ (Good S r.2.2.2.enc → Good S s.enc) := by
  intro f
  induction f with
  | zero => intro st sz si s r h; simp [fwdChunks] at h
  | succ f ih =>
    intro st sz si s r h ho
    simp only [fwdChunks] at h
    split at h
    · split at h
      · rename_i s1 hs1
        split at h
        · rename_i r1 hr1
          have ho0 : EncOk ⟨⟨matches0 lpc, s.tab.counters⟩, s.enc, probs0 9, probs0 lpc⟩ :=
            ⟨ho.einv, probs0_ok 9, probs0_ok lpc, ho.bytes⟩
          obtain ⟨o1, b1, _⟩ := fwdFirst_enc hS _ _ _ _ hs1 ho0
          obtain ⟨o2, b2⟩ := fwdLoop_enc hS _ _ _ _ hr1 o1
          obtain ⟨o3, b3⟩ := ih _ _ _ _ _ h o2
          exact ⟨o3, fun hg => b1 (b2 (b3 hg))⟩
        · cases h
        · cases h
      · cases h
      · cases h
    · injection h with h
      subst h
      exact ⟨ho, id⟩

end Kanzi.ROLZ
