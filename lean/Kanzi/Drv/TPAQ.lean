/-
Line-protocol driver of the `tpaqpred` correspondence stream (see harness/cmd/kv/tpaqpred.go).
Core Lean only.

    tp <ctor> <kind> <nbits> <hex>

`<ctor>`   how `NewTPAQPredictor` is called: `nil` (nil context) or four comma separated fields
           `e=<string>|-|!`  ctx["entropy"]   = the string / key absent / a value of another type
           `b=<N>|-|!`       ctx["blockSize"] = uint(N) / absent / another type
           `s=<N>|-|!`       ctx["size"]      = uint(N) / absent / another type
           `v=<N>|-|!`       ctx["bsVersion"] = uint(N) / absent / another type
`<kind>`   `d`  bit i = data bit i
           `l`  bit i = (the LESS likely bit according to the Get() just returned) xor data bit i
           `m`  bit i = (the MORE likely bit) xor data bit i        (likely bit = 1 iff Get() >= 2048)
`<hex>`    data bytes, bits MSB first, `-` = empty; data bits beyond the end are 0.
For i in 0..nbits-1:  p_i = Get(); Update(bit_i).

    -> ok n=<nbits> ones=<number of 1 bits fed> h=<FNV-1a style hash of p_0..p_{n-1}> min=<> max=<> first=<p_0,..,p_7> last=<last 8>
     | err entropy | err blockSize | err size | err bsVersion     (NewTPAQPredictor returned its error)
     | fault <i>                 (index out of range inside Update at step i: Go panics)

    tables                 -> tables squash=<h> stretch=<h> t0=<h> t1=<h> smap=<h> mpred=<h>
    apm <n> <rate> <hex>   -> ok k=<calls> h=<hash of the returned values> first=<..> last=<..> | fault <i>
           one LogisticAdaptiveProbMap(n, rate); call i uses 4 data bytes: bit = b0 >> 7,
           pr = (b0 & 15) << 8 | b1, ctx = (b2 << 8 | b3) mod max(n, 1)
    apmfresh <rate> <bit>  -> ok h=<hash of Get(bit, pr, 0) on a FRESH map (n = 1) for pr = 0..4095>
-/
import Kanzi.Model.TPAQ

namespace Kanzi.Drv
open Kanzi.TPAQ

namespace TPAQDrv

def hexVal (c : Char) : Option Nat :=
  if '0' ≤ c ∧ c ≤ '9' then some (c.toNat - '0'.toNat)
  else if 'a' ≤ c ∧ c ≤ 'f' then some (c.toNat - 'a'.toNat + 10)
  else if 'A' ≤ c ∧ c ≤ 'F' then some (c.toNat - 'A'.toNat + 10)
  else none

def unhexGo : List Char → ByteArray → Option ByteArray
  | [], acc => some acc
  | [_], _ => none
  | a :: b :: rest, acc =>
    match hexVal a, hexVal b with
    | some x, some y => unhexGo rest (acc.push (UInt8.ofNat (16 * x + y)))
    | _, _ => none

def unhex (s : String) : Option ByteArray :=
  if s = "-" then some ByteArray.empty else unhexGo s.toList ByteArray.empty

def byteAt (d : ByteArray) (i : Nat) : Nat := if h : i < d.size then (d[i]'h).toNat else 0

def dataBit (d : ByteArray) (i : Nat) : Bool :=
  ((byteAt d (i / 8)) >>> (7 - i % 8)) % 2 = 1

def parseU (s : String) : Option UArg :=
  if s = "-" then some .absent
  else if s = "!" then some .other
  else s.toNat?.map UArg.uint

def parseS (s : String) : Option SArg :=
  if s = "-" then some .absent
  else if s = "!" then some .other
  else some (.str s)

def dropPrefix (p : String) (s : String) : Option String :=
  if s.startsWith p then some (String.ofList (s.toList.drop p.length)) else none

def parseCtor (s : String) : Option (Option CtxArgs) :=
  if s = "nil" then some none
  else match s.splitOn "," with
    | [e, b, z, v] =>
      match (dropPrefix "e=" e).bind parseS, (dropPrefix "b=" b).bind parseU,
            (dropPrefix "s=" z).bind parseU, (dropPrefix "v=" v).bind parseU with
      | some e, some b, some z, some v => some (some { entropy := e, blockSize := b, size := z, bsVersion := v })
      | _, _, _, _ => none
    | _ => none

def hashStep (h : UInt64) (v : Int) : UInt64 :=
  (h ^^^ UInt64.ofNat ((v + 1) % 18446744073709551616).toNat) * 1099511628211

def hashInts (a : Array Int) : UInt64 := a.foldl hashStep 14695981039346656037

inductive Out where
  | ok (gets : Array Int) (ones : Nat)
  | fault (i : Nat)

/-- `fuel` steps starting at step `i` -/
def run (kind : Char) (d : ByteArray) : Nat → Nat → TPAQ → Array Int → Nat → Out
  | 0, _, _, gets, ones => .ok gets ones
  | fuel + 1, i, s, gets, ones =>
    let p := tpaqGetZ s
    let likely := decide (p ≥ 2048)
    let b := dataBit d i
    let bit := if kind = 'l' then (!likely) != b else if kind = 'm' then likely != b else b
    match tpaqUpdateF s bit with
    | none => .fault i
    | some s2 => run kind d fuel (i + 1) s2 (gets.push p) (if bit then ones + 1 else ones)

def joinInts (l : List Int) : String := ",".intercalate (l.map toString)

def summary (gets : Array Int) : String :=
  let first := (gets.extract 0 8).toList
  let last := (gets.extract (gets.size - 8) gets.size).toList
  s!"first={joinInts first} last={joinInts last}"

def errName : NewErr → String
  | .entropy => "entropy"
  | .blockSize => "blockSize"
  | .size => "size"
  | .bsVersion => "bsVersion"

def apmRun (d : ByteArray) : Nat → Nat → Nat → APM → Array Int → Option (Array Int) × Nat
  | 0, i, _, _, acc => (some acc, i)
  | fuel + 1, i, n, a, acc =>
    let b0 := byteAt d (4 * i)
    let b1 := byteAt d (4 * i + 1)
    let b2 := byteAt d (4 * i + 2)
    let b3 := byteAt d (4 * i + 3)
    let bit := b0 / 128 = 1
    let pr : Int := ((b0 % 16) * 256 + b1 : Nat)
    let ctx : Int := ((b2 * 256 + b3) % (max n 1) : Nat)
    let r := apmGet a bit pr ctx
    if r.2.2 then apmRun d fuel (i + 1) n r.2.1 (acc.push r.1) else (none, i)

end TPAQDrv

open TPAQDrv in
def tpaqpred (line : String) : String :=
  match (line.splitOn " ").filter (· ≠ "") with
  | ["tp", c, k, n, hx] =>
    match parseCtor c, k.toList, n.toNat?, unhex hx with
    | some arg, [kind], some n, some d =>
      if kind ≠ 'd' ∧ kind ≠ 'l' ∧ kind ≠ 'm' then "bad-op" else
      match tpaqNew arg with
      | .error e => s!"err {errName e}"
      | .ok s0 =>
        match run kind d n 0 s0 (Array.mkEmpty n) 0 with
        | .fault i => s!"fault {i}"
        | .ok gets ones =>
          let h := hashInts gets
          let mn := gets.foldl (fun a x => if x < a then x else a) (gets.getD 0 0)
          let mx := gets.foldl (fun a x => if x > a then x else a) (gets.getD 0 0)
          s!"ok n={n} ones={ones} h={h.toNat} min={mn} max={mx} {summary gets}"
    | _, _, _, _ => "bad-op"
  | ["tables"] =>
    let t0 := trans0.map (fun v => (v.toNat : Int))
    let t1 := trans1.map (fun v => (v.toNat : Int))
    let sm := stateMap.map (fun v => v.toInt)
    let mp := matchPred.map (fun v => v.toInt)
    s!"tables squash={(hashInts squashTab).toNat} stretch={(hashInts stretchTab).toNat} t0={(hashInts t0).toNat} t1={(hashInts t1).toNat} smap={(hashInts sm).toNat} mpred={(hashInts mp).toNat}"
  | ["apm", n, rate, hx] =>
    match n.toNat?, rate.toNat?, unhex hx with
    | some n, some rate, some d =>
      let k := d.size / 4
      match apmRun d k 0 n (apmNew n rate) (Array.mkEmpty k) with
      | (none, i) => s!"fault {i}"
      | (some vals, _) => s!"ok k={k} h={(hashInts vals).toNat} {summary vals}"
    | _, _, _ => "bad-op"
  | ["apmfresh", rate, bit] =>
    match rate.toNat?, bit.toNat? with
    | some rate, some bit =>
      let vals := (Array.range 4096).map (fun pr => (apmGet (apmNew 1 rate) (bit = 1) (pr : Nat) 0).1)
      s!"ok h={(hashInts vals).toNat}"
    | _, _ => "bad-op"
  | _ => "bad-op"

end Kanzi.Drv
