/-
Proofs for the small entropy-coding pieces (property C12): helper lemmas and full proofs.
The property theorems are restated in `Kanzi/Properties/C12_small.lean`.
-/
import Kanzi.Model.EntSmall

namespace Kanzi.EntSmall
open Kanzi.Bits

/-! ### bit strings -/

theorem natBits_length (v n : Nat) : (natBits v n).length = n := by
  simp [natBits]

theorem natBits_succ (v n : Nat) : natBits v (n + 1) = v.testBit n :: natBits v n := by
  simp only [natBits, List.range_succ_eq_map, List.map_cons, List.map_map]
  congr 1
  apply List.map_congr_left
  intro i _
  simp only [Function.comp]
  congr 1
  omega

theorem natBits_zero (v : Nat) : natBits v 0 = [] := rfl

theorem foldl_bits (bs : Bits) (a : Nat) :
    bs.foldl (fun a b => 2 * a + b.toNat) a = a * 2 ^ bs.length + bitsNat bs := by
  induction bs generalizing a with
  | nil => simp [bitsNat]
  | cons b l ih =>
    simp only [List.foldl_cons, List.length_cons, bitsNat]
    rw [ih, ih (2 * 0 + b.toNat)]
    simp only [Nat.pow_succ, bitsNat]
    rw [Nat.add_mul, Nat.add_assoc]
    congr 1
    · rw [Nat.mul_comm 2 a, Nat.mul_assoc, Nat.mul_comm 2]
    · simp

theorem bitsNat_cons (b : Bool) (l : Bits) : bitsNat (b :: l) = b.toNat * 2 ^ l.length + bitsNat l := by
  have := foldl_bits l (2 * 0 + b.toNat)
  simp only [bitsNat, List.foldl_cons]
  rw [this]
  simp [bitsNat]

theorem bitsNat_nil : bitsNat [] = 0 := rfl

theorem bitsNat_lt (bs : Bits) : bitsNat bs < 2 ^ bs.length := by
  induction bs with
  | nil => simp [bitsNat]
  | cons b l ih =>
    rw [bitsNat_cons, List.length_cons, Nat.pow_succ]
    have : b.toNat ≤ 1 := Bool.toNat_le b
    have h2 : b.toNat * 2 ^ l.length ≤ 1 * 2 ^ l.length := Nat.mul_le_mul_right _ this
    omega

theorem bitsNat_append (a b : Bits) : bitsNat (a ++ b) = bitsNat a * 2 ^ b.length + bitsNat b := by
  simp only [bitsNat, List.foldl_append]
  rw [foldl_bits]
  simp [bitsNat]

theorem mod_two_pow_succ' (v n : Nat) : v % 2 ^ (n + 1) = (v.testBit n).toNat * 2 ^ n + v % 2 ^ n := by
  rw [Nat.toNat_testBit, Nat.pow_succ, Nat.mod_mul, Nat.mul_comm, Nat.add_comm]

theorem bitsNat_natBits (v n : Nat) : bitsNat (natBits v n) = v % 2 ^ n := by
  induction n with
  | zero => simp [natBits_zero, bitsNat_nil, Nat.mod_one]
  | succ n ih => rw [natBits_succ, bitsNat_cons, natBits_length, ih, mod_two_pow_succ']

theorem readBits_natBits (v n : Nat) (rest : Bits) :
    readBits n (natBits v n ++ rest) = some (v % 2 ^ n, rest) := by
  have hl := natBits_length v n
  unfold readBits
  rw [if_pos (by simp [hl])]
  rw [List.take_append_of_le_length (by omega), List.take_of_length_le (by omega),
    List.drop_append_of_le_length (by omega), List.drop_of_length_le (by omega), bitsNat_natBits]
  simp

theorem readBits_natBits_lt (v n : Nat) (rest : Bits) (h : v < 2 ^ n) :
    readBits n (natBits v n ++ rest) = some (v, rest) := by
  rw [readBits_natBits, Nat.mod_eq_of_lt h]

/-! ### byte strings -/

theorem ofBytes_nil : ofBytes [] = [] := rfl

theorem ofBytes_cons (b : Nat) (l : List Nat) : ofBytes (b :: l) = natBits b 8 ++ ofBytes l := by
  simp [ofBytes]

theorem ofBytes_append (a b : List Nat) : ofBytes (a ++ b) = ofBytes a ++ ofBytes b := by
  simp [ofBytes]

theorem ofBytes_length (l : List Nat) : (ofBytes l).length = 8 * l.length := by
  induction l with
  | nil => rfl
  | cons b l ih => rw [ofBytes_cons, List.length_append, natBits_length, ih, List.length_cons]; omega

theorem take_ofBytes (k : Nat) (l : List Nat) : (ofBytes l).take (8 * k) = ofBytes (l.take k) := by
  induction k generalizing l with
  | zero => simp [ofBytes_nil]
  | succ k ih =>
    cases l with
    | nil => simp [ofBytes_nil]
    | cons b l =>
      rw [ofBytes_cons, List.take_succ_cons, ofBytes_cons, ← ih l]
      have : 8 * (k + 1) = (natBits b 8).length + 8 * k := by rw [natBits_length]; omega
      rw [this, List.take_length_add_append]

theorem drop_ofBytes (k : Nat) (l : List Nat) : (ofBytes l).drop (8 * k) = ofBytes (l.drop k) := by
  induction k generalizing l with
  | zero => simp
  | succ k ih =>
    cases l with
    | nil => simp [ofBytes_nil]
    | cons b l =>
      rw [ofBytes_cons, List.drop_succ_cons, ← ih l]
      have : 8 * (k + 1) = (natBits b 8).length + 8 * k := by rw [natBits_length]; omega
      rw [this, List.drop_length_add_append]

theorem arrayBits_eq (l : List Nat) (k : Nat) : arrayBits l (8 * k) = ofBytes (l.take k) := by
  rw [arrayBits, take_ofBytes]

theorem bytesOf_ofBytes (l : List Nat) (rest : Bits) (hl : ∀ b ∈ l, b < 256) :
    bytesOf l.length (ofBytes l ++ rest) = l := by
  induction l with
  | nil => rfl
  | cons b l ih =>
    have hb : b < 256 := hl b (by simp)
    rw [List.length_cons, bytesOf, ofBytes_cons, List.append_assoc]
    have h8 : (natBits b 8).length = 8 := natBits_length b 8
    rw [List.take_append_of_le_length (by omega), List.take_of_length_le (by omega),
      List.drop_append_of_le_length (by omega), List.drop_of_length_le (by omega), bitsNat_natBits]
    simp only [List.nil_append]
    rw [ih (fun x hx => hl x (by simp [hx]))]
    congr 1
    exact Nat.mod_eq_of_lt hb

theorem readBytes_ofBytes (l : List Nat) (rest : Bits) (hl : ∀ b ∈ l, b < 256) :
    readBytes l.length (ofBytes l ++ rest) = some (l, rest) := by
  unfold readBytes
  have h := ofBytes_length l
  rw [if_pos (by simp [h]), bytesOf_ofBytes l rest hl]
  rw [← h, List.drop_append_of_le_length (by omega), List.drop_of_length_le (by omega)]
  simp

/-! ### VarInt -/

theorem and_7F (v : Nat) : v &&& 0x7F = v % 128 := by
  have := Nat.and_two_pow_sub_one_eq_mod v 7
  simpa using this

theorem and_0F (v : Nat) : v &&& 0x0F = v % 16 := by
  have := Nat.and_two_pow_sub_one_eq_mod v 4
  simpa using this

theorem or_80 (v : Nat) : 0x80 ||| (v &&& 0x7F) = 128 + v % 128 := by
  rw [and_7F]
  have h : v % 128 < 2 ^ 7 := by omega
  have := Nat.two_pow_add_eq_or_of_lt h 1
  simpa using this.symm

theorem or_shiftLeft (res x s : Nat) (h : res < 2 ^ s) : res ||| (x <<< s) = res + x * 2 ^ s := by
  rw [Nat.or_comm, ← Nat.shiftLeft_add_eq_or_of_lt h, Nat.shiftLeft_eq, Nat.add_comm]

theorem varint_aux (k : Nat) : ∀ (shift res v : Nat) (rest : Bits),
    shift + 7 * k = 28 → res < 2 ^ shift → v < 2 ^ (7 * k + 4) →
    readVarIntAux k shift res (writeVarIntAux k v ++ rest) = some (res + v * 2 ^ shift, rest) := by
  induction k with
  | zero =>
    intro shift res v rest hs hres hv
    have hs28 : shift = 28 := by omega
    subst hs28
    simp only [writeVarIntAux, readVarIntAux]
    rw [readBits_natBits_lt v 8 rest (by simp at hv; omega)]
    simp only
    rw [and_0F, Nat.mod_eq_of_lt (by simpa using hv), or_shiftLeft _ _ _ hres]
  | succ k ih =>
    intro shift res v rest hs hres hv
    simp only [writeVarIntAux, readVarIntAux]
    by_cases h128 : v ≥ 128
    · rw [if_pos h128, or_80, Nat.shiftRight_eq_div_pow, List.append_assoc,
        readBits_natBits_lt _ 8 _ (by omega)]
      simp only
      rw [if_neg (by omega), and_7F, or_shiftLeft _ _ _ hres]
      have e1 : (128 + v % 128) % 128 = v % 128 := by omega
      rw [e1]
      have hres' : res + v % 128 * 2 ^ shift < 2 ^ (shift + 7) := by
        rw [Nat.pow_add]
        have : v % 128 ≤ 127 := by omega
        have h2 : v % 128 * 2 ^ shift ≤ 127 * 2 ^ shift := Nat.mul_le_mul_right _ this
        omega
      have hv' : v / 2 ^ 7 < 2 ^ (7 * k + 4) := by
        rw [Nat.div_lt_iff_lt_mul (by decide), ← Nat.pow_add]
        have : 7 * k + 4 + 7 = 7 * (k + 1) + 4 := by omega
        rw [this]; exact hv
      rw [ih (shift + 7) _ (v / 2 ^ 7) rest (by omega) hres' hv']
      congr 2
      rw [Nat.pow_add, Nat.add_assoc]
      congr 1
      have hv2 : v = v % 128 + (v / 2 ^ 7) * 128 := by
        have := Nat.mod_add_div v 128
        rw [show (2:Nat) ^ 7 = 128 from rfl]; omega
      conv => rhs; rw [hv2]
      rw [Nat.add_mul, Nat.mul_assoc, Nat.mul_comm 128 (2 ^ shift)]
    · rw [if_neg h128, readBits_natBits_lt v 8 rest (by omega)]
      simp only
      rw [if_pos (by omega), and_7F, Nat.mod_eq_of_lt (by omega), or_shiftLeft _ _ _ hres]

theorem varint_roundtrip (v : Nat) (hv : v < 2 ^ 32) (rest : Bits) :
    readVarInt (writeVarInt v ++ rest) = some (v, rest) := by
  have := varint_aux 4 0 0 v rest (by omega) (by omega) (by simpa using hv)
  simpa [readVarInt, writeVarInt] using this

theorem varint_len_aux (k v : Nat) :
    ∃ n, 1 ≤ n ∧ n ≤ k + 1 ∧ (writeVarIntAux k v).length = 8 * n := by
  induction k generalizing v with
  | zero => exact ⟨1, by omega, by omega, by simp [writeVarIntAux, natBits_length]⟩
  | succ k ih =>
    simp only [writeVarIntAux]
    by_cases h128 : v ≥ 128
    · rw [if_pos h128]
      obtain ⟨n, h1, h2, h3⟩ := ih (v >>> 7)
      exact ⟨n + 1, by omega, by omega, by rw [List.length_append, natBits_length, h3]; omega⟩
    · rw [if_neg h128]
      exact ⟨1, by omega, by omega, by simp [natBits_length]⟩

theorem varint_length (v : Nat) :
    (writeVarInt v).length = 8 * varIntLen v ∧ 1 ≤ varIntLen v ∧ varIntLen v ≤ 5 := by
  obtain ⟨n, h1, h2, h3⟩ := varint_len_aux 4 v
  have : varIntLen v = n := by
    unfold varIntLen writeVarInt
    rw [h3]; omega
  rw [this]
  exact ⟨h3, h1, h2⟩

/-! ### Null entropy codec -/

theorem nullChunk_pos : 0 < nullChunk := by decide

theorem nullEncodeAux_eq (fuel : Nat) : ∀ (b : List Nat), b.length ≤ fuel → nullEncodeAux fuel b = ofBytes b := by
  induction fuel with
  | zero =>
    intro b hb
    have : b = [] := List.eq_nil_of_length_eq_zero (by omega)
    subst this; rfl
  | succ fuel ih =>
    intro b hb
    simp only [nullEncodeAux]
    by_cases h0 : b.length = 0
    · rw [if_pos h0]
      have : b = [] := List.eq_nil_of_length_eq_zero h0
      subst this; rfl
    · rw [if_neg h0, arrayBits_eq, ih]
      · rw [← ofBytes_append, List.take_append_drop]
      · have := nullChunk_pos
        rw [List.length_drop]; omega

theorem nullEncode_eq (b : List Nat) : nullEncode b = ofBytes b :=
  nullEncodeAux_eq b.length b (Nat.le_refl _)

theorem nullDecodeAux_ofBytes (fuel : Nat) : ∀ (count : Nat) (b : List Nat) (rest : Bits),
    b.length = count → count ≤ fuel → (∀ x ∈ b, x < 256) →
    nullDecodeAux fuel count (ofBytes b ++ rest) = some (b, rest) := by
  induction fuel with
  | zero =>
    intro count b rest hb hc _
    have : b = [] := List.eq_nil_of_length_eq_zero (by omega)
    subst this; rfl
  | succ fuel ih =>
    intro count b rest hb hc hlt
    simp only [nullDecodeAux]
    by_cases h0 : count = 0
    · rw [if_pos h0]
      have : b = [] := List.eq_nil_of_length_eq_zero (by omega)
      subst this; rfl
    · rw [if_neg h0]
      have hpos := nullChunk_pos
      have hsplit : ofBytes b ++ rest
          = ofBytes (b.take (min count nullChunk)) ++ (ofBytes (b.drop (min count nullChunk)) ++ rest) := by
        rw [← List.append_assoc, ← ofBytes_append, List.take_append_drop]
      have hlen : (b.take (min count nullChunk)).length = min count nullChunk := by
        rw [List.length_take]; omega
      rw [hsplit]
      have hrb := readBytes_ofBytes (b.take (min count nullChunk))
        (ofBytes (b.drop (min count nullChunk)) ++ rest)
        (fun x hx => hlt x (List.mem_of_mem_take hx))
      rw [hlen] at hrb
      rw [hrb]
      simp only
      rw [ih (count - min count nullChunk) (b.drop (min count nullChunk)) rest
        (by rw [List.length_drop]; omega) (by omega)
        (fun x hx => hlt x (List.mem_of_mem_drop hx))]
      simp only [List.take_append_drop]

theorem null_roundtrip (b : List Nat) (hb : ∀ x ∈ b, x < 256) (rest : Bits) :
    nullDecode (nullEncode b ++ rest) b.length = some (b, rest) := by
  rw [nullEncode_eq]
  exact nullDecodeAux_ofBytes b.length b.length b rest rfl (Nat.le_refl _) hb

theorem nullChunksAux_sum (fuel : Nat) : ∀ count, count ≤ fuel →
    (nullChunksAux fuel count).sum = count ∧ ∀ c ∈ nullChunksAux fuel count, 0 < c ∧ c ≤ nullChunk := by
  induction fuel with
  | zero => intro count h; have : count = 0 := by omega
            subst this; simp [nullChunksAux]
  | succ fuel ih =>
    intro count h
    simp only [nullChunksAux]
    by_cases h0 : count = 0
    · rw [if_pos h0]; subst h0; simp
    · rw [if_neg h0]
      have hpos := nullChunk_pos
      obtain ⟨h1, h2⟩ := ih (count - min count nullChunk) (by omega)
      refine ⟨by rw [List.sum_cons, h1]; omega, ?_⟩
      intro c hc
      rcases List.mem_cons.mp hc with rfl | hc
      · omega
      · exact h2 c hc

/-! ### sorted lists -/

theorem sorted_ext : ∀ (l1 l2 : List Nat), l1.Pairwise (· < ·) → l2.Pairwise (· < ·) →
    (∀ x, x ∈ l1 ↔ x ∈ l2) → l1 = l2 := by
  intro l1
  induction l1 with
  | nil =>
    intro l2 _ _ h
    cases l2 with
    | nil => rfl
    | cons y ys => exact absurd ((h y).mpr (by simp)) (by simp)
  | cons x xs ih =>
    intro l2 h1 h2 h
    cases l2 with
    | nil => exact absurd ((h x).mp (by simp)) (by simp)
    | cons y ys =>
      rw [List.pairwise_cons] at h1 h2
      have hxy : x = y := by
        have hx := (h x).mp (by simp)
        have hy := (h y).mpr (by simp)
        rcases List.mem_cons.mp hx with e | hx'
        · exact e
        · rcases List.mem_cons.mp hy with e | hy'
          · exact e.symm
          · have := h1.1 y hy'
            have := h2.1 x hx'
            omega
      subst hxy
      congr 1
      apply ih ys h1.2 h2.2
      intro z
      constructor
      · intro hz
        have := (h z).mp (List.mem_cons_of_mem _ hz)
        rcases List.mem_cons.mp this with e | hz'
        · have := h1.1 z hz; omega
        · exact hz'
      · intro hz
        have := (h z).mpr (List.mem_cons_of_mem _ hz)
        rcases List.mem_cons.mp this with e | hz'
        · have := h2.1 z hz; omega
        · exact hz'

theorem sorted_head_bound : ∀ (xs : List Nat) (x b : Nat), (x :: xs).Pairwise (· < ·) →
    (∀ y ∈ x :: xs, y < b) → x + xs.length < b := by
  intro xs
  induction xs with
  | nil => intro x b _ h; simpa using h x (by simp)
  | cons y ys ih =>
    intro x b hp hb
    rw [List.pairwise_cons] at hp
    have hxy := hp.1 y (by simp)
    have := ih y b hp.2 (fun z hz => hb z (List.mem_cons_of_mem _ hz))
    simp only [List.length_cons]
    omega

theorem sorted_full : ∀ (l : List Nat) (s : Nat), l.Pairwise (· < ·) →
    (∀ x ∈ l, s ≤ x ∧ x < s + l.length) → l = List.range' s l.length := by
  intro l
  induction l with
  | nil => intro s _ _; rfl
  | cons x xs ih =>
    intro s hp hb
    have h1 := sorted_head_bound xs x (s + (x :: xs).length) hp (fun y hy => (hb y hy).2)
    have h2 := (hb x (by simp)).1
    simp only [List.length_cons] at h1
    have hx : x = s := by omega
    subst hx
    rw [List.pairwise_cons] at hp
    simp only [List.length_cons, List.range'_succ]
    congr 1
    apply ih (x + 1) hp.2
    intro y hy
    have := hp.1 y hy
    have := (hb y (List.mem_cons_of_mem _ hy)).2
    simp only [List.length_cons] at this
    omega

theorem sorted_le_getLastD : ∀ (l : List Nat), l.Pairwise (· < ·) → ∀ x ∈ l, x ≤ l.getLastD 0 := by
  intro l
  induction l with
  | nil => intro _ x hx; simp at hx
  | cons y ys ih =>
    intro hp x hx
    rw [List.pairwise_cons] at hp
    cases ys with
    | nil => simp at hx; simp [hx]
    | cons z zs =>
      have hl : (y :: z :: zs).getLastD 0 = (z :: zs).getLastD 0 := by simp [List.getLastD]
      rw [hl]
      rcases List.mem_cons.mp hx with rfl | hx'
      · have h1 := hp.1 z (by simp)
        have h2 := ih hp.2 z (by simp)
        omega
      · exact ih hp.2 x hx'

/-! ### Alphabet -/

theorem setMask_length (m : List Nat) (s : Nat) : (setMask m s).length = m.length := by
  simp [setMask]

theorem setMask_getD (m : List Nat) (s k : Nat) :
    (setMask m s).getD k 0 = if k = s / 8 ∧ k < m.length then m.getD k 0 ||| 2 ^ (s % 8) else m.getD k 0 := by
  have e3 : s >>> 3 = s / 8 := by rw [Nat.shiftRight_eq_div_pow]
  have e7 : s &&& 7 = s % 8 := by
    have := Nat.and_two_pow_sub_one_eq_mod s 3
    simpa using this
  simp only [setMask, e3, e7, Nat.shiftLeft_eq, Nat.one_mul, List.getD_eq_getElem?_getD, List.getElem?_set]
  by_cases h : s / 8 = k
  · subst h
    by_cases hl : s / 8 < m.length
    · simp [hl]
    · simp [hl]
  · have h' : ¬ (k = s / 8) := fun e => h e.symm
    simp [h, h']

theorem foldl_setMask_length (a : List Nat) : ∀ m : List Nat, (a.foldl setMask m).length = m.length := by
  induction a with
  | nil => intro m; rfl
  | cons s a ih => intro m; rw [List.foldl_cons, ih, setMask_length]

theorem foldl_setMask_lt (a : List Nat) : ∀ m : List Nat, (∀ k, m.getD k 0 < 256) →
    ∀ k, (a.foldl setMask m).getD k 0 < 256 := by
  induction a with
  | nil => intro m h; exact h
  | cons s a ih =>
    intro m h
    rw [List.foldl_cons]
    apply ih
    intro k
    rw [setMask_getD]
    split
    · have h1 : m.getD k 0 < 2 ^ 8 := h k
      have h2 : 2 ^ (s % 8) < 2 ^ 8 := Nat.pow_lt_pow_right (by decide) (by omega)
      exact Nat.or_lt_two_pow h1 h2
    · exact h k

theorem foldl_setMask_testBit (a : List Nat) : ∀ (m : List Nat) (k j : Nat), k < m.length → j < 8 →
    (∀ s ∈ a, s < 8 * m.length) →
    ((a.foldl setMask m).getD k 0).testBit j = ((m.getD k 0).testBit j || decide (8 * k + j ∈ a)) := by
  induction a with
  | nil => intro m k j _ _ _; simp
  | cons s a ih =>
    intro m k j hk hj ha
    rw [List.foldl_cons, ih (setMask m s) k j (by rw [setMask_length]; exact hk) hj
      (fun t ht => by rw [setMask_length]; exact ha t (List.mem_cons_of_mem _ ht))]
    rw [setMask_getD]
    have hs := ha s (by simp)
    by_cases h : k = s / 8 ∧ k < m.length
    · rw [if_pos h, Nat.testBit_or, Nat.testBit_two_pow]
      by_cases hj2 : s % 8 = j
      · have : 8 * k + j = s := by omega
        simp [hj2, this]
      · have : 8 * k + j ≠ s := by omega
        simp [hj2, this]
    · rw [if_neg h]
      have : 8 * k + j ≠ s := by omega
      simp [this]

theorem mkMasks_length (a : List Nat) : (mkMasks a).length = 32 := by
  simp [mkMasks, foldl_setMask_length]

theorem mkMasks_lt (a : List Nat) (k : Nat) : (mkMasks a).getD k 0 < 256 := by
  apply foldl_setMask_lt
  intro k
  simp only [List.getD_eq_getElem?_getD, List.getElem?_replicate]
  split <;> simp

theorem mkMasks_testBit (a : List Nat) (ha : ∀ s ∈ a, s < 256) (k j : Nat) (hk : k < 32) (hj : j < 8) :
    ((mkMasks a).getD k 0).testBit j = decide (8 * k + j ∈ a) := by
  have := foldl_setMask_testBit a (List.replicate 32 0) k j (by simpa using hk) hj (by simpa using ha)
  rw [mkMasks, this]
  simp only [List.getD_eq_getElem?_getD, List.getElem?_replicate]
  split <;> simp

theorem and_one_eq_zero_iff (m j : Nat) : ((m >>> j) &&& 1 = 0) ↔ m.testBit j = false := by
  rw [Nat.and_one_is_mod, Nat.shiftRight_eq_div_pow, Nat.testBit_eq_decide_div_mod_eq]
  simp only [decide_eq_false_iff_not]
  omega

theorem mem_maskSyms (m n x : Nat) : x ∈ maskSyms m n ↔ ∃ j, j < 8 ∧ m.testBit j = true ∧ x = n + j := by
  simp only [maskSyms, List.mem_filterMap, List.mem_range]
  constructor
  · rintro ⟨j, hj, h⟩
    by_cases hb : (m >>> j) &&& 1 = 0
    · rw [if_pos hb] at h; cases h
    · rw [if_neg hb] at h
      refine ⟨j, hj, ?_, by simpa using h.symm⟩
      rw [and_one_eq_zero_iff] at hb
      simpa using hb
  · rintro ⟨j, hj, hb, rfl⟩
    refine ⟨j, hj, ?_⟩
    have : ¬ ((m >>> j) &&& 1 = 0) := by rw [and_one_eq_zero_iff]; simp [hb]
    rw [if_neg this]

theorem maskSyms_sorted (m n : Nat) : (maskSyms m n).Pairwise (· < ·) := by
  unfold maskSyms
  apply List.Pairwise.filterMap (R := (· < ·)) _ _ List.pairwise_lt_range
  intro a a' haa b hb b' hb'
  split at hb <;> split at hb' <;> simp_all
  omega

theorem mem_decodeMasksAux : ∀ (ms : List Nat) (i x : Nat),
    x ∈ decodeMasksAux ms i ↔ ∃ k j, k < ms.length ∧ j < 8 ∧ (ms.getD k 0).testBit j = true ∧ x = 8 * (i + k) + j := by
  intro ms
  induction ms with
  | nil => intro i x; simp [decodeMasksAux]
  | cons m ms ih =>
    intro i x
    simp only [decodeMasksAux, List.mem_append, mem_maskSyms, ih]
    constructor
    · rintro (⟨j, hj, hb, rfl⟩ | ⟨k, j, hk, hj, hb, rfl⟩)
      · exact ⟨0, j, by simp, hj, by simpa using hb, by simp⟩
      · exact ⟨k + 1, j, by simpa using hk, hj, by simpa using hb, by omega⟩
    · rintro ⟨k, j, hk, hj, hb, rfl⟩
      cases k with
      | zero => left; exact ⟨j, hj, by simpa using hb, by simp⟩
      | succ k =>
        right
        exact ⟨k, j, by simpa using hk, hj, by simpa using hb, by omega⟩

theorem decodeMasksAux_sorted : ∀ (ms : List Nat) (i : Nat), (decodeMasksAux ms i).Pairwise (· < ·) := by
  intro ms
  induction ms with
  | nil => intro i; simp [decodeMasksAux]
  | cons m ms ih =>
    intro i
    simp only [decodeMasksAux]
    rw [List.pairwise_append]
    refine ⟨maskSyms_sorted _ _, ih _, ?_⟩
    intro a ha b hb
    rw [mem_maskSyms] at ha
    rw [mem_decodeMasksAux] at hb
    obtain ⟨j, hj, _, rfl⟩ := ha
    obtain ⟨k, j', _, _, _, rfl⟩ := hb
    omega

theorem decodeMasks_mkMasks (a : List Nat) (hs : a.Pairwise (· < ·)) (ha : ∀ s ∈ a, s < 256) :
    decodeMasksAux ((mkMasks a).take (a.getLastD 0 / 8 + 1)) 0 = a := by
  apply sorted_ext _ _ (decodeMasksAux_sorted _ _) hs
  intro x
  rw [mem_decodeMasksAux]
  have hlen := mkMasks_length a
  constructor
  · rintro ⟨k, j, hk, hj, hb, rfl⟩
    rw [List.length_take, hlen] at hk
    have hk32 : k < 32 := by omega
    have hg : ((mkMasks a).take (a.getLastD 0 / 8 + 1)).getD k 0 = (mkMasks a).getD k 0 := by
      simp only [List.getD_eq_getElem?_getD, List.getElem?_take]
      rw [if_pos (by omega)]
    rw [hg, mkMasks_testBit a ha k j hk32 hj] at hb
    simpa using hb
  · intro hx
    have hx256 := ha x hx
    have hle := sorted_le_getLastD a hs x hx
    refine ⟨x / 8, x % 8, ?_, by omega, ?_, by omega⟩
    · rw [List.length_take, hlen]
      have : x / 8 ≤ a.getLastD 0 / 8 := Nat.div_le_div_right hle
      omega
    · have hk : x / 8 < a.getLastD 0 / 8 + 1 := by
        have : x / 8 ≤ a.getLastD 0 / 8 := Nat.div_le_div_right hle
        omega
      have hg : ((mkMasks a).take (a.getLastD 0 / 8 + 1)).getD (x / 8) 0 = (mkMasks a).getD (x / 8) 0 := by
        simp only [List.getD_eq_getElem?_getD, List.getElem?_take]
        rw [if_pos hk]
      rw [hg, mkMasks_testBit a ha (x / 8) (x % 8) (by omega) (by omega)]
      have : 8 * (x / 8) + x % 8 = x := by omega
      simpa [this] using hx

theorem getLastD_mem (a : List Nat) (h : a ≠ []) : a.getLastD 0 ∈ a := by
  rw [List.getLastD_eq_getLast?, List.getLast?_eq_some_getLast h]
  exact List.getLast_mem h

theorem alphabet_roundtrip (a : List Nat) (hs : a.Pairwise (· < ·)) (ha : ∀ s ∈ a, s < 256) (rest : Bits) :
    decodeAlphabet (encodeAlphabetBits a ++ rest) = some (a, rest) := by
  unfold encodeAlphabetBits
  by_cases h0 : a.length = 0
  · have : a = [] := List.eq_nil_of_length_eq_zero h0
    subst this
    simp [decodeAlphabet, readBit]
  · rw [if_neg h0]
    by_cases h256 : a.length = 256
    · rw [if_pos h256]
      have : a = List.range 256 := by
        have := sorted_full a 0 hs (fun x hx => ⟨Nat.zero_le _, by rw [h256]; simpa using ha x hx⟩)
        rw [this, h256, List.range_eq_range']
      simp [decodeAlphabet, readBit, this]
    · rw [if_neg h256]
      have hne : a ≠ [] := fun e => h0 (by simp [e])
      have hlast : a.getLastD 0 < 256 := ha _ (getLastD_mem a hne)
      have e3 : a.getLastD 0 >>> 3 = a.getLastD 0 / 8 := by rw [Nat.shiftRight_eq_div_pow]
      rw [e3, arrayBits_eq]
      simp only [decodeAlphabet, readBit, List.cons_append, List.append_assoc]
      rw [readBits_natBits_lt _ 5 _ (by omega)]
      simp only
      have hlen : ((mkMasks a).take (a.getLastD 0 / 8 + 1)).length = a.getLastD 0 / 8 + 1 := by
        rw [List.length_take, mkMasks_length]; omega
      have hrb := readBytes_ofBytes ((mkMasks a).take (a.getLastD 0 / 8 + 1)) rest (by
        intro b hb
        have hb' := List.mem_of_mem_take hb
        obtain ⟨i, hi, rfl⟩ := List.getElem_of_mem hb'
        have := mkMasks_lt a i
        simpa [List.getD_eq_getElem?_getD, hi] using this)
      rw [hlen] at hrb
      rw [hrb]
      simp only
      rw [decodeMasks_mkMasks a hs ha]

theorem encodeAlphabet_some (a : List Nat) (hs : a.Pairwise (· < ·)) (ha : ∀ s ∈ a, s < 256) :
    encodeAlphabet a = some (encodeAlphabetBits a) := by
  unfold encodeAlphabet
  have : a.length ≤ 256 := by
    cases a with
    | nil => simp
    | cons x xs =>
      have := sorted_head_bound xs x 256 hs ha
      simp only [List.length_cons]; omega
  rw [if_neg (by omega)]

/-! ### frequency headers -/

theorem logLoop_spec (fuel : Nat) : ∀ (k v : Nat), v < 2 ^ (k + fuel) →
    k ≤ logLoop fuel k v ∧ v < 2 ^ logLoop fuel k v ∧
      (logLoop fuel k v = k ∨ 2 ^ (logLoop fuel k v - 1) ≤ v) := by
  induction fuel with
  | zero =>
    intro k v h
    have e : logLoop 0 k v = k := rfl
    rw [e]
    exact ⟨Nat.le_refl _, by simpa using h, Or.inl rfl⟩
  | succ fuel ih =>
    intro k v h
    have e : logLoop (fuel + 1) k v = if 2 ^ k ≤ v then logLoop fuel (k + 1) v else k := rfl
    rw [e]
    by_cases hk : 2 ^ k ≤ v
    · rw [if_pos hk]
      obtain ⟨h1, h2, h3⟩ := ih (k + 1) v (by rw [show k + 1 + fuel = k + (fuel + 1) by omega]; exact h)
      refine ⟨by omega, h2, ?_⟩
      rcases h3 with h3 | h3
      · right; rw [h3]; simpa using hk
      · right; exact h3
    · rw [if_neg hk]
      exact ⟨Nat.le_refl _, by omega, Or.inl rfl⟩

theorem logMaxOf_spec (mx : Nat) :
    mx < 2 ^ logMaxOf mx ∧ (logMaxOf mx = 0 ∨ 2 ^ (logMaxOf mx - 1) ≤ mx) := by
  have h : mx < 2 ^ (0 + (mx + 1)) := by
    have := @Nat.lt_two_pow_self mx
    rw [Nat.zero_add, Nat.pow_succ]; omega
  have := logLoop_spec (mx + 1) 0 mx h
  exact ⟨this.2.1, this.2.2⟩

theorem logMaxOf_le (mx lr : Nat) (h : mx < 2 ^ lr) : logMaxOf mx ≤ lr := by
  rcases (logMaxOf_spec mx).2 with h0 | h1
  · omega
  · have : 2 ^ (logMaxOf mx - 1) < 2 ^ lr := Nat.lt_of_le_of_lt h1 h
    have := (Nat.pow_lt_pow_iff_right (by decide : 1 < 2)).mp this
    omega

theorem llrOf_eq (lr : Nat) (h8 : 8 ≤ lr) (h15 : lr ≤ 15) : llrOf lr = 4 := by
  have : lr = 8 ∨ lr = 9 ∨ lr = 10 ∨ lr = 11 ∨ lr = 12 ∨ lr = 13 ∨ lr = 14 ∨ lr = 15 := by omega
  rcases this with rfl | rfl | rfl | rfl | rfl | rfl | rfl | rfl <;> rfl

theorem foldl_max_ge (l : List Nat) : ∀ a, a ≤ l.foldl max a ∧ ∀ y ∈ l, y ≤ l.foldl max a := by
  induction l with
  | nil => intro a; simp
  | cons x xs ih =>
    intro a
    rw [List.foldl_cons]
    obtain ⟨h1, h2⟩ := ih (max a x)
    refine ⟨by omega, ?_⟩
    intro y hy
    rcases List.mem_cons.mp hy with rfl | hy
    · omega
    · exact h2 y hy

theorem foldl_max_le (l : List Nat) : ∀ a b, a ≤ b → (∀ y ∈ l, y ≤ b) → l.foldl max a ≤ b := by
  induction l with
  | nil => intro a b h _; simpa using h
  | cons x xs ih =>
    intro a b h hl
    rw [List.foldl_cons]
    apply ih
    · have := hl x (by simp); omega
    · intro y hy; exact hl y (List.mem_cons_of_mem _ hy)

theorem le_chunkMax (c : List Nat) (f : Nat) (hf : f ∈ c) : f - 1 ≤ chunkMax c := by
  unfold chunkMax
  exact (foldl_max_ge _ 0).2 (f - 1) (List.mem_map.mpr ⟨f, hf, rfl⟩)

theorem chunkMax_lt (c : List Nat) (b : Nat) (hb : 0 < b) (h : ∀ f ∈ c, f - 1 < b) : chunkMax c < b := by
  unfold chunkMax
  have := foldl_max_le (c.map (· - 1)) 0 (b - 1) (Nat.zero_le _) (by
    intro y hy
    obtain ⟨f, hf, rfl⟩ := List.mem_map.mp hy
    have := h f hf
    omega)
  omega

theorem decFreqs_enc (logMax bound : Nat) (rest : Bits) : ∀ (c : List Nat),
    (∀ f ∈ c, 1 ≤ f ∧ f - 1 < 2 ^ logMax ∧ f < bound) → (logMax = 0 → ∀ f ∈ c, f = 1) →
    decFreqs c.length logMax bound (encFreqs logMax c ++ rest) = some (c, rest) := by
  intro c
  induction c with
  | nil => intro _ _; simp [decFreqs, encFreqs]
  | cons f c ih =>
    intro h h0
    have ihc := ih (fun x hx => h x (List.mem_cons_of_mem _ hx))
      (fun e x hx => h0 e x (List.mem_cons_of_mem _ hx))
    simp only [List.length_cons, decFreqs]
    by_cases hl : logMax = 0
    · rw [if_pos hl]
      have e1 : encFreqs logMax (f :: c) = encFreqs logMax c := by simp [encFreqs, hl]
      rw [e1, ihc]
      simp only
      rw [h0 hl f (by simp)]
    · rw [if_neg hl]
      have e1 : encFreqs logMax (f :: c) = natBits (f - 1) logMax ++ encFreqs logMax c := by
        simp [encFreqs, hl]
      obtain ⟨hf1, hf2, hf3⟩ := h f (by simp)
      rw [e1, List.append_assoc, readBits_natBits_lt _ _ _ hf2]
      simp only
      have e2 : 1 + (f - 1) = f := by omega
      rw [e2, if_neg (by omega), ihc]

theorem decFreqs_mono (logMax bound bound' : Nat) (hb : bound ≤ bound') : ∀ (n : Nat) (bs : Bits) x,
    decFreqs n logMax bound bs = some x → decFreqs n logMax bound' bs = some x := by
  intro n
  induction n with
  | zero => intro bs x h; simpa [decFreqs] using h
  | succ n ih =>
    intro bs x h
    simp only [decFreqs] at h ⊢
    by_cases hl : logMax = 0
    · rw [if_pos hl] at h ⊢
      cases hd : decFreqs n logMax bound bs with
      | none => rw [hd] at h; cases h
      | some p => rw [hd] at h; rw [ih bs p hd]; exact h
    · rw [if_neg hl] at h ⊢
      cases hr : readBits logMax bs with
      | none => rw [hr] at h; cases h
      | some p =>
        rw [hr] at h
        simp only at h ⊢
        by_cases hv : 1 + p.1 ≥ bound
        · rw [if_pos hv] at h; cases h
        · rw [if_neg hv] at h
          by_cases hv' : 1 + p.1 ≥ bound'
          · omega
          · rw [if_neg hv']
            cases hd : decFreqs n logMax bound p.2 with
            | none => rw [hd] at h; cases h
            | some q => rw [hd] at h; rw [ih p.2 q hd]; exact h

theorem decFreqChunks_mono (chk llr scale bound bound' : Nat) (hb : bound ≤ bound') :
    ∀ (fuel count : Nat) (bs : Bits) x,
    decFreqChunks fuel chk llr scale bound count bs = some x →
    decFreqChunks fuel chk llr scale bound' count bs = some x := by
  intro fuel
  induction fuel with
  | zero => intro count bs x h; simpa [decFreqChunks] using h
  | succ fuel ih =>
    intro count bs x h
    simp only [decFreqChunks] at h ⊢
    by_cases hc : count = 0
    · rw [if_pos hc] at h ⊢; exact h
    · rw [if_neg hc] at h ⊢
      cases hr : readBits llr bs with
      | none => rw [hr] at h; cases h
      | some p =>
        rw [hr] at h
        simp only at h ⊢
        by_cases hs : 2 ^ p.1 > scale
        · rw [if_pos hs] at h; cases h
        · rw [if_neg hs] at h ⊢
          cases hd : decFreqs (min chk count) p.1 bound p.2 with
          | none => rw [hd] at h; cases h
          | some q =>
            rw [hd] at h
            rw [decFreqs_mono p.1 bound bound' hb _ _ q hd]
            simp only at h ⊢
            cases hd2 : decFreqChunks fuel chk llr scale bound (count - min chk count) q.2 with
            | none => rw [hd2] at h; cases h
            | some t => rw [hd2] at h; rw [ih _ _ t hd2]; exact h

theorem decFreqChunks_enc (chk llr lr bound : Nat) (hchk : 0 < chk) (hllr : lr < 2 ^ llr) (rest : Bits) :
    ∀ (fuel : Nat) (fs : List Nat), fs.length ≤ fuel →
    (∀ f ∈ fs, 1 ≤ f ∧ f ≤ 2 ^ lr ∧ f < bound) →
    decFreqChunks fuel chk llr (2 ^ lr) bound fs.length (encFreqChunks fuel chk llr fs ++ rest)
      = some (fs, rest) := by
  intro fuel
  induction fuel with
  | zero =>
    intro fs hl _
    have : fs = [] := List.eq_nil_of_length_eq_zero (by omega)
    subst this; simp [decFreqChunks, encFreqChunks]
  | succ fuel ih =>
    intro fs hl hf
    simp only [decFreqChunks, encFreqChunks]
    by_cases h0 : fs.length = 0
    · rw [if_pos h0, if_pos h0]
      have : fs = [] := List.eq_nil_of_length_eq_zero h0
      subst this; simp
    · rw [if_neg h0, if_neg h0]
      have hpow : 0 < 2 ^ lr := Nat.two_pow_pos lr
      have hmx : chunkMax (fs.take chk) < 2 ^ lr := chunkMax_lt _ _ hpow (by
        intro f hfm
        have := (hf f (List.mem_of_mem_take hfm)).2.1
        omega)
      have hle : logMaxOf (chunkMax (fs.take chk)) ≤ lr := logMaxOf_le _ _ hmx
      rw [List.append_assoc, List.append_assoc,
        readBits_natBits_lt _ _ _ (by omega)]
      simp only
      rw [if_neg (by
        have : 2 ^ logMaxOf (chunkMax (fs.take chk)) ≤ 2 ^ lr := Nat.pow_le_pow_right (by decide) hle
        omega)]
      have hlen : (fs.take chk).length = min chk fs.length := by rw [List.length_take]
      have hdec := decFreqs_enc (logMaxOf (chunkMax (fs.take chk))) bound
        (encFreqChunks fuel chk llr (fs.drop chk) ++ rest) (fs.take chk)
        (by
          intro f hfm
          have hfs := hf f (List.mem_of_mem_take hfm)
          refine ⟨hfs.1, ?_, hfs.2.2⟩
          have h1 := le_chunkMax _ f hfm
          have h2 := (logMaxOf_spec (chunkMax (fs.take chk))).1
          omega)
        (by
          intro e f hfm
          have hfs := hf f (List.mem_of_mem_take hfm)
          have h1 := le_chunkMax _ f hfm
          have h2 := (logMaxOf_spec (chunkMax (fs.take chk))).1
          rw [e] at h2
          omega)
      rw [hlen] at hdec
      rw [hdec]
      simp only
      have hrec := ih (fs.drop chk) (by rw [List.length_drop]; omega)
        (fun f hfm => hf f (List.mem_of_mem_drop hfm))
      rw [List.length_drop] at hrec
      have e : fs.length - min chk fs.length = fs.length - chk := by omega
      rw [e, hrec]
      simp only [List.take_append_drop]

theorem getD_set_self (l : List Nat) (i v : Nat) (h : i < l.length) : (l.set i v).getD i 0 = v := by
  simp [List.getD_eq_getElem?_getD, h]

theorem getD_set_ne (l : List Nat) (i j v : Nat) (h : i ≠ j) : (l.set i v).getD j 0 = l.getD j 0 := by
  simp [List.getD_eq_getElem?_getD, h]

theorem getD_replicate_zero (n i : Nat) : (List.replicate n 0).getD i 0 = 0 := by
  simp only [List.getD_eq_getElem?_getD, List.getElem?_replicate]
  split <;> rfl

theorem mem_le_sum (l : List Nat) (x : Nat) (h : x ∈ l) : x ≤ l.sum := by
  induction l with
  | nil => simp at h
  | cons y ys ih =>
    rw [List.sum_cons]
    rcases List.mem_cons.mp h with rfl | h
    · omega
    · have := ih h; omega

theorem setFreqs_length (a fs : List Nat) : ∀ t : List Nat, (setFreqs t a fs).length = t.length := by
  unfold setFreqs
  generalize a.zip fs = z
  induction z with
  | nil => intro t; rfl
  | cons p z ih => intro t; rw [List.foldl_cons, ih]; simp

theorem setFreqs_getD (g : Nat → Nat) (a : List Nat) : ∀ (t : List Nat) (i : Nat), (∀ s ∈ a, s < t.length) →
    (setFreqs t a (a.map g)).getD i 0 = if i ∈ a then g i else t.getD i 0 := by
  induction a with
  | nil => intro t i _; simp [setFreqs]
  | cons s a ih =>
    intro t i h
    have e : setFreqs t (s :: a) ((s :: a).map g) = setFreqs (t.set s (g s)) a (a.map g) := by
      simp [setFreqs]
    rw [e, ih (t.set s (g s)) i (by intro x hx; simpa using h x (List.mem_cons_of_mem _ hx))]
    have hs : s < t.length := h s (by simp)
    by_cases hia : i ∈ a
    · simp [hia]
    · rw [if_neg hia]
      by_cases his : i = s
      · subst his
        rw [getD_set_self _ _ _ hs]; simp
      · have : s ≠ i := fun e => his e.symm
        rw [getD_set_ne _ _ _ _ this]; simp [his, hia]

theorem ext_getD (l1 l2 : List Nat) (hl : l1.length = l2.length)
    (h : ∀ i, i < l1.length → l1.getD i 0 = l2.getD i 0) : l1 = l2 := by
  apply List.ext_getElem hl
  intro i h1 h2
  have := h i h1
  simpa [List.getD_eq_getElem?_getD, h1, h2] using this

/-- well-formed frequency table for alphabet `a` at log range `lr` (without the sum) -/
structure FreqTable (a f : List Nat) (lr : Nat) : Prop where
  sorted : a.Pairwise (· < ·)
  lt256 : ∀ s ∈ a, s < 256
  nonempty : a ≠ []
  len : f.length = 256
  zero_out : ∀ i, i ∉ a → f.getD i 0 = 0
  pos : ∀ s ∈ a, 1 ≤ f.getD s 0
  le_scale : ∀ s ∈ a, f.getD s 0 ≤ 2 ^ lr

theorem encodeFreqs_single (a f : List Nat) (lr : Nat) (h : a.length ≤ 1) : encodeFreqs a f lr = [] := by
  unfold encodeFreqs
  have : (a.drop 1).map (fun s => f.getD s 0) = [] := by
    rw [List.map_eq_nil_iff, List.drop_eq_nil_iff]; exact h
  rw [this]
  cases a.length <;> simp [encFreqChunks]

theorem chkSizeOf_pos (n : Nat) : 0 < chkSizeOf n := by
  unfold chkSizeOf; split <;> decide

/-- what the table decoder does on an encoder-produced frequency section: it reads back exactly
    the written frequencies (or fails), and infers the first one from the scale. -/
theorem decodeFreqTable_enc (a f : List Nat) (lr : Nat) (hlr : 8 ≤ lr ∧ lr ≤ 15)
    (ht : FreqTable a f lr) (rest : Bits) (tbl : List Nat) (r : Bits)
    (h : decodeFreqTable a lr (encodeFreqs a f lr ++ rest) = some (tbl, r)) :
    r = rest ∧ ((a.drop 1).map (fun s => f.getD s 0)).sum < 2 ^ lr ∧
    tbl.getD (a.headD 0) 0 = 2 ^ lr - ((a.drop 1).map (fun s => f.getD s 0)).sum := by
  unfold decodeFreqTable at h
  have hfs : ∀ x ∈ (a.drop 1).map (fun s => f.getD s 0), 1 ≤ x ∧ x ≤ 2 ^ lr ∧ x < 2 ^ lr + 1 := by
    intro x hx
    obtain ⟨s, hs, rfl⟩ := List.mem_map.mp hx
    have hsa := List.mem_of_mem_drop hs
    have := ht.le_scale s hsa
    exact ⟨ht.pos s hsa, this, by omega⟩
  have hlen : ((a.drop 1).map (fun s => f.getD s 0)).length = a.length - 1 := by simp
  have hmain := decFreqChunks_enc (chkSizeOf a.length) (llrOf lr) lr (2 ^ lr + 1) (chkSizeOf_pos _)
    (by rw [llrOf_eq lr hlr.1 hlr.2]; omega) rest a.length
    ((a.drop 1).map (fun s => f.getD s 0)) (by omega) hfs
  rw [hlen] at hmain
  cases hd : decFreqChunks a.length (chkSizeOf a.length) (llrOf lr) (2 ^ lr) (2 ^ lr) (a.length - 1)
      (encodeFreqs a f lr ++ rest) with
  | none => rw [hd] at h; cases h
  | some p =>
    rw [hd] at h
    have hm := decFreqChunks_mono (chkSizeOf a.length) (llrOf lr) (2 ^ lr) (2 ^ lr) (2 ^ lr + 1) (by omega)
      _ _ _ p hd
    unfold encodeFreqs at hm
    rw [hmain] at hm
    have hp : p = ((a.drop 1).map (fun s => f.getD s 0), rest) := by
      injection hm with hm; exact hm.symm
    subst hp
    simp only at h
    by_cases hsum : 2 ^ lr ≤ ((a.drop 1).map (fun s => f.getD s 0)).sum
    · rw [if_pos hsum] at h; cases h
    · rw [if_neg hsum] at h
      injection h with h
      injection h with h1 h2
      refine ⟨h2.symm, by omega, ?_⟩
      rw [← h1]
      have ha0 : a.headD 0 < 256 := by
        cases a with
        | nil => exact absurd rfl ht.nonempty
        | cons x xs => exact ht.lt256 x (by simp)
      apply getD_set_self
      rw [setFreqs_length, List.length_replicate]; exact ha0

theorem sum_split (a f : List Nat) (hne : a ≠ []) :
    (a.map (fun s => f.getD s 0)).sum
      = f.getD (a.headD 0) 0 + ((a.drop 1).map (fun s => f.getD s 0)).sum := by
  cases a with
  | nil => exact absurd rfl hne
  | cons x xs => simp

theorem decodeFreqTable_ok (a f : List Nat) (lr : Nat) (hlr : 8 ≤ lr ∧ lr ≤ 15)
    (ht : FreqTable a f lr) (hsum : (a.map (fun s => f.getD s 0)).sum = 2 ^ lr) (rest : Bits) :
    decodeFreqTable a lr (encodeFreqs a f lr ++ rest) = some (f, rest) := by
  have hsp := sum_split a f ht.nonempty
  have hpos0 : 1 ≤ f.getD (a.headD 0) 0 := by
    cases a with
    | nil => exact absurd rfl ht.nonempty
    | cons x xs => exact ht.pos x (by simp)
  have hfs : ∀ x ∈ (a.drop 1).map (fun s => f.getD s 0), 1 ≤ x ∧ x ≤ 2 ^ lr ∧ x < 2 ^ lr := by
    intro x hx
    have hle : x ≤ ((a.drop 1).map (fun s => f.getD s 0)).sum := mem_le_sum _ _ hx
    obtain ⟨s, hs, rfl⟩ := List.mem_map.mp hx
    have hsa := List.mem_of_mem_drop hs
    exact ⟨ht.pos s hsa, ht.le_scale s hsa, by omega⟩
  have hlen : ((a.drop 1).map (fun s => f.getD s 0)).length = a.length - 1 := by simp
  have hmain := decFreqChunks_enc (chkSizeOf a.length) (llrOf lr) lr (2 ^ lr) (chkSizeOf_pos _)
    (by rw [llrOf_eq lr hlr.1 hlr.2]; omega) rest a.length
    ((a.drop 1).map (fun s => f.getD s 0)) (by omega) hfs
  rw [hlen] at hmain
  unfold decodeFreqTable
  unfold encodeFreqs
  rw [hmain]
  simp only
  rw [if_neg (by omega)]
  congr 2
  have ha0 : a.headD 0 < 256 := by
    cases a with
    | nil => exact absurd rfl ht.nonempty
    | cons x xs => exact ht.lt256 x (by simp)
  have hlenS : (setFreqs (List.replicate 256 0) (a.drop 1) ((a.drop 1).map fun s => f.getD s 0)).length = 256 := by
    rw [setFreqs_length, List.length_replicate]
  apply ext_getD
  · rw [List.length_set, hlenS, ht.len]
  · intro i _
    have hg := setFreqs_getD (fun s => f.getD s 0) (a.drop 1) (List.replicate 256 0) i
      (by intro s hs; rw [List.length_replicate]; exact ht.lt256 s (List.mem_of_mem_drop hs))
    by_cases hi0 : a.headD 0 = i
    · subst hi0
      rw [getD_set_self _ _ _ (by rw [hlenS]; exact ha0)]
      omega
    · rw [getD_set_ne _ _ _ _ hi0, hg]
      by_cases hia : i ∈ a.drop 1
      · rw [if_pos hia]
      · rw [if_neg hia, getD_replicate_zero]
        have : i ∉ a := by
          intro hmem
          cases a with
          | nil => exact absurd rfl ht.nonempty
          | cons x xs =>
            simp only [List.drop_succ_cons, List.drop_zero] at hia
            simp only [List.headD_cons] at hi0
            rcases List.mem_cons.mp hmem with e | e
            · exact hi0 e.symm
            · exact hia e
        rw [ht.zero_out i this]

theorem encodeFreqs_if (a f : List Nat) (lr : Nat) :
    (if a.length ≤ 1 then [] else encodeFreqs a f lr) = encodeFreqs a f lr := by
  split
  · rename_i h; rw [encodeFreqs_single a f lr h]
  · rfl

theorem length_ne_zero_of_ne_nil (a : List Nat) (h : a ≠ []) : ¬ a.length = 0 := by
  intro e; exact h (List.eq_nil_of_length_eq_zero e)

/-- first half of both header decoders on an encoder-produced header -/
theorem ansDecodeHeader_unfold (a f : List Nat) (lr : Nat) (hlr : 8 ≤ lr ∧ lr ≤ 15)
    (ht : FreqTable a f lr) (rest : Bits) :
    ansDecodeHeader (ansEncodeHeader a f lr ++ rest)
      = match decodeFreqTable a lr (encodeFreqs a f lr ++ rest) with
        | none => none
        | some (tbl, r2) => some ((a, tbl, lr), r2) := by
  unfold ansDecodeHeader ansEncodeHeader
  rw [encodeFreqs_if, List.append_assoc, List.append_assoc, readBits_natBits_lt _ 3 _ (by omega)]
  simp only
  rw [alphabet_roundtrip a ht.sorted ht.lt256]
  simp only
  rw [if_neg (length_ne_zero_of_ne_nil a ht.nonempty)]
  have : 8 + (lr - 8) = lr := by omega
  rw [this]
  cases decodeFreqTable a lr (encodeFreqs a f lr ++ rest) with
  | none => rfl
  | some p => rfl

theorem rangeDecodeHeader_unfold (a f : List Nat) (lr : Nat) (hlr : 8 ≤ lr ∧ lr ≤ 15)
    (ht : FreqTable a f lr) (rest : Bits) :
    rangeDecodeHeader (rangeEncodeHeader a f lr ++ rest)
      = match decodeFreqTable a lr (encodeFreqs a f lr ++ rest) with
        | none => none
        | some (tbl, r2) => some ((a, tbl, lr), r2) := by
  unfold rangeDecodeHeader rangeEncodeHeader
  rw [if_neg (length_ne_zero_of_ne_nil a ht.nonempty), List.append_assoc,
    alphabet_roundtrip a ht.sorted ht.lt256]
  simp only
  rw [if_neg (length_ne_zero_of_ne_nil a ht.nonempty), List.append_assoc,
    readBits_natBits_lt _ 3 _ (by omega)]
  simp only
  have : 8 + (lr - 8) = lr := by omega
  rw [this]
  cases decodeFreqTable a lr (encodeFreqs a f lr ++ rest) with
  | none => rfl
  | some p => rfl

theorem ans_header_roundtrip (a f : List Nat) (lr : Nat) (hlr : 8 ≤ lr ∧ lr ≤ 15)
    (ht : FreqTable a f lr) (hsum : (a.map (fun s => f.getD s 0)).sum = 2 ^ lr) (rest : Bits) :
    ansDecodeHeader (ansEncodeHeader a f lr ++ rest) = some ((a, f, lr), rest) := by
  rw [ansDecodeHeader_unfold a f lr hlr ht, decodeFreqTable_ok a f lr hlr ht hsum]

theorem range_header_roundtrip (a f : List Nat) (lr : Nat) (hlr : 8 ≤ lr ∧ lr ≤ 15)
    (ht : FreqTable a f lr) (hsum : (a.map (fun s => f.getD s 0)).sum = 2 ^ lr) (rest : Bits) :
    rangeDecodeHeader (rangeEncodeHeader a f lr ++ rest) = some ((a, f, lr), rest) := by
  rw [rangeDecodeHeader_unfold a f lr hlr ht, decodeFreqTable_ok a f lr hlr ht hsum]

/-- whatever the sum: if the decoder accepts an encoder-produced header it returns the same
    alphabet, log range and rest, and a first frequency equal to `2^lr - Σ(others)` -/
theorem ans_header_dec (a f : List Nat) (lr : Nat) (hlr : 8 ≤ lr ∧ lr ≤ 15)
    (ht : FreqTable a f lr) (rest : Bits) (a' f' : List Nat) (lr' : Nat) (r : Bits)
    (h : ansDecodeHeader (ansEncodeHeader a f lr ++ rest) = some ((a', f', lr'), r)) :
    a' = a ∧ lr' = lr ∧ r = rest ∧
      f'.getD (a.headD 0) 0 + ((a.drop 1).map (fun s => f.getD s 0)).sum = 2 ^ lr := by
  rw [ansDecodeHeader_unfold a f lr hlr ht] at h
  cases hd : decodeFreqTable a lr (encodeFreqs a f lr ++ rest) with
  | none => rw [hd] at h; cases h
  | some p =>
    rw [hd] at h
    simp only at h
    obtain ⟨h1, h2, h3⟩ := decodeFreqTable_enc a f lr hlr ht rest p.1 p.2 hd
    injection h with h
    injection h with ha hr
    injection ha with ha hf
    injection hf with hf hl
    refine ⟨ha.symm, hl.symm, by rw [← hr]; exact h1, ?_⟩
    rw [← hf, h3]; omega

theorem range_header_dec (a f : List Nat) (lr : Nat) (hlr : 8 ≤ lr ∧ lr ≤ 15)
    (ht : FreqTable a f lr) (rest : Bits) (a' f' : List Nat) (lr' : Nat) (r : Bits)
    (h : rangeDecodeHeader (rangeEncodeHeader a f lr ++ rest) = some ((a', f', lr'), r)) :
    a' = a ∧ lr' = lr ∧ r = rest ∧
      f'.getD (a.headD 0) 0 + ((a.drop 1).map (fun s => f.getD s 0)).sum = 2 ^ lr := by
  rw [rangeDecodeHeader_unfold a f lr hlr ht] at h
  cases hd : decodeFreqTable a lr (encodeFreqs a f lr ++ rest) with
  | none => rw [hd] at h; cases h
  | some p =>
    rw [hd] at h
    simp only at h
    obtain ⟨h1, h2, h3⟩ := decodeFreqTable_enc a f lr hlr ht rest p.1 p.2 hd
    injection h with h
    injection h with ha hr
    injection ha with ha hf
    injection hf with hf hl
    refine ⟨ha.symm, hl.symm, by rw [← hr]; exact h1, ?_⟩
    rw [← hf, h3]; omega

theorem ans_header_needs_sum (a f : List Nat) (lr : Nat) (hlr : 8 ≤ lr ∧ lr ≤ 15)
    (ht : FreqTable a f lr) (hsum : (a.map (fun s => f.getD s 0)).sum ≠ 2 ^ lr) (rest : Bits)
    (a' f' : List Nat) (lr' : Nat) (r : Bits)
    (h : ansDecodeHeader (ansEncodeHeader a f lr ++ rest) = some ((a', f', lr'), r)) :
    f'.getD (a.headD 0) 0 ≠ f.getD (a.headD 0) 0 := by
  have := (ans_header_dec a f lr hlr ht rest a' f' lr' r h).2.2.2
  rw [sum_split a f ht.nonempty] at hsum
  omega

theorem range_header_needs_sum (a f : List Nat) (lr : Nat) (hlr : 8 ≤ lr ∧ lr ≤ 15)
    (ht : FreqTable a f lr) (hsum : (a.map (fun s => f.getD s 0)).sum ≠ 2 ^ lr) (rest : Bits)
    (a' f' : List Nat) (lr' : Nat) (r : Bits)
    (h : rangeDecodeHeader (rangeEncodeHeader a f lr ++ rest) = some ((a', f', lr'), r)) :
    f'.getD (a.headD 0) 0 ≠ f.getD (a.headD 0) 0 := by
  have := (range_header_dec a f lr hlr ht rest a' f' lr' r h).2.2.2
  rw [sum_split a f ht.nonempty] at hsum
  omega

/-! ### sum of a table = sum over its alphabet (bridge to C16) -/

theorem eq_map_getD_range (f : List Nat) : f = (List.range f.length).map (fun i => f.getD i 0) := by
  apply List.ext_getElem
  · simp
  · intro i h1 h2
    simp [List.getD_eq_getElem?_getD, h1]

theorem sum_map_filter_mem (g : Nat → Nat) (a : List Nat) (hz : ∀ i, i ∉ a → g i = 0) :
    ∀ l : List Nat, (l.map g).sum = ((l.filter (fun i => decide (i ∈ a))).map g).sum := by
  intro l
  induction l with
  | nil => rfl
  | cons x xs ih =>
    by_cases hx : x ∈ a
    · simp [hx, ih]
    · simp [hx, ih, hz x hx]

theorem filter_mem_range (a : List Nat) (n : Nat) (hs : a.Pairwise (· < ·)) (hlt : ∀ s ∈ a, s < n) :
    (List.range n).filter (fun i => decide (i ∈ a)) = a := by
  apply sorted_ext _ _ (List.Pairwise.filter _ List.pairwise_lt_range) hs
  intro x
  simp only [List.mem_filter, List.mem_range, decide_eq_true_eq]
  constructor
  · exact fun h => h.2
  · exact fun h => ⟨hlt x h, h⟩

theorem sum_over_alphabet (a f : List Nat) (hs : a.Pairwise (· < ·)) (hlt : ∀ s ∈ a, s < f.length)
    (hz : ∀ i, i ∉ a → f.getD i 0 = 0) : f.sum = (a.map (fun s => f.getD s 0)).sum := by
  conv => lhs; rw [eq_map_getD_range f]
  rw [sum_map_filter_mem (fun i => f.getD i 0) a hz, filter_mem_range a f.length hs hlt]

theorem sum_eq_zero (l : List Nat) (h : ∀ x ∈ l, x = 0) : l.sum = 0 := by
  induction l with
  | nil => rfl
  | cons x xs ih =>
    rw [List.sum_cons, h x (by simp), ih (fun y hy => h y (List.mem_cons_of_mem _ hy))]

theorem getD_le_sum (f : List Nat) (i : Nat) : f.getD i 0 ≤ f.sum := by
  by_cases h : i < f.length
  · have : f.getD i 0 = f[i] := by simp [List.getD_eq_getElem?_getD, h]
    rw [this]; exact mem_le_sum _ _ (List.getElem_mem h)
  · have hn : f[i]? = none := List.getElem?_eq_none (by omega)
    have : f.getD i 0 = 0 := by rw [List.getD_eq_getElem?_getD, hn]; rfl
    omega

end Kanzi.EntSmall
