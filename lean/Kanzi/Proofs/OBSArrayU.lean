/-
`WriteArray`, unaligned branch (256-bit and 64-bit word loops), the tail, and the full operation.
-/
import Kanzi.Proofs.OBSArrayA

namespace Kanzi.OBS
open Kanzi.Bits

/-- the stream as the unaligned loops see it: `availBits` is `a` throughout (the field is
    overwritten with 64 inside the loops and restored afterwards) -/
def setAvail (a : Nat) (s : St) : St := { s with availBits := a }

theorem lenLt_iff (l : List Byte) (n : Nat) (hn : 1 ≤ n) : lenLt l n = true ↔ l.length < n := by
  unfold lenLt
  rw [List.isEmpty_iff, List.drop_eq_nil_iff]
  omega

/-- word-level merge of the unaligned loops: `x | v>>r` -/
theorem pair_merge (x v : BitVec 64) (a : Nat) (ha : a ≤ 64) (hz : LowZero x a) :
    wordBits (x ||| (v >>> (64 - a))) = (wordBits x).take (64 - a) ++ (wordBits v).take a := by
  have := wordBits_merge_ge x v a 64 ha (Nat.le_refl _) hz
  unfold merge at this
  simpa [wordBits] using this

/-- `v << a` keeps the last `64 - a` bits of `v` -/
theorem shift_take (v : BitVec 64) (a : Nat) (ha : a ≤ 64) :
    (wordBits (v <<< a)).take (64 - a) = (wordBits v).drop a := by
  have := curBits_shift v a 64 ha (Nat.le_refl _)
  have e : 64 - (64 - a) = a := by omega
  rw [e] at this
  exact this

theorem wordStep_spec (a : Nat) (s : St) (rest : List Byte) (h : Inv (setAvail a s)) (hl : 8 ≤ rest.length) :
    ((wordStep a s rest).2 = .ok ∧
      Step (setAvail a s) (setAvail a (wordStep a s rest).1) (byteBits (rest.take 8))) ∨
    ((wordStep a s rest).2 = .panic .io ∧ IoFail s (wordStep a s rest).1) := by
  have ha64 : a ≤ 64 := h.av64
  have hz : LowZero s.current a := h.low
  unfold wordStep
  have hb : BufInv s := h.toBufInv.congr rfl rfl rfl
  have hp := push_spec s (s.current ||| (be64 rest >>> (64 - a))) hb
  rcases hres : push s (s.current ||| (be64 rest >>> (64 - a))) with ⟨p, o⟩
  rw [hres] at hp
  rcases hp with ⟨e, f⟩ | ⟨e, f⟩
  · left
    simp only at e f
    subst e
    refine ⟨rfl, ⟨f.len, f.plan, f.calls, f.nofail, f.counted, f.sinkPre⟩,
      ⟨f.binv.congr rfl rfl rfl, h.av1, ha64, lowZero_shift _ _⟩, ?_⟩
    have fb := f.babs
    simp only [absBuf_def] at fb
    simp only [abs_def, setAvail, fb]
    rw [pair_merge _ _ _ ha64 hz, shift_take _ _ ha64, wordBits_be64 _ hl]
    simp only [List.append_assoc]
    rw [List.take_append_drop]
  · right
    simp only at e f
    subst e
    exact ⟨rfl, f⟩

theorem wordLoop_spec (a : Nat) : ∀ (f : Nat) (s : St) (rest : List Byte) (rem : Nat),
    Inv (setAvail a s) → rem ≤ 8 * rest.length → rem / 64 < f →
    (((wordLoop a f s rest rem).out = .ok ∧
      (∃ c, rest = c ++ (wordLoop a f s rest rem).rest ∧ rem = 8 * c.length + (wordLoop a f s rest rem).rem ∧
        Step (setAvail a s) (setAvail a (wordLoop a f s rest rem).st) (byteBits c)) ∧
      (wordLoop a f s rest rem).rem < 64) ∨
     ((wordLoop a f s rest rem).out = .panic .io ∧ IoFail s (wordLoop a f s rest rem).st)) := by
  intro f
  induction f with
  | zero => intro s rest rem _ _ hf; omega
  | succ f ih =>
    intro s rest rem h hr hf
    unfold wordLoop
    by_cases hx : rem < 64
    · rw [if_pos hx]
      left
      exact ⟨rfl, ⟨[], rfl, by simp, Step.refl _ h⟩, hx⟩
    · rw [if_neg hx]
      have hl : ¬ lenLt rest 8 = true := by rw [lenLt_iff _ _ (by omega)]; omega
      rw [if_neg hl]
      have hw := wordStep_spec a s rest h (by omega)
      rcases hres : wordStep a s rest with ⟨p, o⟩
      rw [hres] at hw
      rcases hw with ⟨e, st⟩ | ⟨e, fb⟩
      · simp only at e st
        subst e
        simp only
        rcases ih p (rest.drop 8) (rem - 64) st.inv (by simp only [List.length_drop]; omega) (by omega) with
          ⟨e2, ⟨c, hc1, hc2, hc3⟩, hpost⟩ | ⟨e2, f2⟩
        · left
          refine ⟨e2, ⟨rest.take 8 ++ c, ?_, ?_, ?_⟩, hpost⟩
          · rw [List.append_assoc, ← hc1, List.take_append_drop]
          · simp only [List.length_append, List.length_take]; omega
          · rw [byteBits_append]; exact st.trans hc3
        · right
          exact ⟨e2, IoFail.after (s := s) (s1 := p) ⟨st.len, st.plan, st.calls, st.nofail, st.counted, st.sinkPre⟩ f2⟩
      · simp only at e fb
        subst e
        right
        exact ⟨rfl, fb⟩


theorem putWords_spec : ∀ (ws : List (BitVec 64)) (buf : List Byte) (pos : Nat),
    pos + 8 * ws.length ≤ buf.length →
    (putWords buf pos ws).2 = true ∧ (putWords buf pos ws).1.length = buf.length ∧
    (putWords buf pos ws).1.take (pos + 8 * ws.length) = buf.take pos ++ ws.flatMap wordBytes := by
  intro ws
  induction ws with
  | nil => intro buf pos _; simp [putWords]
  | cons w ws ih =>
    intro buf pos h
    simp only [List.length_cons] at h
    unfold putWords
    rw [if_neg (by omega)]
    have hw : (wordBytes w).length = 8 := rfl
    obtain ⟨h1, h2, h3⟩ := ih (copyInto buf pos (wordBytes w)) (pos + 8) (by simp; omega)
    refine ⟨h1, by rw [h2]; simp, ?_⟩
    have e : pos + 8 * (w :: ws).length = pos + 8 + 8 * ws.length := by simp; omega
    rw [e, h3]
    have := copyInto_take buf pos (wordBytes w) (by rw [hw]; omega)
    rw [hw] at this
    rw [this]
    simp

/-- a step that only (possibly) flushed -/
structure Kept (s s' : St) : Prop extends Prog s s' where
  fabs : absBuf s' = absBuf s
  buf : s'.buffer = s.buffer
  cur : s'.current = s.current
  av : s'.availBits = s.availBits
  cl : s'.closed = s.closed

theorem flush32_spec (s : St) (h : BufInv s) (h40 : 40 ≤ s.buffer.length) :
    ((flush32 s).2 = .ok ∧ Kept s (flush32 s).1 ∧ (flush32 s).1.position % 8 = 0 ∧
      (flush32 s).1.position + 40 ≤ s.buffer.length) ∨
    ((flush32 s).2 = .panic .io ∧ IoFail s (flush32 s).1) := by
  unfold flush32
  by_cases hx : s.buffer.length ≤ s.position + 32
  · rw [if_pos hx]
    rcases flush_spec s h.open_ (by have := h.posle; omega) with ⟨e, f⟩ | ⟨e, f⟩
    · left; exact ⟨e, ⟨f.toProg, f.fabs, f.buf, f.cur, f.av, f.cl⟩, by rw [f.pos], by rw [f.pos]; omega⟩
    · right; exact ⟨e, f⟩
  · rw [if_neg hx]
    left
    have := h.pos8
    have := h.len8
    exact ⟨rfl, ⟨Prog.refl s, rfl, rfl, rfl, rfl, rfl⟩, h.pos8, by show s.position + 40 ≤ _; omega⟩

theorem take32 (l : List Byte) :
    l.take 32 = l.take 8 ++ ((l.drop 8).take 8 ++ ((l.drop 16).take 8 ++ (l.drop 24).take 8)) := by
  have e1 : l.take 32 = l.take 8 ++ (l.drop 8).take 24 := by
    rw [show (32 : Nat) = 8 + 24 from rfl, List.take_add]
  have e2 : (l.drop 8).take 24 = (l.drop 8).take 8 ++ (l.drop 16).take 16 := by
    rw [show (24 : Nat) = 8 + 16 from rfl, List.take_add, List.drop_drop]
  have e3 : (l.drop 16).take 16 = (l.drop 16).take 8 ++ (l.drop 24).take 8 := by
    rw [show (16 : Nat) = 8 + 8 from rfl, List.take_add, List.drop_drop]
  rw [e1, e2, e3]


theorem take_drop_append {α : Type} (a : Nat) (l r : List α) : l.take a ++ (l.drop a ++ r) = l ++ r := by
  rw [← List.append_assoc, List.take_append_drop]

/-- the bits stored by one round of the 256-bit loop -/
theorem words4_bits (cur : BitVec 64) (a : Nat) (rest : List Byte) (ha : a ≤ 64) (hz : LowZero cur a)
    (hl : 32 ≤ rest.length) :
    byteBits ((words4 (cur ||| (be64 rest >>> (64 - a))) a rest).flatMap wordBytes) ++
      (wordBits (be64 (rest.drop 24) <<< a)).take (64 - a) =
    (wordBits cur).take (64 - a) ++ byteBits (rest.take 32) := by
  simp only [words4, List.flatMap_cons, List.flatMap_nil, List.append_nil, byteBits_append,
    byteBits_wordBytes]
  rw [pair_merge _ _ _ ha hz, pair_merge _ _ _ ha (lowZero_shift _ _),
    pair_merge _ _ _ ha (lowZero_shift _ _), pair_merge _ _ _ ha (lowZero_shift _ _)]
  simp only [shift_take _ _ ha]
  rw [take32, byteBits_append, byteBits_append, byteBits_append,
    ← wordBits_be64 rest (by omega), ← wordBits_be64 (rest.drop 8) (by simp; omega),
    ← wordBits_be64 (rest.drop 16) (by simp; omega), ← wordBits_be64 (rest.drop 24) (by simp; omega)]
  simp only [List.append_assoc, take_drop_append]
  rw [List.take_append_drop]

theorem word4Step_spec (a : Nat) (s : St) (rest : List Byte) (h : Inv (setAvail a s))
    (h40 : 40 ≤ s.buffer.length) (hl : 32 ≤ rest.length) :
    ((word4Step a s rest).2 = .ok ∧
      Step (setAvail a s) (setAvail a (word4Step a s rest).1) (byteBits (rest.take 32))) ∨
    ((word4Step a s rest).2 = .panic .io ∧ IoFail s (word4Step a s rest).1) := by
  have ha64 : a ≤ 64 := h.av64
  have hz : LowZero s.current a := h.low
  unfold word4Step
  dsimp only
  have hb : BufInv { s with current := s.current ||| (be64 rest >>> (64 - a)) } :=
    h.toBufInv.congr rfl rfl rfl
  have hf := flush32_spec _ hb h40
  rcases hres : flush32 { s with current := s.current ||| (be64 rest >>> (64 - a)) } with ⟨q, o⟩
  rw [hres] at hf
  rcases hf with ⟨e, k, hq8, hq40⟩ | ⟨e, f⟩
  · simp only at e k hq8 hq40
    subst e
    simp only
    have hqb : q.buffer = s.buffer := k.buf
    have hfit : q.position + 8 * (words4 (s.current ||| (be64 rest >>> (64 - a))) a rest).length ≤ q.buffer.length := by
      rw [hqb]; simp only [words4, List.length_cons, List.length_nil]; omega
    obtain ⟨p1, p2, p3⟩ := putWords_spec _ q.buffer q.position hfit
    rcases hpw : putWords q.buffer q.position (words4 (s.current ||| (be64 rest >>> (64 - a))) a rest) with ⟨nb, okb⟩
    rw [hpw] at p1 p2 p3
    simp only at p1 p2 p3
    subst p1
    rw [if_pos rfl]
    left
    have hnl : nb.length = s.buffer.length := by rw [p2, hqb]
    refine ⟨rfl, ⟨by show nb.length = _; exact hnl, k.plan, k.calls, k.nofail, k.counted, k.sinkPre⟩,
      ⟨⟨by show q.closed = false; rw [k.cl]; exact h.open_, by show 16 ≤ nb.length; omega,
        by show nb.length % 8 = 0; rw [hnl]; exact h.len8, by show (q.position + 32) % 8 = 0; omega,
        by show q.position + 32 + 8 ≤ nb.length; omega⟩, h.av1, ha64, lowZero_shift _ _⟩, ?_⟩
    have fb := k.fabs
    simp only [absBuf_def] at fb
    simp only [abs_def, setAvail]
    have e32 : q.position + 32 = q.position + 8 * (words4 (s.current ||| (be64 rest >>> (64 - a))) a rest).length := rfl
    rw [e32, p3, byteBits_append, ← List.append_assoc (byteBits q.sink), fb]
    simp only [List.append_assoc]
    rw [words4_bits _ _ _ ha64 hz hl]
  · right
    simp only at e f
    subst e
    exact ⟨rfl, f.plan, f.lt, f.failed, f.before⟩

theorem word4Loop_spec (a : Nat) : ∀ (f : Nat) (s : St) (rest : List Byte) (rem : Nat),
    Inv (setAvail a s) → 40 ≤ s.buffer.length → rem ≤ 8 * rest.length → rem / 256 < f →
    (((word4Loop a f s rest rem).out = .ok ∧
      (∃ c, rest = c ++ (word4Loop a f s rest rem).rest ∧ rem = 8 * c.length + (word4Loop a f s rest rem).rem ∧
        Step (setAvail a s) (setAvail a (word4Loop a f s rest rem).st) (byteBits c)) ∧
      (word4Loop a f s rest rem).rem < 256) ∨
     ((word4Loop a f s rest rem).out = .panic .io ∧ IoFail s (word4Loop a f s rest rem).st)) := by
  intro f
  induction f with
  | zero => intro s rest rem _ _ _ hf; omega
  | succ f ih =>
    intro s rest rem h h40 hr hf
    unfold word4Loop
    by_cases hx : rem < 256
    · rw [if_pos hx]
      left
      exact ⟨rfl, ⟨[], rfl, by simp, Step.refl _ h⟩, hx⟩
    · rw [if_neg hx]
      have hl : ¬ lenLt rest 32 = true := by rw [lenLt_iff _ _ (by omega)]; omega
      rw [if_neg hl]
      have hw := word4Step_spec a s rest h h40 (by omega)
      rcases hres : word4Step a s rest with ⟨p, o⟩
      rw [hres] at hw
      rcases hw with ⟨e, st⟩ | ⟨e, fb⟩
      · simp only at e st
        subst e
        simp only
        have hlen : p.buffer.length = s.buffer.length := st.len
        rcases ih p (rest.drop 32) (rem - 256) st.inv (by omega) (by simp only [List.length_drop]; omega) (by omega) with
          ⟨e2, ⟨c, hc1, hc2, hc3⟩, hpost⟩ | ⟨e2, f2⟩
        · left
          refine ⟨e2, ⟨rest.take 32 ++ c, ?_, ?_, ?_⟩, hpost⟩
          · rw [List.append_assoc, ← hc1, List.take_append_drop]
          · simp only [List.length_append, List.length_take]; omega
          · rw [byteBits_append]; exact st.trans hc3
        · right
          exact ⟨e2, IoFail.after (s := s) (s1 := p) ⟨st.len, st.plan, st.calls, st.nofail, st.counted, st.sinkPre⟩ f2⟩
      · simp only at e fb
        subst e
        right
        exact ⟨rfl, fb⟩


theorem setAvail_self (s : St) : setAvail s.availBits s = s := by cases s; rfl

theorem unalignedPart_spec (s : St) (bytes : List Byte) (count : Nat) (h : Inv s)
    (h40 : 40 ≤ s.buffer.length) (hc : count ≤ 8 * bytes.length) :
    LRes s bytes count (unalignedPart s bytes count) (fun l => l.rem < 64) := by
  unfold unalignedPart
  dsimp only
  have hs : Inv (setAvail s.availBits s) := by rw [setAvail_self]; exact h
  have hC := word4Loop_spec s.availBits (count / 256 + 1) s bytes count hs h40 hc (by omega)
  generalize word4Loop s.availBits (count / 256 + 1) s bytes count = c at hC
  rcases hC with ⟨ec, ⟨cc, hc1, hc2, hc3⟩, _⟩ | ⟨ec, fc⟩
  · simp only [ec]
    have hrc : c.rem ≤ 8 * c.rest.length := by
      have := congrArg List.length hc1
      simp at this; omega
    have hD := wordLoop_spec s.availBits (c.rem / 64 + 1) c.st c.rest c.rem hc3.inv hrc (by omega)
    generalize wordLoop s.availBits (c.rem / 64 + 1) c.st c.rest c.rem = d at hD
    rcases hD with ⟨ed, ⟨cd, hd1, hd2, hd3⟩, hpd⟩ | ⟨ed, fd⟩
    · simp only [ed]
      left
      refine ⟨rfl, ⟨cc ++ cd, ?_, ?_, ?_⟩, hpd⟩
      · show bytes = cc ++ cd ++ d.rest
        rw [List.append_assoc, ← hd1, ← hc1]
      · show count = 8 * (cc ++ cd).length + d.rem
        simp only [List.length_append]; omega
      · rw [byteBits_append]
        have := hc3.trans hd3
        rw [setAvail_self] at this
        exact this
    · right
      simp only [ed]
      refine ⟨trivial, IoFail.after (s1 := c.st) ?_ fd⟩
      exact ⟨hc3.len, hc3.plan, hc3.calls, hc3.nofail, hc3.counted, hc3.sinkPre⟩
  · right
    simp only [ec]
    exact ⟨trivial, fc⟩

theorem arrayMain_spec (s : St) (bytes : List Byte) (count : Nat) (h : Inv s)
    (h40 : 40 ≤ s.buffer.length) (hc : count ≤ 8 * bytes.length) :
    LRes s bytes count (arrayMain s bytes count) (fun l => l.rem < 64) := by
  unfold arrayMain
  by_cases h1 : s.availBits % 8 = 0
  · rw [if_pos h1]; exact alignedPart_spec s bytes count h hc
  · rw [if_neg h1]
    by_cases h2 : count ≥ 64
    · rw [if_pos h2]; exact unalignedPart_spec s bytes count h h40 hc
    · rw [if_neg h2]
      left
      exact ⟨rfl, ⟨[], rfl, by simp, Step.refl s h⟩, by show count < 64; omega⟩

/-- the last, partial byte: `WriteBits(bits[start] >> (8-remaining), remaining)` -/
theorem natBits_partial (b : Byte) (m : Nat) (hm : m ≤ 8) :
    natBits ((b.setWidth 64 >>> (8 - m)).toNat) m = (byteBits [b]).take m := by
  rw [natBits_word _ m (by omega)]
  have e : byteBits [b] = bvBits b := by simp [byteBits_cons, byteBits_nil]
  rw [e]
  unfold bvBits
  rw [mk_take _ _ _ hm]
  apply mk_congr
  intro j hj
  rw [BitVec.getMsbD_ushiftRight, BitVec.getMsbD_setWidth]
  have h1 : 64 - m + j < 64 := by omega
  have h2 : ¬ 64 - m + j < 8 - m := by omega
  have h3 : 64 - 8 ≤ 64 - m + j - (8 - m) := by omega
  simp only [h1, h2, h3, decide_true, decide_false, Bool.not_false, Bool.true_and]
  congr 1; omega

theorem arrayTail_spec (l : LS) (h : Inv l.st) (hr : l.rem ≤ 8 * l.rest.length) :
    Res l.st (arrayTail l) ((byteBits l.rest).take l.rem) := by
  unfold arrayTail
  dsimp only
  have hE := byteLoop_spec false l.rest l.st l.rem h hr
  generalize byteLoop false l.st l.rest l.rem = e at hE
  rcases hE with ⟨ee, ⟨c, he1, he2, he3⟩, hpe⟩ | ⟨ee, fe⟩
  · simp only [ee]
    have hlt : e.rem < 8 := by
      rcases hpe with ⟨h1, _⟩ | h1
      · exact absurd h1 (by simp)
      · exact h1
    have hre : e.rem ≤ 8 * e.rest.length := by
      have := congrArg List.length he1
      simp at this; omega
    have hbits : (byteBits l.rest).take l.rem = byteBits c ++ (byteBits e.rest).take e.rem := by
      rw [he1, he2, byteBits_append]
      have : 8 * c.length = (byteBits c).length := by simp
      rw [this, List.take_length_add_append]
    rw [hbits]
    by_cases hpos : e.rem > 0
    · rw [if_pos hpos]
      cases hrest : e.rest with
      | nil => rw [hrest] at hre; simp at hre; omega
      | cons b tl =>
        simp only
        have hw := writeBits_spec e.st (b.setWidth 64 >>> (8 - e.rem)) e.rem he3.inv (by omega)
        rw [natBits_partial b e.rem (by omega)] at hw
        have e2 : (byteBits (b :: tl)).take e.rem = (byteBits [b]).take e.rem := by
          rw [show b :: tl = [b] ++ tl from rfl, byteBits_append, List.take_append_of_le_length (by simp; omega)]
        rw [e2]
        rcases hw with ⟨e3, f3⟩ | ⟨e3, f3⟩
        · left; exact ⟨e3, he3.trans f3⟩
        · right; exact ⟨e3, IoFail.after he3.toProg f3⟩
    · rw [if_neg hpos]
      left
      have : e.rem = 0 := by omega
      rw [this]
      simp only [List.take_zero, List.append_nil]
      exact ⟨trivial, he3⟩
  · right
    simp only [ee]
    exact ⟨trivial, fe⟩

/-- `WriteArray` on a healthy-state stream: `count` bits of `bytes` are appended, or the sink failure
    is reported -/
theorem writeArray_spec (s : St) (bytes : List Byte) (count : Nat) (h : Inv s)
    (h40 : 40 ≤ s.buffer.length) (hc : count ≤ 8 * bytes.length) :
    Res s (writeArray s bytes count) ((byteBits bytes).take count) := by
  unfold writeArray
  rw [if_neg (by simp [h.open_]), if_neg (by omega)]
  have hM := arrayMain_spec s bytes count h h40 hc
  generalize arrayMain s bytes count = m at hM
  rcases hM with ⟨em, ⟨c, hm1, hm2, hm3⟩, _⟩ | ⟨em, fm⟩
  · simp only [em]
    have hrm : m.rem ≤ 8 * m.rest.length := by
      have := congrArg List.length hm1
      simp at this; omega
    have hT := arrayTail_spec m hm3.inv hrm
    have hbits : (byteBits bytes).take count = byteBits c ++ (byteBits m.rest).take m.rem := by
      rw [hm1, hm2, byteBits_append]
      have : 8 * c.length = (byteBits c).length := by simp
      rw [this, List.take_length_add_append]
    rw [hbits]
    rcases hT with ⟨e3, f3⟩ | ⟨e3, f3⟩
    · left; exact ⟨e3, hm3.trans f3⟩
    · right; exact ⟨e3, IoFail.after hm3.toProg f3⟩
  · right
    simp only [em]
    exact ⟨trivial, fm⟩

end Kanzi.OBS
