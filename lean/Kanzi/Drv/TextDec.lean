/-
Line-protocol driver of the `textdec` stream (see harness/cmd/kv/textdec.go).  Core Lean only.

    td <tc> <bs> <ent> <ver> <dstlen> <data> [<dstlen2> <data2>]
         ONE codec object (`<tc>`, `<bs>`, `<ent>`, `<ver>`, `<data>` as in the `text` stream, Drv/Text.lean), then
         TextCodec.Inverse(<data>, dst[:dstlen]) and, when given, a second TextCodec.Inverse(<data2>, dst2[:dstlen2])
         on the SAME object
         -> <call> [| <call>]
    <call> = <res> ds=<dictSize after the call> dl=<len(dictList) after the call>
    <res>  = ok <out> | err:<class> | panic:index | hang        class = small | big | index | data | srcidx
-/
import Kanzi.Model.TextDec
import Kanzi.Drv.Text

namespace Kanzi.Drv
open Kanzi.Text

def textdecShow (r : Kanzi.RLT.Res × Codec) : String :=
  let s := r.2.sizes
  (match r.1 with
    | .ok o => "ok " ++ rltOut o
    | .err e => "err:" ++ e
    | .fault e => if e = "fuel" then "hang" else "panic:index") ++ s!" ds={s.1} dl={s.2}"

def textdec (line : String) : String :=
  match (line.splitOn " ").filter (· ≠ "") with
  | "td" :: tc :: bss :: ent :: vers :: rest =>
    match textOptNat bss, textOptNat vers with
    | some bs, some ver =>
      if tc ≠ "0" ∧ tc ≠ "1" ∧ tc ≠ "2" then "bad-op"
      else if tc = "0" ∧ (bss ≠ "-" ∨ ent ≠ "-" ∨ vers ≠ "-") then "bad-op"
      else
        let tc2 := tc = "2"
        let old := textOld ver
        let hsz := textHsz tc bs ent
        match rest with
        | [d, h] =>
          match d.toNat?, textData h with
          | some d, some b => textdecShow (codecCall tc2 old hsz none b d)
          | _, _ => "bad-op"
        | [d, h, d2, h2] =>
          match d.toNat?, textData h, d2.toNat?, textData h2 with
          | some d, some b, some d2, some b2 =>
            let r1 := codecCall tc2 old hsz none b d
            textdecShow r1 ++ " | " ++ textdecShow (codecCall tc2 old hsz r1.2 b2 d2)
          | _, _, _, _ => "bad-op"
        | _ => "bad-op"
    | _, _ => "bad-op"
  | _ => "bad-op"

end Kanzi.Drv
