/-
Line-protocol driver of the `bwts` stream (see harness/cmd/kv/bwts.go).  Core Lean only.

    f <dstlen> <hex>             BWTS.Forward(src, dst[:dstlen])           -> <res>    (model: `bwtsForwardFill`)
    s <hex>                      BWTS.Forward(src, dst[:len])              -> <res>    (model: `bwtsSpec`, the textbook definition)
    i <dstlen> <hex>             BWTS.Inverse(src, dst[:dstlen])           -> <res>    (model: `bwtsInverseFill`)
    r <dstlen> <invlen> <hex>    Forward, then (if ok) Inverse of its output into `invlen` bytes
                                                                            -> <res> <res'> | <res>
    b <hex>                      Inverse into len bytes, then Forward of the result into len bytes
                                                                            -> <res> <res'> | <res>   (model forward)
    c <hex>                      the same                                   (model: `bwtsSpec` of the model inverse)

`<res>` is `ok <hex>` (nil error, `dst[0:written]`), `err` (non-nil error) or `panic` (the Go call
panicked).  `<hex>` is lower-case, `-` for the empty block.  The destination holds 0xAA before each call.
-/
import Kanzi.Model.BWTS
import Kanzi.Drv.TrSmall

namespace Kanzi.Drv
open Kanzi.BWTS

def bwtsShow (r : Kanzi.BWTS.Res) : String :=
  match r with
  | .ok o => "ok " ++ hex o
  | .err => "err"
  | .fault => "panic"

def bwts (line : String) : String :=
  match (line.splitOn " ").filter (· ≠ "") with
  | ["f", d, h] =>
    match d.toNat?, unhex h with
    | some d, some b => bwtsShow (bwtsForwardFill 0xAA b d)
    | _, _ => "bad-op"
  | ["s", h] =>
    match unhex h with
    | some b => bwtsShow (.ok (bwtsSpec b))
    | _ => "bad-op"
  | ["i", d, h] =>
    match d.toNat?, unhex h with
    | some d, some b => bwtsShow (bwtsInverseFill 0xAA b d)
    | _, _ => "bad-op"
  | ["r", d, n, h] =>
    match d.toNat?, n.toNat?, unhex h with
    | some d, some n, some b =>
      match bwtsForwardFill 0xAA b d with
      | .ok t => bwtsShow (.ok t) ++ " " ++ bwtsShow (bwtsInverseFill 0xAA t n)
      | x => bwtsShow x
    | _, _, _ => "bad-op"
  | ["b", h] =>
    match unhex h with
    | some b =>
      match bwtsInverseFill 0xAA b b.length with
      | .ok t => bwtsShow (.ok t) ++ " " ++ bwtsShow (bwtsForwardFill 0xAA t t.length)
      | x => bwtsShow x
    | _ => "bad-op"
  | ["c", h] =>
    match unhex h with
    | some b =>
      match bwtsInverseFill 0xAA b b.length with
      | .ok t => bwtsShow (.ok t) ++ " " ++ bwtsShow (.ok (bwtsSpec t))
      | x => bwtsShow x
    | _ => "bad-op"
  | _ => "bad-op"

end Kanzi.Drv
