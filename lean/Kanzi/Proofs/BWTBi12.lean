/-
inverseBiPSIv2, part 12: THE TASKS WRITE DISJOINT RANGES OF `dst` (the C18 mechanism "inverse BWT workers
write disjoint output ranges"), for ARBITRARY shared tables: the indexes written depend on the loop
counters only.  The task of the chunks `[fc, lc)` changes `dst` only inside
`[fc*ckSize, lc*ckSize)` (`[fc*ckSize, total)` for the last task), and these ranges are pairwise
disjoint for the split computed by `ComputeJobsPerTask`.
-/
import Kanzi.Proofs.BWTBi10
import Kanzi.Proofs.Jobs

namespace Kanzi.BWT

/-- partial correctness: whenever the step succeeds its value satisfies `P` -/
def OkP {α : Type} (P : α → Prop) (r : Res α) : Prop := ∀ a, r = .ok a → P a

theorem OkP.bind {α β : Type} {P : α → Prop} {Q : β → Prop} {r : Res α} {f : α → Res β}
    (h : OkP P r) (hf : ∀ a, r = .ok a → P a → OkP Q (f a)) : OkP Q (r.bind f) := by
  intro b hb
  cases hr : r with
  | ok a => rw [hr] at hb; exact hf a hr (h a hr) b hb
  | err e => rw [hr] at hb; cases hb
  | fault => rw [hr] at hb; cases hb
  | hang => rw [hr] at hb; cases hb

/-- `d` has the size of `dst` and differs from it only at positions satisfying `W` -/
def Within (W : Nat → Prop) (dst d : Array Nat) : Prop :=
  d.size = dst.size ∧ ∀ pos, ¬ W pos → rd d pos = rd dst pos

theorem Within.refl (W : Nat → Prop) (dst : Array Nat) : Within W dst dst := ⟨rfl, fun _ _ => rfl⟩

theorem Within.trans {W : Nat → Prop} {a b c : Array Nat} (h1 : Within W a b) (h2 : Within W b c) : Within W a c :=
  ⟨h2.1.trans h1.1, fun pos hp => (h2.2 pos hp).trans (h1.2 pos hp)⟩

theorem Within.mono {W W' : Nat → Prop} {a b : Array Nat} (h : Within W a b) (hw : ∀ pos, W pos → W' pos) : Within W' a b :=
  ⟨h.1, fun pos hp => h.2 pos (fun hh => hp (hw pos hh))⟩

theorem write1_within (W : Nat → Prop) (dst : Array Nat) (p v : Nat) (hp : W p) : OkP (Within W dst) (write1 dst p v) := by
  intro d hd
  unfold write1 at hd
  split at hd
  · cases hd
  · injection hd with hd; subst hd
    refine ⟨by simp, ?_⟩
    intro pos hpos
    rw [rd_setIfInBounds]
    have : ¬ p = pos := fun e => hpos (e ▸ hp)
    simp [this]

theorem Res.bind_eq_ok {α β : Type} {r : Res α} {f : α → Res β} {b : β} (h : r.bind f = .ok b) :
    ∃ a, r = .ok a ∧ f a = .ok b := by
  cases r with
  | ok a => exact ⟨a, rfl, h⟩
  | err e => cases h
  | fault => cases h
  | hang => cases h

theorem writeFirst_within (W : Nat → Prop) (i : Nat) (ws : List (Nat × Nat)) (dst : Array Nat)
    (hw : ∀ w ∈ ws, W (w.1 + i - 1)) : OkP (Within W dst) (writeFirst i ws dst) := by
  induction ws generalizing dst with
  | nil => intro d hd; injection hd with hd; subst hd; exact Within.refl W dst
  | cons w ws ih =>
    obtain ⟨b, x⟩ := w
    intro d' hd'
    simp only [writeFirst] at hd'
    obtain ⟨d, h1, h2⟩ := Res.bind_eq_ok hd'
    have hd := write1_within W dst (b + i - 1) (x >>> 8) (hw (b, x) List.mem_cons_self) d h1
    exact hd.trans (ih d (fun w hw' => hw w (List.mem_cons_of_mem _ hw')) d' h2)

theorem writeSecond_within (W : Nat → Prop) (i : Nat) (ws : List (Nat × Nat)) (dst : Array Nat)
    (hw : ∀ w ∈ ws, W (w.1 + i)) : OkP (Within W dst) (writeSecond i ws dst) := by
  induction ws generalizing dst with
  | nil => intro d hd; injection hd with hd; subst hd; exact Within.refl W dst
  | cons w ws ih =>
    obtain ⟨b, x⟩ := w
    intro d' hd'
    simp only [writeSecond] at hd'
    obtain ⟨d, h1, h2⟩ := Res.bind_eq_ok hd'
    have hd := write1_within W dst (b + i) x (hw (b, x) List.mem_cons_self) d h1
    exact hd.trans (ih d (fun w hw' => hw w (List.mem_cons_of_mem _ hw')) d' h2)

theorem mapRes_bases (sh : Shared) (lanes lanes' : List (Nat × Nat))
    (h : mapRes (fun l : Nat × Nat => (next sh l.1).bind fun p => Res.ok (p, l.2)) lanes = .ok lanes') :
    lanes'.map (·.2) = lanes.map (·.2) := by
  induction lanes generalizing lanes' with
  | nil => simp only [mapRes] at h; injection h with h; subst h; rfl
  | cons l ls ih =>
    simp only [mapRes] at h
    obtain ⟨x, h1, h2⟩ := Res.bind_eq_ok h
    obtain ⟨p, _, h3⟩ := Res.bind_eq_ok h1
    injection h3 with h3; subst h3
    obtain ⟨bs, h4, h5⟩ := Res.bind_eq_ok h2
    injection h5 with h5; subst h5
    simp [ih bs h4]

/-- one iteration writes only at `base + i - 1` and (when `second`) `base + i` of its lanes -/
theorem lanesIter_within (W : Nat → Prop) (sh : Shared) (i : Nat) (second : Bool) (lanes : List (Nat × Nat))
    (dst : Array Nat) (hw : ∀ b ∈ lanes.map (·.2), W (b + i - 1) ∧ (second = true → W (b + i))) :
    OkP (fun r => r.1.map (·.2) = lanes.map (·.2) ∧ Within W dst r.2) (lanesIter sh i second lanes dst) := by
  intro r hr
  unfold lanesIter at hr
  obtain ⟨ss0, _, hr⟩ := Res.bind_eq_ok hr
  obtain ⟨ss, _, hr⟩ := Res.bind_eq_ok hr
  obtain ⟨d1, hw1, hr⟩ := Res.bind_eq_ok hr
  obtain ⟨d2, hw2, hr⟩ := Res.bind_eq_ok hr
  obtain ⟨ls, hls, hr⟩ := Res.bind_eq_ok hr
  injection hr with hr; subst hr
  have hbases : ∀ w ∈ (lanes.map (·.2)).zip ss, w.1 ∈ lanes.map (·.2) := fun w hw' => (List.of_mem_zip hw').1
  have hd1 := writeFirst_within W i _ dst (fun w hw' => (hw w.1 (hbases w hw')).1) d1 hw1
  have hd2 : Within W dst d2 := by
    cases hsec : second with
    | false =>
      rw [hsec] at hw2
      simp only [Bool.false_eq_true, ite_false] at hw2
      injection hw2 with hw2; subst hw2; exact hd1
    | true =>
      rw [hsec] at hw2
      simp only [ite_true] at hw2
      exact hd1.trans (writeSecond_within W i _ d1 (fun w hw' => (hw w.1 (hbases w hw')).2 hsec) d2 hw2)
  exact ⟨mapRes_bases sh lanes ls hls, hd2⟩

/-- `k` iterations write only at the positions of their loop indexes -/
theorem lanesLoop_within (W : Nat → Prop) (sh : Shared) (sec : Nat → Bool) (k i : Nat) (lanes : List (Nat × Nat))
    (dst : Array Nat)
    (hw : ∀ t, t < k → ∀ b ∈ lanes.map (·.2), W (b + (i + 2 * t) - 1) ∧ (sec (i + 2 * t) = true → W (b + (i + 2 * t)))) :
    OkP (Within W dst) (lanesLoop sh sec k i lanes dst) := by
  induction k generalizing i lanes dst with
  | zero => intro d hd; injection hd with hd; subst hd; exact Within.refl W dst
  | succ k ih =>
    intro d hd
    simp only [lanesLoop] at hd
    obtain ⟨r, h1, h2⟩ := Res.bind_eq_ok hd
    have hr := lanesIter_within W sh i (sec i) lanes dst (by
      intro b hb
      have := hw 0 (by omega) b hb
      simpa using this) r h1
    refine hr.2.trans (ih (i + 2) r.1 r.2 ?_ d h2)
    intro t ht b hb
    rw [hr.1] at hb
    have := hw (t + 1) (by omega) b hb
    have e : i + 2 + 2 * t = i + 2 * (t + 1) := by omega
    rw [e]; exact this

/-- end of the range of the task whose last chunk is `lc - 1` -/
def regionEnd (total ck lc : Nat) : Nat := if lc = 8 then total else lc * ck

theorem pairCount_le (start fin t : Nat) (ht : t < pairCount start fin) : start + 1 + 2 * t ≤ fin := by
  unfold pairCount at ht; omega

/-- one chunk of the single-lane loop writes only inside its own chunk -/
theorem chunk_within (sh : Shared) (total ck : Nat) (hck : 7 * ck + 1 < total ∧ total ≤ 8 * ck)
    (c : Nat) (hc7 : c ≤ 7) (p : Nat) (dst : Array Nat) :
    OkP (Within (fun pos => c * ck ≤ pos ∧ pos < regionEnd total ck (c + 1)) dst)
      (lanesLoop sh (fun i => decide (i < min (c * ck + ck) (total - 1)) || decide (min (c * ck + ck) (total - 1) = total - 1))
        (pairCount (c * ck) (min (c * ck + ck) (total - 1))) (c * ck + 1) [(p, 0)] dst) := by
  have hmul : c * ck ≤ 7 * ck := Nat.mul_le_mul_right _ hc7
  have hsucc : (c + 1) * ck = c * ck + ck := Nat.succ_mul c ck
  apply lanesLoop_within
  intro t ht b hb
  simp only [List.map_cons, List.map_nil, List.mem_singleton] at hb
  subst hb
  have hle := pairCount_le _ _ t ht
  by_cases h7 : c = 7
  · have hre : regionEnd total ck (c + 1) = total := by unfold regionEnd; rw [if_pos (by omega)]
    rw [hre]
    constructor
    · omega
    · intro _; omega
  · have h1 : (c + 1) * ck ≤ 7 * ck := Nat.mul_le_mul_right _ (by omega)
    have hfin : min (c * ck + ck) (total - 1) = c * ck + ck := by omega
    rw [hfin] at hle
    have hre : regionEnd total ck (c + 1) = c * ck + ck := by
      unfold regionEnd; rw [if_neg (by omega), hsucc]
    rw [hre]
    constructor
    · omega
    · intro hsec
      rw [hfin] at hsec
      have hne : ¬ c * ck + ck = total - 1 := by omega
      simp only [hne, decide_false, Bool.or_false, decide_eq_true_eq] at hsec
      omega

theorem regionEnd_mono (total ck a b : Nat) (hck : 7 * ck + 1 < total ∧ total ≤ 8 * ck) (hab : a ≤ b) (hb : b ≤ 8) :
    regionEnd total ck a ≤ regionEnd total ck b := by
  unfold regionEnd
  by_cases ha8 : a = 8
  · have : b = 8 := by omega
    rw [if_pos ha8, if_pos this]; exact Nat.le_refl _
  · rw [if_neg ha8]
    have h1 : a * ck ≤ 7 * ck := Nat.mul_le_mul_right _ (by omega)
    split
    · omega
    · exact Nat.mul_le_mul_right _ hab

/-- the single-lane loop over the chunks `c .. lc-1` writes only inside `[c*ck, regionEnd lc)` -/
theorem singleLoop_within (sh : Shared) (total ck : Nat) (hck : 7 * ck + 1 < total ∧ total ≤ 8 * ck)
    (lc : Nat) (hlc : lc ≤ 8) (fuel c start : Nat) (hc : c ≤ lc) (hstart : c < lc → start = c * ck) (dst : Array Nat) :
    OkP (Within (fun pos => c * ck ≤ pos ∧ pos < regionEnd total ck lc) dst)
      (singleLoop sh total ck lc fuel c start dst) := by
  induction fuel generalizing c start dst with
  | zero => intro d hd; injection hd with hd; subst hd; exact Within.refl _ dst
  | succ f ih =>
    intro d hd
    simp only [singleLoop] at hd
    split at hd
    · next hlt =>
      have hs := hstart hlt
      subst hs
      have hc7 : c ≤ 7 := by omega
      have hsucc : (c + 1) * ck = c * ck + ck := Nat.succ_mul c ck
      cases hidx : sh.indexes[c]? with
      | none => rw [hidx] at hd; cases hd
      | some p =>
        rw [hidx] at hd
        simp only at hd
        obtain ⟨d1, h1, h2⟩ := Res.bind_eq_ok hd
        have hd1 := chunk_within sh total ck hck c hc7 p dst d1 h1
        have hnext := ih (c + 1) (min (c * ck + ck) (total - 1)) (by omega) (by
          intro hlt2
          have h1 : (c + 1) * ck ≤ 7 * ck := Nat.mul_le_mul_right _ (by omega)
          omega) d1 d h2
        have hmono := regionEnd_mono total ck (c + 1) lc hck (by omega) hlc
        refine (hd1.mono ?_).trans (hnext.mono ?_)
        · intro pos ⟨a1, a2⟩; exact ⟨a1, by omega⟩
        · intro pos ⟨a1, a2⟩; exact ⟨by omega, a2⟩
    · injection hd with hd; subst hd; exact Within.refl _ dst

/-- A TASK WRITES ONLY INSIDE ITS OWN RANGE, whatever the tables hold. -/
theorem task_within (sh : Shared) (total ck : Nat) (hck : 7 * ck + 1 < total ∧ total ≤ 8 * ck)
    (fc lc : Nat) (hfc : fc < lc) (hlc : lc ≤ 8) (dst : Array Nat) :
    OkP (Within (fun pos => fc * ck ≤ pos ∧ pos < regionEnd total ck lc) dst)
      (task sh dst total (fc * ck) ck fc lc) := by
  intro d hd
  unfold task at hd
  split at hd
  · cases hd
  · simp only [] at hd
    split at hd
    · next hun =>
      -- the unrolled loop: fc = 0, lc = 8, total = 8 * ck
      have hfc0 : fc = 0 := by omega
      have hl8 : lc = 8 := by omega
      subst hfc0; subst hl8
      have hre : regionEnd total ck 8 = total := by unfold regionEnd; rw [if_pos rfl]
      rw [hre]
      obtain ⟨x, hx, hsl⟩ := Res.bind_eq_ok hd
      cases hps : mapRes (fun k => Res.ofOpt (sh.indexes[0 + k]?)) (List.range 8) with
      | fault => rw [hps] at hx; cases hx
      | hang => rw [hps] at hx; cases hx
      | err e => rw [hps] at hx; cases hx
      | ok ps =>
        rw [hps] at hx
        simp only at hx
        obtain ⟨d1, hl, hx2⟩ := Res.bind_eq_ok hx
        injection hx2 with hx2; subst hx2
        simp only [singleLoop] at hsl
        rw [if_neg (by omega)] at hsl
        injection hsl with hsl; subst hsl
        apply lanesLoop_within (fun pos => 0 * ck ≤ pos ∧ pos < total) sh _ _ _ _ dst ?_ d1 hl
        intro t ht b hb
        have hb' : b ∈ (List.range 8).map (· * ck) := by
          obtain ⟨l, hl', rfl⟩ := List.mem_map.1 hb
          exact (List.of_mem_zip hl').2
        obtain ⟨k, hk, rfl⟩ := List.mem_map.1 hb'
        have hk8 := List.mem_range.1 hk
        have hmul : k * ck ≤ 7 * ck := Nat.mul_le_mul_right _ (by omega)
        have hle := pairCount_le _ _ t ht
        constructor
        · omega
        · intro hsec
          have : 0 * ck + 1 + 2 * t < 0 * ck + ck := by simpa using hsec
          omega
    · rw [Res.bind_ok] at hd
      exact singleLoop_within sh total ck hck lc hlc 8 fc (fc * ck) (by omega) (fun _ => rfl) dst d hd

/-- the ranges handed out by `chunkRanges` follow one another -/
theorem chunkRanges_ordered (l : List Nat) (c : Nat) :
    (Kanzi.Jobs.chunkRanges l c).Pairwise (fun p q => p.2 ≤ q.1) ∧ ∀ p ∈ Kanzi.Jobs.chunkRanges l c, c ≤ p.1 := by
  induction l generalizing c with
  | nil => simp [Kanzi.Jobs.chunkRanges]
  | cons k ks ih =>
    obtain ⟨h1, h2⟩ := ih (c + k)
    simp only [Kanzi.Jobs.chunkRanges, List.pairwise_cons, List.mem_cons]
    refine ⟨⟨fun q hq => h2 q hq, h1⟩, ?_⟩
    rintro p (rfl | hp)
    · exact Nat.le_refl _
    · have := h2 p hp; omega

/-- the split of the 8 chunks among `min(jobs, 8)` tasks: non-empty consecutive ranges inside `0 .. 8` -/
theorem split8 (jobs : Nat) (hj : 1 ≤ jobs) :
    ∃ rs, Kanzi.Jobs.bwtSplit jobs 8 = .ok rs ∧ (∀ r ∈ rs, r.1 < r.2 ∧ r.2 ≤ 8) ∧
      rs.Pairwise (fun p q => p.2 ≤ q.1) := by
  refine ⟨_, Kanzi.Jobs.bwtSplit_ok jobs 8 hj (by omega), ?_, (chunkRanges_ordered _ 0).1⟩
  have : min jobs 8 = 1 ∨ min jobs 8 = 2 ∨ min jobs 8 = 3 ∨ min jobs 8 = 4 ∨ min jobs 8 = 5 ∨ min jobs 8 = 6 ∨
      min jobs 8 = 7 ∨ min jobs 8 = 8 := by omega
  rcases this with h | h | h | h | h | h | h | h <;> rw [h] <;> decide

/-- TASKS WRITE DISJOINT RANGES.  For every block of at least 256 bytes (8 chunks) and every job count:
each task of the split changes `dst` only inside its range `[fc*ck, regionEnd lc)` — for ANY contents of
the shared tables, valid or forged — and the ranges of different tasks are disjoint and inside the block. -/
theorem tasks_disjoint (jobs total : Nat) (hj : 1 ≤ jobs) (ht : 256 ≤ total) :
    ∃ rs, Kanzi.Jobs.bwtSplit jobs (getBWTChunks total) = .ok rs ∧
      (∀ r ∈ rs, ∀ (sh : Shared) (dst dst' : Array Nat),
        task sh dst total (r.1 * chunkSize total 8) (chunkSize total 8) r.1 r.2 = .ok dst' →
        dst'.size = dst.size ∧
        ∀ pos, (pos < r.1 * chunkSize total 8 ∨ regionEnd total (chunkSize total 8) r.2 ≤ pos) →
          rd dst' pos = rd dst pos) ∧
      rs.Pairwise (fun p q => regionEnd total (chunkSize total 8) p.2 ≤ q.1 * chunkSize total 8) ∧
      (∀ r ∈ rs, r.1 * chunkSize total 8 < regionEnd total (chunkSize total 8) r.2 ∧
        regionEnd total (chunkSize total 8) r.2 ≤ total) := by
  have hch : getBWTChunks total = 8 := by unfold getBWTChunks THRESHOLD1; rw [if_neg (by omega)]
  obtain ⟨rs, hsplit, hr, hord⟩ := split8 jobs hj
  have hck : 7 * chunkSize total 8 + 1 < total ∧ total ≤ 8 * chunkSize total 8 := by
    unfold chunkSize; split <;> omega
  refine ⟨rs, by rw [hch]; exact hsplit, ?_, ?_, ?_⟩
  · intro r hmem sh dst dst' hok
    obtain ⟨h1, h2⟩ := hr r hmem
    have := task_within sh total (chunkSize total 8) hck r.1 r.2 h1 h2 dst dst' hok
    refine ⟨this.1, ?_⟩
    intro pos hpos
    apply this.2
    intro ⟨a1, a2⟩
    omega
  · have := List.Pairwise.and_mem.1 hord
    refine this.imp ?_
    intro p q ⟨hp, hq, hpq⟩
    obtain ⟨q1, q2⟩ := hr q hq
    have hp7 : p.2 ≤ 7 := by omega
    unfold regionEnd
    rw [if_neg (by omega)]
    exact Nat.mul_le_mul_right _ hpq
  · intro r hmem
    obtain ⟨h1, h2⟩ := hr r hmem
    have hmul : r.1 * chunkSize total 8 ≤ 7 * chunkSize total 8 := Nat.mul_le_mul_right _ (by omega)
    unfold regionEnd
    split
    · omega
    · have h3 : r.2 * chunkSize total 8 ≤ 7 * chunkSize total 8 := Nat.mul_le_mul_right _ (by omega)
      have h4 : (r.1 + 1) * chunkSize total 8 ≤ r.2 * chunkSize total 8 := Nat.mul_le_mul_right _ (by omega)
      rw [Nat.succ_mul] at h4
      have : 0 < chunkSize total 8 := by omega
      omega

end Kanzi.BWT
