/-
Line-protocol driver of the `fsd` stream (see harness/cmd/kv/fsd.go).  Core Lean only.

    ff <ctx> <dt> <dstlen> <data>    FSDCodec.Forward, then (on success) FSDCodec.Inverse of the output
                                     into a destination of len(data) bytes
         -> ok <out> | inv <res> [ctx=<k|->]   res = ok <out> | err:<class> | panic
          | declined:<class> [ctx=<k|->]       class = dst | small | skip | magic | full | nogain
          | panic                               ctx= (only with <ctx> = 1): the dataType entry after the call
    fi <dstlen> <data>               FSDCodec.Inverse on arbitrary input
         -> ok <out> | err:<class> | panic      class = small | dist | data | dst | mode

`<ctx>`: `0` = NewFSDCodec(), `1` = NewFSDCodecWithCtx; `<dt>`: `-` (no dataType entry) or the DataType number.
`<data>`, `<out>`: as in the `rlt` stream (`-` / comma separated hex or `HH*count` chunks; `<len> <hex>` up
to 64 bytes, else `<len> #<fnv1a-64>`).
-/
import Kanzi.Model.FSD
import Kanzi.Drv.RLT

namespace Kanzi.Drv
open Kanzi.FSD

def fsdShowInv (r : Kanzi.RLT.Res) : String :=
  match r with
  | .ok o => "ok " ++ rltOut o
  | .err e => "err:" ++ e
  | .fault _ => "panic"

def fsd (line : String) : String :=
  match (line.splitOn " ").filter (· ≠ "") with
  | ["ff", c, dts, d, h] =>
    let dt? : Option Nat := if dts = "-" then some 0 else dts.toNat?
    match dt?, d.toNat?, rltData h with
    | some dt, some d, some b =>
      if c = "0" ∧ dts ≠ "-" then "bad-op" else
      let ctxs := if c = "0" then "" else
        match fsdCtxWrite dt b d with
        | some k => s!" ctx={k}"
        | none => if dts = "-" then " ctx=-" else s!" ctx={dt}"
      match fsdForward dt b d with
      | .ok t => s!"ok {rltOut t} | inv {fsdShowInv (fsdInverse t b.length)}{ctxs}"
      | .err e => "declined:" ++ e ++ ctxs
      | .fault _ => "panic"
    | _, _, _ => "bad-op"
  | ["fi", d, h] =>
    match d.toNat?, rltData h with
    | some d, some b => fsdShowInv (fsdInverse b d)
    | _, _ => "bad-op"
  | _ => "bad-op"

end Kanzi.Drv
