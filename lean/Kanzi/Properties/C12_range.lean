/-
C12 (order-0 range coder) — `RangeEncoder.Write` / `RangeDecoder.Read` of v2/entropy/RangeCodec.go.
Property theorems only; proofs live in `Kanzi/Proofs/Range.lean` (renormalisation, one step, payload)
and `Kanzi/Proofs/RangeChunk.lean` (tables, chunk, block).  The model (`Kanzi/Model/Range.lean`) is
tied byte-identically to /repo by the `range` correspondence stream.

Every round trip is in the "exact consumption" form  dec (enc x ++ rest) = some (x, rest)  for EVERY
continuation `rest`: the decoder reads exactly the bits the encoder wrote, so whatever follows the
block in the same bitstream is read correctly.

Registers.  `low`, `rng`, `code` are the Go `uint64` registers.  `L = low mod 2^60` is the live part
of `low` (the Go code never masks the 4 bits above; they are kept by the model and shown irrelevant).

  `Inv low rng`   :  low < 2^64,  0 < rng,  L + rng ≤ 2^60,  and  L + rng = 2^60 → 2^32 ≤ L
  `Win low rng R` :  R (the bits the encoder still has to write from this state on) has at least 60
                     bits and its first 60 bits, as a number, lie in [L, L + rng)
  `DecInv low code R` : code < 2^64 and (code − low) mod 2^64 + L = first 60 bits of R, i.e. the
                     decoder's `code` register is the 60-bit window on R (with the same stale high
                     bits as `low`).

Exact consumption is by construction of the argument: at every shift the encoder writes 28 bits and
the decoder reads 28 bits (same loop on the same `(low, rng)`), the decoder starts 60 bits ahead
(`code = ReadBits(60)`) and the encoder ends with a 60-bit flush of `low`.
-/
import Kanzi.Model.Range
import Kanzi.Proofs.Range
import Kanzi.Proofs.RangeChunk

namespace Kanzi.C12
open Kanzi.Bits Kanzi.EntSmall Kanzi.Range

/-! ## 1. the carry-less renormalisation terminates and keeps the range positive -/

/-- the initial registers of every chunk (`low = 0`, `rng = _TOP_RANGE`) satisfy the invariant, with
    `rng > _BOTTOM_RANGE` -/
theorem C12_range_init : Inv 0 topRange ∧ bottomRange < topRange := ⟨inv_init, by decide⟩

/-- **C12_range_renorm.**  The loop `for { if (low^(low+rng))&MASK != 0 { if rng > BOTTOM {break};
rng = -low & BOTTOM }; write/read 28 bits; rng <<= 28; low <<= 28 }` has no bound in Go.  From every
state satisfying the invariant (all reachable states do: `C12_range_init`, `C12_range_step`):
  * it leaves through its `break` after at most TWO shifts: with 3 units of fuel (evaluations of the
    loop head) or with any larger amount the model loop returns the same result, in the encoder
    (`normLoop`) and in the decoder (`decNorm`, on any input bits);
  * at most 56 bits are written;
  * on exit the invariant holds again and `rng > _BOTTOM_RANGE = 0xFFFF`: in particular the range
    never becomes 0 (no division by zero in `decodeByte`, no endless loop), and the `rng >>= shift`
    of the next step (`shift ≤ 16`) leaves a positive range. -/
theorem C12_range_renorm (low rng : Nat) (h64 : low < 2 ^ 64) (hpos : 0 < rng)
    (hle : low % 2 ^ 60 + rng ≤ 2 ^ 60) (htop : low % 2 ^ 60 + rng = 2 ^ 60 → 2 ^ 32 ≤ low % 2 ^ 60) :
    (∀ k, normLoop (3 + k) low rng = normLoop 3 low rng) ∧
    (∀ k code bs, decNorm (3 + k) low rng code bs = decNorm 3 low rng code bs) ∧
    normRng (normLoop 3 low rng).2.1 (normLoop 3 low rng).2.2 = none ∧
    (normLoop 3 low rng).1.length ≤ 56 ∧
    Inv (normLoop 3 low rng).2.1 (normLoop 3 low rng).2.2 ∧
    bottomRange < (normLoop 3 low rng).2.2 := by
  have hi : Inv low rng := ⟨h64, hpos, hle, htop⟩
  have hf : FuelOk rng 3 := by unfold FuelOk; omega
  obtain ⟨s1, s2, s3, s4, _⟩ := normLoop_spec 3 low rng hi hf
  exact ⟨fun k => normLoop_fuel 3 k low rng hi hf, fun k code bs => decNorm_fuel 3 k low rng code bs hi hf,
    s3, s4, s1, s2⟩

/-- the model's loops (fuel `normFuel` = 64) are therefore the Go loops -/
theorem C12_range_renorm_model (low rng : Nat) (hi : Inv low rng) :
    normLoop normFuel low rng = normLoop 3 low rng ∧
    ∀ code bs, decNorm normFuel low rng code bs = decNorm 3 low rng code bs := by
  have hf : FuelOk rng 3 := by unfold FuelOk; omega
  exact ⟨normLoop_fuel 3 61 low rng hi hf, fun code bs => decNorm_fuel 3 61 low rng code bs hi hf⟩

example : Inv 0x0FFFFFFF12345678 0x9000 := ⟨by decide, by decide, by decide, by decide⟩

/-! ## 2. one encodeByte / decodeByte pair -/

/-- **C12_range_step.**  `cum` / `f2s` are the tables `cumFreqs` / `f2s`; `SymTab cum f2s shift s`
says: the frequency of `s` is positive (`cum[s] < cum[s+1]`), `cum[s+1] ≤ 2^shift`, and `f2s[j] = s`
for every slot `cum[s] ≤ j < cum[s+1]` (the tables built by the Go code from ANY frequency table
summing to `2^shift` have this property for every symbol of positive frequency:
`C12_range_tables`).  Encoder and decoder are at the same `(low, rng)`, which satisfies the
invariant with `rng > _BOTTOM_RANGE`, `shift ≤ 16`.  Let `n = encStep …` be the result of
`encodeByte(s)`: the bits written `n.1` and the new registers `(n.2.1, n.2.2)`.  Then
  * the new registers satisfy the invariant and `rng > _BOTTOM_RANGE` again; at most 56 bits written;
  * for every continuation `R` of the encoder's output whose window lies in the new interval:
    the window of `n.1 ++ R` lies in the old interval `[L, L+rng)`, and
  * a decoder whose `code` is the window on `n.1 ++ R` and whose unread input is the rest of
    `n.1 ++ R` followed by anything: `decodeByte` returns exactly `s`, ends with the SAME
    `(low, rng)` as the encoder, has consumed exactly `|n.1|` bits (what remains is the rest of `R`),
    its `code` is the window on `R`, and lies inside `[low, low + rng)`. -/
theorem C12_range_step (cum f2s : Array Nat) (shift low rng s : Nat) (hi : Inv low rng)
    (hb : bottomRange < rng) (hs : shift ≤ 16) (ht : SymTab cum f2s shift s) :
    Inv (encStep shift low rng (cum.getD s 0) (cum.getD (s + 1) 0 - cum.getD s 0)).2.1
        (encStep shift low rng (cum.getD s 0) (cum.getD (s + 1) 0 - cum.getD s 0)).2.2 ∧
    bottomRange < (encStep shift low rng (cum.getD s 0) (cum.getD (s + 1) 0 - cum.getD s 0)).2.2 ∧
    (encStep shift low rng (cum.getD s 0) (cum.getD (s + 1) 0 - cum.getD s 0)).1.length ≤ 56 ∧
    ∀ (R : Bits), Win (encStep shift low rng (cum.getD s 0) (cum.getD (s + 1) 0 - cum.getD s 0)).2.1
        (encStep shift low rng (cum.getD s 0) (cum.getD (s + 1) 0 - cum.getD s 0)).2.2 R →
      Win low rng ((encStep shift low rng (cum.getD s 0) (cum.getD (s + 1) 0 - cum.getD s 0)).1 ++ R) ∧
      ∀ (code : Nat) (rest : Bits),
        DecInv low code ((encStep shift low rng (cum.getD s 0) (cum.getD (s + 1) 0 - cum.getD s 0)).1 ++ R) →
        ∃ code', decStep cum f2s shift low rng code
            (((encStep shift low rng (cum.getD s 0) (cum.getD (s + 1) 0 - cum.getD s 0)).1 ++ R).drop 60 ++ rest)
          = some ((s, (encStep shift low rng (cum.getD s 0) (cum.getD (s + 1) 0 - cum.getD s 0)).2.1,
                      (encStep shift low rng (cum.getD s 0) (cum.getD (s + 1) 0 - cum.getD s 0)).2.2, code'),
                  R.drop 60 ++ rest) ∧
          DecInv (encStep shift low rng (cum.getD s 0) (cum.getD (s + 1) 0 - cum.getD s 0)).2.1 code' R ∧
          (code' + 2 ^ 64 - (encStep shift low rng (cum.getD s 0) (cum.getD (s + 1) 0 - cum.getD s 0)).2.1) % 2 ^ 64
            < (encStep shift low rng (cum.getD s 0) (cum.getD (s + 1) 0 - cum.getD s 0)).2.2 := by
  obtain ⟨h1, h2, h3, h4⟩ := step_spec cum f2s shift low rng s hi hb hs ht
  refine ⟨h1, h2, h3, ?_⟩
  intro R hw
  obtain ⟨h5, h6⟩ := h4 R hw
  refine ⟨h5, ?_⟩
  intro code rest hd
  obtain ⟨code', e1, e2⟩ := h6 code rest hd
  exact ⟨code', e1, e2, code_in_range _ _ _ R hw e2⟩

/-- the tables `cumFreqs` (`mkCum`) and `f2s` (`mkF2s`) built from any frequency table summing to
    `2^lr` satisfy `SymTab` for every symbol of positive frequency -/
theorem C12_range_tables (f : List Nat) (lr s : Nat) (hsum : f.sum = 2 ^ lr) (hs : s < f.length)
    (hpos : 0 < f.getD s 0) : SymTab (mkCum f) (mkF2s f) lr s :=
  symTab_mk f lr s hsum hs hpos

/-! ## 3. one chunk -/

/-- **C12_range_payload.**  Any frequency table `f` summing to `2^lr`, `lr ≤ 16`; any chunk `c`
(every length, 0 included) whose symbols have a positive frequency.  The payload written by the
encoder is `encTail … c 0 _TOP_RANGE` = the words of all `encodeByte` calls followed by the flush
`WriteBits(low, 60)`.  The decoder (`code = ReadBits(60)`, then `|c|` × `decodeByte`) returns
exactly `c` and leaves exactly `rest`. -/
theorem C12_range_payload (f : List Nat) (lr : Nat) (hlr : lr ≤ 16) (hsum : f.sum = 2 ^ lr)
    (c : List Nat) (hsym : ∀ a ∈ c, a < f.length ∧ 0 < f.getD a 0) (rest : Bits) :
    decodePayload f lr c.length (encTail (mkCum f) lr c 0 topRange ++ rest) = some (c, rest) :=
  payload_table_rt f lr hlr hsum c hsym rest

/-- **C12_range_chunk.**  `a` = alphabet (strictly increasing, non empty, symbols < 256), `f` = the
256-entry table, zero outside `a`, positive on `a`, summing to `2^lr`, `8 ≤ lr ≤ 15` (the hypotheses
of `C12_freq_header`); `c` = ANY chunk whose symbols all belong to `a`.  On the encoder's output
`header ++ payload` followed by any `rest`: `decodeHeader` returns exactly `(a, f, lr)` and leaves
`payload ++ rest`; then the payload decoder, with the tables rebuilt from the decoded `f`, returns
exactly `c` and leaves exactly `rest`. -/
theorem C12_range_chunk (a f c : List Nat) (lr : Nat) (hlr : 8 ≤ lr ∧ lr ≤ 15)
    (hs : a.Pairwise (· < ·)) (ha : ∀ s ∈ a, s < 256) (hne : a ≠ [])
    (hlen : f.length = 256) (hz : ∀ i, i ∉ a → f.getD i 0 = 0) (hpos : ∀ s ∈ a, 1 ≤ f.getD s 0)
    (hsum : (a.map (fun s => f.getD s 0)).sum = 2 ^ lr)
    (hc : ∀ b ∈ c, b ∈ a) (rest : Bits) :
    rangeDecodeHeader (rangeEncodeHeader a f lr ++ (encTail (mkCum f) lr c 0 topRange ++ rest))
      = some ((a, f, lr), encTail (mkCum f) lr c 0 topRange ++ rest) ∧
    decodePayload f lr c.length (encTail (mkCum f) lr c 0 topRange ++ rest) = some (c, rest) := by
  have hle : ∀ s ∈ a, f.getD s 0 ≤ 2 ^ lr := by
    intro s hsa
    rw [← hsum]
    exact mem_le_sum _ _ (List.mem_map.mpr ⟨s, hsa, rfl⟩)
  have ht : FreqTable a f lr := ⟨hs, ha, hne, hlen, hz, hpos, hle⟩
  refine ⟨range_header_roundtrip a f lr hlr ht hsum _, ?_⟩
  exact payload_table_rt f lr (by omega) (table_sum a f lr ht hsum) c
    (fun b hb => ⟨by have := ha b (hc b hb); omega, hpos b (hc b hb)⟩) rest

/-- the hypotheses of `C12_range_chunk` are satisfiable (two symbols, 100 + 156 = 2^8) -/
example : decodePayload (100 :: 156 :: List.replicate 254 0) 8 [0, 1, 1, 0, 1].length
    (encTail (mkCum (100 :: 156 :: List.replicate 254 0)) 8 [0, 1, 1, 0, 1] 0 topRange ++ [true])
    = some ([0, 1, 1, 0, 1], [true]) := by
  refine (C12_range_chunk [0, 1] (100 :: 156 :: List.replicate 254 0) [0, 1, 1, 0, 1] 8
    ⟨by omega, by omega⟩ (by decide) (by decide) (by decide) ?_ ?_ ?_ rfl (by decide) [true]).2
  · rw [List.length_cons, List.length_cons, List.length_replicate]
  · intro i hi
    match i with
    | 0 => exact absurd (List.mem_cons_self) hi
    | 1 => exact absurd (List.mem_cons_of_mem _ List.mem_cons_self) hi
    | j + 2 => exact getD_replicate_zero 254 j
  · intro s hs
    rcases List.mem_cons.mp hs with rfl | hs
    · exact (by decide : 1 ≤ 100)
    · rcases List.mem_cons.mp hs with rfl | hs
      · exact (by decide : 1 ≤ 156)
      · cases hs

/-- one chunk of `Write` on its own (`lr` = the log range after the lowering for short chunks,
`8 ≤ lr ≤ 15`): for a non-empty chunk of bytes the statistics step succeeds with a non-empty
alphabet (C16), the header round trips, a single-symbol chunk is constant (the decoder fills it from
the alphabet alone, nothing else is written) and the payload round trips with the tables built from
the normalised frequencies. -/
theorem C12_range_one_chunk (c : List Nat) (lr : Nat) (hlr : 8 ≤ lr ∧ lr ≤ 15) (hne : c ≠ [])
    (hb : ∀ b ∈ c, b < 256) :
    ∃ o, Kanzi.Normalize.normalize (histogram c) c.length (2 ^ lr) = .ok o ∧
      o.alphabet.length = o.size ∧ o.alphabet ≠ [] ∧
      (∀ rest : Bits, rangeDecodeHeader (rangeEncodeHeader o.alphabet o.freqs lr ++ rest)
          = some ((o.alphabet, o.freqs, lr), rest)) ∧
      (o.alphabet.length = 1 → c = List.replicate c.length (o.alphabet.headD 0)) ∧
      (∀ rest : Bits, decodePayload o.freqs lr c.length (encTail (mkCum o.freqs) lr c 0 topRange ++ rest)
          = some (c, rest)) :=
  oneChunk_facts c lr hlr hne hb

/-- the log range used for a chunk stays in `[8, logRange]` -/
theorem C12_range_chunk_lr (logRange len : Nat) (h : 8 ≤ logRange) :
    8 ≤ chunkLr logRange len ∧ chunkLr logRange len ≤ logRange :=
  chunkLr_bounds logRange len h

/-! ## 4. the whole block -/

/-- **C12_range_block.**  For every block of bytes (ANY length: 0 — nothing is written and nothing is
read —, tiny, one chunk, several chunks, a last short chunk, single-symbol chunks sent as a header
only), every chunk size `≥ 1` (the Go constructors accept 1024 … 2^30; 32768 by default) and
`8 ≤ logRange ≤ 15` (12 by default; 16 is accepted by the constructors but cannot be transmitted in
the 3-bit header field — recorded observation): `RangeEncoder.Write` + `Dispose` succeeds (per chunk:
lowering of the log range, histogram, `NormalizeFrequencies` — C16 —, header, payload, flush) and
`RangeDecoder.Read` asked for `blk.length` bytes returns exactly `blk` and consumes exactly the
written bits: whatever follows (`rest`) is left untouched. -/
theorem C12_range_block (blk : List Nat) (chunkSize logRange : Nat) (hlr : 8 ≤ logRange ∧ logRange ≤ 15)
    (hcs : 0 < chunkSize) (hb : ∀ b ∈ blk, b < 256) :
    ∃ enc, encode blk chunkSize logRange = some enc ∧
      ∀ rest : Bits, decode (enc ++ rest) blk.length chunkSize = some (blk, rest) :=
  block_rt blk chunkSize logRange hlr hcs hb

example : (8 ≤ defaultLogRange ∧ defaultLogRange ≤ 15) ∧ 0 < defaultChunkSize := by decide

end Kanzi.C12
