/-
ROLZX (`rolzCodec2`): the decoder follows the encoder through the first literals of a chunk, the main loop, the
chunk loop and the last literals; the whole round trip (`rolzx_roundtrip`).
-/
import Kanzi.Proofs.RolzxEnc

namespace Kanzi.ROLZ

/-! ## first literals of a chunk -/

theorem first_sim {S : List Nat} {a : Array Nat} {dstLen lim lpc : Nat} (hS : Bytes S) (ha : ∀ k, a.getD k 0 < 256) :
    ∀ (k i : Nat) (sF sF' : FSt) (sI : ISt), EncOk sF → Rel S a lpc i sF sI → i + k ≤ lim → lim ≤ sI.dst.size →
    fwdFirst a dstLen lim k i sF = .ok sF' → Good S sF'.enc →
    ∃ sI', invFirst S.toArray lim k i sI = .ok sI' ∧ Rel S a lpc (i + k) sF' sI' ∧ sI'.dst.size = sI.dst.size ∧
      sI'.tab = sI.tab ∧ sF'.tab = sF.tab := by
  intro k
  induction k with
  | zero =>
    intro i sF sF' sI _ hrel _ _ h _
    simp only [fwdFirst] at h
    injection h with h
    subst h
    exact ⟨sI, by simp [invFirst], hrel, rfl, rfl, rfl⟩
  | succ k ih =>
    intro i sF sF' sI ho hrel hik hsz h hg
    simp only [fwdFirst] at h
    split at h
    · cases h
    · rename_i v hv
      obtain ⟨hilt, hvv⟩ := rd1_some hv
      split at h
      · rename_i s1 hs1
        have hvb : v < 256 := by rw [hvv]; exact ha i
        obtain ⟨o1, _, t1, _⟩ := encLit9_enc hS hs1 ho
        obtain ⟨_, b2, _⟩ := fwdFirst_enc hS _ _ _ _ h o1
        have g1 := b2 hg
        obtain ⟨sI1, hd1, e1, e2, e3, e4, r1, i1, p1, _⟩ :=
          lit9_sim hS hrel.einv hrel.plok hrel.pl hrel.drel hs1 g1
        obtain ⟨_, ht', hpm'⟩ := encLit9_ok hs1
        have hrel1 : Rel S a lpc (i + 1) s1 ⟨sI1.tab, sI1.dec, sI1.pl, sI1.pm, sI1.dst.setIfInBounds i v⟩ := by
          refine ⟨i1, r1, e1, by simp only; rw [e2, hrel.pm, hpm'], p1, by rw [hpm']; exact hrel.pmok, ?_,
            by rw [ht']; exact hrel.tokE, by simp only; rw [e3]; exact hrel.tokD⟩
          intro j hj
          simp only
          rw [getD_setIfInBounds, e4]
          by_cases hji : j = i
          · rw [if_pos ⟨hji, by omega⟩, hji, hvv]
          · rw [if_neg (fun hc2 => hji hc2.1)]
            exact hrel.agree j (by omega)
        obtain ⟨sI', hd', r', z', t', tF'⟩ := ih (i + 1) s1 sF' _ o1 hrel1 (by omega)
          (by simp only [Array.size_setIfInBounds, e4]; exact hsz) h hg
        refine ⟨sI', ?_, by rw [show i + (k + 1) = i + 1 + k by omega]; exact r', ?_, ?_, by rw [tF', t1]⟩
        · simp only [invFirst, hd1]
          have hv8 : ¬ ((256 + v) % 512) >>> 8 = 0 := by
            rw [Nat.shiftRight_eq_div_pow]; omega
          rw [if_neg hv8, if_pos hilt]
          have : (256 + v) % 512 % 256 = v := by omega
          rw [this]
          exact hd'
        · rw [z']; simp only [Array.size_setIfInBounds, e4]
        · rw [t']; simp only; exact e3
      · cases h
      · cases h

/-! ## the main loop of a chunk -/

theorem loop_sim {S : List Nat} {a : Array Nat} {dstLen dstEnd base lim mm delta lpc : Nat} (hS : Bytes S)
    (ha : ∀ k, a.getD k 0 < 256) (hpar : ParamsOk mm delta) (hmm : 3 ≤ mm ∧ mm ≤ 7)
    (hlimE : lim ≤ dstEnd) (hchunk : lim - base ≤ 2 ^ 24) :
    ∀ (f i : Nat) (sF : FSt) (r : Nat × FSt) (fD : Nat) (sI : ISt), (base + 8 ≤ i ∨ lim ≤ i) → i ≤ lim → lim - i + 1 ≤ fD →
    EncOk sF → Rel S a lpc i sF sI → TRel lpc base lim mm i sF.tab sI.tab → lim ≤ sI.dst.size →
    fwdLoop a dstLen base lim mm delta lpc f i sF = .ok r → Good S r.2.enc →
    ∃ sI', invLoop S.toArray dstEnd base lim mm delta lpc fD i sI = .ok (r.1, sI') ∧ Rel S a lpc r.1 r.2 sI' ∧
      sI'.dst.size = sI.dst.size ∧ r.1 = lim := by
  intro f
  induction f with
  | zero => intro i sF r fD sI _ _ _ _ _ _ _ h; simp [fwdLoop] at h
  | succ f ih =>
    intro i sF r fD sI hbi hile hfD ho hrel htr hsz h hg
    simp only [fwdLoop] at h
    match fD, hfD with
    | fD + 1, hfD =>
    simp only [invLoop]
    split at h
    · rename_i hil
      rw [if_pos hil]
      split at h
      · rename_i r1 hr1
        have hbi' : base + 8 ≤ i := by omega
        obtain ⟨o1, _⟩ := fwdStep_enc hS (i' := r1.1) (s' := r1.2) hr1 ho
        obtain ⟨_, b2⟩ := fwdLoop_enc hS _ _ _ _ h o1
        have g1 := b2 hg
        obtain ⟨sI1, hd1, rel1, z1, tr1, hlt1, hle1, _⟩ :=
          step_sim hS ha hpar hmm hbi' hlimE hchunk hrel hsz htr (i' := r1.1) (sF' := r1.2) hr1 g1
        obtain ⟨sI', hd', rel', z', hfin⟩ := ih r1.1 r1.2 r fD sI1 (by omega) hle1 (by omega) o1 rel1 tr1
          (by rw [z1]; exact hsz) h hg
        refine ⟨sI', ?_, rel', by rw [z', z1], hfin⟩
        rw [hd1]
        exact hd'
      · cases h
      · cases h
    · rename_i hil
      injection h with h
      subst h
      rw [if_neg hil]
      exact ⟨sI, rfl, hrel, rfl, by simp only; omega⟩

/-! ## the last literals -/

theorem last_sim {S : List Nat} {a : Array Nat} {dstLen lpc : Nat} (hS : Bytes S) (ha : ∀ k, a.getD k 0 < 256) :
    ∀ (k i : Nat) (sF sF' : FSt) (sI : ISt), EncOk sF → Rel S a lpc i sF sI → 0 < i → i + k ≤ sI.dst.size →
    fwdLast a dstLen k i sF = .ok sF' → Good S sF'.enc →
    ∃ sI', invLast S.toArray k i sI = .ok (i + k, sI') ∧ Rel S a lpc (i + k) sF' sI' ∧ sI'.dst.size = sI.dst.size := by
  intro k
  induction k with
  | zero =>
    intro i sF sF' sI _ hrel _ _ h _
    simp only [fwdLast] at h
    injection h with h
    subst h
    exact ⟨sI, by simp [invLast], hrel, rfl⟩
  | succ k ih =>
    intro i sF sF' sI ho hrel hi0 hsz h hg
    simp only [fwdLast] at h
    rw [if_neg (by omega)] at h
    split at h
    · rename_i c v hc hv
      obtain ⟨_, hcv⟩ := rd1_some hc
      obtain ⟨_, hvv⟩ := rd1_some hv
      split at h
      · rename_i s1 hs1
        have hvb : v < 256 := by rw [hvv]; exact ha i
        obtain ⟨o1, _, _⟩ := encLit9_enc hS hs1 ho
        obtain ⟨_, b2⟩ := fwdLast_enc hS _ _ _ _ h o1
        have g1 := b2 hg
        obtain ⟨sI1, hd1, e1, e2, e3, e4, r1, i1, p1, _⟩ :=
          lit9_sim hS hrel.einv hrel.plok hrel.pl hrel.drel hs1 g1
        obtain ⟨_, ht', hpm'⟩ := encLit9_ok hs1
        have hrel1 : Rel S a lpc (i + 1) s1 ⟨sI1.tab, sI1.dec, sI1.pl, sI1.pm, sI1.dst.setIfInBounds i v⟩ := by
          refine ⟨i1, r1, e1, by simp only; rw [e2, hrel.pm, hpm'], p1, by rw [hpm']; exact hrel.pmok, ?_,
            by rw [ht']; exact hrel.tokE, by simp only; rw [e3]; exact hrel.tokD⟩
          intro j hj
          simp only
          rw [getD_setIfInBounds, e4]
          by_cases hji : j = i
          · rw [if_pos ⟨hji, by omega⟩, hji, hvv]
          · rw [if_neg (fun hc2 => hji hc2.1)]
            exact hrel.agree j (by omega)
        obtain ⟨sI', hd', r', z'⟩ := ih (i + 1) s1 sF' _ o1 hrel1 (by omega)
          (by simp only [Array.size_setIfInBounds, e4]; omega) h hg
        refine ⟨sI', ?_, by rw [show i + (k + 1) = i + 1 + k by omega]; exact r', ?_⟩
        · simp only [invLast]
          rw [if_neg (by omega), rd1_eq (by omega : i - 1 < sI.dst.size), hrel.agree (i - 1) (by omega), ← hcv]
          simp only [hd1]
          have hv8 : ¬ ((256 + v) % 512) >>> 8 = 0 := by
            rw [Nat.shiftRight_eq_div_pow]; omega
          rw [if_neg hv8, if_pos (by rw [e4]; omega)]
          have : (256 + v) % 512 % 256 = v := by omega
          rw [this, show i + (k + 1) = i + 1 + k by omega]
          exact hd'
        · rw [z']; simp only [Array.size_setIfInBounds, e4]
      · cases h
      · cases h
    · cases h

/-! ## the chunk loop -/

theorem chunks_sim {S : List Nat} {a : Array Nat} {dstLen dstEnd srcEnd mm delta lpc : Nat} (hS : Bytes S)
    (ha : ∀ k, a.getD k 0 < 256) (hpar : ParamsOk mm delta) (hmm : 3 ≤ mm ∧ mm ≤ 7) (hse : srcEnd ≤ dstEnd) :
    ∀ (f st szE si : Nat) (sF : FSt) (r : Nat × Nat × Nat × FSt) (fD szD di : Nat) (sI : ISt),
    (szE = szD ∨ (st + szE ≥ srcEnd ∧ st + szD ≥ srcEnd)) → 0 < szE → 0 < szD → szE ≤ 2 ^ 24 →
    st ≤ srcEnd → (srcEnd - st) + szD ≤ fD * szD →
    EncOk sF → Rel S a lpc st sF sI → srcEnd ≤ sI.dst.size → (st < srcEnd ∨ (si = szE ∧ di = szD)) →
    fwdChunks a dstLen srcEnd mm delta lpc f st szE si sF = .ok r → Good S r.2.2.2.enc →
    ∃ rD, invChunks S.toArray dstEnd srcEnd mm delta lpc 8 fD st szD di sI = .ok rD ∧
      Rel S a lpc srcEnd r.2.2.2 rD.2.2.2 ∧ rD.2.2.2.dst.size = sI.dst.size ∧
      r.1 = r.2.2.1 ∧ r.2.1 = srcEnd ∧ rD.1 = rD.2.2.1 ∧ rD.2.1 = srcEnd := by
  intro f
  induction f with
  | zero => intro st szE si sF r fD szD di sI _ _ _ _ _ _ _ _ _ _ h; simp [fwdChunks] at h
  | succ f ih =>
    intro st szE si sF r fD szD di sI hsz hE0 hD0 hE24 hst hfuel ho hrel hdsz hpos h hg
    simp only [fwdChunks] at h
    -- the decoder has fuel left
    have hfD : 0 < fD := by
      rcases Nat.eq_zero_or_pos fD with h0 | h0
      · rw [h0, Nat.zero_mul] at hfuel; omega
      · exact h0
    match fD, hfD with
    | g + 1, _ =>
    have hsm : (g + 1) * szD = g * szD + szD := by rw [Nat.add_mul, Nat.one_mul]
    simp only [invChunks]
    split at h
    · rename_i hlt
      rw [if_pos hlt]
      -- both sides cut the same chunk
      have hend : (if st + szD > srcEnd then srcEnd else st + szD) = (if st + szE ≥ srcEnd then srcEnd else st + szE) := by
        rcases hsz with hsz | ⟨h1, h2⟩
        · subst hsz
          by_cases hc : st + szE ≥ srcEnd
          · rw [if_pos hc]
            by_cases hc2 : st + szE > srcEnd
            · rw [if_pos hc2]
            · rw [if_neg hc2]; omega
          · rw [if_neg hc, if_neg (by omega)]
        · rw [if_pos h1]
          by_cases hc2 : st + szD > srcEnd
          · rw [if_pos hc2]
          · rw [if_neg hc2]; omega
      rw [hend]
      generalize hedef : (if st + szE ≥ srcEnd then srcEnd else st + szE) = e at h ⊢
      have hest : st < e ∧ e ≤ srcEnd ∧ e - st ≤ szE ∧ (e = srcEnd ∨ (e = st + szE ∧ szE = szD)) := by
        rw [← hedef]
        by_cases hc : st + szE ≥ srcEnd
        · rw [if_pos hc]; exact ⟨hlt, Nat.le_refl _, by omega, Or.inl rfl⟩
        · rw [if_neg hc]
          refine ⟨by omega, by omega, by omega, Or.inr ⟨rfl, ?_⟩⟩
          rcases hsz with hsz | ⟨h1, _⟩
          · exact hsz
          · omega
      obtain ⟨he1, he2, he3, he4⟩ := hest
      split at h
      · rename_i s1 hs1
        split at h
        · rename_i r1 hr1
          -- the states after the resets
          have ho0 : EncOk ⟨⟨matches0 lpc, sF.tab.counters⟩, sF.enc, probs0 9, probs0 lpc⟩ :=
            ⟨ho.einv, probs0_ok 9, probs0_ok lpc, ho.bytes⟩
          have hrel0 : Rel S a lpc st ⟨⟨matches0 lpc, sF.tab.counters⟩, sF.enc, probs0 9, probs0 lpc⟩
              ⟨⟨matches0 lpc, sI.tab.counters⟩, sI.dec, probs0 9, probs0 lpc, sI.dst⟩ :=
            ⟨hrel.einv, hrel.drel, rfl, rfl, probs0_ok 9, probs0_ok lpc, hrel.agree,
              tabOk_clear _ _ hrel.tokE.cnt, tabOk_clear _ _ hrel.tokD.cnt⟩
          obtain ⟨o1, _, tF1⟩ := fwdFirst_enc hS _ _ _ _ hs1 ho0
          obtain ⟨o2, b2⟩ := fwdLoop_enc hS _ _ _ _ hr1 o1
          obtain ⟨_, b3⟩ := fwdChunks_enc hS _ _ _ _ _ _ h o2
          have g2 := b3 hg
          have g1 := b2 g2
          -- first literals
          obtain ⟨sI1, hd1, rel1, z1, tI1, _⟩ := first_sim hS ha (min 8 (e - st)) st _ s1 _ ho0 hrel0 (by omega)
            (by simp only; omega) hs1 g1
          -- main loop
          have hk0 : 0 < min 8 (e - st) := by omega
          have htr : TRel lpc st e mm (st + min 8 (e - st)) s1.tab sI1.tab := by
            intro _
            rw [tF1, tI1]
            exact ⟨ringEq_clear _ _ _, entLt_clear _ _ _ (by omega)⟩
          obtain ⟨sI2, hd2, rel2, z2, hfin⟩ := loop_sim hS ha hpar hmm (Nat.le_trans he2 hse) (by omega)
            (e - st + 1) (st + min 8 (e - st)) s1 r1 (e - st + 1) sI1 (by omega) (by omega) (by omega) o1 rel1 htr
            (by rw [z1]; simp only; omega) hr1 g2
          -- the remaining chunks
          have hfuel' : (srcEnd - e) + (e - st) ≤ g * (e - st) := by
            rcases he4 with he4 | ⟨he4, he5⟩
            · -- last chunk
              have hg1 : 0 < g := by
                rcases Nat.eq_zero_or_pos g with h0 | h0
                · have h1 : (g + 1) * szD = szD := by rw [h0, Nat.zero_add, Nat.one_mul]
                  omega
                · exact h0
              have := Nat.le_mul_of_pos_left (e - st) hg1
              omega
            · have e1 : e - st = szD := by omega
              rw [e1]; omega
          obtain ⟨rD, hd3, rel3, z3, q1, q2, q3, q4⟩ := ih e (e - st) (r1.1 - st) r1.2 r g (e - st) (r1.1 - st) sI2
            (Or.inl rfl) (by omega) (by omega) (by omega) he2 hfuel' o2 (by rw [← hfin]; exact rel2)
            (by rw [z2, z1]; exact hdsz) (Or.inr ⟨by rw [hfin], by rw [hfin]⟩) h hg
          refine ⟨rD, ?_, rel3, by rw [z3, z2, z1], q1, q2, q3, q4⟩
          rw [hd1]
          simp only
          rw [hd2]
          exact hd3
        · cases h
        · cases h
      · cases h
      · cases h
    · rename_i hge
      injection h with h
      subst h
      rw [if_neg hge]
      have : st = srcEnd := by omega
      rcases hpos with hp | ⟨hp1, hp2⟩
      · omega
      · exact ⟨_, rfl, by rw [← this]; exact hrel, rfl, hp1, this, hp2, this⟩

/-! ## the whole block -/

theorem toList_getD (x : Array Nat) (k : Nat) : x.toList.getD k 0 = x.getD k 0 := by
  simp [Array.getD_eq_getD_getElem?, List.getD_eq_getElem?_getD]

/-- the parameters chosen by Forward are recovered by Inverse from the flags byte (bitstream version 4 and later) -/
theorem fwdParams2_spec (ty : Nat) :
    ParamsOk (fwdParams2 ty).1 (fwdParams2 ty).2.1 ∧ 3 ≤ (fwdParams2 ty).1 ∧ (fwdParams2 ty).1 ≤ 7 ∧
    (fwdParams2 ty).2.2 < 256 ∧
    ∀ bsv, 4 ≤ bsv → invParams2 bsv (fwdParams2 ty).2.2 = ((fwdParams2 ty).1, (fwdParams2 ty).2.1, 5, 8) := by
  unfold fwdParams2
  split
  · refine ⟨Or.inl ⟨rfl, Or.inr rfl⟩, by decide, by decide, by decide, fun bsv hb => ?_⟩
    unfold invParams2
    rw [if_pos hb]
    rfl
  · split
    · refine ⟨Or.inr ⟨by decide, rfl⟩, by decide, by decide, by decide, fun bsv hb => ?_⟩
      unfold invParams2
      rw [if_pos hb]
      rfl
    · refine ⟨Or.inl ⟨rfl, Or.inl rfl⟩, by decide, by decide, by decide, fun bsv hb => ?_⟩
      unfold invParams2
      rw [if_pos hb]
      rfl

theorem header_getD (b0 b1 b2 b3 b4 : Nat) (h0 : b0 < 256) (h1 : b1 < 256) (h2 : b2 < 256) (h3 : b3 < 256)
    (h4 : b4 < 256) : ∀ k, (#[b0, b1, b2, b3, b4] : Array Nat).getD k 0 < 256 := by
  intro k
  match k with
  | 0 => exact h0
  | 1 => exact h1
  | 2 => exact h2
  | 3 => exact h3
  | 4 => exact h4
  | k + 5 =>
    rw [Array.getD_eq_getD_getElem?, Array.getElem?_eq_none (by simp)]
    decide

theorem beN8 (S : List Nat) (i : Nat) : beN S.toArray i 8 = S.getD i 0 * 2 ^ 56 + val7 S i := by
  simp only [beN, toArray_getD, Nat.add_zero, val7]
  omega

theorem dispose_bytes {dstLen : Nat} {e : Enc} {out : Array Nat} (h : e.dispose dstLen = .ok out) (hb : OutBytes e) :
    ∀ k, out.getD k 0 < 256 := by
  unfold Enc.dispose at h
  split at h
  · injection h with h
    subst h
    exact push32_bytes (push32_bytes hb _) _
  · cases h

/-- **ROLZX round trip.**  If Forward accepts the block, Inverse (bitstream version 4 or later) of its output
    into any destination of at least the original size restores the block and reports its length. -/
theorem rolzx_roundtrip {cs lpc : Nat} {hasCtx : Bool} {dt : Nat} {src t : List Nat} {dstLen : Nat} (bsv : Nat)
    (dst0 : Array Nat) (hcs : 0 < cs ∧ cs ≤ 2 ^ 24) (hb : ∀ x ∈ src, x < 256) (hbsv : 4 ≤ bsv)
    (hdst : maxEncodedLen2 src.length ≤ dstLen) (hd : src.length ≤ dst0.size)
    (h : rolzxForward cs lpc hasCtx dt src dstLen = .ok t) :
    ∃ dst, rolzxInverse cs lpc bsv t dst0 = .ok (src.length, dst) ∧ dst.size = dst0.size ∧
      ∀ k, k < src.length → dst.getD k 0 = src.getD k 0 := by
  unfold rolzxForward at h
  by_cases h0 : src.length = 0 ∨ dstLen = 0
  · rw [if_pos h0] at h
    injection h with h
    subst h
    have hn : src.length = 0 := by
      rcases h0 with h0 | h0
      · exact h0
      · unfold maxEncodedLen2 at hdst; split at hdst <;> omega
    refine ⟨dst0, ?_, rfl, fun k hk => by omega⟩
    unfold rolzxInverse
    rw [if_pos (Or.inl List.length_nil), hn]
  · rw [if_neg h0] at h
    split at h
    · cases h
    · rename_i hmin
      split at h
      · cases h
      · rename_i hmax
        split at h
        · cases h
        · dsimp only at h
          obtain ⟨hpar, hmm3, hmm7, hfl, hinv⟩ := fwdParams2_spec (effType hasCtx dt src)
          generalize fwdParams2 (effType hasCtx dt src) = prm at h hpar hmm3 hmm7 hfl hinv
          have hn : src.toArray.size = src.length := List.size_toArray
          have ha : ∀ k, src.toArray.getD k 0 < 256 := by
            intro k
            rw [toArray_getD]
            by_cases hk : k < src.length
            · rw [List.getD_eq_getElem?_getD, List.getElem?_eq_getElem hk]
              exact hb _ (List.getElem_mem hk)
            · rw [List.getD_eq_getElem?_getD, List.getElem?_eq_none (by omega)]
              decide
          split at h
          · rename_i srcIdx startChunk sizeChunk s hch
            split at h
            · rename_i s' hlast
              split at h
              · rename_i out hdisp
                split at h
                · cases h
                · split at h
                  · cases h
                  · rename_i hpos hlen
                    injection h with h
                    subst h
                    have hn64 : 64 ≤ src.length := by unfold MIN_BLOCK_SIZE at hmin; omega
                    have hnmax : src.length ≤ 1073741824 := by unfold MAX_BLOCK_SIZE at hmax; omega
                    rw [hn] at hch hpos hlen
                    -- the invariants of the encoder states (they do not depend on the output)
                    have hob0 : OutBytes ⟨0, TOP, #[(src.length >>> 24) % 256, (src.length >>> 16) % 256,
                        (src.length >>> 8) % 256, src.length % 256, prm.2.2]⟩ :=
                      header_getD _ _ _ _ _ (Nat.mod_lt _ (by decide)) (Nat.mod_lt _ (by decide))
                        (Nat.mod_lt _ (by decide)) (Nat.mod_lt _ (by decide)) hfl
                    have ho0 : EncOk ⟨⟨matches0 lpc, Array.replicate HASH_SIZE 0⟩, ⟨0, TOP, #[(src.length >>> 24) % 256,
                        (src.length >>> 16) % 256, (src.length >>> 8) % 256, src.length % 256, prm.2.2]⟩, probs0 9,
                        probs0 lpc⟩ := ⟨einv_init _, probs0_ok 9, probs0_ok lpc, hob0⟩
                    have hB0 : Bytes [] := fun k => by simp
                    obtain ⟨o1, _⟩ := fwdChunks_enc hB0 _ _ _ _ _ _ hch ho0
                    obtain ⟨o2, _⟩ := fwdLast_enc hB0 _ _ _ _ hlast o1
                    obtain ⟨g3, hosz, _⟩ := dispose_good o2.einv hdisp
                    have hS : Bytes out.toList := by
                      intro k
                      rw [toList_getD]
                      exact dispose_bytes hdisp o2.bytes k
                    -- consistency with the output flows back to the initial state
                    obtain ⟨_, b1⟩ := fwdLast_enc hS _ _ _ _ hlast o1
                    have g2 := b1 g3
                    obtain ⟨_, b0⟩ := fwdChunks_enc hS _ _ _ _ _ _ hch ho0
                    have g0 := b0 g2
                    simp only at g0 g2
                    obtain ⟨p0, l0, t0, lo0, hi0⟩ := g0
                    simp only at p0 l0 t0 lo0 hi0
                    have hsz5 : (#[(src.length >>> 24) % 256, (src.length >>> 16) % 256, (src.length >>> 8) % 256,
                        src.length % 256, prm.2.2] : Array Nat).size = 5 := rfl
                    rw [hsz5] at p0 l0 t0 lo0 hi0
                    have q0 := p0 0 (by omega)
                    have q1 := p0 1 (by omega)
                    have q2 := p0 2 (by omega)
                    have q3 := p0 3 (by omega)
                    have q4 := p0 4 (by omega)
                    have hv0 : (#[(src.length >>> 24) % 256, (src.length >>> 16) % 256, (src.length >>> 8) % 256,
                        src.length % 256, prm.2.2] : Array Nat).getD 0 0 = (src.length >>> 24) % 256 := rfl
                    have hv1 : (#[(src.length >>> 24) % 256, (src.length >>> 16) % 256, (src.length >>> 8) % 256,
                        src.length % 256, prm.2.2] : Array Nat).getD 1 0 = (src.length >>> 16) % 256 := rfl
                    have hv2 : (#[(src.length >>> 24) % 256, (src.length >>> 16) % 256, (src.length >>> 8) % 256,
                        src.length % 256, prm.2.2] : Array Nat).getD 2 0 = (src.length >>> 8) % 256 := rfl
                    have hv3 : (#[(src.length >>> 24) % 256, (src.length >>> 16) % 256, (src.length >>> 8) % 256,
                        src.length % 256, prm.2.2] : Array Nat).getD 3 0 = src.length % 256 := rfl
                    have hv4 : (#[(src.length >>> 24) % 256, (src.length >>> 16) % 256, (src.length >>> 8) % 256,
                        src.length % 256, prm.2.2] : Array Nat).getD 4 0 = prm.2.2 := rfl
                    rw [hv0] at q0
                    rw [hv1] at q1
                    rw [hv2] at q2
                    rw [hv3] at q3
                    rw [hv4] at q4
                    simp only [Nat.shiftRight_eq_div_pow] at q0 q1 q2 q3
                    have hde : beN out.toList.toArray 0 4 = src.length := by
                      rw [beN4]
                      simp only [Nat.zero_add]
                      rw [q0, q1, q2, q3]
                      omega
                    have hlenS : out.toList.length = out.size := Array.length_toList
                    have hinit : Dec.init out.toList.toArray 5 = .ok ⟨0, TOP, beN out.toList.toArray 5 8, 13⟩ := by
                      unfold Dec.init
                      rw [if_pos (by simp only [List.size_toArray, hlenS]; omega)]
                    -- the chunk loop
                    have hcs0 : 0 < min src.length cs := by omega
                    have hfuelD : (src.length - 4 - 0) + min dst0.size cs ≤ (src.length / min dst0.size cs + 2) * min dst0.size cs := by
                      have hm : 0 < min dst0.size cs := by omega
                      have h1 := Nat.div_add_mod src.length (min dst0.size cs)
                      have h2 := Nat.mod_lt src.length hm
                      rw [Nat.add_mul, Nat.mul_comm (src.length / min dst0.size cs)]
                      omega
                    have hrel0 : Rel out.toList src.toArray lpc 0
                        ⟨⟨matches0 lpc, Array.replicate HASH_SIZE 0⟩, ⟨0, TOP, #[(src.length >>> 24) % 256,
                          (src.length >>> 16) % 256, (src.length >>> 8) % 256, src.length % 256, prm.2.2]⟩, probs0 9, probs0 lpc⟩
                        ⟨⟨matches0 lpc, Array.replicate HASH_SIZE 0⟩, ⟨0, TOP, beN out.toList.toArray 5 8, 13⟩, probs0 9,
                          probs0 lpc, dst0⟩ := by
                      refine ⟨einv_init _, ⟨rfl, rfl, ?_, rfl⟩, rfl, rfl, probs0_ok 9, probs0_ok lpc, fun k hk => by omega,
                        tabOk_clear _ _ (by simp), tabOk_clear _ _ (by simp)⟩
                      show beN out.toList.toArray 5 8 = val7 out.toList 5
                      rw [beN8, t0]
                      simp
                    obtain ⟨rD, hdc, relc, zc, c1, c2, c3, c4⟩ := chunks_sim hS ha hpar ⟨hmm3, hmm7⟩
                      (dstEnd := src.length) (by omega) _ 0 (min src.length cs) 0 _ _
                      (src.length / min dst0.size cs + 2) (min dst0.size cs) 0 _
                      (by
                        by_cases hc : src.length ≤ cs
                        · right; constructor <;> omega
                        · left; omega)
                      hcs0 (by omega) (by omega) (by omega) hfuelD ho0 hrel0 (by simp only; omega) (Or.inl (by omega)) hch g2
                    simp only at c1 c2 relc
                    -- the last literals
                    have hi4 : srcIdx + startChunk - sizeChunk = src.length - 4 := by omega
                    rw [hi4] at hlast
                    obtain ⟨sIl, hdl, rell, zl⟩ := last_sim hS ha 4 (src.length - 4) s s' rD.2.2.2 o1 relc (by omega)
                      (by rw [zc]; simp only; omega) hlast g3
                    have hidx : sIl.dec.idx = out.size := by rw [rell.drel.idx, hosz]
                    refine ⟨sIl.dst, ?_, by rw [zl, zc], ?_⟩
                    · unfold rolzxInverse
                      rw [if_neg (by rw [hlenS]; omega), if_neg (by rw [hlenS]; omega),
                        if_neg (by rw [hlenS]; unfold MAX_BLOCK_SIZE; omega)]
                      dsimp only
                      rw [hde, if_neg (by omega), toArray_getD, q4, hinv bsv hbsv]
                      simp only [hinit]
                      rw [if_neg (by omega), if_pos hbsv]
                      rw [hdc]
                      obtain ⟨rd1, rd2, rd3, rd4⟩ := rD
                      simp only at c3 c4 hdl ⊢
                      subst c3; subst c4
                      rw [if_neg (by omega)]
                      have : rd1 + (src.length - 4) - rd1 = src.length - 4 := by omega
                      rw [this, hdl]
                      simp only
                      rw [if_neg (by simp only [List.size_toArray, hlenS]; intro hc; exact hc hidx)]
                      have : src.length - 4 + 4 = src.length := by omega
                      rw [this]
                    · intro k hk
                      rw [rell.agree k (by omega), toArray_getD]
              · cases h
              · cases h
            · cases h
            · cases h
          · cases h
          · cases h

/-- a successful Forward output is shorter than the block (otherwise Forward declines with "no compression") -/
theorem rolzxForward_len {cs lpc : Nat} {hasCtx : Bool} {dt : Nat} {src t : List Nat} {dstLen : Nat}
    (h : rolzxForward cs lpc hasCtx dt src dstLen = .ok t) : t = [] ∨ t.length < src.length := by
  unfold rolzxForward at h
  split at h
  · injection h with h; exact Or.inl h.symm
  · split at h
    · cases h
    · split at h
      · cases h
      · split at h
        · cases h
        · dsimp only at h
          split at h
          · split at h
            · split at h
              · split at h
                · cases h
                · split at h
                  · cases h
                  · rename_i hlen
                    injection h with h
                    subst h
                    right
                    rw [Array.length_toList]
                    have : src.toArray.size = src.length := List.size_toArray
                    omega
              · cases h
              · cases h
            · cases h
            · cases h
          · cases h
          · cases h

/-! ## the coder on its own: a sequence of symbols -/

/-- one coded symbol: the table (`lit`: literal table with 9-bit contexts, else the match table with `lpc`-bit
    contexts), the context byte, the number of bits and the value -/
structure Sym where
  lit : Bool
  c : Nat
  n : Nat
  val : Nat

/-- `setContext; encodeBits` for each symbol -/
def encSyms (dstLen lpc : Nat) : List Sym → Enc → Array Nat → Array Nat → Out (Enc × Array Nat × Array Nat)
  | [], e, pl, pm => .ok (e, pl, pm)
  | y :: ys, e, pl, pm =>
    if y.lit then
      match encBits dstLen (y.c <<< 9) y.val y.n 1 e pl with
      | .ok r => encSyms dstLen lpc ys r.1 r.2 pm
      | .err x => .err x
      | .fault k => .fault k
    else
      match encBits dstLen (y.c <<< lpc) y.val y.n 1 e pm with
      | .ok r => encSyms dstLen lpc ys r.1 pl r.2
      | .err x => .err x
      | .fault k => .fault k

/-- `setContext; decodeBits` for each symbol shape; the decoded values (low `n` bits of `c1`) in order -/
def decSyms (src : Array Nat) (lpc : Nat) : List Sym → Dec → Array Nat → Array Nat → Out (List Nat × Dec)
  | [], d, _, _ => .ok ([], d)
  | y :: ys, d, pl, pm =>
    if y.lit then
      match decBits src (y.c <<< 9) y.n 1 d pl with
      | .ok r =>
        match decSyms src lpc ys r.2.1 r.2.2 pm with
        | .ok q => .ok (r.1 % 2 ^ y.n :: q.1, q.2)
        | .err x => .err x
        | .fault k => .fault k
      | .err x => .err x
      | .fault k => .fault k
    else
      match decBits src (y.c <<< lpc) y.n 1 d pm with
      | .ok r =>
        match decSyms src lpc ys r.2.1 pl r.2.2 with
        | .ok q => .ok (r.1 % 2 ^ y.n :: q.1, q.2)
        | .err x => .err x
        | .fault k => .fault k
      | .err x => .err x
      | .fault k => .fault k

theorem encSyms_back {dstLen lpc : Nat} {S : List Nat} (hS : Bytes S) :
    ∀ (ys : List Sym) (e : Enc) (pl pm : Array Nat) (r : Enc × Array Nat × Array Nat),
    EInv e → ProbOk pl → ProbOk pm → encSyms dstLen lpc ys e pl pm = .ok r →
    EInv r.1 ∧ (OutBytes e → OutBytes r.1) ∧ (Good S r.1 → Good S e) := by
  intro ys
  induction ys with
  | nil =>
    intro e pl pm r hi _ _ h
    simp only [encSyms] at h
    injection h with h
    subst h
    exact ⟨hi, id, id⟩
  | cons y ys ih =>
    intro e pl pm r hi hpl hpm h
    simp only [encSyms] at h
    split at h
    · split at h
      · rename_i r1 hr1
        have hr1' : encBits dstLen (y.c <<< 9) y.val y.n 1 e pl = .ok (r1.1, r1.2) := hr1
        obtain ⟨i1, p1, _⟩ := encBits_inv _ _ _ _ _ _ hi hpl hr1'
        obtain ⟨i2, b2, g2⟩ := ih _ _ _ _ i1 p1 hpm h
        exact ⟨i2, fun hb => b2 (encBits_bytes _ _ _ _ _ _ hi hpl hr1' hb),
          fun hg => encBits_back hS _ _ _ _ _ _ hi hpl hr1' (g2 hg)⟩
      · cases h
      · cases h
    · split at h
      · rename_i r1 hr1
        have hr1' : encBits dstLen (y.c <<< lpc) y.val y.n 1 e pm = .ok (r1.1, r1.2) := hr1
        obtain ⟨i1, p1, _⟩ := encBits_inv _ _ _ _ _ _ hi hpm hr1'
        obtain ⟨i2, b2, g2⟩ := ih _ _ _ _ i1 hpl p1 h
        exact ⟨i2, fun hb => b2 (encBits_bytes _ _ _ _ _ _ hi hpm hr1' hb),
          fun hg => encBits_back hS _ _ _ _ _ _ hi hpm hr1' (g2 hg)⟩
      · cases h
      · cases h

theorem decSyms_sim {dstLen lpc : Nat} {S : List Nat} (hS : Bytes S) :
    ∀ (ys : List Sym) (e : Enc) (pl pm : Array Nat) (r : Enc × Array Nat × Array Nat) (d : Dec),
    EInv e → ProbOk pl → ProbOk pm → encSyms dstLen lpc ys e pl pm = .ok r → Good S r.1 → DRel S e d →
    ∃ d', decSyms S.toArray lpc ys d pl pm = .ok (ys.map (fun y => y.val % 2 ^ y.n), d') ∧ DRel S r.1 d' := by
  intro ys
  induction ys with
  | nil =>
    intro e pl pm r d _ _ _ h _ hr
    simp only [encSyms] at h
    injection h with h
    subst h
    exact ⟨d, rfl, hr⟩
  | cons y ys ih =>
    intro e pl pm r d hi hpl hpm h hg hr
    simp only [encSyms] at h
    have hmod : ∀ n v : Nat, (1 * 2 ^ n + v % 2 ^ n) % 2 ^ n = v % 2 ^ n := by
      intro n v
      rw [Nat.one_mul, Nat.add_mod_left, Nat.mod_mod]
    split at h
    · rename_i hlit
      split at h
      · rename_i r1 hr1
        have hr1' : encBits dstLen (y.c <<< 9) y.val y.n 1 e pl = .ok (r1.1, r1.2) := hr1
        obtain ⟨i1, p1, _⟩ := encBits_inv _ _ _ _ _ _ hi hpl hr1'
        obtain ⟨_, _, g2⟩ := encSyms_back hS _ _ _ _ _ i1 p1 hpm h
        obtain ⟨d1, hd1, rel1⟩ := decBits_sim hS _ _ _ _ _ _ d hi hpl hr1' (g2 hg) hr
        obtain ⟨d', hd', rel'⟩ := ih _ _ _ _ d1 i1 p1 hpm h hg rel1
        refine ⟨d', ?_, rel'⟩
        simp only [decSyms, hlit, if_true, hd1, hd', List.map_cons, hmod]
      · cases h
      · cases h
    · rename_i hlit
      split at h
      · rename_i r1 hr1
        have hr1' : encBits dstLen (y.c <<< lpc) y.val y.n 1 e pm = .ok (r1.1, r1.2) := hr1
        obtain ⟨i1, p1, _⟩ := encBits_inv _ _ _ _ _ _ hi hpm hr1'
        obtain ⟨_, _, g2⟩ := encSyms_back hS _ _ _ _ _ i1 hpl p1 h
        obtain ⟨d1, hd1, rel1⟩ := decBits_sim hS _ _ _ _ _ _ d hi hpm hr1' (g2 hg) hr
        obtain ⟨d', hd', rel'⟩ := ih _ _ _ _ d1 i1 hpl p1 h hg rel1
        refine ⟨d', ?_, rel'⟩
        simp only [decSyms, hlit, hd1, hd', List.map_cons, hmod]
        simp
      · cases h
      · cases h

/-- **the coder round trip**: any sequence of symbols coded after a header `out0` (of bytes), then `dispose`:
    a decoder started right after the header, driven with the same symbol shapes and the same initial tables,
    returns the values and stops exactly at the end of the output -/
theorem coder_roundtrip {dstLen lpc : Nat} (out0 : Array Nat) (hout0 : ∀ k, out0.getD k 0 < 256)
    (ys : List Sym) (pl pm : Array Nat) (hpl : ProbOk pl) (hpm : ProbOk pm)
    {r : Enc × Array Nat × Array Nat} (h : encSyms dstLen lpc ys ⟨0, TOP, out0⟩ pl pm = .ok r)
    {out : Array Nat} (hd : r.1.dispose dstLen = .ok out) :
    ∃ d0 d', Dec.init out.toList.toArray out0.size = .ok d0 ∧
      decSyms out.toList.toArray lpc ys d0 pl pm = .ok (ys.map (fun y => y.val % 2 ^ y.n), d') ∧
      d'.idx = out.size := by
  have hB0 : Bytes [] := fun k => by simp
  obtain ⟨i1, b1, _⟩ := encSyms_back hB0 _ _ _ _ _ (einv_init out0) hpl hpm h
  obtain ⟨g1, hsz, _⟩ := dispose_good i1 hd
  have hS : Bytes out.toList := by
    intro k
    rw [toList_getD]
    exact dispose_bytes hd (b1 hout0) k
  obtain ⟨_, _, g0⟩ := encSyms_back hS _ _ _ _ _ (einv_init out0) hpl hpm h
  have gi := g0 g1
  have hlen : out.toList.length = out.size := Array.length_toList
  have hrel : DRel out.toList ⟨0, TOP, out0⟩ ⟨0, TOP, beN out.toList.toArray out0.size 8, out0.size + 8⟩ := by
    refine ⟨rfl, rfl, ?_, rfl⟩
    show beN out.toList.toArray out0.size 8 = val7 out.toList out0.size
    rw [beN8, gi.top]
    simp
  obtain ⟨d', hd', rel'⟩ := decSyms_sim hS _ _ _ _ _ _ (einv_init out0) hpl hpm h g1 hrel
  refine ⟨_, d', ?_, hd', by rw [rel'.idx, hsz]⟩
  unfold Dec.init
  have := gi.len
  simp only at this
  rw [if_pos (by simp only [List.size_toArray, hlen]; omega)]

end Kanzi.ROLZ
