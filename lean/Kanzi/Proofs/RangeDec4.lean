/-
Proofs about the total model of `RangeDecoder.Read`, part 4: the chunk loop of `Read`.
-/
import Kanzi.Proofs.RangeDec3

namespace Kanzi.RangeDec
open Kanzi.Bits Kanzi.EntSmall Kanzi.Range

/-! ### E. the chunk loop -/

/-- the failure classes of `Read`: an error return, the bitstream panic, an index panic -/
def ReadCls (c : Cls) : Prop := c = .err ∨ c = .eos ∨ c = .fault

theorem two_pow_le_15 (lr : Nat) (h : lr ≤ 15) : 2 ^ lr ≤ 32768 := by
  have : 2 ^ lr ≤ 2 ^ 15 := Nat.pow_le_pow_right (by decide) h
  omega

/-- what the part of one round after the header can do -/
theorem chunkBody_facts (a f : List Nat) (t : Array Nat) (lr chunkSize count : Nat) (r : Bits) (hlr : lr ≤ 15) :
    (∀ c, (if a.length = 1 then Res.ok (List.replicate (min chunkSize count) (a.headD 0)) r
           else payloadC (mkCum f) t lr (min chunkSize count) r) = .fail c → c = .eos ∨ c = .fault) ∧
    (∀ out r1, (if a.length = 1 then Res.ok (List.replicate (min chunkSize count) (a.headD 0)) r
           else payloadC (mkCum f) t lr (min chunkSize count) r) = .ok out r1 →
        out.length = min chunkSize count) := by
  by_cases h1 : a.length = 1
  · rw [if_pos h1]
    exact ⟨fun c h => (by cases h), fun out r1 h => (by cases h; simp)⟩
  · rw [if_neg h1]
    exact payloadC_cls (mkCum f) t lr (min chunkSize count) r hlr

theorem chunksC_facts (chunkSize : Nat) (hcs : 0 < chunkSize) : ∀ (fuel count : Nat) (f2s : Array Nat) (bs : Bits),
    count ≤ fuel →
    (∀ c cap, chunksC fuel chunkSize count f2s bs = .fail c cap →
        ReadCls c ∧ f2s.size ≤ cap ∧ cap ≤ max f2s.size 32768) ∧
    (∀ out t r, chunksC fuel chunkSize count f2s bs = .done out t r →
        out.length ≤ count ∧ f2s.size ≤ t.size ∧ t.size ≤ max f2s.size 32768) := by
  intro fuel
  induction fuel with
  | zero =>
    intro count f2s bs hc
    have h0 : count = 0 := by omega
    subst h0
    simp only [chunksC, if_true]
    exact ⟨fun c cap h => (by cases h), fun out t r h => (by cases h; simp)⟩
  | succ fuel ih =>
    intro count f2s bs hc
    simp only [chunksC]
    by_cases h0 : count = 0
    · rw [if_pos h0]
      exact ⟨fun c cap h => (by cases h), fun out t r h => (by cases h; simp)⟩
    · rw [if_neg h0]
      obtain ⟨hd1, hd2⟩ := headerC_facts bs
      cases hh : headerC bs with
      | fail c =>
        simp only []
        refine ⟨fun c' cap h => ?_, fun _ _ _ h => (by cases h)⟩
        cases h
        rcases hd1 c hh with e | e
        · exact ⟨Or.inr (Or.inl e), Nat.le_refl _, by omega⟩
        · exact ⟨Or.inl e, Nat.le_refl _, by omega⟩
      | ok v r =>
        obtain ⟨a, f, lr⟩ := v
        simp only []
        obtain ⟨hlr, hsum⟩ := hd2 a f lr r hh
        by_cases ha : a.length = 0
        · rw [if_pos ha]
          exact ⟨fun c cap h => (by cases h), fun out t r' h => (by cases h; simp)⟩
        · rw [if_neg ha]
          obtain ⟨t, ht1, ht2, _⟩ := buildF2s_ok f2s f lr hsum
          have h15 := two_pow_le_15 lr hlr
          rw [ht1]
          simp only []
          obtain ⟨b1, b2⟩ := chunkBody_facts a f t lr chunkSize count r hlr
          cases hb : (if a.length = 1 then Res.ok (List.replicate (min chunkSize count) (a.headD 0)) r
                      else payloadC (mkCum f) t lr (min chunkSize count) r) with
          | fail c =>
            simp only []
            refine ⟨fun c' cap h => ?_, fun _ _ _ h => (by cases h)⟩
            cases h
            rcases b1 c hb with e | e
            · exact ⟨Or.inr (Or.inl e), by omega, by omega⟩
            · exact ⟨Or.inr (Or.inr e), by omega, by omega⟩
          | ok c r1 =>
            simp only []
            have hlen := b2 c r1 hb
            obtain ⟨i1, i2⟩ := ih (count - min chunkSize count) t r1 (by omega)
            cases hrec : chunksC fuel chunkSize (count - min chunkSize count) t r1 with
            | fail c' cap =>
              simp only []
              refine ⟨fun c'' cap' h => ?_, fun _ _ _ h => (by cases h)⟩
              cases h
              obtain ⟨j1, j2, j3⟩ := i1 c' cap hrec
              exact ⟨j1, by omega, by omega⟩
            | done tl t' r2 =>
              simp only []
              refine ⟨fun _ _ h => (by cases h), fun out t'' r' h => ?_⟩
              cases h
              obtain ⟨j1, j2, j3⟩ := i2 tl t' r2 hrec
              refine ⟨?_, by omega, by omega⟩
              rw [List.length_append]
              omega

/-- **agreement.**  Whenever the decoder of the round-trip theorems (`Kanzi.Range.decode`) returns a
    block, this model returns the same block and the same rest, whatever the slice `f2s` held before. -/
theorem chunksC_agree (chunkSize : Nat) (hcs : 0 < chunkSize) : ∀ (fuel count : Nat) (f2s : Array Nat)
    (bs : Bits) (out : List Nat) (rest : Bits), count ≤ fuel →
    decodeChunks fuel chunkSize count bs = some (out, rest) →
    ∃ t, chunksC fuel chunkSize count f2s bs = .done out t rest := by
  intro fuel
  induction fuel with
  | zero =>
    intro count f2s bs out rest hc h
    have h0 : count = 0 := by omega
    subst h0
    simp only [decodeChunks, Option.some.injEq, Prod.mk.injEq] at h
    obtain ⟨rfl, rfl⟩ := h
    exact ⟨f2s, by simp [chunksC]⟩
  | succ fuel ih =>
    intro count f2s bs out rest hc h
    simp only [decodeChunks] at h
    simp only [chunksC]
    by_cases h0 : count = 0
    · rw [if_pos h0] at h ⊢
      simp only [Option.some.injEq, Prod.mk.injEq] at h
      obtain ⟨rfl, rfl⟩ := h
      exact ⟨f2s, rfl⟩
    · rw [if_neg h0] at h ⊢
      cases hh : rangeDecodeHeader bs with
      | none => simp only [hh] at h; cases h
      | some p =>
        obtain ⟨⟨a, f, lr⟩, r⟩ := p
        simp only [hh] at h
        have hh' := headerC_of_some bs _ _ hh
        obtain ⟨hlr, hsum⟩ := (headerC_facts bs).2 a f lr r hh'
        rw [hh']
        simp only []
        by_cases ha : a.length = 0
        · rw [if_pos ha] at h ⊢
          simp only [Option.some.injEq, Prod.mk.injEq] at h
          obtain ⟨rfl, rfl⟩ := h
          exact ⟨f2s, rfl⟩
        · rw [if_neg ha] at h ⊢
          obtain ⟨t, ht1, _, ht3⟩ := buildF2s_ok f2s f lr hsum
          rw [ht1]
          simp only []
          by_cases h1 : a.length = 1
          · rw [if_pos h1] at h ⊢
            simp only [] at h ⊢
            cases hrec : decodeChunks fuel chunkSize (count - min chunkSize count) r with
            | none => simp only [hrec] at h; cases h
            | some q =>
              obtain ⟨tl, r2⟩ := q
              simp only [hrec, Option.some.injEq, Prod.mk.injEq] at h
              obtain ⟨rfl, rfl⟩ := h
              obtain ⟨t', ht'⟩ := ih (count - min chunkSize count) t r tl r2 (by omega) hrec
              exact ⟨t', by rw [ht']⟩
          · rw [if_neg h1] at h ⊢
            cases hp : decodePayload f lr (min chunkSize count) r with
            | none => simp only [hp] at h; cases h
            | some q =>
              obtain ⟨c, r1⟩ := q
              simp only [hp] at h
              rw [payload_agree f t lr (min chunkSize count) r (by omega) hsum ht3 c r1 hp]
              simp only []
              cases hrec : decodeChunks fuel chunkSize (count - min chunkSize count) r1 with
              | none => simp only [hrec] at h; cases h
              | some q2 =>
                obtain ⟨tl, r2⟩ := q2
                simp only [hrec, Option.some.injEq, Prod.mk.injEq] at h
                obtain ⟨rfl, rfl⟩ := h
                obtain ⟨t', ht'⟩ := ih (count - min chunkSize count) t r1 tl r2 (by omega) hrec
                exact ⟨t', by rw [ht']⟩

end Kanzi.RangeDec
