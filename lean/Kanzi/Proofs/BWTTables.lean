/-
Model-level lemmas shared by the inverse BWT proofs: `histogram`, `exclSums` (bucket starts),
`fillRange` as `putList`, `ensureBuf`.
-/
import Kanzi.Proofs.BWTSort

namespace Kanzi.BWT

/-! ### histogram -/

theorem hist_fold_size (l : List Nat) (h : Array Nat) :
    (l.foldl (fun h b => h.modify b (· + 1)) h).size = h.size := by
  induction l generalizing h with
  | nil => rfl
  | cons x xs ih => simp [ih]

theorem hist_fold_rd (l : List Nat) (h : Array Nat) (c : Nat) (hc : c < h.size) :
    rd (l.foldl (fun h b => h.modify b (· + 1)) h) c = rd h c + l.count c := by
  induction l generalizing h with
  | nil => simp
  | cons x xs ih =>
    simp only [List.foldl_cons]
    rw [ih _ (by simpa using hc), List.count_cons]
    by_cases hx : x = c
    · subst hx
      rw [rd_modify _ _ _ _ hc]; simp; omega
    · have : rd (h.modify x (· + 1)) c = rd h c := by
        simp only [rd, Array.getD_eq_getD_getElem?, Array.getElem?_modify, hx, ite_false]
      simp [this, hx]

theorem histogram_size (src : Array Nat) : (histogram src).size = 256 := by
  unfold histogram
  rw [← Array.foldl_toList, hist_fold_size]; simp

theorem histogram_rd (src : Array Nat) (c : Nat) (hc : c < 256) :
    rd (histogram src) c = src.toList.count c := by
  unfold histogram
  rw [← Array.foldl_toList, hist_fold_rd _ _ _ (by simpa using hc), rd_replicate]
  simp [hc]

/-! ### exclusive prefix sums -/

/-- `f 0 + ... + f (c-1)` -/
def psum (f : Nat → Nat) : Nat → Nat
  | 0 => 0
  | c + 1 => psum f c + f c

/-- the fold of `exclSums` over the first `n` symbols -/
def exclFold (h : Array Nat) (start n : Nat) : Nat × Array Nat :=
  (List.range n).foldl (fun (st : Nat × Array Nat) c => (st.1 + h.getD c 0, st.2.push st.1))
    (start, Array.emptyWithCapacity 256)

theorem exclFold_succ (h : Array Nat) (start n : Nat) :
    exclFold h start (n + 1)
      = ((exclFold h start n).1 + rd h n, (exclFold h start n).2.push (exclFold h start n).1) := by
  unfold exclFold
  rw [List.range_succ, List.foldl_append]
  rfl

theorem exclSums_fold (h : Array Nat) (start n : Nat) :
    (exclFold h start n).1 = start + psum (fun c => rd h c) n ∧
    (exclFold h start n).2.size = n ∧
    ∀ c, c < n → rd (exclFold h start n).2 c = start + psum (fun c => rd h c) c := by
  induction n with
  | zero => simp [psum, exclFold]
  | succ n ih =>
    obtain ⟨h1, h2, h3⟩ := ih
    rw [exclFold_succ]
    refine ⟨?_, ?_, ?_⟩
    · simp only [h1, psum]; omega
    · simp only [Array.size_push, h2]
    · intro c hc
      simp only [rd_push, h2]
      by_cases hcn : c = n
      · subst hcn; simp only [ite_true, h1]
      · simp only [hcn, ite_false]; exact h3 c (by omega)

theorem exclSums_size (h : Array Nat) (start : Nat) : (exclSums h start).size = 256 :=
  (exclSums_fold h start 256).2.1

theorem exclSums_rd (h : Array Nat) (start c : Nat) (hc : c < 256) :
    rd (exclSums h start) c = start + psum (fun c => rd h c) c :=
  (exclSums_fold h start 256).2.2 c hc

theorem filter_lt_succ_length (l : List Nat) (c : Nat) :
    (l.filter (fun x => x < c + 1)).length = (l.filter (fun x => x < c)).length + l.count c := by
  induction l with
  | nil => simp
  | cons x xs ih =>
    simp only [List.filter_cons, List.count_cons]
    by_cases h1 : x < c
    · have h2 : x < c + 1 := by omega
      have h3 : ¬ x = c := by omega
      simp [h1, h2, h3, ih]; omega
    · by_cases h3 : x = c
      · subst h3; simp [ih]; omega
      · have h2 : ¬ x < c + 1 := by omega
        simp [h1, h2, h3, ih]

theorem psum_count (l : List Nat) (c : Nat) :
    psum (fun c => l.count c) c = (l.filter (fun x => x < c)).length := by
  induction c with
  | zero =>
    have : l.filter (fun x => decide (x < 0)) = [] := List.filter_eq_nil_iff.2 (by simp)
    rw [this]; rfl
  | succ c ih => rw [psum, ih, filter_lt_succ_length]

/-- bucket starts of the counting sort of the bytes `src` -/
theorem starts_rd (src : Array Nat) (start c : Nat) (hc : c < 256) :
    rd (exclSums (histogram src) start) c = start + (src.toList.filter (fun x => x < c)).length := by
  rw [exclSums_rd _ _ _ hc, ← psum_count]
  congr 1
  have : ∀ n, n ≤ 256 → psum (fun c => rd (histogram src) c) n = psum (fun c => src.toList.count c) n := by
    intro n hn
    induction n with
    | zero => rfl
    | succ n ih => rw [psum, psum, ih (by omega), histogram_rd _ _ (by omega)]
  exact this c (by omega)

theorem below_map {α : Type} (key : α → Nat) (L : List α) (c : Nat) :
    below key L c = ((L.map key).filter (fun x => x < c)).length := by
  simp only [below, List.filter_map, List.length_map]
  rfl

/-! ### ensureBuf -/

theorem ensureBuf_size_ge (buf : Array Nat) (m : Nat) : m ≤ (ensureBuf buf m).size := by
  unfold ensureBuf; split
  · simp
  · omega

/-! ### fillRange is putList -/

theorem putList_append (A B : List (Nat × Nat)) (bk data : Array Nat) :
    putList (A ++ B) bk data = (putList A bk data).bind (fun r => putList B r.1 r.2) := by
  induction A generalizing bk data with
  | nil => simp [putList]
  | cons a as ih =>
    simp only [List.cons_append, putList]
    cases put bk data a.1 a.2 with
    | none => simp
    | some r => simp [ih]

theorem putList_append_some {A B : List (Nat × Nat)} {bk data : Array Nat} {r : Array Nat × Array Nat}
    (h : putList (A ++ B) bk data = some r) :
    ∃ m, putList A bk data = some m ∧ putList B m.1 m.2 = some r := by
  rw [putList_append] at h
  exact Option.bind_eq_some_iff.1 h

theorem fillRange_eq (src : Array Nat) (off : Nat) (k i : Nat) (bk data : Array Nat) (h : i + k ≤ src.size) :
    fillRange src off k i bk data
      = putList ((List.range' i k).map (fun i => (rd src i, (i - off) * 256 + rd src i))) bk data := by
  induction k generalizing i bk data with
  | zero => simp [fillRange, putList]
  | succ k ih =>
    have hi : i < src.size := by omega
    simp only [fillRange, hi, dite_true, List.range'_succ, List.map_cons, putList, rd_eq_getElem hi]
    cases put bk data (rd src i) ((i - off) * 256 + rd src i) with
    | none => rfl
    | some r => exact ih (i + 1) r.1 r.2 (by omega)

end Kanzi.BWT
