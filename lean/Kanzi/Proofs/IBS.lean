/-
Layer 2: the abstract word machine `A` (see `IBSSim`, `IBSOps`, `IBSArr`) refines `Kanzi.Bits`:
every read returns the next bits of `remaining`, most significant first, and drops them.
The statements about the concrete stream follow by the simulation of layer 1.
-/
import Kanzi.Proofs.IBSArr
import Kanzi.Proofs.BitsIbs

namespace Kanzi.IBS
open Kanzi.Bits Kanzi.BitsIbs

def bytesBits (l : List Byte) : Bits := ofBytes (l.map BitVec.toNat)

def wordBits (w : BitVec 64) (n : Nat) : Bits := natBits w.toNat n

/-- the bits still to be read -/
def A.remaining (a : A) : Bits := wordBits a.cur a.avail ++ bytesBits a.rest

def remaining (s : St) : Bits := (abs s).remaining

theorem bytesBits_length (l : List Byte) : (bytesBits l).length = 8 * l.length := by
  simp [bytesBits, ofBytes_length]

theorem bytesBits_append (x y : List Byte) : bytesBits (x ++ y) = bytesBits x ++ bytesBits y := by
  simp [bytesBits, ofBytes_append]

theorem bytesBits_nil : bytesBits [] = [] := rfl

theorem bytesBits_take (l : List Byte) (n : Nat) :
    (bytesBits l).take (8 * n) = bytesBits (l.take n) := by
  simp [bytesBits, ofBytes_take, List.map_take]

theorem bytesBits_drop (l : List Byte) (n : Nat) :
    (bytesBits l).drop (8 * n) = bytesBits (l.drop n) := by
  simp [bytesBits, ofBytes_drop, List.map_drop]

theorem beNat_lt (l : List Byte) : beNat l < 2 ^ (8 * l.length) := by
  induction l with
  | nil => simp [beNat]
  | cons b l ih =>
    simp only [beNat, List.length_cons]
    have hb : b.toNat < 2 ^ 8 := b.isLt
    have : 2 ^ (8 * (l.length + 1)) = 2 ^ 8 * 2 ^ (8 * l.length) := by
      rw [← Nat.pow_add]; congr 1; omega
    rw [this]
    have h1 : b.toNat * 2 ^ (8 * l.length) ≤ (2 ^ 8 - 1) * 2 ^ (8 * l.length) :=
      Nat.mul_le_mul_right _ (by omega)
    have h2 : (2 ^ 8 - 1) * 2 ^ (8 * l.length) + 2 ^ (8 * l.length) = 2 ^ 8 * 2 ^ (8 * l.length) := by
      rw [Nat.sub_mul, Nat.one_mul]
      have : 2 ^ (8 * l.length) ≤ 2 ^ 8 * 2 ^ (8 * l.length) :=
        Nat.le_mul_of_pos_left _ (by decide)
      omega
    omega

theorem beNat_bits (l : List Byte) : natBits (beNat l) (8 * l.length) = bytesBits l := by
  induction l with
  | nil => simp [beNat, natBits_zero, bytesBits, ofBytes_nil]
  | cons b l ih =>
    simp only [beNat, List.length_cons, bytesBits, List.map_cons, ofBytes_cons]
    have : 8 * (l.length + 1) = 8 + 8 * l.length := by omega
    rw [this, natBits_append _ _ _ _ (beNat_lt l), ih]
    rfl

theorem beWord_toNat (l : List Byte) (h : l.length ≤ 8) : (beWord l).toNat = beNat l := by
  unfold beWord
  rw [BitVec.toNat_ofNat, Nat.mod_eq_of_lt]
  have h1 := beNat_lt l
  have : 2 ^ (8 * l.length) ≤ 2 ^ 64 := Nat.pow_le_pow_right (by decide) (by omega)
  omega

theorem wordBits_beWord (l : List Byte) (h : l.length ≤ 8) :
    wordBits (beWord l) (8 * l.length) = bytesBits l := by
  unfold wordBits
  rw [beWord_toNat l h, beNat_bits]

theorem mask_toNat : ∀ n : Fin 65, (mask n.val).toNat = 2 ^ n.val - 1 := by decide

theorem mask_toNat' (n : Nat) (h : n ≤ 64) : (mask n).toNat = 2 ^ n - 1 :=
  mask_toNat ⟨n, by omega⟩

/-- well-formed abstract state: the word holds at most 64 bits, a closed stream holds nothing -/
structure AInv (a : A) : Prop where
  av : a.avail ≤ 64
  cl : a.closed = true → a.avail = 0 ∧ a.rest = []

theorem AInv_abs (s : St) (hi : Inv s) : AInv (abs s) :=
  ⟨hi.avail_le, fun h => ⟨(hi.cl h).1, by simp [abs, show s.closed = true from h]⟩⟩

theorem A.remaining_length (a : A) : a.remaining.length = a.avail + 8 * a.rest.length := by
  simp [A.remaining, wordBits, natBits_length, bytesBits_length]

/-- a successful pull: the new word is the next (up to) 8 bytes -/
theorem A.pull_spec (a : A) (hc : a.closed = false) (hr : a.rest ≠ []) :
    a.pull.1 = none ∧ a.pull.2.remaining = bytesBits a.rest ∧
    a.pull.2.avail = 8 * min 8 a.rest.length ∧ a.pull.2.cur.toNat < 2 ^ a.pull.2.avail ∧
    a.pull.2.cnt = a.cnt + a.avail ∧ a.pull.2.closed = false ∧
    a.pull.2.rest = a.rest.drop 8 ∧ a.pull.2.ending = a.ending := by
  rw [A.pull_ok a hc hr]
  have hl : (a.rest.take 8).length ≤ 8 := by simp only [List.length_take]; omega
  refine ⟨rfl, ?_, ?_, ?_, rfl, hc, rfl, rfl⟩
  · simp only [A.remaining]
    rw [wordBits_beWord _ hl, ← bytesBits_append, List.take_append_drop]
  · simp only [List.length_take]
  · simp only
    rw [beWord_toNat _ hl]
    exact beNat_lt _


theorem A.take_remaining (a : A) (n : Nat) (hle : n ≤ a.avail) :
    (a.take n).remaining = a.remaining.drop n ∧
    bitsNat (a.remaining.take n) = (a.cur.toNat / 2 ^ (a.avail - n)) % 2 ^ n := by
  have hl : (wordBits a.cur a.avail).length = a.avail := natBits_length _ _
  constructor
  · simp only [A.remaining, A.take]
    rw [List.drop_append_of_le_length (by omega)]
    simp only [wordBits]
    rw [natBits_drop _ _ _ hle]
  · simp only [A.remaining]
    rw [List.take_append_of_le_length (by omega)]
    simp only [wordBits]
    rw [natBits_take _ _ _ hle, bitsNat_natBits]

/-- `ReadBits(n)` served from the current word -/
theorem A.readBitsAux_fast (fuel : Nat) (a : A) (n : Nat) (h1 : 1 ≤ n) (h64 : n ≤ 64)
    (hle : n ≤ a.avail) :
    ∃ v, A.readBitsAux (fuel + 1) a n = (.val v, a.take n) ∧
      v.toNat = bitsNat (a.remaining.take n) := by
  refine ⟨(a.cur >>> (a.avail - n)) &&& mask n, ?_, ?_⟩
  · unfold A.readBitsAux
    rw [if_neg (by omega), if_pos hle]
  · rw [(A.take_remaining a n hle).2, BitVec.toNat_and, BitVec.toNat_ushiftRight,
      mask_toNat' n h64, Nat.and_two_pow_sub_one_eq_mod, Nat.shiftRight_eq_div_pow]

/-- `ReadBits(n)` with enough bits left -/
theorem A.readBitsAux_spec (fuel : Nat) (a : A) (hi : AInv a) (hc : a.closed = false) (n : Nat)
    (h1 : 1 ≤ n) (h64 : n ≤ 64) (hen : n ≤ a.remaining.length) :
    ∃ v a', A.readBitsAux (fuel + 2) a n = (.val v, a') ∧
      v.toNat = bitsNat (a.remaining.take n) ∧ a'.remaining = a.remaining.drop n ∧
      a'.cnt = a.cnt + n ∧ AInv a' ∧ a'.closed = false ∧ a'.ending = a.ending := by
  by_cases hle : n ≤ a.avail
  · obtain ⟨v, e1, e2⟩ := A.readBitsAux_fast (fuel + 1) a n h1 h64 hle
    refine ⟨v, a.take n, e1, e2, (A.take_remaining a n hle).1, rfl, ?_, hc, rfl⟩
    exact ⟨by simp only [A.take]; have := hi.av; omega,
      fun h => by have h' : a.closed = true := h; rw [hc] at h'; cases h'⟩
  · rw [A.remaining_length] at hen
    have hr : a.rest ≠ [] := by
      intro h; rw [h] at hen; simp only [List.length_nil] at hen; omega
    obtain ⟨p1, p2, p3, p4, p5, p6, p7, p8⟩ := A.pull_spec a hc hr
    have hn1 : n - a.avail ≤ a.pull.2.avail := by rw [p3]; omega
    obtain ⟨v1, e1, e2⟩ := A.readBitsAux_fast fuel a.pull.2 (n - a.avail) (by omega) (by omega) hn1
    obtain ⟨t1, t2⟩ := A.take_remaining a.pull.2 (n - a.avail) hn1
    have hl : (wordBits a.cur a.avail).length = a.avail := natBits_length _ _
    refine ⟨((a.cur &&& mask a.avail) <<< (n - a.avail)) ||| v1, a.pull.2.take (n - a.avail),
      ?_, ?_, ?_, ?_, ?_, p6, p8⟩
    · rw [A.readBitsAux]
      rw [if_neg (by omega), if_neg hle, p1]
      simp only [e1]
    · -- the value
      have hv1 : v1.toNat < 2 ^ (n - a.avail) := by
        rw [e2, t2]; exact Nat.mod_lt _ (Nat.two_pow_pos _)
      have hx : a.cur.toNat % 2 ^ a.avail < 2 ^ a.avail := Nat.mod_lt _ (Nat.two_pow_pos _)
      have hpow : 2 ^ a.avail * 2 ^ (n - a.avail) = 2 ^ n := by
        rw [← Nat.pow_add]; congr 1; omega
      have hbig : a.cur.toNat % 2 ^ a.avail * 2 ^ (n - a.avail) < 2 ^ 64 := by
        have h2 : a.cur.toNat % 2 ^ a.avail * 2 ^ (n - a.avail) < 2 ^ a.avail * 2 ^ (n - a.avail) :=
          Nat.mul_lt_mul_of_pos_right hx (Nat.two_pow_pos _)
        have h3 : 2 ^ n ≤ 2 ^ 64 := Nat.pow_le_pow_right (by decide) h64
        omega
      rw [BitVec.toNat_or, BitVec.toNat_shiftLeft, BitVec.toNat_and, mask_toNat' _ hi.av,
        Nat.and_two_pow_sub_one_eq_mod, Nat.shiftLeft_eq, Nat.mod_eq_of_lt hbig,
        Nat.mul_comm, ← Nat.two_pow_add_eq_or_of_lt hv1]
      simp only [A.remaining]
      rw [List.take_append, List.take_of_length_le (by omega), hl, bitsNat_append]
      simp only [wordBits]
      rw [bitsNat_natBits, e2, p2, List.length_take, bytesBits_length,
        Nat.min_eq_left (by omega), Nat.mul_comm]
    · rw [t1, p2]
      simp only [A.remaining]
      rw [List.drop_append, List.drop_of_length_le (l := wordBits a.cur a.avail) (by omega), hl,
        List.nil_append]
    · simp only [A.take, p5]; push_cast; omega
    · exact ⟨by simp only [A.take]; omega,
        fun h => by have h' : a.pull.2.closed = true := h; rw [p6] at h'; cases h'⟩

theorem A.readBits_spec (a : A) (hi : AInv a) (hc : a.closed = false) (n : Nat)
    (h1 : 1 ≤ n) (h64 : n ≤ 64) (hen : n ≤ a.remaining.length) :
    ∃ v a', A.readBits a n = (.val v, a') ∧
      v.toNat = bitsNat (a.remaining.take n) ∧ a'.remaining = a.remaining.drop n ∧
      a'.cnt = a.cnt + n ∧ AInv a' ∧ a'.closed = false ∧ a'.ending = a.ending :=
  A.readBitsAux_spec n a hi hc n h1 h64 hen


theorem one_toNat : (1 : BitVec 64).toNat = 2 ^ 1 - 1 := by decide

/-- `ReadBit` with at least one bit left -/
theorem A.readBit_spec (a : A) (hi : AInv a) (hc : a.closed = false)
    (hen : 1 ≤ a.remaining.length) :
    ∃ v a', A.readBit a = (.val v, a') ∧
      v.toNat = bitsNat (a.remaining.take 1) ∧ a'.remaining = a.remaining.drop 1 ∧
      a'.cnt = a.cnt + 1 ∧ AInv a' ∧ a'.closed = false ∧ a'.ending = a.ending := by
  unfold A.readBit
  by_cases h0 : a.avail = 0
  · rw [if_pos h0]
    rw [A.remaining_length] at hen
    have hr : a.rest ≠ [] := by
      intro h; rw [h] at hen; simp only [List.length_nil] at hen; omega
    obtain ⟨p1, p2, p3, p4, p5, p6, p7, p8⟩ := A.pull_spec a hc hr
    have hpos : 1 ≤ a.pull.2.avail := by
      rw [p3]; have := List.length_pos_iff.mpr hr; omega
    obtain ⟨t1, t2⟩ := A.take_remaining a.pull.2 1 hpos
    have hrem : a.remaining = a.pull.2.remaining := by
      rw [p2]; simp only [A.remaining, h0, wordBits, natBits_zero, List.nil_append]
    rw [p1]
    refine ⟨_, _, rfl, ?_, ?_, ?_, ?_, p6, p8⟩
    · rw [hrem, t2, BitVec.toNat_and, BitVec.toNat_ushiftRight, one_toNat,
        Nat.and_two_pow_sub_one_eq_mod, Nat.shiftRight_eq_div_pow]
    · rw [hrem, t1]
    · simp only [A.take, p5, h0]; push_cast; omega
    · exact ⟨by simp only [A.take]; omega,
        fun h => by have h' : a.pull.2.closed = true := h; rw [p6] at h'; cases h'⟩
  · rw [if_neg h0]
    obtain ⟨t1, t2⟩ := A.take_remaining a 1 (by omega)
    refine ⟨_, _, rfl, ?_, t1, rfl, ?_, hc, rfl⟩
    · rw [t2, BitVec.toNat_and, BitVec.toNat_ushiftRight, one_toNat,
        Nat.and_two_pow_sub_one_eq_mod, Nat.shiftRight_eq_div_pow]
    · exact ⟨by simp only [A.take]; have := hi.av; omega,
        fun h => by have h' : a.closed = true := h; rw [hc] at h'; cases h'⟩

/-- not enough bits: `ReadBits` panics with the ending of the source, nothing is fabricated -/
theorem A.readBits_eos (a : A) (hc : a.closed = false) (n : Nat)
    (h1 : 1 ≤ n) (h64 : n ≤ 64) (hen : a.remaining.length < n) :
    (A.readBits a n).1 = .panic a.ending := by
  rw [A.remaining_length] at hen
  unfold A.readBits
  have hf : n + 2 = (n + 1) + 1 := rfl
  rw [hf, A.readBitsAux, if_neg (by omega), if_neg (by omega)]
  by_cases hr : a.rest = []
  · rw [A.pull_nil a hc hr]
  · obtain ⟨p1, p2, p3, p4, p5, p6, p7, p8⟩ := A.pull_spec a hc hr
    rw [p1]
    have hlt : a.rest.length < 8 := by omega
    have hr2 : a.pull.2.rest = [] := by
      rw [p7]; exact List.drop_of_length_le (by omega)
    have hinner : (A.readBitsAux (n + 1) a.pull.2 (n - a.avail)).1 = .panic a.ending := by
      rw [A.readBitsAux, if_neg (by omega), if_neg (by rw [p3]; omega),
        A.pull_nil a.pull.2 p6 hr2, p8]
    simp only [hinner]

theorem A.readBit_eos (a : A) (hc : a.closed = false) (hen : a.remaining.length = 0) :
    (A.readBit a).1 = .panic a.ending := by
  rw [A.remaining_length] at hen
  unfold A.readBit
  rw [if_pos (by omega)]
  have hr : a.rest = [] := List.eq_nil_of_length_eq_zero (by omega)
  rw [A.pull_nil a hc hr]

/-- after `Close` -/
theorem A.readBit_closed (a : A) (hi : AInv a) (hc : a.closed = true) :
    A.readBit a = (.panic .closed, a) := by
  unfold A.readBit
  rw [if_pos (hi.cl hc).1, A.pull_closed a hc]

theorem A.readBits_closed (a : A) (hi : AInv a) (hc : a.closed = true) (n : Nat)
    (h1 : 1 ≤ n) (h64 : n ≤ 64) : A.readBits a n = (.panic .closed, a) := by
  unfold A.readBits
  have hf : n + 2 = (n + 1) + 1 := rfl
  rw [hf, A.readBitsAux, if_neg (by omega), if_neg (by rw [(hi.cl hc).1]; omega),
    A.pull_closed a hc]

theorem A.readArray_closed (a : A) (hc : a.closed = true) (k : Nat) :
    A.readArray a k = (.panic .closed, a) := by
  unfold A.readArray; rw [if_pos hc]

end Kanzi.IBS
