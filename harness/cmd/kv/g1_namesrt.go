package main

// Stream `namesrt` (C15): codec names through the full Writer / Reader path of the REAL code.
// The bytes produced with any letter-case spelling of the transform chain and of the entropy codec
// (with or without NONE fillers in the chain) must equal the bytes produced with the canonical
// upper-case spelling, and must decode back to the input.  Headerless: the Reader is given its own
// spelling (rt=, re=), independent of the Writer's.
//
// Scenario line:
//   namesrt t=<chain as spelled> e=<entropy as spelled> shape=<name> size=<n> dseed=<s> bs=<blocksize>
//           j=<jobs> ck=<0|32|64> hl=<0|1> [rt=<reader-side chain spelling> re=<reader-side entropy spelling>]
// Canonical spelling = upper case with the NONE fillers removed ("NONE" if nothing is left).

import (
	"bytes"
	"fmt"
	"math/rand"
	"strconv"
	"strings"
)

func namesCanon(chain string) string {
	var out []string
	for _, t := range strings.Split(chain, "+") {
		u := strings.ToUpper(t)
		if u != "NONE" {
			out = append(out, u)
		}
	}
	if len(out) == 0 {
		return "NONE"
	}
	return strings.Join(out, "+")
}

func namesrtExec(op string, res *Result) string {
	c, err := g1Parse(op)
	if err != nil {
		res.Violation = &Violation{Kind: "input", Site: "harness", Symptom: "bad-scenario", What: err.Error()}
		return "bad-scenario"
	}
	data, err := c.data()
	if err != nil {
		res.Violation = &Violation{Kind: "input", Site: "harness", Symptom: "bad-scenario", What: err.Error()}
		return "bad-scenario"
	}
	return g1Guard(op, res, g1Limit(c.Size), func() string { return namesrtRun(c, data, res) })
}

func namesCaseClass(s string) string {
	switch {
	case s == strings.ToUpper(s):
		return "upper"
	case s == strings.ToLower(s):
		return "lower"
	}
	return "mixed"
}

func namesrtRun(c *g1Cfg, data []byte, res *Result) string {
	ct, ce := namesCanon(c.T), strings.ToUpper(c.E)
	fillers := strings.Count(strings.ToUpper(c.T), "NONE") > 0 && ct != "NONE"
	res.Tags = append(res.Tags, "e:"+ce, "tcase:"+namesCaseClass(c.T), "ecase:"+namesCaseClass(c.E), "chainlen:"+strconv.Itoa(g1RealTransforms(c.T)), "hl:"+strconv.FormatBool(c.HL), "fillers:"+strconv.FormatBool(fillers))
	for _, t := range strings.Split(ct, "+") {
		res.Tags = append(res.Tags, "t:"+t)
	}
	res.Key = c.T + "&" + c.E + "|" + c.KV["rt"] + "&" + c.KV["re"] + "|" + strconv.FormatBool(c.HL)
	p := g1Params{T: c.T, E: c.E, BS: c.BS, J: c.J, CK: c.CK, HL: c.HL, WSplit: "one"}
	pc := p
	pc.T, pc.E = ct, ce
	spelled := g1Compress(data, p)
	canon := g1Compress(data, pc)
	violate := func(sym, what string) string {
		g1SetViolation(res, &Violation{Kind: "input", Site: "io.names", Symptom: sym, What: what})
		res.Tags = append(res.Tags, "outcome:violation")
		return "violation " + sym
	}
	if canon.CtorErr != nil || spelled.CtorErr != nil {
		if (canon.CtorErr == nil) != (spelled.CtorErr == nil) {
			return violate("stream-differs-by-case", fmt.Sprintf("constructor accepts only one of the spellings: %q/%q -> %v ; %q/%q -> %v", c.T, c.E, spelled.CtorErr, ct, ce, canon.CtorErr))
		}
		res.Tags = append(res.Tags, "outcome:rejected")
		return "rejected"
	}
	if canon.Err != nil && spelled.Err != nil {
		// both fail the same way: a round-trip (C01) matter, reported by rt
		res.Tags = append(res.Tags, "outcome:ref-error")
		return "ref-error"
	}
	if (canon.Err == nil) != (spelled.Err == nil) {
		return violate("stream-differs-by-case", fmt.Sprintf("only one spelling compresses without error: %q/%q -> %v ; %q/%q -> %v", c.T, c.E, spelled.Err, ct, ce, canon.Err))
	}
	if i := g1FirstDiff(spelled.Out, canon.Out); i >= 0 {
		sym := "stream-differs-by-case"
		// is it the case or the fillers?
		if fillers {
			pu := p
			pu.T, pu.E = strings.ToUpper(c.T), ce
			if up := g1Compress(data, pu); up.Err == nil && up.CtorErr == nil && bytes.Equal(up.Out, spelled.Out) {
				sym = "stream-differs-by-filler"
			}
		}
		return violate(sym, fmt.Sprintf("stream for t=%q e=%q (%d bytes) differs from the stream for t=%q e=%q (%d bytes) at offset %d", c.T, c.E, len(spelled.Out), ct, ce, len(canon.Out), i))
	}
	// decode the spelled stream
	rt, re := c.KV["rt"], c.KV["re"]
	if rt == "" {
		rt = c.T
	}
	if re == "" {
		re = c.E
	}
	check := func(label, t, e string) string {
		d := g1Decompress(bytes.NewReader(spelled.Out), g1RParams{T: t, E: e, BS: c.BS, RJ: c.J, CK: c.CK, HL: c.HL, RSplit: "one"}, len(data))
		if d.CtorErr != nil {
			return fmt.Sprintf("%s: Reader constructor (t=%q e=%q): %v", label, t, e, d.CtorErr)
		}
		if d.Problem != "" {
			return fmt.Sprintf("%s (t=%q e=%q): %s: %s", label, t, e, d.Problem, d.What)
		}
		if i := g1FirstDiff(d.Out, data); i >= 0 {
			return fmt.Sprintf("%s (t=%q e=%q): decoded %d bytes for %d, first difference at %d, no error", label, t, e, len(d.Out), len(data), i)
		}
		return ""
	}
	if c.HL {
		for _, v := range [][3]string{{"headerless reader, reader-side spelling", rt, re}, {"headerless reader, canonical names", ct, ce}, {"headerless reader, writer-side spelling", c.T, c.E}} {
			if msg := check(v[0], v[1], v[2]); msg != "" {
				// the canonical stream decoded with canonical names tells a codec defect from a naming one
				dc := g1Decompress(bytes.NewReader(canon.Out), g1RParams{T: ct, E: ce, BS: c.BS, RJ: c.J, CK: c.CK, HL: true, RSplit: "one"}, len(data))
				if dc.CtorErr != nil || dc.Problem != "" || !bytes.Equal(dc.Out, data) {
					res.Tags = append(res.Tags, "outcome:ref-error")
					return "ref-error"
				}
				return violate("decode-wrong-by-case", msg)
			}
		}
	} else if msg := check("reader", "", ""); msg != "" {
		// stream is byte-identical to the canonical one: a decode failure is not a naming matter
		res.Tags = append(res.Tags, "outcome:ref-error")
		_ = msg
		return "ref-error"
	}
	si := g1Analyse(spelled.Out, c.HL, c.T, c.CK)
	res.Nontrivial = (c.T != ct || c.E != ce || rt != ct || re != ce) && (si.Applied > 0 || ct == "NONE")
	if si.Applied > 0 {
		res.Tags = append(res.Tags, "applied:yes")
	}
	res.Tags = append(res.Tags, "outcome:ok")
	res.Sample = map[string]any{"scenario": c.Raw, "canonical": ct + "&" + ce, "len": len(spelled.Out), "applied_blocks": si.Applied}
	return fmt.Sprintf("ok len=%d", len(spelled.Out))
}

func namesSpell(r *rand.Rand, s, mode string) string {
	switch mode {
	case "upper":
		return strings.ToUpper(s)
	case "lower":
		return strings.ToLower(s)
	}
	b := []byte(strings.ToLower(s))
	changed := false
	for i := range b {
		if b[i] >= 'a' && b[i] <= 'z' && r.Intn(2) == 0 {
			b[i] -= 32
			changed = true
		}
	}
	if !changed || string(b) == strings.ToUpper(s) {
		// force a genuinely mixed spelling: first letter lower, second upper where possible
		b = []byte(strings.ToUpper(s))
		for i := range b {
			if b[i] >= 'A' && b[i] <= 'Z' {
				b[i] += 32
				break
			}
		}
	}
	return string(b)
}

// data that exercises the variant-specific code of a chain / entropy
func namesShape(r *rand.Rand, chain, e string) string {
	u := strings.ToUpper(chain)
	switch {
	case strings.Contains(u, "ROLZ"):
		return pick(r, []string{"reptext", "reptext", "runs", "text"})
	case strings.Contains(u, "TEXT"):
		return pick(r, []string{"text", "reptext"})
	case strings.Contains(u, "UTF"):
		return "utf8-50"
	case strings.Contains(u, "EXE"):
		return pick(r, []string{"exe-elfsec", "exe-pe"})
	case strings.Contains(u, "MM"):
		return "wavefull"
	case strings.Contains(u, "DNA"):
		return "dna"
	case strings.Contains(u, "PACK"):
		return pick(r, []string{"alpha4", "numeric"})
	}
	return pick(r, []string{"text", "reptext", "runs", "mixedsafe", "skew-250-6"})
}

func namesrtGen(r *rand.Rand, tier string, n int, emit func(op string, tags ...string)) {
	thorough := tier == "thorough"
	modes := []string{"lower", "upper", "mixed"}
	mk := func(fam, t, e string, hl bool, rtS, reS string) {
		ct := namesCanon(t)
		sh := namesShape(r, ct, e)
		bs := pick(r, []int{1024, 4096})
		size := bs + r.Intn(3*bs)
		if g1Heavy(e) {
			size = 1500 + r.Intn(3000)
		}
		j := pick(r, []int{1, 1, 2, 3})
		if g1Heavy(e) {
			j = 1
		}
		h := 0
		if hl {
			h = 1
		}
		op := fmt.Sprintf("namesrt t=%s e=%s shape=%s size=%d dseed=%d bs=%d j=%d ck=%d hl=%d", t, e, sh, size, r.Intn(1<<30), bs, j, pick(r, []int{0, 32, 64}), h)
		if hl {
			op += fmt.Sprintf(" rt=%s re=%s", rtS, reS)
		}
		emit(op, "family:"+fam)
	}
	// 1. every one of the 19 + 9 names in the three spellings.  Thorough: the full 19 x 9 x 3 x 3
	// product, header and headerless.  Quick: every transform spelling against 3 entropy spellings,
	// every entropy spelling against 4 transform spellings, and the full product for the names whose
	// codec VARIANT is selected from a name (TEXT by the entropy, ROLZ/ROLZX, TPAQ/TPAQX).
	single := func(t, e, mt, me string) {
		st, se := namesSpell(r, t, mt), namesSpell(r, e, me)
		mk("single", st, se, false, "", "")
		if thorough || r.Intn(3) == 0 || t == "ROLZX" || strings.HasPrefix(e, "TPAQ") {
			mk("single-headerless", st, se, true, namesSpell(r, t, pick(r, modes)), namesSpell(r, e, pick(r, modes)))
		}
	}
	if thorough {
		for _, t := range g1Transforms {
			for _, e := range g1Entropies {
				for _, mt := range modes {
					for _, me := range modes {
						single(t, e, mt, me)
					}
				}
			}
		}
	} else {
		for _, t := range g1Transforms {
			for _, mt := range modes {
				for k := 0; k < 3; k++ {
					single(t, pick(r, g1LightEntropies), mt, pick(r, modes))
				}
			}
		}
		for _, e := range g1Entropies {
			for _, me := range modes {
				ts := []string{"NONE", "TEXT", pick(r, g1Transforms[1:]), pick(r, g1Transforms[1:])}
				if g1Heavy(e) && e != "CM" {
					ts = ts[:2]
				}
				for _, t := range ts {
					single(t, e, pick(r, modes), me)
				}
			}
		}
		for _, t := range []string{"TEXT", "ROLZ", "ROLZX"} {
			for _, e := range g1Entropies {
				if t != "TEXT" && g1Heavy(e) {
					continue
				}
				for _, mt := range modes {
					for _, me := range modes {
						if g1Heavy(e) && e != "CM" && mt != me {
							continue
						}
						single(t, e, mt, me)
					}
				}
			}
		}
	}
	// 2. all chains of length 2 (thorough: and 3)
	lightE := g1LightEntropies
	for _, a := range g1Transforms[1:] {
		for _, b := range g1Transforms[1:] {
			for _, mt := range modes {
				e := pick(r, lightE)
				if r.Intn(12) == 0 {
					e = "CM"
				}
				if (a == "TEXT" || b == "TEXT") && r.Intn(6) == 0 {
					e = pick(r, []string{"TPAQ", "TPAQX"})
				}
				ch := namesSpell(r, a, mt) + "+" + namesSpell(r, b, mt)
				se := namesSpell(r, e, pick(r, modes))
				hl := r.Intn(4) == 0
				mk("pair", ch, se, hl, namesSpell(r, a+"+"+b, pick(r, modes)), namesSpell(r, e, pick(r, modes)))
			}
		}
	}
	if thorough {
		for _, a := range g1Transforms[1:] {
			for _, b := range g1Transforms[1:] {
				for _, d := range g1Transforms[1:] {
					mt := pick(r, modes)
					e := pick(r, lightE)
					ch := namesSpell(r, a, mt) + "+" + namesSpell(r, b, pick(r, modes)) + "+" + namesSpell(r, d, mt)
					hl := r.Intn(4) == 0
					mk("triple", ch, namesSpell(r, e, pick(r, modes)), hl, namesSpell(r, a+"+"+b+"+"+d, pick(r, modes)), namesSpell(r, e, pick(r, modes)))
				}
			}
		}
	} else {
		for k := 0; k < 100; k++ {
			a, b, d := pick(r, g1Transforms[1:]), pick(r, g1Transforms[1:]), pick(r, g1Transforms[1:])
			e := pick(r, lightE)
			ch := namesSpell(r, a, pick(r, modes)) + "+" + namesSpell(r, b, pick(r, modes)) + "+" + namesSpell(r, d, pick(r, modes))
			mk("triple", ch, namesSpell(r, e, pick(r, modes)), r.Intn(4) == 0, namesSpell(r, a+"+"+b+"+"+d, pick(r, modes)), namesSpell(r, e, pick(r, modes)))
		}
	}
	// 3. random chains <= 8 tokens with NONE fillers
	cnt := 250
	if thorough {
		cnt = 5000
	}
	if n > 0 {
		cnt = n
	}
	for k := 0; k < cnt; k++ {
		ntok := 1 + r.Intn(8)
		var toks, rtoks []string
		for i := 0; i < ntok; i++ {
			t := pick(r, g1Transforms[1:])
			if r.Intn(3) == 0 {
				t = "NONE"
			}
			toks = append(toks, namesSpell(r, t, pick(r, modes)))
			rtoks = append(rtoks, namesSpell(r, t, pick(r, modes)))
		}
		e := pick(r, lightE)
		if r.Intn(15) == 0 {
			e = pick(r, g1Entropies)
		}
		// the reader-side chain may also place its fillers differently
		rch := strings.Join(rtoks, "+")
		if r.Intn(3) == 0 {
			rch = namesSpell(r, namesCanon(rch), pick(r, modes))
		}
		mk("fillers", strings.Join(toks, "+"), namesSpell(r, e, pick(r, modes)), r.Intn(3) == 0, rch, namesSpell(r, e, pick(r, modes)))
	}
}

func init() {
	registerStream(&Stream{
		Name: "namesrt",
		Rule: "full Writer/Reader path of the real code: all 19 transform names and 9 entropy names in {lower, upper, mixed} spelling (thorough: full 19 x 9 x 3 x 3 product; quick: each name spelling against sampled partners + full product for TEXT/ROLZ/ROLZX/TPAQ/TPAQX whose codec variant is chosen from a name), all chains of length 2 (thorough: 3; quick: 100 sampled) in the three spellings, random chains <= 8 tokens with NONE fillers; " +
			"stream bytes must equal those of the canonical upper-case filler-free spelling and decode to the input, on data exercising the variant-specific code (text for TEXT, repetitive for ROLZ/ROLZX, any for TPAQ/TPAQX); " +
			"headerless: Writer headerless + NewHeaderlessReader given an independently spelled (lower/mixed, fillers moved) chain and entropy name must decode to the original; " +
			"distinct_nontrivial = distinct (writer spelling, reader spelling, header mode) that is not already the canonical spelling and whose stream has a transform applied (or the chain is NONE)",
		Gen:  namesrtGen,
		Exec: namesrtExec,
	})
}
