/-
`text` slice: the array / index models `fwdLoop`, `invLoop` compute what the list specifications `encL`, `decL`
(TextSpec.lean) compute.
-/
import Kanzi.Proofs.TextSpec

namespace Kanzi.Text
open Kanzi.RLT (Out Res wr)

/-! ## slices of the source as lists -/

theorem ext_eq (a : Array Nat) (s e : Nat) : (a.extract s e).toList = (a.toList.take e).drop s := by
  rw [Array.toList_extract, List.extract_eq_drop_take']

theorem ext_self (a : Array Nat) (i : Nat) : (a.extract i i).toList = [] := by
  rw [ext_eq]
  apply List.drop_eq_nil_of_le
  rw [List.length_take]; omega

theorem getD_toList (a : Array Nat) (i : Nat) (h : i < a.size) : a.getD i 0 = a.toList[i]'(by simpa using h) := by
  rw [Array.getD_eq_getD_getElem?, Array.getElem?_eq_getElem h]; rfl

theorem ext_succ (a : Array Nat) (ws i : Nat) (h1 : ws ≤ i) (h2 : i < a.size) :
    (a.extract ws (i + 1)).toList = (a.extract ws i).toList ++ [a.getD i 0] := by
  have hl : i < a.toList.length := by simpa using h2
  rw [ext_eq, ext_eq, List.take_succ_eq_append_getElem hl, List.drop_append_of_le_length (by
    rw [List.length_take]; omega), getD_toList a i h2]

theorem ext_append (a : Array Nat) (x y z : Nat) (h1 : x ≤ y) (h2 : y ≤ z) (h3 : z ≤ a.size) :
    (a.extract x z).toList = (a.extract x y).toList ++ (a.extract y z).toList := by
  have hl : z ≤ a.toList.length := by simpa using h3
  rw [ext_eq, ext_eq, ext_eq]
  have e1 : a.toList.take z = a.toList.take y ++ (a.toList.take z).drop y := by
    have := List.take_append_drop y (a.toList.take z)
    rw [List.take_take, Nat.min_eq_left h2] at this
    exact this.symm
  rw [e1, List.drop_append_of_le_length (by rw [List.length_take]; omega)]
  congr 1
  rw [← e1]

theorem ext_one (a : Array Nat) (i : Nat) (h : i < a.size) : (a.extract i (i + 1)).toList = [a.getD i 0] := by
  rw [ext_succ a i i (Nat.le_refl _) h, ext_self]; rfl

theorem drop_cons (a : Array Nat) (i : Nat) (h : i < a.size) :
    a.toList.drop i = a.getD i 0 :: a.toList.drop (i + 1) := by
  rw [List.drop_eq_getElem_cons (by simpa using h), getD_toList a i h]

/-! ## Forward -/

/-- a word found by Forward's look-up has the length of the looked-up word -/
theorem fwdLookup_some_len (d : Dict) (w : List Nat) (r : Option Nat × Option Nat) (k : Nat)
    (h : fwdLookup d w = .ok r) (hk : r.1 = some k) : (entryAt d k).len = w.length := by
  unfold fwdLookup at h
  simp only at h
  generalize hc : (if hit d (findEntry d (hashWord w)) (hashWord w) w.length = true then
      findEntry d (hashWord w)
    else if hit d (findEntry d (hashWord (flipFirst w))) (hashWord (flipFirst w)) w.length = true then
      findEntry d (hashWord (flipFirst w)) else none) = cand at h
  cases cand with
  | none =>
    simp only at h
    cases h; cases hk
  | some k' =>
    have hh : ∃ hx, hit d (some k') hx w.length = true := by
      by_cases c1 : hit d (findEntry d (hashWord w)) (hashWord w) w.length = true
      · rw [if_pos c1] at hc
        exact ⟨_, by rw [← hc]; exact c1⟩
      · rw [if_neg c1] at hc
        by_cases c2 : hit d (findEntry d (hashWord (flipFirst w))) (hashWord (flipFirst w)) w.length = true
        · rw [if_pos c2] at hc
          exact ⟨_, by rw [← hc]; exact c2⟩
        · rw [if_neg c2] at hc; cases hc
    obtain ⟨hx, hh⟩ := hh
    simp only at h
    cases hp : (entryAt d k').ptr with
    | none => rw [hp] at h; cases h
    | some v =>
      rw [hp] at h
      simp only at h
      by_cases cs : sameTail v w = true
      · rw [if_pos cs] at h
        cases h
        cases hk
        exact (hit_some d k hx _ hh).2
      · rw [if_neg cs] at h
        cases h; cases hk

/-- relation between a loop-head state of `fwdLoop` and a state of `encL` -/
structure Renc (src : Array Nat) (s : FSt) (e : ES) : Prop where
  ws_le : s.ws ≤ s.i
  ea_le : s.ea ≤ s.ws
  i_le : s.i ≤ src.size
  X_eq : e.X = (src.extract s.ea s.ws).toList
  pw_eq : e.pw = (src.extract s.ws s.i).toList
  words_eq : e.words = s.words
  d_eq : e.d = s.d
  out_eq : e.out = s.out

theorem X_single (src : Array Nat) (ea ws : Nat) (h1 : ea ≤ ws) (h2 : ws ≤ src.size) :
    (ea + 1 ≠ ws ∨ src.getD (ws - 1) 0 ≠ 32) ↔ (src.extract ea ws).toList ≠ [32] := by
  constructor
  · intro h hx
    have hl : (src.extract ea ws).toList.length = 1 := by rw [hx]; rfl
    rw [extract_length src ea ws h2] at hl
    have hws : ws = ea + 1 := by omega
    subst hws
    rw [ext_one src ea (by omega)] at hx
    rcases h with h | h
    · exact h rfl
    · apply h
      simp only [Nat.add_sub_cancel]
      exact (List.cons.inj hx).1
  · intro h
    by_cases c : ea + 1 = ws
    · right
      subst c
      intro hx
      apply h
      rw [ext_one src ea (by omega)]
      simp only [Nat.add_sub_cancel] at hx
      rw [hx]
    · left; exact c

theorem emitPending_L (tc2 crlf : Bool) (ssz dstEnd : Nat) (src : Array Nat) (ea ws : Nat) (out o : Array Nat)
    (h1 : ea ≤ ws) (h2 : ws ≤ src.size) (h : emitPending tc2 crlf ssz dstEnd src ea ws out = .ok o) :
    emitPendingL tc2 crlf ssz dstEnd (src.extract ea ws).toList out = .ok o := by
  unfold emitPending at h
  unfold emitPendingL
  by_cases cx : ea + 1 ≠ ws ∨ src.getD (ws - 1) 0 ≠ 32
  · rw [if_pos cx] at h
    rw [if_pos ((X_single src ea ws h1 h2).mp cx)]
    by_cases c1 : ea > ws
    · rw [if_pos c1] at h; cases h
    · rw [if_neg c1] at h
      by_cases c2 : out.size > dstEnd
      · rw [if_pos c2] at h; cases h
      · rw [if_neg c2] at h; exact h
  · rw [if_neg cx] at h
    rw [if_neg (fun hx => cx ((X_single src ea ws h1 h2).mpr hx))]
    exact h

/-- one delimiter: `fwdWord` followed by "Reset delimiter position" is `encStep` -/
theorem fwdWord_encStep (tc2 : Bool) (src : Array Nat) (dstLen dstEnd : Nat) (crlf : Bool) (s s1 : FSt) (e : ES)
    (hR : Renc src s e) (hi : s.i < src.size) (hnt : ¬ isText (src.getD s.i 0) = true)
    (h : fwdWord tc2 src dstLen dstEnd crlf s (src.getD s.i 0) = .ok s1) :
    ∃ e1, encStep tc2 dstLen dstEnd crlf e (src.getD s.i 0) = .ok e1 ∧
      Renc src ⟨s.i + 1, s.i + 1, s1.ea, s1.words, s1.d, s1.out⟩ e1 := by
  have hlen : e.pw.length = s.i - s.ws := by rw [hR.pw_eq]; exact extract_length src s.ws s.i hR.i_le
  have hXn : (src.extract s.ea (s.i + 1)).toList = e.X ++ e.pw ++ [src.getD s.i 0] := by
    rw [ext_append src s.ea s.ws (s.i + 1) hR.ea_le (by have := hR.ws_le; omega) (by omega),
      ext_succ src s.ws s.i hR.ws_le hi, hR.X_eq, hR.pw_eq, List.append_assoc]
  have hea : s.ea ≤ s.i + 1 := by have := hR.ea_le; have := hR.ws_le; omega
  unfold fwdWord at h
  simp only at h
  unfold encStep
  rw [if_neg hnt]
  by_cases c0 : s.i ≥ s.ws + 2 ∧ isDelimiter (src.getD s.i 0) = true ∧ s.i - s.ws ≤ MAX_WORD_LENGTH
  · rw [if_pos c0] at h
    rw [if_pos (by rw [hlen]; exact ⟨by omega, c0.2.1, c0.2.2⟩)]
    rw [hR.d_eq, hR.pw_eq]
    cases hr : fwdLookup s.d (src.extract s.ws s.i).toList with
    | err e' => rw [hr] at h; cases h
    | fault e' => rw [hr] at h; cases h
    | ok r =>
      rw [hr] at h
      simp only at h ⊢
      cases hr1 : r.1 with
      | none =>
        rw [hr1] at h
        simp only at h ⊢
        rw [← hR.pw_eq, hlen, hR.words_eq]
        by_cases c1 : (s.i - s.ws > 3 ∨ s.i - s.ws = 3 ∧ s.words < THRESHOLD2) ∧ r.2 = none
        · rw [if_pos c1] at h
          rw [if_pos c1, hR.pw_eq]
          cases hl : learn s.d s.words (src.extract s.ws s.i).toList (hashWord (src.extract s.ws s.i).toList) with
          | err e' => rw [hl] at h; cases h
          | fault e' => rw [hl] at h; cases h
          | ok p =>
            rw [hl] at h
            simp only at h ⊢
            cases h
            refine ⟨_, rfl, ?_⟩
            constructor
            · exact Nat.le_refl _
            · exact hea
            · show s.i + 1 ≤ src.size; omega
            · show e.X ++ (src.extract s.ws s.i).toList ++ [src.getD s.i 0] = (src.extract s.ea (s.i + 1)).toList
              rw [hXn, hR.pw_eq]
            · show [] = (src.extract (s.i + 1) (s.i + 1)).toList
              rw [ext_self]
            · rfl
            · rfl
            · exact hR.out_eq
        · rw [if_neg c1] at h
          rw [if_neg c1]
          cases h
          refine ⟨_, rfl, ?_⟩
          constructor
          · exact Nat.le_refl _
          · exact hea
          · show s.i + 1 ≤ src.size; omega
          · show e.X ++ e.pw ++ [src.getD s.i 0] = (src.extract s.ea (s.i + 1)).toList
            rw [hXn]
          · show [] = (src.extract (s.i + 1) (s.i + 1)).toList
            rw [ext_self]
          · rfl
          · rfl
          · exact hR.out_eq
      | some k =>
        rw [hr1] at h
        simp only at h ⊢
        have hk := fwdLookup_some_len s.d _ r k hr hr1
        rw [extract_length src s.ws s.i hR.i_le] at hk
        rw [hR.X_eq, hR.out_eq]
        cases hp : emitPending tc2 crlf s.d.ssz dstEnd src s.ea s.ws s.out with
        | err e' => rw [hp] at h; cases h
        | fault e' => rw [hp] at h; cases h
        | ok o =>
          rw [hp] at h
          rw [emitPending_L tc2 crlf s.d.ssz dstEnd src s.ea s.ws s.out o hR.ea_le
            (by have := hR.ws_le; omega) hp]
          simp only at h ⊢
          by_cases c3 : o.size + (if tc2 = true then 3 else 4) ≥ dstEnd
          · rw [if_pos c3] at h; cases h
          · rw [if_neg c3] at h
            rw [if_neg c3]
            cases ht : fwdToken tc2 dstLen o (decide (r.2 = some k)) ((entryAt s.d k).idx % (MASK_LENGTH + 1)) with
            | err e' => rw [ht] at h; cases h
            | fault e' => rw [ht] at h; cases h
            | ok o2 =>
              rw [ht] at h
              simp only at h ⊢
              cases h
              refine ⟨_, rfl, ?_⟩
              constructor
              · exact Nat.le_refl _
              · show s.ws + (entryAt s.d k).len ≤ s.i + 1
                rw [hk]; have := hR.ws_le; omega
              · show s.i + 1 ≤ src.size; omega
              · show [src.getD s.i 0] = (src.extract (s.ws + (entryAt s.d k).len) (s.i + 1)).toList
                rw [hk, show s.ws + (s.i - s.ws) = s.i by have := hR.ws_le; omega, ext_one src s.i hi]
              · show [] = (src.extract (s.i + 1) (s.i + 1)).toList
                rw [ext_self]
              · exact hR.words_eq
              · rfl
              · rfl
  · rw [if_neg c0] at h
    rw [if_neg (by rw [hlen]; intro hc; exact c0 ⟨by omega, hc.2.1, hc.2.2⟩)]
    cases h
    refine ⟨_, rfl, ?_⟩
    constructor
    · exact Nat.le_refl _
    · exact hea
    · show s.i + 1 ≤ src.size; omega
    · show e.X ++ e.pw ++ [src.getD s.i 0] = (src.extract s.ea (s.i + 1)).toList
      rw [hXn]
    · show [] = (src.extract (s.i + 1) (s.i + 1)).toList
      rw [ext_self]
    · exact hR.words_eq
    · exact hR.d_eq
    · exact hR.out_eq

/-- the main loop of Forward computes `encL` over the rest of the source -/
theorem fwdLoop_encL (tc2 : Bool) (src : Array Nat) (dstLen dstEnd : Nat) (crlf : Bool) :
    ∀ (f : Nat) (s s' : FSt) (e : ES), Renc src s e → src.size < f + s.i →
      fwdLoop tc2 src dstLen dstEnd crlf f s = .ok s' →
      ∃ e', encL tc2 dstLen dstEnd crlf (src.toList.drop s.i) e = .ok e' ∧ Renc src s' e' ∧ s'.i = src.size
  | 0, s, s', e, hR, hf, h => by have := hR.i_le; omega
  | f + 1, s, s', e, hR, hf, h => by
    unfold fwdLoop at h
    simp only at h
    by_cases c0 : s.i < src.size
    · rw [if_pos c0] at h
      rw [drop_cons src s.i c0]
      unfold encL
      by_cases c1 : isText (src.getD s.i 0) = true
      · rw [if_pos c1] at h
        have hst : encStep tc2 dstLen dstEnd crlf e (src.getD s.i 0) = .ok { e with pw := e.pw ++ [src.getD s.i 0] } := by
          unfold encStep; rw [if_pos c1]
        rw [hst]
        simp only
        refine fwdLoop_encL tc2 src dstLen dstEnd crlf f _ s' _ ?_ (by simp only; omega) h
        constructor
        · show s.ws ≤ s.i + 1; have := hR.ws_le; omega
        · exact hR.ea_le
        · show s.i + 1 ≤ src.size; omega
        · exact hR.X_eq
        · show e.pw ++ [src.getD s.i 0] = (src.extract s.ws (s.i + 1)).toList
          rw [ext_succ src s.ws s.i hR.ws_le c0, hR.pw_eq]
        · exact hR.words_eq
        · exact hR.d_eq
        · exact hR.out_eq
      · rw [if_neg c1] at h
        cases hw : fwdWord tc2 src dstLen dstEnd crlf s (src.getD s.i 0) with
        | err e' => rw [hw] at h; cases h
        | fault e' => rw [hw] at h; cases h
        | ok s1 =>
          rw [hw] at h
          simp only at h
          obtain ⟨e1, he1, hR1⟩ := fwdWord_encStep tc2 src dstLen dstEnd crlf s s1 e hR c0 c1 hw
          rw [he1]
          simp only
          exact fwdLoop_encL tc2 src dstLen dstEnd crlf f _ s' e1 hR1 (by simp only; omega) h
    · rw [if_neg c0] at h
      cases h
      have hi : s.i = src.size := by have := hR.i_le; omega
      rw [List.drop_eq_nil_of_le (by simp; omega)]
      unfold encL
      exact ⟨e, rfl, hR, hi⟩

/-! ## Inverse: reading at an offset -/

theorem get_shift (a : Array Nat) (j k : Nat) : a[j + k]? = (a.toList.drop j).toArray[k]? := by
  simp [List.getElem?_drop]

theorem get_shift0 (a : Array Nat) (j : Nat) : a[j]? = (a.toList.drop j).toArray[0]? := by
  have := get_shift a j 0
  rwa [Nat.add_zero] at this

def shiftPair (j : Nat) (r : Out (Nat × Nat)) : Out (Nat × Nat) :=
  match r with
  | .ok p => .ok (p.1, j + p.2)
  | .err e => .err e
  | .fault e => .fault e

def shiftTriple (j : Nat) (r : Out (Nat × Nat × Nat)) : Out (Nat × Nat × Nat) :=
  match r with
  | .ok p => .ok (p.1, j + p.2.1, p.2.2)
  | .err e => .err e
  | .fault e => .fault e

theorem readIdx1_shift (a : Array Nat) (j dsz : Nat) :
    readIdx1 a j dsz = shiftPair j (readIdx1 (a.toList.drop j).toArray 0 dsz) := by
  unfold readIdx1
  rw [get_shift0 a j, get_shift a j 1, get_shift a j 2]
  generalize (a.toList.drop j).toArray = b
  simp only [Nat.zero_add]
  cases b[0]? with
  | none => rfl
  | some b0 =>
    simp only
    by_cases c0 : b0 ≥ 128
    · rw [if_pos c0, if_pos c0]
      cases b[1]? with
      | none => rfl
      | some b1 =>
        simp only
        by_cases c1 : b1 ≥ 0x80
        · rw [if_pos c1, if_pos c1]
          cases b[2]? with
          | none => rfl
          | some b2 =>
            simp only
            split <;> rfl
        · rw [if_neg c1, if_neg c1]
          split <;> rfl
    · rw [if_neg c0, if_neg c0]; rfl

theorem readIdx2Multi_shift (a : Array Nat) (idx j : Nat) :
    readIdx2Multi a idx j = shiftPair j (readIdx2Multi (a.toList.drop j).toArray idx 0) := by
  unfold readIdx2Multi
  rw [get_shift0 a j, get_shift a j 1]
  generalize (a.toList.drop j).toArray = b
  simp only [Nat.zero_add]
  by_cases c0 : idx ≥ 112
  · rw [if_pos c0, if_pos c0]
    cases b[0]? <;> cases b[1]? <;> rfl
  · rw [if_neg c0, if_neg c0]
    cases b[0]? <;> rfl

theorem readIdx2Core_shift (a : Array Nat) (c j fl dsz : Nat) :
    readIdx2Core a c j fl dsz = shiftTriple j (readIdx2Core (a.toList.drop j).toArray c 0 fl dsz) := by
  unfold readIdx2Core
  rw [readIdx2Multi_shift a (c &&& 0x7F) j]
  generalize readIdx2Multi (a.toList.drop j).toArray (c &&& 0x7F) 0 = r
  by_cases c0 : c &&& 0x7F ≥ 64
  · rw [if_pos c0, if_pos c0]
    cases r with
    | err e => rfl
    | fault e => rfl
    | ok p =>
      simp only [shiftPair]
      split
      · rfl
      · split <;> rfl
  · rw [if_neg c0, if_neg c0]
    split <;> rfl

theorem shiftTriple_comp (j k : Nat) (r : Out (Nat × Nat × Nat)) :
    shiftTriple j (shiftTriple k r) = shiftTriple (j + k) r := by
  cases r with
  | ok p => simp only [shiftTriple, Nat.add_assoc]
  | err e => rfl
  | fault e => rfl

theorem readIdx2_shift (a : Array Nat) (j cur dsz : Nat) :
    readIdx2 a j cur dsz = shiftTriple j (readIdx2 (a.toList.drop j).toArray 0 cur dsz) := by
  unfold readIdx2
  by_cases c0 : cur = MASK_FLIP_CASE
  · rw [if_pos c0, if_pos c0, get_shift0 a j]
    cases hb : (a.toList.drop j).toArray[0]? with
    | none => rfl
    | some c =>
      simp only
      rw [readIdx2Core_shift a c (j + 1), readIdx2Core_shift (a.toList.drop j).toArray c (0 + 1), shiftTriple_comp]
      simp only [List.drop_drop, Nat.zero_add]
  · rw [if_neg c0, if_neg c0]
    exact readIdx2Core_shift a cur j 0 dsz

theorem readIdx2Old_shift (a : Array Nat) (j cur dsz : Nat) :
    readIdx2Old a j cur dsz = shiftTriple j (readIdx2Old (a.toList.drop j).toArray 0 cur dsz) := by
  unfold readIdx2Old
  rw [get_shift0 a j, get_shift a j 1]
  generalize (a.toList.drop j).toArray = b
  simp only [Nat.zero_add]
  by_cases c0 : cur &&& 0x40 ≠ 0
  · rw [if_pos c0, if_pos c0]
    cases b[0]? with
    | none => rfl
    | some b1 =>
      simp only
      by_cases c1 : b1 ≥ 128
      · rw [if_pos c1, if_pos c1]
        cases b[1]? with
        | none => rfl
        | some b2 =>
          simp only [Kanzi.RLT.Out.bind]
          split <;> rfl
      · rw [if_neg c1, if_neg c1]
        simp only [Kanzi.RLT.Out.bind]
        split <;> rfl
  · rw [if_neg c0, if_neg c0]; rfl

/-! ## Inverse: a successful read stays inside the input -/

theorem get_some_lt (b : Array Nat) (k v : Nat) (h : b[k]? = some v) : k < b.size := by
  by_cases c : k < b.size
  · exact c
  · rw [Array.getElem?_eq_none (by omega)] at h; cases h

theorem readIdx1_le (b : Array Nat) (i dsz idx k : Nat) (h : readIdx1 b i dsz = .ok (idx, k)) : k ≤ b.size := by
  unfold readIdx1 at h
  cases h0 : b[i]? with
  | none => rw [h0] at h; cases h
  | some b0 =>
    rw [h0] at h
    simp only at h
    have l0 := get_some_lt b i b0 h0
    by_cases c0 : b0 ≥ 128
    · rw [if_pos c0] at h
      cases h1 : b[i + 1]? with
      | none => rw [h1] at h; cases h
      | some b1 =>
        rw [h1] at h
        simp only at h
        have l1 := get_some_lt b (i + 1) b1 h1
        by_cases c1 : b1 ≥ 0x80
        · rw [if_pos c1] at h
          cases h2 : b[i + 2]? with
          | none => rw [h2] at h; cases h
          | some b2 =>
            rw [h2] at h
            simp only at h
            have l2 := get_some_lt b (i + 2) b2 h2
            split at h
            · cases h
            · cases h; omega
        · rw [if_neg c1] at h
          split at h
          · cases h
          · cases h; omega
    · rw [if_neg c0] at h
      cases h; omega

theorem readIdx2Multi_le (b : Array Nat) (idx i v k : Nat) (h : readIdx2Multi b idx i = .ok (v, k)) :
    k ≤ b.size := by
  unfold readIdx2Multi at h
  by_cases c0 : idx ≥ 112
  · rw [if_pos c0] at h
    cases h0 : b[i]? with
    | none => rw [h0] at h; cases h
    | some b1 =>
      cases h1 : b[i + 1]? with
      | none => rw [h0, h1] at h; cases h
      | some b2 =>
        rw [h0, h1] at h
        have l1 := get_some_lt b (i + 1) b2 h1
        cases h; omega
  · rw [if_neg c0] at h
    cases h0 : b[i]? with
    | none => rw [h0] at h; cases h
    | some b1 =>
      rw [h0] at h
      have l0 := get_some_lt b i b1 h0
      cases h; omega

theorem readIdx2Core_le (b : Array Nat) (c i fl dsz idx k f : Nat) (hi : i ≤ b.size)
    (h : readIdx2Core b c i fl dsz = .ok (idx, k, f)) : k ≤ b.size := by
  unfold readIdx2Core at h
  by_cases c0 : c &&& 0x7F ≥ 64
  · rw [if_pos c0] at h
    cases hm : readIdx2Multi b (c &&& 0x7F) i with
    | err e => rw [hm] at h; cases h
    | fault e => rw [hm] at h; cases h
    | ok r =>
      rw [hm] at h
      simp only at h
      have := readIdx2Multi_le b _ i r.1 r.2 hm
      split at h
      · cases h
      · split at h
        · cases h
        · cases h; exact this
  · rw [if_neg c0] at h
    split at h
    · cases h
    · cases h; exact hi

theorem readIdx2_le (b : Array Nat) (i cur dsz idx k f : Nat) (hi : i ≤ b.size)
    (h : readIdx2 b i cur dsz = .ok (idx, k, f)) : k ≤ b.size := by
  unfold readIdx2 at h
  by_cases c0 : cur = MASK_FLIP_CASE
  · rw [if_pos c0] at h
    cases h0 : b[i]? with
    | none => rw [h0] at h; cases h
    | some c =>
      rw [h0] at h
      have l0 := get_some_lt b i c h0
      exact readIdx2Core_le b c (i + 1) 0x20 dsz idx k f (by omega) h
  · rw [if_neg c0] at h
    exact readIdx2Core_le b cur i 0 dsz idx k f hi h

theorem readIdx2Old_le (b : Array Nat) (i cur dsz idx k f : Nat) (hi : i ≤ b.size)
    (h : readIdx2Old b i cur dsz = .ok (idx, k, f)) : k ≤ b.size := by
  unfold readIdx2Old at h
  simp only at h
  by_cases c0 : cur &&& 0x40 ≠ 0
  · rw [if_pos c0] at h
    cases h0 : b[i]? with
    | none => rw [h0] at h; cases h
    | some b1 =>
      rw [h0] at h
      simp only at h
      have l0 := get_some_lt b i b1 h0
      by_cases c1 : b1 ≥ 128
      · rw [if_pos c1] at h
        cases h1 : b[i + 1]? with
        | none => rw [h1] at h; cases h
        | some b2 =>
          rw [h1] at h
          have l1 := get_some_lt b (i + 1) b2 h1
          simp only [Kanzi.RLT.Out.bind] at h
          split at h
          · cases h
          · cases h; omega
      · rw [if_neg c1] at h
        simp only [Kanzi.RLT.Out.bind] at h
        split at h
        · cases h
        · cases h; omega
  · rw [if_neg c0] at h
    cases h; exact hi

/-! ## Inverse -/

/-- relation between a loop-head state of `invLoop` and a state of `decL` -/
structure Rdec (a : Array Nat) (t : ISt) (ds : DS) : Prop where
  i_le : t.i ≤ a.size
  ws_le : t.ws ≤ t.i + 1
  pw_eq : ds.pw = if t.ws ≤ t.i then some (a.extract t.ws t.i).toList else none
  words_eq : ds.words = t.words
  run_eq : ds.run = t.run
  d_eq : ds.d = t.d
  out_eq : ds.out = t.out.toList

theorem toList_appendList (out : Array Nat) (l : List Nat) : (out ++ l).toList = out.toList ++ l := by
  simp [Array.toList_appendList]

theorem emitWord_L (a : Array Nat) (dstLen : Nat) (t : ISt) (ds ds' : DS) (i2 idx flip : Nat)
    (hw : ds.words = t.words) (hr : ds.run = t.run) (hd : ds.d = t.d) (ho : ds.out = t.out.toList)
    (hi2 : i2 ≤ a.size) (h : emitWordL dstLen ds idx flip = .ok ds') :
    ∃ t', emitWord dstLen t i2 idx flip = .ok t' ∧ t'.i = i2 ∧ Rdec a t' ds' := by
  unfold emitWordL at h
  unfold emitWord
  simp only
  rw [hd] at h
  by_cases c0 : idx ≥ t.d.list.size
  · rw [if_pos c0] at h; cases h
  · rw [if_neg c0] at h
    rw [if_neg c0]
    cases hp : (entryAt t.d idx).ptr with
    | none => rw [hp] at h; cases h
    | some w =>
      rw [hp] at h
      simp only at h ⊢
      have ho1 : (if (entryAt t.d idx).len % 256 > 1 ∧ ds.run = true then ds.out ++ [32] else ds.out) =
          (if (entryAt t.d idx).len % 256 > 1 ∧ t.run = true then t.out.push 32 else t.out).toList := by
        rw [hr, ho]
        split
        · rw [Array.toList_push]
        · rfl
      rw [ho1, Array.length_toList] at h
      by_cases c1 : (if (entryAt t.d idx).len % 256 > 1 ∧ t.run = true then t.out.push 32 else t.out).size +
          (entryAt t.d idx).len % 256 ≥ dstLen
      · rw [if_pos c1] at h; cases h
      · rw [if_neg c1] at h
        rw [if_neg c1]
        cases h
        refine ⟨_, rfl, rfl, ?_⟩
        constructor
        · exact hi2
        · show (if (entryAt t.d idx).len % 256 > 1 then i2 + 1 else i2) ≤ i2 + 1
          split <;> omega
        · show (if (entryAt t.d idx).len % 256 > 1 then none else some []) =
            if (if (entryAt t.d idx).len % 256 > 1 then i2 + 1 else i2) ≤ i2 then
              some (a.extract (if (entryAt t.d idx).len % 256 > 1 then i2 + 1 else i2) i2).toList else none
          by_cases c2 : (entryAt t.d idx).len % 256 > 1
          · rw [if_pos c2, if_pos c2, if_neg (by omega)]
          · rw [if_neg c2, if_neg c2, if_pos (Nat.le_refl _), ext_self]
        · exact hw
        · rfl
        · rfl
        · exact (toList_appendList _ _).symm

theorem invLit_L (a : Array Nat) (dstLen : Nat) (crlf : Bool) (t : ISt) (ds ds' : DS) (cur : Nat)
    (hw : ds.words = t.words) (hd : ds.d = t.d) (ho : ds.out = t.out.toList)
    (hi : t.i ≤ a.size) (h : litL dstLen crlf ds cur = .ok ds') :
    ∃ t', invLit dstLen crlf t cur = .ok t' ∧ t'.i = t.i ∧ Rdec a t' ds' := by
  unfold litL at h
  unfold invLit
  by_cases c0 : crlf = true ∧ cur = LF
  · rw [if_pos c0] at h
    rw [if_pos c0]
    rw [ho, Array.length_toList] at h
    by_cases c1 : t.out.size + 1 ≥ dstLen
    · rw [if_pos c1] at h; cases h
    · rw [if_neg c1] at h
      rw [if_neg c1]
      cases h
      refine ⟨_, rfl, rfl, ?_⟩
      constructor
      · exact hi
      · show t.i ≤ t.i + 1; omega
      · show some [] = if t.i ≤ t.i then some (a.extract t.i t.i).toList else none
        rw [if_pos (Nat.le_refl _), ext_self]
      · exact hw
      · rfl
      · exact hd
      · show t.out.toList ++ [CR, cur] = ((t.out.push CR).push cur).toList
        rw [Array.toList_push, Array.toList_push, List.append_assoc]; rfl
  · rw [if_neg c0] at h
    rw [if_neg c0]
    cases h
    refine ⟨_, rfl, rfl, ?_⟩
    constructor
    · exact hi
    · show t.i ≤ t.i + 1; omega
    · show some [] = if t.i ≤ t.i then some (a.extract t.i t.i).toList else none
      rw [if_pos (Nat.le_refl _), ext_self]
    · exact hw
    · rfl
    · exact hd
    · show ds.out ++ [cur] = (t.out.push cur).toList
      rw [Array.toList_push, ho]

theorem drop_size (a : Array Nat) (j : Nat) : (a.toList.drop j).toArray.size = a.size - j := by
  simp

theorem invLearn_L (a : Array Nat) (t : ISt) (ds : DS) (cur : Nat) (hR : Rdec a t ds) :
    invLearn a t.i t.ws t.words t.d cur = learnL ds.pw ds.words ds.d cur := by
  unfold invLearn learnL
  rw [hR.pw_eq, hR.words_eq, hR.d_eq]
  by_cases c : t.ws ≤ t.i
  · rw [if_pos c]
    simp only
    rw [extract_length a t.ws t.i hR.i_le]
    by_cases g : t.i ≥ t.ws + 3 ∧ isDelimiter cur = true ∧ t.i - t.ws ≤ MAX_WORD_LENGTH
    · rw [if_pos g, if_pos ⟨by omega, g.2.1, g.2.2⟩]
    · rw [if_neg g, if_neg (fun h => g ⟨by omega, h.2.1, h.2.2⟩)]
  · rw [if_neg c, if_neg (by omega)]

/-- one iteration of Inverse: `decStep` succeeds => `invStep` succeeds with the related state -/
theorem invStep_decStep (tc2 old : Bool) (a : Array Nat) (dstLen : Nat) (crlf : Bool) (t : ISt) (ds ds' : DS)
    (k : Nat) (hR : Rdec a t ds) (hi : t.i < a.size)
    (h : decStep tc2 old dstLen crlf ds (a.getD t.i 0) (a.toList.drop (t.i + 1)) = .ok (ds', k)) :
    ∃ t', invStep tc2 old a dstLen crlf t = .ok t' ∧ t'.i = t.i + 1 + k ∧ Rdec a t' ds' := by
  unfold decStep at h
  unfold invStep
  simp only
  by_cases c0 : isText (a.getD t.i 0) = true
  · rw [if_pos c0] at h
    rw [if_pos c0]
    cases h
    refine ⟨_, rfl, rfl, ?_⟩
    constructor
    · show t.i + 1 ≤ a.size; omega
    · show t.ws ≤ t.i + 1 + 1; have := hR.ws_le; omega
    · show pwPush ds.pw (a.getD t.i 0) = if t.ws ≤ t.i + 1 then some (a.extract t.ws (t.i + 1)).toList else none
      rw [hR.pw_eq, if_pos hR.ws_le]
      by_cases c : t.ws ≤ t.i
      · rw [if_pos c, ext_succ a t.ws t.i c hi]; rfl
      · rw [if_neg c]
        have : t.ws = t.i + 1 := by have := hR.ws_le; omega
        rw [this, ext_self]; rfl
    · exact hR.words_eq
    · exact hR.run_eq
    · exact hR.d_eq
    · show ds.out ++ [a.getD t.i 0] = (t.out.push (a.getD t.i 0)).toList
      rw [Array.toList_push, hR.out_eq]
  · rw [if_neg c0] at h
    rw [if_neg c0, invLearn_L a t ds _ hR]
    cases hl : learnL ds.pw ds.words ds.d (a.getD t.i 0) with
    | err e => rw [hl] at h; cases h
    | fault e => rw [hl] at h; cases h
    | ok p =>
      rw [hl] at h
      simp only at h ⊢
      unfold tokL at h
      have hls : (a.toList.drop (t.i + 1)).toArray.size = a.size - (t.i + 1) := drop_size a (t.i + 1)
      cases tc2
      · simp only [Bool.false_eq_true, if_false] at h ⊢
        unfold invTok1
        by_cases c1 : a.getD t.i 0 = ESCAPE_TOKEN1 ∨ a.getD t.i 0 = ESCAPE_TOKEN2
        · rw [if_pos c1] at h
          rw [if_pos c1]
          simp only
          rw [readIdx1_shift a (t.i + 1)]
          cases hr : readIdx1 (a.toList.drop (t.i + 1)).toArray 0 p.1.size with
          | err e => rw [hr] at h; cases h
          | fault e => rw [hr] at h; cases h
          | ok q =>
            rw [hr] at h
            simp only [shiftPair] at h ⊢
            have hq := readIdx1_le _ 0 _ q.1 q.2 hr
            cases he : emitWordL dstLen { ds with d := p.1, words := p.2 } q.1
                (if a.getD t.i 0 = ESCAPE_TOKEN2 then 0x20 else 0) with
            | err e => rw [he] at h; cases h
            | fault e => rw [he] at h; cases h
            | ok s' =>
              rw [he] at h
              simp only at h
              cases h
              obtain ⟨t', ht', hti, hR'⟩ := emitWord_L a dstLen ⟨t.i + 1, t.ws, p.2, t.run, p.1, t.out⟩
                { ds with d := p.1, words := p.2 } ds' (t.i + 1 + q.2) q.1 _ rfl hR.run_eq rfl hR.out_eq
                (by omega) he
              exact ⟨t', ht', hti, hR'⟩
        · rw [if_neg c1] at h
          rw [if_neg c1]
          cases hlit : litL dstLen crlf { ds with d := p.1, words := p.2 } (a.getD t.i 0) with
          | err e => rw [hlit] at h; cases h
          | fault e => rw [hlit] at h; cases h
          | ok s' =>
            rw [hlit] at h
            simp only at h
            cases h
            obtain ⟨t', ht', hti, hR'⟩ := invLit_L a dstLen crlf ⟨t.i + 1, t.ws, p.2, t.run, p.1, t.out⟩
              { ds with d := p.1, words := p.2 } ds' _ rfl rfl hR.out_eq (by simp only; omega) hlit
            exact ⟨t', ht', hti, hR'⟩
      · simp only [if_true] at h ⊢
        unfold invTok2
        by_cases c1 : a.getD t.i 0 ≥ 128
        · rw [if_pos c1] at h
          rw [if_pos c1]
          simp only
          have hsh : (if old = true then readIdx2Old a (t.i + 1) (a.getD t.i 0) p.1.size
                else readIdx2 a (t.i + 1) (a.getD t.i 0) p.1.size) =
              shiftTriple (t.i + 1) (if old = true then
                  readIdx2Old (a.toList.drop (t.i + 1)).toArray 0 (a.getD t.i 0) p.1.size
                else readIdx2 (a.toList.drop (t.i + 1)).toArray 0 (a.getD t.i 0) p.1.size) := by
            cases old
            · simp only [Bool.false_eq_true, if_false]; exact readIdx2_shift a (t.i + 1) _ _
            · simp only [if_true]; exact readIdx2Old_shift a (t.i + 1) _ _
          rw [hsh]
          cases hr : (if old = true then
                readIdx2Old (a.toList.drop (t.i + 1)).toArray 0 (a.getD t.i 0) p.1.size
              else readIdx2 (a.toList.drop (t.i + 1)).toArray 0 (a.getD t.i 0) p.1.size) with
          | err e => rw [hr] at h; cases h
          | fault e => rw [hr] at h; cases h
          | ok q =>
            rw [hr] at h
            simp only [shiftTriple] at h ⊢
            have hq : q.2.1 ≤ (a.toList.drop (t.i + 1)).toArray.size := by
              cases old
              · simp only [Bool.false_eq_true, if_false] at hr
                exact readIdx2_le _ 0 _ _ q.1 q.2.1 q.2.2 (Nat.zero_le _) hr
              · simp only [if_true] at hr
                exact readIdx2Old_le _ 0 _ _ q.1 q.2.1 q.2.2 (Nat.zero_le _) hr
            cases he : emitWordL dstLen { ds with d := p.1, words := p.2 } q.1 q.2.2 with
            | err e => rw [he] at h; cases h
            | fault e => rw [he] at h; cases h
            | ok s' =>
              rw [he] at h
              simp only at h
              cases h
              obtain ⟨t', ht', hti, hR'⟩ := emitWord_L a dstLen ⟨t.i + 1, t.ws, p.2, t.run, p.1, t.out⟩
                { ds with d := p.1, words := p.2 } ds' (t.i + 1 + q.2.1) q.1 q.2.2 rfl hR.run_eq rfl hR.out_eq
                (by omega) he
              exact ⟨t', ht', hti, hR'⟩
        · rw [if_neg c1] at h
          rw [if_neg c1]
          by_cases c2 : a.getD t.i 0 = ESCAPE_TOKEN1
          · rw [if_pos c2] at h
            rw [if_pos c2]
            simp only
            rw [get_shift0 a (t.i + 1)]
            cases hl2 : a.toList.drop (t.i + 1) with
            | nil => rw [hl2] at h; cases h
            | cons b l2 =>
              rw [hl2] at h
              simp only at h
              cases h
              have hlen : (a.toList.drop (t.i + 1)).length = a.size - (t.i + 1) := by simp
              rw [hl2] at hlen
              simp only [List.length_cons] at hlen
              refine ⟨_, rfl, rfl, ?_⟩
              constructor
              · show t.i + 1 + 1 ≤ a.size; omega
              · show t.i + 1 + 1 ≤ t.i + 1 + 1 + 1; omega
              · show some [] = if t.i + 1 + 1 ≤ t.i + 1 + 1 then some (a.extract (t.i + 1 + 1) (t.i + 1 + 1)).toList
                  else none
                rw [if_pos (Nat.le_refl _), ext_self]
              · rfl
              · rfl
              · rfl
              · show ds.out ++ [b] = (t.out.push b).toList
                rw [Array.toList_push, hR.out_eq]
          · rw [if_neg c2] at h
            rw [if_neg c2]
            cases hlit : litL dstLen crlf { ds with d := p.1, words := p.2 } (a.getD t.i 0) with
            | err e => rw [hlit] at h; cases h
            | fault e => rw [hlit] at h; cases h
            | ok s' =>
              rw [hlit] at h
              simp only at h
              cases h
              obtain ⟨t', ht', hti, hR'⟩ := invLit_L a dstLen crlf ⟨t.i + 1, t.ws, p.2, t.run, p.1, t.out⟩
                { ds with d := p.1, words := p.2 } ds' _ rfl rfl hR.out_eq (by simp only; omega) hlit
              exact ⟨t', ht', hti, hR'⟩

/-- the loop of Inverse: when `decL` succeeds on the rest of the input, `invLoop` succeeds with the related
    state and has consumed the whole input -/
theorem invLoop_decL (tc2 old : Bool) (a : Array Nat) (dstLen : Nat) (crlf : Bool) :
    ∀ (f : Nat) (t : ISt) (ds ds' : DS), Rdec a t ds → a.size < f + t.i →
      decL tc2 old dstLen crlf (a.toList.drop t.i) ds = .ok ds' →
      ∃ t', invLoop tc2 old a dstLen crlf f t = .ok t' ∧ t'.i = a.size ∧ Rdec a t' ds'
  | 0, t, ds, ds', hR, hf, h => by have := hR.i_le; omega
  | f + 1, t, ds, ds', hR, hf, h => by
    unfold invLoop
    by_cases c0 : t.i < a.size
    · rw [drop_cons a t.i c0, decL] at h
      rw [hR.out_eq, Array.length_toList] at h
      by_cases c1 : t.out.size < dstLen
      · rw [if_pos c1] at h
        rw [if_pos ⟨c0, c1⟩]
        cases hs : decStep tc2 old dstLen crlf ds (a.getD t.i 0) (a.toList.drop (t.i + 1)) with
        | err e => rw [hs] at h; cases h
        | fault e => rw [hs] at h; cases h
        | ok p =>
          rw [hs] at h
          simp only at h
          obtain ⟨t1, ht1, hi1, hR1⟩ := invStep_decStep tc2 old a dstLen crlf t ds p.1 p.2 hR c0 hs
          rw [ht1]
          simp only
          rw [List.drop_drop, ← hi1] at h
          exact invLoop_decL tc2 old a dstLen crlf f t1 p.1 ds' hR1 (by omega) h
      · rw [if_neg c1] at h; cases h
    · rw [if_neg (fun hc => c0 hc.1)]
      rw [List.drop_eq_nil_of_le (by simp; omega), decL] at h
      cases h
      exact ⟨t, rfl, by have := hR.i_le; omega, hR⟩

end Kanzi.Text
