/-
The order-0 ANS decoder with the buffer bound of `decodeChunkV2` (`Kanzi.BlockGen.ans0DecodeB`, see
`Kanzi/Model/BlockGen.lean`) satisfies the exact-consumption law: on what the encoder wrote, the declared
payload size of every chunk is at most twice the chunk length (`C12_ans0_payload_le`), so the bound
never fires and the decoder is `EntSmall.ans0Decode`.
-/
import Kanzi.Model.BlockGen
import Kanzi.Proofs.Ans0

namespace Kanzi.BlockGen.Ans0Dec
open Kanzi.Bits Kanzi.EntSmall

/-- the statistics of a non-empty chunk of bytes: the normalised table is a valid frequency table
over an alphabet that contains every byte of the chunk (same derivation as `oneChunk_facts`) -/
theorem oneChunk_table (c : List Nat) (lr : Nat) (hlr : 8 ≤ lr ∧ lr ≤ 15) (hne : c ≠ [])
    (hb : ∀ b ∈ c, b < 256) :
    ∃ o, Kanzi.Normalize.normalize (histogram c) c.length (2 ^ lr) = .ok o ∧
      FreqTable o.alphabet o.freqs lr ∧ (o.alphabet.map (fun s => o.freqs.getD s 0)).sum = 2 ^ lr ∧
      (∀ b ∈ c, b ∈ o.alphabet) ∧ o.alphabet.length ≤ 256 ∧ o.alphabet.length = o.size := by
  have hp8 : 2 ^ 8 ≤ 2 ^ lr := Nat.pow_le_pow_right (by decide) hlr.1
  have hp16 : 2 ^ lr ≤ 2 ^ 16 := Nat.pow_le_pow_right (by decide) (by omega)
  have hlen := histogram_length c
  have hsumh := histogram_sum c hb
  have hpos : 0 < c.length := List.length_pos_iff.mpr hne
  obtain ⟨o, ho, hl, hsum, hsup, hsize, hasz, hsorted, hmem⟩ :=
    Kanzi.Normalize.normalize_valid (histogram c) (2 ^ lr) (by omega) ⟨by omega, by omega⟩ (by omega)
  rw [hsumh] at ho
  have hc : ∀ b ∈ c, b < 256 → 0 < (histogram c).getD b 0 := fun b hbc h => histogram_pos c b hbc h
  have hal : o.alphabet.length ≤ 256 := by
    rw [hasz, hsize, ← hlen]
    exact List.length_filter_le _ _
  generalize histogram c = h at *
  have halt : ∀ s ∈ o.alphabet, s < 256 := fun s hs => by have := ((hmem s).mp hs).1; omega
  have hz : ∀ i, i ∉ o.alphabet → o.freqs.getD i 0 = 0 := by
    intro i hi
    by_cases hi256 : i < h.length
    · have hh : h.getD i 0 = 0 := by
        by_contra hc
        exact hi ((hmem i).mpr ⟨hi256, hc⟩)
      have := hsup i hi256
      rw [hh] at this
      have : ¬ 0 < o.freqs.getD i 0 := fun hc => by have := this.mpr hc; omega
      omega
    · have hn : o.freqs[i]? = none := List.getElem?_eq_none (by omega)
      rw [List.getD_eq_getElem?_getD, hn]; rfl
  have hposA : ∀ s ∈ o.alphabet, 1 ≤ o.freqs.getD s 0 := by
    intro s hs
    obtain ⟨h1, h2⟩ := (hmem s).mp hs
    exact (hsup s h1).mp (by omega)
  have hsumA : (o.alphabet.map (fun s => o.freqs.getD s 0)).sum = 2 ^ lr := by
    rw [← sum_over_alphabet o.alphabet o.freqs hsorted (by intro s hs; have := halt s hs; omega) hz, hsum]
  have hle : ∀ s ∈ o.alphabet, o.freqs.getD s 0 ≤ 2 ^ lr := by
    intro s hsa
    rw [← hsumA]
    exact mem_le_sum _ _ (List.mem_map.mpr ⟨s, hsa, rfl⟩)
  have hin : ∀ b ∈ c, b ∈ o.alphabet := by
    intro b hbc
    have h256 := hb b hbc
    refine (hmem b).mpr ⟨by omega, ?_⟩
    have := hc b hbc h256
    omega
  have hneA : o.alphabet ≠ [] := by
    obtain ⟨b, hbc⟩ := List.exists_mem_of_ne_nil c hne
    exact List.ne_nil_of_mem (hin b hbc)
  exact ⟨o, ho, ⟨hsorted, halt, hneA, by omega, hz, hposA, hle⟩, hsumA, hin, hal, hasz⟩

/-- the bounded chunk decoder on an encoded chunk -/
theorem chunkB_rt (c f : List Nat) (lr buf : Nat) (hlr : 8 ≤ lr ∧ lr ≤ 15) (hlen : f.length ≤ 256)
    (hsum : f.sum = 2 ^ lr) (hsym : ∀ a ∈ c, SymOk f a) (hsz : c.length < 2 ^ 26)
    (hbuf : 2 * c.length ≤ buf) (rest : Bits) :
    ans0ChunkB (mkDecTable f lr) lr c.length buf (ans0EncodeChunk c (mkEncSyms f lr) ++ rest) =
      some (c, rest) := by
  have hp := (final_facts c f lr hlr hlen hsum hsym).2.2
  unfold ans0PayloadLen at hp
  have hv : readVarInt (ans0EncodeChunk c (mkEncSyms f lr) ++ rest) =
      some ((ans0Final c (mkEncSyms f lr)).out.length,
        natBits (ans0Final c (mkEncSyms f lr)).st0 32 ++ (natBits (ans0Final c (mkEncSyms f lr)).st1 32 ++
          (natBits (ans0Final c (mkEncSyms f lr)).st2 32 ++ (natBits (ans0Final c (mkEncSyms f lr)).st3 32 ++
            (ofBytes (ans0Final c (mkEncSyms f lr)).out ++ rest))))) := by
    rw [ans0EncodeChunk_eq]
    simp only [List.append_assoc]
    exact varint_roundtrip _ (by omega) _
  unfold ans0ChunkB
  rw [hv]
  simp only
  rw [if_neg (by omega)]
  exact chunk_rt c f lr hlr hlen hsum hsym hsz rest

theorem chunksB_rt (chunkSize lr buf : Nat) (hlr : 8 ≤ lr ∧ lr ≤ 15) (hcs0 : 0 < chunkSize)
    (hcs : chunkSize < 2 ^ 26) : ∀ (fuel : Nat) (blk : List Nat), blk.length ≤ fuel →
    (∀ b ∈ blk, b < 256) → 2 * min chunkSize blk.length ≤ buf →
    ∃ enc, ans0EncodeChunks fuel chunkSize lr blk = some enc ∧
      ∀ rest : Bits, ans0DecodeChunksB fuel chunkSize buf blk.length (enc ++ rest) = some (blk, rest) := by
  intro fuel
  induction fuel with
  | zero =>
    intro blk hl _ _
    have : blk = [] := List.length_eq_zero_iff.mp (by omega)
    subst this
    exact ⟨[], rfl, fun rest => rfl⟩
  | succ fuel ih =>
    intro blk hl hb hbuf
    by_cases h0 : blk.length = 0
    · have : blk = [] := List.length_eq_zero_iff.mp h0
      subst this
      exact ⟨[], rfl, fun rest => rfl⟩
    · have hclen : (blk.take chunkSize).length = min chunkSize blk.length := List.length_take
      have hcne : blk.take chunkSize ≠ [] := by
        intro h
        rw [h] at hclen
        simp only [List.length_nil] at hclen
        omega
      have hbc : ∀ b ∈ blk.take chunkSize, b < 256 := fun b h => hb b (List.mem_of_mem_take h)
      obtain ⟨o, ho, ht, hsumA, hin, _, hasz⟩ := oneChunk_table (blk.take chunkSize) lr hlr hcne hbc
      obtain ⟨tl, htl, hdec⟩ := ih (blk.drop chunkSize) (by rw [List.length_drop]; omega)
        (fun b h => hb b (List.mem_of_mem_drop h)) (by rw [List.length_drop]; omega)
      have hA0 : ¬ o.alphabet.length = 0 := length_ne_zero_of_ne_nil _ ht.nonempty
      have hdl : blk.length - min chunkSize blk.length = (blk.drop chunkSize).length := by
        rw [List.length_drop]; omega
      refine ⟨ansEncodeHeader o.alphabet o.freqs lr
          ++ (if o.size > 1 then ans0EncodeChunk (blk.take chunkSize) (mkEncSyms o.freqs lr) else [])
          ++ tl, ?_, ?_⟩
      · simp only [ans0EncodeChunks, if_neg h0, ans0EncodeOneChunk, ho, htl]
      · intro rest
        simp only [ans0DecodeChunksB, if_neg h0, List.append_assoc]
        rw [ans_header_roundtrip _ _ lr hlr ht hsumA]
        simp only [if_neg hA0]
        by_cases h1 : o.alphabet.length = 1
        · have hs : ¬ o.size > 1 := by omega
          have hone : blk.take chunkSize = List.replicate (blk.take chunkSize).length (o.alphabet.headD 0) := by
            apply eq_replicate_of_all
            intro b hbc'
            have := hin b hbc'
            match hal : o.alphabet, h1, this with
            | [s], _, hm => simpa using hm
          simp only [if_pos h1, if_neg hs, List.nil_append]
          rw [hdl, hdec rest, ← hclen, ← hone]
          simp only [List.take_append_drop]
        · have hs : o.size > 1 := by omega
          simp only [if_neg h1, if_pos hs]
          rw [← hclen, chunkB_rt (blk.take chunkSize) o.freqs lr buf hlr (Nat.le_of_eq ht.len)
            (table_sum _ _ lr ht hsumA) (fun b hbc' => symOk_of_table _ _ lr ht b (hin b hbc'))
            (by omega) (by omega)]
          simp only
          rw [hclen, hdl, hdec rest]
          simp only [List.take_append_drop]

/-- `ANSRangeEncoder.Write` then `ANSRangeDecoder.Read` with the buffer bound: exact consumption -/
theorem blockB_rt (blk : List Nat) (chunkSize lr : Nat) (hlr : 8 ≤ lr ∧ lr ≤ 15) (hcs0 : 0 < chunkSize)
    (hcs : chunkSize < 2 ^ 26) (hb : ∀ b ∈ blk, b < 256) :
    ∃ enc, ans0Encode blk chunkSize lr = some enc ∧
      ∀ rest : Bits, ans0DecodeB (enc ++ rest) blk.length chunkSize = some (blk, rest) := by
  unfold ans0Encode ans0DecodeB
  by_cases h32 : blk.length ≤ 32
  · simp only [if_pos h32]
    refine ⟨_, rfl, fun rest => ?_⟩
    rw [arrayBits_eq, List.take_of_length_le (Nat.le_refl _)]
    exact readBytes_ofBytes blk rest hb
  · simp only [if_neg h32]
    exact chunksB_rt chunkSize lr _ hlr hcs0 hcs blk.length blk (Nat.le_refl _) hb (by omega)

end Kanzi.BlockGen.Ans0Dec
