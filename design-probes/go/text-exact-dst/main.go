//go:build ignore

// Reproducer (finding of the `text` slice, property C13): textCodec1.Inverse fails into a destination of exactly
// len(block) bytes when the last byte of the block is 0x0E or 0x0F; one spare byte makes it succeed.
// Run from /verif/harness:  GOFLAGS=-mod=mod GOPROXY=off go run ../design-probes/go/text-exact-dst/main.go
// Expected with the defect:  exact: err=Text transform failed. Invalid input data   spare: err=<nil> equal=true
// Suspected line: v2/transform/TextCodec.go, textCodec1.Inverse, "if pe.ptr == nil || dstIdx+length >= dstEnd"
// (also taken for the 1-byte escape entries; `>` would be enough: copy(dst[dstIdx:], pe.ptr[0:length]) stays in range).
package main

import (
	"bytes"
	"fmt"
	"strings"

	"github.com/flanglet/kanzi-go/v2/transform"
)

func main() {
	block := append([]byte(strings.Repeat("the ", 255)+"the"), 0x0F) // 1024 bytes
	ctx := map[string]any{"textcodec": 1}
	f, _ := transform.NewTextCodecWithCtx(&ctx)
	enc := make([]byte, f.MaxEncodedLen(len(block)))
	_, n, err := f.Forward(block, enc)
	fmt.Println("forward: written", n, "err", err)
	for _, spare := range []int{0, 1} {
		ctx2 := map[string]any{"textcodec": 1}
		g, _ := transform.NewTextCodecWithCtx(&ctx2)
		dst := make([]byte, len(block)+spare)
		_, m, err := g.Inverse(enc[:n], dst)
		fmt.Printf("inverse into len+%d: written=%d err=%v equal=%v\n", spare, m, err, bytes.Equal(dst[:m], block))
	}
}
