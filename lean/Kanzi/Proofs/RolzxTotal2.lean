/-
ROLZX (`rolzCodec2`): Forward never faults on blocks of SEVERAL chunks either (`rolzxForward_nf_multi`).

The 8 first literals of a chunk (and, when the last chunk has at most 8 bytes, the 4 last literals that follow them)
are coded without a test on the destination, right after `reset()`.  The crude bound (one 32-bit flush per coded
bit) is too weak for them; here is the quantitative one:
  * after `reset()` every probability is 32767; a cell is updated at most once per symbol, so during the first 12
    symbols every probability read stays in `[22391, 43143]`, i.e. `1399 ≤ p >> 4 ≤ 2696` (`PInv`);
  * with such a probability one coded bit keeps more than a third of the interval (`range_step`: at least `gR`);
  * a flush leaves an interval of at least `2^32 - 1`, and a flush needs an interval below `2^24`: at least 6 bits
    are coded between two flushes (`T 5 ≥ 2^24`), so `n` bits emit at most `(2n + 10) / 3` bytes (`Pot`).
-/
import Kanzi.Proofs.RolzxTotal

namespace Kanzi.ROLZ

/-! ## the interval shrinks slowly when probabilities are moderate -/

/-- a lower bound for the interval width after one bit coded with `1399 ≤ p >> 4 ≤ 2696` -/
def gR (R : Nat) : Nat := (R / 16 * 1399) / 256 - 1

theorem gR_mono {R R' : Nat} (h : R ≤ R') : gR R ≤ gR R' := by
  unfold gR
  have h1 : R / 16 ≤ R' / 16 := Nat.div_le_div_right h
  have h2 : R / 16 * 1399 ≤ R' / 16 * 1399 := Nat.mul_le_mul_right _ h1
  have h3 : R / 16 * 1399 / 256 ≤ R' / 16 * 1399 / 256 := Nat.div_le_div_right h2
  omega

/-- the interval width `j` bits after a flush is at least `T j` -/
def T : Nat → Nat
  | 0 => 4294967295
  | j + 1 => gR (T j)

theorem T_ge : 2 ^ 24 ≤ T 1 ∧ 2 ^ 24 ≤ T 2 ∧ 2 ^ 24 ≤ T 3 ∧ 2 ^ 24 ≤ T 4 ∧ 2 ^ 24 ≤ T 5 := by decide

theorem range_step {e : Enc} (hi : EInv e) {p : Nat} (hp : p < 65536) (hq : 1399 ≤ p / 16 ∧ p / 16 ≤ 2696) (bit : Bool) :
    gR (e.high - e.low) ≤ high1 e p bit - low1 e p bit := by
  have hlt : e.low < e.high := by have := hi.lt; omega
  have hs := splitOf_eq hi.top hi.hi (by omega) hp
  have hsl := splitOf_lt hi.top hi.hi hlt hp
  have h1 : (e.high - e.low) / 16 * 1399 ≤ (e.high - e.low) / 16 * (p / 16) := Nat.mul_le_mul_left _ hq.1
  have h2 : (e.high - e.low) / 16 * (p / 16) ≤ (e.high - e.low) / 16 * 2696 := Nat.mul_le_mul_left _ hq.2
  unfold gR high1 low1
  rw [hs] at hsl ⊢
  cases bit
  · simp only [Bool.false_eq_true, if_false]
    omega
  · simp only [if_true]
    omega

/-! ## the flush budget -/

/-- `s` = number of bits coded since the last flush, capped at 5 (5 = a flush may happen now) -/
def Pot (e : Enc) (s : Nat) : Prop := s ≤ 5 ∧ (s < 5 → T s ≤ e.high - e.low)

theorem pot_any (e : Enc) : Pot e 5 := ⟨Nat.le_refl _, fun h => absurd h (Nat.lt_irrefl _)⟩

/-- one bit: 4 bytes at most, and only when 5 bits or more were coded since the previous flush -/
theorem encodeBit_pot {dstLen : Nat} {e e' : Enc} (hi : EInv e) {p : Nat} (hp : p < 65536)
    (hq : 1399 ≤ p / 16 ∧ p / 16 ≤ 2696) {bit : Bool} {s : Nat} (hpot : Pot e s)
    (h : e.encodeBit dstLen p bit = .ok e') :
    ∃ s', Pot e' s' ∧ 3 * e'.out.size + 2 * s' ≤ 3 * e.out.size + 2 * s + 2 := by
  have hr := range_step hi hp hq bit
  obtain ⟨o1, o2, o3⟩ := step_order hi hp bit
  have hT := T_ge
  rw [encodeBit_eq dstLen hi hp bit] at h
  by_cases hf : low1 e p bit / 2 ^ 24 = high1 e p bit / 2 ^ 24
  · -- flush: only possible when nothing is known about the width
    rw [if_pos hf] at h
    split at h
    · injection h with h
      subst h
      have hs5 : s = 5 := by
        by_cases h5 : s < 5
        · exfalso
          have hw := hpot.2 h5
          have hg := gR_mono hw
          have hs : s = 0 ∨ s = 1 ∨ s = 2 ∨ s = 3 ∨ s = 4 := by omega
          rcases hs with rfl | rfl | rfl | rfl | rfl
          · have hT1 : T 1 = gR (T 0) := rfl
            omega
          · have hT1 : T 2 = gR (T 1) := rfl
            omega
          · have hT1 : T 3 = gR (T 2) := rfl
            omega
          · have hT1 : T 4 = gR (T 3) := rfl
            omega
          · have hT1 : T 5 = gR (T 4) := rfl
            omega
        · have := hpot.1; omega
      refine ⟨0, ⟨by omega, fun _ => ?_⟩, by simp only [push32_size]; omega⟩
      show 4294967295 ≤ _
      simp only
      omega
    · cases h
  · rw [if_neg hf] at h
    injection h with h
    subst h
    by_cases h5 : s < 5
    · have hw := hpot.2 h5
      have hg := gR_mono hw
      have hT1 : T (s + 1) = gR (T s) := rfl
      refine ⟨s + 1, ⟨by omega, fun _ => ?_⟩, by simp only; omega⟩
      simp only
      rw [hT1]
      omega
    · refine ⟨5, pot_any _, ?_⟩
      have := hpot.1
      simp only
      omega

/-! ## probabilities shortly after `reset()` -/

/-- bounds for every probability after `k` symbols since `reset()` (each cell is updated at most once per symbol) -/
def loB : Nat → Nat
  | 0 => 32767
  | k + 1 => loB k - loB k / 32

def hiB : Nat → Nat
  | 0 => 32767
  | k + 1 => hiB k + (65534 - hiB k) / 32

theorem hiB_le (k : Nat) : hiB k ≤ 65534 := by
  induction k with
  | zero => decide
  | succ k ih => show hiB k + (65534 - hiB k) / 32 ≤ 65534; omega

theorem loB_anti {k m : Nat} (h : k ≤ m) : loB m ≤ loB k := by
  induction m with
  | zero => have : k = 0 := by omega
            subst this; exact Nat.le_refl _
  | succ m ih =>
    by_cases hk : k = m + 1
    · subst hk; exact Nat.le_refl _
    · have := ih (by omega)
      show loB m - loB m / 32 ≤ loB k
      omega

theorem hiB_mono {k m : Nat} (h : k ≤ m) : hiB k ≤ hiB m := by
  induction m with
  | zero => have : k = 0 := by omega
            subst this; exact Nat.le_refl _
  | succ m ih =>
    by_cases hk : k = m + 1
    · subst hk; exact Nat.le_refl _
    · have := ih (by omega)
      show hiB k ≤ hiB m + (65534 - hiB m) / 32
      omega

theorem bounds12 : loB 12 = 22391 ∧ hiB 12 = 43143 := by decide

theorem bounds_le12 {k : Nat} (hk : k ≤ 12) : 22391 ≤ loB k ∧ hiB k ≤ 43143 := by
  have h1 := loB_anti hk
  have h2 := hiB_mono hk
  rw [bounds12.1] at h1
  rw [bounds12.2] at h2
  exact ⟨h1, h2⟩

/-- every probability of the table lies within the bounds for `k` symbols -/
def InB (k : Nat) (t : Array Nat) : Prop := ∀ i, i < t.size → loB k ≤ t.getD i 0 ∧ t.getD i 0 ≤ hiB k

theorem inB_probs0 : InB 0 (probs0 9) := by
  intro i hi
  unfold probs0 at hi ⊢
  rw [Array.getD_eq_getD_getElem?, Array.getElem?_replicate]
  rw [Array.size_replicate] at hi
  rw [if_pos hi]
  exact ⟨Nat.le_refl _, Nat.le_refl _⟩

theorem inB_ok {k : Nat} (hk : k ≤ 12) {t : Array Nat} (h : InB k t) : ProbOk t := by
  intro i
  by_cases hi : i < t.size
  · have := (h i hi).2
    have := (bounds_le12 hk).2
    omega
  · rw [Array.getD_eq_getD_getElem?, Array.getElem?_eq_none (by omega)]
    decide

theorem probUp_bounds {p a b : Nat} (ha : a ≤ p) (hb : p ≤ b) (hb2 : b ≤ 65502) (bit : Bool) :
    a - a / 32 ≤ probUp p bit ∧ probUp p bit ≤ b + (65534 - b) / 32 := by
  unfold probUp
  cases bit
  · simp only [Bool.false_eq_true, if_false]; omega
  · simp only [if_true]
    rw [if_neg (by omega)]
    omega

/-- **a 9-bit symbol shortly after `reset()`**: it is coded without fault when there is room for its budget, the
    probabilities stay moderate, and it emits at most 4 bytes per 6 coded bits -/
theorem encBits_fresh {dstLen c val k : Nat} (hc : c < 256) (hk : k < 12) :
    ∀ (n c1 : Nat) (e : Enc) (t : Array Nat) (s : Nat), n ≤ 9 → 1 ≤ c1 → c1 < 2 ^ (10 - n) → t.size = 131072 →
    EInv e → Pot e s → InB (k + 1) t →
    (∀ i, c * 512 + c1 ≤ i → i < t.size → loB k ≤ t.getD i 0 ∧ t.getD i 0 ≤ hiB k) →
    3 * e.out.size + 2 * s + 2 * n + 12 ≤ 3 * dstLen →
    ∃ e' t' s', encBits dstLen (c <<< 9) val n c1 e t = .ok (e', t') ∧ EInv e' ∧ Pot e' s' ∧ InB (k + 1) t' ∧
      t'.size = t.size ∧ 3 * e'.out.size + 2 * s' ≤ 3 * e.out.size + 2 * s + 2 * n ∧ (OutBytes e → OutBytes e') := by
  intro n
  induction n with
  | zero =>
    intro c1 e t s _ _ _ _ hi hp hI1 _ _
    exact ⟨e, t, s, rfl, hi, hp, hI1, rfl, by omega, id⟩
  | succ n ih =>
    intro c1 e t s hn hc1 hc1b hsz hi hp hI1 hI2 hroom
    have hpow : (2 : Nat) ^ (10 - (n + 1)) ≤ 2 ^ 9 := Nat.pow_le_pow_right (by decide) (by omega)
    have hidx : c * 512 + c1 < t.size := by rw [hsz]; omega
    have hcell := hI2 (c * 512 + c1) (Nat.le_refl _) hidx
    have hb12 := bounds_le12 (k := k) (by omega)
    have hshift : c <<< 9 = c * 512 := by rw [Nat.shiftLeft_eq]
    have hpl : t.getD (c * 512 + c1) 0 < 65536 := by omega
    have hq : 1399 ≤ t.getD (c * 512 + c1) 0 / 16 ∧ t.getD (c * 512 + c1) 0 / 16 ≤ 2696 := by omega
    obtain ⟨e1, he1⟩ := encodeBit_nf (dstLen := dstLen) hi hpl (val.testBit n) (by omega)
    have i1 := encodeBit_einv hi hpl he1
    obtain ⟨s1, hp1, hpot1⟩ := encodeBit_pot hi hpl hq hp he1
    have hup := probUp_bounds hcell.1 hcell.2 (by omega) (val.testBit n)
    have hI1' : InB (k + 1) (t.setIfInBounds (c * 512 + c1) (probUp (t.getD (c * 512 + c1) 0) (val.testBit n))) := by
      intro i hi'
      rw [Array.size_setIfInBounds] at hi'
      rw [getD_setIfInBounds]
      by_cases hii : i = c * 512 + c1
      · rw [if_pos ⟨hii, hidx⟩]
        exact hup
      · rw [if_neg (fun hc2 => hii hc2.1)]
        exact hI1 i hi'
    have hI2' : ∀ i, c * 512 + (2 * c1 + (val.testBit n).toNat) ≤ i →
        i < (t.setIfInBounds (c * 512 + c1) (probUp (t.getD (c * 512 + c1) 0) (val.testBit n))).size →
        loB k ≤ (t.setIfInBounds (c * 512 + c1) (probUp (t.getD (c * 512 + c1) 0) (val.testBit n))).getD i 0 ∧
        (t.setIfInBounds (c * 512 + c1) (probUp (t.getD (c * 512 + c1) 0) (val.testBit n))).getD i 0 ≤ hiB k := by
      intro i hi1 hi2
      rw [Array.size_setIfInBounds] at hi2
      rw [getD_setIfInBounds, if_neg (fun hc2 => by have := hc2.1; omega)]
      exact hI2 i (by omega) hi2
    have hc1' : 2 * c1 + (val.testBit n).toNat < 2 ^ (10 - n) := by
      have e : 10 - n = (10 - (n + 1)) + 1 := by omega
      rw [e, Nat.pow_succ]
      have : (val.testBit n).toNat ≤ 1 := by cases val.testBit n <;> simp
      omega
    obtain ⟨e', t', s', hrec, i', p', I', z', pot', b'⟩ := ih (2 * c1 + (val.testBit n).toNat) e1 _ s1 (by omega) (by omega)
      hc1' (by rw [Array.size_setIfInBounds]; exact hsz) i1 hp1 hI1' hI2' (by omega)
    refine ⟨e', t', s', ?_, i', p', I', by rw [z', Array.size_setIfInBounds], by omega,
      fun hb => b' (encodeBit_bytes hi hpl he1 hb)⟩
    simp only [encBits]
    rw [hshift, he1]
    simp only
    rw [hshift] at hrec
    exact hrec

/-! ## literal symbols shortly after `reset()` -/

theorem inB_succ {k : Nat} {t : Array Nat} (h : InB k t) : InB (k + 1) t := by
  intro i hi
  have := h i hi
  have h1 : loB (k + 1) ≤ loB k := loB_anti (Nat.le_succ k)
  have h2 : hiB k ≤ hiB (k + 1) := hiB_mono (Nat.le_succ k)
  omega

/-- what is known about the state of the encoder `k` symbols after a `reset()` -/
structure Fresh (s : FSt) (k sp : Nat) : Prop where
  enc : EncOk s
  inb : InB k s.pl
  sz : s.pl.size = 131072
  pot : Pot s.enc sp

theorem encLit9_fresh {dstLen c val k sp : Nat} {s : FSt} (hc : c < 256) (hk : k < 12) (hf : Fresh s k sp)
    (hroom : 3 * s.enc.out.size + 2 * sp + 18 + 12 ≤ 3 * dstLen) :
    ∃ s' sp', encLit9 dstLen c val s = .ok s' ∧ Fresh s' (k + 1) sp' ∧ s'.tab = s.tab ∧
      3 * s'.enc.out.size + 2 * sp' ≤ 3 * s.enc.out.size + 2 * sp + 18 := by
  obtain ⟨e', t', s', hrec, i', p', I', z', pot', b'⟩ := encBits_fresh (dstLen := dstLen) (val := val) hc hk 9 1 s.enc s.pl sp
    (Nat.le_refl _) (Nat.le_refl _) (by decide) hf.sz hf.enc.einv hf.pot (inB_succ hf.inb)
    (fun i _ hi => hf.inb i hi) (by omega)
  refine ⟨⟨s.tab, e', t', s.pm⟩, s', ?_, ⟨⟨i', inB_ok (by omega) I', hf.enc.pmok, b' hf.enc.bytes⟩, I', by rw [z']; exact hf.sz, p'⟩,
    rfl, by omega⟩
  unfold encLit9
  simp only [hrec]

theorem fwdFirst_fresh {a : Array Nat} {dstLen lim : Nat} : ∀ (cnt i k sp : Nat) (s : FSt), i + cnt ≤ lim → k + cnt ≤ 12 →
    Fresh s k sp → 3 * s.enc.out.size + 2 * sp + 18 * cnt + 12 ≤ 3 * dstLen →
    ∃ s' sp', fwdFirst a dstLen lim cnt i s = .ok s' ∧ Fresh s' (k + cnt) sp' ∧ s'.tab = s.tab ∧
      3 * s'.enc.out.size + 2 * sp' ≤ 3 * s.enc.out.size + 2 * sp + 18 * cnt := by
  intro cnt
  induction cnt with
  | zero => intro i k sp s _ _ hf _; exact ⟨s, sp, rfl, hf, rfl, by omega⟩
  | succ cnt ih =>
    intro i k sp s hil hk hf hroom
    simp only [fwdFirst]
    rw [rd1_eq (by omega : i < lim)]
    simp only
    obtain ⟨s1, sp1, hs1, f1, t1, z1⟩ := encLit9_fresh (dstLen := dstLen) (c := 0) (val := 256 + a.getD i 0) (by omega)
      (by omega : k < 12) hf (by omega)
    rw [hs1]
    simp only
    obtain ⟨s', sp', hs', f', t', z'⟩ := ih (i + 1) (k + 1) sp1 s1 (by omega) (by omega) f1 (by omega)
    exact ⟨s', sp', hs', by rw [show k + (cnt + 1) = k + 1 + cnt by omega]; exact f', by rw [t', t1], by omega⟩

theorem fwdLast_fresh {a : Array Nat} (ha : ∀ j, a.getD j 0 < 256) {dstLen : Nat} : ∀ (cnt i k sp : Nat) (s : FSt),
    0 < i → i + cnt ≤ a.size → k + cnt ≤ 12 → Fresh s k sp → 3 * s.enc.out.size + 2 * sp + 18 * cnt + 12 ≤ 3 * dstLen →
    ∃ s' sp', fwdLast a dstLen cnt i s = .ok s' ∧ Fresh s' (k + cnt) sp' ∧
      3 * s'.enc.out.size + 2 * sp' ≤ 3 * s.enc.out.size + 2 * sp + 18 * cnt := by
  intro cnt
  induction cnt with
  | zero => intro i k sp s _ _ _ hf _; exact ⟨s, sp, rfl, hf, by omega⟩
  | succ cnt ih =>
    intro i k sp s hi0 hil hk hf hroom
    simp only [fwdLast]
    rw [if_neg (by omega), rd1_eq (by omega : i - 1 < a.size), rd1_eq (by omega : i < a.size)]
    simp only
    obtain ⟨s1, sp1, hs1, f1, _, z1⟩ := encLit9_fresh (dstLen := dstLen) (c := a.getD (i - 1) 0) (val := 256 + a.getD i 0)
      (ha _) (by omega : k < 12) hf (by omega)
    rw [hs1]
    simp only
    obtain ⟨s', sp', hs', f', z'⟩ := ih (i + 1) (k + 1) sp1 s1 (by omega) (by omega) (by omega) f1 (by omega)
    exact ⟨s', sp', hs', by rw [show k + (cnt + 1) = k + 1 + cnt by omega]; exact f', by omega⟩

/-! ## the chunk loop, any number of chunks -/

/-- the state after the chunk loop leaves room for the 4 last literals and `dispose`: either the main loop of the last
    chunk ran (its test on the destination margin), or the last chunk had at most 8 bytes and only first literals
    were coded since the `reset()` -/
def EndOk (dstLen : Nat) (s : FSt) : Prop :=
  EncOk s ∧ (s.enc.out.size + 152 ≤ dstLen ∨
    ∃ j sp, j ≤ 8 ∧ Fresh s j sp ∧ 3 * s.enc.out.size + 2 * sp + 72 + 12 + 24 ≤ 3 * dstLen)

theorem probs0_size9 : (probs0 9).size = 131072 := by
  unfold probs0; rw [Array.size_replicate]; rfl

theorem fwdChunks_nf2 {a : Array Nat} {dstLen srcEnd mm delta lpc : Nat} (hpar : ParamsOk mm delta)
    (hmm : 3 ≤ mm ∧ mm ≤ 7) (hlpc : lpc ≤ 8) (hse : srcEnd + 4 ≤ a.size) :
    ∀ (f st sz si : Nat) (s : FSt), 0 < sz → (9 ≤ sz ∨ st + sz ≥ srcEnd) → st ≤ srcEnd → (srcEnd - st) + sz ≤ f * sz →
    EncOk s → s.tab.counters.size = HASH_SIZE → (st < srcEnd → s.enc.out.size + 152 ≤ dstLen) →
    (st < srcEnd ∨ (si = sz ∧ EndOk dstLen s)) →
    (∃ e, fwdChunks a dstLen srcEnd mm delta lpc f st sz si s = .err e) ∨
    (∃ r, fwdChunks a dstLen srcEnd mm delta lpc f st sz si s = .ok r ∧ r.2.1 = srcEnd ∧ r.1 = r.2.2.1 ∧
      EndOk dstLen r.2.2.2) := by
  intro f
  induction f with
  | zero => intro st sz si s h0 _ _ hf; rw [Nat.zero_mul] at hf; omega
  | succ g ih =>
    intro st sz si s hsz0 h9 hst hfuel ho hcnt hroom hpos
    have hsm : (g + 1) * sz = g * sz + sz := by rw [Nat.add_mul, Nat.one_mul]
    simp only [fwdChunks]
    by_cases hlt : st < srcEnd
    · rw [if_pos hlt]
      have hroom := hroom hlt
      generalize hedef : (if st + sz ≥ srcEnd then srcEnd else st + sz) = e
      have hest : st < e ∧ e ≤ srcEnd ∧ (e = srcEnd ∨ (e = st + sz ∧ 9 ≤ sz)) := by
        rw [← hedef]
        by_cases hc : st + sz ≥ srcEnd
        · rw [if_pos hc]; exact ⟨hlt, Nat.le_refl _, Or.inl rfl⟩
        · rw [if_neg hc]; exact ⟨by omega, by omega, Or.inr ⟨rfl, by omega⟩⟩
      obtain ⟨he1, he2, he4⟩ := hest
      have hg1 : 0 < g := by
        rcases Nat.eq_zero_or_pos g with h0 | h0
        · have h1 : (g + 1) * sz = sz := by rw [h0, Nat.zero_add, Nat.one_mul]
          omega
        · exact h0
      have hfuel' : (srcEnd - e) + (e - st) ≤ g * (e - st) := by
        rcases he4 with he4 | ⟨he4, _⟩
        · have := Nat.le_mul_of_pos_left (e - st) hg1
          omega
        · have e1 : e - st = sz := by omega
          rw [e1]; omega
      -- the reset state and the first literals
      have hf0 : Fresh ⟨⟨matches0 lpc, s.tab.counters⟩, s.enc, probs0 9, probs0 lpc⟩ 0 5 :=
        ⟨⟨ho.einv, probs0_ok 9, probs0_ok lpc, ho.bytes⟩, inB_probs0, probs0_size9, pot_any _⟩
      obtain ⟨s1, sp1, hs1, f1, t1, z1⟩ := fwdFirst_fresh (a := a) (dstLen := dstLen) (lim := e) (min 8 (e - st)) st 0 5 _
        (by omega) (by omega) hf0 (by simp only; omega)
      simp only at z1 t1
      rw [hs1]
      simp only
      by_cases hrun : st + min 8 (e - st) < e
      · -- the main loop runs: its first iteration tests the destination margin
        have hm8 : min 8 (e - st) = 8 := by omega
        rw [hm8] at hs1 f1 z1 hrun ⊢
        have ht1 : TInv s1.tab lpc st (st + 8) := by
          rw [t1]
          refine ⟨tabOk_clear _ _ hcnt, fun k => ?_⟩
          simp only [matches0, Array.getD_eq_getD_getElem?, Array.getElem?_replicate]
          split <;> simp
        have hfl : e - st + 1 = (e - st) + 1 := rfl
        rw [hfl]
        simp only [fwdLoop]
        rw [if_pos hrun]
        rcases fwdStep_nf (a := a) (dstLen := dstLen) hpar hmm hlpc (Nat.le_refl _) hrun (by omega) f1.enc ht1 with
          ⟨er, her⟩ | ⟨r1, hr1, h1, h2, h3, h4, h5⟩
        · left; rw [her]; exact ⟨_, rfl⟩
        · rw [hr1]
          simp only
          rcases fwdLoop_nf (a := a) (dstLen := dstLen) (base := st) (lim := e) hpar hmm hlpc (by omega) (e - st) r1.1 r1.2
            (Or.inl (by omega)) h2 (by omega) h3 h4 h5 with ⟨er, her⟩ | ⟨r, hr, q1, q2, q3, q4⟩
          · left; rw [her]; exact ⟨_, rfl⟩
          · rw [hr]
            simp only
            exact ih e (e - st) (r.1 - st) r.2 (by omega) (by omega) he2 hfuel' q2 q4.cnt (fun _ => q3)
              (Or.inr ⟨by omega, q2, Or.inl q3⟩)
      · -- the chunk has at most 8 bytes: it is the last one
        have hlast : e = srcEnd := by
          rcases he4 with h | ⟨h1, h2⟩
          · exact h
          · omega
        have hfl : e - st + 1 = (e - st) + 1 := rfl
        rw [hfl]
        simp only [fwdLoop]
        rw [if_neg hrun]
        simp only
        have hend : EndOk dstLen s1 := ⟨f1.enc, Or.inr ⟨min 8 (e - st), sp1, by omega, by simpa using f1, by omega⟩⟩
        have hcnt1 : s1.tab.counters.size = HASH_SIZE := by rw [t1]; exact hcnt
        exact ih e (e - st) (st + min 8 (e - st) - st) s1 (by omega) (by omega) he2 hfuel' f1.enc hcnt1
          (fun hc => by omega) (Or.inr ⟨by omega, hend⟩)
    · right
      rw [if_neg hlt]
      rcases hpos with hp | ⟨hp1, hp2⟩
      · omega
      · exact ⟨_, rfl, by simp only; omega, hp1, hp2⟩

/-- **ROLZX Forward never faults**, whatever the number of chunks: every block of byte values, every chunk size
    `cs ≥ 9`, every `logPosChecks ≤ 8`, every ctx / data type hint, any destination of at least `MaxEncodedLen` bytes -/
theorem rolzxForward_nf_multi {cs lpc : Nat} {hasCtx : Bool} {dt : Nat} {src : List Nat} {dstLen : Nat}
    (hb : ∀ x ∈ src, x < 256) (hcs : 9 ≤ cs) (hlpc : lpc ≤ 8) (hdst : maxEncodedLen2 src.length ≤ dstLen) :
    ∀ k, rolzxForward cs lpc hasCtx dt src dstLen ≠ .fault k := by
  intro k
  unfold rolzxForward
  split
  · simp
  · split
    · simp
    · rename_i hmin
      split
      · simp
      · split
        · simp
        · dsimp only
          obtain ⟨hpar, hmm3, hmm7, hfl, _⟩ := fwdParams2_spec (effType hasCtx dt src)
          generalize fwdParams2 (effType hasCtx dt src) = prm at hpar hmm3 hmm7 hfl
          have hn : src.toArray.size = src.length := List.size_toArray
          rw [hn]
          have hn64 : 64 ≤ src.length := by unfold MIN_BLOCK_SIZE at hmin; omega
          have hd1088 : 1088 ≤ dstLen := by unfold maxEncodedLen2 at hdst; split at hdst <;> omega
          have ha : ∀ j, src.toArray.getD j 0 < 256 := by
            intro j
            rw [toArray_getD]
            by_cases hj : j < src.length
            · rw [List.getD_eq_getElem?_getD, List.getElem?_eq_getElem hj]
              exact hb _ (List.getElem_mem hj)
            · rw [List.getD_eq_getElem?_getD, List.getElem?_eq_none (by omega)]
              decide
          have hob0 : OutBytes ⟨0, TOP, #[(src.length >>> 24) % 256, (src.length >>> 16) % 256,
              (src.length >>> 8) % 256, src.length % 256, prm.2.2]⟩ :=
            header_getD _ _ _ _ _ (Nat.mod_lt _ (by decide)) (Nat.mod_lt _ (by decide))
              (Nat.mod_lt _ (by decide)) (Nat.mod_lt _ (by decide)) hfl
          have ho0 : EncOk ⟨⟨matches0 lpc, Array.replicate HASH_SIZE 0⟩, ⟨0, TOP, #[(src.length >>> 24) % 256,
              (src.length >>> 16) % 256, (src.length >>> 8) % 256, src.length % 256, prm.2.2]⟩, probs0 9,
              probs0 lpc⟩ := ⟨einv_init _, probs0_ok 9, probs0_ok lpc, hob0⟩
          have hm : 0 < min src.length cs := by omega
          have hfuel : (src.length - 4 - 0) + min src.length cs ≤ (src.length / min src.length cs + 2) * min src.length cs := by
            have h1 := Nat.div_add_mod src.length (min src.length cs)
            have h2 := Nat.mod_lt src.length hm
            rw [Nat.add_mul, Nat.mul_comm (src.length / min src.length cs)]
            omega
          rcases fwdChunks_nf2 (a := src.toArray) (dstLen := dstLen) (srcEnd := src.length - 4) hpar ⟨hmm3, hmm7⟩ hlpc
              (by rw [hn]; omega) (src.length / min src.length cs + 2) 0 (min src.length cs) 0 _ hm (Or.inl (by omega))
              (by omega) hfuel ho0 (Array.size_replicate ..) (fun _ => by show 5 + 152 ≤ dstLen; omega)
              (Or.inl (by omega)) with ⟨e, he⟩ | ⟨r, hr, q1, q2, q3, q4⟩
          · rw [he]; simp
          · rw [hr]
            obtain ⟨r1, r2, r3, r4⟩ := r
            simp only at q1 q2 q3 q4 ⊢
            subst q1; subst q2
            have hi : r1 + (src.length - 4) - r1 = src.length - 4 := by omega
            rw [hi]
            rcases q4 with hA | ⟨j, sp, hj, hfr, hrm⟩
            · -- the main loop of the last chunk ran
              obtain ⟨s', hs', o', z'⟩ := fwdLast_nf (a := src.toArray) (dstLen := dstLen) 4 (src.length - 4) r4 (by omega)
                (by rw [hn]; omega) q3 (by omega)
              rw [hs']
              simp only
              have hdisp : ∃ out, s'.enc.dispose dstLen = .ok out := by
                unfold Enc.dispose
                rw [if_pos (by omega)]
                exact ⟨_, rfl⟩
              obtain ⟨out, hout⟩ := hdisp
              rw [hout]
              simp only
              split
              · simp
              · split <;> simp
            · -- only first literals since the last `reset()`
              obtain ⟨s', sp', hs', f', z'⟩ := fwdLast_fresh (a := src.toArray) ha (dstLen := dstLen) 4 (src.length - 4) j sp r4
                (by omega) (by rw [hn]; omega) (by omega) hfr (by omega)
              rw [hs']
              simp only
              have hdisp : ∃ out, s'.enc.dispose dstLen = .ok out := by
                unfold Enc.dispose
                rw [if_pos (by omega)]
                exact ⟨_, rfl⟩
              obtain ⟨out, hout⟩ := hdisp
              rw [hout]
              simp only
              split
              · simp
              · split <;> simp

end Kanzi.ROLZ
