/-
Size of an order-0 ANS block as the factory configures the codec (chunks of 16384 bytes, log range 12):
at most 2 bytes per input byte (`C12_ans0_payload_le`) plus at most 575 bytes of header, VarInt and
states per chunk.  For block sizes up to 128 KiB this is below the reader's `maxFrameLength` bound, so
the frame-size hypothesis of the ANS0 stream theorems can be discharged there.
-/
import Kanzi.Proofs.Ans0
import Kanzi.Proofs.BlockGenStream

namespace Kanzi.BlockGen.Ans0Size
open Kanzi.Bits Kanzi.EntSmall

/-! ### the pieces of the header -/

theorem logLoop_le (m v : Nat) (hv : v < 2 ^ m) : ∀ (fuel k : Nat), k ≤ m → logLoop fuel k v ≤ m := by
  intro fuel
  induction fuel with
  | zero => intro k hk; exact hk
  | succ fuel ih =>
    intro k hk
    rw [logLoop]
    split
    · rename_i h2
      apply ih
      apply Nat.succ_le_of_lt
      apply Nat.lt_of_le_of_ne hk
      intro hkm
      subst hkm
      omega
    · exact hk

theorem foldl_max_le : ∀ (l : List Nat) (init M : Nat), init ≤ M → (∀ x ∈ l, x ≤ M) → l.foldl max init ≤ M := by
  intro l
  induction l with
  | nil => intro init M hi _; exact hi
  | cons x xs ih =>
    intro init M hi hl
    simp only [List.foldl_cons]
    exact ih _ M (Nat.max_le.mpr ⟨hi, hl x (by simp)⟩) (fun y hy => hl y (by simp [hy]))

theorem logMaxOf_chunk_le (c : List Nat) (hc : ∀ x ∈ c, x ≤ 2 ^ 12) : logMaxOf (chunkMax c) ≤ 12 := by
  have hm : chunkMax c < 2 ^ 12 := by
    unfold chunkMax
    have := foldl_max_le (c.map (· - 1)) 0 (2 ^ 12 - 1) (by omega) (by
      intro y hy
      obtain ⟨x, hx, rfl⟩ := List.mem_map.mp hy
      have := hc x hx
      omega)
    omega
  unfold logMaxOf
  exact logLoop_le 12 _ hm _ 0 (by omega)

theorem flatMap_natBits_length (w : Nat) : ∀ (c : List Nat),
    (c.flatMap (fun f => natBits (f - 1) w)).length = c.length * w := by
  intro c
  induction c with
  | nil => simp
  | cons x xs ih =>
    rw [List.flatMap_cons, List.length_append, ih, EntSmall.natBits_length, List.length_cons,
      Nat.succ_mul, Nat.add_comm]

theorem encFreqs_length_le (lm : Nat) (c : List Nat) (hlm : lm ≤ 12) : (encFreqs lm c).length ≤ 12 * c.length := by
  unfold encFreqs
  split
  · simp
  · rw [flatMap_natBits_length, Nat.mul_comm]
    exact Nat.mul_le_mul_right _ hlm

theorem encFreqChunks_length_le (chk : Nat) (hchk : 0 < chk) : ∀ (fuel : Nat) (fs : List Nat),
    (∀ x ∈ fs, x ≤ 2 ^ 12) → (encFreqChunks fuel chk 4 fs).length ≤ 16 * fs.length := by
  intro fuel
  induction fuel with
  | zero => intro fs _; simp [encFreqChunks]
  | succ fuel ih =>
    intro fs hfs
    rw [encFreqChunks]
    split
    · simp
    · rename_i h0
      have h1 := encFreqs_length_le (logMaxOf (chunkMax (fs.take chk))) (fs.take chk)
        (logMaxOf_chunk_le _ (fun x hx => hfs x (List.mem_of_mem_take hx)))
      have h2 := ih (fs.drop chk) (fun x hx => hfs x (List.mem_of_mem_drop hx))
      simp only [List.length_append, EntSmall.natBits_length]
      rw [List.length_take] at h1
      rw [List.length_drop] at h2
      omega

theorem llrOf_12 : llrOf 12 = 4 := by decide

theorem encodeAlphabetBits_length_le (a : List Nat) : (encodeAlphabetBits a).length ≤ 262 := by
  unfold encodeAlphabetBits
  split
  · simp
  · split
    · simp
    · have : (arrayBits (mkMasks a) (8 * ((a.getLastD 0 >>> 3) + 1))).length ≤ 256 := by
        unfold arrayBits
        rw [List.length_take, EntSmall.ofBytes_length, mkMasks_length]
        exact Nat.min_le_right _ _
      simp only [List.length_cons, List.length_append, EntSmall.natBits_length]
      omega

theorem ansEncodeHeader_length_le (a f : List Nat) (ha : a.length ≤ 256)
    (hf : ∀ s ∈ a, f.getD s 0 ≤ 2 ^ 12) : (ansEncodeHeader a f 12).length ≤ 4345 := by
  unfold ansEncodeHeader
  have h1 := encodeAlphabetBits_length_le a
  simp only [List.length_append, EntSmall.natBits_length]
  split
  · simp; omega
  · unfold encodeFreqs
    rw [llrOf_12]
    have h2 := encFreqChunks_length_le (chkSizeOf a.length) (by unfold chkSizeOf; split <;> omega) a.length
      ((a.drop 1).map (fun s => f.getD s 0)) (by
        intro x hx
        obtain ⟨s, hs, rfl⟩ := List.mem_map.mp hx
        exact hf s (List.mem_of_mem_drop hs))
    rw [List.length_map, List.length_drop] at h2
    omega

/-! ### the payload of one chunk -/

theorem writeVarIntAux_length_le : ∀ (k v : Nat), (writeVarIntAux k v).length ≤ 8 * (k + 1) := by
  intro k
  induction k with
  | zero => intro v; simp [writeVarIntAux]
  | succ k ih =>
    intro v
    rw [writeVarIntAux]
    split
    · have := ih (v >>> 7)
      simp only [List.length_append, EntSmall.natBits_length]
      omega
    · simp

theorem ans0EncodeChunk_length_le (blk f : List Nat) (lr : Nat) (hlr : 8 ≤ lr ∧ lr ≤ 15)
    (hlen : f.length ≤ 256) (hsum : f.sum = 2 ^ lr) (hsym : ∀ a ∈ blk, SymOk f a) :
    (ans0EncodeChunk blk (mkEncSyms f lr)).length ≤ 168 + 16 * blk.length := by
  have hp := (final_facts blk f lr hlr hlen hsum hsym).2.2
  unfold ans0PayloadLen at hp
  rw [ans0EncodeChunk_eq]
  have hv := writeVarIntAux_length_le 4 (ans0Final blk (mkEncSyms f lr)).out.length
  simp only [List.length_append, EntSmall.natBits_length, EntSmall.ofBytes_length]
  unfold writeVarInt
  omega

/-! ### one chunk of `Write` -/

theorem oneChunk_length_le (c : List Nat) (hne : c ≠ []) (hb : ∀ b ∈ c, b < 256) (bits : Bits)
    (h : ans0EncodeOneChunk c 12 = some bits) : bits.length ≤ 4600 + 16 * c.length := by
  obtain ⟨o, ho, ht, hsumA, hin, hal, _⟩ := Ans0Dec.oneChunk_table c 12 (by omega) hne hb
  unfold ans0EncodeOneChunk at h
  rw [ho] at h
  simp only [Option.some.injEq] at h
  subst h
  have h1 := ansEncodeHeader_length_le o.alphabet o.freqs hal ht.le_scale
  rw [List.length_append]
  split
  · have h2 := ans0EncodeChunk_length_le c o.freqs 12 (by omega) (Nat.le_of_eq ht.len)
      (table_sum _ _ 12 ht hsumA) (fun b hbc => symOk_of_table _ _ 12 ht b (hin b hbc))
    omega
  · simp; omega

/-! ### the whole block -/

theorem chunks_length_le : ∀ (fuel : Nat) (blk : List Nat) (enc : Bits), (∀ b ∈ blk, b < 256) →
    ans0EncodeChunks fuel 16384 12 blk = some enc →
    enc.length ≤ 16 * blk.length + 4600 * ((blk.length + 16383) / 16384) := by
  intro fuel
  induction fuel with
  | zero =>
    intro blk enc _ h
    simp only [ans0EncodeChunks, Option.some.injEq] at h
    subst h; simp
  | succ fuel ih =>
    intro blk enc hb h
    rw [ans0EncodeChunks] at h
    by_cases h0 : blk.length = 0
    · rw [if_pos h0] at h
      simp only [Option.some.injEq] at h
      subst h; simp
    · rw [if_neg h0] at h
      have hclen : (blk.take 16384).length = min 16384 blk.length := List.length_take
      have hcne : blk.take 16384 ≠ [] := by
        intro hx
        rw [hx] at hclen
        simp only [List.length_nil] at hclen
        omega
      cases h1 : ans0EncodeOneChunk (blk.take 16384) 12 with
      | none => rw [h1] at h; cases h
      | some b1 =>
        cases h2 : ans0EncodeChunks fuel 16384 12 (blk.drop 16384) with
        | none => rw [h1, h2] at h; cases h
        | some tl =>
          rw [h1, h2] at h
          simp only [Option.some.injEq] at h
          subst h
          have i1 := oneChunk_length_le (blk.take 16384) hcne (fun b hx => hb b (List.mem_of_mem_take hx)) b1 h1
          have i2 := ih (blk.drop 16384) tl (fun b hx => hb b (List.mem_of_mem_drop hx)) h2
          rw [List.length_append]
          rw [hclen] at i1
          rw [List.length_drop] at i2
          omega

/-- size of an order-0 ANS block with the factory's parameters -/
theorem ans0Encode_length_le (blk : List Nat) (enc : Bits) (hb : ∀ b ∈ blk, b < 256)
    (h : ans0Ent.enc blk = some enc) :
    enc.length ≤ 16 * blk.length + 4600 * ((blk.length + 16383) / 16384) := by
  have h' : ans0Encode blk 16384 12 = some enc := h
  unfold ans0Encode at h'
  split at h'
  · simp only [Option.some.injEq] at h'
    subst h'
    unfold arrayBits
    rw [List.length_take]
    omega
  · exact chunks_length_le blk.length blk enc hb h'

end Kanzi.BlockGen.Ans0Size

namespace Kanzi.BlockGen
open Kanzi.Bits Kanzi.TrSmall Kanzi.Block

/-- entropy ANS0, block sizes up to 128 KiB: the payload of a block of the small transforms respects
the reader's frame bound -/
theorem small_ans0_fit (c : Cfg) (B : Nat) (b : List Nat) (p : Bits)
    (hn : c.trs.length ≤ 8) (hs : ∀ t ∈ c.trs, IsSmallTr t) (hent : c.ent = ans0Ent)
    (hbytes : ∀ x ∈ b, x < 256) (hb0 : 0 < b.length) (hB : b.length ≤ B) (hmax : B ≤ 2 ^ 17)
    (h : encodeTaskGen c b = .ok p) : FrameFit B p := by
  have hmB : 262144 ≤ max (maxTransformLength B) (256 * 1024) := by omega
  by_cases hc : isCopy c b = true
  · exact small_none_fit ⟨c.ck, c.trs, noneEnt, c.skipBlocks, c.bs⟩ B b p hn hs rfl hbytes hb0 hB (by omega) (by
      unfold encodeTaskGen at h ⊢
      have hc' : isCopy ⟨c.ck, c.trs, noneEnt, c.skipBlocks, c.bs⟩ b = true := hc
      rw [if_pos hc] at h
      rw [if_pos hc']
      exact h)
  · unfold encodeTaskGen at h
    have hck := ckWidth_le c.ck
    rw [if_neg hc] at h
    obtain ⟨e, he, h8, hle⟩ := encodeWith_shape _ _ _ _ _ _ _ _ h
    have hne : b ≠ [] := fun h => by rw [h] at hb0; exact Nat.lt_irrefl 0 hb0
    have hseq := seqLaw_small c.trs hn hs b.length (taskBlockLength B) (by omega)
      (Nat.le_trans hB (taskBlockLength_ge B))
    have hS : ∀ st ∈ stagesOf c.trs (seqMaxLen c.trs b.length) (taskBlockLength B),
        st.GoodOn (IsBlock b.length) := by
      intro st hst
      obtain ⟨t, ht, rfl⟩ := List.mem_map.mp hst
      exact hseq.2 t ht _ _ (Nat.le_refl _) (Nat.le_refl _)
    have hfS : seqForward (fwdStages c.trs b.length) b =
        seqForward (stagesOf c.trs (seqMaxLen c.trs b.length) (taskBlockLength B)) b :=
      seqForward_stagesOf c.trs _ 0 _ b
    obtain ⟨hDt, _⟩ := seqForward_inD (IsBlock b.length) _ b hS ⟨hbytes, Nat.le_refl _⟩ hne
    rw [← hfS] at hDt
    rw [hent] at he
    have hDf : IsBlock b.length (fallback c.bs (seqMaxLen c.trs b.length) b (seqForward (fwdStages c.trs b.length) b)).1 := by
      rcases fallback_cases c.bs (seqMaxLen c.trs b.length) b (seqForward (fwdStages c.trs b.length) b) with h' | h' <;> rw [h']
      · exact hDt
      · exact ⟨hbytes, Nat.le_refl _⟩
    have hsz := Ans0Size.ans0Encode_length_le _ e hDf.1 he
    have hpost := hDf.2
    unfold FrameFit
    simp only [maxFrameBits]
    omega

end Kanzi.BlockGen
