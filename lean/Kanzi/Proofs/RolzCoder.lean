/-
Proofs about the binary range coder of ROLZX (`rolzEncoder` / `rolzDecoder`, model in `Kanzi/Model/ROLZX.lean`).

The coder is carry-less: `low` / `high` are 64-bit registers whose top 8 bits are identical left-overs (the
encoder never masks them, the decoder does); when the 40 top bits agree the encoder emits the 32 top bits of
`high` (8 left-over bits + 24 new ones) and shifts by 32.  The decoder holds 56 bits of the code in `current`.

Method.  `S` is the COMPLETE output of the encoder (as the decoder will see it).  `Good S e`: the encoder state
`e` has written a prefix of `S`, the byte of `S` at the write position is the left-over byte, and the 56-bit
number that follows (`val7`) lies in `[low, high]` (mod `2^56`).  `Good` propagates BACKWARDS through every
encoder operation (`encodeBit_back`), from the final state (`dispose_good`); the decoder, aligned with the
encoder (`DRel`), then takes the same decision at every bit (`decodeBit_sim`).
-/
import Kanzi.Model.ROLZX
import Kanzi.Proofs.BinEnt

namespace Kanzi.ROLZ
open Kanzi.BinEnt (xor_lt_iff or_mask)

/-! ## byte strings -/

/-- every entry is a byte -/
def Bytes (S : List Nat) : Prop := ∀ k, S.getD k 0 < 256

/-- the 56-bit big-endian number in `S[i+1 .. i+8)` -/
def val7 (S : List Nat) (i : Nat) : Nat :=
  S.getD (i + 1) 0 * 2 ^ 48 + S.getD (i + 2) 0 * 2 ^ 40 + S.getD (i + 3) 0 * 2 ^ 32 + S.getD (i + 4) 0 * 2 ^ 24
    + S.getD (i + 5) 0 * 2 ^ 16 + S.getD (i + 6) 0 * 2 ^ 8 + S.getD (i + 7) 0

theorem val7_lt {S : List Nat} (hS : Bytes S) (i : Nat) : val7 S i < 2 ^ 56 := by
  unfold val7
  have h1 := hS (i + 1); have h2 := hS (i + 2); have h3 := hS (i + 3); have h4 := hS (i + 4)
  have h5 := hS (i + 5); have h6 := hS (i + 6); have h7 := hS (i + 7)
  omega

/-- shifting the window by 4 bytes -/
theorem val7_shift {S : List Nat} (hS : Bytes S) (i : Nat) :
    val7 S (i + 4) = (val7 S i % 2 ^ 24) * 2 ^ 32
      + (S.getD (i + 8) 0 * 2 ^ 24 + S.getD (i + 9) 0 * 2 ^ 16 + S.getD (i + 10) 0 * 2 ^ 8 + S.getD (i + 11) 0) := by
  unfold val7
  have h1 := hS (i + 1); have h2 := hS (i + 2); have h3 := hS (i + 3); have h4 := hS (i + 4)
  have h5 := hS (i + 5); have h6 := hS (i + 6); have h7 := hS (i + 7)
  have e1 : i + 4 + 1 = i + 5 := by omega
  have e2 : i + 4 + 2 = i + 6 := by omega
  have e3 : i + 4 + 3 = i + 7 := by omega
  have e4 : i + 4 + 4 = i + 8 := by omega
  have e5 : i + 4 + 5 = i + 9 := by omega
  have e6 : i + 4 + 6 = i + 10 := by omega
  have e7 : i + 4 + 7 = i + 11 := by omega
  rw [e1, e2, e3, e4, e5, e6, e7]
  omega

/-! ## the encoder registers -/

/-- the invariant of the encoder registers between two `encodeBit` calls: identical left-over top bytes, and
    the 40 top bits differ (so `low < high`) -/
structure EInv (e : Enc) : Prop where
  top : e.low / 2 ^ 56 = e.high / 2 ^ 56
  hi : e.high < 2 ^ 64
  lt : e.low / 2 ^ 24 < e.high / 2 ^ 24

theorem einv_init (out : Array Nat) : EInv ⟨0, TOP, out⟩ :=
  ⟨show (0 : Nat) / 2 ^ 56 = TOP / 2 ^ 56 by decide, show TOP < 2 ^ 64 by decide,
   show (0 : Nat) / 2 ^ 24 < TOP / 2 ^ 24 by decide⟩

/-- the split point: no wrap-around in the `uint64` computation -/
theorem splitOf_eq {low high p : Nat} (htop : low / 2 ^ 56 = high / 2 ^ 56) (hhi : high < 2 ^ 64) (hle : low ≤ high)
    (hp : p < 65536) : splitOf low high p = ((high - low) / 16 * (p / 16)) / 256 := by
  unfold splitOf
  have e1 : (high + 2 ^ 64 - low) % 2 ^ 64 = high - low := by omega
  have hR : (high - low) / 16 < 2 ^ 52 := by omega
  have hq : p / 16 ≤ 4095 := by omega
  have hm : (high - low) / 16 * (p / 16) ≤ (high - low) / 16 * 4095 := Nat.mul_le_mul_left _ hq
  rw [e1, Nat.shiftRight_eq_div_pow, Nat.shiftRight_eq_div_pow, Nat.shiftRight_eq_div_pow,
    show (2 : Nat) ^ 4 = 16 from rfl, show (2 : Nat) ^ 8 = 256 from rfl]
  have hlt : (high - low) / 16 * (p / 16) < 2 ^ 64 := by omega
  rw [Nat.mod_eq_of_lt hlt]

theorem splitOf_lt {low high p : Nat} (htop : low / 2 ^ 56 = high / 2 ^ 56) (hhi : high < 2 ^ 64) (hlt : low < high)
    (hp : p < 65536) : low + splitOf low high p < high := by
  rw [splitOf_eq htop hhi (by omega) hp]
  have hq : p / 16 ≤ 4095 := by omega
  have hm : (high - low) / 16 * (p / 16) ≤ (high - low) / 16 * 4095 := Nat.mul_le_mul_left _ hq
  omega

/-- `(x ^ y) >> 24 == 0` iff the bits above the low 24 agree -/
theorem flushTest (a b : Nat) : ((a ^^^ b) >>> 24 = 0) ↔ a / 2 ^ 24 = b / 2 ^ 24 := by
  rw [← xor_lt_iff, Nat.shiftRight_eq_div_pow]
  constructor
  · intro h
    rcases Nat.lt_or_ge (a ^^^ b) (2 ^ 24) with hc | hc
    · exact hc
    · have := Nat.div_pos hc (by decide : 0 < 2 ^ 24)
      omega
  · intro h; exact Nat.div_eq_of_lt h

theorem shl32 (x : Nat) : (x <<< 32) % 2 ^ 64 = (x % 2 ^ 32) * 2 ^ 32 := by
  rw [Nat.shiftLeft_eq]; omega

theorem or32 (y : Nat) : (y * 2 ^ 32) ||| MASK_0_32 = y * 2 ^ 32 + (2 ^ 32 - 1) := by
  rw [show MASK_0_32 = 2 ^ 32 - 1 from rfl, or_mask]
  omega

theorem shl32_or (x : Nat) : ((x <<< 32) % 2 ^ 64) ||| MASK_0_32 = (x % 2 ^ 32) * 2 ^ 32 + (2 ^ 32 - 1) := by
  rw [shl32, or32]

theorem getD_push (a : Array Nat) (x k : Nat) :
    (a.push x).getD k 0 = if k < a.size then a.getD k 0 else if k = a.size then x else 0 := by
  by_cases h1 : k < a.size
  · rw [if_pos h1]
    simp [Array.getD_eq_getD_getElem?, Array.getElem?_push, Nat.ne_of_lt h1]
  · by_cases h2 : k = a.size
    · subst h2; simp [Array.getD_eq_getD_getElem?]
    · rw [if_neg h1, if_neg h2]
      have : (a.push x).size ≤ k := by simp only [Array.size_push]; omega
      simp [Array.getD_eq_getD_getElem?, Array.getElem?_eq_none this]

theorem push32_size (out : Array Nat) (w : Nat) : (push32 out w).size = out.size + 4 := by simp [push32]

theorem push32_getD_lt (out : Array Nat) (w k : Nat) (h : k < out.size) : (push32 out w).getD k 0 = out.getD k 0 := by
  unfold push32
  rw [getD_push, if_pos (by simp only [Array.size_push]; omega), getD_push,
    if_pos (by simp only [Array.size_push]; omega), getD_push, if_pos (by simp only [Array.size_push]; omega),
    getD_push, if_pos h]

theorem push32_getD_0 (out : Array Nat) (w : Nat) : (push32 out w).getD out.size 0 = (w >>> 24) % 256 := by
  unfold push32
  rw [getD_push, if_pos (by simp only [Array.size_push]; omega), getD_push,
    if_pos (by simp only [Array.size_push]; omega), getD_push, if_pos (by simp only [Array.size_push]; omega),
    getD_push, if_neg (by omega), if_pos rfl]

theorem push32_getD_1 (out : Array Nat) (w : Nat) : (push32 out w).getD (out.size + 1) 0 = (w >>> 16) % 256 := by
  unfold push32
  rw [getD_push, if_pos (by simp only [Array.size_push]; omega), getD_push,
    if_pos (by simp only [Array.size_push]; omega), getD_push, if_neg (by simp only [Array.size_push]; omega),
    if_pos (by simp only [Array.size_push])]

theorem push32_getD_2 (out : Array Nat) (w : Nat) : (push32 out w).getD (out.size + 2) 0 = (w >>> 8) % 256 := by
  unfold push32
  rw [getD_push, if_pos (by simp only [Array.size_push]; omega), getD_push,
    if_neg (by simp only [Array.size_push]; omega), if_pos (by simp only [Array.size_push])]

theorem push32_getD_3 (out : Array Nat) (w : Nat) : (push32 out w).getD (out.size + 3) 0 = w % 256 := by
  unfold push32
  rw [getD_push, if_neg (by simp only [Array.size_push]; omega), if_pos (by simp only [Array.size_push])]

/-- the interval after the update of `encodeBit`, before the flush test -/
def low1 (e : Enc) (p : Nat) (bit : Bool) : Nat := if bit then e.low else e.low + splitOf e.low e.high p + 1
def high1 (e : Enc) (p : Nat) (bit : Bool) : Nat := if bit then e.low + splitOf e.low e.high p else e.high

theorem step_order {e : Enc} (hi : EInv e) {p : Nat} (hp : p < 65536) (bit : Bool) :
    e.low ≤ low1 e p bit ∧ low1 e p bit ≤ high1 e p bit ∧ high1 e p bit ≤ e.high := by
  have hlt : e.low < e.high := by have := hi.lt; omega
  have hs := splitOf_lt hi.top hi.hi hlt hp
  unfold low1 high1
  cases bit <;> simp <;> omega

/-- normal form of `encodeBit` -/
theorem encodeBit_eq (dstLen : Nat) {e : Enc} (hi : EInv e) {p : Nat} (hp : p < 65536) (bit : Bool) :
    e.encodeBit dstLen p bit =
      if low1 e p bit / 2 ^ 24 = high1 e p bit / 2 ^ 24 then
        (if e.out.size + 4 ≤ dstLen then
          .ok ⟨(low1 e p bit % 2 ^ 32) * 2 ^ 32, (high1 e p bit % 2 ^ 32) * 2 ^ 32 + (2 ^ 32 - 1),
            push32 e.out (high1 e p bit / 2 ^ 32)⟩
        else .fault "dst-slice")
      else .ok ⟨low1 e p bit, high1 e p bit, e.out⟩ := by
  obtain ⟨o1, o2, o3⟩ := step_order hi hp bit
  have hh := hi.hi
  have el : (if bit then e.low else (e.low + splitOf e.low e.high p + 1) % 2 ^ 64) = low1 e p bit := by
    unfold low1 at *
    cases bit
    · simp only [Bool.false_eq_true, if_false] at *
      rw [Nat.mod_eq_of_lt (by omega)]
    · simp
  have eh : (if bit then (e.low + splitOf e.low e.high p) % 2 ^ 64 else e.high) = high1 e p bit := by
    unfold high1 at *
    cases bit
    · simp
    · simp only [if_true] at *
      rw [Nat.mod_eq_of_lt (by omega)]
  unfold Enc.encodeBit
  simp only [el, eh, flushTest, shl32, or32]
  have ew : (high1 e p bit >>> 32) % 2 ^ 32 = high1 e p bit / 2 ^ 32 := by
    rw [Nat.shiftRight_eq_div_pow]; omega
  rw [ew]

/-- `encodeBit` preserves the register invariant; the output grows by 0 or 4 bytes -/
theorem encodeBit_inv {dstLen : Nat} {e e' : Enc} (hi : EInv e) {p : Nat} (hp : p < 65536) {bit : Bool}
    (h : e.encodeBit dstLen p bit = .ok e') :
    EInv e' ∧ e.out.size ≤ e'.out.size ∧ e'.out.size ≤ e.out.size + 4 ∧ e'.out.size ≤ dstLen ∨ EInv e' ∧ e'.out = e.out := by
  obtain ⟨o1, o2, o3⟩ := step_order hi hp bit
  have ht := hi.top
  have hh := hi.hi
  rw [encodeBit_eq dstLen hi hp bit] at h
  split at h
  · rename_i heq
    split at h
    · rename_i hfit
      injection h with h
      subst h
      left
      refine ⟨⟨?_, ?_, ?_⟩, ?_, ?_, ?_⟩
      · simp only; omega
      · simp only; omega
      · simp only; omega
      · simp only [push32_size]; omega
      · simp only [push32_size]; omega
      · simp only [push32_size]; omega
    · cases h
  · rename_i hne
    injection h with h
    subst h
    right
    exact ⟨⟨by simp only; omega, by simp only; omega, by simp only; omega⟩, rfl⟩

theorem encodeBit_einv {dstLen : Nat} {e e' : Enc} (hi : EInv e) {p : Nat} (hp : p < 65536) {bit : Bool}
    (h : e.encodeBit dstLen p bit = .ok e') : EInv e' := by
  rcases encodeBit_inv hi hp h with h | h <;> exact h.1

theorem encodeBit_size {dstLen : Nat} {e e' : Enc} (hi : EInv e) {p : Nat} (hp : p < 65536) {bit : Bool}
    (h : e.encodeBit dstLen p bit = .ok e') : e.out.size ≤ e'.out.size ∧ e'.out.size ≤ e.out.size + 4 := by
  rcases encodeBit_inv hi hp h with h | h
  · exact ⟨h.2.1, h.2.2.1⟩
  · rw [h.2]; omega

/-! ## the code value stays in the interval (backwards) -/

/-- the encoder state `e` is consistent with the complete output `S` -/
structure Good (S : List Nat) (e : Enc) : Prop where
  pre : ∀ k, k < e.out.size → S.getD k 0 = e.out.getD k 0
  len : e.out.size + 8 ≤ S.length
  top : S.getD e.out.size 0 = e.low / 2 ^ 56
  lo : e.low % 2 ^ 56 ≤ val7 S e.out.size
  hi : val7 S e.out.size ≤ e.high % 2 ^ 56

/-- **backward step**: if the state after `encodeBit` is consistent with `S`, so is the state before, and the
    coded bit is what the decoder's comparison `mid >= current` yields -/
theorem encodeBit_back {dstLen : Nat} {S : List Nat} (hS : Bytes S) {e e' : Enc} (hi : EInv e) {p : Nat}
    (hp : p < 65536) {bit : Bool} (h : e.encodeBit dstLen p bit = .ok e') (hg : Good S e') :
    Good S e ∧ (bit = decide (e.low % 2 ^ 56 + splitOf e.low e.high p ≥ val7 S e.out.size)) := by
  obtain ⟨o1, o2, o3⟩ := step_order hi hp bit
  have ht := hi.top
  have hh := hi.hi
  have hlt : e.low < e.high := by have := hi.lt; omega
  have hs := splitOf_lt hi.top hi.hi hlt hp
  rw [encodeBit_eq dstLen hi hp bit] at h
  -- it suffices to show the window lies in [low1, high1] (mod 2^56) with the right top byte
  suffices hw : (∀ k, k < e.out.size → S.getD k 0 = e.out.getD k 0) ∧ e.out.size + 8 ≤ S.length ∧
      S.getD e.out.size 0 = e.low / 2 ^ 56 ∧ low1 e p bit % 2 ^ 56 ≤ val7 S e.out.size ∧
      val7 S e.out.size ≤ high1 e p bit % 2 ^ 56 by
    obtain ⟨w1, w2, w3, w4, w5⟩ := hw
    refine ⟨⟨w1, w2, w3, ?_, ?_⟩, ?_⟩
    · omega
    · omega
    · unfold low1 high1 at *
      cases bit
      · simp only [Bool.false_eq_true, if_false] at *
        symm; rw [decide_eq_false_iff_not]; omega
      · simp only [if_true] at *
        symm; rw [decide_eq_true_iff]; omega
  split at h
  · rename_i heq
    split at h
    · rename_i hfit
      injection h with h
      subst h
      obtain ⟨g1, g2, g3, g4, g5⟩ := hg
      simp only [push32_size] at g1 g2 g3 g4 g5
      have b0 := g1 e.out.size (by omega)
      have b1 := g1 (e.out.size + 1) (by omega)
      have b2 := g1 (e.out.size + 2) (by omega)
      have b3 := g1 (e.out.size + 3) (by omega)
      rw [push32_getD_0] at b0
      rw [push32_getD_1] at b1
      rw [push32_getD_2] at b2
      rw [push32_getD_3] at b3
      have hsh := val7_shift hS e.out.size
      have c8 := hS (e.out.size + 8); have c9 := hS (e.out.size + 9)
      have c10 := hS (e.out.size + 10); have c11 := hS (e.out.size + 11)
      have hv : val7 S e.out.size = S.getD (e.out.size + 1) 0 * 2 ^ 48 + S.getD (e.out.size + 2) 0 * 2 ^ 40
          + S.getD (e.out.size + 3) 0 * 2 ^ 32 + S.getD (e.out.size + 4) 0 * 2 ^ 24 + S.getD (e.out.size + 5) 0 * 2 ^ 16
          + S.getD (e.out.size + 6) 0 * 2 ^ 8 + S.getD (e.out.size + 7) 0 := rfl
      have c5 := hS (e.out.size + 5); have c6 := hS (e.out.size + 6); have c7 := hS (e.out.size + 7)
      simp only [Nat.shiftRight_eq_div_pow] at b0 b1 b2 b3
      refine ⟨fun k hk => ?_, by omega, ?_, ?_, ?_⟩
      · have := g1 k (by omega)
        rw [push32_getD_lt _ _ _ hk] at this
        exact this
      · rw [b0]; omega
      · omega
      · omega
    · cases h
  · rename_i hne
    injection h with h
    subst h
    obtain ⟨g1, g2, g3, g4, g5⟩ := hg
    simp only at g1 g2 g3 g4 g5
    exact ⟨g1, g2, by rw [g3]; omega, g4, g5⟩

/-- the final state: `dispose` writes the 8 bytes of `low` -/
theorem dispose_good {dstLen : Nat} {e : Enc} (hi : EInv e) {out : Array Nat} (h : e.dispose dstLen = .ok out) :
    Good out.toList e ∧ out.size = e.out.size + 8 ∧ out.size ≤ dstLen := by
  unfold Enc.dispose at h
  split at h
  · rename_i hfit
    injection h with h
    subst h
    have hh := hi.hi
    have ht := hi.top
    have hlt : e.low < e.high := by have := hi.lt; omega
    have hw : (e.low >>> 32) % 2 ^ 32 = e.low / 2 ^ 32 := by rw [Nat.shiftRight_eq_div_pow]; omega
    rw [hw]
    have gd : ∀ k, (push32 (push32 e.out (e.low / 2 ^ 32)) (e.low % 2 ^ 32)).toList.getD k 0
        = (push32 (push32 e.out (e.low / 2 ^ 32)) (e.low % 2 ^ 32)).getD k 0 := by
      intro k
      simp [Array.getD_eq_getD_getElem?, List.getD_eq_getElem?_getD]
    have sz1 : (push32 e.out (e.low / 2 ^ 32)).size = e.out.size + 4 := push32_size _ _
    have a0 := push32_getD_0 e.out (e.low / 2 ^ 32)
    have a1 := push32_getD_1 e.out (e.low / 2 ^ 32)
    have a2 := push32_getD_2 e.out (e.low / 2 ^ 32)
    have a3 := push32_getD_3 e.out (e.low / 2 ^ 32)
    have c0 := push32_getD_0 (push32 e.out (e.low / 2 ^ 32)) (e.low % 2 ^ 32)
    have c1 := push32_getD_1 (push32 e.out (e.low / 2 ^ 32)) (e.low % 2 ^ 32)
    have c2 := push32_getD_2 (push32 e.out (e.low / 2 ^ 32)) (e.low % 2 ^ 32)
    have c3 := push32_getD_3 (push32 e.out (e.low / 2 ^ 32)) (e.low % 2 ^ 32)
    rw [sz1] at c0 c1 c2 c3
    have d0 := push32_getD_lt (push32 e.out (e.low / 2 ^ 32)) (e.low % 2 ^ 32) e.out.size (by omega)
    have d1 := push32_getD_lt (push32 e.out (e.low / 2 ^ 32)) (e.low % 2 ^ 32) (e.out.size + 1) (by omega)
    have d2 := push32_getD_lt (push32 e.out (e.low / 2 ^ 32)) (e.low % 2 ^ 32) (e.out.size + 2) (by omega)
    have d3 := push32_getD_lt (push32 e.out (e.low / 2 ^ 32)) (e.low % 2 ^ 32) (e.out.size + 3) (by omega)
    rw [a0] at d0
    rw [a1] at d1
    rw [a2] at d2
    rw [a3] at d3
    have e5 : e.out.size + 4 + 1 = e.out.size + 5 := by omega
    have e6 : e.out.size + 4 + 2 = e.out.size + 6 := by omega
    have e7 : e.out.size + 4 + 3 = e.out.size + 7 := by omega
    rw [e5] at c1
    rw [e6] at c2
    rw [e7] at c3
    simp only [Nat.shiftRight_eq_div_pow] at d0 d1 d2 d3 c0 c1 c2 c3
    refine ⟨⟨fun k hk => ?_, ?_, ?_, ?_, ?_⟩, by simp [push32_size], by simp only [push32_size]; omega⟩
    · rw [gd, push32_getD_lt _ _ _ (by omega), push32_getD_lt _ _ _ hk]
    · simp [push32_size]
    · rw [gd, d0]; omega
    · unfold val7
      simp only [gd]
      rw [d1, d2, d3, c0, c1, c2, c3]
      omega
    · unfold val7
      simp only [gd]
      rw [d1, d2, d3, c0, c1, c2, c3]
      omega
  · cases h

/-! ## the decoder follows the encoder -/

/-- the decoder registers mirror the encoder's (mod `2^56`), `current` is the window of the encoder's write
    position, and the decoder has read 8 bytes ahead -/
structure DRel (S : List Nat) (e : Enc) (d : Dec) : Prop where
  low : d.low = e.low % 2 ^ 56
  high : d.high = e.high % 2 ^ 56
  cur : d.current = val7 S e.out.size
  idx : d.idx = e.out.size + 8

theorem toArray_getD (S : List Nat) (k : Nat) : S.toArray.getD k 0 = S.getD k 0 := by
  simp [Array.getD_eq_getD_getElem?, List.getD_eq_getElem?_getD]

theorem beN4 (S : List Nat) (i : Nat) :
    beN S.toArray i 4 = S.getD i 0 * 2 ^ 24 + S.getD (i + 1) 0 * 2 ^ 16 + S.getD (i + 2) 0 * 2 ^ 8 + S.getD (i + 3) 0 := by
  simp only [beN, toArray_getD, Nat.add_zero]
  omega

theorem shl32_or_lt (c v : Nat) (hv : v < 2 ^ 32) : ((c <<< 32) % 2 ^ 64) ||| v = (c % 2 ^ 32) * 2 ^ 32 + v := by
  rw [shl32]
  have := Kanzi.BinEnt.shl_or (c % 2 ^ 32) v 32 hv
  rw [Nat.shiftLeft_eq] at this
  exact this

/-- **one decoded bit**: aligned with an encoder state whose successor is consistent with `S`, the decoder
    returns the coded bit and stays aligned -/
theorem decodeBit_sim {dstLen : Nat} {S : List Nat} (hS : Bytes S) {e e' : Enc} {d : Dec} (hi : EInv e) {p : Nat}
    (hp : p < 65536) {bit : Bool} (h : e.encodeBit dstLen p bit = .ok e') (hg : Good S e') (hr : DRel S e d) :
    ∃ d', d.decodeBit S.toArray p = .ok (bit, d') ∧ DRel S e' d' := by
  obtain ⟨hgood, hbit⟩ := encodeBit_back hS hi hp h hg
  obtain ⟨o1, o2, o3⟩ := step_order hi hp bit
  have ht := hi.top
  have hh := hi.hi
  have hlt : e.low < e.high := by have := hi.lt; omega
  have hs := splitOf_lt hi.top hi.hi hlt hp
  obtain ⟨r1, r2, r3, r4⟩ := hr
  -- the decoder computes the same split
  have hsp : splitOf d.low d.high p = splitOf e.low e.high p := by
    rw [splitOf_eq (by rw [r1, r2]; omega) (by rw [r2]; omega) (by rw [r1, r2]; omega) hp,
      splitOf_eq hi.top hi.hi (by omega) hp, r1, r2]
    have : e.high % 2 ^ 56 - e.low % 2 ^ 56 = e.high - e.low := by omega
    rw [this]
  have hv := val7_lt hS e.out.size
  have hmid : (d.low + splitOf d.low d.high p) % 2 ^ 64 = e.low % 2 ^ 56 + splitOf e.low e.high p := by
    rw [hsp, r1]; omega
  have hbd : decide (e.low % 2 ^ 56 + splitOf e.low e.high p ≥ d.current) = bit := by
    rw [r3, hbit]
  rw [encodeBit_eq dstLen hi hp bit] at h
  unfold Dec.decodeBit
  simp only [hmid]
  simp only [hbd, flushTest]
  -- the decoder's interval is the encoder's mod 2^56
  have el : (if bit = true then d.low else (e.low % 2 ^ 56 + splitOf e.low e.high p + 1) % 2 ^ 64) = low1 e p bit % 2 ^ 56 := by
    unfold low1 at *
    cases bit
    · simp only [Bool.false_eq_true, if_false] at *; omega
    · simp only [if_true] at *; exact r1
  have eh : (if bit = true then e.low % 2 ^ 56 + splitOf e.low e.high p else d.high) = high1 e p bit % 2 ^ 56 := by
    unfold high1 at *
    cases bit
    · simp only [Bool.false_eq_true, if_false] at *; exact r2
    · simp only [if_true] at *; omega
  rw [el, eh]
  have hft : (low1 e p bit % 2 ^ 56 / 2 ^ 24 = high1 e p bit % 2 ^ 56 / 2 ^ 24) ↔
      (low1 e p bit / 2 ^ 24 = high1 e p bit / 2 ^ 24) := by omega
  split at h
  · rename_i heq
    rw [if_pos (hft.mpr heq)]
    split at h
    · rename_i hfit
      injection h with h
      subst h
      obtain ⟨g1, g2, g3, g4, g5⟩ := hg
      simp only [push32_size] at g1 g2 g3 g4 g5
      have hsz : d.idx + 4 ≤ S.toArray.size := by simp only [List.size_toArray]; omega
      rw [if_pos hsz]
      refine ⟨_, rfl, ⟨?_, ?_, ?_, ?_⟩⟩
      · simp only [shl32]; omega
      · simp only [shl32, or32]; omega
      · have c8 := hS (e.out.size + 8); have c9 := hS (e.out.size + 9)
        have c10 := hS (e.out.size + 10); have c11 := hS (e.out.size + 11)
        have hb : beN S.toArray d.idx 4 < 2 ^ 32 := by
          rw [beN4, r4]
          have e1 : e.out.size + 8 + 1 = e.out.size + 9 := by omega
          have e2 : e.out.size + 8 + 2 = e.out.size + 10 := by omega
          have e3 : e.out.size + 8 + 3 = e.out.size + 11 := by omega
          rw [e1, e2, e3]; omega
        simp only [push32_size]
        rw [shl32_or_lt _ _ hb, val7_shift hS, beN4, r4, r3]
        have e1 : e.out.size + 8 + 1 = e.out.size + 9 := by omega
        have e2 : e.out.size + 8 + 2 = e.out.size + 10 := by omega
        have e3 : e.out.size + 8 + 3 = e.out.size + 11 := by omega
        rw [e1, e2, e3]
        omega
      · simp only [push32_size]; omega
    · cases h
  · rename_i hne
    rw [if_neg (fun hc => hne (hft.mp hc))]
    injection h with h
    subst h
    exact ⟨_, rfl, ⟨rfl, rfl, r3, r4⟩⟩

/-! ## symbols: `encodeBits` / `decodeBits` in a probability table -/

/-- every probability is a 16-bit number (so that `p >> 4` is a 12-bit one) -/
def ProbOk (t : Array Nat) : Prop := ∀ k, t.getD k 0 < 65536

theorem probUp_lt {p : Nat} (bit : Bool) (h : p < 65536) : probUp p bit < 65536 := by
  unfold probUp
  cases bit
  · simp only [Bool.false_eq_true, if_false]; omega
  · simp only [if_true]
    split <;> omega

theorem getD_setIfInBounds (t : Array Nat) (i v k : Nat) :
    (t.setIfInBounds i v).getD k 0 = if k = i ∧ i < t.size then v else t.getD k 0 := by
  simp only [Array.getD_eq_getD_getElem?, Array.getElem?_setIfInBounds]
  by_cases h1 : i = k
  · subst h1
    by_cases h2 : i < t.size
    · simp [h2]
    · simp [h2, Array.getElem?_eq_none (Nat.le_of_not_lt h2)]
  · have : ¬ k = i := fun h => h1 h.symm
    simp [h1, this]

theorem probOk_set {t : Array Nat} (h : ProbOk t) (i v : Nat) (hv : v < 65536) : ProbOk (t.setIfInBounds i v) := by
  intro k
  rw [getD_setIfInBounds]
  split
  · exact hv
  · exact h k

theorem probs0_ok (n : Nat) : ProbOk (probs0 n) := by
  intro k
  unfold probs0
  rw [Array.getD_eq_getD_getElem?, Array.getElem?_replicate]
  split
  · show PSCALE >>> 1 < 65536; decide
  · show 0 < 65536; decide

theorem encBits_inv {dstLen ctx val : Nat} : ∀ (n c1 : Nat) (e : Enc) (t : Array Nat) (e' : Enc) (t' : Array Nat),
    EInv e → ProbOk t → encBits dstLen ctx val n c1 e t = .ok (e', t') →
    EInv e' ∧ ProbOk t' ∧ e.out.size ≤ e'.out.size ∧ e'.out.size ≤ e.out.size + 4 * n ∧ t'.size = t.size := by
  intro n
  induction n with
  | zero =>
    intro c1 e t e' t' hi ht h
    simp only [encBits] at h
    injection h with h
    injection h with h1 h2
    subst h1; subst h2
    exact ⟨hi, ht, Nat.le_refl _, by omega, rfl⟩
  | succ n ih =>
    intro c1 e t e' t' hi ht h
    simp only [encBits] at h
    split at h
    · rename_i e1 he1
      have hp := ht (ctx + c1)
      have i1 := encodeBit_einv hi hp he1
      have s1 := encodeBit_size hi hp he1
      obtain ⟨a1, a2, a3, a4, a5⟩ := ih _ e1 _ e' t' i1 (probOk_set ht _ _ (probUp_lt _ hp)) h
      refine ⟨a1, a2, by omega, by omega, ?_⟩
      rw [a5, Array.size_setIfInBounds]
    · cases h
    · cases h

theorem encBits_back {dstLen ctx val : Nat} {S : List Nat} (hS : Bytes S) :
    ∀ (n c1 : Nat) (e : Enc) (t : Array Nat) (e' : Enc) (t' : Array Nat),
    EInv e → ProbOk t → encBits dstLen ctx val n c1 e t = .ok (e', t') → Good S e' → Good S e := by
  intro n
  induction n with
  | zero =>
    intro c1 e t e' t' _ _ h hg
    simp only [encBits] at h
    injection h with h
    injection h with h1 h2
    subst h1
    exact hg
  | succ n ih =>
    intro c1 e t e' t' hi ht h hg
    simp only [encBits] at h
    split at h
    · rename_i e1 he1
      have hp := ht (ctx + c1)
      have i1 := encodeBit_einv hi hp he1
      have g1 := ih _ e1 _ e' t' i1 (probOk_set ht _ _ (probUp_lt _ hp)) h hg
      exact (encodeBit_back hS hi hp he1 g1).1
    · cases h
    · cases h

theorem testBit_acc (c1 val n : Nat) :
    (2 * c1 + (val.testBit n).toNat) * 2 ^ n + val % 2 ^ n = c1 * 2 ^ (n + 1) + val % 2 ^ (n + 1) := by
  rw [Nat.mod_pow_succ, Nat.toNat_testBit, Nat.pow_succ]
  have : (2 * c1 + val / 2 ^ n % 2) * 2 ^ n = c1 * (2 ^ n * 2) + 2 ^ n * (val / 2 ^ n % 2) := by
    rw [Nat.add_mul, Nat.mul_comm (val / 2 ^ n % 2), Nat.mul_comm 2 c1, Nat.mul_assoc, Nat.mul_comm 2 (2 ^ n)]
  omega

/-- **one decoded symbol**: the decoder, aligned with the encoder and holding the same table, reads back the
    `n` bits of `val` (accumulated into `c1`), ends aligned and with the same updated table -/
theorem decBits_sim {dstLen ctx val : Nat} {S : List Nat} (hS : Bytes S) :
    ∀ (n c1 : Nat) (e : Enc) (t : Array Nat) (e' : Enc) (t' : Array Nat) (d : Dec),
    EInv e → ProbOk t → encBits dstLen ctx val n c1 e t = .ok (e', t') → Good S e' → DRel S e d →
    ∃ d', decBits S.toArray ctx n c1 d t = .ok (c1 * 2 ^ n + val % 2 ^ n, d', t') ∧ DRel S e' d' := by
  intro n
  induction n with
  | zero =>
    intro c1 e t e' t' d _ _ h _ hr
    simp only [encBits] at h
    injection h with h
    injection h with h1 h2
    subst h1; subst h2
    refine ⟨d, ?_, hr⟩
    simp [decBits, Nat.mod_one]
  | succ n ih =>
    intro c1 e t e' t' d hi ht h hg hr
    simp only [encBits] at h
    split at h
    · rename_i e1 he1
      have hp := ht (ctx + c1)
      have i1 := encodeBit_einv hi hp he1
      have ht1 := probOk_set ht (ctx + c1) _ (probUp_lt (val.testBit n) hp)
      have g1 := encBits_back hS n _ e1 _ e' t' i1 ht1 h hg
      obtain ⟨d1, hd1, r1⟩ := decodeBit_sim hS hi hp he1 g1 hr
      obtain ⟨d', hd', r'⟩ := ih _ e1 _ e' t' d1 i1 ht1 h hg r1
      refine ⟨d', ?_, r'⟩
      simp only [decBits, hd1]
      rw [hd', testBit_acc]
    · cases h
    · cases h

end Kanzi.ROLZ
