package main

// Fact table `Names` (property C15): everything is obtained by calling the real functions
// transform.GetType/GetName, entropy.GetType/GetName and the real constructors that select a codec
// variant from a context string.  Output: lean/Kanzi/Generated/Names.lean.

import (
	"bytes"
	"fmt"
	"math/rand"
	"os"
	"path/filepath"
	"regexp"
	"sort"
	"strings"
	"unicode"

	kanzi "github.com/flanglet/kanzi-go/v2"
	"github.com/flanglet/kanzi-go/v2/bitstream"
	"github.com/flanglet/kanzi-go/v2/entropy"
	"github.com/flanglet/kanzi-go/v2/transform"
)

func init() { registerFacts("Names", namesFacts) }

// names the design expects; the generator iterates over the names found in the SOURCE switch
// (expected order first, unexpected ones appended in sorted order) and notes any difference.
var expTransformNames = []string{"NONE", "BWT", "BWTS", "LZ", "LZX", "LZP", "ROLZ", "ROLZX", "RLT", "ZRLT",
	"MTFT", "RANK", "SRT", "TEXT", "MM", "EXE", "UTF", "PACK", "DNA"}
var expEntropyNames = []string{"NONE", "HUFFMAN", "FPAQ", "ANS0", "ANS1", "RANGE", "CM", "TPAQ", "TPAQX"}

var caseLitRe = regexp.MustCompile(`case\s+"([^"]*)"`)

// switchNames returns the string literals of the `case "X":` labels in function `fn` of file `path`.
func switchNames(path, fn string) ([]string, error) {
	b, err := os.ReadFile(path)
	if err != nil {
		return nil, err
	}
	src := string(b)
	i := strings.Index(src, "\nfunc "+fn+"(")
	if i < 0 {
		return nil, fmt.Errorf("%s: function %s not found", path, fn)
	}
	body := src[i+1:]
	if j := strings.Index(body, "\nfunc "); j >= 0 {
		body = body[:j]
	}
	var out []string
	for _, m := range caseLitRe.FindAllStringSubmatch(body, -1) {
		out = append(out, m[1])
	}
	if len(out) == 0 {
		return nil, fmt.Errorf("%s: no string case labels in %s", path, fn)
	}
	return out, nil
}

// orderNames: expected order first, then the unexpected ones sorted; diff = human readable note.
func orderNames(expected, found []string) (names []string, diff string) {
	in := map[string]bool{}
	for _, f := range found {
		in[f] = true
	}
	exp := map[string]bool{}
	var missing, extra []string
	for _, e := range expected {
		exp[e] = true
		if in[e] {
			names = append(names, e)
		} else {
			missing = append(missing, e)
		}
	}
	for f := range in {
		if !exp[f] {
			extra = append(extra, f)
		}
	}
	sort.Strings(extra)
	names = append(names, extra...)
	if len(missing)+len(extra) > 0 {
		diff = fmt.Sprintf("expected but not in source: %v; in source but not expected: %v", missing, extra)
	}
	return
}

// caseVariants: every ASCII upper/lower spelling; the order is the one of Kanzi.Names.caseVariants
// (per letter: all spellings of the tail with the upper-case letter first, then with the lower-case one).
func caseVariants(s string) []string {
	if s == "" {
		return []string{""}
	}
	c, tail := s[0], caseVariants(s[1:])
	isLetter := (c >= 'a' && c <= 'z') || (c >= 'A' && c <= 'Z')
	var out []string
	if !isLetter {
		for _, t := range tail {
			out = append(out, string(c)+t)
		}
		return out
	}
	up, lo := strings.ToUpper(string(c)), strings.ToLower(string(c))
	for _, t := range tail {
		out = append(out, up+t)
	}
	for _, t := range tail {
		out = append(out, lo+t)
	}
	return out
}

func namesLeanStr(s string) string {
	var sb strings.Builder
	sb.WriteByte('"')
	for _, r := range s {
		switch {
		case r == '"' || r == '\\':
			sb.WriteByte('\\')
			sb.WriteRune(r)
		case r < 32 || r > 126:
			fmt.Fprintf(&sb, "\\u{%x}", r)
		default:
			sb.WriteRune(r)
		}
	}
	sb.WriteByte('"')
	return sb.String()
}

func leanOptNat(ok bool, v uint64) string {
	if !ok {
		return "none"
	}
	return fmt.Sprintf("some %d", v)
}

// ---- real calls (panics mapped to errors) ----------------------------------------------------

func realTransformType(name string) (t uint64, ok bool) {
	defer func() {
		if r := recover(); r != nil {
			ok = false
		}
	}()
	t, err := transform.GetType(name)
	return t, err == nil
}

func realTransformName(t uint64) (s string, ok bool) {
	defer func() {
		if r := recover(); r != nil {
			ok = false
		}
	}()
	s, err := transform.GetName(t)
	return s, err == nil
}

func realEntropyType(name string) (t uint32, ok bool) {
	defer func() {
		if r := recover(); r != nil {
			ok = false
		}
	}()
	t, err := entropy.GetType(name)
	return t, err == nil
}

func realEntropyName(t uint32) (s string, ok bool) {
	defer func() {
		if r := recover(); r != nil {
			ok = false
		}
	}()
	s, err := entropy.GetName(t)
	return s, err == nil
}

// ---- variant probes: PUBLIC behaviour of the object built from a context string ---------------

type nopCloser struct{ *bytes.Buffer }

func (nopCloser) Close() error { return nil }

func forwardOf(t kanzi.ByteTransform, err error, probe []byte) string {
	if err != nil {
		return "ctor-error: " + err.Error()
	}
	src := append([]byte(nil), probe...)
	dst := make([]byte, t.MaxEncodedLen(len(src))+64)
	_, n, err := t.Forward(src, dst)
	if err != nil {
		return "forward-error: " + err.Error()
	}
	return fmt.Sprintf("%d:", t.MaxEncodedLen(len(src))) + string(dst[:n])
}

func probeCall(f func() string) (out string) {
	defer func() {
		if r := recover(); r != nil {
			out = fmt.Sprint("panic: ", r)
		}
	}()
	return f()
}

type variantSite struct {
	name string
	refs []string // canonical spellings; the label of a spelling is the first ref with identical behaviour
	run  func(spelling string) string
}

func namesProbes() []variantSite {
	r := rand.New(rand.NewSource(15))
	// repetitive text (ROLZ, TPAQ)
	var sb strings.Builder
	for sb.Len() < 12000 {
		fmt.Fprintf(&sb, "the quick brown fox %d jumps over the lazy dog; ", r.Intn(40))
	}
	rep := []byte(sb.String())
	// text with many distinct words (hash-table size of the text codecs matters)
	sb.Reset()
	var vocab []string
	for i := 0; i < 24000; i++ {
		l := 4 + r.Intn(7)
		w := make([]byte, l)
		for k := range w {
			w[k] = byte('a' + r.Intn(26))
		}
		vocab = append(vocab, string(w))
	}
	for i := 0; i < 60000; i++ {
		sb.WriteString(vocab[(i*7+r.Intn(3))%len(vocab)])
		if i%13 == 12 {
			sb.WriteString(".\n")
		} else {
			sb.WriteByte(' ')
		}
	}
	text := []byte(sb.String())
	// runs over symbols 1..200: symbol 0 is absent (best escape 0) and the default escape 0xFB too
	var runs []byte
	for len(runs) < 8000 {
		c := byte(1 + r.Intn(200))
		for k, l := 0, 1+r.Intn(40); k < l; k++ {
			runs = append(runs, c)
		}
	}
	allEnt := expEntropyNames
	return []variantSite{
		{"ROLZ", []string{"ROLZ", "ROLZX"}, func(v string) string {
			ctx := map[string]any{"transform": v}
			t, err := transform.NewROLZCodecWithCtx(&ctx)
			return forwardOf(t, err, rep)
		}},
		{"TPAQ", []string{"TPAQ", "TPAQX"}, func(v string) string {
			ctx := map[string]any{"entropy": v}
			p, err := entropy.NewTPAQPredictor(&ctx)
			if err != nil {
				return "ctor-error: " + err.Error()
			}
			buf := &bytes.Buffer{}
			obs, _ := bitstream.NewDefaultOutputBitStream(nopCloser{buf}, 16384)
			enc, err := entropy.NewBinaryEntropyEncoder(obs, p)
			if err != nil {
				return "ctor-error: " + err.Error()
			}
			if _, err = enc.Write(rep[:4096]); err != nil {
				return "write-error: " + err.Error()
			}
			enc.Dispose()
			obs.Close()
			return buf.String()
		}},
		{"TEXT1", []string{"TPAQ", "TPAQX"}, func(v string) string {
			ctx := map[string]any{"entropy": v, "textcodec": 1}
			t, err := transform.NewTextCodecWithCtx(&ctx)
			return forwardOf(t, err, text)
		}},
		{"TEXT2", []string{"TPAQ", "TPAQX"}, func(v string) string {
			ctx := map[string]any{"entropy": v, "textcodec": 2}
			t, err := transform.NewTextCodecWithCtx(&ctx)
			return forwardOf(t, err, text)
		}},
		// Factory.newToken(DICT): text codec 1 or 2 from the entropy name
		{"DICT", allEnt, func(v string) string {
			ctx := map[string]any{"entropy": v}
			t, err := transform.New(&ctx, transform.DICT_TYPE<<42)
			if err != nil {
				return "ctor-error: " + err.Error()
			}
			return forwardOf(t, nil, text[:40000])
		}},
		// RLT: escape symbol search skipped for fast entropy codecs
		{"RLT", allEnt, func(v string) string {
			ctx := map[string]any{"entropy": v}
			t, err := transform.NewRLTWithCtx(&ctx)
			return forwardOf(t, err, runs)
		}},
	}
}

type variantRow struct{ site, spelling, label string }

func namesVariantRows() (rows []variantRow, canon []variantRow) {
	for _, s := range namesProbes() {
		refOut := make([]string, len(s.refs))
		for i, ref := range s.refs {
			refOut[i] = probeCall(func() string { return s.run(ref) })
		}
		label := func(out string) string {
			for i, ro := range refOut {
				if ro == out {
					return s.refs[i]
				}
			}
			return "other"
		}
		for i, ref := range s.refs {
			canon = append(canon, variantRow{s.name, ref, label(refOut[i])})
			for _, v := range caseVariants(ref) {
				rows = append(rows, variantRow{s.name, v, label(probeCall(func() string { return s.run(v) }))})
			}
		}
	}
	return
}

// ---- generator -----------------------------------------------------------------------------

func namesFacts(repo string) (string, error) {
	tf, err := switchNames(filepath.Join(repo, "v2", "transform", "Factory.go"), "getByteFunctionTypeToken")
	if err != nil {
		return "", err
	}
	ef, err := switchNames(filepath.Join(repo, "v2", "entropy", "EntropyCodecFactory.go"), "GetType")
	if err != nil {
		return "", err
	}
	tnames, tdiff := orderNames(expTransformNames, tf)
	enames, ediff := orderNames(expEntropyNames, ef)

	var sb strings.Builder
	w := func(f string, a ...any) { fmt.Fprintf(&sb, f, a...) }
	w("/-\nGENERATED by `kv facts -which Names` from the real kanzi-go functions - do not edit.\n")
	w("transform.GetType/GetName, entropy.GetType/GetName on every case variant / every code;\n")
	w("codec variant selected by the constructors for every case variant of the context string.\n")
	if tdiff != "" {
		w("NOTE transform names differ from the design list: %s\n", tdiff)
	}
	if ediff != "" {
		w("NOTE entropy names differ from the design list: %s\n", ediff)
	}
	w("-/\nnamespace Kanzi.Generated.Names\n\n")

	// canonical name -> token
	w("/-- canonical transform name ↦ token (`transform.GetType name >>> 42`) -/\n")
	w("def transformTokens : List (String × Nat) := [\n")
	for i, n := range tnames {
		t, ok := realTransformType(n)
		if !ok {
			return "", fmt.Errorf("transform.GetType(%q) fails on a name of its own switch", n)
		}
		if t&((1<<42)-1) != 0 || t>>48 != 0 {
			return "", fmt.Errorf("transform.GetType(%q) = %#x is not a single first token", n, t)
		}
		w("  (%s, %d)%s\n", namesLeanStr(n), t>>42, sep(i, len(tnames)))
	}
	w("]\n\n/-- canonical entropy name ↦ code (`entropy.GetType name`) -/\n")
	w("def entropyTokens : List (String × Nat) := [\n")
	for i, n := range enames {
		t, ok := realEntropyType(n)
		if !ok {
			return "", fmt.Errorf("entropy.GetType(%q) fails on a name of its own switch", n)
		}
		w("  (%s, %d)%s\n", namesLeanStr(n), t, sep(i, len(enames)))
	}
	w("]\n\n")

	// every case variant
	w("/-- every ASCII case variant of every canonical transform name ↦ `GetType variant >>> 42` (none = error) -/\n")
	w("def transformCase : List (String × Option Nat) := [\n")
	var rows []string
	for _, n := range tnames {
		for _, v := range caseVariants(n) {
			t, ok := realTransformType(v)
			if ok && (t&((1<<42)-1) != 0 || t>>48 != 0) {
				return "", fmt.Errorf("transform.GetType(%q) = %#x is not a single first token", v, t)
			}
			rows = append(rows, fmt.Sprintf("(%s, %s)", namesLeanStr(v), leanOptNat(ok, t>>42)))
		}
	}
	wrapRows(&sb, rows, 4)
	w("]\n\n/-- every ASCII case variant of every canonical entropy name ↦ `entropy.GetType variant` -/\n")
	w("def entropyCase : List (String × Option Nat) := [\n")
	rows = rows[:0]
	for _, n := range enames {
		for _, v := range caseVariants(n) {
			t, ok := realEntropyType(v)
			rows = append(rows, fmt.Sprintf("(%s, %s)", namesLeanStr(v), leanOptNat(ok, uint64(t))))
		}
	}
	wrapRows(&sb, rows, 4)
	w("]\n\n")

	// code -> name
	w("/-- every 6-bit code ↦ `transform.GetName (code <<< 42)` (none = error) -/\n")
	w("def transformNameOf : List (Nat × Option String) := [\n")
	rows = rows[:0]
	for c := uint64(0); c < 64; c++ {
		s, ok := realTransformName(c << 42)
		if c == 0 && ok {
			// GetName prints "NONE" for the empty chain: same string as the token name of code 0
			if s != "NONE" {
				return "", fmt.Errorf("transform.GetName(0) = %q", s)
			}
		}
		if ok {
			rows = append(rows, fmt.Sprintf("(%d, some %s)", c, namesLeanStr(s)))
		} else {
			rows = append(rows, fmt.Sprintf("(%d, none)", c))
		}
	}
	wrapRows(&sb, rows, 4)
	w("]\n\n/-- every 5-bit code ↦ `entropy.GetName code` -/\n")
	w("def entropyNameOf : List (Nat × Option String) := [\n")
	rows = rows[:0]
	for c := uint32(0); c < 32; c++ {
		s, ok := realEntropyName(c)
		if ok {
			rows = append(rows, fmt.Sprintf("(%d, some %s)", c, namesLeanStr(s)))
		} else {
			rows = append(rows, fmt.Sprintf("(%d, none)", c))
		}
	}
	wrapRows(&sb, rows, 4)
	w("]\n\n")

	// non-ASCII runes that strings.ToUpper maps into ASCII (they make e.g. \"ſrt\" a spelling of SRT)
	w("/-- every non-ASCII code point that Go's `unicode.ToUpper` (used by `strings.ToUpper`) maps to an ASCII one -/\n")
	w("def upperIntoAscii : List (Nat × Nat) := [")
	first := true
	for r := rune(128); r <= unicode.MaxRune; r++ {
		if r >= 0xD800 && r < 0xE000 {
			continue
		}
		if u := unicode.ToUpper(r); u < 128 {
			if !first {
				w(", ")
			}
			first = false
			w("(%d, %d)", r, u)
		}
	}
	w("]\n\n")

	// variants
	vrows, canon := namesVariantRows()
	w("/-- (site, canonical context string, behaviour label): label = first canonical spelling of the site\n")
	w("whose public behaviour on the probe block is identical -/\n")
	w("def variantCanon : List (String × String × String) := [\n")
	rows = rows[:0]
	for _, r := range canon {
		rows = append(rows, fmt.Sprintf("(%s, %s, %s)", namesLeanStr(r.site), namesLeanStr(r.spelling), namesLeanStr(r.label)))
	}
	wrapRows(&sb, rows, 3)
	w("]\n\n/-- (site, context string as spelled, behaviour label) for every ASCII case variant -/\n")
	w("def variantTable : List (String × String × String) := [\n")
	rows = rows[:0]
	for _, r := range vrows {
		rows = append(rows, fmt.Sprintf("(%s, %s, %s)", namesLeanStr(r.site), namesLeanStr(r.spelling), namesLeanStr(r.label)))
	}
	wrapRows(&sb, rows, 3)
	w("]\n\nend Kanzi.Generated.Names\n")
	return sb.String(), nil
}

func sep(i, n int) string {
	if i+1 < n {
		return ","
	}
	return ""
}

func wrapRows(sb *strings.Builder, rows []string, per int) {
	for i, r := range rows {
		if i%per == 0 {
			sb.WriteString("  ")
		}
		sb.WriteString(r)
		if i+1 < len(rows) {
			sb.WriteString(",")
		}
		if i%per == per-1 || i+1 == len(rows) {
			sb.WriteString("\n")
		} else {
			sb.WriteString(" ")
		}
	}
}
