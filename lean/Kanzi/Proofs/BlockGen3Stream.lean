/-
Proofs for `Kanzi/Model/BlockGen3.lean`, part 3: decode ∘ encode for every chain over `Kind3`, what a header
announces (`cfgOfHeader3`), the byte image of a whole stream read back by `parseImageGen3`, and the TPAQ / TPAQX
entropy codecs as the block codec builds them.
-/
import Kanzi.Proofs.BlockGen3Kinds
import Kanzi.Proofs.BlockGen2Stream
import Kanzi.Properties.C12_tpaq_codec

namespace Kanzi.BlockGen3
open Kanzi.Bits Kanzi.TrSmall Kanzi.Block Kanzi.BlockGen Kanzi.BlockGen2

/-! ### decode ∘ encode for chains over `Kind3` -/

/-- H_codec for every chain over the nineteen kinds: the BWT job counts are at least 1, and TEXT satisfies its law
if it occurs; in that case the decoding task is only claimed for a frame within the Reader's bound of 2^34 bits
(the Reader rejects longer frames before it hands them to a task: "Invalid block size") -/
theorem block_roundtrip3 (text : TextImpl) (c : Cfg2) (ks : List Kind3) (hc : c.trs = kind3Trs text ks)
    (hn : ks.length ≤ 8) (hwf : ∀ k ∈ ks, k.WF) (ht : Kind3.text ∈ ks → TextLaw text)
    (B obuf : Nat) (b : List Nat) (hbs : c.bs = some B)
    (hent : EntLawAt c.ent (maxTransformLength B) (postBlock c.trs c.bs obuf b))
    (hb : ∀ x ∈ b, x < 256) (hb0 : 0 < b.length) (hB : b.length ≤ B) (hmax : B ≤ 2 ^ 30) :
    ∃ p, encodeTaskGen2 c obuf b = .ok p ∧
      ((Kind3.text ∈ ks → p.length ≤ 2 ^ 34) → decodeTaskGen2 c B p = ⟨b.length, .ok b⟩) ∧
      (c.ent = noneEnt → FrameFit B p) := by
  have hl8 : (kind3Ltrs text ks).length ≤ 8 := by simp only [kind3Ltrs, List.length_map]; exact hn
  have hc' : c.trs = ltrs (kind3Ltrs text ks) := by rw [ltrs_kind3Ltrs]; exact hc
  obtain ⟨p, h1, h2, h3⟩ := block_roundtripL (ChainDst ks) c (kind3Ltrs text ks) hc' (kind3Ltrs_law text ks hwf ht)
    (kind3Ltrs_step text ks) hl8 B obuf b hbs hent hb hb0 hB hmax
  refine ⟨p, h1, fun hp => h2 (fun hmem => ?_), h3⟩
  rw [hc']
  exact invDst_lt (kind3Ltrs text ks) (kind3Ltrs_maxOK text ks ht) hl8 B hmax p (hp hmem)

/-- chains without TEXT, and entropy NONE (whose payload is within the frame bound): unconditional -/
theorem block_roundtrip3' (text : TextImpl) (c : Cfg2) (ks : List Kind3) (hc : c.trs = kind3Trs text ks)
    (hn : ks.length ≤ 8) (hwf : ∀ k ∈ ks, k.WF) (ht : Kind3.text ∈ ks → TextLaw text)
    (hcase : Kind3.text ∉ ks ∨ c.ent = noneEnt)
    (B obuf : Nat) (b : List Nat) (hbs : c.bs = some B)
    (hent : EntLawAt c.ent (maxTransformLength B) (postBlock c.trs c.bs obuf b))
    (hb : ∀ x ∈ b, x < 256) (hb0 : 0 < b.length) (hB : b.length ≤ B) (hmax : B ≤ 2 ^ 30) :
    ∃ p, encodeTaskGen2 c obuf b = .ok p ∧ decodeTaskGen2 c B p = ⟨b.length, .ok b⟩ ∧
      (c.ent = noneEnt → FrameFit B p) := by
  obtain ⟨p, h1, h2, h3⟩ := block_roundtrip3 text c ks hc hn hwf ht B obuf b hbs hent hb hb0 hB hmax
  refine ⟨p, h1, h2 (fun hmem => ?_), h3⟩
  rcases hcase with hnt | hne
  · exact absurd hmem hnt
  · exact Nat.le_of_lt (h3 hne).2.1

/-! ### headers -/

theorem tokenKind3_wf (fast dna rolzx : Bool) (jobs : Nat) (hj : 1 ≤ jobs) (t : Nat) (k : Kind3)
    (h : tokenKind3 fast dna rolzx jobs t = some k) : k.WF := by
  unfold tokenKind3 at h
  repeat' split at h
  all_goals first
    | (injection h with h; subst h; first | exact hj | trivial)
    | skip
  · cases hk : tokenKind fast dna t with
    | none => rw [hk] at h; cases h
    | some k' => rw [hk] at h; injection h with h; subst h; trivial

theorem kindsOfTokens3_spec (fast rolzx : Bool) (jobs : Nat) (hj : 1 ≤ jobs) :
    ∀ (ts : List Nat) (dna : Bool) (ks : List Kind3),
    kindsOfTokens3 fast rolzx jobs ts dna = some ks → ks.length = ts.length ∧ ∀ k ∈ ks, k.WF := by
  intro ts
  induction ts with
  | nil => intro dna ks h; simp [kindsOfTokens3] at h; subst h; exact ⟨rfl, fun k hk => by cases hk⟩
  | cons t ts ih =>
    intro dna ks h
    unfold kindsOfTokens3 at h
    cases h1 : tokenKind3 fast dna rolzx jobs t with
    | none => rw [h1] at h; simp at h
    | some k =>
      cases h2 : kindsOfTokens3 fast rolzx jobs ts (dna || t == 19) with
      | none => rw [h1, h2] at h; simp at h
      | some ks' =>
        rw [h1, h2] at h
        simp at h
        subst h
        obtain ⟨hl, hw⟩ := ih _ _ h2
        refine ⟨by simp [hl], fun k' hk' => ?_⟩
        rcases List.mem_cons.mp hk' with rfl | hk'
        · exact tokenKind3_wf fast dna rolzx jobs hj t _ h1
        · exact hw k' hk'

theorem tokenKind3_text (fast dna rolzx : Bool) (jobs t : Nat)
    (h : tokenKind3 fast dna rolzx jobs t = some Kind3.text) : t = 10 := by
  unfold tokenKind3 at h
  repeat' split at h
  all_goals first
    | assumption
    | (injection h with h; cases h)
    | skip
  · rename_i hr
    cases hk : tokenKind fast dna t with
    | none => rw [hk] at h; cases h
    | some k' => rw [hk] at h; injection h with h; cases h
  all_goals (split at h <;> (injection h with h; cases h))

theorem kindsOfTokens3_text (fast rolzx : Bool) (jobs : Nat) :
    ∀ (ts : List Nat) (dna : Bool) (ks : List Kind3),
    kindsOfTokens3 fast rolzx jobs ts dna = some ks → Kind3.text ∈ ks → 10 ∈ ts := by
  intro ts
  induction ts with
  | nil => intro dna ks h hm; simp [kindsOfTokens3] at h; subst h; cases hm
  | cons t ts ih =>
    intro dna ks h hm
    unfold kindsOfTokens3 at h
    cases h1 : tokenKind3 fast dna rolzx jobs t with
    | none => rw [h1] at h; simp at h
    | some k =>
      cases h2 : kindsOfTokens3 fast rolzx jobs ts (dna || t == 19) with
      | none => rw [h1, h2] at h; simp at h
      | some ks' =>
        rw [h1, h2] at h
        simp at h
        subst h
        rcases List.mem_cons.mp hm with hm | hm
        · rw [← hm] at h1
          rw [tokenKind3_text _ _ _ _ _ h1]
          exact List.mem_cons_self ..
        · exact List.mem_cons_of_mem _ (ih _ _ h2 hm)

/-- TEXT is in the sequence only if the transform word has a TEXT token (code 10) -/
theorem newSeq3_text_token (ft e jobs : Nat) (ks : List Kind3) (h : newSeq3 ft e jobs = some ks)
    (hm : Kind3.text ∈ ks) : (seqTokens ft).contains 10 = true := by
  have := kindsOfTokens3_text _ _ _ _ _ _ h hm
  simpa using this

theorem tokenKind3_old (fast dna rolzx : Bool) (jobs t : Nat) (k : Kind) (h : tokenKind fast dna t = some k) :
    tokenKind3 fast dna rolzx jobs t = some (.old k) := by
  have hne : t ≠ 1 ∧ t ≠ 2 ∧ t ≠ 9 ∧ t ≠ 10 ∧ t ≠ 11 ∧ t ≠ 12 ∧ t ≠ 17 := by
    refine ⟨?_, ?_, ?_, ?_, ?_, ?_, ?_⟩ <;> (intro ht; subst ht; simp [tokenKind] at h)
  unfold tokenKind3
  rw [if_neg hne.1, if_neg hne.2.1, if_neg hne.2.2.1, if_neg hne.2.2.2.1, if_neg hne.2.2.2.2.1,
    if_neg hne.2.2.2.2.2.1, if_neg hne.2.2.2.2.2.2, h]
  rfl

theorem kindsOfTokens3_old (fast rolzx : Bool) (jobs : Nat) :
    ∀ (ts : List Nat) (dna : Bool) (ks : List Kind),
    kindsOfTokens fast ts dna = some ks → kindsOfTokens3 fast rolzx jobs ts dna = some (ks.map Kind3.old) := by
  intro ts
  induction ts with
  | nil => intro dna ks h; simp [kindsOfTokens] at h; subst h; rfl
  | cons t ts ih =>
    intro dna ks h
    unfold kindsOfTokens at h
    cases h1 : tokenKind fast dna t with
    | none => rw [h1] at h; simp at h
    | some k =>
      cases h2 : kindsOfTokens fast ts (dna || t == 19) with
      | none => rw [h1, h2] at h; simp at h
      | some ks' =>
        rw [h1, h2] at h
        simp at h
        subst h
        unfold kindsOfTokens3
        rw [tokenKind3_old _ _ rolzx jobs _ _ h1, ih _ _ h2]
        rfl

/-- the model of `C01_blockgen2` is the restriction to transform words over the twelve old names -/
theorem newSeq3_of_newSeq2 (ft e jobs : Nat) (ks : List Kind) (h : newSeq2 ft e = some ks) :
    newSeq3 ft e jobs = some (ks.map Kind3.old) :=
  kindsOfTokens3_old _ _ _ _ _ _ h

theorem cfgOfHeader3_spec (text : TextImpl) (jobs : Nat) (hj : 1 ≤ jobs) (h : Header.Header) (sb : Bool) (c : Cfg2)
    (hc : cfgOfHeader3 text jobs h sb = some c) :
    c.ck = 32 * h.ckSize ∧ c.skipBlocks = sb ∧ c.bs = some h.blockSize ∧ entOf2 h.entropyType = some c.ent ∧
      ∃ ks, newSeq3 h.transformType h.entropyType jobs = some ks ∧ c.trs = kind3Trs text ks ∧ ks.length ≤ 8 ∧
        ∀ k ∈ ks, k.WF := by
  unfold cfgOfHeader3 at hc
  cases h1 : newSeq3 h.transformType h.entropyType jobs with
  | none => rw [h1] at hc; simp at hc
  | some ks =>
    cases h2 : entOf2 h.entropyType with
    | none => rw [h1, h2] at hc; simp at hc
    | some ent =>
      rw [h1, h2] at hc
      simp at hc
      subst hc
      obtain ⟨hl, hw⟩ := kindsOfTokens3_spec _ _ jobs hj _ _ _ h1
      refine ⟨rfl, rfl, rfl, rfl, ks, rfl, rfl, ?_, hw⟩
      rw [hl]
      exact seqTokens_length _

/-! ### whole streams -/

/-- the whole image: written by a Writer (any job count) whose tasks use `ce`, read with the configuration `cd`
announced by the header -/
theorem parseImageGen3_streamImageGen2 (text : TextImpl) (rj : Nat) (h : Header.Header) (wf : Header.WF h)
    (ce cd : Cfg2) (jobs : Nat) (hcfg : cfgOfHeader3 text rj h false = some cd) (blocks : List (List Nat))
    (hok : ∀ b ∈ blocks, BlockOK2 ce cd.toCfg h.blockSize b ∧ 0 < b.length ∧ b.length ≤ h.blockSize) :
    ∃ img, streamImageGen2 h ce jobs blocks = .ok img ∧
      parseImageGen3 text rj img = (some h, blocks, .endOfStream) := by
  obtain ⟨ps, hps, hl, hfit, hdec⟩ := encodeBlocks2_ok ce cd.toCfg h.blockSize blocks 0 (List.replicate jobs 0) hok
  refine ⟨packBytes (streamBitsOf h ps), ?_, ?_⟩
  · unfold streamImageGen2
    rw [hps]
  · unfold parseImageGen3 streamBitsOf
    rw [ofBytes_packBytes, List.append_assoc, List.append_assoc, Header.parseHeader_headerBits h wf]
    simp only [hcfg]
    rw [← List.append_assoc,
      parseFrames_stream h.blockSize _ _ hfit _
      (by
        have := flatMap_frameBits_length ps
        simp only [List.length_append] at this ⊢
        omega)]
    rw [hdec]

/-! ### TPAQ / TPAQX as the block codec builds them -/

/-- the ctx entries `NewTPAQPredictor` reads in a stream of bitstream version 6 with block size `B`, for a block
of `n` bytes handed to the entropy coder (`ctx["size"]` = post-transform length on the encoder side = the
pre-transform length read from the prologue on the decoder side) -/
def tpaqArgs (extra : Bool) (B n : Nat) : Option Kanzi.TPAQ.CtxArgs :=
  some { entropy := .str (if extra then "TPAQX" else "TPAQ"), blockSize := .uint B, size := .uint n,
         bsVersion := .uint 6 }

/-- `NewBinaryEntropyEncoder/Decoder` with a new `TPAQPredictor` built from the task ctx (entropy name TPAQ or
TPAQX = `extra`, stream block size `B`, `size` = length of the block), chunks of `_BINARY_ENTROPY_MAX_CHUNK`;
`none` = the constructor or the codec failed.  NOT tied by a stream of this slice (the codec itself is: `tpaq`). -/
def tpaqEnt (extra : Bool) (B : Nat) : Ent :=
  ⟨fun b => match Kanzi.TPAQ.tpaqNew (tpaqArgs extra B b.length) with
            | .ok s0 => (match BinEnt.encodeBlock Kanzi.C12.tpaqPred BinEnt.MAX_CHUNK s0 b with
                         | .ok o => some o
                         | .error _ => Option.none)
            | .error _ => Option.none,
   fun n bs => match Kanzi.TPAQ.tpaqNew (tpaqArgs extra B n) with
               | .ok s0 => (match BinEnt.decodeBlock Kanzi.C12.tpaqPred BinEnt.MAX_CHUNK s0 bs n with
                            | .ok r => some r
                            | .error _ => Option.none)
               | .error _ => Option.none⟩

/-- the decoder's own acceptance test ("no chunk codes to twice its size or more") for TPAQ / TPAQX on the block `y` -/
def tpaqFits (extra : Bool) (B : Nat) (y : List Nat) : Prop :=
  ∃ s0, Kanzi.TPAQ.tpaqNew (tpaqArgs extra B y.length) = .ok s0 ∧
    BinEnt.fits2 Kanzi.C12.tpaqPred BinEnt.MAX_CHUNK s0 y = true

/-- TPAQ / TPAQX at one block: under the decoder's acceptance test -/
theorem entLawAt_tpaq (extra : Bool) (B : Nat) (hB : 0 < B) (N : Nat) (hN : N ≤ 2 ^ 30) (y : List Nat)
    (hfit : tpaqFits extra B y) : EntLawAt (tpaqEnt extra B) N y := by
  intro hy hne
  obtain ⟨s0, hs, hf⟩ := hfit
  have hlen : 0 < y.length := List.length_pos_of_ne_nil hne
  have hargs : Kanzi.TPAQ.ArgsOk (tpaqArgs extra B y.length) := by
    unfold tpaqArgs Kanzi.TPAQ.ArgsOk
    exact ⟨hB, hlen⟩
  obtain ⟨out, h1, h2⟩ := Kanzi.C12.C12_tpaq_block (tpaqArgs extra B y.length) s0 hargs hs y hne hy.1
    (Nat.le_trans hy.2 hN) hf
  refine ⟨out, ?_, fun rest => ?_⟩
  · show (match Kanzi.TPAQ.tpaqNew (tpaqArgs extra B y.length) with
      | .ok s0 => (match BinEnt.encodeBlock Kanzi.C12.tpaqPred BinEnt.MAX_CHUNK s0 y with
                   | .ok o => some o | .error _ => Option.none)
      | .error _ => Option.none) = _
    rw [hs]
    simp only [h1]
  · show (match Kanzi.TPAQ.tpaqNew (tpaqArgs extra B y.length) with
      | .ok s0 => (match BinEnt.decodeBlock Kanzi.C12.tpaqPred BinEnt.MAX_CHUNK s0 (out ++ rest) y.length with
                   | .ok r => some r | .error _ => Option.none)
      | .error _ => Option.none) = _
    rw [hs]
    simp only [h2 rest]

/-- `entropy.NewEntropyEncoder/Decoder` for all nine codes in a stream of block size `B`: those of `entOf2`, TPAQ (7),
TPAQX (9) -/
def entOf3 (B e : Nat) : Option Ent :=
  if e = 7 then some (tpaqEnt false B) else if e = 9 then some (tpaqEnt true B) else entOf2 e

/-! ### the encoder does not look at the BWT job count -/

/-- two transforms the ENCODER cannot tell apart -/
def EncEq (t t' : Tr2) : Prop := t.fwd = t'.fwd ∧ t.ctxw = t'.ctxw ∧ t.maxLen = t'.maxLen

theorem seqMaxLen_encEq {ts ts' : List Tr2} (h : List.Forall₂ EncEq ts ts') :
    ∀ n, seqMaxLen (trsOf ts) n = seqMaxLen (trsOf ts') n := by
  unfold seqMaxLen stagesOf trsOf
  induction h with
  | nil => intro n; rfl
  | cons hd _ ih =>
    intro n
    simp only [List.map_cons, seqMaxEncodedLen, Tr.stage, Tr2.toTr]
    rw [hd.2.2]
    exact ih _

theorem seqFwdGo2_encEq (req l0 : Nat) {ts ts' : List Tr2} (h : List.Forall₂ EncEq ts ts') :
    ∀ (i : Nat) (even : Bool) (dt : Nat) (cur : List Nat) (f : Nat),
      seqFwdGo2 req l0 ts i even dt cur f = seqFwdGo2 req l0 ts' i even dt cur f := by
  induction h with
  | nil => intro i even dt cur f; rfl
  | cons hd _ ih =>
    intro i even dt cur f
    rw [seqFwdGo2, seqFwdGo2, hd.1, hd.2.1]
    split
    · exact ih _ _ _ _ _
    · exact ih _ _ _ _ _

/-- the payload does not depend on what the decoder alone sees of the transforms (`inv`) -/
theorem encodeTaskGen2_encEq (ck : Nat) (ts ts' : List Tr2) (h : List.Forall₂ EncEq ts ts') (ent : Ent) (sb : Bool)
    (bs : Option Nat) (obuf : Nat) (b : List Nat) :
    encodeTaskGen2 ⟨ck, ts, ent, sb, bs⟩ obuf b = encodeTaskGen2 ⟨ck, ts', ent, sb, bs⟩ obuf b := by
  have hlen : ts.length = ts'.length := h.length_eq
  have hm := seqMaxLen_encEq h
  unfold encodeTaskGen2
  have hcopy : isCopy (Cfg2.toCfg ⟨ck, ts, ent, sb, bs⟩) b = isCopy (Cfg2.toCfg ⟨ck, ts', ent, sb, bs⟩) b := rfl
  rw [hcopy]
  split
  · rfl
  · show encodeWith2 ts ent (ckWidth ck) (checksum ck b) bs obuf b = encodeWith2 ts' ent (ckWidth ck) (checksum ck b) bs obuf b
    unfold encodeWith2 postOf forwardOf seqForward2
    rw [hlen, hm b.length]
    split
    · rfl
    · rw [seqFwdGo2_encEq _ _ h]

/-- replace the job count of every BWT stage -/
def Kind3.setJobs (j : Nat) : Kind3 → Kind3
  | .bwt _ => .bwt j
  | k => k

theorem kind3Trs_setJobs (text : TextImpl) (j : Nat) (ks : List Kind3) :
    List.Forall₂ EncEq (kind3Trs text ks) (kind3Trs text (ks.map (Kind3.setJobs j))) := by
  induction ks with
  | nil => exact List.Forall₂.nil
  | cons k ks ih =>
    refine List.Forall₂.cons ?_ ih
    cases k <;> exact ⟨rfl, rfl, rfl⟩

end Kanzi.BlockGen3
