/-
Proofs for the Huffman codec, part 6: `HuffmanEncoder.Write` / `HuffmanDecoder.Read` on a whole
block, for every block of bytes, every length and every legal chunk size.
-/
import Kanzi.Model.Huffman
import Kanzi.Proofs.EntSmall
import Kanzi.Proofs.Ans0
import Kanzi.Proofs.HufChunk

namespace Kanzi.Huffman
open Kanzi.Bits Kanzi.EntSmall Kanzi.Normalize

theorem toArray_getD (l : List Nat) (i : Nat) : l.toArray.getD i 0 = l.getD i 0 := by
  simp [Array.getD_eq_getD_getElem?, List.getD_eq_getElem?_getD]

/-- a chunk with a single symbol: the decoder gets the alphabet back -/
theorem readLengths_single (sizes : List Nat) (s : Nat) (hs : s < 256)
    (hsz : 1 ≤ sizes.getD s 0 ∧ sizes.getD s 0 ≤ 12) (rest : Bits) :
    ∃ rl, readLengths (encodeAlphabetBits [s] ++ encodeSizes sizes [s] 2 ++ rest) = some (rl, rest) ∧
      rl.alphabet = [s] := by
  unfold readLengths
  rw [List.append_assoc, alphabet_roundtrip [s] (List.pairwise_singleton _ _)
    (fun x hx => by rw [List.mem_singleton.mp hx]; exact hs)]
  simp only
  rw [if_neg (by simp), readSizes_enc sizes rest [s] 2 _
    (fun x hx => by rw [List.mem_singleton.mp hx]; exact hsz) (by omega)]
  simp only [generateCanonicalCodes, List.length_cons, List.length_nil]
  exact ⟨_, rfl, rfl⟩

/-- **one round of the chunk loops** -/
theorem oneChunk_roundtrip (c : List Nat) (hb : ∀ b ∈ c, b < 256) (chunkSize : Nat)
    (hcs : 1024 ≤ chunkSize ∧ chunkSize ≤ 16384) (hlen : 1 ≤ c.length ∧ c.length ≤ chunkSize)
    (junk : List Nat) (hj : ∀ b ∈ junk, b < 256) :
    ∃ e br, encodeOneChunk c = some (e, br) ∧
      ∀ rest, decodeOneChunk chunkSize c.length junk (e ++ rest) = some ((c, true), rest) := by
  unfold encodeOneChunk
  by_cases h32 : c.length < 32
  · rw [if_pos h32]
    refine ⟨_, _, rfl, fun rest => ?_⟩
    unfold decodeOneChunk
    rw [if_pos h32, readBytes_ofBytes c rest hb]
  · rw [if_neg h32]
    obtain ⟨u, hu, hok⟩ := updateFrequencies_spec (histogram c) (histogram_length c)
    rw [hu]
    simp only
    refine ⟨_, _, rfl, fun rest => ?_⟩
    have hmem : ∀ b ∈ c, b ∈ support (histogram c) := by
      intro b hbc
      rw [mem_support, histogram_length]
      have := histogram_pos c b hbc (hb b hbc)
      exact ⟨hb b hbc, by omega⟩
    have ha := support_alpha (histogram c) (histogram_length c)
    generalize support (histogram c) = a at hok hmem ha
    have hane : 1 ≤ a.length := by
      cases hc : c with
      | nil => rw [hc] at hlen; simp at hlen
      | cons x xs =>
        have := hmem x (by rw [hc]; exact List.mem_cons_self)
        cases a with
        | nil => cases this
        | cons _ _ => simp
    unfold decodeOneChunk
    rw [if_neg h32, hok.bits]
    by_cases h1 : a.length = 1
    · -- a single symbol: nothing but the header
      obtain ⟨s, hs⟩ := List.length_eq_one_iff.mp h1
      rw [if_neg (by rw [hok.count]; omega), List.append_nil]
      subst hs
      obtain ⟨rl, hrl, hal⟩ := readLengths_single u.sizes s (ha.lt s List.mem_cons_self)
        (hok.lens.range s List.mem_cons_self) rest
      rw [hrl]
      simp only
      rw [hal]
      simp only [List.length_cons, List.length_nil, List.headD_cons]
      rw [if_neg (by omega)]
      simp only [if_true]
      have : c = List.replicate c.length s :=
        eq_replicate_of_all c s (fun b hbc => List.mem_singleton.mp (hmem b hbc))
      rw [← this]
    · have h2 : 2 ≤ a.length := by omega
      rw [if_pos (by rw [hok.count]; omega)]
      obtain ⟨codes, tbl, hg, hrl, hbt, htok, htf, hclt, hcl, _⟩ :=
        decoder_tables u.sizes a ha.sorted hok.lens h2 (encodeChunk u.codes.toArray c ++ rest)
      obtain ⟨codes', ord', hg', hpk⟩ := hok.codes h2
      rw [hg] at hg'
      simp only [Option.some.injEq, Prod.mk.injEq] at hg'
      obtain ⟨hcc, _⟩ := hg'
      subst hcc
      have hpc := packCodes_spec u.sizes a codes hok.lens.nodup
        (fun s hs => by rw [hcl]; exact ha.lt s hs)
      have ctx : ChunkCtx u.codes.toArray tbl u.sizes codes a := by
        refine ⟨⟨?_, ?_, fun b hb' => (hok.lens.range b hb').2, hclt⟩, htok, htf, ha.lt⟩
        · intro b hb'
          rw [toArray_getD, hpk, hpc.2.2 b hb']
          exact (packed_fields _ _ (hok.lens.range b hb').2 (hclt b hb')).1
        · intro b hb'
          rw [toArray_getD, hpk, hpc.2.2 b hb']
          exact (packed_fields _ _ (hok.lens.range b hb').2 (hclt b hb')).2
      rw [List.append_assoc, hrl]
      simp only
      have hco : (canonOrder u.sizes a).length = a.length :=
        (canonOrder_perm u.sizes a hok.lens.nodup hok.lens.lt256 hok.lens.range).length_eq
      rw [hco, if_neg (by omega), if_neg (by omega), hbt]
      simp only
      have h28 : (2 : Nat) ^ 28 = 268435456 := by norm_num
      rw [chunk_roundtrip u.codes.toArray tbl u.sizes codes a ctx junk hj c hmem (2 * chunkSize)
        (by omega) (by omega) rest]

theorem chunks_roundtrip (chunkSize : Nat) (hcs : 1024 ≤ chunkSize ∧ chunkSize ≤ 16384)
    (junk : List Nat) (hj : ∀ b ∈ junk, b < 256) :
    ∀ (fuel : Nat) (blk : List Nat), blk.length ≤ fuel → (∀ b ∈ blk, b < 256) →
    ∃ e brs, encodeChunks fuel chunkSize blk = some (e, brs) ∧
      ∀ rest, decodeChunks fuel chunkSize blk.length junk (e ++ rest) = some (blk, rest) := by
  intro fuel
  induction fuel with
  | zero =>
    intro blk hl _
    have : blk = [] := List.length_eq_zero_iff.mp (by omega)
    subst this
    exact ⟨[], [], rfl, fun rest => rfl⟩
  | succ fuel ih =>
    intro blk hl hb
    simp only [encodeChunks, decodeChunks]
    by_cases h0 : blk.length = 0
    · rw [if_pos h0]
      have : blk = [] := List.length_eq_zero_iff.mp h0
      subst this
      exact ⟨[], [], rfl, fun rest => by simp⟩
    · rw [if_neg h0]
      have hct : (blk.take chunkSize).length = min chunkSize blk.length := List.length_take
      obtain ⟨e1, br, he1, hd1⟩ := oneChunk_roundtrip (blk.take chunkSize)
        (fun b hb' => hb b (List.mem_of_mem_take hb')) chunkSize hcs (by rw [hct]; omega) junk hj
      obtain ⟨e2, brs, he2, hd2⟩ := ih (blk.drop chunkSize) (by rw [List.length_drop]; omega)
        (fun b hb' => hb b (List.mem_of_mem_drop hb'))
      rw [he1]
      simp only
      rw [he2]
      simp only
      refine ⟨_, _, rfl, fun rest => ?_⟩
      rw [if_neg h0, ← hct, List.append_assoc, hd1 (e2 ++ rest)]
      simp only [if_true]
      have hdl : blk.length - (blk.take chunkSize).length = (blk.drop chunkSize).length := by
        rw [List.length_drop, hct]; omega
      rw [hdl, hd2 rest]
      simp only [List.take_append_drop]

/-- **whole block.**  For every block of bytes, every legal chunk size and whatever the
    decoder's buffer held before: `Write` succeeds and `Read` of as many bytes returns the block
    and stops exactly where the encoder stopped. -/
theorem block_roundtrip (blk : List Nat) (hb : ∀ b ∈ blk, b < 256) (chunkSize : Nat)
    (hcs : ctorOk chunkSize = true) (junk : List Nat) (hj : ∀ b ∈ junk, b < 256) :
    ∃ e brs, encodeB blk chunkSize = some (e, brs) ∧ encode blk chunkSize = some e ∧
      ∀ rest, decode (e ++ rest) blk.length chunkSize junk = some (blk, rest) := by
  have hcs' : 1024 ≤ chunkSize ∧ chunkSize ≤ 16384 := by
    simp only [ctorOk, Bool.and_eq_true, decide_eq_true_eq] at hcs
    exact hcs
  obtain ⟨e, brs, he, hd⟩ := chunks_roundtrip chunkSize hcs' junk hj blk.length blk (Nat.le_refl _) hb
  have he' : encodeB blk chunkSize = some (e, brs) := he
  exact ⟨e, brs, he', by simp only [encode, he'], hd⟩

end Kanzi.Huffman
