/-
Generic machinery for the inverse BWT proofs:
* `rd` : total read of an `Array Nat` with its update lemmas;
* lists sorted by a key: the bucket decomposition `L = L.filter (key < c) ++ L.filter (key = c) ++ ...`;
* `putList`: the counting-sort scatter loop (`data[buckets[key]] = word; buckets[key]++`) and its
  specification: bucket `c` of the output holds the words of the entries with key `c` in input order.
-/
import Kanzi.Model.BWT

namespace Kanzi.BWT

/-! ### total reads -/

/-- total read -/
def rd (a : Array Nat) (i : Nat) : Nat := a.getD i 0

theorem rd_eq_getElem {a : Array Nat} {i : Nat} (h : i < a.size) : a[i] = rd a i := by
  simp [rd, h]

theorem rd_of_size_le {a : Array Nat} {i : Nat} (h : a.size ≤ i) : rd a i = 0 := by
  simp [rd, Array.getD_eq_getD_getElem?, h]

theorem rd_set {a : Array Nat} {i : Nat} (h : i < a.size) (v j : Nat) :
    rd (a.set i v h) j = if i = j then v else rd a j := by
  simp only [rd, Array.getD_eq_getD_getElem?, Array.getElem?_set]
  split <;> simp

theorem rd_setIfInBounds {a : Array Nat} (i v j : Nat) :
    rd (a.setIfInBounds i v) j = if i = j ∧ i < a.size then v else rd a j := by
  simp only [rd, Array.getD_eq_getD_getElem?, Array.getElem?_setIfInBounds]
  by_cases h1 : i = j
  · subst h1
    by_cases h2 : i < a.size
    · simp [h2]
    · simp [h2]
  · simp [h1]

theorem rd_push (a : Array Nat) (v j : Nat) :
    rd (a.push v) j = if j = a.size then v else rd a j := by
  simp only [rd, Array.getD_eq_getD_getElem?, Array.getElem?_push]
  split <;> simp

theorem rd_modify (a : Array Nat) (i j : Nat) (f : Nat → Nat) (h : i < a.size) :
    rd (a.modify i f) j = if i = j then f (rd a j) else rd a j := by
  simp only [rd, Array.getD_eq_getD_getElem?, Array.getElem?_modify]
  split
  · next e => subst e; simp [h]
  · rfl

theorem rd_replicate (n v i : Nat) : rd (Array.replicate n v) i = if i < n then v else 0 := by
  simp only [rd, Array.getD_eq_getD_getElem?]
  split
  · next h => simp [h]
  · next h =>
    have : (Array.replicate n v).size ≤ i := by simp; omega
    simp [Array.getElem?_eq_none this]

theorem rd_toArray (l : List Nat) (i : Nat) : rd l.toArray i = l.getD i 0 := by
  simp [rd, Array.getD_eq_getD_getElem?, List.getD_eq_getElem?_getD]

/-- an array is determined by its size and its reads -/
theorem eq_toArray_of_rd {a : Array Nat} {l : List Nat} (hs : a.size = l.length)
    (h : ∀ i, i < l.length → rd a i = l.getD i 0) : a = l.toArray := by
  apply Array.ext
  · simpa using hs
  · intro i h1 h2
    have := h i (by simpa using h2)
    rw [← rd_eq_getElem h1] at this
    rw [this]
    simp [List.getD_eq_getElem?_getD, (by simpa using h2 : i < l.length)]

/-! ### lists sorted by key -/

section Sorted
variable {α : Type} (key : α → Nat)

theorem filter_lt_nil_of_forall_ge {L : List α} {c : Nat} (h : ∀ x ∈ L, c ≤ key x) :
    L.filter (fun x => key x < c) = [] := by
  rw [List.filter_eq_nil_iff]
  intro x hx
  have := h x hx
  simp; omega

theorem filter_eq_nil_of_forall_gt {L : List α} {c : Nat} (h : ∀ x ∈ L, c < key x) :
    L.filter (fun x => key x = c) = [] := by
  rw [List.filter_eq_nil_iff]
  intro x hx
  have := h x hx
  simp; omega

/-- a list sorted by key is the concatenation of its `< c`, `= c` and `> c` parts -/
theorem sorted_decomp {L : List α} (hs : L.Pairwise (fun a b => key a ≤ key b)) (c : Nat) :
    L = L.filter (fun x => key x < c) ++ L.filter (fun x => key x = c) ++ L.filter (fun x => c < key x) := by
  induction L with
  | nil => simp
  | cons x xs ih =>
    rw [List.pairwise_cons] at hs
    have ih' := ih hs.2
    rcases Nat.lt_trichotomy (key x) c with h | h | h
    · have e1 : decide (key x < c) = true := by simpa using h
      have e2 : decide (key x = c) = false := by simp; omega
      have e3 : decide (c < key x) = false := by simp; omega
      simp only [List.filter_cons, e1, e2, e3, ite_true, Bool.false_eq_true, ite_false, List.cons_append]
      exact congrArg _ ih'
    · have hge : ∀ y ∈ xs, c ≤ key y := fun y hy => h ▸ hs.1 y hy
      have e1 : decide (key x < c) = false := by simp; omega
      have e2 : decide (key x = c) = true := by simpa using h
      have e3 : decide (c < key x) = false := by simp; omega
      simp only [List.filter_cons, e1, e2, e3, ite_true, Bool.false_eq_true, ite_false]
      rw [filter_lt_nil_of_forall_ge key hge] at ih' ⊢
      simp only [List.nil_append, List.cons_append] at ih' ⊢
      exact congrArg _ ih'
    · have hgt : ∀ y ∈ xs, c < key y := fun y hy => Nat.lt_of_lt_of_le h (hs.1 y hy)
      have e1 : decide (key x < c) = false := by simp; omega
      have e2 : decide (key x = c) = false := by simp; omega
      have e3 : decide (c < key x) = true := by simpa using h
      simp only [List.filter_cons, e1, e2, e3, ite_true, Bool.false_eq_true, ite_false]
      rw [filter_lt_nil_of_forall_ge key (fun y hy => Nat.le_of_lt (hgt y hy)),
        filter_eq_nil_of_forall_gt key hgt] at ih' ⊢
      simp only [List.nil_append] at ih' ⊢
      exact congrArg _ ih'

/-- number of elements with a key below `c` -/
def below (L : List α) (c : Nat) : Nat := (L.filter (fun x => key x < c)).length

/-- bucket `c` -/
def bucket (L : List α) (c : Nat) : List α := L.filter (fun x => key x = c)

/-- element `below c + k` of a list sorted by key is element `k` of bucket `c` -/
theorem sorted_getD_bucket {L : List α} (hs : L.Pairwise (fun a b => key a ≤ key b)) (c k : Nat)
    (hk : k < (bucket key L c).length) (d : α) :
    L.getD (below key L c + k) d = (bucket key L c).getD k d := by
  have h := sorted_decomp key hs c
  rw [congrArg (fun l => l.getD (below key L c + k) d) h]
  simp only [List.getD_eq_getElem?_getD, below, bucket] at *
  rw [List.append_assoc, List.getElem?_append_right (by omega)]
  simp only [Nat.add_sub_cancel_left]
  rw [List.getElem?_append_left hk]

/-- position `a` of a list sorted by key lies in the bucket of its key -/
theorem sorted_pos_in_bucket {L : List α} (hs : L.Pairwise (fun a b => key a ≤ key b)) (a : Nat)
    (ha : a < L.length) :
    below key L (key L[a]) ≤ a ∧ a < below key L (key L[a]) + (bucket key L (key L[a])).length := by
  have h := sorted_decomp key hs (key L[a])
  generalize hc : key L[a] = c at h
  have hA : ∀ x ∈ L.filter (fun x => key x < c), key x < c := by
    intro x hx; simpa using (List.mem_filter.1 hx).2
  have hD : ∀ x ∈ L.filter (fun x => c < key x), c < key x := by
    intro x hx; simpa using (List.mem_filter.1 hx).2
  have hlen := congrArg List.length h
  simp only [List.length_append] at hlen
  simp only [below, bucket]
  constructor
  · refine Nat.le_of_not_lt fun hlt => ?_
    have e : L[a]? = (L.filter (fun x => key x < c))[a]? := by
      rw [congrArg (fun l => l[a]?) h]
      rw [List.append_assoc, List.getElem?_append_left hlt]
    rw [List.getElem?_eq_getElem ha, List.getElem?_eq_getElem hlt] at e
    have := hA _ (List.getElem_mem hlt)
    rw [← Option.some.inj e, hc] at this
    omega
  · refine Nat.lt_of_not_le fun hge => ?_
    have hlt : a - ((L.filter (fun x => key x < c)).length + (L.filter (fun x => key x = c)).length)
        < (L.filter (fun x => c < key x)).length := by omega
    have e : L[a]? = (L.filter (fun x => c < key x))[a - ((L.filter (fun x => key x < c)).length + (L.filter (fun x => key x = c)).length)]? := by
      rw [congrArg (fun l => l[a]?) h]
      rw [List.getElem?_append_right (by simp only [List.length_append]; omega)]
      simp only [List.length_append]
    rw [List.getElem?_eq_getElem ha, List.getElem?_eq_getElem hlt] at e
    have := hD _ (List.getElem_mem hlt)
    rw [← Option.some.inj e, hc] at this
    omega

theorem below_mono (L : List α) {c c2 : Nat} (h : c < c2) :
    below key L c + (bucket key L c).length ≤ below key L c2 := by
  simp only [below, bucket]
  induction L with
  | nil => simp
  | cons x xs ih =>
    have e1 : decide (key x < c) = true ∨ decide (key x < c) = false := by cases decide (key x < c) <;> simp
    have e2 : decide (key x = c) = true ∨ decide (key x = c) = false := by cases decide (key x = c) <;> simp
    have e3 : decide (key x < c2) = true ∨ decide (key x < c2) = false := by cases decide (key x < c2) <;> simp
    rcases e1 with e1 | e1 <;> rcases e2 with e2 | e2 <;> rcases e3 with e3 | e3 <;>
      simp only [List.filter_cons, e1, e2, e3, ite_true, Bool.false_eq_true, ite_false, List.length_cons] <;>
      simp only [decide_eq_true_eq, decide_eq_false_iff_not] at e1 e2 e3 <;> omega

end Sorted

/-! ### the counting-sort scatter loop -/

/-- `put` over a list of (key, word) entries -/
def putList : List (Nat × Nat) → Array Nat → Array Nat → Option (Array Nat × Array Nat)
  | [], bk, data => some (bk, data)
  | e :: es, bk, data =>
    match put bk data e.1 e.2 with
    | none => none
    | some r => putList es r.1 r.2

/-- entries with key `c` -/
abbrev ebucket (E : List (Nat × Nat)) (c : Nat) : List (Nat × Nat) := bucket (fun e : Nat × Nat => e.1) E c

theorem put_eq {bk data : Array Nat} {v w : Nat} (hv : v < bk.size) (hb : rd bk v < data.size) :
    put bk data v w = some (bk.set v (rd bk v + 1) hv, data.setIfInBounds (rd bk v) w) := by
  simp [put, hv, rd_eq_getElem hv, hb]

/-- Specification of the scatter loop.  `C c` is the bucket start held in `bk[c]`; the bucket ranges
`[C c, C c + |bucket c|)` are ordered and inside `data`. -/
theorem putList_spec (E : List (Nat × Nat)) : ∀ (C : Nat → Nat) (bk data : Array Nat),
    bk.size = 256 → (∀ e ∈ E, e.1 < 256) → (∀ c, c < 256 → rd bk c = C c) →
    (∀ c c2, c < c2 → c2 < 256 → C c + (ebucket E c).length ≤ C c2) →
    (∀ c, c < 256 → C c + (ebucket E c).length ≤ data.size) →
    ∃ bk' data', putList E bk data = some (bk', data') ∧ data'.size = data.size ∧ bk'.size = 256 ∧
      (∀ c, c < 256 → rd bk' c = C c + (ebucket E c).length) ∧
      (∀ c, c < 256 → ∀ k, k < (ebucket E c).length → rd data' (C c + k) = ((ebucket E c).getD k (0, 0)).2) ∧
      (∀ j, (∀ c, c < 256 → ¬ (C c ≤ j ∧ j < C c + (ebucket E c).length)) → rd data' j = rd data j) := by
  induction E with
  | nil =>
    intro C bk data hbk _ hC _ _
    refine ⟨bk, data, rfl, rfl, hbk, ?_, ?_, ?_⟩
    · intro c hc; simp [ebucket, bucket, hC c hc]
    · intro c _ k hk; simp [ebucket, bucket] at hk
    · intro j _; rfl
  | cons e es ih =>
    intro C bk data hbk hkeys hC hdisj hfit
    have hv : e.1 < bk.size := by rw [hbk]; exact hkeys e (List.mem_cons_self)
    have hv256 : e.1 < 256 := hkeys e (List.mem_cons_self)
    -- bucket lengths of `e :: es`
    have hlen : ∀ c, (ebucket (e :: es) c).length = (ebucket es c).length + (if e.1 = c then 1 else 0) := by
      intro c
      simp only [ebucket, bucket, List.filter_cons]
      by_cases h : e.1 = c <;> simp [h]
    have hpos : rd bk e.1 < data.size := by
      have h1 := hfit e.1 hv256
      have h2 := hlen e.1
      simp only [ite_true] at h2
      rw [hC e.1 hv256]; omega
    have hput := put_eq (w := e.2) hv hpos
    let C' : Nat → Nat := fun c => if c = e.1 then C e.1 + 1 else C c
    have hC' : ∀ c, c < 256 → rd (bk.set e.1 (rd bk e.1 + 1) hv) c = C' c := by
      intro c hc
      rw [rd_set]
      by_cases h : e.1 = c
      · subst h; simp [C', hC e.1 hv256]
      · have h' : ¬ c = e.1 := fun x => h x.symm
        simp [C', h, h', hC c hc]
    have hdisj' : ∀ c c2, c < c2 → c2 < 256 → C' c + (ebucket es c).length ≤ C' c2 := by
      intro c c2 hlt hc2
      have := hdisj c c2 hlt hc2
      rw [hlen c] at this
      simp only [C']
      by_cases h1 : c = e.1
      · have h2 : ¬ c2 = e.1 := by omega
        subst h1
        simp [h2] at this ⊢; omega
      · by_cases h2 : c2 = e.1
        · have h1' : ¬ e.1 = c := fun x => h1 x.symm
          simp [h1, h2, h1'] at this ⊢; omega
        · have h1' : ¬ e.1 = c := fun x => h1 x.symm
          simp [h1, h2, h1'] at this ⊢; omega
    have hfit' : ∀ c, c < 256 → C' c + (ebucket es c).length ≤ (data.setIfInBounds (rd bk e.1) e.2).size := by
      intro c hc
      have := hfit c hc
      rw [hlen c] at this
      rw [Array.size_setIfInBounds]
      simp only [C']
      by_cases h1 : c = e.1
      · subst h1; simp at this ⊢; omega
      · have h1' : ¬ e.1 = c := fun x => h1 x.symm
        simp [h1, h1'] at this ⊢; omega
    obtain ⟨bk', data', hrun, hsz, hbk', hB, hD, hU⟩ :=
      ih C' _ _ (by rw [Array.size_set]; exact hbk) (fun x hx => hkeys x (List.mem_cons_of_mem _ hx)) hC' hdisj' hfit'
    refine ⟨bk', data', ?_, ?_, hbk', ?_, ?_, ?_⟩
    · simp only [putList, hput]; exact hrun
    · rw [hsz, Array.size_setIfInBounds]
    · intro c hc
      rw [hB c hc, hlen c]
      simp only [C']
      by_cases h1 : c = e.1
      · subst h1; simp; omega
      · have h1' : ¬ e.1 = c := fun x => h1 x.symm
        simp [h1, h1']
    · intro c hc k hk
      rw [hlen c] at hk
      by_cases h1 : e.1 = c
      · -- the bucket of the new entry: it sits in front
        have hb : ebucket (e :: es) c = e :: ebucket es c := by
          simp [ebucket, bucket, List.filter_cons, h1]
        rw [hb]
        cases k with
        | zero =>
          -- position C c is outside every range of the recursive call
          have hout : ∀ c', c' < 256 → ¬ (C' c' ≤ C c + 0 ∧ C c + 0 < C' c' + (ebucket es c').length) := by
            intro c' hc' ⟨h2, h3⟩
            simp only [C'] at h2 h3
            by_cases h4 : c' = e.1
            · rw [if_pos h4, ← h1] at h2; omega
            · rw [if_neg h4] at h2 h3
              rcases Nat.lt_or_gt_of_ne h4 with h5 | h5
              · have := hdisj c' e.1 h5 hv256
                rw [hlen c'] at this
                rw [← h1] at h3; omega
              · have := hdisj e.1 c' h5 hc'
                rw [hlen e.1] at this
                simp at this
                rw [← h1] at h2; omega
          rw [hU _ hout, rd_setIfInBounds]
          have h6 : rd bk e.1 = C c + 0 := by rw [hC e.1 hv256, h1]; rfl
          rw [if_pos ⟨h6, hpos⟩]
          rfl
        | succ k =>
          simp only [h1, ite_true] at hk
          have := hD c hc k (by omega)
          simp only [C'] at this
          rw [if_pos h1.symm, h1] at this
          simp only [List.getD_cons_succ]
          rw [← this]; congr 1; omega
      · have hb : ebucket (e :: es) c = ebucket es c := by
          simp [ebucket, bucket, List.filter_cons, h1]
        rw [hb]
        simp only [h1, ite_false, Nat.add_zero] at hk
        have := hD c hc k hk
        simp only [C'] at this
        rw [if_neg (fun x => h1 x.symm)] at this
        exact this
    · intro j hj
      have hout : ∀ c', c' < 256 → ¬ (C' c' ≤ j ∧ j < C' c' + (ebucket es c').length) := by
        intro c' hc' ⟨h2, h3⟩
        apply hj c' hc'
        rw [hlen c']
        simp only [C'] at h2 h3
        by_cases h4 : c' = e.1
        · rw [if_pos h4] at h2 h3
          subst h4; simp; omega
        · rw [if_neg h4] at h2 h3
          have h4' : ¬ e.1 = c' := fun x => h4 x.symm
          simp [h4']; omega
      rw [hU j hout, rd_setIfInBounds]
      have : ¬ (rd bk e.1 = j) := by
        intro hh
        apply hj e.1 hv256
        rw [hlen e.1, ← hC e.1 hv256, hh]
        simp
      simp [this]

end Kanzi.BWT
