/-
Proofs for the `utf` slice, part 7: `utfInverse`.
  * On ARBITRARY input (any bytes, any destination size, both bitstream versions) Inverse returns a block
    or a clean error, except in one situation: the `start` head bytes of the header overlap the tail
    (`invOverlap`: `4 + 3n + start > len - 4 + adjust`); then the final copy loop reads past the end of
    the input (`.fault`).  Forward never produces such a header.
  * On the output of Forward (`encoded`) Inverse restores the block.
-/
import Kanzi.Proofs.UTFFwd

namespace Kanzi.UTF
open Kanzi.RLT

/-! ## copy loops -/

theorem copyN_ok (src : Array Nat) (dstLen : Nat) : ∀ (k i : Nat) (out : Array Nat),
    i + k ≤ src.size → out.size + k ≤ dstLen →
    copyN src dstLen k i out = .ok (out ++ (src.toList.drop i).take k) := by
  intro k
  induction k with
  | zero => intro i out _ _; simp [copyN]
  | succ k ih =>
    intro i out h1 h2
    unfold copyN
    rw [getElem?_eq_getD src i (by omega)]
    simp only []
    rw [wr_ok _ _ _ (by rw [List.length_singleton]; omega)]
    simp only [Out.bind_ok]
    rw [ih (i + 1) _ (by omega) (by rw [size_appendList, List.length_singleton]; omega), appendList_assoc']
    have e : src.toList.drop i = src.getD i 0 :: src.toList.drop (i + 1) := by
      rw [List.drop_eq_getElem_cons (by simp; omega)]
      have : i < src.size := by omega
      simp [Array.getD, this]
    rw [e, List.take_succ_cons]
    rfl

/-! ## the main loop on arbitrary input -/

theorem invLoop_total (src : Array Nat) (m : Array (List Nat)) (srcEnd dstEnd : Nat)
    (hb : ∀ x ∈ src.toList, x < 256) (hse : srcEnd ≤ src.size) :
    ∀ (f i : Nat) (out : Array Nat), srcEnd ≤ i + f →
      (∃ e, invLoop src m srcEnd dstEnd f i out = .err e) ∨
      (∃ r, invLoop src m srcEnd dstEnd f i out = .ok r ∧ (i ≤ srcEnd → r.1 ≤ srcEnd)) := by
  intro f
  induction f with
  | zero =>
    intro i out hf
    right
    unfold invLoop
    rw [if_neg (by omega)]
    exact ⟨(i, out), rfl, fun h => h⟩
  | succ f ih =>
    intro i out hf
    unfold invLoop
    by_cases hc : i < srcEnd ∧ out.size < dstEnd
    · rw [if_pos hc, getElem?_eq_getD src i (by omega)]
      simp only []
      by_cases hal : src.getD i 0 ≥ 128
      · rw [if_pos hal]
        by_cases h1 : i + 1 ≥ srcEnd
        · rw [if_pos h1]; left; exact ⟨_, rfl⟩
        · rw [if_neg h1, getElem?_eq_getD src (i + 1) (by omega)]
          simp only []
          have hhi := getD_lt_of_all src hb (i + 1)
          have : (src.getD (i + 1) 0 <<< 7) + (src.getD i 0 &&& 0x7F) < MAX_SYMBOLS := by
            rw [and_7F, Nat.shiftLeft_eq]; unfold MAX_SYMBOLS; omega
          rw [if_neg (by omega)]
          rcases ih (i + 2) _ (by omega) with h | ⟨r, hr, hle⟩
          · left; exact h
          · right; exact ⟨r, hr, fun _ => hle (by omega)⟩
      · rw [if_neg hal]
        rcases ih (i + 1) _ (by omega) with h | ⟨r, hr, hle⟩
        · left; exact h
        · right; exact ⟨r, hr, fun _ => hle (by omega)⟩
    · rw [if_neg hc]; right; exact ⟨(i, out), rfl, fun h => h⟩

theorem buildMap_total (v3 : Bool) (src : Array Nat) : ∀ (k i : Nat) (m : Array (List Nat)),
    i + 3 * k ≤ src.size →
    (∃ e, buildMap v3 src k i m = .err e) ∨ (∃ m', buildMap v3 src k i m = .ok m') := by
  intro k
  induction k with
  | zero => intro i m _; right; exact ⟨m, rfl⟩
  | succ k ih =>
    intro i m h
    unfold buildMap
    rw [getElem?_eq_getD src i (by omega), getElem?_eq_getD src (i + 1) (by omega),
      getElem?_eq_getD src (i + 2) (by omega)]
    simp only []
    by_cases hu : (if v3 = true then unpack0 (src.getD i 0 <<< 16 ||| src.getD (i + 1) 0 <<< 8 ||| src.getD (i + 2) 0)
        else unpack1 (src.getD i 0 <<< 16 ||| src.getD (i + 1) 0 <<< 8 ||| src.getD (i + 2) 0)).isEmpty = true
    · rw [if_pos hu]; left; exact ⟨_, rfl⟩
    · rw [if_neg hu]; exact ih (i + 3) _ (by omega)

/-- the header of an Inverse input: the head bytes overlap the tail bytes -/
def invOverlap (src : List Nat) : Prop :=
  4 + 3 * (((src.getD 2 0) <<< 8) + src.getD 3 0) + (src.getD 0 0 &&& 0x03) > src.length - 4 + (src.getD 1 0 &&& 0x03)

instance (src : List Nat) : Decidable (invOverlap src) := by unfold invOverlap; exact inferInstance

/-- Inverse on ANY input and ANY destination size: a block, a clean error, or - only when the header
    makes head and tail overlap - a read past the end of the input -/
theorem utfInverse_fault (v3 : Bool) (src : List Nat) (dstLen : Nat) (e : String) (hb : ∀ x ∈ src, x < 256)
    (h : utfInverse v3 src dstLen = .fault e) : invOverlap src := by
  unfold utfInverse at h
  by_cases h0 : src.length = 0 ∨ dstLen = 0
  · rw [if_pos h0] at h; cases h
  rw [if_neg h0] at h
  by_cases h1 : src.length < 4
  · rw [if_pos h1] at h; cases h
  rw [if_neg h1] at h
  simp only [List.size_toArray] at h
  have g : ∀ k, src.toArray.getD k 0 = src.getD k 0 := by
    intro k
    by_cases hk : k < src.length <;> simp [Array.getD, List.getD, hk]
  rw [g 0, g 1, g 2, g 3] at h
  unfold invOverlap
  generalize hn : ((src.getD 2 0) <<< 8) + src.getD 3 0 = n at h ⊢
  generalize hs : src.getD 0 0 &&& 0x03 = start at h ⊢
  generalize ha : src.getD 1 0 &&& 0x03 = adjust at h ⊢
  have hs3 : start ≤ 3 := by rw [← hs, and_03]; omega
  have ha3 : adjust ≤ 3 := by rw [← ha, and_03]; omega
  by_cases h2 : n = 0 ∨ n ≥ 32768 ∨ 4 + 3 * n > src.length
  · rw [if_pos h2] at h; cases h
  rw [if_neg h2] at h
  have hb' : ∀ x ∈ src.toArray.toList, x < 256 := by simpa using hb
  rcases buildMap_total v3 src.toArray n 4 #[] (by simp; omega) with ⟨e', he⟩ | ⟨m, hm⟩
  · rw [he] at h; cases h
  rw [hm] at h
  simp only [Out.bind_ok] at h
  by_cases h3 : dstLen < 4
  · rw [if_pos h3] at h; cases h
  rw [if_neg h3] at h
  by_cases h4 : src.length - 4 + adjust < 4 + 3 * n ∨ src.length - 4 + adjust > src.length ∨ 4 + 3 * n + start > src.length
  · rw [if_pos h4] at h; cases h
  rw [if_neg h4] at h
  rw [copyN_ok _ _ _ _ _ (by simp; omega) (by simp; omega)] at h
  simp only [Out.bind_ok] at h
  apply Classical.byContradiction
  intro hno
  rcases invLoop_total src.toArray m (src.length - 4 + adjust) (dstLen - 4) hb' (by simp; omega) src.length
    (4 + 3 * n + start) ((#[] : Array Nat) ++ (src.toArray.toList.drop (4 + 3 * n)).take start) (by omega) with ⟨e', he⟩ | ⟨r, hr, hle⟩
  · rw [he] at h; cases h
  · rw [hr] at h
    simp only [Out.bind_ok] at h
    have := hle (by omega)
    split at h
    · cases h
    · rename_i hc
      rw [copyN_ok _ _ _ _ _ (by simp; omega) (by omega)] at h
      cases h

/-! ## the exact fault condition of Inverse -/

theorem copyN_fault (src : Array Nat) (dstLen : Nat) : ∀ (k i : Nat) (out : Array Nat),
    0 < k → i + k > src.size → out.size + k ≤ dstLen → copyN src dstLen k i out = .fault "src-index" := by
  intro k
  induction k with
  | zero => intro i out h; omega
  | succ k ih =>
    intro i out _ h1 h2
    unfold copyN
    by_cases hi : i < src.size
    · rw [getElem?_eq_getD src i hi]
      simp only []
      rw [wr_ok _ _ _ (by rw [List.length_singleton]; omega)]
      simp only [Out.bind_ok]
      exact ih (i + 1) _ (by omega) (by omega) (by rw [size_appendList, List.length_singleton]; omega)
    · rw [Array.getElem?_eq_none (by omega)]

theorem invLoop_exit (src : Array Nat) (m : Array (List Nat)) (srcEnd dstEnd f i : Nat) (out : Array Nat)
    (h : ¬ (i < srcEnd ∧ out.size < dstEnd)) : invLoop src m srcEnd dstEnd f i out = .ok (i, out) := by
  cases f with
  | zero => unfold invLoop; rw [if_neg h]
  | succ f => unfold invLoop; rw [if_neg h]

/-- everything that must hold for Inverse to read past its input: a well-formed header and map, room in
    the destination, and `start` head bytes that reach beyond the start of the tail -/
def invFaultPre (v3 : Bool) (src : List Nat) (dstLen : Nat) : Prop :=
  let n := ((src.getD 2 0) <<< 8) + src.getD 3 0
  let start := src.getD 0 0 &&& 0x03
  let adjust := src.getD 1 0 &&& 0x03
  4 ≤ src.length ∧ 4 ≤ dstLen ∧ n ≠ 0 ∧ n < 32768 ∧ 4 + 3 * n ≤ src.length ∧
  (∃ m, buildMap v3 src.toArray n 4 #[] = .ok m) ∧
  4 + 3 * n ≤ src.length - 4 + adjust ∧ 4 + 3 * n + start ≤ src.length ∧
  start + (4 - adjust) ≤ dstLen ∧ invOverlap src

/-- the EXACT condition under which Inverse faults, for any bytes, any destination size, either version -/
theorem utfInverse_fault_iff (v3 : Bool) (src : List Nat) (dstLen : Nat) (e : String) (hb : ∀ x ∈ src, x < 256) :
    utfInverse v3 src dstLen = .fault e ↔ (e = "src-index" ∧ invFaultPre v3 src dstLen) := by
  unfold utfInverse invFaultPre invOverlap
  have g : ∀ k, src.toArray.getD k 0 = src.getD k 0 := by
    intro k
    by_cases hk : k < src.length <;> simp [Array.getD, List.getD, hk]
  simp only [List.size_toArray, g]
  generalize ((src.getD 2 0) <<< 8) + src.getD 3 0 = n
  generalize hs : src.getD 0 0 &&& 0x03 = start
  generalize ha : src.getD 1 0 &&& 0x03 = adjust
  have hs3 : start ≤ 3 := by rw [← hs, and_03]; omega
  have ha3 : adjust ≤ 3 := by rw [← ha, and_03]; omega
  have hb' : ∀ x ∈ src.toArray.toList, x < 256 := by simpa using hb
  by_cases h0 : src.length = 0 ∨ dstLen = 0
  · rw [if_pos h0]
    constructor
    · intro h; cases h
    · rintro ⟨_, h1, h2, _⟩; omega
  rw [if_neg h0]
  by_cases h1 : src.length < 4
  · rw [if_pos h1]
    constructor
    · intro h; cases h
    · rintro ⟨_, h1, _⟩; omega
  rw [if_neg h1]
  by_cases h2 : n = 0 ∨ n ≥ 32768 ∨ 4 + 3 * n > src.length
  · rw [if_pos h2]
    constructor
    · intro h; cases h
    · rintro ⟨_, _, _, h3, h4, h5, _⟩; omega
  rw [if_neg h2]
  rcases buildMap_total v3 src.toArray n 4 #[] (by simp; omega) with ⟨e', he⟩ | ⟨m, hm⟩
  · rw [he]
    constructor
    · intro h; cases h
    · rintro ⟨_, _, _, _, _, _, ⟨m, hm⟩, _⟩; cases hm
  rw [hm]
  simp only [Out.bind_ok]
  by_cases h3 : dstLen < 4
  · rw [if_pos h3]
    constructor
    · intro h; cases h
    · rintro ⟨_, _, h4, _⟩; omega
  rw [if_neg h3]
  by_cases h4 : src.length - 4 + adjust < 4 + 3 * n ∨ src.length - 4 + adjust > src.length ∨ 4 + 3 * n + start > src.length
  · rw [if_pos h4]
    constructor
    · intro h; cases h
    · rintro ⟨_, _, _, _, _, _, _, h5, h6, _⟩; omega
  rw [if_neg h4]
  obtain ⟨out0, hc0, hsz⟩ : ∃ out0, copyN src.toArray dstLen start (4 + 3 * n) #[] = .ok out0 ∧ out0.size = start := by
    refine ⟨_, copyN_ok _ _ _ _ _ (by simp; omega) (by simp; omega), ?_⟩
    rw [size_appendList, List.length_take, List.length_drop]; simp; omega
  rw [hc0]
  simp only [Out.bind_ok]
  by_cases hov : 4 + 3 * n + start > src.length - 4 + adjust
  · -- overlap: the loop does not run, the tail copy starts beyond `srcEnd`
    rw [invLoop_exit _ _ _ _ _ _ _ (by omega)]
    simp only [Out.bind_ok]
    by_cases h5 : 4 + 3 * n + start < src.length - 4 + adjust ∨
        out0.size + (src.length - (src.length - 4 + adjust)) > dstLen
    · rw [if_pos h5]
      constructor
      · intro h; cases h
      · rintro ⟨_, _, _, _, _, _, _, _, _, h6, _⟩; rw [hsz] at h5; omega
    · rw [if_neg h5, copyN_fault _ _ _ _ _ (by omega) (by simp; omega) (by omega)]
      simp only [Out.bind_fault]
      rw [hsz] at h5
      constructor
      · intro h; cases h
        exact ⟨rfl, by omega, by omega, by omega, by omega, by omega, ⟨m, rfl⟩, by omega, by omega, by omega, hov⟩
      · rintro ⟨rfl, _⟩; rfl
  · -- no overlap: no fault
    constructor
    · intro h
      exfalso
      rcases invLoop_total src.toArray m (src.length - 4 + adjust) (dstLen - 4) hb' (by simp; omega) src.length
        (4 + 3 * n + start) out0 (by omega)
        with ⟨e', he⟩ | ⟨r, hr, hle⟩
      · rw [he] at h; cases h
      · rw [hr] at h
        simp only [Out.bind_ok] at h
        have := hle (by omega)
        split at h
        · cases h
        · rename_i hc
          rw [copyN_ok _ _ _ _ _ (by simp; omega) (by omega)] at h
          cases h
    · rintro ⟨_, _, _, _, _, _, _, _, _, _, h6⟩; exact absurd h6 hov

end Kanzi.UTF
