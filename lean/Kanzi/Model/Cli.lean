/-
Model of one file task of the command-line tool (`app.fileCompressTask.call`,
`app.fileDecompressTask.call`, `app.openOutputFile`) at the level of its file-system effects.
Core Lean only.  A file system is a function `Path → Option Content`; the content of a file is the
list of the chunks written to it.  A task is a list of effects; a crash (SIGKILL) keeps a prefix.
Not modelled: kernel durability (no fsync), the directory walker, argument parsing, stdin/stdout.
-/
namespace Kanzi.Cli

abbrev Path := String
abbrev Content := List Nat
abbrev FS := Path → Option Content

/-- the two paths a task knows: its source and its destination -/
inductive Tgt | inp | out
  deriving DecidableEq, Repr

/-- file-system effects, as projected from `strace -e openat,write,close,unlink,unlinkat,rename` -/
inductive Effect
  | openRd (t : Tgt)                 -- o:<t>:ro     openat(O_RDONLY)
  | openWr (t : Tgt) (excl : Bool)   -- o:<t>:excl | o:<t>:trunc   (O_CREAT|O_EXCL / O_CREAT|O_TRUNC)
  | write (t : Tgt) (chunk : Nat)    -- w:<t>[:n]
  | close (t : Tgt)                  -- c:<t>
  | unlink (t : Tgt)                 -- u:<t>        (also the source of a rename)
  deriving DecidableEq, Repr

structure St where
  fs : FS
  outOpen : Bool

def upd (fs : FS) (p : Path) (v : Option Content) : FS := fun q => if q = p then v else fs q

def tpath (i o : Path) : Tgt → Path
  | .inp => i
  | .out => o

/-- effect semantics (a successful `openWr` leaves an empty file, whatever was there: worst case) -/
def step (i o : Path) (s : St) : Effect → St
  | .openRd _ => s
  | .openWr t _ => { fs := upd s.fs (tpath i o t) (some []), outOpen := if t = .out then true else s.outOpen }
  | .write t c => { s with fs := upd s.fs (tpath i o t) (some (((s.fs (tpath i o t)).getD []) ++ [c])) }
  | .close t => if t = .out then { s with outOpen := false } else s
  | .unlink t => { s with fs := upd s.fs (tpath i o t) none }

def exec (i o : Path) (s : St) (es : List Effect) : St := es.foldl (step i o) s

/-- one task of the tool -/
structure Task where
  inp : Path
  out : Path
  force : Bool
  remove : Bool
  chunks : List Nat

/-- `openOutputFile` + `fileCompressTask.call`: without `force` the output is created with O_EXCL
(fails, with no effect, when the path exists); with `force` a destination that is the same file as
the source is refused before O_TRUNC.  Then: writes, close of the output, and only with `--rm`
close of the source and its removal. -/
def Task.trace (t : Task) (fs : FS) : List Effect :=
  if (!t.force && (fs t.out).isSome) || (t.force && t.out == t.inp) then []
  else [.openWr .out (!t.force), .openRd .inp] ++ t.chunks.map (.write .out) ++ [.close .out]
        ++ (if t.remove then [.close .inp, .unlink .inp] else [])

/-- phases of the acceptor -/
inductive Ph | start | opened | closed | removed
  deriving DecidableEq, Repr

/-- the order accepted for a task: open(out) · (write(out) | open-ro(in) | close(in))* · close(out) ·
close(in)* · [unlink(in)] and nothing after; nothing ever writes to, truncates or creates the source,
nothing removes the output. -/
def accStep : Ph → Effect → Option Ph
  | .start, .openRd .inp => some .start
  | .start, .openWr .out _ => some .opened
  | .opened, .openRd .inp => some .opened
  | .opened, .write .out _ => some .opened
  | .opened, .close .inp => some .opened
  | .opened, .close .out => some .closed
  | .closed, .close .inp => some .closed
  | .closed, .unlink .inp => some .removed
  | _, _ => none

/-- index of the first rejected effect, or `none` when the whole trace is accepted -/
def accRun : Ph → Nat → List Effect → Option Nat
  | _, _, [] => none
  | ph, k, e :: es =>
    match accStep ph e with
    | some ph' => accRun ph' (k + 1) es
    | none => some k

def cliAccepts (es : List Effect) : Bool := (accRun .start 0 es).isNone

end Kanzi.Cli
