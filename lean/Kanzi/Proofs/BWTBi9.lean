/-
inverseBiPSIv2, part 9: THE TWO-STEP LF FACT.  On the spec output of `s`, with the tables of part 5:
for every position `j` with `j + 2 <= n`, the row of suffix `j` lies in the bucket range of its bigram
and `data[row of j] = row of suffix j+2`.
-/
import Kanzi.Proofs.BWTBi8
import Kanzi.Proofs.BWTBlock

namespace Kanzi.BWT

variable (s : List Nat)

/-- sort key of a suffix by its first two symbols; the suffix of length one sorts in front -/
def key2 (j : Nat) : Nat := s.getD j 0 * 257 + (if j + 1 < s.length then s.getD (j + 1) 0 + 1 else 0)

/-- `key2` value of the bigram with flat key `kk` -/
def K2 (kk : Nat) : Nat := (kk / 256) * 257 + kk % 256 + 1

theorem getD_lt (hb : ∀ x ∈ s, x < 256) (j : Nat) : s.getD j 0 < 256 := by
  rw [List.getD_eq_getElem?_getD]
  cases h : s[j]? with
  | none => simp
  | some v => exact hb v (List.mem_of_getElem? h)

theorem big_lt (hb : ∀ x ∈ s, x < 256) (j : Nat) : big s j < 65536 := by
  have h1 := getD_lt s hb j
  have h2 := getD_lt s hb (j + 1)
  unfold big flat; omega

theorem sa_sorted_key2 (hb : ∀ x ∈ s, x < 256) : (sa s).Pairwise (fun a b => key2 s a ≤ key2 s b) := by
  have h := List.Pairwise.and_mem.1 (sa_sorted s)
  refine h.imp ?_
  intro a b ⟨ha, hb', hlt⟩
  have ha' := mem_sa.1 ha
  have hb'' := mem_sa.1 hb'
  rw [suf_getD_cons ha', suf_getD_cons hb''] at hlt
  have t1 := getD_lt s hb (a + 1)
  have t2 := getD_lt s hb (b + 1)
  unfold key2
  rcases List.cons_lt_cons_iff.1 hlt with h1 | ⟨h1, h2⟩
  · split <;> split <;> omega
  · rw [h1]
    by_cases ha1 : a + 1 < s.length
    · rw [suf_getD_cons ha1] at h2
      by_cases hb1 : b + 1 < s.length
      · rw [suf_getD_cons hb1] at h2
        rcases List.cons_lt_cons_iff.1 h2 with h3 | ⟨h3, _⟩
        · simp only [ha1, hb1, ite_true]; omega
        · simp only [ha1, hb1, ite_true]; omega
      · have : suf s (b + 1) = [] := by simp [suf]; omega
        rw [this] at h2
        exact absurd h2 (by simp)
    · simp only [ha1, ite_false]; omega

theorem key2_eq_iff (hb : ∀ x ∈ s, x < 256) (j kk : Nat) (hj : j < s.length) (hk : kk < 65536) :
    key2 s j = K2 kk ↔ (j + 2 ≤ s.length ∧ big s j = kk) := by
  have t1 := getD_lt s hb j
  have t2 := getD_lt s hb (j + 1)
  unfold key2 K2 big flat
  split <;> omega

theorem key2_lt_iff (hb : ∀ x ∈ s, x < 256) (j kk : Nat) (hj : j + 2 ≤ s.length) (hk : kk < 65536) :
    key2 s j < K2 kk ↔ big s j < kk := by
  have t1 := getD_lt s hb j
  have t2 := getD_lt s hb (j + 1)
  unfold key2 K2 big flat
  have : j + 1 < s.length := by omega
  simp only [this, ite_true]
  omega

/-! ### the entries on the spec output -/

theorem rowOf_inj (a b : Nat) (ha : a < s.length) (hb : b < s.length) (h : rowOf s a = rowOf s b) : a = b := by
  have h1 := sa_rowOf s a ha
  have h2 := sa_rowOf s b hb
  rw [h] at h1; rw [h1] at h2; exact h2

theorem rowOf_zero (hs : 1 ≤ s.length) : rowOf s 0 = zpos s + 1 := rfl

/-- the scattered entries, by the suffix of their row: bigram two positions back, row of the suffix -/
theorem entries2_spec (hs : 1 ≤ s.length) (hb : ∀ x ∈ s, x < 256) :
    entries2 (bwtData s).toArray (zpos s + 1)
      = ((rowsQ s).filter (fun q => 2 ≤ q)).map (fun q => (Tix (big s (q - 2)), rowS s q)) := by
  have hsize : (bwtData s).toArray.size = s.length := by simp [bwtData_length s hs]
  have hQ : (rowsQ s) = (List.range s.length).map (fun i => (rowsQ s).getD i 0) := by
    apply List.ext_getElem
    · simp [rowsQ_length s hs]
    · intro i h1 h2
      simp [List.getD_eq_getElem?_getD, h1]
  conv => rhs; rw [hQ]
  rw [List.filter_map, List.map_map, entries2, liveIdx, hsize]
  have hlive : ∀ i, i < s.length →
      (posOf (bwtData s).toArray i ≠ zpos s + 1 ↔ 2 ≤ (rowsQ s).getD i 0) := by
    intro i hi
    have hq := rowsQ_getD_mem s hs i hi
    rw [posOf_spec s hs i hi, ← rowOf_zero s hs]
    constructor
    · intro h
      refine Classical.byContradiction fun hlt => h ?_
      have : (rowsQ s).getD i 0 - 1 = 0 := by omega
      rw [this]
    · intro h e
      have := rowOf_inj s _ _ (by omega) (by omega) e
      omega
  have hfilter : (List.range s.length).filter (fun i => posOf (bwtData s).toArray i ≠ zpos s + 1)
      = (List.range s.length).filter ((fun q => decide (2 ≤ q)) ∘ fun i => (rowsQ s).getD i 0) := by
    apply List.filter_congr
    intro i hi
    have := hlive i (List.mem_range.1 hi)
    simp only [Function.comp]
    exact decide_eq_decide.2 this
  rw [hfilter]
  apply List.map_congr_left
  intro i hi
  obtain ⟨hi1, hi2⟩ := List.mem_filter.1 hi
  have hi' := List.mem_range.1 hi1
  have h2 : 2 ≤ (rowsQ s).getD i 0 := by simpa using hi2
  have hq := rowsQ_getD_mem s hs i hi'
  simp only [Function.comp]
  rw [rowOfIdx_spec s hs i hi']
  -- the key
  have hne : rowOf s ((rowsQ s).getD i 0 - 1) ≠ zpos s + 1 := by
    rw [← rowOf_zero s hs]
    intro e
    have := rowOf_inj s _ _ (by omega) (by omega) e
    omega
  have hr := rowOf_bounds s ((rowsQ s).getD i 0 - 1) (by omega)
  have hkey : keyOf (bwtData s).toArray (zpos s + 1) i = big s ((rowsQ s).getD i 0 - 2) := by
    unfold keyOf big
    rw [src_eq_prevSym s hs i hi', posOf_spec s hs i hi', Lrow_spec s hs _ hr.1 hr.2 hne, sa_rowOf s _ (by omega)]
    have e1 : (rowsQ s).getD i 0 - 1 - 1 = (rowsQ s).getD i 0 - 2 := by omega
    have e2 : (rowsQ s).getD i 0 - 2 + 1 = (rowsQ s).getD i 0 - 1 := by omega
    simp only [prevSym, e1, e2]
  rw [hkey]

/-! ### permutations -/

theorem filter_range_add2 (m : Nat) : (List.range (m + 1)).filter (fun j => j + 2 ≤ m + 1) = List.range m := by
  rw [List.range_succ, List.filter_append]
  have h1 : (List.range m).filter (fun j => decide (j + 2 ≤ m + 1)) = List.range m := by
    rw [List.filter_eq_self]
    intro j hj
    have := List.mem_range.1 hj
    simp; omega
  have h2 : [m].filter (fun j => decide (j + 2 ≤ m + 1)) = [] := by simp
  rw [h1, h2, List.append_nil]

/-- the suffixes two positions before the rows `q >= 2`, as a multiset, are the positions `j` with
`j + 2 <= n` -/
theorem rowsQ_pred2_perm (hs : 1 ≤ s.length) :
    (((rowsQ s).filter (fun q => 2 ≤ q)).map (· - 2)).Perm ((sa s).filter (fun j => j + 2 ≤ s.length)) := by
  obtain ⟨m, hm⟩ : ∃ m, s.length = m + 1 := ⟨s.length - 1, by omega⟩
  -- both are permutations of `range m`
  have h1 : ((sa s).filter (fun j => j + 2 ≤ s.length)).Perm (List.range m) := by
    have := (sa_perm s).filter (fun j => decide (j + 2 ≤ s.length))
    rw [hm] at this ⊢
    rw [filter_range_add2] at this
    exact this
  have h2 : (((rowsQ s).filter (fun q => 2 ≤ q)).map (· - 2)).Perm (List.range m) := by
    have p1 := ((rowsQ_pred_perm s hs).trans (sa_perm s)).filter (fun j => decide (1 ≤ j))
    rw [List.filter_map] at p1
    have p2 := p1.map (· - 1)
    rw [List.map_map] at p2
    have e1 : (rowsQ s).filter ((fun j => decide (1 ≤ j)) ∘ fun x => x - 1) = (rowsQ s).filter (fun q => 2 ≤ q) := by
      apply List.filter_congr
      intro q _
      simp only [Function.comp]
      by_cases h : 2 ≤ q
      · have : 1 ≤ q - 1 := by omega
        simp [h, this]
      · have : ¬ 1 ≤ q - 1 := by omega
        simp [h, this]
    rw [e1] at p2
    have e2 : ((List.range s.length).filter (fun j => decide (1 ≤ j))).map (· - 1) = List.range m := by
      rw [hm]
      have : (List.range (m + 1)).filter (fun j => decide (1 ≤ j)) = (List.range (m + 1)).filter (· ≠ 0) := by
        apply List.filter_congr
        intro j _
        by_cases h : j = 0
        · subst h; simp
        · have : 1 ≤ j := by omega
          simp [h, this]
      rw [this, filter_ne_zero_range, List.map_map]
      have : ((fun x => x - 1) ∘ Nat.succ) = id := by funext x; rfl
      rw [this, List.map_id]
    rw [e2] at p2
    have e3 : ((fun x => x - 1) ∘ fun x => x - 1) = (· - 2) := by funext x; simp only [Function.comp]; omega
    rw [e3] at p2
    exact p2
  exact h2.trans h1.symm

/-- THE TWO-STEP LF FACT: among the rows `q >= 2` whose bigram two positions back is `kk`, in row order,
the positions `q - 2` are exactly the positions with that bigram, in suffix array order. -/
theorem lf2_bucket (hs : 1 ≤ s.length) (hb : ∀ x ∈ s, x < 256) (kk : Nat) :
    ((rowsQ s).filter (fun q => 2 ≤ q ∧ big s (q - 2) = kk)).map (· - 2)
      = (sa s).filter (fun j => j + 2 ≤ s.length ∧ big s j = kk) := by
  have hperm : (((rowsQ s).filter (fun q => 2 ≤ q ∧ big s (q - 2) = kk)).map (· - 2)).Perm
      ((sa s).filter (fun j => j + 2 ≤ s.length ∧ big s j = kk)) := by
    have p := (rowsQ_pred2_perm s hs).filter (fun j => decide (big s j = kk))
    rw [List.filter_map, List.filter_filter, List.filter_filter] at p
    have e1 : (rowsQ s).filter (fun a => ((fun j => decide (big s j = kk)) ∘ fun x => x - 2) a && decide (2 ≤ a))
        = (rowsQ s).filter (fun q => decide (2 ≤ q ∧ big s (q - 2) = kk)) := by
      apply List.filter_congr
      intro q _
      simp only [Function.comp]
      by_cases h1 : 2 ≤ q <;> by_cases h2 : big s (q - 2) = kk <;> simp [h1, h2]
    have e2 : (sa s).filter (fun a => decide (big s a = kk) && decide (a + 2 ≤ s.length))
        = (sa s).filter (fun j => decide (j + 2 ≤ s.length ∧ big s j = kk)) := by
      apply List.filter_congr
      intro j _
      by_cases h1 : j + 2 ≤ s.length <;> by_cases h2 : big s j = kk <;> simp [h1, h2]
    rw [e1, e2] at p
    exact p
  refine List.Perm.eq_of_pairwise (le := fun i j => suf s i < suf s j) ?_ ?_ ?_ hperm
  · intro a b _ _ hab hba
    exact absurd hba (List.lt_asymm hab)
  · rw [List.pairwise_map]
    have h := List.Pairwise.and_mem.1 ((rowsQ_sorted s).filter (fun q => decide (2 ≤ q ∧ big s (q - 2) = kk)))
    refine h.imp ?_
    intro a b ⟨ha, hb', hlt⟩
    have ha' := List.mem_filter.1 ha
    have hb'' := List.mem_filter.1 hb'
    have ha1 := (mem_rowsQ hs).1 ha'.1
    have hb1 := (mem_rowsQ hs).1 hb''.1
    have hak : 2 ≤ a ∧ big s (a - 2) = kk := by simpa using ha'.2
    have hbk : 2 ≤ b ∧ big s (b - 2) = kk := by simpa using hb''.2
    have hsame := hak.2.trans hbk.2.symm
    unfold big at hsame
    have hinj := (flat_inj (x := s.getD (a - 2) 0) (x' := s.getD (b - 2) 0)
      (getD_lt s hb (a - 2 + 1)) (getD_lt s hb (b - 2 + 1))).1 hsame
    rw [suf_getD_cons (i := a - 2) (by omega), suf_getD_cons (i := b - 2) (by omega),
      suf_getD_cons (i := a - 2 + 1) (by omega), suf_getD_cons (i := b - 2 + 1) (by omega), hinj.1, hinj.2]
    have e1 : a - 2 + 1 + 1 = a := by omega
    have e2 : b - 2 + 1 + 1 = b := by omega
    rw [e1, e2]
    exact List.cons_lt_cons_iff.2 (Or.inr ⟨rfl, List.cons_lt_cons_iff.2 (Or.inr ⟨rfl, hlt⟩)⟩)
  · exact (sa_sorted s).filter _

/-! ### bucket ranges of the bigrams in the suffix array -/

theorem bucket_key2 (hb : ∀ x ∈ s, x < 256) (kk : Nat) (hk : kk < 65536) :
    bucket (key2 s) (sa s) (K2 kk) = (sa s).filter (fun j => j + 2 ≤ s.length ∧ big s j = kk) := by
  unfold bucket
  apply List.filter_congr
  intro j hj
  exact decide_eq_decide.2 (key2_eq_iff s hb j kk (mem_sa.1 hj) hk)

/-- the bucket of the scattered entries with the index of bigram `kk` -/
theorem ebucket_spec (hs : 1 ≤ s.length) (hb : ∀ x ∈ s, x < 256) (kk : Nat) (hk : kk < 65536) :
    ebucket (entries2 (bwtData s).toArray (zpos s + 1)) (Tix kk)
      = ((rowsQ s).filter (fun q => 2 ≤ q ∧ big s (q - 2) = kk)).map (fun q => (Tix (big s (q - 2)), rowS s q)) := by
  rw [entries2_spec s hs hb]
  simp only [ebucket, bucket, List.filter_map, List.filter_filter]
  congr 1
  apply List.filter_congr
  intro q _
  simp only [Function.comp]
  have hbl := big_lt s hb (q - 2)
  by_cases h1 : 2 ≤ q <;> by_cases h2 : big s (q - 2) = kk
  · simp [h1, h2]
  · have : ¬ Tix (big s (q - 2)) = Tix kk := fun e => h2 (Tix_inj _ _ hbl hk e)
    simp [h1, h2, this]
  · simp [h1]
  · simp [h1]

theorem cntK_spec (hs : 1 ≤ s.length) (hb : ∀ x ∈ s, x < 256) (kk : Nat) (hk : kk < 65536) :
    cntK (bwtData s).toArray (zpos s + 1) kk = (bucket (key2 s) (sa s) (K2 kk)).length := by
  have hbsrc : ∀ b ∈ (bwtData s).toArray.toList, b < 256 := by
    simp only [List.toList_toArray]; exact bwtData_lt s hb
  have h1 := ebucket_entries2 (bwtData s).toArray hbsrc (zpos s + 1) (Tix kk) (Tix_lt kk hk)
  rw [Tix_Tix kk hk] at h1
  rw [← h1, ebucket_spec s hs hb kk hk, List.length_map, bucket_key2 s hb kk hk, ← lf2_bucket s hs hb kk,
    List.length_map]

theorem length_filter_split {α : Type} (l : List α) (p q : α → Bool) :
    (l.filter p).length = (l.filter (fun x => p x && q x)).length + (l.filter (fun x => p x && !q x)).length := by
  induction l with
  | nil => rfl
  | cons x xs ih =>
    simp only [List.filter_cons]
    cases hp : p x <;> cases hq : q x <;> simp [ih] <;> omega

theorem length_filter_eq_one (L : List Nat) (hn : L.Nodup) (a : Nat) (ha : a ∈ L) :
    (L.filter (fun x => x == a)).length = 1 := by
  rw [← List.count_eq_length_filter, hn.count, if_pos ha]

/-- the bigram starts computed by the second loop are the bucket starts of the suffix array -/
theorem below_key2 (hs : 2 ≤ s.length) (hb : ∀ x ∈ s, x < 256) (kk : Nat) (hk : kk < 65536) :
    below (key2 s) (sa s) (K2 kk) + 1 = startK (bwtData s).toArray (zpos s + 1) kk := by
  have hs1 : 1 ≤ s.length := by omega
  have hbsrc : ∀ b ∈ (bwtData s).toArray.toList, b < 256 := by
    simp only [List.toList_toArray]; exact bwtData_lt s hb
  -- the number of entries below kk
  have hps : psum (cntK (bwtData s).toArray (zpos s + 1)) kk
      = ((sa s).filter (fun j => j + 2 ≤ s.length ∧ big s j < kk)).length := by
    rw [psum_cntK _ hbsrc _ kk (by omega)]
    have hkeys : (liveIdx (bwtData s).toArray (zpos s + 1)).map (keyOf (bwtData s).toArray (zpos s + 1))
        = (((rowsQ s).filter (fun q => 2 ≤ q)).map (· - 2)).map (big s) := by
      have e := congrArg (List.map (fun e : Nat × Nat => Tix e.1)) (entries2_spec s hs1 hb)
      simp only [entries2, List.map_map] at e
      rw [List.map_map]
      refine Eq.trans ?_ (e.trans ?_)
      · apply List.map_congr_left
        intro j _
        simp only [Function.comp]
        rw [Tix_Tix _ (keyOf_lt _ hbsrc _ j)]
      · apply List.map_congr_left
        intro q _
        simp only [Function.comp]
        rw [Tix_Tix _ (big_lt s hb _)]
    rw [hkeys, List.filter_map, List.length_map]
    have p := (rowsQ_pred2_perm s hs1).filter ((fun k => decide (k < kk)) ∘ big s)
    rw [p.length_eq, List.filter_filter]
    congr 1
    apply List.filter_congr
    intro j _
    simp only [Function.comp]
    by_cases h1 : j + 2 ≤ s.length <;> by_cases h2 : big s j < kk <;> simp [h1, h2]
  have hlast : rd (bwtData s).toArray 0 = s.getD (s.length - 1) 0 := by
    rw [src_eq_prevSym s hs1 0 (by omega)]
    simp [rowsQ, prevSym]
  unfold startK sumAt below
  rw [hps, hlast]
  rw [length_filter_split ((sa s)) (fun j => decide (key2 s j < K2 kk)) (fun j => decide (j + 2 ≤ s.length))]
  have h1 : (sa s).filter (fun x => decide (key2 s x < K2 kk) && decide (x + 2 ≤ s.length))
      = (sa s).filter (fun j => decide (j + 2 ≤ s.length ∧ big s j < kk)) := by
    apply List.filter_congr
    intro j _
    by_cases hj : j + 2 ≤ s.length
    · have := key2_lt_iff s hb j kk hj hk
      by_cases h2 : big s j < kk
      · simp [hj, h2, this.2 h2]
      · have : ¬ key2 s j < K2 kk := fun hh => h2 (this.1 hh)
        simp [hj, h2, this]
    · simp [hj]
  have h2 : ((sa s).filter (fun x => decide (key2 s x < K2 kk) && !decide (x + 2 ≤ s.length))).length
      = if s.getD (s.length - 1) 0 ≤ kk / 256 then 1 else 0 := by
    have t1 := getD_lt s hb (s.length - 1)
    by_cases hle : s.getD (s.length - 1) 0 ≤ kk / 256
    · rw [if_pos hle, ← length_filter_eq_one (sa s) (sa_nodup s) (s.length - 1) (mem_sa.2 (by omega))]
      congr 1
      apply List.filter_congr
      intro j hj
      have hj' := mem_sa.1 hj
      by_cases he : j = s.length - 1
      · subst he
        have hk2 : key2 s (s.length - 1) < K2 kk := by
          unfold key2 K2
          have : ¬ s.length - 1 + 1 < s.length := by omega
          simp only [this, ite_false]; omega
        have : ¬ s.length - 1 + 2 ≤ s.length := by omega
        simp [hk2, this]
      · have : j + 2 ≤ s.length := by omega
        simp [this, he]
    · rw [if_neg hle]
      rw [List.length_eq_zero_iff, List.filter_eq_nil_iff]
      intro j hj
      have hj' := mem_sa.1 hj
      by_cases he : j + 2 ≤ s.length
      · simp [he]
      · have hjn : j = s.length - 1 := by omega
        subst hjn
        have hk2 : ¬ key2 s (s.length - 1) < K2 kk := by
          unfold key2 K2
          have : ¬ s.length - 1 + 1 < s.length := by omega
          simp only [this, ite_false]; omega
        simp [hk2]
  rw [h1, h2]
  omega

/-! ### the two tables on the spec output -/

/-- TABLE 2.  With the tables of part 5 built from the spec output of `s`: the row of every suffix `j`
that has a bigram lies in the range of that bigram, and `data` sends it to the row of suffix `j + 2`. -/
theorem table2 (hs : 2 ≤ s.length) (hb : ∀ x ∈ s, x < 256) (data0 bk data : Array Nat)
    (htab : Tables (bwtData s).toArray (zpos s + 1) data0 bk data) (j : Nat) (hj : j + 2 ≤ s.length) :
    startK (bwtData s).toArray (zpos s + 1) (big s j) ≤ rowOf s j ∧
    rowOf s j < endK (bwtData s).toArray (zpos s + 1) (big s j) ∧
    rd data (rowOf s j) = rowS s (j + 2) := by
  have hs1 : 1 ≤ s.length := by omega
  have hk := big_lt s hb j
  generalize hkk : big s j = kk at hk
  have hB := bucket_key2 s hb kk hk
  have hjB : j ∈ bucket (key2 s) (sa s) (K2 kk) := by
    rw [hB, List.mem_filter]
    exact ⟨mem_sa.2 (by omega), by simpa using ⟨hj, hkk⟩⟩
  have hm : (bucket (key2 s) (sa s) (K2 kk)).idxOf j < (bucket (key2 s) (sa s) (K2 kk)).length :=
    List.idxOf_lt_length_iff.2 hjB
  generalize hmm : (bucket (key2 s) (sa s) (K2 kk)).idxOf j = m at hm
  have hBm : (bucket (key2 s) (sa s) (K2 kk))[m] = j := by
    subst hmm; exact List.getElem_idxOf hm
  -- position of j in the suffix array
  have hidx := bucket_idxOf (sa s) (key2 s) (sa_sorted_key2 s hb) (sa_nodup s) (K2 kk)
  have hpos : (sa s).idxOf j = below (key2 s) (sa s) (K2 kk) + m := by
    have e := congrArg (fun l => l.getD m 0) hidx
    simp only [List.getD_eq_getElem?_getD, List.getElem?_map, List.getElem?_eq_getElem hm, Option.map_some,
      Option.getD_some, hBm] at e
    rw [e, List.getElem?_eq_getElem (by simpa using hm), List.getElem_range']
    simp
  have hrow : rowOf s j = startK (bwtData s).toArray (zpos s + 1) kk + m := by
    unfold rowOf
    rw [hpos, ← below_key2 s hs hb kk hk]; omega
  have hcnt := cntK_spec s hs1 hb kk hk
  refine ⟨by omega, by unfold endK; omega, ?_⟩
  rw [hrow, htab.rows kk hk m (by omega), ebucket_spec s hs1 hb kk hk]
  -- the m-th row q of the bucket has q - 2 = j
  have hlf := lf2_bucket s hs1 hb kk
  rw [← hB] at hlf
  have hlen : m < ((rowsQ s).filter (fun q => 2 ≤ q ∧ big s (q - 2) = kk)).length := by
    have := congrArg List.length hlf
    rw [List.length_map] at this
    omega
  rw [getD_map_of_lt _ _ m hlen (0, 0) 0]
  simp only
  have hq : ((rowsQ s).filter (fun q => 2 ≤ q ∧ big s (q - 2) = kk)).getD m 0 - 2 = j := by
    have e := congrArg (fun l => l.getD m 0) hlf
    rw [getD_map_of_lt _ _ m hlen 0 0] at e
    rw [e, List.getD_eq_getElem?_getD, List.getElem?_eq_getElem hm, hBm]
    rfl
  have hq2 : 2 ≤ ((rowsQ s).filter (fun q => 2 ≤ q ∧ big s (q - 2) = kk)).getD m 0 := by
    rw [List.getD_eq_getElem?_getD, List.getElem?_eq_getElem hlen]
    have := (List.mem_filter.1 (List.getElem_mem hlen)).2
    simp only [Option.getD_some]
    exact (of_decide_eq_true this).1
  congr 1
  omega

end Kanzi.BWT
