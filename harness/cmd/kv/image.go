package main

// image: full-stream byte image correspondence for NONE/NONE (Lean: Kanzi.Block.streamImage /
// parseImage, driver `kmodel image`).
//
//   img  bs= ck= hint= j= sizes=n1,n2,..   the REAL Writer (NONE/NONE, jobs j, size hint) is fed the
//        position-coded data in Write calls of the given sizes and closed; output = hex of the sink.
//        Oracles: every Write/Close succeeds, GetWritten = sink length, the sink equals the image of
//        the INDEPENDENT builder (internal/container + real XXHash), and the independent parser
//        finds exactly the data in it.
//   imgr (same fields)  the image of the independent builder is fed to the REAL Reader (jobs j);
//        output = hex of that image, then " | r=<class>:<bytes>:<hash32>" of what the Reader returned.
//        Oracle: the Reader returns exactly the data, then io.EOF.
//   imgx (same fields) x=pos:byte,.. cut=n|-   bytes of the builder image are replaced (positions
//        inside the header are ignored) and the image is cut to n bytes (not below the header); the
//        REAL Reader (jobs 1) reads it to the end; output = "x=<class>:<bytes>:<hash32>" (bytes
//        delivered before the stop, error class by IOError code).  Oracle (C02): with a block
//        checksum the delivered bytes are a prefix of the original data.

import (
	"bytes"
	"encoding/hex"
	"fmt"
	"io"
	"math/rand"
	"strconv"
	"strings"
	"time"

	"kverif/internal/container"

	kanzi "github.com/flanglet/kanzi-go/v2"
	"github.com/flanglet/kanzi-go/v2/hash"
	kio "github.com/flanglet/kanzi-go/v2/io"
)

type imgSink struct{ data []byte }

func (s *imgSink) Write(p []byte) (int, error) { s.data = append(s.data, p...); return len(p), nil }
func (s *imgSink) Close() error                { return nil }

type imgOp struct {
	kind    string
	bs, ck  int
	j       int
	hint    int64
	sizes   []int
	total   int
	patches [][2]int
	cut     int // -1 = none
}

func parseImgOp(op string) (*imgOp, bool) {
	f := strings.Fields(op)
	if len(f) == 0 {
		return nil, false
	}
	o := &imgOp{kind: f[0], bs: 1024, j: 1, cut: -1}
	for _, w := range f[1:] {
		i := strings.IndexByte(w, '=')
		if i <= 0 {
			continue
		}
		k, v := w[:i], w[i+1:]
		switch k {
		case "bs":
			o.bs, _ = strconv.Atoi(v)
		case "ck":
			o.ck, _ = strconv.Atoi(v)
		case "j":
			o.j, _ = strconv.Atoi(v)
		case "hint":
			o.hint, _ = strconv.ParseInt(v, 10, 64)
		case "sizes":
			for _, x := range strings.Split(v, ",") {
				if x == "" {
					continue
				}
				if n, err := strconv.Atoi(x); err == nil {
					o.sizes = append(o.sizes, n)
					o.total += n
				}
			}
		case "x":
			for _, x := range strings.Split(v, ",") {
				pv := strings.Split(x, ":")
				if len(pv) != 2 {
					continue
				}
				p, e1 := strconv.Atoi(pv[0])
				b, e2 := strconv.Atoi(pv[1])
				if e1 == nil && e2 == nil {
					o.patches = append(o.patches, [2]int{p, b % 256})
				}
			}
		case "cut":
			if n, err := strconv.Atoi(v); err == nil {
				o.cut = n
			}
		}
	}
	return o, o.kind == "img" || o.kind == "imgr" || o.kind == "imgx"
}

func imgCks(ck int) uint {
	switch ck {
	case 32:
		return 1
	case 64:
		return 2
	}
	return 0
}

// imgBuild: the stream image by the independent builder; returns the image and the header length in bytes
func imgBuild(bs, ck int, hint int64, data []byte) ([]byte, int) {
	w := &container.BitWriter{}
	cks := imgCks(ck)
	h := &container.Header{Version: 6, CkSize: cks, EntropyType: 0, Transform: 0, BlockSize: uint(bs)}
	u := uint64(hint)
	switch {
	case hint <= 0 || u >= 1<<48:
		h.SzMask = 0
	case u >= 1<<32:
		h.SzMask = 3
	case u >= 1<<16:
		h.SzMask = 2
	default:
		h.SzMask = 1
	}
	if h.SzMask > 0 {
		h.OrigSize = u
	}
	h.Write(w)
	hdrLen := int(w.Len() / 8)
	h32, _ := hash.NewXXHash32(0x4B414E5A)
	h64, _ := hash.NewXXHash64(0x4B414E5A)
	for off := 0; off < len(data); off += bs {
		blk := data[off:min(off+bs, len(data))]
		sum := uint64(0)
		if cks == 1 {
			sum = uint64(h32.Hash(blk))
		} else if cks == 2 {
			sum = h64.Hash(blk)
		}
		p, nb := container.BuildNoneBlock(blk, cks, sum)
		container.WriteFrame(w, p, nb)
	}
	container.WriteEndMarker(w)
	return w.Bytes(), hdrLen
}

func imgErrClass(err error) string {
	if err == nil {
		return "ok"
	}
	if err == io.EOF {
		return "ok"
	}
	if e, ok := err.(*kio.IOError); ok {
		switch e.ErrorCode() {
		case kanzi.ERR_BLOCK_SIZE:
			return "size"
		case kanzi.ERR_CRC_CHECK:
			return "crc"
		case kanzi.ERR_PROCESS_BLOCK:
			return "process"
		}
		return fmt.Sprintf("code%d", e.ErrorCode())
	}
	return "other"
}

// imgReadAll reads the stream with the real Reader until io.EOF or an error
func imgReadAll(stream []byte, jobs int, res *Result) (got []byte, cls string) {
	defer func() {
		if p := recover(); p != nil {
			cls = "panic"
			res.Violation = &Violation{Kind: "input", Site: "io.Reader.Read", Symptom: "panic", What: fmt.Sprint(p)}
		}
	}()
	r, err := kio.NewReader(io.NopCloser(bytes.NewReader(stream)), uint(jobs))
	if err != nil {
		return nil, "ctor-error"
	}
	defer r.Close()
	buf := make([]byte, 3000)
	for {
		n, err := r.Read(buf)
		got = append(got, buf[:n]...)
		if err != nil {
			return got, imgErrClass(err)
		}
		if n == 0 {
			return got, "stall"
		}
	}
}

func imageExec(op string, res *Result) string {
	o, ok := parseImgOp(op)
	if !ok || o.bs < 1024 || o.total > 1<<24 {
		return "bad-op"
	}
	data := patRange(0, o.total)
	built, hdrLen := imgBuild(o.bs, o.ck, o.hint, data)
	nblocks := (o.total + o.bs - 1) / o.bs
	res.Tags = append(res.Tags, "op:"+o.kind, fmt.Sprintf("ck:%d", o.ck), fmt.Sprintf("j:%d", o.j), fmt.Sprintf("bs:%d", o.bs),
		fmt.Sprintf("hdr:%d", hdrLen), "blocks:"+bucket(nblocks))
	if o.total > 0 {
		last := o.total - (nblocks-1)*o.bs
		switch {
		case last <= 15:
			res.Tags = append(res.Tags, "last:copy")
		case last < 256:
			res.Tags = append(res.Tags, "last:len1")
		case last < 65536:
			res.Tags = append(res.Tags, "last:len2")
		default:
			res.Tags = append(res.Tags, "last:len3")
		}
	}
	res.Sample = map[string]any{"scenario": op[:min(len(op), 300)]}
	switch o.kind {
	case "img":
		sink := &imgSink{}
		var out string
		func() {
			defer func() {
				if p := recover(); p != nil {
					out = "panic"
					res.Violation = &Violation{Kind: "input", Site: "io.Writer.Write", Symptom: "panic", What: fmt.Sprint(p)}
				}
			}()
			w, err := kio.NewWriter(sink, "NONE", "NONE", uint(o.bs), uint(o.j), uint(o.ck), o.hint, false)
			if err != nil {
				out = "ctor-error"
				return
			}
			off := 0
			for _, n := range o.sizes {
				k, err := w.Write(data[off : off+n])
				if err != nil || k != n {
					out = "err:write"
					res.Violation = &Violation{Kind: "input", Site: "io.Writer.Write", Symptom: "healthy-write-failed", What: fmt.Sprintf("Write(%d) = (%d, %v)", n, k, err)}
					return
				}
				off += n
			}
			if err := w.Close(); err != nil {
				out = "err:close"
				res.Violation = &Violation{Kind: "input", Site: "io.Writer.Close", Symptom: "healthy-close-failed", What: err.Error()}
				return
			}
			if g := w.GetWritten(); g != uint64(len(sink.data)) {
				res.Violation = &Violation{Kind: "input", Site: "io.Writer.GetWritten", Symptom: "counter-mismatch", What: fmt.Sprintf("GetWritten=%d, sink has %d bytes", g, len(sink.data))}
			}
			out = hex.EncodeToString(sink.data)
		}()
		if res.Violation == nil && out != "ctor-error" {
			if !bytes.Equal(sink.data, built) {
				d := 0
				for d < len(built) && d < len(sink.data) && built[d] == sink.data[d] {
					d++
				}
				res.Violation = &Violation{Kind: "input", Site: "io.encodingTask.encode", Symptom: "image-differs-from-format",
					What: fmt.Sprintf("the Writer produced %d bytes, the independent builder %d; first difference at byte %d", len(sink.data), len(built), d)}
			} else if plain, err := imgIndependentDecode(sink.data, o.ck); err != nil || !bytes.Equal(plain, data) {
				res.Violation = &Violation{Kind: "input", Site: "io.Writer", Symptom: "data-loss", What: fmt.Sprintf("independent parser: err=%v, %d bytes found, %d written", err, len(plain), len(data))}
			}
		}
		res.Nontrivial = o.total > 0
		return out
	case "imgr":
		got, cls := imgReadAll(built, o.j, res)
		if res.Violation == nil && (cls != "ok" || !bytes.Equal(got, data)) {
			res.Violation = &Violation{Kind: "input", Site: "io.Reader.Read", Symptom: "valid-stream-not-decoded",
				What: fmt.Sprintf("Reader (jobs %d) returned %d bytes (hash %d), class %s; expected %d bytes (hash %d)", o.j, len(got), hash32(got), cls, len(data), hash32(data))}
		}
		res.Nontrivial = o.total > 0
		return hex.EncodeToString(built) + fmt.Sprintf(" | r=%s:%d:%d", cls, len(got), hash32(got))
	default: // imgx
		img := append([]byte(nil), built...)
		for _, pv := range o.patches {
			if pv[0] >= hdrLen && pv[0] < len(img) {
				img[pv[0]] = byte(pv[1])
			}
		}
		if o.cut >= 0 {
			c := max(o.cut, hdrLen)
			if c < len(img) {
				img = img[:c]
			}
		}
		changed := !bytes.Equal(img, built)
		got, cls := imgReadAll(img, 1, res)
		if res.Violation == nil {
			if o.ck != 0 && !bytes.HasPrefix(data, got) {
				res.Violation = &Violation{Kind: "input", Site: "io.Reader.Read", Symptom: "wrong-bytes-despite-checksum",
					What: fmt.Sprintf("checksum %d: the Reader returned %d bytes (class %s) that are not a prefix of the original data", o.ck, len(got), cls)}
			}
			if !changed && (cls != "ok" || !bytes.Equal(got, data)) {
				res.Violation = &Violation{Kind: "input", Site: "io.Reader.Read", Symptom: "valid-stream-not-decoded", What: "unchanged image, class " + cls}
			}
		}
		res.Tags = append(res.Tags, "x:"+cls, fmt.Sprintf("changed:%v", changed))
		res.Nontrivial = changed
		return fmt.Sprintf("x=%s:%d:%d", cls, len(got), hash32(got))
	}
}

func bucket(n int) string {
	switch {
	case n == 0:
		return "0"
	case n == 1:
		return "1"
	case n <= 3:
		return "2-3"
	}
	return "4+"
}

// imgIndependentDecode: plain data found in a stream by the independent parser, checksums verified
// with the real hash
func imgIndependentDecode(stream []byte, ck int) ([]byte, error) {
	st, err := container.Parse(stream, false)
	if err != nil {
		return nil, err
	}
	if !st.Complete {
		return nil, fmt.Errorf("no end marker")
	}
	cks := imgCks(ck)
	h32, _ := hash.NewXXHash32(0x4B414E5A)
	h64, _ := hash.NewXXHash64(0x4B414E5A)
	var plain []byte
	for _, f := range st.Frames {
		if f.LenBits == 0 {
			continue
		}
		p, err := container.ParsePrologue(f.Payload, cks)
		if err != nil {
			return plain, err
		}
		raw := f.Payload[p.Bits/8:]
		if uint64(len(raw)) != p.PreLen {
			return plain, fmt.Errorf("payload of %d bytes, declared %d", len(raw), p.PreLen)
		}
		if cks == 1 && uint64(h32.Hash(raw)) != p.Checksum || cks == 2 && h64.Hash(raw) != p.Checksum {
			return plain, fmt.Errorf("checksum mismatch")
		}
		plain = append(plain, raw...)
	}
	return plain, nil
}

// ---- generator

func imgSplit(r *rand.Rand, total int) string {
	parts := 1 + r.Intn(4)
	var s []string
	left := total
	for i := 0; i < parts-1; i++ {
		n := 0
		if left > 0 && r.Intn(5) != 0 {
			n = r.Intn(left + 1)
		}
		s = append(s, strconv.Itoa(n))
		left -= n
	}
	s = append(s, strconv.Itoa(left))
	return strings.Join(s, ",")
}

func imgHint(r *rand.Rand, k, total int) int64 {
	switch k % 5 {
	case 1:
		return int64(total)
	case 2:
		return 65535
	case 3:
		return 65536
	case 4:
		return 1 << 32
	}
	return 0
}

// imgPatches: byte positions of interest in the builder image, found with the independent parser
func imgPatches(r *rand.Rand, bs, ck int, hint int64, total int) (string, string, string) {
	data := patRange(0, total)
	img, hdrLen := imgBuild(bs, ck, hint, data)
	st, err := container.Parse(img, false)
	if err != nil || len(st.Frames) == 0 {
		return fmt.Sprintf("%d:%d", hdrLen, r.Intn(256)), "-", "endmarker"
	}
	f := st.Frames[r.Intn(len(st.Frames))]
	flip := func(pos int) string {
		if pos >= len(img) {
			pos = len(img) - 1
		}
		nv := img[pos] ^ byte(1<<uint(r.Intn(8)))
		if r.Intn(4) == 0 {
			nv = byte(r.Intn(256))
		}
		return fmt.Sprintf("%d:%d", pos, nv)
	}
	pay := int(f.PayOff / 8)
	switch k := r.Intn(12); {
	case k == 0: // frame length field
		return flip(int(f.BitOff/8) + r.Intn(2)), "-", "framelen"
	case k == 1 && f.LenBits > 0: // mode byte
		return flip(pay + r.Intn(2)), "-", "mode"
	case k == 2 && f.LenBits > 0: // block length field
		return flip(pay + 1 + r.Intn(3)), "-", "blocklen"
	case k == 3 && f.LenBits > 0 && ck != 0: // checksum
		return flip(pay + 2 + r.Intn(ck/8+1)), "-", "checksum"
	case k <= 6 && f.LenBits > 0: // data
		return flip(pay + 3 + ck/8 + r.Intn(int(f.LenBits/8)+1)), "-", "data"
	case k == 7: // truncation
		return "", strconv.Itoa(hdrLen + r.Intn(len(img)-hdrLen+1)), "cut"
	case k == 8: // truncation inside the last two bytes
		return "", strconv.Itoa(len(img) - 1 - r.Intn(2)), "cut-end"
	case k == 9: // two patches
		return flip(hdrLen+r.Intn(len(img)-hdrLen)) + "," + flip(hdrLen+r.Intn(len(img)-hdrLen)), "-", "two"
	case k == 10: // make the length field of the block say more than the block size
		return fmt.Sprintf("%d:%d", pay+1, 255), "-", "blocklen-big"
	default:
		return flip(hdrLen + r.Intn(len(img)-hdrLen)), "-", "anywhere"
	}
}

func imageGen(r *rand.Rand, tier string, n int, emit func(op string, tags ...string)) {
	thorough := tier == "thorough"
	if n == 0 {
		n = 350
		if thorough {
			n = 8000
		}
	}
	cks := []int{0, 32, 64}
	k := 0
	// directed: every block size x boundary total x checksum, alternating Writer / Reader direction
	for _, bs := range []int{1024, 1040, 4096} {
		totals := []int{0, 1, 15, 16, 17, 255, 256, 257, bs - 1, bs, bs + 1, 2*bs + 5, 3 * bs, 20480}
		for _, total := range totals {
			for _, ck := range cks {
				j := 1 + k%4
				hint := imgHint(r, k, total)
				kinds := []string{"img", "imgr"}
				if !thorough && total > 2*bs+5 {
					kinds = kinds[k%2 : k%2+1]
				}
				for _, kind := range kinds {
					emit(fmt.Sprintf("%s bs=%d ck=%d hint=%d j=%d sizes=%s", kind, bs, ck, hint, j, imgSplit(r, total)), "family:directed-"+kind)
				}
				k++
			}
		}
	}
	// 3-byte length field (blocks of 64 KiB and more): few, the Lean side is slow on them
	big := []int{65535, 65536, 65537}
	if thorough {
		big = append(big, 70000, 131072, 131073+65536)
	}
	for i, total := range big {
		kind := []string{"img", "imgr"}[i%2]
		emit(fmt.Sprintf("%s bs=131072 ck=%d hint=%d j=%d sizes=%s", kind, cks[i%3], imgHint(r, i, total), 1+i%4, imgSplit(r, total)), "family:len3-"+kind)
	}
	// random
	for i := 0; i < n; i++ {
		bs := []int{1024, 1040, 4096}[r.Intn(3)]
		ck := cks[r.Intn(3)]
		total := 0
		switch r.Intn(8) {
		case 0:
			total = r.Intn(40)
		case 1:
			total = r.Intn(600)
		case 2:
			total = bs*(1+r.Intn(3)) + r.Intn(3) - 1
		case 3:
			total = r.Intn(20481)
		default:
			total = r.Intn(3*bs + 1)
		}
		hint := imgHint(r, r.Intn(5), total)
		j := 1 + r.Intn(4)
		switch x := r.Intn(10); {
		case x < 2:
			emit(fmt.Sprintf("img bs=%d ck=%d hint=%d j=%d sizes=%s", bs, ck, hint, j, imgSplit(r, total)), "family:random-img")
		case x < 4:
			emit(fmt.Sprintf("imgr bs=%d ck=%d hint=%d j=%d sizes=%s", bs, ck, hint, j, imgSplit(r, total)), "family:random-imgr")
		default:
			x, cut, fam := imgPatches(r, bs, ck, hint, total)
			emit(fmt.Sprintf("imgx bs=%d ck=%d hint=%d j=1 sizes=%d x=%s cut=%s", bs, ck, hint, total, x, cut), "family:imgx-"+fam)
		}
	}
}

func init() {
	registerStream(&Stream{
		Name:     "image",
		Watchdog: 120 * time.Second,
		Rule:     "NONE/NONE streams with position-coded data: block sizes 1024/1040/4096 (and 131072 for the 3-byte length field), totals 0,1,15,16,17,255,256,257,B-1,B,B+1,2B+5,3B,20480 and random <= 20 KiB, checksum 0/32/64, size hint 0/exact/65535/65536/2^32, jobs 1..4, random partition into Write calls; img = real Writer image, imgr = independent builder image read by the real Reader, imgx = builder image with bytes replaced / cut at positions chosen with the independent parser (frame length field, mode byte, block length, checksum, data, end) read by the real Reader; distinct_nontrivial = distinct scenarios with at least one data byte (img, imgr) or an effectively changed image (imgx)",
		Gen:      imageGen,
		Exec:     imageExec,
	})
}
