/-
`inverseMergeTPSI (spec output of s) = s`: assembly of the scatter phase (Proofs/BWTMerge.lean) and the
decoding lanes, for one chunk (blocks below 256 bytes) and eight chunks.
-/
import Kanzi.Proofs.BWTMerge

namespace Kanzi.BWT

theorem usub1_succ (x : Nat) (h : x + 1 < 2 ^ 64) : usub1 (x + 1) = x := by
  unfold usub1; omega

theorem toInt32_small (x : Nat) (h : x < 2 ^ 31) : toInt32 x = Int.ofNat x := by
  unfold toInt32
  have : x % 2 ^ 32 = x := Nat.mod_eq_of_lt (by omega)
  simp only [this, h, ite_true]

theorem bwtData_length (s : List Nat) (hs : 1 ≤ s.length) : (bwtData s).length = s.length := by
  rw [← entries_keys, List.length_map, entries_length s hs]

/-! ### the scatter phase on the spec output -/

theorem scatter_model (s : List Nat) (hs : 1 ≤ s.length) (hb : ∀ x ∈ s, x < 256) (data0 : Array Nat)
    (hsz : s.length ≤ data0.size) :
    ∃ bk1 d1 bk2 d2 bk3 d3,
      put (exclSums (histogram (bwtData s).toArray) 0) data0 ((bwtData s).toArray.getD 0 0)
        (0xFF00 + (bwtData s).toArray.getD 0 0) = some (bk1, d1) ∧
      fillRange (bwtData s).toArray 1 (zpos s) 1 bk1 d1 = some (bk2, d2) ∧
      fillRange (bwtData s).toArray 0 (s.length - (zpos s + 1)) (zpos s + 1) bk2 d2 = some (bk3, d3) ∧
      Table s d3 ∧ d3.size = data0.size ∧ (∀ a, s.length ≤ a → rd d3 a = rd data0 a) := by
  have hz := zpos_lt s hs
  have hlen := bwtData_length s hs
  have hstart : ∀ c, c < 256 → rd (exclSums (histogram (bwtData s).toArray) 0) c
      = below (fun e : Nat × Nat => e.1) (entries s) c := by
    intro c hc
    rw [starts_rd _ _ _ hc, below_map, entries_keys]
    simp
  obtain ⟨bk', data', hrun, hsize, hT, hU⟩ :=
    scatter_words s hs hb _ data0 (exclSums_size _ _) hsz hstart
  rw [← model_entries s hs] at hrun
  simp only [putList] at hrun
  have hrd0 : (bwtData s).toArray.getD 0 0 = rd (bwtData s).toArray 0 := rfl
  rw [hrd0]
  cases hput : put (exclSums (histogram (bwtData s).toArray) 0) data0 (rd (bwtData s).toArray 0)
      (0xFF00 + rd (bwtData s).toArray 0) with
  | none => rw [hput] at hrun; simp at hrun
  | some r1 =>
    rw [hput] at hrun
    simp only at hrun
    obtain ⟨r2, h2, h3⟩ := putList_append_some hrun
    refine ⟨r1.1, r1.2, r2.1, r2.2, bk', data', rfl, ?_, ?_, ⟨by omega, hT⟩, hsize, hU⟩
    · rw [fillRange_eq _ _ _ _ _ _ (by simp [hlen]; omega)]; exact h2
    · rw [fillRange_eq _ _ _ _ _ _ (by simp [hlen]; omega)]; exact h3

/-! ### the decoding phase -/

theorem pay_zero (s : List Nat) (hs : 1 ≤ s.length) : pay s 0 = zpos s := by
  have : ¬ 0 = s.length := by omega
  simp [pay, this]

theorem indexes_getD (s : List Nat) (rest : List Nat) (k : Nat) (hk : k < getBWTChunks s.length) :
    (bwtIndexes s ++ rest).getD k 0
      = (sa s).idxOf (k * chunkSize s.length (getBWTChunks s.length)) + 1 := by
  have hl : k < (bwtIndexes s).length := by simp [bwtIndexes, hk]
  rw [List.getD_eq_getElem?_getD, List.getElem?_append_left hl]
  simp [bwtIndexes, hk, rowOf]

theorem ck8 (n : Nat) : (if (n >>> 3) * 8 ≠ n then (n >>> 3) + 1 else n >>> 3) = chunkSize n 8 := by
  simp [chunkSize, Nat.shiftRight_eq_div_pow]

theorem chunkSize8_bounds (n : Nat) (h : 256 ≤ n) :
    7 * chunkSize n 8 < n ∧ n ≤ 8 * chunkSize n 8 ∧ 0 < chunkSize n 8 := by
  unfold chunkSize
  split <;> omega

theorem decode_one (s : List Nat) (hs : 1 ≤ s.length) (hb : ∀ x ∈ s, x < 256) (data : Array Nat)
    (hT : Table s data) (pidx : List Nat) (hc : getBWTChunks s.length ≠ 8) :
    mergeDecode data pidx s.length (zpos s + 1) = .ok s.toArray := by
  have h := lanesRun_table s hb data hT s.length [(0, #[])] (by simp)
  simp only [List.map_cons, List.map_nil, conc, pay_zero s hs] at h
  simp only [mergeDecode, hc, ne_eq, not_false_eq_true, ite_true, Nat.add_sub_cancel,
    Array.emptyWithCapacity_eq, h]
  congr 1
  apply Array.ext'
  rw [concatLanes_toList]
  simp [adv]

theorem decode_eight (s : List Nat) (hb : ∀ x ∈ s, x < 256) (data : Array Nat)
    (hT : Table s data) (hd : data.size < 2 ^ 31) (rest : List Nat) (hc : getBWTChunks s.length = 8) :
    mergeDecode data (bwtIndexes s ++ rest) s.length (zpos s + 1) = .ok s.toArray := by
  have hn : 256 ≤ s.length := by
    unfold getBWTChunks THRESHOLD1 at hc
    split at hc <;> omega
  obtain ⟨hck1, hck2, hck3⟩ := chunkSize8_bounds s.length hn
  have hsz := hT.1
  -- the eight start positions
  have hts : (List.range 8).map (fun k => toInt32 (usub1 ((bwtIndexes s ++ rest).getD k 0)))
      = (List.range 8).map (fun k => Int.ofNat (pay s (k * chunkSize s.length 8))) := by
    apply List.map_congr_left
    intro k hk
    have hk8 : k < 8 := List.mem_range.1 hk
    rw [indexes_getD s rest k (by rw [hc]; exact hk8), hc]
    have hpos : k * chunkSize s.length 8 < s.length := by
      have : k * chunkSize s.length 8 ≤ 7 * chunkSize s.length 8 := Nat.mul_le_mul_right _ (by omega)
      omega
    have hidx : (sa s).idxOf (k * chunkSize s.length 8) < s.length := by
      have := List.idxOf_lt_length_iff.2 (mem_sa.2 hpos)
      rwa [sa_length] at this
    rw [usub1_succ _ (by omega), toInt32_small _ (by omega)]
    have : ¬ k * chunkSize s.length 8 = s.length := by omega
    simp [pay, this]
  have hpaylt : ∀ k, k < 8 → pay s (k * chunkSize s.length 8) < s.length := by
    intro k hk8
    have hpos : k * chunkSize s.length 8 < s.length := by
      have : k * chunkSize s.length 8 ≤ 7 * chunkSize s.length 8 := Nat.mul_le_mul_right _ (by omega)
      omega
    have : ¬ k * chunkSize s.length 8 = s.length := by omega
    simp only [pay, this, ite_false]
    have := List.idxOf_lt_length_iff.2 (mem_sa.2 hpos)
    rwa [sa_length] at this
  have hneg : ((List.range 8).map (fun k => Int.ofNat (pay s (k * chunkSize s.length 8)))).any (· < 0) = false := by
    rw [List.any_eq_false]
    intro x hx
    obtain ⟨k, _, rfl⟩ := List.mem_map.1 hx
    simp
  have hbig : ((List.range 8).map (fun k => Int.ofNat (pay s (k * chunkSize s.length 8)))).any
      (fun t => t ≥ toInt32 data.size) = false := by
    rw [List.any_eq_false]
    intro x hx
    obtain ⟨k, hk, rfl⟩ := List.mem_map.1 hx
    have := hpaylt k (List.mem_range.1 hk)
    rw [toInt32_small _ hd]
    simp only [Int.ofNat_eq_natCast, ge_iff_le, Int.ofNat_le, decide_eq_true_eq]
    omega
  have hlanes : ((List.range 8).map (fun k => Int.ofNat (pay s (k * chunkSize s.length 8)))).map
      (fun t => (t.toNat, Array.emptyWithCapacity (chunkSize s.length 8)))
      = ((List.range 8).map (fun k => (k * chunkSize s.length 8, (#[] : Array Nat)))).map (conc s) := by
    simp [List.map_map, Function.comp_def, conc]
  have hrun1 := lanesRun_table s hb data hT (s.length - chunkSize s.length 8 * 7)
    ((List.range 8).map (fun k => (k * chunkSize s.length 8, (#[] : Array Nat))))
    (by
      intro l hl
      obtain ⟨k, hk, rfl⟩ := List.mem_map.1 hl
      have hk8 := List.mem_range.1 hk
      have : k * chunkSize s.length 8 ≤ 7 * chunkSize s.length 8 := Nat.mul_le_mul_right _ (by omega)
      simp only; omega)
  -- second run on the first seven lanes
  have hsplit : (List.range 8) = List.range 7 ++ [7] := List.range_succ
  have htake : List.take 7 ((((List.range 8).map (fun k => (k * chunkSize s.length 8, (#[] : Array Nat)))).map
      (adv s (s.length - chunkSize s.length 8 * 7))).map (conc s))
      = (((List.range 7).map (fun k => (k * chunkSize s.length 8, (#[] : Array Nat)))).map
      (adv s (s.length - chunkSize s.length 8 * 7))).map (conc s) := by
    rw [hsplit]
    simp only [List.map_append]
    exact List.take_left' (by simp)
  have hdrop : List.drop 7 ((((List.range 8).map (fun k => (k * chunkSize s.length 8, (#[] : Array Nat)))).map
      (adv s (s.length - chunkSize s.length 8 * 7))).map (conc s))
      = [conc s (adv s (s.length - chunkSize s.length 8 * 7) (7 * chunkSize s.length 8, #[]))] := by
    rw [hsplit]
    simp only [List.map_append]
    rw [List.drop_left' (by simp)]
    rfl
  have hrun2 := lanesRun_table s hb data hT (chunkSize s.length 8 - (s.length - chunkSize s.length 8 * 7))
    (((List.range 7).map (fun k => (k * chunkSize s.length 8, (#[] : Array Nat)))).map
      (adv s (s.length - chunkSize s.length 8 * 7)))
    (by
      intro l hl
      obtain ⟨l0, hl0, rfl⟩ := List.mem_map.1 hl
      obtain ⟨k, hk, rfl⟩ := List.mem_map.1 hl0
      have hk7 := List.mem_range.1 hk
      have h1 : k * chunkSize s.length 8 + chunkSize s.length 8 ≤ 7 * chunkSize s.length 8 := by
        have : (k + 1) * chunkSize s.length 8 ≤ 7 * chunkSize s.length 8 := Nat.mul_le_mul_right _ (by omega)
        rw [Nat.succ_mul] at this; exact this
      simp only [adv]; omega)
  simp only [mergeDecode, hc, ne_eq, not_true_eq_false, ite_false, ck8, hts, hneg, hbig,
    Bool.false_eq_true, hlanes, hrun1, htake, hdrop, hrun2]
  have h7 : ¬ 7 * chunkSize s.length 8 > s.length := by omega
  simp only [h7, ite_false]
  congr 1
  apply Array.ext'
  rw [concatLanes_toList]
  simp only [List.map_append, List.map_map, List.map_cons, List.map_nil, Function.comp_def, conc,
    adv_adv, List.flatten_append]
  have e1 : s.length - chunkSize s.length 8 * 7 + (chunkSize s.length 8 - (s.length - chunkSize s.length 8 * 7))
      = chunkSize s.length 8 := by omega
  simp only [e1, adv, Array.toList_append, List.toList_toArray, Array.toList_empty, List.nil_append,
    List.flatten_cons, List.flatten_nil, List.append_nil]
  rw [flatten_slices]
  have e2 : (s.drop (7 * chunkSize s.length 8)).take (s.length - chunkSize s.length 8 * 7)
      = s.drop (7 * chunkSize s.length 8) := by
    apply List.take_of_length_le
    rw [List.length_drop]; omega
  rw [e2, List.take_append_drop]

/-- `inverseMergeTPSI` on the spec output of `s` restores `s`, whatever the old contents of the work
buffer (shorter than 2^31 entries) and of the unused index slots. -/
theorem mergeTPSI_spec (s : List Nat) (hs : 2 ≤ s.length) (hn : s.length < 2 ^ 31)
    (hb : ∀ x ∈ s, x < 256) (buf : Array Nat) (hbuf : buf.size < 2 ^ 31) (rest : List Nat) :
    (mergeTPSI buf (bwtIndexes s ++ rest) (bwtData s).toArray).1 = .ok s.toArray := by
  have hs1 : 1 ≤ s.length := by omega
  have hz := zpos_lt s hs1
  have hlen := bwtData_length s hs1
  have hchunks : 0 < getBWTChunks s.length := by unfold getBWTChunks; split <;> omega
  have hp0 : (bwtIndexes s ++ rest).getD 0 0 = zpos s + 1 := by
    rw [indexes_getD s rest 0 hchunks]; simp
  have hsize : (bwtData s).toArray.size = s.length := by simp [hlen]
  obtain ⟨bk1, d1, bk2, d2, bk3, d3, h1, h2, h3, hT, hd3, _⟩ :=
    scatter_model s hs1 hb (ensureBuf buf (max s.length 256))
      (Nat.le_trans (Nat.le_max_left _ _) (ensureBuf_size_ge _ _))
  have hcond : ¬ (zpos s + 1 = 0 ∨ zpos s + 1 ≥ 2 ^ 63 ∨ zpos s + 1 > s.length) := by omega
  simp only [mergeTPSI, hp0, hsize, hcond, ite_false, h1, Nat.add_sub_cancel, h2, h3]
  by_cases hc : getBWTChunks s.length = 8
  · apply decode_eight s hb d3 hT ?_ rest hc
    rw [hd3]
    unfold ensureBuf
    split
    · simp only [Array.size_replicate]; omega
    · exact hbuf
  · exact decode_one s hs1 hb d3 hT _ hc

end Kanzi.BWT
