"""Per-property configuration of bin/check: theorems (proof obligations), correspondence /
search streams, fact bases, trusted base.  MANIFEST.json is generated from this (bin/mkmanifest)."""

def T(module, *names, partial=False):
    return [{"module": module, "name": n, "partial": partial} for n in names]

PROPS = {}

PROPS["C16"] = {
    "title": "Frequency scaling always yields a valid table",
    "design_ref": "5.16",
    "level": "proof",
    "technique": "Lean 4 theorem (all histograms, all scales) over a hand-written model of NormalizeFrequencies + differential correspondence model<->Go",
    "theorems": T("Kanzi.Properties.C16", "Kanzi.C16.C16_normalize", "Kanzi.C16.C16_errors", "Kanzi.C16.C16_no_overflow"),
    "streams": [{"name": "norm", "kmodel": "norm"}],
    "level_text": "PROOF: for every histogram over <=256 symbols with positive total and every scale in [256,65536] the model of NormalizeFrequencies returns a table that sums to scale, preserves the support and lists it in increasing order (Lean theorem C16_normalize, no bound on counts). The model is tied to the Go function on every run by the `norm` correspondence (tens of thousands of histograms incl. exhaustive small families; outputs compared entry by entry) and the property oracle is evaluated on the real function for each of them.",
    "level_note": "Trusted: Lean kernel (axioms propext/Classical.choice/Quot.sound), the transcription of the Go function into Kanzi/Model/Normalize.lean as checked by the differential stream (generator-bounded), caller contract totalFreq = sum(freqs) (inputs violating it are outside the model and refused with `pre`).",
    "assumptions": ["caller passes totalFreq = sum of freqs (true at all three call sites)", "Go int is 64-bit (C16_no_overflow bounds intermediates below 2^63 for totals < 2^31)"],
}

C07_THMS = ["C07_enc_mutex","C07_dec_mutex","C07_enc_ordered","C07_dec_ordered","C07_enc_progress","C07_dec_progress",
            "C07_enc_measure_mono","C07_dec_measure_mono","C07_enc_measure_init","C07_dec_measure_init",
            "C07_enc_cancel_stable","C07_dec_cancel_stable","C07_enc_crit_failure_blocks","C07_dec_crit_failure_blocks",
            "C07_failure_reported","C07_first_failure","C04_schedule_independent","C05_schedule_independent","C07_runTrace_sound"]

PROPS["C07"] = {
    "title": "Block hand-off protocol: exclusive, ordered, and always terminating",
    "design_ref": "5.7",
    "level": "proof",
    "technique": "Lean 4 invariant proofs for every N and every interleaving over a step-function model of the atomic-counter protocol; hook traces of the real code replayed through the same step functions",
    "theorems": T("Kanzi.Properties.C07", *["Kanzi.C07." + n for n in C07_THMS]),
    "streams": [{"name": "proto", "kmodel": "proto", "timeout": 1200}],
    "level_text": "PROOF for every number of tasks N and every reachable state (all interleavings, failure at any step): mutual exclusion on the shared stream, blocks appended/taken in id order exactly once, deadlock freedom with a measure bounded by 9N (every weakly fair run terminates), cancel value stable, a failure while holding the token blocks all later tasks, batch result = first failed task. Tie: the real encode/decode tasks run under the build-tag hook with perturbed schedules and injected failures; every recorded atomic action (with the counter value it observed) must be an enabled transition of encStep/decStep and the batch outcome must match.",
    "level_note": "Trusted: Lean kernel; the protocol model Kanzi/Model/Protocol.lean (atomic actions of encode/decode transcribed by hand, tied by trace replay of hook-instrumented real runs: the hook serialises each atomic op between PRE/POST calls so the recorded order is the real order); Go memory model / sync.WaitGroup semantics are not modelled; 'stop promptly' is formalised as bounded own steps + stable cancel.",
    "assumptions": ["sync/atomic operations are sequentially consistent (Go memory model)", "WaitGroup.Wait returns only after every Done"],
}

PROPS["C03"] = {
    "title": "Decoder is total: arbitrary input never crashes or hangs the process",
    "design_ref": "5.3",
    "level": "proof",
    "technique": "PARTIAL Lean proof: recover discipline decided over a fact base regenerated from /repo on every run + protocol termination theorems for every N; codec internals searched by structure-aware mutation in child processes",
    "facts": ["GoSites"],
    "theorems": T("Kanzi.Properties.C03_facts", "Kanzi.C03.C03_every_panic_site_recovered", "Kanzi.C03.C03_facts_nonvacuous")
              + T("Kanzi.Properties.C07", "Kanzi.C07.C07_dec_progress", "Kanzi.C07.C07_dec_measure_mono", "Kanzi.C07.C07_dec_measure_init", "Kanzi.C07.C07_dec_cancel_stable"),
    "streams": [],
    "level_text": "PARTIAL PROOF. Proved: (1) every `go` statement of the library spawns a function with a deferred recover and the caller-goroutine entry points recover (theorem by `decide` over Generated/GoSites.lean, which is re-extracted from /repo's AST on every run, so a new unrecovered goroutine breaks the proof); (2) the decode hand-off protocol has no deadlock or endless wait for any number of tasks and any failure placement (C07_dec_progress etc.). NOT proved: termination and memory safety inside each codec's Inverse/Read on attacker-controlled data; those are only searched (structure-aware mutations decoded in child processes with a watchdog).",
    "level_note": "Trusted: Lean kernel; the syntactic fact extractor harness/cmd/kv/facts_ast.go (go/parser; one level of callee resolution; self-tested); the protocol model tied by hook traces (see C07). Codec internals are outside the model.",
    "assumptions": ["a deferred recover at the top of every spawned function converts every panic of that goroutine into a task error", "codec Inverse/Read loops terminate (searched, not proved)"],
}

PROPS["C18"] = {
    "title": "Independent streams do not interfere and internals are race-free",
    "design_ref": "5.18",
    "level": "proof",
    "technique": "PARTIAL Lean proof: no package-level variable is written after init (decided over a fact base regenerated from /repo) + protocol mutual-exclusion theorems; data races observed with the race detector under perturbed schedules",
    "facts": ["Globals"],
    "theorems": T("Kanzi.Properties.C18_facts", "Kanzi.C18.C18_globals_readonly", "Kanzi.C18.C18_global_aliases_reviewed", "Kanzi.C18.C18_facts_nonvacuous")
              + T("Kanzi.Properties.C07", "Kanzi.C07.C07_enc_mutex", "Kanzi.C07.C07_dec_mutex"),
    "streams": [],
    "level_text": "PARTIAL PROOF. Proved: (1) every package-level variable of the library is written only by init / its own initialiser, and every place where a reference into a global table escapes is pinned and reviewed (theorems by `decide` over Generated/Globals.lean, re-extracted from /repo's AST on every run); (2) the shared bitstream is accessed by at most one task at a time for every N and every interleaving (C07 mutex theorems). NOT proved: the Go memory model itself and accesses inside codecs (e.g. inverse BWT workers writing disjoint ranges) - observed only, with the race detector under hook-perturbed schedules.",
    "level_note": "Trusted: Lean kernel; the syntactic extractor (writes through aliases are listed as aliases, not proved absent); race detector for the observed part.",
    "assumptions": ["reads of immutable package-level tables need no synchronisation", "writes through the reviewed aliases do not occur (reviewed by hand, pinned by C18_global_aliases_reviewed)"],
}

HOOK_COMMITS = ["a321cbc"]

# properties not (yet) claimed: reason shown in MANIFEST.not_applicable
NOT_APPLICABLE = {}
