package main

// Correspondence stream "jobs" (C05/C01: distribution of jobs among block tasks and of the 8 BWT
// chunks among the inverse-BWT goroutines):
//
//	jp <jobs> <tasks>  -> ok a b c ...   the entries of internal.ComputeJobsPerTask(make([]uint, tasks), jobs, tasks)
//	                      | err tasks | err jobs | panic | cap (tasks > 2^22, not executed)
//
// The function lives in an internal package; it is reached through the add-only hook
// io.VerifComputeJobsPerTask (/repo/v2/io/verif_export.go, build tag verif).
//
// Oracle (independent of the Lean model): tasks = 0 or jobs = 0 must be rejected; otherwise no
// error, exactly `tasks` entries, every entry >= 1; for jobs >= tasks the entries sum to exactly
// `jobs` and differ by at most 1 (larger ones first); for jobs < tasks they are all 1.

import (
	"fmt"
	"math/rand"
	"strconv"
	"strings"

	kio "github.com/flanglet/kanzi-go/v2/io"
)

const jobsCap = 1 << 22

func init() {
	registerStream(&Stream{
		Name: "jobs",
		Rule: "jp: every (jobs, tasks) in [0,70]^2 (quick) / [0,260]^2 (thorough); the BWT call shape jobs=8, tasks=min(J,8) and jobs=1,tasks=1 for J in 1..64; boundaries jobs = k*tasks-1, k*tasks, k*tasks+1 for random tasks; random log-uniform jobs <= 10^6, tasks <= 2048; large tasks (up to 10^6) with jobs <= tasks or a small remainder; distinct_nontrivial = distinct ops with jobs > 0 and tasks > 0 (the distribution code runs)",
		Gen:  jobsGen,
		Exec: jobsExec,
	})
}

func jobsOp(jobs, tasks uint64) string {
	return "jp " + strconv.FormatUint(jobs, 10) + " " + strconv.FormatUint(tasks, 10)
}

// log-uniform integer in [1, hi]
func jobsLogUniform(r *rand.Rand, hi uint64) uint64 {
	bits := 0
	for (uint64(1) << bits) <= hi {
		bits++
	}
	for {
		b := 1 + r.Intn(bits)
		v := uint64(r.Int63n(int64(1)<<b)) | (uint64(1) << (b - 1))
		if v >= 1 && v <= hi {
			return v
		}
	}
}

func jobsGen(r *rand.Rand, tier string, n int, emit func(op string, tags ...string)) {
	// 1. exhaustive small square
	lim := uint64(70)
	if tier == "thorough" {
		lim = 260
	}
	for j := uint64(0); j <= lim; j++ {
		for t := uint64(0); t <= lim; t++ {
			emit(jobsOp(j, t), "family:exhaustive")
		}
	}
	// 2. the call shape of BWT.inverseBiPSIv2: chunks in {1, 8}, nbTasks = min(jobs, chunks)
	for J := uint64(1); J <= 64; J++ {
		for _, chunks := range []uint64{1, 8} {
			emit(jobsOp(chunks, min(J, chunks)), "family:bwt")
		}
	}
	// 3. boundaries around multiples
	nb := 300
	if tier == "thorough" {
		nb = 3000
	}
	for i := 0; i < nb; i++ {
		t := jobsLogUniform(r, 2048)
		k := jobsLogUniform(r, 1000000/t)
		for _, d := range []int64{-1, 0, 1} {
			j := int64(k*t) + d
			if j < 0 {
				continue
			}
			emit(jobsOp(uint64(j), t), "family:multiple"+fmt.Sprintf("%+d", d))
		}
	}
	// 4. random
	if n == 0 {
		n = 3000
		if tier == "thorough" {
			n = 40000
		}
	}
	for i := 0; i < n; i++ {
		emit(jobsOp(jobsLogUniform(r, 1000000), jobsLogUniform(r, 2048)), "family:random")
	}
	// 5. many tasks: jobs <= tasks (all ones) or a small remainder (the model's increment loop is
	// quadratic in the remainder, the Go one is linear)
	big := 6
	if tier == "thorough" {
		big = 30
	}
	for i := 0; i < big; i++ {
		t := 100000 + uint64(r.Intn(900001))
		emit(jobsOp(1+uint64(r.Int63n(int64(t))), t), "family:big-fewer-jobs")
		emit(jobsOp(t, t), "family:big-equal")
		emit(jobsOp(t*uint64(1+r.Intn(9))+uint64(r.Intn(1500)), t), "family:big-small-remainder")
	}
	// 6. degenerate / limits
	emit(jobsOp(0, 0), "family:degenerate")
	emit(jobsOp(1000000, 0), "family:degenerate")
	emit(jobsOp(0, 1000000), "family:degenerate")
	emit(jobsOp(1<<63, 1), "family:degenerate")
	emit(jobsOp(1<<64-1, 1), "family:degenerate")
	emit(jobsOp(1<<64-1, 7), "family:degenerate")
	emit(jobsOp(jobsCap, jobsCap), "family:degenerate")
	emit(jobsOp(3*jobsCap+2, jobsCap), "family:degenerate")
	emit(jobsOp(5, jobsCap+1), "family:degenerate")
}

// runJobs calls the real function; panics are mapped to a token
func runJobs(jobs, tasks uint64) (out []uint, errClass string, perr string) {
	defer func() {
		if p := recover(); p != nil {
			perr = fmt.Sprint(p)
		}
	}()
	res, err := kio.VerifComputeJobsPerTask(uint(jobs), uint(tasks))
	if err != nil {
		if strings.Contains(err.Error(), "tasks") {
			return nil, "tasks", ""
		}
		if strings.Contains(err.Error(), "jobs") {
			return nil, "jobs", ""
		}
		return nil, "other", ""
	}
	return res, "", ""
}

// property oracle on the real result
func jobsOracle(jobs, tasks uint64, out []uint, errClass, perr string) string {
	if perr != "" {
		return "panic: " + perr
	}
	if tasks == 0 || jobs == 0 {
		if errClass == "" {
			return fmt.Sprintf("jobs=%d tasks=%d accepted", jobs, tasks)
		}
		return ""
	}
	if errClass != "" {
		return "unexpected error " + errClass
	}
	if uint64(len(out)) != tasks {
		return fmt.Sprintf("%d entries for %d tasks", len(out), tasks)
	}
	var sum, lo, hi uint64
	lo = ^uint64(0)
	for i, v := range out {
		x := uint64(v)
		if sum+x < sum {
			return "sum overflows"
		}
		sum += x
		lo, hi = min(lo, x), max(hi, x)
		if i > 0 && uint64(out[i-1]) < x {
			return fmt.Sprintf("entry %d (%d) larger than entry %d (%d)", i, x, i-1, out[i-1])
		}
	}
	if lo < 1 {
		return "a task got 0 jobs"
	}
	if jobs < tasks {
		if hi != 1 {
			return fmt.Sprintf("jobs < tasks but max entry %d", hi)
		}
		return ""
	}
	if sum != jobs {
		return fmt.Sprintf("sum %d != jobs %d", sum, jobs)
	}
	if hi-lo > 1 {
		return fmt.Sprintf("entries differ by %d (min %d max %d)", hi-lo, lo, hi)
	}
	return ""
}

func jobsExec(op string, res *Result) string {
	w := strings.Fields(op)
	if len(w) != 3 || w[0] != "jp" {
		return "bad-op"
	}
	jobs, e1 := strconv.ParseUint(w[1], 10, 64)
	tasks, e2 := strconv.ParseUint(w[2], 10, 64)
	if e1 != nil || e2 != nil {
		return "bad-op"
	}
	if tasks > jobsCap {
		res.Tags = append(res.Tags, "case:cap")
		return "cap"
	}
	out, errClass, perr := runJobs(jobs, tasks)
	if msg := jobsOracle(jobs, tasks, out, errClass, perr); msg != "" {
		res.Violation = &Violation{Kind: "input", Site: "internal.ComputeJobsPerTask", Symptom: "bad-partition", What: msg}
	}
	res.Sample = map[string]any{"jobs": jobs, "tasks": tasks}
	switch {
	case perr != "":
		res.Tags = append(res.Tags, "case:panic")
		return "panic"
	case errClass != "":
		res.Tags = append(res.Tags, "case:err-"+errClass)
		return "err " + errClass
	}
	res.Nontrivial = true
	switch {
	case jobs < tasks:
		res.Tags = append(res.Tags, "case:jobs<tasks")
	case jobs%tasks == 0:
		res.Tags = append(res.Tags, "case:even")
	default:
		res.Tags = append(res.Tags, "case:remainder")
	}
	var sb strings.Builder
	sb.Grow(3 + 8*len(out))
	sb.WriteString("ok")
	for _, v := range out {
		sb.WriteByte(' ')
		sb.WriteString(strconv.FormatUint(uint64(v), 10))
	}
	return sb.String()
}
