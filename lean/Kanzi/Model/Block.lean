/-
Block codec for transform NONE + entropy NONE, and the byte image of a whole stream
(/repo/v2/io/CompressedStream.go: `encodingTask.encode`, `decodingTask.decode`, the result loop of
`(*Reader).processBlock`; /repo/v2/transform/Sequence.go + NullTransform.go;
/repo/v2/entropy/NullEntropyCodec.go).  Core Lean only.

Payload of one block (bits, MSB first), as written by `encode` into the task-local bitstream:

    mode 8 | [skipFlags 8, only when mode&0x10] | length 8·dataSize | [checksum 32|64] | entropy coded data

  mode = 0x80 (copy block: forced NONE/NONE, taken when the block has ≤ 15 bytes)
       | ((dataSize-1)&3) << 5       dataSize = bytes of the length field
       | skipFlags >> 4              (sequences of ≤ 4 transforms)

For NONE the sequence is ONE NullTransform which always succeeds: `Forward` starts from
skipFlags = 0xFF and clears bit 7, so skipFlags = 0x7F and the low nibble of the mode byte is 0x7 — for
copy blocks too (the encoder builds the sequence after forcing NONE and runs the same code).
The NONE entropy coder writes the bytes as they are (`WriteArray`).

`decodeTask` mirrors `decode` after the frame was taken from the shared stream: the payload is
handed over as a byte array (`ReadArray` zero-pads the last byte: `padToByte`), a local bitstream
over it is read; running out of bits panics, recovered into ERR_PROCESS_BLOCK (`Err.eos`).
With the NONE sequence the inverse transform is a copy whatever the skip flags are (bit 7 clear:
NullTransform.Inverse = copy; bit 7 set: skipped = copy; bits 0..6 address transforms that do not
exist), so the skip flags are parsed (an extra byte is consumed when mode&0x10) and otherwise unused.
-/
import Kanzi.Spec.Bits
import Kanzi.Model.XXHash
import Kanzi.Model.Header
import Kanzi.Model.Container

namespace Kanzi.Block
open Kanzi.Bits

/-- error classes of `decodingTask.decode` for NONE/NONE -/
inductive Err where
  | eos        -- the task-local bitstream ran out of bits (panic recovered: ERR_PROCESS_BLOCK)
  | size       -- "Invalid compressed block size" (ERR_BLOCK_SIZE)
  | crc        -- "Corrupted bitstream: expected checksum …" (ERR_CRC_CHECK)
deriving DecidableEq, Repr

/-! ### checksum -/

def hashBytes (data : List Nat) : List XXHash.Byte := data.map (BitVec.ofNat 8)

/-- Go: `hasher32.Hash(data)` / `hasher64.Hash(data)` with the stream seed; `ck` = checksum width in
bits (0 = no hasher) -/
def checksum (ck : Nat) (data : List Nat) : Nat :=
  if ck = 32 then (XXHash.xxh32 (BitVec.ofNat 32 XXHash.streamSeed) (hashBytes data)).toNat
  else if ck = 64 then (XXHash.xxh64 (BitVec.ofNat 64 XXHash.streamSeed) (hashBytes data)).toNat
  else 0

/-- number of checksum bits in the payload -/
def ckWidth (ck : Nat) : Nat := if ck = 32 then 32 else if ck = 64 then 64 else 0

/-! ### encoder -/

/-- Go: `dataSize` — bytes of the length field: 1, or `Log2NoCheck(len)>>3 + 1` when len ≥ 256
(the Go code fails with "Invalid block data length" when this exceeds 4, i.e. len ≥ 2^32, which the
block size limit 2^30 excludes) -/
def dataSizeOf (n : Nat) : Nat := if n < 256 then 1 else Nat.log2 n / 8 + 1

/-- skip flags of the NONE sequence after `Forward`: 0xFF with bit 7 cleared -/
def noneSkipFlags : Nat := 0x7F

/-- Go: the mode byte written by `encode` for a NONE/NONE block of `n` bytes -/
def modeByte (n : Nat) : Nat :=
  (if n ≤ 15 then 0x80 else 0) ||| (((dataSizeOf n - 1) &&& 3) <<< 5) ||| (noneSkipFlags >>> 4)

/-- the payload of a NONE/NONE block with an arbitrary value `sum` in the checksum field -/
def encodeNoneWith (ck sum : Nat) (data : List Nat) : Bits :=
  natBits (modeByte data.length) 8 ++
  natBits data.length (8 * dataSizeOf data.length) ++
  natBits sum (ckWidth ck) ++
  ofBytes data

/-- Go: what `encode` writes into the task-local bitstream for transform NONE / entropy NONE:
mode, length, checksum of the block, the bytes -/
def encodeNone (ck : Nat) (data : List Nat) : Bits := encodeNoneWith ck (checksum ck data) data

/-! ### decoder -/

/-- Go: `ibs.ReadBits(n)` on the task-local bitstream -/
def readBits (n : Nat) (bs : Bits) : Except Err (Nat × Bits) :=
  if bs.length < n then .error .eos else .ok (bitsNat (bs.take n), bs.drop n)

/-- the frame is copied into a byte array by `ReadArray`: the last byte is zero padded, and the local
bitstream can read those padding bits -/
def padToByte (bs : Bits) : Bits := bs ++ List.replicate ((8 - bs.length % 8) % 8) false

/-- Go: `blkSize` of `(*Reader).processBlock` = `decodingTask.blockLength` -/
def taskBlockLength (B : Nat) : Nat := B + max 512 (B / 16)

/-- Go: `maxTransformLength` -/
def maxTransformLength (B : Nat) : Nat :=
  min (max (taskBlockLength B + taskBlockLength B / 2) 2048) (2 ^ 30)

/-- Go: `maxFrameLength << 3` — frames declared longer than this (or than 2^34 bits) are rejected
with "Invalid block size" before anything is read -/
def maxFrameBits (B : Nat) : Nat :=
  let m := max (maxTransformLength B) (256 * 1024)
  (m + m / 8 + 64) * 8

/-- bytes of a bit string whose length is a multiple of 8 (Go: `ReadArray(block, 8·n)`); fewer than
8 trailing bits are dropped -/
def toBytes : Bits → List Nat
  | b0 :: b1 :: b2 :: b3 :: b4 :: b5 :: b6 :: b7 :: rest =>
    bitsNat [b0, b1, b2, b3, b4, b5, b6, b7] :: toBytes rest
  | _ => []

/-- what a decoding task reports: `decoded` (Go: `res.decoded`, set once the inverse transform ran,
also when the checksum then fails) and the block or the error -/
structure DecRes where
  decoded : Nat
  out : Except Err (List Nat)

def DecRes.fail (e : Err) : DecRes := ⟨0, .error e⟩

/-- Go: `decodingTask.decode` from "Create a bitstream local to the task" on, for a stream whose
header says NONE/NONE.  `ck` = checksum width in bits, `B` = block size of the header. -/
def decodeTask (ck B : Nat) (payload : Bits) : DecRes :=
  match readBits 8 (padToByte payload) with
  | .error e => .fail e
  | .ok m =>
    let mode := m.1
    -- skip flags: none for a copy block, an extra byte when mode&0x10, else the low nibble
    match (if mode &&& 0x80 ≠ 0 then Except.ok (0, m.2)
           else if mode &&& 0x10 ≠ 0 then readBits 8 m.2
           else Except.ok (((mode <<< 4) ||| 0x0F) % 256, m.2)) with
    | .error e => .fail e
    | .ok sf =>
      let dataSize := 1 + ((mode >>> 5) &&& 3)
      match readBits (8 * dataSize) sf.2 with
      | .error e => .fail e
      | .ok l =>
        let pre := l.1
        if pre = 0 ∨ pre > maxTransformLength B then .fail .size
        else
          match readBits (ckWidth ck) l.2 with
          | .error e => .fail e
          | .ok c =>
            -- NONE entropy decoder: `ReadArray` of `pre` bytes
            if c.2.length < 8 * pre then .fail .eos
            else
              -- inverse of the NONE sequence: copy
              let data := toBytes (c.2.take (8 * pre))
              if ckWidth ck ≠ 0 ∧ checksum ck data ≠ c.1 then ⟨pre, .error .crc⟩
              else ⟨pre, .ok data⟩

def decodeNone (ck B : Nat) (payload : Bits) : Except Err (List Nat) := (decodeTask ck B payload).out

/-! ### whole stream -/

/-- the bits handed to the shared bitstream for a NONE/NONE stream: header, one frame per block, end
marker -/
def streamBits (h : Header.Header) (ck : Nat) (blocks : List (List Nat)) : Bits :=
  Header.headerBits h ++ blocks.flatMap (fun b => Container.frameBits (encodeNone ck b)) ++
    Container.endMarker

/-- the bytes at the sink after `Close`: the bits, zero padded to a byte -/
def streamImage (h : Header.Header) (ck : Nat) (blocks : List (List Nat)) : List Nat :=
  packBytes (streamBits h ck blocks)

/-- why reading a stream stopped -/
inductive Stop where
  | endOfStream                 -- end marker reached
  | header (e : Header.Err)     -- `readHeader` failed
  | unsupported                 -- header announces another codec than NONE/NONE (not modelled)
  | truncated                   -- the shared bitstream ran out of data inside / instead of a frame (ERR_PROCESS_BLOCK)
  | frameSize                   -- declared frame length too big: "Invalid block size" (ERR_BLOCK_SIZE)
  | block (e : Err)             -- the decoding task failed
  | oversize                    -- decoded more than the block size: "Block … incorrectly decompressed" (ERR_PROCESS_BLOCK)
deriving DecidableEq, Repr

/-- Go: what one decoding task does while it holds the token, in the order of the code: 5-bit width,
length, end marker test, "Invalid block size" test (2^34 bits and `maxFrameLength`, BEFORE any payload
bit is read), then `ReadArray` of the payload.  (`Container.parseFrame` is the same parser without
the `maxFrameLength` bound, which depends on the block size.) -/
def parseFrame (B : Nat) (bs : Bits) : Container.Parsed :=
  if bs.length < 5 then .eos
  else
    let lw := bitsNat (bs.take 5) + 3
    let r1 := bs.drop 5
    if r1.length < lw then .eos
    else
      let len := bitsNat (r1.take lw)
      let r2 := r1.drop lw
      if len = 0 then .endMark r2
      else if len > 2 ^ 34 ∨ len > maxFrameBits B then .tooBig
      else if r2.length < len then .eos
      else .frame (r2.take len) (r2.drop len)

/-- the frames of the stream after the header, up to the end marker or the first failure -/
def parseFrames (B : Nat) : Nat → Bits → List Container.Item
  | 0, _ => []
  | fuel + 1, bs =>
    match parseFrame B bs with
    | .frame p rest => .payload p :: parseFrames B fuel rest
    | .endMark _ => [.endMark]
    | .eos => [.truncated]
    | .tooBig => [.tooBig]

/-- Go: one decoding task after the other (jobs = 1) over the parsed frames, with the checks of the
result loop of `processBlock` (`r.decoded > blockSize` is tested before `r.err`).  Returns the blocks
delivered before the stop. -/
def decodeFrames (ck B : Nat) : List Container.Item → List (List Nat) × Stop
  | [] => ([], .truncated)
  | .endMark :: _ => ([], .endOfStream)
  | .truncated :: _ => ([], .truncated)
  | .tooBig :: _ => ([], .frameSize)
  | .payload p :: rest =>
    let r := decodeTask ck B p
    if r.decoded > B then ([], .oversize)
    else match r.out with
      | .error e => ([], .block e)
      | .ok d =>
        let t := decodeFrames ck B rest
        (d :: t.1, t.2)

/-- read a whole NONE/NONE stream from its bytes: header, frames, blocks -/
def parseImage (bytes : List Nat) : Option Header.Header × List (List Nat) × Stop :=
  match Header.parseHeader (ofBytes bytes) with
  | .error e => (none, [], .header e)
  | .ok hr =>
    let h := hr.1
    if h.entropyType ≠ 0 ∨ h.transformType ≠ 0 then (some h, [], .unsupported)
    else
      let r := decodeFrames (32 * h.ckSize) h.blockSize (parseFrames h.blockSize (hr.2.length + 1) hr.2)
      (some h, r.1, r.2)

/-! ### fast packing (used by the driver; equal to `packBytes`, see `Proofs/Block.lean`) -/

/-- pack 8 bits at a time, zero padding the last byte -/
def packFast : Bits → List Nat
  | b0 :: b1 :: b2 :: b3 :: b4 :: b5 :: b6 :: b7 :: rest =>
    bitsNat [b0, b1, b2, b3, b4, b5, b6, b7] :: packFast rest
  | [] => []
  | l => [bitsNat (l ++ List.replicate (8 - l.length) false)]

/-- `streamImage` computed with `packFast` (the driver prints this one) -/
def streamImageFast (h : Header.Header) (ck : Nat) (blocks : List (List Nat)) : List Nat :=
  packFast (streamBits h ck blocks)

end Kanzi.Block
