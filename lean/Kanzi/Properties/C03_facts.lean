/-
C03 (fact-base part) — every goroutine that runs codec code recovers from panics.

`Kanzi.Generated.GoSites` is REGENERATED from /repo on every check (`kv facts -which GoSites`, syntax
only: go/parser + go/ast).  The theorem below is `decide` over that term, so it stops compiling as
soon as /repo gains a `go` statement whose spawned function does not start a deferred `recover()`,
a new `go` statement in the CLI, or loses the recover in one of the caller-goroutine entry points.

Meaning of `recovers` (computed by the extractor, see harness/cmd/kv/facts_ast.go): the body of the
spawned function — the func literal itself, or the same-package function/method named in the `go`
statement (one level; the receiver type is inferred from the local declaration, otherwise ALL methods
of that name must qualify) — has, among its top-level statements, a `defer func() { … }()` whose
literal body (nested literals excluded) calls the builtin `recover()`.

Not covered: statements executed before that `defer` is reached, a deferred function that re-panics,
goroutines started by packages outside v2/{io,transform,entropy,bitstream,hash,internal,app}.
-/
import Kanzi.Generated.GoSites

namespace Kanzi.C03
open Kanzi.Generated

/-- Finding F12 (known, allow-listed): the CLI's per-file worker goroutines have no recover; only the
main goroutine is wrapped (`runWithRecovery` in app/Kanzi.go).  Harmless as long as no library call
panics on the caller's goroutine (that is what `callerSites` + the F2/F8 fixes are about).
Entries are (file, enclosing function, spawned callee); the list is compared for EQUALITY, so any
additional `go` statement in v2/app fails the theorem until it is reviewed and listed here. -/
def appAllowed : List (String × String × String) := [
  ("app/BlockCompressor.go", "BlockCompressor.Compress", "fileCompressWorker"),
  ("app/BlockDecompressor.go", "BlockDecompressor.Decompress", "fileDecompressWorker")]

/-- functions of v2/io that run codec or listener code on the CALLER's goroutine and therefore carry
their own deferred recover -/
def callerEntryPoints : List String := ["Reader.readHeader", "Writer.writeEndMarker", "notifyListeners"]

/-- C03_every_panic_site_recovered: (1) every `go` statement of the library packages spawns a function
that recovers; (2) the `go` statements of the CLI are exactly the allow-listed ones (F12);
(3) the three caller-goroutine entry points exist and recover. -/
theorem C03_every_panic_site_recovered :
    (∀ s ∈ goSites, s.pkg ≠ "app" → s.recovers = true) ∧
    (goSites.filter (fun s => s.pkg == "app")).map (fun s => (s.file, s.func, s.callee)) = appAllowed ∧
    callerSites.map (fun s => s.callee) = callerEntryPoints ∧
    (∀ s ∈ callerSites, s.recovers = true) := by
  decide

/-- the fact base is not vacuous: the extractor found the block-task goroutines of v2/io -/
theorem C03_facts_nonvacuous : ∃ s ∈ goSites, s.pkg = "io" ∧ s.recovers = true := by
  decide

end Kanzi.C03
